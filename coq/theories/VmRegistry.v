(* C18: Vm::register_native_function / Vm::_register_native_function / Vm::register_native_stdlib (vm.rs) on the
   table of callables. Definitions only; proofs in VmRegistryProofs.v.

   `callables: HandleTable<Procedure<Aux>>` is keyed by Handle::from_str(name) (FNV-1a-32 of the name, Bits.v);
   the model is an association list handle -> procedure with at most one entry per handle (HandleTable::insert on a
   present key overwrites key and value: C07).  A procedure = the registered name (what TaskFailure reports) and
   the host function.  Not modelled: the allocation failure of HandleTable::grow (OutOfMemory). *)
From Coq Require Import NArith ZArith List Bool.
From Cao Require Import ListUtil Bits Stacks Vm.
Import ListNotations.

(* the host function behind a procedure: one of the library's natives, or a function of the embedder *)
Inductive hostfn := StdFn (n : native) | UserFn (id : N).

Record proc := mkProc { pr_name : list N; pr_fun : hostfn }.

Definition registry := list (N * proc).

(* name.as_ref().starts_with("__") *)
Definition starts_reserved (name : list N) : bool :=
  match name with
  | 95%N :: 95%N :: _ => true
  | _ => false
  end.

Fixpoint reg_remove (h : N) (r : registry) : registry :=
  match r with
  | [] => []
  | (k, p) :: r' => if N.eqb h k then reg_remove h r' else (k, p) :: reg_remove h r'
  end.

(* HandleTable::insert(key, value): a present key is overwritten *)
Definition reg_insert (r : registry) (h : N) (p : proc) : registry := (h, p) :: reg_remove h r.

(* HandleTable::get *)
Definition reg_get (r : registry) (h : N) : option proc := assoc h r.

(* answer of a registration: Ok(()) or Err(InvalidArgument "Native function name may not begin with __") *)
Inductive regres := RegOk | RegRejected.

(* Vm::_register_native_function (private: used by register_native_stdlib) *)
Definition register_private (r : registry) (name : list N) (f : hostfn) : registry * regres :=
  (reg_insert r (handle_of_bytes name) (mkProc name f), RegOk).

(* Vm::register_native_function (public) *)
Definition register_public (r : registry) (name : list N) (f : hostfn) : registry * regres :=
  if starts_reserved name then (r, RegRejected) else register_private r name f.

Definition std_natives : list native := [NStdMin; NStdMax; NStdSort; NStdToArray].

(* Vm::new: an empty table, then register_native_stdlib *)
Definition vm_new_registry : registry :=
  fold_left (fun r n => fst (register_private r (native_name n) (StdFn n))) std_natives [].

(* a history of calls of the public entry *)
Fixpoint run_public (r : registry) (ops : list (list N * hostfn)) : registry * list regres :=
  match ops with
  | [] => (r, [])
  | (name, f) :: rest =>
      let '(r1, a) := register_public r name f in
      let '(r2, l) := run_public r1 rest in
      (r2, a :: l)
  end.

(* the menu of harness/src/vmrun.rs new_vm, in registration order *)
Definition harness_menu : list native :=
  [NLog1; NSub2; NFail0; NStr1; NMix3; NCall1; NTry1; NCall0; NT4; NNil1; NTab1; NCat2; NRb1].
Definition menu_registry : registry :=
  fst (run_public vm_new_registry (map (fun n => (native_name n, StdFn n)) harness_menu)).

(* call_native's lookup: `callables.get(handle)`; the procedure found decides which function runs and which name a
   TaskFailure carries *)
Definition accepted (op : list N * hostfn) : bool := negb (starts_reserved (fst op)).

(* the last accepted registration under handle h *)
Definition last_accepted (ops : list (list N * hostfn)) (h : N) : option (list N * hostfn) :=
  find (fun op => accepted op && N.eqb (handle_of_bytes (fst op)) h) (rev ops).

(* "tuewgsg": an ordinary name with Handle::from_str("tuewgsg") = Handle::from_str("__min") = 1036830421 *)
Definition name_collides_min : list N := [116; 117; 101; 119; 103; 115; 103]%N.
