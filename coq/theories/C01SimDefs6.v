(* C01, simulation: fragment F6r = F5 plus  Repeat n body  WITHOUT a loop variable.
   The count n is an expression of the fragment, evaluated once; the compiler keeps it and the round
   counter in two hidden locals (named "", slots above the locals of main) for the time of the loop
   and pops them behind it.  The body is a statement of the fragment: it may assign locals but not
   declare any, and the loop variable `i` of the card must be None.
   GAP towards the fragment F6 of the plan (Repeat with the loop variable and with a body that is a
   scope): RefSem allocates a new cell for the loop variable in every round and never frees cells, so
   cells and stack slots stop being the same sequence; C01SimRef5.st5 (cells = the locals in slot
   order) has to become a map from the visible locals to cells.  Not done.
   Definitions shared with F5 (find_first, slot, lmem, names_next, expr_gnames, sets_local, ...) are
   those of C01SimDefs5; the hidden locals are ordinary entries of the local store with the name "". *)
From Coq Require Import List NArith ZArith Bool.
From Cao Require Import ListUtil Bits CardAst Bytecode Compiler CompilerWf C01SimDefs C01SimDefs2 C01SimDefs4 C01SimDefs5.
From Cao Require RefSem Vm.
Import ListNotations.
Local Open Scope N_scope.

(* ------------------------------------------------------------------ syntax *)
Fixpoint stmt6 (Ln : list str) (c : card) : bool :=
  match c with
  | CSetGlobalVar g e => negb (is_empty g) && expr_f1 e
  | CSetVar x e => var_ok x && lmem x Ln && expr_f1 e
  | CComment _ => true
  | CBin BIfTrue e b | CBin BIfFalse e b | CBin BWhile e b => expr_f1 e && stmt6 Ln b
  | CTri TIfElse e a b => expr_f1 e && stmt6 Ln a && stmt6 Ln b
  | CComposite _ cs => forallb (stmt6 Ln) cs
  | CRepeat None n b => expr_f1 n && stmt6 ([] :: [] :: Ln) b
  | _ => false
  end.

Definition top6 (Ln : list str) (c : card) : bool :=
  match c with
  | CSetVar x e => var_ok x && expr_f1 e
  | _ => stmt6 Ln c
  end.
Fixpoint cards6 (Ln : list str) (cards : list card) : bool :=
  match cards with
  | [] => true
  | c :: r => top6 Ln c && cards6 (names_next Ln c) r
  end.
Definition in_f6 (M : module) : bool :=
  match M with
  | Module [] [(name, f)] [] =>
      str_eqb name s_main && (match f_args f with [] => true | _ => false end) &&
      cards6 [] (f_cards f)
  | _ => false
  end.

(* ------------------------------------------------------------------ code *)
Fixpoint code6 (T : list (N * N)) (Ln : list str) (base : N) (c : card) : list instr :=
  match c with
  | CSetGlobalVar g e => code_expr5 T Ln e ++ [ISetGlobalVar (idT T g)]
  | CSetVar x e => code_expr5 T Ln e ++ [ISetLocalVar (N.of_nat (set_slot Ln x))]
  | CBin BIfTrue e b =>
      let ce := code_expr5 T Ln e in
      let cb := code6 T Ln (base + bytes ce + 5) b in
      ce ++ IGotoIfFalse (u32_to_i32 (base + bytes ce + 5 + bytes cb)) :: cb
  | CBin BIfFalse e b =>
      let ce := code_expr5 T Ln e in
      let cb := code6 T Ln (base + bytes ce + 5) b in
      ce ++ IGotoIfTrue (u32_to_i32 (base + bytes ce + 5 + bytes cb)) :: cb
  | CBin BWhile e b =>
      let ce := code_expr5 T Ln e in
      let cb := code6 T Ln (base + bytes ce + 5) b in
      ce ++ IGotoIfFalse (u32_to_i32 (base + bytes ce + 5 + (bytes cb + 5))) :: cb ++ [IGoto (u32_to_i32 base)]
  | CTri TIfElse e a b =>
      let ce := code_expr5 T Ln e in
      let ca := code6 T Ln (base + bytes ce + 5) a in
      let else_at := base + bytes ce + 5 + bytes ca + 5 in
      let cb := code6 T Ln else_at b in
      ce ++ IGotoIfFalse (u32_to_i32 else_at) :: ca ++ IGoto (u32_to_i32 (else_at + bytes cb)) :: cb
  | CComposite _ cs =>
      (fix go (base : N) (l : list card) {struct l} : list instr :=
         match l with
         | [] => []
         | c :: r => let cc := code6 T Ln base c in cc ++ go (base + bytes cc) r
         end) base cs
  | CRepeat None n b =>
      let k := N.of_nat (length Ln) in
      let cn := code_expr5 T Ln n in
      let b0 := base + bytes cn + 19 in
      let cb := code6 T ([] :: [] :: Ln) (b0 + 16) b in
      cn ++ [ISetLocalVar k; IScalarInt 0; ISetLocalVar (k + 1)] ++
      [IReadLocalVar (k + 1); IReadLocalVar k; ILess; IGotoIfFalse (u32_to_i32 (b0 + 16 + bytes cb + 25))] ++
      cb ++ [IScalarInt 1; IReadLocalVar (k + 1); IAdd; ISetLocalVar (k + 1); IGoto (u32_to_i32 b0)] ++
      [IPop; IPop]
  | _ => []
  end.

(* a list of statements in one local context *)
Fixpoint code_seq6 (T : list (N * N)) (Ln : list str) (base : N) (cs : list card) : list instr :=
  match cs with
  | [] => []
  | c :: r => let cc := code6 T Ln base c in cc ++ code_seq6 T Ln (base + bytes cc) r
  end.
Lemma code6_composite T Ln base ty cs : code6 T Ln base (CComposite ty cs) = code_seq6 T Ln base cs.
Proof.
  revert base. induction cs as [|c r IH]; intros base; [reflexivity|].
  cbn [code_seq6]. rewrite <- IH. reflexivity.
Qed.

(* the cards of main: the local context grows *)
Fixpoint code_main6 (T : list (N * N)) (Ln : list str) (base : N) (cards : list card) : list instr :=
  match cards with
  | [] => []
  | c :: r => let cc := code6 T Ln base c in cc ++ code_main6 T (names_next Ln c) (base + bytes cc) r
  end.
(* the whole of main: its cards, one Pop per local, Exit *)
Definition code_all6 (T : list (N * N)) (cards : list card) : list instr :=
  code_main6 T [] 0 cards ++ repeat IPop (length (names_end [] cards)) ++ [IExit].

(* the GLOBAL names a card mentions in the local context Ln *)
Fixpoint stmt_gnames6 (Ln : list str) (c : card) : list str :=
  match c with
  | CSetGlobalVar g e => expr_gnames Ln e ++ [g]
  | CSetVar _ e => expr_gnames Ln e
  | CBin _ e b => expr_gnames Ln e ++ stmt_gnames6 Ln b
  | CTri _ e a b => expr_gnames Ln e ++ stmt_gnames6 Ln a ++ stmt_gnames6 Ln b
  | CComposite _ cs => flat_map (stmt_gnames6 Ln) cs
  | CRepeat _ n b => expr_gnames Ln n ++ stmt_gnames6 ([] :: [] :: Ln) b
  | _ => []
  end.
Fixpoint main_gnames6 (Ln : list str) (cards : list card) : list str :=
  match cards with
  | [] => []
  | c :: r => stmt_gnames6 Ln c ++ main_gnames6 (names_next Ln c) r
  end.

Fixpoint stmt_depth6 (c : card) : nat :=
  match c with
  | CSetGlobalVar _ e | CSetVar _ e => depth e
  | CBin _ e b => Nat.max (depth e) (stmt_depth6 b)
  | CTri _ e a b => Nat.max (depth e) (Nat.max (stmt_depth6 a) (stmt_depth6 b))
  | CComposite _ cs => fold_right (fun c m => Nat.max (stmt_depth6 c) m) 0%nat cs
  | CRepeat _ n b => Nat.max (depth n) (2 + Nat.max 2 (stmt_depth6 b))
  | _ => 0
  end.
Lemma stmt_depth6_composite ty cs c : In c cs -> (stmt_depth6 c <= stmt_depth6 (CComposite ty cs))%nat.
Proof.
  cbn [stmt_depth6]. induction cs as [|x r IH]; [intros []|]. intros [<-|Hin]; cbn [fold_right].
  - apply Nat.le_max_l.
  - etransitivity; [apply IH, Hin | apply Nat.le_max_r].
Qed.
(* every card fits the value stack above all the locals of main (and the one it may declare) *)
Definition depth_ok6 (cards : list card) : bool :=
  forallb (fun c => Nat.ltb (S (S (length (names_end [] cards) + stmt_depth6 c))) Vm.stack_size) cards.

(* ------------------------------------------------------------------ meaning *)
Fixpoint run6 (fuel : nat) (R : lstore) (g : gl) (c : card) : option (bool * lstore * gl) :=
  match fuel with
  | O => None
  | S f =>
      match c with
      | CSetGlobalVar n e =>
          match ev (R ++ g) e with
          | Some v => Some (true, R, RefSem.set_assoc n v g)
          | None => Some (false, R, g)
          end
      | CSetVar x e =>
          match ev (R ++ g) e with
          | Some v => Some (true, sets_local x v R, g)
          | None => Some (false, R, g)
          end
      | CBin BIfTrue e b =>
          match ev (R ++ g) e with
          | None => Some (false, R, g)
          | Some v => if RefSem.v_bool [] v then run6 f R g b else Some (true, R, g)
          end
      | CBin BIfFalse e b =>
          match ev (R ++ g) e with
          | None => Some (false, R, g)
          | Some v => if RefSem.v_bool [] v then Some (true, R, g) else run6 f R g b
          end
      | CBin BWhile e b =>
          match ev (R ++ g) e with
          | None => Some (false, R, g)
          | Some v =>
              if RefSem.v_bool [] v then
                match run6 f R g b with
                | Some (true, R1, g1) => run6 f R1 g1 c
                | other => other
                end
              else Some (true, R, g)
          end
      | CTri TIfElse e a b =>
          match ev (R ++ g) e with
          | None => Some (false, R, g)
          | Some v => if RefSem.v_bool [] v then run6 f R g a else run6 f R g b
          end
      | CComposite _ cs =>
          (fix go (R : lstore) (g : gl) (l : list card) {struct l} : option (bool * lstore * gl) :=
             match l with
             | [] => Some (true, R, g)
             | x :: r => match run6 f R g x with
                         | Some (true, R1, g1) => go R1 g1 r
                         | other => other
                         end
             end) R g cs
      | CRepeat None n b =>
          match ev (R ++ g) n with
          | None => Some (false, R, g)
          | Some nv => rep6 f nv 0%Z R g b
          end
      | _ => Some (true, R, g)
      end
  end
(* the rounds of a Repeat from round k on; the two hidden locals (counter on top) are entries named "" *)
with rep6 (fuel : nat) (nv : RefSem.value) (k : Z) (R : lstore) (g : gl) (b : card) : option (bool * lstore * gl) :=
  match fuel with
  | O => None
  | S f =>
      match RefSem.v_cmp [] (RefSem.VInt k) nv with
      | Some (Some Lt) =>
          match run6 f (([], RefSem.VInt k) :: ([], nv) :: R) g b with
          | Some (true, R1, g1) => rep6 f nv (RefSem.wrap64 (k + 1)) (tl (tl R1)) g1 b
          | Some (false, R1, g1) => Some (false, tl (tl R1), g1)
          | None => None
          end
      | _ => Some (true, R, g)
      end
  end.


Fixpoint runs6 (f : nat) (R : lstore) (g : gl) (l : list card) : option (bool * lstore * gl) :=
  match l with
  | [] => Some (true, R, g)
  | x :: r => match run6 f R g x with
              | Some (true, R1, g1) => runs6 f R1 g1 r
              | other => other
              end
  end.

Lemma run6_composite f R g ty cs : run6 (S f) R g (CComposite ty cs) = runs6 f R g cs.
Proof.
  revert R g. induction cs as [|x r IH]; intros R g; [reflexivity|].
  cbn [runs6].
  change (run6 (S f) R g (CComposite ty (x :: r))) with
    (match run6 f R g x with Some (true, R1, g1) => run6 (S f) R1 g1 (CComposite ty r) | other => other end).
  destruct (run6 f R g x) as [[[[|] R1] g1]|]; [apply IH | reflexivity | reflexivity].
Qed.
