(* C15: the run list of the trace theorems is complete, and every trace entry is classified.

   C15Resolve.compile_trace_resolves quantifies existentially over a list of process_card runs and says nothing
   about what the list contains; the entries that do not name their owner (N-C15-4) or lie in no run (N-C15-3)
   are alternatives of a disjunction.  Here (from CompilerOwnerFull / CompilerOwnerFullProg):

   - [gruns_full]: the run list is, in order, EXACTLY [stream_keys fs]: one run for every card position of every
     function of the IR stream - every card that Module::get_card can reach in such a function, at every depth,
     closure bodies included ([position_has_run], [get_card_has_run]);
   - [entry_classified]: a TOTAL classification of the trace entries by two decidable tests:
       no_run_b gruns a = true   - the address lies in no run: a function epilogue instruction (N-C15-3); then the
                                   opcode is Pop / CloseUpvalue / ScalarNil / Return / Exit and the location is the
                                   epilogue location of a function of the stream ([epi_loc]: for `main` the index
                                   [number of cards], else the index of the last card or the empty index);
       quirk (r_card r) = true   - r = the innermost run containing the address is a While / IfTrue / IfFalse /
                                   IfElse card (N-C15-4); then the instruction is a jump and the location is
                                   EXACTLY the index of r's child 1, which resolves to that child;
       otherwise                 - the location is exactly the index of r's card and resolves, in M's tree, to it. *)
From Coq Require Import List NArith ZArith Bool Lia.
From Cao Require Import ListUtil CheckUtil Bits CardAst Bytecode Compiler CompilerGen StdlibGen Wellformed
     CompilerProofs CompilerWf CompilerTrace CompilerLabels CompilerOwner CompilerOwnerProg
     CompilerOwnerFull CompilerOwnerFullProg C15Resolve.
From Cao Require CardEdit C15Check Vm C15Link C15Proofs.
Import ListNotations.
Local Open Scope N_scope.

(* ------------------------------------------------------------------ subcards and Card::get_child *)
Fixpoint number (l : list card) (i : N) : list (N * card) :=
  match l with [] => [] | x :: r => (i, x) :: number r (i + 1) end.

(* the children of a card with their get_child numbers, in the order in which the compiler visits them *)
Definition children_pos (c : card) : list (N * card) :=
  match c with
  | CBin _ a b => [(0, a); (1, b)]
  | CUn _ a => [(0, a)]
  | CTri _ a b c' => [(0, a); (1, b); (2, c')]
  | CCallNative _ args => number args 0
  | CCall _ args => number args 0
  | CDynamicCall f args => number args 1 ++ [(0, f)]
  | CSetGlobalVar _ v => [(0, v)]
  | CSetVar _ v => [(0, v)]
  | CRepeat _ n body => [(0, n); (1, body)]
  | CForEach _ _ _ a b => [(0, a); (1, b)]
  | CComposite _ l => number l 0
  | CArray l => number l 0
  | CClosure _ l => number l 0
  | _ => []
  end.

Definition sub_of (idx : list N) (p : N * card) : list (list N * card) := subcards (fst p :: idx) (snd p).

Lemma subcards_list_flat idx l : forall i, subcards_list idx l i = flat_map (sub_of idx) (number l i).
Proof. induction l as [|x r IH]; intros i; cbn [subcards_list number flat_map]; [reflexivity | rewrite IH; reflexivity]. Qed.

Lemma subcards_eq idx c : subcards idx c = (idx, c) :: flat_map (sub_of idx) (children_pos c).
Proof.
  destruct c; cbn [subcards children_pos flat_map]; rewrite ?subcards_go, ?subcards_list_flat;
    unfold sub_of; cbn [fst snd app]; rewrite ?app_nil_r, ?flat_map_app; cbn [flat_map fst snd]; rewrite ?app_nil_r;
    reflexivity.
Qed.

Lemma nth_number l : forall i k x, nth_error l k = Some x -> In (i + N.of_nat k, x) (number l i).
Proof.
  induction l as [|y r IH]; intros i k x H; [destruct k; discriminate|]. destruct k as [|k]; cbn [nth_error number] in *.
  - injection H as <-. left. f_equal. lia.
  - right. replace (i + N.of_nat (S k)) with (i + 1 + N.of_nat k) by lia. apply IH, H.
Qed.

Lemma get_child_children c : forall k c', CardEdit.get_child c k = Some c' -> In (N.of_nat k, c') (children_pos c).
Proof.
  intros k c' H. destruct c; cbn [CardEdit.get_child children_pos] in *; try discriminate.
  - assert (H' : nth_error [c1; c2] k = Some c') by (destruct op; exact H). clear H.
    destruct k as [|[|[|k]]]; cbn in H'; try discriminate; injection H' as <-; cbn; auto.
  - destruct k; [|discriminate]. injection H as <-. left. reflexivity.
  - assert (H' : nth_error [c1; c2; c3] k = Some c') by (destruct op; exact H). clear H.
    destruct k as [|[|[|[|k]]]]; cbn in H'; try discriminate; injection H' as <-; cbn; auto.
  - apply (nth_number args 0 k c' H).
  - apply (nth_number args 0 k c' H).
  - apply in_or_app. destruct k as [|k]; cbn [Nat.eqb] in H.
    + injection H as <-. right. left. reflexivity.
    + left. cbn [Nat.sub] in H. rewrite Nat.sub_0_r in H.
      replace (N.of_nat (S k)) with (1 + N.of_nat k) by lia. apply nth_number, H.
  - destruct k; [|discriminate]. injection H as <-. left. reflexivity.
  - destruct k; [|discriminate]. injection H as <-. left. reflexivity.
  - destruct k as [|[|k]]; try discriminate; injection H as <-; cbn; auto.
  - destruct k as [|[|k]]; try discriminate; injection H as <-; cbn; auto.
  - apply (nth_number cards 0 k c' H).
  - apply (nth_number cards 0 k c' H).
  - apply (nth_number cards 0 k c' H).
Qed.

Lemma subcards_child idx c i c' :
  CardEdit.get_child c (N.to_nat i) = Some c' -> incl (subcards (i :: idx) c') (subcards idx c).
Proof.
  intros H x Hx. rewrite (subcards_eq idx c). right. apply in_flat_map. exists (i, c'). split; [|exact Hx].
  rewrite <- (N2Nat.id i). apply get_child_children, H.
Qed.

(* every position that the compiler's context can designate is enumerated *)
Lemma at_ctx_in_positions cards idx ctx : at_ctx cards idx ctx ->
  forall c rest, ctx = c :: rest -> incl (subcards idx c) (subcards_list [] cards 0).
Proof.
  induction 1 as [b c0 Hb | i idx c c' ctx _ IH Hc]; intros c1 rest E; injection E as <- <-.
  - intros x Hx. rewrite subcards_list_flat. apply in_flat_map. exists (b, c0). split; [|exact Hx].
    rewrite <- (N2Nat.id b) at 1. apply (nth_number cards 0 (N.to_nat b) c0 Hb).
  - intros x Hx. apply (IH c ctx eq_refl). apply (subcards_child idx c i c' Hc), Hx.
Qed.

Lemma subcards_head idx c : In (idx, c) (subcards idx c).
Proof. rewrite subcards_eq. left. reflexivity. Qed.

(* ------------------------------------------------------------------ completeness of a run list *)
(* a run list with the keys of the whole stream holds a run for every card position of every function *)
Theorem position_has_run fs gruns f idx c ctx :
  map gkeyof gruns = stream_keys fs -> In f fs -> at_ctx (fi_cards f) idx (c :: ctx) ->
  exists r, In (f, r) gruns /\ r_idx r = idx /\ r_card r = c.
Proof.
  intros Hk Hf Hat.
  assert (Hin : In (f, (idx, c)) (stream_keys fs)).
  { unfold stream_keys. apply in_flat_map. exists f. split; [exact Hf|]. unfold fn_keys. apply in_map.
    apply (at_ctx_in_positions _ _ _ Hat c ctx eq_refl), subcards_head. }
  rewrite <- Hk in Hin. apply in_map_iff in Hin. destruct Hin as ([f' r] & E & Hin).
  unfold gkeyof, rkey in E. cbn [fst snd] in E. injection E as -> <- <-. exists r. auto.
Qed.

(* the index paths of Module::get_card, as compiler contexts *)
Lemma descend_at_ctx cards : forall path idx c ctx d c',
  at_ctx cards idx (c :: ctx) -> CardEdit.descend path d c = CardEdit.ROk c' ->
  exists ctx', at_ctx cards (rev (map N.of_nat path) ++ idx) (c' :: ctx').
Proof.
  induction path as [|i p IH]; intros idx c ctx d c' Hat H; cbn [CardEdit.descend] in H.
  - injection H as <-. exists ctx. exact Hat.
  - destruct (CardEdit.get_child c i) as [ch|] eqn:Ec; [|discriminate].
    assert (Hat' : at_ctx cards (N.of_nat i :: idx) (ch :: c :: ctx)).
    { constructor; [exact Hat|]. rewrite Nat2N.id. exact Ec. }
    destruct (IH _ _ _ _ _ Hat' H) as (ctx' & H'). exists ctx'.
    cbn [map rev]. rewrite <- app_assoc. exact H'.
Qed.

Lemma map_to_nat_of_nat l : map N.to_nat (map N.of_nat l) = l.
Proof. induction l as [|x r IH]; cbn; [reflexivity | rewrite Nat2N.id, IH; reflexivity]. Qed.

(* every card that Module::get_card reaches in a function of the IR stream has a run: the location
   (namespace, function, indices) of that card is the location [mkl] of the run's index *)
Theorem get_card_has_run fs gruns f (sub : module) name fn indices c :
  map gkeyof gruns = stream_keys fs -> In f fs ->
  nth_error (m_functions sub) (fi_index f) = Some (name, fn) -> f_cards fn = fi_cards f ->
  CardEdit.get_card sub {| ci_function := fi_index f; ci_indices := indices |} = CardEdit.ROk c ->
  exists r, In (f, r) gruns /\ r_card r = c /\
            mkl (fi_ns f) (fi_index f) (r_idx r) = (fi_ns f, {| ci_function := fi_index f; ci_indices := indices |}).
Proof.
  intros Hk Hf Hn Hc H. unfold CardEdit.get_card in H. cbn [ci_function ci_indices] in H. rewrite Hn in H.
  unfold CardEdit.ci_begin in H. cbn [ci_indices] in H. destruct indices as [|b path]; [discriminate|].
  rewrite Hc in H. destruct (nth_error (fi_cards f) b) as [c0|] eqn:Eb; [|discriminate].
  unfold CardEdit.slice in H. cbn [length] in H.
  replace ((1 <=? S (length path))%nat && (S (length path) <=? S (length path))%nat) with true in H
    by (symmetry; apply andb_true_iff; split; apply Nat.leb_le; lia).
  cbn [skipn] in H. replace (S (length path) - 1)%nat with (length path) in H by lia. rewrite firstn_all in H.
  assert (Hat0 : at_ctx (fi_cards f) [N.of_nat b] [c0]) by (constructor; rewrite Nat2N.id; exact Eb).
  destruct (descend_at_ctx _ _ _ _ _ _ _ Hat0 H) as (ctx' & Hat).
  destruct (position_has_run _ _ _ _ _ _ Hk Hf Hat) as (r & Hin & Hi & Hcard).
  exists r. split; [exact Hin|]. split; [exact Hcard|].
  unfold mkl. rewrite Hi, rev_app_distr, rev_involutive. cbn [rev app map]. rewrite map_to_nat_of_nat, Nat2N.id.
  reflexivity.
Qed.

(* ------------------------------------------------------------------ bytes at instruction starts *)
Lemma oaddrs_lt code : forall a b, In (a, b) (oaddrs code (bytes code)) -> a < bytes code.
Proof.
  induction code as [|i r IH]; intros a b H; [destruct H|]. cbn [oaddrs bytes] in *.
  pose proof (spanN_pos i). replace (spanN i + bytes r - spanN i) with (bytes r) in H by lia.
  destruct H as [E|H]; [injection E as <- _; lia|]. specialize (IH _ _ H). lia.
Qed.
Lemma oaddrs_byte code : forall a o, In (a, o) (oaddrs code (bytes code)) ->
  nth (N.to_nat a) (encode (rev code)) 255 = op_code o.
Proof.
  induction code as [|i r IH]; intros a b H; [destruct H|]. cbn [oaddrs bytes] in H.
  pose proof (spanN_pos i). replace (spanN i + bytes r - spanN i) with (bytes r) in H by lia.
  cbn [rev]. unfold encode. rewrite flat_map_app. fold (encode (rev r)). cbn [flat_map]. rewrite app_nil_r.
  assert (Hlen : length (encode (rev r)) = N.to_nat (bytes r))
    by (rewrite encode_length, nbytes_rev, bytes_nbytes, Nat2N.id; reflexivity).
  destruct H as [E|H].
  - injection E as <- <-. rewrite app_nth2 by lia. rewrite Hlen, Nat.sub_diag. reflexivity.
  - pose proof (oaddrs_lt _ _ _ H) as Hlt. rewrite app_nth1 by lia. apply IH, H.
Qed.

Definition is_jump_byte (b : N) : bool := (b =? 28) || (b =? 29) || (b =? 30).
Definition is_epi_byte (b : N) : bool := (b =? 16) || (b =? 46) || (b =? 7) || (b =? 22) || (b =? 10).

Lemma jump_op_byte o : is_jump_op o = true -> is_jump_byte (op_code o) = true.
Proof. destruct o; cbn; intros H; try discriminate H; reflexivity. Qed.
Lemma epi_op_byte o : epi_op o = true -> is_epi_byte (op_code o) = true.
Proof. destruct o; cbn; intros H; try discriminate H; reflexivity. Qed.
Lemma callf_op_byte o : op_code o = 11 -> is_callf_op o = true.
Proof. destruct o; cbn; intros H; try discriminate H; reflexivity. Qed.

(* ------------------------------------------------------------------ the decidable tests *)
Definition in_runb (r : run) (a : N) : bool := (r_lo r <=? a) && (a <? r_hi r).
Definition no_run_b (gruns : list grun) (a : N) : bool := forallb (fun g => negb (in_runb (snd g) a)) gruns.

Lemma in_runb_spec r a : in_runb r a = true <-> in_run r a.
Proof. unfold in_runb, in_run. rewrite andb_true_iff, N.leb_le, N.ltb_lt. tauto. Qed.
Lemma no_run_b_spec gruns a : no_run_b gruns a = true <-> forall g, In g gruns -> ~ in_run (snd g) a.
Proof.
  unfold no_run_b. rewrite forallb_forall. split; intros H g Hg.
  - intros Hin. apply in_runb_spec in Hin. specialize (H g Hg). rewrite Hin in H. discriminate.
  - destruct (in_runb (snd g) a) eqn:E; [|reflexivity]. apply in_runb_spec in E. destruct (H g Hg E).
Qed.

(* ------------------------------------------------------------------ the compile-time theorem *)
(* the run list of a compilation: real executions (as C15Resolve.gruns_real) AND complete *)
Definition gruns_full (M : module) (o : options) (B : compiled) (fs : list function_ir) (gruns : list grun) : Prop :=
  into_ir_stream M (o_recursion_limit o) = inr fs /\
  gruns_in fs 0 (N.of_nat (length (p_bytecode B))) [] (rev (p_trace B)) gruns /\
  (forall f, In f fs -> fn_in_tree M f) /\
  map gkeyof gruns = stream_keys fs.

Lemma gruns_full_real M o B fs gruns : gruns_full M o B fs gruns -> gruns_real M o B gruns.
Proof. intros (h1 & h2 & h3 & _). exists fs. auto. Qed.

Definition entry_classified (M : module) (B : compiled) (fs : list function_ir) (gruns : list grun)
           (a : N) (l : loc) : Prop :=
  if no_run_b gruns a
  then (* N-C15-3: a function epilogue *)
       is_epi_byte (byte_at B a) = true /\ is_epi_loc fs l
  else exists f r, gdeepest gruns (f, r) a /\ fst l = fi_ns f /\ ci_function (snd l) = fi_index f /\
         if quirk (r_card r)
         then (* N-C15-4: a jump of While / IfTrue / IfFalse / IfElse names the card's child 1 *)
              is_jump_byte (byte_at B a) = true /\ l = mkl (fi_ns f) (fi_index f) (1 :: r_idx r) /\
              exists c1, CardEdit.get_child (r_card r) 1 = Some c1 /\ resolves_to M l c1
         else (* the entry names the card whose activation emitted the instruction *)
              l = mkl (fi_ns f) (fi_index f) (r_idx r) /\ resolves_to M l (r_card r) /\
              (byte_at B a = 11 -> is_call_card (r_card r) = true).

Theorem compile_trace_classified M o B :
  compile M o = COk B -> N.of_nat (length (p_bytecode B)) <= two32 ->
  exists fs gruns, gruns_full M o B fs gruns /\
    forall a l, In (a, l) (p_trace B) -> entry_classified M B fs gruns a l.
Proof.
  unfold compile. intros H Hsz.
  destruct (into_ir_stream M (o_recursion_limit o)) as [e|fs] eqn:Eir; [discriminate|].
  destruct (compile_ir fs (init_state (o_debug o))) as [[] s|? ?| |] eqn:Ec; try discriminate.
  injection H as <-. cbn [finish p_bytecode p_trace] in *.
  destruct (compile_ir_owner_full fs _ _ Ec) as (Hpc & HG).
  assert (Hlen : N.of_nat (length (encode (rev (cs_code s)))) = cs_pc s) by (symmetry; apply pc_encoded_length, Hpc).
  rewrite Hlen in Hsz. destruct (HG Hsz) as (newx & gruns & Ht & Ha & Hr & Hk & Hx).
  pose proof (ir_stream_in_tree _ _ _ Eir) as Htree.
  exists fs, gruns. split.
  { unfold gruns_full, finish; cbn [p_bytecode p_trace]. rewrite Hlen, rev_involutive. auto. }
  intros a l Hin. apply in_rev in Hin. rewrite Ht in Hin. apply in_map_iff in Hin.
  destruct Hin as ([[a' l'] b] & E & Hin). cbn [fst] in E. injection E as -> ->.
  rewrite Forall_forall in Hx. destruct (Hx _ Hin) as (_ & Hat). cbn [fst snd] in Hat.
  assert (Hab : In (a, b) (oaddrs (cs_code s) (cs_pc s))) by (rewrite Ha; apply in_map_iff; exists ((a, l), b); auto).
  rewrite Hpc in Hab. pose proof (oaddrs_byte _ _ _ Hab) as Hbyte.
  unfold entry_classified, byte_at, finish. cbn [p_bytecode]. rewrite Hbyte.
  destruct Hat as [(f & r & Hd & Ho & Hops)|(Hout & Hb & He)].
  - assert (Hno : no_run_b gruns a = false).
    { destruct (no_run_b gruns a) eqn:E; [|reflexivity]. rewrite no_run_b_spec in E.
      destruct Hd as (Hi1 & Hi2 & _). destruct (E _ Hi1 Hi2). }
    rewrite Hno. exists f, r. split; [exact Hd|].
    destruct Hd as (Hing & _). unfold gruns_in in Hr. rewrite Forall_forall in Hr.
    destruct (Hr _ Hing) as (Hf & (ctx & s1 & s2 & Hctx & _) & _). cbn [fst snd] in Hf, Hctx.
    pose proof (Htree f Hf) as Hft.
    split; [rewrite Ho; reflexivity|]. split; [rewrite Ho; reflexivity|].
    unfold own_idx, own_ops in *. destruct (quirk (r_card r)) eqn:Eq.
    + split; [apply jump_op_byte, Hops|]. split; [exact Ho|].
      destruct (quirk_child _ Eq) as [c1 Hc1]. exists c1. split; [exact Hc1|]. rewrite Ho.
      eapply at_ctx_get_card; [exact Hft|]. constructor; [exact Hctx | exact Hc1].
    + split; [exact Ho|]. split; [rewrite Ho; eapply at_ctx_get_card; eauto|].
      intros H11. apply callf_op_byte in H11. rewrite H11 in Hops. cbn [negb] in Hops.
      rewrite orb_false_r in Hops. exact Hops.
  - assert (Hno : no_run_b gruns a = true) by (apply no_run_b_spec, Hout).
    rewrite Hno. split; [apply epi_op_byte, Hb | exact He].
Qed.

(* ------------------------------------------------------------------ corollaries *)
(* the classification implies the former statement *)
Lemma entry_classified_resolves M B fs gruns a l :
  entry_classified M B fs gruns a l -> entry_resolves M B gruns a l.
Proof.
  unfold entry_classified, entry_resolves. destruct (no_run_b gruns a) eqn:En.
  - intros [Hb _]. right. split; [apply no_run_b_spec, En|]. intros H11. rewrite H11 in Hb. discriminate.
  - intros (f & r & Hd & h1 & h2 & H). left. exists f, r. split; [exact Hd|]. split; [exact h1|]. split; [exact h2|].
    destruct (quirk (r_card r)) eqn:Eq.
    + destruct H as (Hj & Hl & c1 & Hc1 & Hres). split; [right; split; [reflexivity|]; exists c1; auto|].
      intros H11. rewrite H11 in Hj. discriminate.
    + destruct H as (Hl & Hres & Hc). split; [left; exact Hres|]. intros H11. auto.
Qed.

(* a test on the entry alone: if the opcode at the address is neither a jump nor one of the five epilogue
   opcodes, the entry names the card whose activation emitted the instruction *)
Theorem plain_entry_names_owner M B fs gruns a l :
  entry_classified M B fs gruns a l ->
  is_jump_byte (byte_at B a) = false -> is_epi_byte (byte_at B a) = false ->
  exists f r, gdeepest gruns (f, r) a /\ l = mkl (fi_ns f) (fi_index f) (r_idx r) /\ resolves_to M l (r_card r).
Proof.
  unfold entry_classified. intros H Hj He. destruct (no_run_b gruns a).
  - destruct H as [H _]. rewrite H in He. discriminate.
  - destruct H as (f & r & Hd & _ & _ & H). exists f, r. split; [exact Hd|].
    destruct (quirk (r_card r)).
    + destruct H as [H _]. rewrite H in Hj. discriminate.
    + destruct H as (h1 & h2 & _). auto.
Qed.

Lemma nth_last (r : list card) : forall c d, nth_error (c :: r) (length r) = Some (last (c :: r) d).
Proof.
  induction r as [|y r IH]; intros c d; [reflexivity|].
  change (nth_error (c :: y :: r) (length (y :: r))) with (nth_error (y :: r) (length r)).
  rewrite (IH y d). reflexivity.
Qed.

(* what the epilogue locations resolve to (N-C15-3, exactly): `main` - no card; another function - its last
   top-level card, or nothing if it has no cards *)
Theorem epilogue_resolution (sub : module) f name fn :
  nth_error (m_functions sub) (fi_index f) = Some (name, fn) -> f_cards fn = fi_cards f ->
  (N.of_nat (length (fi_cards f)) < two32 ->
   CardEdit.get_card sub (snd (epi_loc 0 f)) = CardEdit.RErr (CardEdit.CardNotFound 0)) /\
  (forall k, CardEdit.get_card sub (snd (epi_loc (S k) f)) =
             match fi_cards f with
             | [] => CardEdit.RErr CardEdit.InvalidIndex
             | c :: r => CardEdit.ROk (last (c :: r) c)
             end).
Proof.
  intros Hn Hc. split.
  - intros Hlt. unfold epi_loc, epi_idx, mkl. cbn [snd rev app map].
    rewrite N.mod_small, Nat2N.id by exact Hlt.
    unfold CardEdit.get_card. cbn [ci_function ci_indices]. rewrite Hn. unfold CardEdit.ci_begin. cbn [ci_indices].
    rewrite Hc. replace (nth_error (fi_cards f) (length (fi_cards f))) with (@None card); [reflexivity|].
    symmetry. apply nth_error_None. lia.
  - intros k. unfold epi_loc, epi_idx, end_idx, mkl. destruct (fi_cards f) as [|c r] eqn:Ecards.
    + cbn [snd rev app map]. unfold CardEdit.get_card. cbn [ci_function ci_indices]. rewrite Hn. reflexivity.
    + cbn [snd rev app map]. rewrite Nat2N.id.
      apply (get_card_resolves sub (fi_index f) name fn _ (length r) [] (last (c :: r) c) (last (c :: r) c) Hn eq_refl);
        [|intros d; reflexivity].
      rewrite Hc. apply nth_last.
Qed.

(* ------------------------------------------------------------------ the run-time half joined *)
Import C15Link.

Theorem error_trace_classified (F : Vm.fops) (bld : Vm.build) (budget : nat) M o B s e t s' :
  compile M o = COk B -> N.of_nat (length (p_bytecode B)) <= two32 ->
  C15Proofs.frames_ok (C15Proofs.src_ok (to_vm B)) s ->
  Vm.run F bld budget (to_vm B) s = (Vm.OErr e t, s') ->
  (t = [] /\ e = Vm.ECallStackOverflow /\ Vm.push_frame s (Vm.mkFrame 0 0 0 None) = None) \/
  exists fs gruns a s_fail s_start s0,
    gruns_full M o B fs gruns /\
    map (trace_loc B) t =
      Vm.opt_list (entry_at B a :: map (fun f => entry_at B (Vm.fr_src f)) (Vm.st_calls s_fail)) /\
    (forall l, entry_at B a = Some l -> entry_classified M B fs gruns a l) /\
    Forall (fun f => (Vm.fr_src f = 0 \/ byte_at B (Vm.fr_src f) = 11 \/
                      exists label, Vm.assoc label (Vm.p_labels (to_vm B)) = Some (Vm.fr_src f)) /\
                     forall l, entry_at B (Vm.fr_src f) = Some l -> entry_classified M B fs gruns (Vm.fr_src f) l)
           (Vm.st_calls s_fail) /\
    Vm.push_frame s (Vm.mkFrame 0 0 0 None) = Some s_start /\
    C15Proofs.reaches F bld (to_vm B) (Vm.run_at F bld (to_vm B) false (N.of_nat budget) (pred Vm.max_depth)) 0
                      (Vm.set_rem s_start (N.of_nat budget)) a s0 /\
    C15Proofs.fails_at F bld (to_vm B) (Vm.run_at F bld (to_vm B) false (N.of_nat budget) (pred Vm.max_depth))
                       a s0 e s_fail.
Proof.
  intros Hc Hsz Hfr Hrun.
  destruct (compile_trace_classified M o B Hc Hsz) as (fs & gruns & Hreal & Hall).
  destruct (C15Proofs.error_trace_shape F bld budget Hfr Hrun)
    as [Hl|(a & s_fail & s_start & s0 & Ht & Hsrc & Hpf & Hre & Hfa)]; [left; exact Hl|].
  right. exists fs, gruns, a, s_fail, s_start, s0. split; [exact Hreal|]. split.
  { rewrite Ht, map_opt_list. cbn [map]. rewrite map_map. reflexivity. }
  split; [intros l Hl; apply Hall, entry_at_in, Hl|]. split; [|auto].
  eapply Forall_impl; [|exact Hsrc]. intros f Hs. split; [exact Hs|].
  intros l Hl. apply Hall, entry_at_in, Hl.
Qed.
