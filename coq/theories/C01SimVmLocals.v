(* C01, simulation, towards the next fragment (locals): the VM half of local variables, in the
   vocabulary of C01SimVm - ReadLocalVar, SetLocalVar (declaring and assigning) and Pop on a state
   whose value stack is described as a list.  The slot of local i is position i of the stack because
   main's frame has stack offset 0.

   [compile_correct_locals_partial] below is what IS proved.  What is missing for the fragment
   "F2 with locals" (SetVar x e / ReadVar x of locals declared at statement level of main):
     - compiler half: C01SimComp.ctx fixes `cs_locals = [[]]`; it has to carry the list of declared
       locals (resolve_var then answers VLocal i for a declared name, add_local appends, scope_end of
       main emits one Pop per local before Exit), and code_expr / code_stmt need that list;
     - reference half: C01SimRef.env0 is the empty scope; it has to become the scope of the declared
       names with cell i = slot i, and `ev` has to read cells;
     - glue: the stack of the VM is  map to_vm cells ++ temporaries  (C01SimF1.expr_sim is already
       generic in the stack below the temporaries).
   None of this changes a statement proved so far. *)
From Coq Require Import NArith ZArith List Lia Bool.
From Cao Require Import ListUtil Bits Stacks StacksProofs Bytecode CompilerProofs CompilerWf CompilerOk.
From Cao Require Import Vm VmProofs C04VmProofs C01SimVm.
Import ListNotations.

Set Implicit Arguments.
Local Open Scope N_scope.

Section Locals.
Variable F : fops.
Variable bld : build.
Variable P : program.
Variable cap : nat.
Variable calls0 : list frame.
Variable heap0 : heap.
Variable open0 : option N.
Variable log0 : list (list tval).

(* the frame of main: stack offset 0 *)
Hypothesis main_frame : exists f r, calls0 = f :: r /\ fr_off f = 0.

Notation St' := (St cap calls0 heap0 open0 log0).
Notation exec1' := (exec1 F bld P cap calls0 heap0 open0 log0).

Lemma top_offset_main s stk g rem : St' s stk g rem -> top_offset s = Some 0%nat.
Proof.
  intros (_ & _ & _ & Hc & _). destruct main_frame as (f & r & -> & Hf).
  unfold top_offset. rewrite Hc, Hf. reflexivity.
Qed.

Ltac opc Hc :=
  let Hop := fresh "Hop" in
  pose proof (code_at_opcode Hc) as Hop; cbn [instr_op op_code] in Hop; step_opc Hop.

Lemma sget_St s stk g rem i : St' s stk g rem -> sget s i = nth i stk VNil.
Proof.
  intros (Hok & Hs & _). unfold sget.
  assert (Hsp : sp_step VNil (length (vdata (st_stack s))) (vs_abs (st_stack s)) (VGet value i)
                = Some (stk, OVal (nth i stk VNil))).
  { cbn [sp_step]. unfold stack_of in Hs. rewrite Hs. reflexivity. }
  pose proof (@vs_step_refines value VNil (st_stack s) (VGet value i) _ _ Hok Hsp) as R.
  destruct (vs_step VNil (st_stack s) (VGet value i)) as [k o]. destruct R as (-> & _). reflexivity.
Qed.

(* ReadLocalVar i: a copy of slot i is pushed *)
Lemma ex_read_local ip i stk g :
  code_at P ip (IReadLocalVar i) -> i < 4294967296 -> (S (length stk) < cap)%nat ->
  exec1' (ip, stk, g) (ip + 5, stk ++ [nth (N.to_nat i) stk VNil], g).
Proof.
  intros Hc Hi Hroom. split; [eapply code_at_lt; eauto|]. intros reenter s rem HS. opc Hc.
  unfold i_20, op_u32. rewrite (code_at_operand1 (w := 4) Hc eq_refl eq_refl (fits4_lt Hi)).
  rewrite (top_offset_main HS). cbn [Nat.add]. rewrite (sget_St _ HS).
  destruct (St_push (nth (N.to_nat i) stk VNil) HS Hroom) as (s' & E & HS'). unfold push_next. rewrite E.
  replace (ip + 1 + 4) with (ip + 5) by lia. eauto.
Qed.

(* Pop *)
Lemma ex_pop ip stk v g :
  code_at P ip IPop -> exec1' (ip, stk ++ [v], g) (ip + 1, stk, g).
Proof.
  intros Hc. split; [eapply code_at_lt; eauto|]. intros reenter s rem HS. opc Hc.
  destruct (St_pop _ _ HS) as (s1 & E1 & HS1). rewrite E1. cbn [fst]. eauto.
Qed.

(* the value-stack side of SetLocalVar: pop the value, then `set` slot i *)
Lemma spop_w_offset_St s stk v g rem :
  St' s (stk ++ [v]) g rem -> exists s', spop_w_offset s 0 = (s', v) /\ St' s' stk g rem.
Proof.
  intros (Hok & Hs & Hc & H1 & H2 & H3 & H4 & H5 & H6). unfold spop_w_offset.
  assert (Hsp : sp_step VNil (length (vdata (st_stack s))) (vs_abs (st_stack s)) (VPopOff value 0)
                = Some (stk, OVal v)).
  { cbn [sp_step]. unfold stack_of in Hs. rewrite Hs, app_length. cbn [length].
    replace (length stk + 1 <=? 0)%nat with false by (symmetry; apply Nat.leb_gt; lia).
    rewrite removelast_last, last_last. reflexivity. }
  pose proof (@vs_step_refines value VNil (st_stack s) (VPopOff value 0) _ _ Hok Hsp) as R.
  destruct (vs_step VNil (st_stack s) (VPopOff value 0)) as [k o]. destruct R as (-> & Ha & Hi & Hl).
  eexists. split; [reflexivity|]. unfold St, stack_ok, stack_of. cbn. rewrite Hl. tauto.
Qed.

Lemma sset_St s stk g rem i v :
  St' s stk g rem -> (i <= length stk)%nat -> (S (length stk) < cap)%nat ->
  exists s', sset s i v = Some s' /\
             St' s' (if (i =? length stk)%nat then stk ++ [v] else upd stk i v) g rem.
Proof.
  intros (Hok & Hs & Hc & H1 & H2 & H3 & H4 & H5 & H6) Hi Hroom. unfold sset.
  assert (Hsp : sp_step VNil (length (vdata (st_stack s))) (vs_abs (st_stack s)) (VSet i v)
                = Some (if (i =? length stk)%nat then stk ++ [v] else upd stk i v,
                        OVal (if (i =? length stk)%nat then VNil else nth i stk VNil))).
  { cbn [sp_step]. unfold stack_of in Hs. rewrite Hs.
    replace (length stk <? i)%nat with false by (symmetry; apply Nat.ltb_ge; lia).
    destruct (i =? length stk)%nat; [|reflexivity]. unfold sp_push.
    replace (S (length stk) <? length (vdata (st_stack s)))%nat with true by (symmetry; apply Nat.ltb_lt; lia).
    reflexivity. }
  pose proof (@vs_step_refines value VNil (st_stack s) (VSet i v) _ _ Hok Hsp) as R.
  destruct (vs_step VNil (st_stack s) (VSet i v)) as [k o]. destruct R as (-> & Ha & Hi' & Hl).
  eexists. split; [reflexivity|]. unfold St, stack_ok, stack_of. cbn. rewrite Hl, Ha. tauto.
Qed.

(* SetLocalVar i with i = number of slots in use: the declaration of a local (the value stays as its slot);
   with i smaller: an assignment *)
Lemma ex_set_local ip i stk v g :
  code_at P ip (ISetLocalVar i) -> i < 4294967296 -> (N.to_nat i <= length stk)%nat -> (S (length stk) < cap)%nat ->
  exec1' (ip, stk ++ [v], g)
         (ip + 5, if (N.to_nat i =? length stk)%nat then stk ++ [v] else upd stk (N.to_nat i) v, g).
Proof.
  intros Hc Hi Hle Hroom. split; [eapply code_at_lt; eauto|]. intros reenter s rem HS. opc Hc.
  unfold i_19, op_u32. rewrite (code_at_operand1 (w := 4) Hc eq_refl eq_refl (fits4_lt Hi)).
  rewrite (top_offset_main HS).
  destruct (spop_w_offset_St _ _ HS) as (s1 & E1 & HS1). rewrite E1.
  unfold write_local. cbn [Nat.add].
  destruct (sset_St v HS1 Hle Hroom) as (s2 & E2 & HS2). rewrite E2.
  replace (ip + 1 + 4) with (ip + 5) by lia. eauto.
Qed.

(* what is proved of the fragment with locals: the three instructions behave as slots of a list *)
Theorem compile_correct_locals_partial :
  (forall ip i stk g, code_at P ip (IReadLocalVar i) -> i < 4294967296 -> (S (length stk) < cap)%nat ->
     exec1' (ip, stk, g) (ip + 5, stk ++ [nth (N.to_nat i) stk VNil], g)) /\
  (forall ip i stk v g, code_at P ip (ISetLocalVar i) -> i < 4294967296 -> (N.to_nat i <= length stk)%nat ->
     (S (length stk) < cap)%nat ->
     exec1' (ip, stk ++ [v], g)
            (ip + 5, if (N.to_nat i =? length stk)%nat then stk ++ [v] else upd stk (N.to_nat i) v, g)) /\
  (forall ip stk v g, code_at P ip IPop -> exec1' (ip, stk ++ [v], g) (ip + 1, stk, g)).
Proof. split; [exact ex_read_local|]. split; [exact ex_set_local | exact ex_pop]. Qed.

End Locals.
