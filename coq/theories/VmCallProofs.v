(* C08, run-time half: what CallFunction (opcode 11) and Return (opcode 22) do on the VM model (Vm.v), how the
   callee sees the arguments (ReadLocalVar / SetLocalVar relative to the new frame's offset), how the compiler lays
   the declared parameters out as locals (process_function: add_locals (rev args)), and the link to the
   compile-time half (CompilerCalls / CompilerLabels): the CallFunction of a static call site continues at the
   first byte of the code of the function ResolveSpec.spec_resolve designates.

   Vocabulary: [stack_of s] is the live part of the value stack as a list (bottom first), [stack_ok s] its
   invariant (count < capacity), [code_at P ip i] says the bytes of instruction i lie at address ip.

   What the model says about arity (instr_execution.rs push_call_frame): the new frame's offset is
   value_stack.len() - arity, computed on the WHOLE stack; MissingArgument is raised only when the whole stack
   holds fewer than `arity` values.  The caller's frame offset plays no role: a call that supplies fewer
   arguments than the callee declares, made while the caller has at least the missing number of slots (locals,
   temporaries) on the stack, succeeds and the callee's first parameters ARE those slots of the caller
   (witness: ex_short_call below).  Surplus arguments stay below the callee's frame and are still on the
   caller's stack after Return. *)
From Coq Require Import NArith ZArith List Lia Bool.
From Cao Require Import ListUtil Bits Stacks StacksProofs Vm VmProofs VmNativeProofs.
From Cao Require Import VmUpvalueProofs VmUpvalueStep VmUpvalueSem C04VmProofs.
From Cao Require Import Bytecode CompilerProofs C01SimVm.
Import ListNotations.

Arguments N.add : simpl never.
Arguments N.sub : simpl never.
Arguments N.of_nat : simpl never.
Arguments N.to_nat : simpl never.

(* ------------------------------------------------------------------ *)
(* The value stack as a list                                           *)
(* ------------------------------------------------------------------ *)

(* the state after the top value was popped from a stack of n + 1 live values: the count is n and the freed
   slot holds nil (ValueStack::pop writes Value::Nil into it); every other component is that of s *)
Definition popped (s : state) (n : nat) : state :=
  set_stack s {| vcount := n; vdata := upd (vdata (st_stack s)) n VNil |}.

Lemma stack_of_length s : stack_ok s -> length (stack_of s) = vcount (st_stack s).
Proof. intros H. unfold stack_of. apply abs_length. exact H. Qed.

Lemma spop_exact s stk v :
  stack_ok s -> stack_of s = stk ++ [v] ->
  spop s = (popped s (length stk), v) /\ stack_ok (popped s (length stk)) /\ stack_of (popped s (length stk)) = stk.
Proof.
  intros Hok Hst. pose proof (stack_of_length s Hok) as Hl. rewrite Hst, app_length in Hl. cbn [length] in Hl.
  unfold stack_ok, vs_inv in Hok.
  assert (Hc : vcount (st_stack s) - 1 = length stk) by lia.
  unfold spop, vs_pop. destruct (Nat.eqb_spec (vcount (st_stack s)) 0) as [E|E]; [lia|].
  rewrite Hc. unfold popped.
  assert (Hv : nth (length stk) (vdata (st_stack s)) VNil = v).
  { unfold stack_of, vs_abs in Hst.
    rewrite <- (firstn_skipn (vcount (st_stack s)) (vdata (st_stack s))), Hst.
    rewrite app_nth1 by (rewrite app_length; cbn; lia). rewrite app_nth2 by lia.
    rewrite Nat.sub_diag. reflexivity. }
  rewrite Hv. split; [reflexivity|].
  unfold stack_ok, vs_inv, stack_of, vs_abs. cbn [st_stack set_stack vcount vdata]. rewrite upd_length.
  split; [lia|].
  rewrite firstn_upd_ge by lia.
  unfold stack_of, vs_abs in Hst.
  replace (vcount (st_stack s)) with (length stk + 1) in Hst by lia.
  assert (H2 : firstn (length stk) (firstn (length stk + 1) (vdata (st_stack s))) = firstn (length stk) (stk ++ [v]))
    by (rewrite Hst; reflexivity).
  rewrite firstn_firstn, Nat.min_l in H2 by lia. rewrite H2, firstn_app, Nat.sub_diag, firstn_all. cbn.
  apply app_nil_r.
Qed.

Lemma popped_components s n :
  st_calls (popped s n) = st_calls s /\ st_globals (popped s n) = st_globals s /\
  st_heap (popped s n) = st_heap s /\ st_open (popped s n) = st_open s /\ st_log (popped s n) = st_log s /\
  st_count (popped s n) = st_count s /\ st_rem (popped s n) = st_rem s /\ cap (popped s n) = cap s.
Proof. unfold popped, cap. cbn. rewrite upd_length. repeat split. Qed.

Lemma sget_abs s i : stack_ok s -> sget s i = nth i (stack_of s) VNil.
Proof.
  intros Hok. unfold sget.
  pose proof (@vs_step_refines value VNil (st_stack s) (VGet value i) _ _ Hok eq_refl) as R.
  destruct (vs_step VNil (st_stack s) (VGet value i)) as [k o]. destruct R as (-> & _). reflexivity.
Qed.

(* push on a stack with room: the value goes into slot [count] *)
Definition pushed (s : state) (v : value) : state :=
  set_stack s {| vcount := S (vcount (st_stack s)); vdata := upd (vdata (st_stack s)) (vcount (st_stack s)) v |}.
(* ValueStack::clear_until(h): only the count changes *)
Definition truncated (s : state) (h : nat) : state :=
  set_stack s {| vcount := h; vdata := vdata (st_stack s) |}.

Lemma spush_exact s v :
  stack_ok s -> S (length (stack_of s)) < cap s ->
  spush s v = Some (pushed s v) /\ stack_ok (pushed s v) /\ stack_of (pushed s v) = stack_of s ++ [v].
Proof.
  intros Hok Hroom. destruct (spush_abs v Hok Hroom) as (s' & E & Hok' & Hst' & _).
  assert (E2 : spush s v = Some (pushed s v)).
  { unfold spush, vs_push, pushed. rewrite (stack_of_length s Hok) in Hroom. unfold cap in Hroom.
    destruct (Nat.ltb_spec (S (vcount (st_stack s))) (length (vdata (st_stack s)))); [reflexivity|lia]. }
  rewrite E2 in E. injection E as <-. auto.
Qed.

Lemma sclear_until_exact s h : sclear_until s h = (truncated s h, vs_last VNil (st_stack s)).
Proof. reflexivity. Qed.

Lemma truncated_abs s h :
  stack_ok s -> h <= length (stack_of s) ->
  stack_ok (truncated s h) /\ stack_of (truncated s h) = firstn h (stack_of s) /\
  vs_last VNil (st_stack s) = last (stack_of s) VNil.
Proof.
  intros Hok Hh. destruct (sclear_until_abs Hok Hh) as (s1 & E & Hok1 & Hst1 & _).
  rewrite sclear_until_exact in E. injection E as <- E. auto.
Qed.

Lemma sset_abs s i v :
  stack_ok s -> i < length (stack_of s) ->
  exists s', sset s i v = Some s' /\ stack_ok s' /\ stack_of s' = upd (stack_of s) i v /\
             st_calls s' = st_calls s /\ st_globals s' = st_globals s /\ st_heap s' = st_heap s /\
             st_open s' = st_open s /\ cap s' = cap s.
Proof.
  intros Hok Hi. unfold sset.
  assert (Hsp : sp_step VNil (length (vdata (st_stack s))) (vs_abs (st_stack s)) (VSet i v)
                = Some (upd (stack_of s) i v, OVal (nth i (stack_of s) VNil))).
  { cbn [sp_step]. fold (stack_of s).
    destruct (Nat.ltb_spec (length (stack_of s)) i); [lia|].
    destruct (Nat.eqb_spec i (length (stack_of s))); [lia|]. reflexivity. }
  pose proof (@vs_step_refines value VNil (st_stack s) (VSet i v) _ _ Hok Hsp) as R.
  destruct (vs_step VNil (st_stack s) (VSet i v)) as [k o]. destruct R as (-> & Ha & Hi' & Hl).
  eexists. split; [reflexivity|]. unfold stack_ok, stack_of, cap. cbn. auto 10.
Qed.

Lemma spop_w_offset_abs s off stk v :
  stack_ok s -> stack_of s = stk ++ [v] -> off <= length stk ->
  spop_w_offset s off = (popped s (length stk), v).
Proof.
  intros Hok Hst Hoff. unfold spop_w_offset. cbn [vs_step].
  pose proof (stack_of_length s Hok) as Hl. rewrite Hst, app_length in Hl. cbn [length] in Hl.
  destruct (Nat.leb_spec (vcount (st_stack s)) off); [lia|].
  destruct (spop_exact s stk v Hok Hst) as (E & _). unfold spop in E.
  destruct (vs_pop VNil (st_stack s)) as [k x]. exact E.
Qed.

Section Call.
Variable F : fops.
Variable bld : build.
Variable P : program.
Variable reenter : N -> state -> rres.
Notation STEP := (step F bld P reenter).
Notation opcode_at := (C04VmProofs.opcode_at P).

(* ------------------------------------------------------------------ *)
(* 1. CallFunction on a function object / a closure                    *)
(* ------------------------------------------------------------------ *)

(* the caller's frame after the call: its return address is the instruction after the CallFunction *)
Definition caller_frame (ip0 : N) (top : frame) : frame :=
  mkFrame (fr_src top) (ip0 + 1) (fr_off top) (fr_clo top).
(* the callee's frame: pushed by the CallFunction at ip0 when [n] values are left on the stack *)
Definition callee_frame (ip0 : N) (n : nat) (ar : N) (clo : option N) : frame :=
  mkFrame ip0 (ip0 + 1) (N.of_nat n - ar) clo.

Definition call_result (ip0 : N) (s1 : state) (n : nat) (h ar : N) (clo : option N) (top : frame) (rest : list frame) : sres :=
  if (N.of_nat n <? ar)%N then
    SErr EMissingArgument (ip0 + 1) (set_calls s1 (caller_frame ip0 top :: rest))
  else if call_stack_size <=? S (length rest) then
    SErr ECallStackOverflow (ip0 + 1) (set_calls s1 (caller_frame ip0 top :: rest))
  else
    match assoc h (p_labels P) with
    | Some pos => SNext pos (set_calls s1 (callee_frame ip0 n ar clo :: caller_frame ip0 top :: rest))
    | None => SErr (EProcedureNotFound h) (ip0 + 1)
                   (set_calls s1 (callee_frame ip0 n ar clo :: caller_frame ip0 top :: rest))
    end.

Theorem vm_call_function : forall ip0 s stk a (is_clo : bool) h ar ups top rest,
  opcode_at ip0 = 11%N ->
  stack_ok s -> stack_of s = stk ++ [VObj a] ->
  hget (st_heap s) a = Some (callee_obj is_clo h ar ups) ->
  st_calls s = top :: rest ->
  let s1 := popped s (length stk) in
  stack_ok s1 /\ stack_of s1 = stk /\
  STEP ip0 s = call_result ip0 s1 (length stk) h ar (if is_clo then Some a else None) top rest.
Proof.
  intros ip0 s stk a is_clo h ar ups top rest Hop Hok Hst Ha Hc s1.
  destruct (spop_exact s stk (VObj a) Hok Hst) as (Ep & Hok1 & Hst1). fold s1 in Ep, Hok1, Hst1.
  split; [exact Hok1|]. split; [exact Hst1|].
  destruct (popped_components s (length stk)) as (C1 & _ & C3 & _). fold s1 in C1, C3.
  step_opc Hop. unfold i_11. rewrite Ep, C3, Ha. cbv zeta. rewrite C1, Hc.
  assert (Hn : scount (set_calls s1 (mkFrame (fr_src top) (ip0 + 1) (fr_off top) (fr_clo top) :: rest)) = length stk).
  { change (scount (set_calls s1 _)) with (scount s1). rewrite (scount_abs Hok1), Hst1. reflexivity. }
  unfold call_result, caller_frame, callee_frame.
  destruct is_clo; cbn [callee_obj]; rewrite Hn;
    (destruct (N.of_nat (length stk) <? ar)%N; [reflexivity|]);
    unfold push_frame; cbn [st_calls set_calls length];
    (destruct (call_stack_size <=? S (length rest)); [reflexivity|]);
    (destruct (assoc h (p_labels P)); reflexivity).
Qed.

(* the three error cases and the success case, spelled out *)
Corollary vm_call_function_ok : forall ip0 s stk a (is_clo : bool) h ar ups top rest pos,
  opcode_at ip0 = 11%N -> stack_ok s -> stack_of s = stk ++ [VObj a] ->
  hget (st_heap s) a = Some (callee_obj is_clo h ar ups) -> st_calls s = top :: rest ->
  (ar <= N.of_nat (length stk))%N -> S (length rest) < call_stack_size -> assoc h (p_labels P) = Some pos ->
  STEP ip0 s = SNext pos (set_calls (popped s (length stk))
                            (callee_frame ip0 (length stk) ar (if is_clo then Some a else None)
                             :: caller_frame ip0 top :: rest)).
Proof.
  intros ip0 s stk a is_clo h ar ups top rest pos Hop Hok Hst Ha Hc Har Hd Hl.
  destruct (vm_call_function ip0 s stk a is_clo h ar ups top rest Hop Hok Hst Ha Hc) as (_ & _ & E).
  rewrite E. unfold call_result.
  destruct (N.ltb_spec (N.of_nat (length stk)) ar); [lia|].
  destruct (Nat.leb_spec call_stack_size (S (length rest))); [lia|]. rewrite Hl. reflexivity.
Qed.

Corollary vm_call_missing_argument : forall ip0 s stk a (is_clo : bool) h ar ups top rest,
  opcode_at ip0 = 11%N -> stack_ok s -> stack_of s = stk ++ [VObj a] ->
  hget (st_heap s) a = Some (callee_obj is_clo h ar ups) -> st_calls s = top :: rest ->
  (N.of_nat (length stk) < ar)%N ->
  STEP ip0 s = SErr EMissingArgument (ip0 + 1) (set_calls (popped s (length stk)) (caller_frame ip0 top :: rest)).
Proof.
  intros ip0 s stk a is_clo h ar ups top rest Hop Hok Hst Ha Hc Har.
  destruct (vm_call_function ip0 s stk a is_clo h ar ups top rest Hop Hok Hst Ha Hc) as (_ & _ & E).
  rewrite E. unfold call_result. destruct (N.ltb_spec (N.of_nat (length stk)) ar); [reflexivity|lia].
Qed.

Corollary vm_call_stack_overflow : forall ip0 s stk a (is_clo : bool) h ar ups top rest,
  opcode_at ip0 = 11%N -> stack_ok s -> stack_of s = stk ++ [VObj a] ->
  hget (st_heap s) a = Some (callee_obj is_clo h ar ups) -> st_calls s = top :: rest ->
  (ar <= N.of_nat (length stk))%N -> call_stack_size <= S (length rest) ->
  STEP ip0 s = SErr ECallStackOverflow (ip0 + 1) (set_calls (popped s (length stk)) (caller_frame ip0 top :: rest)).
Proof.
  intros ip0 s stk a is_clo h ar ups top rest Hop Hok Hst Ha Hc Har Hd.
  destruct (vm_call_function ip0 s stk a is_clo h ar ups top rest Hop Hok Hst Ha Hc) as (_ & _ & E).
  rewrite E. unfold call_result. destruct (N.ltb_spec (N.of_nat (length stk)) ar); [lia|].
  destruct (Nat.leb_spec call_stack_size (S (length rest))); [reflexivity|lia].
Qed.

Corollary vm_call_procedure_not_found : forall ip0 s stk a (is_clo : bool) h ar ups top rest,
  opcode_at ip0 = 11%N -> stack_ok s -> stack_of s = stk ++ [VObj a] ->
  hget (st_heap s) a = Some (callee_obj is_clo h ar ups) -> st_calls s = top :: rest ->
  (ar <= N.of_nat (length stk))%N -> S (length rest) < call_stack_size -> assoc h (p_labels P) = None ->
  STEP ip0 s = SErr (EProcedureNotFound h) (ip0 + 1)
                 (set_calls (popped s (length stk))
                    (callee_frame ip0 (length stk) ar (if is_clo then Some a else None)
                     :: caller_frame ip0 top :: rest)).
Proof.
  intros ip0 s stk a is_clo h ar ups top rest Hop Hok Hst Ha Hc Har Hd Hl.
  destruct (vm_call_function ip0 s stk a is_clo h ar ups top rest Hop Hok Hst Ha Hc) as (_ & _ & E).
  rewrite E. unfold call_result.
  destruct (N.ltb_spec (N.of_nat (length stk)) ar); [lia|].
  destruct (Nat.leb_spec call_stack_size (S (length rest))); [lia|]. rewrite Hl. reflexivity.
Qed.

(* ------------------------------------------------------------------ *)
(* 2. Return                                                           *)
(* ------------------------------------------------------------------ *)

(* Return in a frame [fr] above the caller's frame [prev], the returned value on top of the frame's part of the
   stack: the open upvalues of the frame's slots are closed (they keep the value their slot has now), the frame is
   popped, the stack is truncated to the frame's offset, the returned value is pushed, execution continues at the
   caller frame's destination. *)
Theorem vm_return : forall ip0 x fr prev rest l,
  opcode_at ip0 = 22%N -> st_calls x = fr :: prev :: rest ->
  vm_ok x -> open_list x l ->
  let off := N.to_nat (fr_off fr) in
  let v := last (stack_of x) VNil in
  off < length (stack_of x) ->
  exists x2,
    close_upvalues_from off (set_calls x (prev :: rest)) = ClOk x2 /\
    STEP ip0 x = SNext (fr_dst prev) (pushed (truncated x2 off) v) /\
    (* the result state *)
    stack_ok (pushed (truncated x2 off) v) /\
    stack_of (pushed (truncated x2 off) v) = firstn off (stack_of x) ++ [v] /\
    st_calls (pushed (truncated x2 off) v) = prev :: rest /\
    st_globals (pushed (truncated x2 off) v) = st_globals x /\
    vm_ok (pushed (truncated x2 off) v) /\
    open_list (pushed (truncated x2 off) v) (kept_by off l) /\
    (* the heap: exactly the open upvalues of the frame's slots are closed *)
    st_stack x2 = st_stack x /\
    st_heap (pushed (truncated x2 off) v) = st_heap x2 /\
    (forall a loc, In (a, loc) l -> off <= loc ->
       exists nx, hget (st_heap x2) a = Some (OUp (mkUp None (sraw_get x loc) nx))) /\
    (forall a, (forall loc, In (a, loc) l -> loc < off) -> hget (st_heap x2) a = hget (st_heap x) a).
Proof.
  intros ip0 x fr prev rest l Hop Ec Hvm Hl off v Hoff.
  assert (Hok : stack_ok x) by (destruct Hvm as (_ & H & _); exact H).
  destruct (return_closes F bld P reenter ip0 x fr prev rest l Hop Ec Hvm Hl)
    as (x2 & Ecl & Est & Hvm2 & Hl2 & Hs2 & Hc2 & Hcl & Hun).
  fold off in Ecl, Est, Hvm2, Hl2, Hcl, Hun.
  exists x2. split; [exact Ecl|].
  assert (Hs2' : st_globals (pushed (truncated x2 off) v) = st_globals x).
  { pose proof (close_upvalues_go_frame (S (length (st_heap (set_calls x (prev :: rest))))) off
                  (set_calls x (prev :: rest))) as Hf.
    unfold close_upvalues_from in Ecl. rewrite Ecl in Hf. destruct Hf as (_ & _ & Hg & _). exact Hg. }
  assert (Hok2 : stack_ok x2) by (unfold stack_ok; rewrite Hs2; exact Hok).
  assert (Hst2 : stack_of x2 = stack_of x) by (unfold stack_of; rewrite Hs2; reflexivity).
  destruct (@truncated_abs x2 off Hok2) as (Hok3 & Hst3 & Hlast); [rewrite Hst2; lia|].
  assert (Hcap3 : cap (truncated x2 off) = cap x) by (unfold cap, truncated; cbn; rewrite Hs2; reflexivity).
  assert (Hroom : S (length (stack_of (truncated x2 off))) < cap (truncated x2 off)).
  { rewrite Hst3, Hcap3, firstn_length, Hst2. pose proof (stack_of_length x Hok) as HL.
    unfold stack_ok, vs_inv in Hok. unfold cap. lia. }
  destruct (spush_exact (truncated x2 off) v Hok3 Hroom) as (Ep & Hok4 & Hst4).
  split.
  { rewrite Est, sclear_until_exact. cbn [fst snd]. rewrite Hlast, Hst2. fold v. unfold push_next. rewrite Ep.
    reflexivity. }
  split; [exact Hok4|]. split; [rewrite Hst4, Hst3, Hst2; reflexivity|].
  split; [exact Hc2|].
  assert (Hcap4 : cap (pushed (truncated x2 off) v) = cap x2)
    by (unfold cap, pushed, truncated; cbn; apply upd_length).
  split; [exact Hs2' |].
  split.
  { destruct Hvm2 as (Ho & _ & Hf). split; [|split].
    - unfold open_ok in *. rewrite Hcap4. exact Ho.
    - exact Hok4.
    - unfold frames_lt in *. rewrite Hcap4. exact Hf. }
  split; [exact Hl2|]. split; [exact Hs2|]. split; [reflexivity|]. split; assumption.
Qed.

(* Return from a frame pushed by CallFunction at ip0 (vm_call_function): execution continues at ip0 + 1, the
   instruction after the call, in the caller's frame (same offset and closure as before the call); the callee's
   part of the stack - everything from  n - ar  upwards, arguments included - is replaced by the returned value. *)
Corollary vm_return_to_caller : forall ip0 ipr x n ar clo top rest l,
  opcode_at ipr = 22%N ->
  st_calls x = callee_frame ip0 n ar clo :: caller_frame ip0 top :: rest ->
  vm_ok x -> open_list x l ->
  let off := n - N.to_nat ar in
  off < length (stack_of x) ->
  exists x',
    STEP ipr x = SNext (ip0 + 1) x' /\
    stack_ok x' /\ stack_of x' = firstn off (stack_of x) ++ [last (stack_of x) VNil] /\
    st_calls x' = caller_frame ip0 top :: rest /\ st_globals x' = st_globals x /\
    vm_ok x' /\ open_list x' (kept_by off l).
Proof.
  intros ip0 ipr x n ar clo top rest l Hop Hc Hvm Hl off Hoff.
  assert (Eoff : N.to_nat (fr_off (callee_frame ip0 n ar clo)) = off) by (unfold callee_frame, off; cbn [fr_off]; lia).
  destruct (vm_return ipr x _ _ rest l Hop Hc Hvm Hl) as (x2 & _ & E & A1 & A2 & A3 & A4 & A5 & A6 & _);
    [rewrite Eoff; exact Hoff|].
  rewrite Eoff in *. eexists. split; [exact E|]. auto 10.
Qed.

(* ------------------------------------------------------------------ *)
(* 3. The callee's view of the arguments                               *)
(* ------------------------------------------------------------------ *)

(* ReadLocalVar / SetLocalVar address the stack relative to the offset of the top frame *)
Theorem vm_read_local : forall ip0 x hd off,
  opcode_at ip0 = 20%N -> op_u32 P (ip0 + 1) = Some hd -> top_offset x = Some off ->
  stack_ok x -> S (length (stack_of x)) < cap x ->
  let v := nth (off + N.to_nat hd) (stack_of x) VNil in
  STEP ip0 x = SNext (ip0 + 1 + 4) (pushed x v) /\ stack_ok (pushed x v) /\ stack_of (pushed x v) = stack_of x ++ [v].
Proof.
  intros ip0 x hd off Hop Eh Eo Hok Hroom v.
  destruct (spush_exact x v Hok Hroom) as (Ep & Hok' & Hst').
  split; [|split; assumption].
  step_opc Hop. unfold i_20. rewrite Eh. cbv zeta. rewrite Eo, (sget_abs x _ Hok). fold v.
  unfold push_next. rewrite Ep. reflexivity.
Qed.

Theorem vm_set_local : forall ip0 x stk v hd off,
  opcode_at ip0 = 19%N -> op_u32 P (ip0 + 1) = Some hd -> top_offset x = Some off ->
  stack_ok x -> stack_of x = stk ++ [v] -> off + N.to_nat hd < length stk ->
  exists x', STEP ip0 x = SNext (ip0 + 1 + 4) x' /\ stack_ok x' /\
             stack_of x' = upd stk (off + N.to_nat hd) v /\
             st_calls x' = st_calls x /\ st_globals x' = st_globals x /\ st_heap x' = st_heap x /\
             st_open x' = st_open x /\ cap x' = cap x.
Proof.
  intros ip0 x stk v hd off Hop Eh Eo Hok Hst Hlt.
  destruct (spop_exact x stk v Hok Hst) as (_ & Hok1 & Hst1).
  destruct (popped_components x (length stk)) as (C1 & C2 & C3 & C4 & _ & _ & _ & C8).
  destruct (@sset_abs (popped x (length stk)) (off + N.to_nat hd) v Hok1) as (x' & Es & Hok' & Hst' & D1 & D2 & D3 & D4 & D5);
    [rewrite Hst1; exact Hlt|].
  exists x'. split.
  { step_opc Hop. unfold i_19. rewrite Eh. cbv zeta. rewrite Eo.
    rewrite (spop_w_offset_abs x off stk v Hok Hst) by lia. unfold Vm.write_local. rewrite Es. reflexivity. }
  rewrite Hst1 in Hst'. rewrite D1, D2, D3, D4, D5, C1, C2, C3, C4, C8. auto 10.
Qed.

Lemma callee_offset ip0 (low args : list value) ar clo :
  N.to_nat ar <= length args ->
  N.to_nat (fr_off (callee_frame ip0 (length (low ++ args)) ar clo)) = length low + (length args - N.to_nat ar).
Proof. intros H. unfold callee_frame. cbn [fr_off]. rewrite app_length. lia. Qed.

(* The call of a function of arity [ar] with the values [args] (pushed first to last) above [low], at least [ar] of
   them: the callee's frame starts  length args - ar  values into [args]; while the callee's frame is the top frame and
   the stack still begins with low ++ args, local j (j < ar) IS  args[length args - ar + j]:
   ReadLocalVar j pushes a copy of it, SetLocalVar j overwrites it.
   In declaration order (the compiler makes declared parameter m local ar - 1 - m, see VmCallLink.param_binding):
   declared parameter m is args[length args - 1 - m] - the LAST argument is the first parameter. *)
Theorem vm_params_are_locals : forall ip0 s low args a (is_clo : bool) h ar ups top rest pos,
  opcode_at ip0 = 11%N -> stack_ok s -> stack_of s = (low ++ args) ++ [VObj a] ->
  hget (st_heap s) a = Some (callee_obj is_clo h ar ups) -> st_calls s = top :: rest ->
  N.to_nat ar <= length args -> S (length rest) < call_stack_size -> assoc h (p_labels P) = Some pos ->
  let fr := callee_frame ip0 (length (low ++ args)) ar (if is_clo then Some a else None) in
  let s2 := set_calls (popped s (length (low ++ args))) (fr :: caller_frame ip0 top :: rest) in
  let d := length args - N.to_nat ar in
  STEP ip0 s = SNext pos s2 /\ stack_ok s2 /\ stack_of s2 = low ++ args /\
  forall x cs tmp j ip,
    st_calls x = fr :: cs -> stack_ok x -> j < N.to_nat ar ->
    op_u32 P (ip + 1) = Some (N.of_nat j) ->
    (opcode_at ip = 20%N -> stack_of x = low ++ args ++ tmp -> S (length (stack_of x)) < cap x ->
       STEP ip x = SNext (ip + 1 + 4) (pushed x (nth (d + j) args VNil)) /\
       stack_of (pushed x (nth (d + j) args VNil)) = low ++ args ++ tmp ++ [nth (d + j) args VNil]) /\
    (opcode_at ip = 19%N -> forall v, stack_of x = (low ++ args ++ tmp) ++ [v] ->
       exists x', STEP ip x = SNext (ip + 1 + 4) x' /\ stack_ok x' /\
                  stack_of x' = low ++ upd args (d + j) v ++ tmp /\ st_calls x' = st_calls x).
Proof.
  intros ip0 s low args a is_clo h ar ups top rest pos Hop Hok Hst Ha Hc Har Hd Hl fr s2 d.
  assert (Har' : (ar <= N.of_nat (length (low ++ args)))%N) by (rewrite app_length; lia).
  pose proof (vm_call_function_ok ip0 s (low ++ args) a is_clo h ar ups top rest pos Hop Hok Hst Ha Hc Har' Hd Hl) as E.
  destruct (spop_exact s (low ++ args) (VObj a) Hok Hst) as (_ & Hok1 & Hst1).
  split; [exact E|]. split; [exact Hok1|]. split; [exact Hst1|].
  intros x cs tmp j ip Ecx Hokx Hj Ej.
  assert (Eo : top_offset x = Some (length low + d)).
  { unfold top_offset. rewrite Ecx. f_equal. apply callee_offset. exact Har. }
  assert (Hjn : N.to_nat (N.of_nat j) = j) by lia.
  split.
  - intros Hop' Hstx Hroom.
    destruct (vm_read_local ip x (N.of_nat j) (length low + d) Hop' Ej Eo Hokx Hroom) as (E1 & _ & E3).
    rewrite Hjn in E1, E3.
    assert (Hn : nth (length low + d + j) (stack_of x) VNil = nth (d + j) args VNil).
    { rewrite Hstx, app_nth2 by lia. replace (length low + d + j - length low) with (d + j) by lia.
      apply app_nth1. unfold d. lia. }
    rewrite Hn in E1, E3. split; [exact E1|]. rewrite E3, Hstx, <- !app_assoc. reflexivity.
  - intros Hop' v Hstx.
    destruct (vm_set_local ip x (low ++ args ++ tmp) v (N.of_nat j) (length low + d) Hop' Ej Eo Hokx Hstx)
      as (x' & E1 & Hok' & Hst' & Hc' & _).
    { rewrite Hjn, !app_length. unfold d. lia. }
    exists x'. split; [exact E1|]. split; [exact Hok'|]. split; [|exact Hc'].
    rewrite Hst', Hjn. clear - Har Hj. unfold d.
    replace (length low + (length args - N.to_nat ar) + j) with (length low + (length args - N.to_nat ar + j)) by lia.
    assert (Hlt : length args - N.to_nat ar + j < length args) by lia.
    revert Hlt. generalize (length args - N.to_nat ar + j). clear Har Hj. intros i Hi.
    induction low as [|y low IH]; cbn [app length Nat.add upd].
    + revert i Hi. induction args as [|z args IH]; intros i Hi; cbn [length] in Hi; [lia|].
      destruct i; cbn [upd app]; [reflexivity|]. f_equal. apply IH. lia.
    + f_equal. exact IH.
Qed.

(* ------------------------------------------------------------------ *)
(* 4. A static call site: FunctionPointer h ar; CallFunction           *)
(* ------------------------------------------------------------------ *)

Lemma code_at_fp_operands ip h ar :
  code_at P ip (IFunctionPointer h ar) -> (h < 4294967296)%N -> (ar < 4294967296)%N ->
  opcode_at ip = 37%N /\ op_u32 P (ip + 1) = Some h /\ op_u32 P (ip + 1 + 4) = Some ar.
Proof.
  intros Hc Hh Har. split; [exact (code_at_opcode Hc)|].
  split; [exact (code_at_operand1 (w := 4) Hc eq_refl eq_refl (fits4_lt Hh))|].
  destruct Hc as (pre & post & E & <-). unfold op_u32, read_le.
  assert (Hlen : (N.of_nat (length pre) + 1 + 4 + N.of_nat 4 <= N.of_nat (length (p_code P)))%N).
  { rewrite E, !app_length. unfold encode_instr. cbn [instr_op op_widths instr_args encode_args length].
    rewrite !app_length, !le_bytes_length. cbn [length]. lia. }
  apply N.leb_le in Hlen. rewrite Hlen. f_equal.
  rewrite E. unfold encode_instr. cbn [instr_op op_widths instr_args encode_args op_code].
  replace (N.to_nat (N.of_nat (length pre) + 1 + 4)) with (length (pre ++ 37%N :: le_bytes 4 h))
    by (rewrite app_length; cbn [length]; rewrite le_bytes_length; lia).
  replace (pre ++ (37%N :: le_bytes 4 h ++ le_bytes 4 ar ++ []) ++ post)
    with ((pre ++ 37%N :: le_bytes 4 h) ++ le_bytes 4 ar ++ post)
    by (rewrite app_nil_r, <- !app_assoc; cbn [app]; rewrite <- !app_assoc; reflexivity).
  rewrite skipn_app_len, firstn_len_app by (rewrite le_bytes_length; reflexivity).
  apply le_to_N_le_bytes. exact (fits4_lt Har).
Qed.

(* FunctionPointer h ar allocates a function object and pushes a pointer to it *)
Theorem vm_function_pointer : forall ip s h ar,
  code_at P ip (IFunctionPointer h ar) -> (h < 4294967296)%N -> (ar < 4294967296)%N ->
  stack_ok s -> S (length (stack_of s)) < cap s ->
  let fa := N.of_nat (length (st_heap s)) in
  let s1 := pushed (set_heap s (st_heap s ++ [OFun h ar])) (VObj fa) in
  STEP ip s = SNext (ip + 9) s1 /\ stack_ok s1 /\ stack_of s1 = stack_of s ++ [VObj fa] /\
  hget (st_heap s1) fa = Some (OFun h ar) /\ st_calls s1 = st_calls s.
Proof.
  intros ip s h ar Hc Hh Har Hok Hroom fa s1.
  destruct (code_at_fp_operands ip h ar Hc Hh Har) as (Hop & Eh & Ea).
  set (s0 := set_heap s (st_heap s ++ [OFun h ar])).
  assert (Hok0 : stack_ok s0) by exact Hok.
  destruct (spush_exact s0 (VObj fa) Hok0 Hroom) as (Ep & Hok1 & Hst1).
  split.
  { step_opc Hop. unfold i_37_42. rewrite Eh, Ea. change (37 =? 37)%N with true. cbv iota.
    unfold salloc, halloc. cbv zeta. fold fa. fold s0. unfold push_next. rewrite Ep.
    replace (ip + 1 + 8)%N with (ip + 9)%N by lia. reflexivity. }
  split; [exact Hok1|]. split; [exact Hst1|]. split; [|reflexivity].
  unfold s1, pushed, hget, fa. cbn [st_heap set_stack set_heap]. rewrite Nat2N.id, nth_error_app2 by lia.
  rewrite Nat.sub_diag. reflexivity.
Qed.

(* the pair FunctionPointer h ar; CallFunction at ip, executed with [stk] on the stack: after the two dispatches
   the stack is [stk] again, the heap has one more object (the function value), and the outcome is that of
   CallFunction on a function object of handle h and arity ar (call_result). *)
Theorem vm_static_call : forall ip s h ar top rest,
  code_at P ip (IFunctionPointer h ar) -> code_at P (ip + 9) ICallFunction ->
  (h < 4294967296)%N -> (ar < 4294967296)%N ->
  stack_ok s -> S (length (stack_of s)) < cap s -> st_calls s = top :: rest ->
  let fa := N.of_nat (length (st_heap s)) in
  let s1 := pushed (set_heap s (st_heap s ++ [OFun h ar])) (VObj fa) in
  let s2 := popped s1 (length (stack_of s)) in
  STEP ip s = SNext (ip + 9) s1 /\
  STEP (ip + 9) s1 = call_result (ip + 9) s2 (length (stack_of s)) h ar None top rest /\
  stack_ok s2 /\ stack_of s2 = stack_of s /\ st_heap s2 = st_heap s ++ [OFun h ar] /\
  st_globals s2 = st_globals s /\ st_open s2 = st_open s.
Proof.
  intros ip s h ar top rest Hc1 Hc2 Hh Har Hok Hroom Hcs fa s1 s2.
  destruct (vm_function_pointer ip s h ar Hc1 Hh Har Hok Hroom) as (E1 & Hok1 & Hst1 & Hfa & Hcalls).
  fold fa in E1, Hok1, Hst1, Hfa, Hcalls. fold s1 in E1, Hok1, Hst1, Hfa, Hcalls.
  split; [exact E1|].
  assert (Hcs1 : st_calls s1 = top :: rest) by (rewrite Hcalls; exact Hcs).
  destruct (vm_call_function (ip + 9) s1 (stack_of s) fa false h ar [] top rest
              (code_at_opcode Hc2) Hok1 Hst1 Hfa Hcs1) as (Hok2 & Hst2 & E2).
  fold s2 in Hok2, Hst2, E2. split; [exact E2|]. split; [exact Hok2|]. split; [exact Hst2|].
  repeat split.
Qed.

End Call.
