(* Model of cao-lang/src/collections/hash_map.rs (CaoHashMap), as repaired by the fix:
   commits listed in known_findings.json.  Executable; proofs are in HashMapProofs.v.
   A slot is [None] when its stored hash is 0, otherwise [Some (hash, key, value)]. *)
From Coq Require Import Arith Lia List Bool NArith.
Import ListNotations.
From Cao Require Import Cyc ProbeDefs.

Set Implicit Arguments.

Inductive res (A : Type) :=
| Ok (a : A)
| AllocErr            (* Err(MapError::AllocError) *)
| Diverge             (* a loop of the real code would not terminate *)
| Panic.              (* an assert! / unwrap of the real code fires *)
Arguments AllocErr {A}.
Arguments Diverge {A}.
Arguments Panic {A}.

Section HM.
  Variables (K V : Type).
  Variable keqb : K -> K -> bool.           (* K: Eq *)
  Variable hashfn : K -> N.                 (* hash(&key): CaoHasher, never 0 *)
  Variable home : nat -> N -> nat.          (* optimal_ind(hash, capacity) *)
  Variable needs_grow : nat -> nat -> bool. (* count as f32 > capacity as f32 * MAX_LOAD *)
  Variable new_cap : nat -> nat.            (* grow: (capacity.max(2) * 3) / 2 *)

  Record entry := { e_hash : N; e_key : K; e_val : V }.
  Definition pk : Type := (N * K)%type.     (* what a probe compares: hash and key *)
  Definition ek (e : entry) : pk := (e_hash e, e_key e).
  Definition pkeqb (a b : pk) : bool := N.eqb (fst a) (fst b) && keqb (snd a) (snd b).
  Definition phome (n : nat) (k : pk) : nat := home n (fst k).

  Record hmap := { hm_slots : list (option entry); hm_count : nat }.
  Definition hcap (m : hmap) : nat := length (hm_slots m).

  Definition hfind (t : list (option entry)) (h : N) (k : K) : option nat :=
    find pkeqb ek phome (length t) t (h, k).

  (* with_capacity_in(capacity): capacity.max(1) zeroed slots *)
  Definition hm_new (c : nat) : hmap := {| hm_slots := repeat None (Nat.max c 1); hm_count := 0 |}.

  (* the rehash loop of adjust_capacity: move every old entry, in slot order, into [t] *)
  Fixpoint rehash (old : list (option entry)) (t : list (option entry)) (cnt : nat)
    : res (list (option entry) * nat) :=
    match old with
    | [] => Ok (t, cnt)
    | None :: r => rehash r t cnt
    | Some e :: r =>
        match hfind t (e_hash e) (e_key e) with
        | None => Diverge
        | Some j =>
            match get t j with
            | Some _ => Panic   (* debug_assert_eq!(hashes[j], 0) *)
            | None => rehash r (set t j (Some e)) (S cnt)
            end
        end
    end.

  (* adjust_capacity(capacity); [ok] = whether the allocation succeeds *)
  Definition adjust (m : hmap) (c : nat) (ok : bool) : res hmap :=
    if negb ok then AllocErr
    else match rehash (hm_slots m) (repeat None c) 0 with
         | Ok (t, cnt) =>
             if Nat.eqb cnt (hm_count m) then Ok {| hm_slots := t; hm_count := cnt |}
             else Panic    (* assert_eq!(count, self.count) *)
         | AllocErr => AllocErr
         | Diverge => Diverge
         | Panic => Panic
         end.

  Definition grow (m : hmap) (ok : bool) : res hmap := adjust m (new_cap (hcap m)) ok.

  (* drop log of an operation: keys and values destroyed by it, in order *)
  Definition drops : Type := (list K * list V)%type.

  (* insert_with_hint(h, key, value) *)
  Definition insert_h (m : hmap) (h : N) (k : K) (v : V) (ok : bool) : res hmap * drops :=
    match hfind (hm_slots m) h k with
    | None => (Diverge, ([], []))
    | Some i =>
        match get (hm_slots m) i with
        | Some e =>
            (Ok {| hm_slots := set (hm_slots m) i (Some {| e_hash := h; e_key := k; e_val := v |});
                   hm_count := hm_count m |}, ([e_key e], [e_val e]))
        | None =>
            if needs_grow (S (hm_count m)) (hcap m) then
              match grow m ok with
              | Ok m' =>
                  match hfind (hm_slots m') h k with
                  | None => (Diverge, ([], []))
                  | Some i' =>
                      (Ok {| hm_slots := set (hm_slots m') i' (Some {| e_hash := h; e_key := k; e_val := v |});
                             hm_count := S (hm_count m') |}, ([], []))
                  end
              | AllocErr => (AllocErr, ([k], [v]))   (* the arguments are dropped on the error path *)
              | Diverge => (Diverge, ([], []))
              | Panic => (Panic, ([], []))
              end
            else
              (Ok {| hm_slots := set (hm_slots m) i (Some {| e_hash := h; e_key := k; e_val := v |});
                     hm_count := S (hm_count m) |}, ([], []))
        end
    end.

  (* remove_with_hint(hash, key): the value is handed to the caller, the key is dropped *)
  Definition remove_h (m : hmap) (h : N) (k : K) : res (hmap * option V) * drops :=
    match hfind (hm_slots m) h k with
    | None => (Diverge, ([], []))
    | Some i =>
        match get (hm_slots m) i with
        | None => (Ok (m, None), ([], []))
        | Some e =>
            let n := hcap m in
            match backshift ek phome n (set (hm_slots m) i None) i (S i mod n) n with
            | None => (Diverge, ([], []))
            | Some t => (Ok ({| hm_slots := t; hm_count := hm_count m - 1 |}, Some (e_val e)),
                         ([e_key e], []))
            end
        end
    end.

  Definition get_h (m : hmap) (h : N) (k : K) : res (option V) :=
    match hfind (hm_slots m) h k with
    | None => Diverge
    | Some i => Ok (match get (hm_slots m) i with Some e => Some (e_val e) | None => None end)
    end.

  (* `*map.get_mut(k)? = v` : the old value is dropped by the assignment *)
  Definition get_mut_set (m : hmap) (k : K) (v : V) : res (hmap * bool) * drops :=
    match hfind (hm_slots m) (hashfn k) k with
    | None => (Diverge, ([], []))
    | Some i =>
        match get (hm_slots m) i with
        | Some e => (Ok ({| hm_slots := set (hm_slots m) i
                                          (Some {| e_hash := e_hash e; e_key := e_key e; e_val := v |});
                            hm_count := hm_count m |}, true), ([], [e_val e]))
        | None => (Ok (m, false), ([], []))
        end
    end.

  (* entry(key) and optionally or_insert_with(|| v).  [ins = None]: the Entry is dropped unused *)
  Definition entry_op (m : hmap) (k : K) (ins : option V) (ok : bool)
    : res (hmap * option V) * drops :=
    let h := hashfn k in
    match hfind (hm_slots m) h k with
    | None => (Diverge, ([], []))
    | Some i =>
        match get (hm_slots m) i with
        | Some e => (Ok (m, Some (e_val e)), ([k], []))      (* Occupied: the passed key is dropped *)
        | None =>
            let grown :=
              if needs_grow (S (hm_count m)) (hcap m) then grow m ok else Ok m in
            match grown with
            | Ok m' =>
                match ins with
                | None => (Ok (m', None), ([k], []))
                | Some v =>
                    match hfind (hm_slots m') h k with
                    | None => (Diverge, ([], []))
                    | Some i' =>
                        (Ok ({| hm_slots := set (hm_slots m') i' (Some {| e_hash := h; e_key := k; e_val := v |});
                                hm_count := S (hm_count m') |}, Some v), ([], []))
                    end
                end
            | AllocErr => (AllocErr, ([k], []))
            | Diverge => (Diverge, ([], []))
            | Panic => (Panic, ([], []))
            end
        end
    end.

  Definition clear_op (m : hmap) : hmap * drops :=
    ({| hm_slots := repeat None (hcap m); hm_count := 0 |},
     (map e_key (contents (hm_slots m)), map e_val (contents (hm_slots m)))).

  Definition iter_op (m : hmap) : list (K * V) :=
    map (fun e => (e_key e, e_val e)) (contents (hm_slots m)).

  (* clone(): with_capacity_in(capacity) then insert(k.clone(), v.clone()) in slot order *)
  Variable clone_k : K -> K.
  Variable clone_v : V -> V.
  Fixpoint clone_fill (es : list entry) (m : hmap) : res hmap :=
    match es with
    | [] => Ok m
    | e :: r =>
        let k := clone_k (e_key e) in
        match fst (insert_h m (hashfn k) k (clone_v (e_val e)) true) with
        | Ok m' => clone_fill r m'
        | AllocErr => AllocErr | Diverge => Diverge | Panic => Panic
        end
    end.
  Definition clone_op (m : hmap) : res hmap := clone_fill (contents (hm_slots m)) (hm_new (hcap m)).

  (* ---------------- operations and histories ---------------- *)
  Inductive hop :=
  | HInsert (k : K) (v : V) (ok : bool)
  | HInsertH (h : N) (k : K) (v : V) (ok : bool)
  | HRemove (k : K) | HRemoveH (h : N) (k : K)
  | HGet (k : K) | HGetH (h : N) (k : K)
  | HContains (k : K) | HContainsH (h : N) (k : K)
  | HGetMutSet (k : K) (v : V)
  | HEntryIns (k : K) (v : V) (ok : bool)
  | HEntryDrop (k : K) (ok : bool)
  | HReserve (add : nat) (ok : bool)
  | HClear | HClone | HLen | HCap | HIter.

  Inductive hout :=
  | RUnit | RErr | RHash (h : N) | ROptV (o : option V) | RBool (b : bool) | RNat (n : nat)
  | RList (l : list (K * V)) | RClone (c : nat) (l : list (K * V)) | RDiverge | RPanic.

  Definition lift {A} (r : res A) (m : hmap) (f : A -> hmap * hout) : hmap * hout :=
    match r with
    | Ok a => f a
    | AllocErr => (m, RErr)
    | Diverge => (m, RDiverge)
    | Panic => (m, RPanic)
    end.

  Definition hm_step (m : hmap) (o : hop) : hmap * hout * drops :=
    match o with
    | HInsert k v ok =>
        let '(r, d) := insert_h m (hashfn k) k v ok in
        (lift r m (fun m' => (m', RHash (hashfn k))), d)
    | HInsertH h k v ok =>
        let '(r, d) := insert_h m h k v ok in (lift r m (fun m' => (m', RUnit)), d)
    | HRemove k =>
        let '(r, d) := remove_h m (hashfn k) k in (lift r m (fun p => (fst p, ROptV (snd p))), d)
    | HRemoveH h k =>
        let '(r, d) := remove_h m h k in (lift r m (fun p => (fst p, ROptV (snd p))), d)
    | HGet k => (lift (get_h m (hashfn k) k) m (fun o => (m, ROptV o)), ([], []))
    | HGetH h k => (lift (get_h m h k) m (fun o => (m, ROptV o)), ([], []))
    | HContains k =>
        (lift (get_h m (hashfn k) k) m
              (fun o => (m, RBool (match o with Some _ => true | None => false end))), ([], []))
    | HContainsH h k =>
        (lift (get_h m h k) m
              (fun o => (m, RBool (match o with Some _ => true | None => false end))), ([], []))
    | HGetMutSet k v =>
        let '(r, d) := get_mut_set m k v in (lift r m (fun p => (fst p, RBool (snd p))), d)
    | HEntryIns k v ok =>
        let '(r, d) := entry_op m k (Some v) ok in (lift r m (fun p => (fst p, ROptV (snd p))), d)
    | HEntryDrop k ok =>
        let '(r, d) := entry_op m k None ok in (lift r m (fun p => (fst p, RUnit)), d)
    | HReserve add ok => (lift (adjust m (hcap m + add) ok) m (fun m' => (m', RUnit)), ([], []))
    | HClear => let '(m', d) := clear_op m in (m', RUnit, d)
    | HClone =>
        match clone_op m with
        | Ok c => (m, RClone (hcap c) (iter_op c), snd (clear_op c))  (* the clone is dropped at once *)
        | AllocErr => (m, RErr, ([], [])) | Diverge => (m, RDiverge, ([], []))
        | Panic => (m, RPanic, ([], []))
        end
    | HLen => (m, RNat (hm_count m), ([], []))
    | HCap => (m, RNat (hcap m), ([], []))
    | HIter => (m, RList (iter_op m), ([], []))
    end.

  Fixpoint hm_run (m : hmap) (ops : list hop) : hmap * list (hout * drops) :=
    match ops with
    | [] => (m, [])
    | o :: r => let '(m1, x, d) := hm_step m o in
                let '(m2, xs) := hm_run m1 r in (m2, (x, d) :: xs)
    end.
End HM.
