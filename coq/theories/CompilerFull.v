(* C10: third invariant of the compiler model, threaded through process_card together with Inv2
   (CompilerOk):
   (1) strings  - cs_dlen is the length of the data section and every string operand in the buffer
                  (StringLiteral, NativeFunctionPointer; property shorthands are StringLiterals) is the
                  offset of a complete length-prefixed entry of the data section with valid UTF-8
                  payload ([CompilerData.entry_at]);
   (2) indices  - every local / upvalue index operand is < 255, RegisterUpvalue carries (index < 255,
                  is_local <= 1), CloseUpvalue's operand is < 255, the hidden locals of ForEach are < 255;
   (3) globals  - as long as the number of globals stays <= n (n < 2^32, Handle::from_u32 injective
                  on 0..n-1): ids are exactly 0..len-1 without repetition, ids and names are mutually
                  inverse, next_var = len, every Read/SetGlobalVar operand is < len.
   The number of globals is bounded through the code size (each new id is followed by a 5-byte
   instruction: 5 * len <= bytes), so a bytecode below 2^31 bytes has fewer than 2^32 globals, and
   Handle::from_u32 is injective below 2^32 - 1 (HandleInj): n can be taken as 2^32 - 1.
   Consequence (compile_wellformed): wellformed_gen false (finish s). *)
From Coq Require Import List NArith ZArith Bool Lia Permutation.
From Cao Require Import ListUtil CheckUtil Bits CardAst Bytecode Compiler CompilerGen StdlibGen Wellformed
     WellformedSide CompilerProofs CompilerWf CompilerOk CompilerData HandleInj.
Import ListNotations.
Local Open Scope N_scope.

(* ------------------------------------------------------------------ association lists *)
Lemma nm_find_In {V} k (m : list (N * V)) v : nm_find k m = Some v -> In (k, v) m.
Proof.
  induction m as [|[k' v'] r IH]; cbn [nm_find]; intros H; [discriminate|].
  destruct (N.eqb_spec k k') as [->|Hne]; [injection H as ->; left; reflexivity | right; auto].
Qed.
Lemma nm_find_None {V} k (m : list (N * V)) : nm_find k m = None -> ~ In k (map fst m).
Proof.
  induction m as [|[k' v'] r IH]; cbn [nm_find map fst]; intros H; [intros []|].
  destruct (N.eqb_spec k k') as [->|Hne]; [discriminate|].
  intros [E|Hin]; [congruence | apply (IH H Hin)].
Qed.
Lemma nm_insert_perm {V} k (v : V) m : nm_find k m = None -> Permutation (nm_insert k v m) ((k, v) :: m).
Proof.
  induction m as [|[k' v'] r IH]; cbn [nm_find nm_insert]; intros H; [reflexivity|].
  destruct (N.eqb_spec k k') as [->|Hne]; [discriminate|].
  destruct (k <? k'); [reflexivity|].
  rewrite (IH H). apply perm_swap.
Qed.
Lemma nm_find_insert_same {V} k (v : V) m : nm_find k (nm_insert k v m) = Some v.
Proof.
  induction m as [|[k' v'] r IH]; cbn [nm_insert nm_find]; [rewrite N.eqb_refl; reflexivity|].
  destruct (N.ltb_spec k k') as [Hlt|Hge].
  - cbn [nm_find]. rewrite N.eqb_refl. reflexivity.
  - destruct (N.eqb_spec k k') as [->|Hne]; cbn [nm_find].
    + rewrite N.eqb_refl. reflexivity.
    + destruct (N.eqb_spec k k'); [contradiction | exact IH].
Qed.
Lemma nm_find_insert_other {V} k k0 (v : V) m : k0 <> k -> nm_find k0 (nm_insert k v m) = nm_find k0 m.
Proof.
  intros Hne. induction m as [|[k' v'] r IH]; cbn [nm_insert nm_find].
  - destruct (N.eqb_spec k0 k); [contradiction | reflexivity].
  - destruct (N.ltb_spec k k') as [Hlt|Hge].
    + cbn [nm_find]. destruct (N.eqb_spec k0 k); [contradiction | reflexivity].
    + destruct (N.eqb_spec k k') as [->|Hne']; cbn [nm_find].
      * destruct (N.eqb_spec k0 k'); [contradiction | reflexivity].
      * destruct (k0 =? k'); [reflexivity | exact IH].
Qed.

(* ------------------------------------------------------------------ per-instruction conditions *)
Definition str_ok (d : list N) (i : instr) : Prop :=
  forall off, str_operand i = Some off -> entry_at d off.
Definition lidx_ok (i : instr) : Prop :=
  match i with
  | ISetLocalVar x | IReadLocalVar x | ISetUpvalue x | IReadUpvalue x | ICloseUpvalue x => x < 255
  | IBeginForEach a b c d e | IForEach a b c d e => a < 255 /\ b < 255 /\ c < 255 /\ d < 255 /\ e < 255
  | IRegisterUpvalue x l => x < 255 /\ l <= 1
  | _ => True
  end.
Definition gidx_ok (nv : N) (i : instr) : Prop :=
  match i with ISetGlobalVar id | IReadGlobalVar id => id < nv | _ => True end.

(* instructions without string or global operand, with local / upvalue operands below 255 *)
Definition plain (i : instr) : Prop := str_operand i = None /\ lidx_ok i /\ forall nv, gidx_ok nv i.

Lemma str_ok_none d i : str_operand i = None -> str_ok d i.
Proof. intros H off E. congruence. Qed.
Lemma str_ok_app d x i : str_ok d i -> str_ok (d ++ x) i.
Proof. intros H off E. apply entry_at_app. auto. Qed.
Lemma gidx_ok_mono a b i : a <= b -> gidx_ok a i -> gidx_ok b i.
Proof. intros Hab. destruct i; cbn; auto; lia. Qed.

Lemma index_ok_of nv i : lidx_ok i -> gidx_ok nv i -> index_ok nv i = true.
Proof.
  destruct i; cbn [lidx_ok gidx_ok index_ok]; unfold max_locals; intros Hl Hg; auto;
    repeat match goal with H : _ /\ _ |- _ => destruct H end;
    repeat (apply andb_true_iff; split); try (apply N.ltb_lt; assumption); try (apply N.leb_le; assumption).
Qed.

Definition nvars (s : cstate) : N := N.of_nat (length (cs_ids s)).
Definition ups255 (us : list upvalue) : Prop := Forall (fun u => u_index u < 255) us.

Record vars_good (s : cstate) : Prop := {
  vg_nv : cs_next_var s = nvars s;
  vg_len : length (cs_names s) = length (cs_ids s);
  vg_nd_ids : NoDup (map fst (cs_ids s));
  vg_nd_vals : NoDup (map snd (cs_ids s));
  vg_nd_names : NoDup (map fst (cs_names s));
  vg_ids : forall h id, In (h, id) (cs_ids s) ->
                        id < nvars s /\
                        exists name, nm_find (handle_from_u32 id) (cs_names s) = Some name /\
                                     handle_of_bytes name = h;
  vg_names : forall k name, In (k, name) (cs_names s) ->
                            exists id, nm_find (handle_of_bytes name) (cs_ids s) = Some id /\
                                       handle_from_u32 id = k;
  vg_code : Forall (gidx_ok (nvars s)) (cs_code s)
}.

Section Full.
  Variable n : N.
  Hypothesis n_small : n < two32.
  Hypothesis n_free : forall i j, i < n -> j < n -> handle_from_u32 i = handle_from_u32 j -> i = j.

  Record Inv3 (s : cstate) : Prop := {
    i3_dlen : cs_dlen s = N.of_nat (length (cs_data s));
    i3_str : Forall (str_ok (rev (cs_data s))) (cs_code s);
    i3_lidx : Forall lidx_ok (cs_code s);
    i3_ups : Forall ups255 (cs_upvalues s);
    i3_vars : nvars s <= n -> vars_good s;
    i3_cnt : 5 * nvars s <= bytes (cs_code s)
  }.

  Definition spX {A} (m : M A) (Q : A -> Prop) : Prop :=
    forall s, Inv2 s -> Inv3 s ->
              match m s with ROk a s' => Inv2 s' /\ Inv3 s' /\ Q a | _ => True end.
  (* preservation of Inv3 alone (Inv2 of the pre-state available) *)
  Definition pr3 {A} (m : M A) : Prop :=
    forall s, Inv2 s -> Inv3 s -> match m s with ROk a s' => Inv3 s' | _ => True end.

  Lemma spX_of {A} (m : M A) Q : sp2 m Q -> pr3 m -> spX m Q.
  Proof.
    intros H2 H3 s HI2 HI3. specialize (H2 s HI2). specialize (H3 s HI2 HI3).
    destruct (m s); auto. destruct H2. auto.
  Qed.
  Lemma spX_ret {A} (a : A) (Q : A -> Prop) : Q a -> spX (ret a) Q.
  Proof. intros H s H2 H3. cbn. auto. Qed.
  Lemma spX_ret_T {A} (a : A) : spX (ret a) (fun _ => True).
  Proof. apply spX_ret. exact I. Qed.
  Lemma spX_bind {A B} (m : M A) (f : A -> M B) Q R :
    spX m Q -> (forall a, Q a -> spX (f a) R) -> spX (bind m f) R.
  Proof.
    intros Hm Hf s H2 H3. unfold bind. specialize (Hm s H2 H3). destruct (m s) as [a s1| | |]; auto.
    destruct Hm as (H2' & H3' & Hq). apply (Hf a Hq s1 H2' H3').
  Qed.
  Lemma spX_weaken {A} (m : M A) (Q R : A -> Prop) : (forall a, Q a -> R a) -> spX m Q -> spX m R.
  Proof.
    intros H Hm s H2 H3. specialize (Hm s H2 H3). destruct (m s); auto. destruct Hm as (? & ? & ?); auto.
  Qed.
  Lemma spX_unit (m : M unit) (Q : unit -> Prop) : spX m Q -> spX m (fun _ => True).
  Proof. apply spX_weaken. auto. Qed.
  Lemma spX_error {A} e (Q : A -> Prop) : spX (@error A e) Q.
  Proof. intros s _ _. exact I. Qed.
  Lemma spX_get : spX get (fun s => Inv2 s /\ Inv3 s).
  Proof. intros s H2 H3. cbn. auto. Qed.

  (* ---- operations that leave code, data, variables and upvalues alone ---- *)
  Definition same3 (s s' : cstate) : Prop :=
    cs_code s' = cs_code s /\ cs_data s' = cs_data s /\ cs_dlen s' = cs_dlen s /\
    cs_ids s' = cs_ids s /\ cs_names s' = cs_names s /\ cs_next_var s' = cs_next_var s /\
    cs_upvalues s' = cs_upvalues s.

  Lemma vars_good_same s s' :
    cs_code s' = cs_code s -> cs_ids s' = cs_ids s -> cs_names s' = cs_names s ->
    cs_next_var s' = cs_next_var s -> vars_good s -> vars_good s'.
  Proof.
    intros a b c d [H1 H2 H3 H4 H5 H6 H7 H8]. unfold nvars in *.
    constructor; unfold nvars; rewrite ?a, ?b, ?c, ?d; auto.
  Qed.

  Lemma Inv3_same s s' : same3 s s' -> Inv3 s -> Inv3 s'.
  Proof.
    intros (a & b & c & d & e & f & g) [H1 H2 H3 H4 H5 H6].
    constructor; unfold nvars in *; rewrite ?a, ?b, ?c, ?d, ?e, ?f, ?g; auto.
    intros Hn. apply (vars_good_same s s'); auto.
  Qed.
  Ltac same3_tac := unfold same3; cbn; repeat split; reflexivity.

  Definition frame3 {A} (m : M A) : Prop :=
    forall s, match m s with ROk _ s' => same3 s s' | _ => True end.
  Lemma pr3_frame {A} (m : M A) : frame3 m -> pr3 m.
  Proof. intros Hf s _ H3. specialize (Hf s). destruct (m s); auto. eapply Inv3_same; eauto. Qed.
  Lemma spX_frame {A} (m : M A) Q : sp2 m Q -> frame3 m -> spX m Q.
  Proof. intros H2 Hf. apply spX_of; [exact H2 | apply pr3_frame, Hf]. Qed.

  Lemma frame3_ret {A} (a : A) : frame3 (ret a).
  Proof. intros s. cbn. same3_tac. Qed.
  Lemma frame3_bind {A B} (m : M A) (f : A -> M B) :
    frame3 m -> (forall a, frame3 (f a)) -> frame3 (bind m f).
  Proof.
    intros Hm Hf s. unfold bind. specialize (Hm s). destruct (m s) as [a s1| | |]; auto.
    specialize (Hf a s1). destruct (f a s1) as [b s2| | |]; auto.
    destruct Hm as (a1 & a2 & a3 & a4 & a5 & a6 & a7), Hf as (b1 & b2 & b3 & b4 & b5 & b6 & b7).
    repeat split; congruence.
  Qed.
  Lemma frame3_get : frame3 get. Proof. intros s. cbn. same3_tac. Qed.
  Lemma frame3_get_pc : frame3 get_pc. Proof. intros s. cbn. same3_tac. Qed.
  Lemma frame3_get_pc_i32 : frame3 get_pc_i32. Proof. intros s. cbn. same3_tac. Qed.
  Lemma frame3_panic {A} : frame3 (@panic A). Proof. intros s. exact I. Qed.
  Lemma frame3_diverge {A} : frame3 (@diverge A). Proof. intros s. exact I. Qed.
  Lemma frame3_error {A} e : frame3 (@error A e). Proof. intros s. exact I. Qed.
  Lemma frame3_push_sub i : frame3 (push_sub i). Proof. intros s. cbn. same3_tac. Qed.
  Lemma frame3_pop_sub : frame3 pop_sub. Proof. intros s. cbn. same3_tac. Qed.
  Lemma frame3_set_index_m f i : frame3 (set_index_m f i). Proof. intros s. cbn. same3_tac. Qed.
  Lemma frame3_set_fh_m h : frame3 (set_fh_m h). Proof. intros s. cbn. same3_tac. Qed.
  Lemma frame3_scope_begin : frame3 scope_begin. Proof. intros s. cbn. same3_tac. Qed.
  Lemma frame3_validate x : frame3 (validate_var_name x).
  Proof. unfold validate_var_name. destruct (is_empty x); [apply frame3_error | apply frame3_ret]. Qed.
  Lemma frame3_add_local_unchecked x : frame3 (add_local_unchecked x).
  Proof.
    intros s. unfold add_local_unchecked.
    destruct (Nat.leb locals_cap (length (hd [] (cs_locals s)))); cbn; [exact I | same3_tac].
  Qed.
  Lemma frame3_add_local x : frame3 (add_local x).
  Proof. apply frame3_bind; [apply frame3_validate | intros; apply frame3_add_local_unchecked]. Qed.
  Lemma frame3_add_locals l : frame3 (add_locals l).
  Proof.
    induction l as [|x r IH]; cbn [add_locals]; [apply frame3_ret|].
    apply frame3_bind; [apply frame3_add_local | intros; exact IH].
  Qed.
  Lemma frame3_handle_from_bytes bs : frame3 (handle_from_bytes_m bs).
  Proof. intros s. unfold handle_from_bytes_m. same3_tac. Qed.
  Lemma frame3_index_handle : frame3 index_handle.
  Proof.
    unfold index_handle. apply frame3_bind; [apply frame3_get|]. intros s.
    apply frame3_bind; [apply frame3_handle_from_bytes | intros; apply frame3_ret].
  Qed.
  Lemma frame3_label_insert h : frame3 (label_insert_here h).
  Proof.
    intros s. unfold label_insert_here. destruct ((two32 <=? cs_pc s) || (h =? 0)); cbn; [exact I | same3_tac].
  Qed.
  Lemma frame3_label_entry h : frame3 (label_entry_here h).
  Proof.
    intros s. unfold label_entry_here. destruct (two32 <=? cs_pc s); [exact I|].
    destruct (h =? 0); [same3_tac|]. destruct (nm_find h (cs_labels s)); same3_tac.
  Qed.
  Lemma frame3_card_label : frame3 card_label.
  Proof. unfold card_label. apply frame3_bind; [apply frame3_index_handle | intros; apply frame3_label_entry]. Qed.
  Lemma frame3_resolve_function x : frame3 (resolve_function x).
  Proof.
    unfold resolve_function. apply frame3_bind; [apply frame3_get|]. intros s.
    apply frame3_bind.
    { destruct (match sm_find x (cs_jump s) with Some m => Some m | None => _ end); [apply frame3_ret|].
      destruct (sm_find x (cs_imports s)); [|apply frame3_ret].
      destruct (super_depth _) as [[cnt sx]|]; [|apply frame3_diverge].
      destruct (take_ns _ _ _); [apply frame3_ret | apply frame3_error]. }
    intros st3. apply frame3_bind.
    { destruct st3; [apply frame3_ret|].
      destruct (split_once_c c_dot x) as [[pre suf]|]; [|apply frame3_ret].
      destruct (sm_find pre (cs_imports s)); [|apply frame3_ret].
      destruct (super_depth _) as [[cnt sx]|]; [|apply frame3_diverge].
      destruct (take_ns _ _ _); [apply frame3_ret | apply frame3_error]. }
    intros st4. destruct st4; [apply frame3_ret | apply frame3_error].
  Qed.

  Ltac frame3_tac :=
    repeat first
      [ apply frame3_ret | apply frame3_get | apply frame3_get_pc | apply frame3_get_pc_i32 | apply frame3_panic
      | apply frame3_diverge | apply frame3_error | apply frame3_push_sub | apply frame3_pop_sub
      | apply frame3_set_index_m | apply frame3_set_fh_m | apply frame3_scope_begin
      | apply frame3_validate | apply frame3_add_local_unchecked
      | apply frame3_add_local | apply frame3_add_locals | apply frame3_handle_from_bytes
      | apply frame3_index_handle | apply frame3_label_insert | apply frame3_label_entry | apply frame3_card_label
      | apply frame3_resolve_function
      | match goal with |- frame3 (bind _ _) => apply frame3_bind; [|intros ?] end ].

  (* ---- emission ---- *)
  Lemma vars_good_pushed s i : (forall nv, gidx_ok nv i) -> vars_good s -> vars_good (pushed s i).
  Proof.
    intros Hg [H1 H2 H3 H4 H5 H6 H7 H8]. constructor; auto.
    unfold nvars, pushed. cbn. constructor; auto.
  Qed.

  Lemma Inv3_pushed s i : Inv3 s -> plain i -> Inv3 (pushed s i).
  Proof.
    intros [H1 H2 H3 H4 H5 H6] (Hs & Hl & Hg). constructor.
    - exact H1.
    - unfold pushed. cbn. constructor; [apply str_ok_none, Hs | exact H2].
    - unfold pushed. cbn. constructor; auto.
    - exact H4.
    - intros Hn. apply vars_good_pushed; auto.
    - unfold pushed, nvars in *. cbn [cs_code cs_ids set_code set_trace bytes]. lia.
  Qed.

  Lemma pr3_push_instr i : plain i -> pr3 (push_instr i).
  Proof. intros Hp s _ H3. rewrite push_instr_eq. apply Inv3_pushed; auto. Qed.
  Lemma spX_push_instr i : instr_ok i -> plain i -> spX (push_instr i) (fun _ => True).
  Proof. intros Hi Hp. apply spX_of; [apply sp2_push_instr, Hi | apply pr3_push_instr, Hp]. Qed.

  Lemma push_raws_Inv3 is : Forall plain is -> forall s, Inv3 s ->
    match push_raws is s with ROk _ s' => Inv3 s' | _ => True end.
  Proof.
    induction 1 as [|i r Hi _ IH]; cbn [push_raws]; intros s H3; [exact H3|].
    unfold bind. rewrite push_instr_eq. apply IH. apply Inv3_pushed; auto.
  Qed.
  Lemma pr3_push_raws is : Forall plain is -> pr3 (push_raws is).
  Proof. intros H s _ H3. apply push_raws_Inv3; auto. Qed.

  (* ---- back-patching only rewrites a jump operand ---- *)
  Lemma patch_code_Forall (P : instr -> Prop) :
    (forall i z i', set_jump_target i z = Some i' -> P i') ->
    forall code cur q z code', Forall P code -> patch_code code cur q z = Some code' -> Forall P code'.
  Proof.
    intros HP. induction code as [|i r IH]; intros cur q z code' HF E; cbn [patch_code] in E; [discriminate|].
    inversion HF as [|? ? Hi Hr]; subst.
    destruct (cur - N.of_nat (instr_span i) =? q).
    - destruct (set_jump_target i z) as [i'|] eqn:Ej; [|discriminate]. injection E as <-.
      constructor; auto. eapply HP; eauto.
    - destruct (cur - N.of_nat (instr_span i) <? q); [discriminate|].
      destruct (patch_code r _ q z) as [r'|] eqn:Er; [|discriminate]. injection E as <-.
      constructor; auto. eapply IH; eauto.
  Qed.
  Lemma set_jump_target_plain i z i' : set_jump_target i z = Some i' -> plain i'.
  Proof.
    destruct i; cbn; intros H; try discriminate; injection H as <-;
      (split; [reflexivity | split; [exact I | intros; exact I]]).
  Qed.

  Lemma patch_code_spans : forall code cur q z code',
    patch_code code cur q z = Some code' -> map instr_span code' = map instr_span code.
  Proof.
    induction code as [|i r IH]; intros cur q z code' E; cbn [patch_code] in E; [discriminate|].
    destruct (cur - N.of_nat (instr_span i) =? q).
    - destruct (set_jump_target i z) as [i'|] eqn:Ej; [|discriminate]. injection E as <-.
      cbn [map]. rewrite (set_jump_target_span _ _ _ Ej). reflexivity.
    - destruct (cur - N.of_nat (instr_span i) <? q); [discriminate|].
      destruct (patch_code r _ q z) as [r'|] eqn:Er; [|discriminate]. injection E as <-.
      cbn [map]. f_equal. eapply IH; eauto.
  Qed.

  Lemma pr3_patch q : pr3 (patch_jump_here q).
  Proof.
    intros s _ [H1 H2 H3 H4 H5 H6]. unfold patch_jump_here.
    destruct (patch_code (cs_code s) (cs_pc s) q (u32_to_i32 (cs_pc s))) as [code'|] eqn:E; [|exact I].
    constructor; cbn [cs_dlen cs_data cs_code cs_upvalues cs_ids set_code]; auto;
      [| | |unfold nvars in *; cbn [cs_ids cs_code set_code];
            pose proof (bytes_skipn_spans 0 code' (cs_code s) (patch_code_spans _ _ _ _ _ E)) as Hbs;
            cbn [skipn] in Hbs; rewrite Hbs; exact H6].
    - eapply patch_code_Forall; [|exact H2|exact E].
      intros i z i' Hj. apply str_ok_none. apply (set_jump_target_plain _ _ _ Hj).
    - eapply patch_code_Forall; [|exact H3|exact E].
      intros i z i' Hj. apply (set_jump_target_plain _ _ _ Hj).
    - intros Hn. destruct (H5 Hn) as [G1 G2 G3 G4 G5 G6 G7 G8]. constructor; auto.
      unfold nvars in *. cbn. eapply patch_code_Forall; [|exact G8|exact E].
      intros i z i' Hj. apply (set_jump_target_plain _ _ _ Hj).
  Qed.
  Lemma spX_patch q : spX (patch_jump_here q) (fun _ => True).
  Proof. apply spX_of; [apply sp2_patch | apply pr3_patch]. Qed.

  (* ---- strings ---- *)
  Definition str_mk (mk : N -> instr) : Prop := mk = IStringLiteral \/ mk = INativeFunctionPointer.

  Lemma pr3_push_string mk st : str_mk mk -> utf8_valid st = true -> pr3 (push_string mk st).
  Proof.
    intros Hmk Hu s _ [H1 H2 H3 H4 H5 H6]. unfold push_string, bind, get. rewrite push_instr_eq.
    destruct (N.leb_spec two32 (N.of_nat (length st))) as [Hge|Hlt]; [exact I|].
    assert (Hrev : rev (rev_append st (rev_append (le_bytes 4 (N.of_nat (length st))) (cs_data s)))
                   = rev (cs_data s) ++ entry st).
    { rewrite !rev_append_rev, !rev_app_distr, !rev_involutive. unfold entry. rewrite app_assoc. reflexivity. }
    constructor; cbn [cs_dlen cs_data cs_code cs_upvalues set_data pushed set_code set_trace];
      [| | | | |unfold nvars in *; cbn [cs_ids cs_code set_data pushed set_code set_trace bytes]; lia].
    - rewrite !rev_append_rev, !app_length, !rev_length, le_bytes_length, H1. lia.
    - rewrite Hrev. constructor.
      + intros off E.
        assert (off = cs_dlen s mod two32) by (destruct Hmk; subst mk; cbn in E; congruence). subst off.
        rewrite H1, <- (rev_length (cs_data s)). apply entry_at_new; auto.
      + eapply Forall_impl; [|exact H2]. intros i. apply str_ok_app.
    - constructor; auto. destruct Hmk; subst mk; exact I.
    - exact H4.
    - intros Hn. unfold nvars in Hn. cbn in Hn. specialize (H5 Hn).
      destruct H5 as [G1 G2 G3 G4 G5 G6 G7 G8]. constructor; auto.
      unfold nvars. cbn. constructor; auto. destruct Hmk; subst mk; exact I.
  Qed.
  Lemma str_mk_ok mk x : str_mk mk -> x < two32 -> instr_ok (mk x).
  Proof. intros [->| ->] H; [apply string_literal_ok | apply native_fn_ptr_ok]; exact H. Qed.
  Lemma spX_push_string mk st : str_mk mk -> utf8_valid st = true -> spX (push_string mk st) (fun _ => True).
  Proof.
    intros Hmk Hu. apply spX_of; [apply sp2_push_string; intros; apply str_mk_ok; auto | apply pr3_push_string; auto].
  Qed.

  (* ---- scopes ---- *)
  Lemma pop_locals_plain rls d : (length rls <= 255)%nat -> Forall plain (snd (pop_locals rls d)).
  Proof.
    induction rls as [|l r IH]; cbn [pop_locals length]; intros Hlen; [constructor|].
    destruct (d <? l_depth l)%Z; [|constructor].
    assert (Hr : (length r <= 255)%nat) by lia. specialize (IH Hr).
    destruct (pop_locals r d) as [r' is]. cbn [snd] in *. constructor; auto.
    destruct (l_captured l); (split; [reflexivity | split; [|intros; exact I]]); cbn; [lia | exact I].
  Qed.

  Lemma pr3_scope_end : pr3 scope_end.
  Proof.
    intros s H2 H3. unfold scope_end.
    set (ds := map_hd _ (cs_depth s)). set (rlis := pop_locals _ _). set (s1 := set_scopes _ _ _ s).
    assert (H31 : Inv3 s1) by (apply (Inv3_same s s1); [same3_tac | exact H3]).
    apply push_raws_Inv3; auto. subst rlis. apply pop_locals_plain.
    rewrite rev_length. destruct (i2_locals _ H2); cbn; lia.
  Qed.
  Lemma spX_scope_end : spX scope_end (fun _ => True).
  Proof. apply spX_of; [apply sp2_scope_end | apply pr3_scope_end]. Qed.

  Lemma pr3_compile_begin : pr3 compile_begin.
  Proof.
    intros s _ [H1 H2 H3 H4 H5 H6]. cbn. constructor; cbn; auto.
    - constructor; auto. constructor.
    - intros Hn. apply (vars_good_same s); auto.
  Qed.
  Lemma pr3_compile_end : pr3 compile_end.
  Proof.
    intros s _ [H1 H2 H3 H4 H5 H6]. cbn. constructor; cbn; auto.
    - apply Forall_tl. exact H4.
    - intros Hn. apply (vars_good_same s); auto.
  Qed.

  (* ---- upvalues ---- *)
  Lemma add_upvalue_255 ups idx loc k ups' :
    ups255 ups -> idx < 255 -> add_upvalue ups idx loc = Some (k, ups') -> ups255 ups'.
  Proof.
    intros Hf Hidx H. unfold add_upvalue in H.
    destruct (find_index _ ups 0) as [i|]; [injection H as <- <-; exact Hf|].
    destruct (Nat.leb upvalues_cap (length ups)); [discriminate|]. injection H as <- <-.
    apply Forall_app. split; auto.
  Qed.

  Lemma resolve_upvalue_255 name : forall locs ups v locs' ups',
    Forall (fun ls : list local => (length ls <= 255)%nat) locs -> Forall ups_ok ups -> Forall ups255 ups ->
    resolve_upvalue name locs ups = Some (v, locs', ups') -> Forall ups255 ups'.
  Proof.
    induction locs as [|cur below IH]; intros ups v locs' ups' Hl Hu H5 H; cbn [resolve_upvalue] in H.
    { injection H as <- <- <-. exact H5. }
    destruct below as [|parent rest]; [injection H as <- <- <-; exact H5|].
    destruct ups as [|ucur ubelow]; [injection H as <- <- <-; exact H5|].
    inversion Hl as [|? ? Hcur Hbelow]; subst. inversion Hu as [|? ? Hucur Hubelow]; subst.
    inversion H5 as [|? ? H5cur H5below]; subst.
    destruct (rfind_index _ parent 0 None) as [i|] eqn:Ef.
    - destruct (add_upvalue ucur (N.of_nat i mod 256) true) as [[k ucur']|] eqn:Ea; [|discriminate].
      injection H as <- <- <-. constructor; auto.
      apply (add_upvalue_255 _ _ _ _ _ H5cur) in Ea; auto.
      apply rfind_index_lt in Ef. destruct Ef as [Ef|Ef]; [|discriminate].
      inversion Hbelow; subst. rewrite N.mod_small; lia.
    - destruct (resolve_upvalue name (parent :: rest) ubelow) as [[[v0 below'] ubelow']|] eqn:Er; [|discriminate].
      pose proof (IH ubelow v0 below' ubelow' Hbelow Hubelow H5below Er) as Hb5.
      destruct (resolve_upvalue_ok _ _ _ _ _ _ Hbelow Hubelow Er) as (_ & _ & Hv0).
      destruct v0 as [|i|i].
      + injection H as <- <- <-. constructor; auto.
      + injection H as <- <- <-. constructor; auto.
      + destruct (add_upvalue ucur (i mod 256) false) as [[k ucur']|] eqn:Ea; [|discriminate].
        injection H as <- <- <-. constructor; auto.
        apply (add_upvalue_255 _ _ _ _ _ H5cur) in Ea; auto.
        cbn in Hv0. unfold small in Hv0. rewrite N.mod_small; lia.
  Qed.

  Lemma pr3_resolve_var x : pr3 (resolve_var x).
  Proof.
    unfold resolve_var, bind. intros s H2 H3.
    destruct (validate_var_name x s) as [[] s0| | |] eqn:Ev; auto.
    assert (s0 = s).
    { unfold validate_var_name in Ev. destruct (is_empty x); [discriminate | injection Ev; auto]. }
    subst s0.
    destruct (rfind_index _ (hd [] (cs_locals s)) 0 None); [exact H3|].
    destruct (resolve_upvalue x (cs_locals s) (cs_upvalues s)) as [[[v ls] us]|] eqn:Er; [|exact I].
    destruct H3 as [H1 H3a H3b H4 H5 H6]. constructor; cbn; auto.
    - eapply resolve_upvalue_255; [apply (i2_locals _ H2) | apply (i2_ups _ H2) | exact H4 | exact Er].
    - intros Hn. apply (vars_good_same s); auto.
  Qed.
  Lemma spX_resolve_var x : spX (resolve_var x) var_ok.
  Proof. apply spX_of; [apply sp2_resolve_var | apply pr3_resolve_var]. Qed.

  Lemma emit_upvalues_Inv3 ups : ups255 ups -> forall s, Inv3 s ->
    match emit_upvalues ups s with ROk _ s' => Inv3 s' | _ => True end.
  Proof.
    induction 1 as [|u r Hu _ IH]; cbn [emit_upvalues]; intros s H3; [exact H3|].
    unfold bind. rewrite !push_instr_eq. apply IH.
    apply Inv3_pushed.
    - apply Inv3_pushed; [exact H3|]. split; [reflexivity | split; [exact I | intros; exact I]].
    - split; [reflexivity | split; [|intros; exact I]]. cbn. split; [exact Hu|]. destruct (u_is_local u); lia.
  Qed.
  Lemma spX_emit_upvalues ups :
    Forall (fun u => u_index u < 256) ups -> ups255 ups -> spX (emit_upvalues ups) (fun _ => True).
  Proof.
    intros H6 H5. apply spX_of; [apply sp2_emit_upvalues, H6|].
    intros s _ H3. apply emit_upvalues_Inv3; auto.
  Qed.

  (* ---- global variables ---- *)
  Lemma global_id_good name s id s1 :
    global_id name s = ROk id s1 ->
    cs_code s1 = cs_code s /\ cs_data s1 = cs_data s /\ cs_dlen s1 = cs_dlen s /\ cs_upvalues s1 = cs_upvalues s /\
    nvars s <= nvars s1 <= nvars s + 1 /\
    (nvars s1 <= n -> vars_good s -> vars_good s1 /\ id < nvars s1).
  Proof.
    unfold global_id, bind, handle_from_bytes_m. set (h := handle_of_bytes name).
    destruct (nm_find h (cs_ids s)) as [id0|] eqn:Ef.
    - (* known name *)
      set (k := handle_from_u32 id0).
      assert (Hfound : vars_good s -> exists nm, nm_find k (cs_names s) = Some nm).
      { intros G. destruct (vg_ids _ G h id0 (nm_find_In _ _ _ Ef)) as (_ & nm & Hnm & _). eauto. }
      destruct (nm_find k (cs_names s)) as [nm|] eqn:En.
      + intros H. injection H as <- <-. cbn.
        split; [reflexivity|]. split; [reflexivity|]. split; [reflexivity|]. split; [reflexivity|].
        split; [unfold nvars; cbn; lia|]. intros Hn G. split.
        * apply (vars_good_same s); auto.
        * unfold nvars. cbn. apply (vg_ids _ G h id0 (nm_find_In _ _ _ Ef)).
      + destruct (ht_entry_hangs (cs_names s)); [discriminate|].
        intros H. injection H as <- <-. cbn.
        split; [reflexivity|]. split; [reflexivity|]. split; [reflexivity|]. split; [reflexivity|].
        split; [unfold nvars; cbn; lia|]. intros Hn G.
        destruct (Hfound G) as [nm Hnm]; discriminate.
    - destruct (ht_entry_hangs (cs_ids s)); [discriminate|].
      set (nv := cs_next_var s). set (k := handle_from_u32 nv).
      pose proof (nm_insert_perm h nv (cs_ids s) Ef) as Pids.
      assert (Hlen : length (nm_insert h nv (cs_ids s)) = S (length (cs_ids s))).
      { rewrite (Permutation_length Pids). reflexivity. }
      (* the good case: the name table has no entry for from_u32 nv *)
      assert (Hfresh : nvars s + 1 <= n -> vars_good s -> nm_find k (cs_names s) = None).
      { intros Hn G. destruct (nm_find k (cs_names s)) as [nm|] eqn:En; [|reflexivity]. exfalso.
        destruct (vg_names _ G k nm (nm_find_In _ _ _ En)) as (id' & Hid' & Hk).
        destruct (vg_ids _ G _ id' (nm_find_In _ _ _ Hid')) as (Hlt & _).
        pose proof (vg_nv _ G) as Hnv. fold nv in Hnv.
        assert (id' = nv) by (apply n_free; [lia | lia | exact Hk]). lia. }
      destruct (nm_find k (cs_names s)) as [nm|] eqn:En.
      + intros H. injection H as <- <-. cbn. unfold nvars. cbn. rewrite Hlen.
        split; [reflexivity|]. split; [reflexivity|]. split; [reflexivity|]. split; [reflexivity|].
        split; [lia|]. intros Hn G.
        assert (Hc : Some nm = None) by (apply Hfresh; [unfold nvars; lia | assumption]).
        discriminate.
      + destruct (ht_entry_hangs (cs_names s)); [discriminate|].
        intros H. injection H as <- <-. cbn. unfold nvars. cbn. rewrite Hlen.
        split; [reflexivity|]. split; [reflexivity|]. split; [reflexivity|]. split; [reflexivity|].
        split; [lia|]. intros Hn G.
        pose proof (vg_nv _ G) as Hnv. fold nv in Hnv. unfold nvars in Hnv.
        pose proof (nm_insert_perm k name (cs_names s) En) as Pnames.
        split; [|lia].
        destruct G as [G1 G2 G3 G4 G5 G6 G7 G8]. unfold nvars in *.
        constructor; unfold nvars; cbn [cs_next_var cs_ids cs_names cs_code set_vars]; rewrite ?Hlen.
        * rewrite N.mod_small; lia.
        * rewrite (Permutation_length Pnames). cbn. lia.
        * eapply Permutation_NoDup; [apply Permutation_map, Permutation_sym, Pids|].
          cbn [map fst]. constructor; [apply nm_find_None, Ef | exact G3].
        * eapply Permutation_NoDup; [apply Permutation_map, Permutation_sym, Pids|].
          cbn [map snd]. constructor; [|exact G4].
          intros Hin. apply in_map_iff in Hin. destruct Hin as [[h' id'] [E Hin]]. cbn in E. subst id'.
          destruct (G6 h' nv Hin) as [Hlt _]. lia.
        * eapply Permutation_NoDup; [apply Permutation_map, Permutation_sym, Pnames|].
          cbn [map fst]. constructor; [apply nm_find_None, En | exact G5].
        * intros h' id' Hin. apply (Permutation_in _ Pids) in Hin. destruct Hin as [E|Hin].
          -- injection E as <- <-. split; [lia|]. exists name. split; [apply nm_find_insert_same | reflexivity].
          -- destruct (G6 h' id' Hin) as (Hlt & nm' & Hnm' & Hh'). split; [lia|].
             exists nm'. split; [|exact Hh'].
             rewrite nm_find_insert_other; [exact Hnm'|]. intros E. rewrite E in Hnm'. congruence.
        * intros k' nm' Hin. apply (Permutation_in _ Pnames) in Hin. destruct Hin as [E|Hin].
          -- injection E as <- <-. exists nv. split; [apply nm_find_insert_same | reflexivity].
          -- destruct (G7 k' nm' Hin) as (id' & Hid' & Hk'). exists id'. split; [|exact Hk'].
             rewrite nm_find_insert_other; [exact Hid'|]. intros E. fold h in Ef. rewrite E in Hid'. congruence.
        * eapply Forall_impl; [|exact G8]. intros i. apply gidx_ok_mono. lia.
  Qed.

  Definition glob_mk (mk : N -> instr) : Prop := mk = IReadGlobalVar \/ mk = ISetGlobalVar.

  Lemma pr3_global mk name : glob_mk mk -> pr3 (bind (global_id name) (fun id => push_instr (mk id))).
  Proof.
    intros Hmk s _ [H1 H2 H3 H4 H5 H6]. unfold bind.
    destruct (global_id name s) as [id s1| | |] eqn:E; auto.
    destruct (global_id_good _ _ _ _ E) as (Ec & Ed & El & Eu & Hmono & Hgood).
    rewrite push_instr_eq.
    assert (Hnone : str_operand (mk id) = None) by (destruct Hmk; subst mk; reflexivity).
    assert (Hlid : lidx_ok (mk id)) by (destruct Hmk; subst mk; exact I).
    constructor; unfold pushed; cbn [cs_dlen cs_data cs_code cs_upvalues set_code set_trace].
    - rewrite El, Ed. exact H1.
    - rewrite Ec, Ed. constructor; [apply str_ok_none, Hnone | exact H2].
    - rewrite Ec. constructor; auto.
    - rewrite Eu. exact H4.
    - unfold nvars. cbn. intros Hn. fold (nvars s1) in Hn.
      destruct (Hgood Hn (H5 ltac:(lia))) as [G Hid].
      destruct G as [G1 G2 G3 G4 G5 G6 G7 G8]. constructor; auto.
      unfold nvars in *. cbn. constructor; auto. destruct Hmk; subst mk; exact Hid.
    - unfold nvars in *. cbn [cs_ids set_code set_trace bytes]. rewrite Ec.
      assert (Hsp : spanN (mk id) = 5) by (destruct Hmk; subst mk; reflexivity). lia.
  Qed.
  Lemma glob_mk_ok mk id : glob_mk mk -> id < two32 -> instr_ok (mk id).
  Proof. intros [->| ->] H; ok_args. Qed.
  Lemma spX_global mk name : glob_mk mk -> spX (bind (global_id name) (fun id => push_instr (mk id))) (fun _ => True).
  Proof.
    intros Hmk. apply spX_of; [|apply pr3_global, Hmk].
    eapply sp2_bind; [apply sp2_global_id | intros id Hid; apply sp2_push_instr, glob_mk_ok; auto].
  Qed.

  (* ------------------------------------------------------------------ composite constructs *)
  Ltac plain_tac :=
    unfold plain; cbn [simple_binop unop_instr];
    split; [reflexivity | split; [cbn [lidx_ok]; unfold small in *; first [exact I | assumption | lia | repeat split; assumption]
                                 | intros; exact I]].

  Lemma spX_with_sub i m : spX m (fun _ => True) -> spX (with_sub i m) (fun _ => True).
  Proof.
    intros H. unfold with_sub.
    eapply spX_bind; [apply spX_frame; [apply sp2_frame, frame2_push_sub | apply frame3_push_sub] | intros _ _].
    eapply spX_bind; [exact H | intros _ _].
    apply spX_frame; [apply sp2_frame, frame2_pop_sub | apply frame3_pop_sub].
  Qed.

  Lemma spX_card_label : spX card_label (fun _ => True).
  Proof. apply spX_frame; [apply sp2_card_label | apply frame3_card_label]. Qed.
  Lemma spX_add_local_unchecked x : spX (add_local_unchecked x) small.
  Proof. apply spX_frame; [apply sp2_add_local_unchecked | apply frame3_add_local_unchecked]. Qed.
  Lemma spX_add_local x : spX (add_local x) small.
  Proof. apply spX_frame; [apply sp2_add_local | apply frame3_add_local]. Qed.
  Lemma spX_add_locals l : spX (add_locals l) (fun _ => True).
  Proof. apply spX_frame; [apply sp2_add_locals | apply frame3_add_locals]. Qed.
  Lemma spX_get_pc_i32 : spX get_pc_i32 (fun z => (- 2147483648 <= z < 2147483648)%Z).
  Proof. apply spX_frame; [apply sp2_get_pc_i32 | apply frame3_get_pc_i32]. Qed.
  Lemma spX_get_pc : spX get_pc (fun _ => True).
  Proof. apply spX_frame; [apply sp2_frame, frame2_get_pc | apply frame3_get_pc]. Qed.
  Lemma spX_resolve_function x : spX (resolve_function x) meta_ok.
  Proof. apply spX_frame; [apply sp2_resolve_function | apply frame3_resolve_function]. Qed.
  Lemma spX_handle_from_bytes bs : spX (handle_from_bytes_m bs) fits32.
  Proof. apply spX_frame; [apply sp2_handle_from_bytes | apply frame3_handle_from_bytes]. Qed.
  Lemma spX_index_handle : spX index_handle fits32.
  Proof. apply spX_frame; [apply sp2_index_handle | apply frame3_index_handle]. Qed.
  Lemma spX_label_insert h : spX (label_insert_here h) (fun _ => True).
  Proof. apply spX_frame; [apply sp2_frame, frame2_label_insert | apply frame3_label_insert]. Qed.
  Lemma spX_scope_begin : spX scope_begin (fun _ => True).
  Proof. apply spX_frame; [apply sp2_frame, frame2_scope_begin | apply frame3_scope_begin]. Qed.
  Lemma spX_push_sub i : spX (push_sub i) (fun _ => True).
  Proof. apply spX_frame; [apply sp2_frame, frame2_push_sub | apply frame3_push_sub]. Qed.
  Lemma spX_pop_sub : spX pop_sub (fun _ => True).
  Proof. apply spX_frame; [apply sp2_frame, frame2_pop_sub | apply frame3_pop_sub]. Qed.
  Lemma spX_set_index_m f i : spX (set_index_m f i) (fun _ => True).
  Proof. apply spX_frame; [apply sp2_frame, frame2_set_index_m | apply frame3_set_index_m]. Qed.
  Lemma spX_compile_begin : spX compile_begin (fun _ => True).
  Proof. apply spX_of; [apply sp2_compile_begin | apply pr3_compile_begin]. Qed.
  Lemma spX_compile_end : spX compile_end (fun _ => True).
  Proof. apply spX_of; [apply sp2_compile_end | apply pr3_compile_end]. Qed.

  Lemma spX_encode_if_then skip body :
    skip = IGotoIfFalse \/ skip = IGotoIfTrue ->
    spX body (fun _ => True) -> spX (encode_if_then skip body) (fun _ => True).
  Proof.
    intros Hs Hb. unfold encode_if_then.
    eapply spX_bind; [apply spX_get_pc | intros q _].
    eapply spX_bind; [apply spX_push_instr; destruct Hs; subst; [cbn; lia | cbn; lia | plain_tac | plain_tac] | intros _ _].
    eapply spX_bind; [exact Hb | intros _ _]. apply spX_patch.
  Qed.

  Lemma spX_read_props props :
    Forall (fun p => utf8_valid p = true) props -> spX (read_props props) (fun _ => True).
  Proof.
    induction 1 as [|x r Hx _ IH]; cbn [read_props]; [apply spX_ret_T|].
    eapply spX_bind; [|intros _ _; exact IH].
    destruct (is_empty x); [apply spX_ret_T|].
    eapply spX_bind; [apply spX_push_string; [left; reflexivity | exact Hx] | intros _ _].
    apply spX_push_instr; [ok_args | plain_tac].
  Qed.

  Lemma spX_read_var_core v0 props :
    Forall (fun p => utf8_valid p = true) (split_c c_dot props) ->
    spX (do scope <- resolve_var v0 ;;
         match scope with
         | VLocal i => read_local i
         | VUpvalue i => read_upvalue i
         | VGlobal => do id <- global_id v0 ;; push_instr (IReadGlobalVar id)
         end ;;
         read_props (split_c c_dot props)) (fun _ => True).
  Proof.
    intros Hprops.
    eapply spX_bind; [apply spX_resolve_var | intros scope Hv].
    eapply spX_bind; [|intros _ _; apply spX_read_props, Hprops].
    destruct scope; cbn in Hv.
    - apply spX_global. left. reflexivity.
    - apply spX_push_instr; [ok_args | plain_tac].
    - apply spX_push_instr; [ok_args | plain_tac].
  Qed.

  Lemma spX_read_var_card v : utf8_valid v = true -> spX (read_var_card v) (fun _ => True).
  Proof.
    intros Hu. unfold read_var_card.
    destruct (split_once_c c_dot v) as [[v0 p0]|] eqn:E.
    - apply spX_read_var_core. apply utf8_split_c. apply (utf8_split_once v v0 p0 Hu E).
    - apply spX_read_var_core. apply utf8_split_c. reflexivity.
  Qed.

  Lemma spX_bind_loop_var o src : small src -> spX (bind_loop_var o src) (fun _ => True).
  Proof.
    intros Hs. destruct o; cbn [bind_loop_var]; [|apply spX_ret_T].
    eapply spX_bind; [apply spX_add_local | intros x Hx].
    eapply spX_bind; [apply spX_push_instr; [ok_args | plain_tac] | intros _ _].
    apply spX_push_instr; [ok_args | plain_tac].
  Qed.

  Lemma spX_process_leaf i : instr_ok i -> plain i -> spX (process_leaf i) (fun _ => True).
  Proof.
    intros H Hp. unfold process_leaf.
    eapply spX_bind; [apply spX_card_label | intros _ _; apply spX_push_instr; auto].
  Qed.

  (* ------------------------------------------------------------------ induction over cards *)
  Definition card_ok3 (c : card) : Prop :=
    card_rng c = true -> card_utf8 c = true -> spX (process_card c) (fun _ => True).

  Lemma Forall_ok3 l : Forall card_ok3 l -> forallb card_rng l = true -> forallb card_utf8 l = true ->
                       Forall (fun c => spX (process_card c) (fun _ => True)) l.
  Proof.
    induction 1 as [|x r Hx _ IH]; cbn [forallb]; intros H H'; [constructor|].
    apply andb_true_iff in H. destruct H as [H1 H2].
    apply andb_true_iff in H'. destruct H' as [H1' H2']. constructor; auto.
  Qed.

  Lemma spX_subexpr l : Forall (fun c => spX (process_card c) (fun _ => True)) l -> forall i,
    spX ((fix subexpr (l : list card) (i : N) {struct l} : M unit :=
            match l with
            | [] => ret tt
            | x :: r => with_sub i (process_card x) ;; subexpr r (i + 1)
            end) l i) (fun _ => True).
  Proof.
    induction 1 as [|x r Hx _ IH]; intros i; [apply spX_ret_T|].
    eapply spX_bind; [apply spX_with_sub, Hx | intros _ _; apply IH].
  Qed.

  Lemma spX_array_items tv l : small tv ->
    Forall (fun c => spX (process_card c) (fun _ => True)) l -> forall i,
    spX ((fix items (l : list card) (i : N) {struct l} : M unit :=
           match l with
           | [] => ret tt
           | x :: r =>
               push_instr IScalarNil ;;
               with_sub i (process_card x) ;;
               read_local tv ;;
               push_instr IAppendTable ;;
               items r (i + 1)
           end) l i) (fun _ => True).
  Proof.
    intros Htv. induction 1 as [|x r Hx _ IH]; intros i; [apply spX_ret_T|].
    eapply spX_bind; [apply spX_push_instr; [ok_args | plain_tac] | intros _ _].
    eapply spX_bind; [apply spX_with_sub, Hx | intros _ _].
    eapply spX_bind; [apply spX_push_instr; [ok_args | plain_tac] | intros _ _].
    eapply spX_bind; [apply spX_push_instr; [ok_args | plain_tac] | intros _ _; apply IH].
  Qed.

  Ltac step3 :=
    first
      [ apply spX_ret_T
      | apply spX_card_label
      | apply spX_scope_end
      | apply spX_scope_begin
      | apply spX_push_sub
      | apply spX_pop_sub
      | apply spX_get_pc
      | apply spX_bind_loop_var; assumption
      | apply spX_patch
      | apply spX_compile_begin
      | apply spX_compile_end
      | apply spX_error
      | apply spX_push_instr; [iok | plain_tac]
      | apply spX_process_leaf; [iok | plain_tac]
      | match goal with H : spX (process_card ?c) _ |- spX (process_card ?c) _ => exact H end
      | apply spX_with_sub
      | apply spX_subexpr; assumption
      | apply spX_array_items; assumption
      | apply spX_encode_if_then; [first [left; reflexivity | right; reflexivity]|]
      | apply spX_unit with (Q := small); apply spX_add_local
      | eapply spX_bind; [apply spX_add_local_unchecked | intros ? ?]
      | eapply spX_bind; [apply spX_add_local | intros ? ?]
      | eapply spX_bind; [apply spX_get_pc_i32 | intros ? ?]
      | eapply spX_bind; [apply spX_resolve_function | intros ? [? ?]]
      | eapply spX_bind; [apply spX_handle_from_bytes | intros ? ?]
      | eapply spX_bind; [apply spX_add_locals | intros ? ?]
      | match goal with |- spX (bind _ _) _ => eapply spX_bind; [|intros ? ?] end ].

  Ltac prep3 :=
    match goal with H : card_rng _ = true |- _ => cbn [card_rng] in H end;
    match goal with H : card_utf8 _ = true |- _ => cbn [card_utf8] in H end;
    repeat match goal with H : _ && _ = true |- _ => apply andb_true_iff in H; destruct H end;
    repeat match goal with
           | IH : card_ok3 ?c, H : card_rng ?c = true, H' : card_utf8 ?c = true |- _ => specialize (IH H H')
           | IH : Forall _ ?l, H : forallb card_rng ?l = true, H' : forallb card_utf8 ?l = true |- _ =>
               pose proof (Forall_ok3 l IH H H'); clear IH
           end.

  Lemma process_card_ok3 c : card_ok3 c.
  Proof.
    induction c using card_ind'; intros Hr Hu; cbn [process_card].
    - (* CBin *) prep3. destruct op; repeat step3.
    - prep3. destruct op; repeat step3.
    - prep3. destruct op; repeat step3.
    - repeat step3.
    - repeat step3.
    - repeat step3.
    - (* CScalarInt *)
      cbn [card_rng] in Hr. apply andb_true_iff in Hr. destruct Hr as [H1 H2].
      apply Z.leb_le in H1. apply Z.ltb_lt in H2. repeat step3.
    - (* CScalarFloat *)
      cbn [card_rng] in Hr. apply N.ltb_lt in Hr.
      eapply spX_bind; [step3 | intros _ _]. apply spX_push_instr; [|plain_tac].
      cbn [instr_ok instr_op instr_args op_widths]. repeat constructor. exact Hr.
    - (* CStringLiteral *)
      eapply spX_bind; [step3 | intros _ _]. apply spX_push_string; [left; reflexivity | exact Hu].
    - repeat step3.
    - (* CFunction *) repeat step3.
    - (* CNativeFunction *)
      eapply spX_bind; [step3 | intros _ _]. apply spX_push_string; [right; reflexivity | exact Hu].
    - (* CReadVar *)
      eapply spX_bind; [step3 | intros _ _]. apply spX_read_var_card. exact Hu.
    - (* CCallNative *) prep3. repeat step3.
    - (* CCall *) prep3. repeat step3.
    - (* CDynamicCall *) prep3. repeat step3.
    - (* CSetGlobalVar *)
      prep3. eapply spX_bind; [step3 | intros _ _]. eapply spX_bind; [repeat step3 | intros _ _].
      destruct (is_empty n0); [apply spX_error|]. apply spX_global. right. reflexivity.
    - (* CSetVar *)
      prep3. eapply spX_bind; [step3 | intros _ _]. eapply spX_bind; [repeat step3 | intros _ _].
      destruct (rsplit_once_c c_dot n0) as [[rp sp]|] eqn:Esp.
      + match goal with Hn : utf8_valid n0 = true |- _ =>
          destruct (utf8_rsplit_once n0 rp sp Hn Esp) as [Hrp Hsp] end.
        eapply spX_bind; [apply spX_read_var_card, Hrp | intros _ _].
        eapply spX_bind; [apply spX_push_string; [left; reflexivity | exact Hsp] | intros _ _].
        repeat step3.
      + eapply spX_bind; [apply spX_resolve_var | intros var Hv]. destruct var; cbn in Hv; repeat step3.
    - (* CRepeat *) prep3. repeat step3.
    - (* CForEach *) prep3. repeat step3.
    - (* CComposite *) prep3. repeat step3.
    - (* CArray *) prep3. repeat step3.
    - (* CClosure *)
      prep3. eapply spX_bind; [step3 | intros _ _].
      eapply spX_bind; [step3 | intros q _].
      eapply spX_bind; [step3 | intros _ _].
      eapply spX_bind; [step3 | intros _ _].
      eapply spX_bind; [apply spX_index_handle | intros h Hh].
      eapply spX_bind; [apply spX_label_insert | intros _ _].
      eapply spX_bind; [step3 | intros _ _].
      eapply spX_bind; [apply spX_add_locals | intros _ _].
      eapply spX_bind; [step3 | intros _ _].
      eapply spX_bind; [step3 | intros _ _].
      eapply spX_bind; [step3 | intros _ _].
      eapply spX_bind; [step3 | intros _ _].
      eapply spX_bind; [step3 | intros _ _].
      eapply spX_bind.
      { apply spX_push_instr; [|plain_tac]. cbn [instr_ok instr_op instr_args op_widths].
        constructor; [apply fits4, handle_add_lt; [exact Hh | apply handle_from_u64_lt]|].
        constructor; [apply fits4, N.mod_lt; discriminate | constructor]. }
      intros _ _. eapply spX_bind; [apply spX_get | intros s [HI2 HI3]].
      eapply spX_bind; [|intros _ _; step3].
      apply spX_emit_upvalues.
      + destruct (i2_ups _ HI2) as [|us rest [_ Hus] _]; cbn; [constructor | exact Hus].
      + destruct (i3_ups _ HI3) as [|us rest Hus _]; cbn; [constructor | exact Hus].
  Qed.

  (* ------------------------------------------------------------------ functions and stages *)
  Lemma spX_process_cards cards : forallb card_rng cards = true -> forallb card_utf8 cards = true ->
    forall ic, spX (process_cards cards ic) (fun _ => True).
  Proof.
    induction cards as [|c r IH]; intros Hr Hu ic; cbn [process_cards]; [apply spX_ret_T|].
    cbn [forallb] in Hr, Hu. apply andb_true_iff in Hr. destruct Hr as [Hc Hr].
    apply andb_true_iff in Hu. destruct Hu as [Hcu Hu].
    eapply spX_bind; [apply spX_pop_sub | intros _ _].
    eapply spX_bind; [apply spX_push_sub | intros _ _].
    eapply spX_bind; [apply process_card_ok3; auto | intros _ _; apply IH; auto].
  Qed.

  Lemma spX_set_fctx ns imps : spX (fun s => ROk tt (set_fctx ns imps s)) (fun _ => True).
  Proof.
    apply spX_frame; [apply sp2_frame; intros s; cbn; same2_tac | intros s; cbn; same3_tac].
  Qed.

  Lemma spX_process_function f : fir_rng f = true -> fir_utf8 f = true -> spX (process_function f) (fun _ => True).
  Proof.
    intros Hf Hu. apply andb_true_iff in Hf. destruct Hf as [_ Hc]. unfold process_function.
    eapply spX_bind; [apply spX_set_fctx | intros _ _].
    eapply spX_bind; [apply spX_add_locals | intros _ _]. apply spX_process_cards; auto.
  Qed.

  Lemma spX_set_fh_m f : fir_rng f = true -> spX (set_fh_m (fi_handle f)) (fun _ => True).
  Proof. intros Hf. apply spX_frame; [apply sp2_set_fh_m, Hf | apply frame3_set_fh_m]. Qed.

  Lemma spX_compile_main f : fir_rng f = true -> fir_utf8 f = true -> spX (compile_main f) (fun _ => True).
  Proof.
    intros Hf Hu. unfold compile_main.
    eapply spX_bind; [apply spX_set_index_m | intros _ _].
    eapply spX_bind; [apply spX_set_fh_m, Hf | intros _ _].
    eapply spX_bind; [apply spX_scope_begin | intros _ _].
    eapply spX_bind; [apply spX_process_function; auto | intros _ _].
    eapply spX_bind; [apply spX_set_index_m | intros _ _].
    eapply spX_bind; [apply spX_scope_end | intros _ _].
    apply spX_process_leaf; [ok_args | plain_tac].
  Qed.

  Lemma spX_compile_other f : fir_rng f = true -> fir_utf8 f = true -> spX (compile_other f) (fun _ => True).
  Proof.
    intros Hf Hu. unfold compile_other.
    eapply spX_bind; [apply spX_set_index_m | intros _ _].
    eapply spX_bind; [apply spX_set_fh_m, Hf | intros _ _].
    eapply spX_bind; [apply spX_label_insert | intros _ _].
    eapply spX_bind; [apply spX_scope_begin | intros _ _].
    eapply spX_bind; [apply spX_process_function; auto | intros _ _].
    eapply spX_bind; [apply spX_scope_end | intros _ _].
    eapply spX_bind; [apply spX_push_instr; [ok_args | plain_tac] | intros _ _].
    apply spX_push_instr; [ok_args | plain_tac].
  Qed.

  Lemma spX_compile_others fs : forallb fir_rng fs = true -> forallb fir_utf8 fs = true ->
    spX (compile_others fs) (fun _ => True).
  Proof.
    induction fs as [|f r IH]; intros H Hu; cbn [compile_others]; [apply spX_ret_T|].
    cbn [forallb] in H, Hu. apply andb_true_iff in H. destruct H as [Hf Hr].
    apply andb_true_iff in Hu. destruct Hu as [Hfu Hu].
    eapply spX_bind; [apply spX_compile_other; auto | intros _ _; apply IH; auto].
  Qed.

  Lemma frame3_add_function f : frame3 (add_function f).
  Proof.
    intros s. unfold add_function, bind, get. destruct (sm_find (fi_full_name f) (cs_jump s)); cbn; [exact I|].
    same3_tac.
  Qed.
  Lemma spX_stage_1 fs : forallb fir_rng fs = true -> spX (stage_1 fs) (fun _ => True).
  Proof.
    induction fs as [|f r IH]; intros H; cbn [stage_1]; [apply spX_ret_T|].
    cbn [forallb] in H. apply andb_true_iff in H. destruct H as [Hf Hr].
    eapply spX_bind; [apply spX_frame; [apply sp2_add_function, Hf | apply frame3_add_function] | intros _ _; apply IH, Hr].
  Qed.
  Lemma spX_stage_2 fs : forallb fir_rng fs = true -> forallb fir_utf8 fs = true -> spX (stage_2 fs) (fun _ => True).
  Proof.
    destruct fs as [|f r]; intros H Hu; cbn [stage_2]; [apply spX_ret_T|].
    cbn [forallb] in H, Hu. apply andb_true_iff in H. destruct H as [Hf Hr].
    apply andb_true_iff in Hu. destruct Hu as [Hfu Hu].
    eapply spX_bind; [apply spX_compile_main; auto | intros _ _; apply spX_compile_others; auto].
  Qed.

  Lemma Inv3_init d : Inv3 (init_state d).
  Proof.
    constructor; cbn; auto.
    - constructor; [constructor | constructor].
    - intros _. constructor; cbn.
      + reflexivity.
      + reflexivity.
      + apply NoDup_nil.
      + apply NoDup_nil.
      + apply NoDup_nil.
      + intros ? ? [].
      + intros ? ? [].
      + apply Forall_nil.
    - lia.
  Qed.

  Lemma compile_ir_Inv3 fs d s :
    forallb fir_rng fs = true -> forallb fir_utf8 fs = true ->
    compile_ir fs (init_state d) = ROk tt s -> Inv3 s.
  Proof.
    intros Hr Hu H. destruct fs as [|f r]; [discriminate|].
    assert (S : spX (compile_ir (f :: r)) (fun _ => True)).
    { unfold compile_ir.
      eapply spX_bind; [apply spX_stage_1, Hr | intros _ _].
      eapply spX_bind; [apply spX_stage_2; auto | intros _ _].
      eapply spX_bind; [apply spX_frame; [apply sp2_frame; intros s0; cbn; same2_tac | intros s0; cbn; same3_tac] | intros _ _].
      apply spX_push_instr; [ok_args | plain_tac]. }
    specialize (S (init_state d) (Inv2_init d) (Inv3_init d)). rewrite H in S. destruct S as (_ & HI & _). exact HI.
  Qed.
End Full.

(* ------------------------------------------------------------------ the theorem *)
Lemma positions_from_In is : forall p q i, In (q, i) (positions_from p is) -> In i is.
Proof.
  induction is as [|x r IH]; intros p q i H; cbn [positions_from] in H; [destruct H|].
  destruct H as [H|H]; [injection H as _ <-; left; reflexivity | right; eapply IH; eauto].
Qed.

Lemma n_range_In k x : x < N.of_nat k -> In x (n_range k).
Proof.
  induction k as [|k IH]; intros H; [lia|]. cbn [n_range]. apply in_or_app.
  destruct (N.eq_dec x (N.of_nat k)) as [->|Hne]; [right; left; reflexivity | left; apply IH; lia].
Qed.

Lemma n_range_lt k : forall x, In x (n_range k) -> x < N.of_nat k.
Proof.
  induction k as [|k IH]; intros x H; [destruct H|]. cbn [n_range] in H. apply in_app_or in H.
  destruct H as [H|[<-|[]]]; [specialize (IH x H)|]; lia.
Qed.

Lemma NoDup_map_inj {A B} (f : A -> B) l :
  NoDup (map f l) -> forall a b, In a l -> In b l -> f a = f b -> a = b.
Proof.
  induction l as [|x r IH]; intros H a b Ha Hb E; [destruct Ha|].
  cbn [map] in H. inversion H as [|? ? Hnin Hnd]; subst.
  destruct Ha as [->|Ha], Hb as [->|Hb]; auto.
  - exfalso. apply Hnin. rewrite E. apply in_map, Hb.
  - exfalso. apply Hnin. rewrite <- E. apply in_map, Ha.
Qed.

Lemma var_handles_collision_free_spec k :
  var_handles_collision_free k = true ->
  forall i j, i < N.of_nat k -> j < N.of_nat k -> handle_from_u32 i = handle_from_u32 j -> i = j.
Proof.
  intros H i j Hi Hj E. unfold var_handles_collision_free in H. apply nodup_N_NoDup in H.
  apply (NoDup_map_inj handle_from_u32 (n_range k) H); auto using n_range_In.
Qed.

Theorem compile_wellformed M o B :
  compile M o = COk B ->
  program_in_range M o = true ->
  program_utf8 M o = true ->
  N.of_nat (length (p_bytecode B)) < 2147483648 ->
  N.of_nat (length (p_data B)) < 4294967296 ->
  wellformed_gen false B.
Proof.
  intros H Hr Hu Hlen Hdata.
  destruct (compile_ok_inv _ _ _ H) as (fs & s & Hfs & E & ->).
  unfold program_in_range in Hr. unfold program_utf8 in Hu. rewrite Hfs in Hr, Hu.
  pose proof (compile_ir_instr_ok fs _ s Hr E) as Hok. apply Forall_rev_iff in Hok.
  pose proof (wf_partial_core fs _ s E Hlen) as Hwf.
  cbn [finish p_data] in Hdata.
  assert (Hn : two32 - 1 < two32) by reflexivity.
  pose proof (compile_ir_Inv3 (two32 - 1) Hn handle_from_u32_inj fs _ s Hr Hu E) as HI.
  destruct HI as [H1 H2 H3 H4 H5 H6].
  assert (Hids : nvars s <= two32 - 1).
  { cbn [finish p_bytecode] in Hlen. rewrite encode_length, nbytes_rev, <- bytes_nbytes in Hlen.
    unfold two32. lia. }
  specialize (H5 Hids).
  destruct H5 as [G1 G2 G3 G4 G5 G6 G7 G8].
  destruct Hwf as (Hb & Hd & (is0 & His0) & Hj & Hlab & Htr & _).
  specialize (Hd Hok).
  assert (Hin : forall p i, In (p, i) (positions (rev (cs_code s))) -> In i (cs_code s)).
  { intros p i Hp. apply in_rev. eapply positions_from_In. exact Hp. }
  exists (positions (rev (cs_code s))).
  split; [exact Hd|].
  split.
  { rewrite His0. unfold positions. rewrite positions_snoc. eauto. }
  split.
  { intros p i z Hp Hz. apply (Hj i z); [apply (proj1 (in_rev _ _)), (Hin p i Hp) | exact Hz]. }
  split; [exact Hlab|].
  split.
  { intros p i off Hp Hs. cbn [finish p_data].
    apply read_str_entry; [exact Hdata|].
    rewrite Forall_forall in H2. apply (H2 i (Hin p i Hp) off Hs). }
  split.
  { intros p i Hp. cbn [finish p_ids]. rewrite Forall_forall in H3, G8.
    apply index_ok_of; [apply H3 | apply G8]; apply (Hin p i Hp). }
  split; [|exact Htr].
  cbn [finish p_ids p_names]. unfold nvars in *.
  split; [exact G2|]. split; [exact G3|]. split; [exact G4|]. split; [exact G5|].
  split; [exact G6 | exact G7].
Qed.

(* every instruction of the returned program has a trace entry (not only the ones that can fail) *)
Theorem compile_trace_complete M o B :
  compile M o = COk B ->
  program_in_range M o = true ->
  N.of_nat (length (p_bytecode B)) < 2147483648 ->
  trace_complete B.
Proof.
  intros H Hr Hlen.
  destruct (compile_wellformed_partial_strong M o B H Hr Hlen) as (is & _ & Hd & Hwf).
  destruct Hwf as (_ & _ & _ & _ & _ & _ & Hc).
  intros is' p i Hd' Hin _. rewrite Hd in Hd'. injection Hd' as <-. apply (Hc p i Hin).
Qed.

(* the two side conditions of an earlier version of the theorem hold for every output *)
Corollary compile_few_globals M o B :
  compile M o = COk B -> program_in_range M o = true -> program_utf8 M o = true ->
  N.of_nat (length (p_bytecode B)) < 2147483648 ->
  5 * N.of_nat (length (p_ids B)) <= N.of_nat (length (p_bytecode B)).
Proof.
  intros H Hr Hu Hlen.
  destruct (compile_ok_inv _ _ _ H) as (fs & s & Hfs & E & ->).
  unfold program_in_range in Hr. unfold program_utf8 in Hu. rewrite Hfs in Hr, Hu.
  assert (Hn : two32 - 1 < two32) by reflexivity.
  pose proof (compile_ir_Inv3 (two32 - 1) Hn handle_from_u32_inj fs _ s Hr Hu E) as HI.
  cbn [finish p_bytecode p_ids]. rewrite encode_length, nbytes_rev, <- bytes_nbytes.
  apply (i3_cnt _ _ HI).
Qed.

Theorem var_handles_collision_free_all k :
  N.of_nat k < two32 -> var_handles_collision_free k = true.
Proof.
  intros Hk. unfold var_handles_collision_free.
  assert (G : forall m, (m <= k)%nat -> nodup_N (map handle_from_u32 (n_range m)) = true).
  { induction m as [|m IH]; intros Hm; [reflexivity|]. cbn [n_range]. rewrite map_app. cbn [map].
    specialize (IH ltac:(lia)). revert IH. generalize (n_range_lt m). generalize (n_range m).
    intros l Hl. induction l as [|x r IHl]; intros Hnd; [reflexivity|].
    cbn [app map] in *. unfold nodup_N in *. apply andb_true_iff in Hnd. destruct Hnd as [Hx Hr].
    apply andb_true_iff. split.
    - rewrite existsb_app. cbn [existsb]. rewrite orb_false_r. apply negb_true_iff in Hx.
      apply negb_true_iff. rewrite Hx. cbn [orb].
      apply N.eqb_neq. intros Eq. apply handle_from_u32_inj in Eq.
      + specialize (Hl x (or_introl eq_refl)). lia.
      + specialize (Hl x (or_introl eq_refl)). unfold two32 in *. lia.
      + unfold two32 in *. lia.
    - apply IHl; auto. intros y Hy. apply Hl. right. exact Hy. }
  apply G. lia.
Qed.

(* ------------------------------------------------------------------ a concrete instance *)
(* main: g := "hé" (global, 2-byte UTF-8 sequence); x := 1 (local); closure reading x.a.b (upvalue,
   two property shorthands); for v, i in [1] { read g }; native function pointer "log" *)
Definition full_example_module : module :=
  main_module
    [CSetGlobalVar [103] (CStringLiteral [104; 195; 169]);
     CSetVar [120] (CScalarInt 1);
     CClosure [] [CReadVar [120; 46; 97; 46; 98]];
     CForEach (Some [105]) None (Some [118]) (CArray [CScalarInt 1]) (CReadVar [103]);
     CNativeFunction [108; 111; 103]].

Lemma full_example :
  exists B, compile full_example_module default_options = COk B /\
            program_in_range full_example_module default_options = true /\
            program_utf8 full_example_module default_options = true /\
            var_handles_collision_free (length (p_ids B)) = true /\
            wf_check_gen false B = true /\ wellformed_gen false B.
Proof.
  destruct (compile full_example_module default_options) as [B| | |] eqn:E; try (vm_compute in E; discriminate).
  exists B. split; [reflexivity|].
  assert (Hr : program_in_range full_example_module default_options = true) by (vm_compute; reflexivity).
  assert (Hu : program_utf8 full_example_module default_options = true) by (vm_compute; reflexivity).
  assert (Hc : var_handles_collision_free (length (p_ids B)) = true).
  { vm_compute in E. injection E as <-. vm_compute. reflexivity. }
  assert (Hw : wf_check_gen false B = true).
  { vm_compute in E. injection E as <-. vm_compute. reflexivity. }
  repeat (split; [assumption|]).
  apply (compile_wellformed full_example_module default_options B E Hr Hu).
  - vm_compute in E. injection E as <-. vm_compute. reflexivity.
  - vm_compute in E. injection E as <-. vm_compute. reflexivity.
Qed.

(* ------------------------------------------------------------------ observation O-C10-1 *)
(* Two global variable names with the same Handle::from_str hash are ONE variable: FNV-1a-32 of
   "brljcd" and of "uqabx" is 2133916524.  The compiled program has a single variable id, both
   SetGlobalVar instructions carry it, `variables.names` keeps the first name - and the program is
   well-formed (ids and names stay mutually inverse), which is why C10_compile_wellformed needs no
   collision-freedom hypothesis on names.  On the real crate (harness c10-witness): after
   `brljcd := 1; uqabx := 2` both names read 2. *)
Definition name_collision_module : module :=
  main_module [CSetGlobalVar [98; 114; 108; 106; 99; 100] (CScalarInt 1);
               CSetGlobalVar [117; 113; 97; 98; 120] (CScalarInt 2)].
Lemma name_collision_observation :
  handle_of_bytes [98; 114; 108; 106; 99; 100] = handle_of_bytes [117; 113; 97; 98; 120] /\
  exists B, compile name_collision_module default_options = COk B /\
            length (p_ids B) = 1%nat /\ map snd (p_names B) = [[98; 114; 108; 106; 99; 100]] /\
            wf_check B = true.
Proof.
  split; [vm_compute; reflexivity|].
  destruct (compile name_collision_module default_options) as [B| | |] eqn:E; try (vm_compute in E; discriminate).
  exists B. split; [reflexivity|]. vm_compute in E. injection E as <-.
  split; [vm_compute; reflexivity|]. split; vm_compute; reflexivity.
Qed.
