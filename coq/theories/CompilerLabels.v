(* C08: the end-to-end label theorem of the compiler model.  "labels[handle g] is the first byte of
   g's code in the returned program", under a decidable condition on the IR stream: the keys that the
   compilation passes to [label_insert_here] (function handles of the non-main functions and the
   handles of the closures, which are derived from the function handle and the card index) are
   pairwise distinct.  Card labels ([label_entry_here]) never overwrite, so they need no condition.

   The proof is a Hoare logic [T] over the monad of Compiler.v that tracks, through process_card,
   (1) the context (cs_fh, cs_idx, cs_ns, cs_imports, cs_jump), (2) that the code below a floor [lo]
   is frozen (back-patching only touches jumps recorded at or above the floor), (3) cs_pc = bytes code,
   (4) that a label changes only if its key is one of the closure keys of the card or was absent. *)
From Coq Require Import List NArith ZArith Bool Lia.
From Cao Require Import ListUtil CheckUtil Bits CardAst Bytecode Compiler CompilerGen Wellformed
     CompilerProofs CompilerWf.
Import ListNotations.
Local Open Scope N_scope.

(* (the two map lemmas are also in CompilerResolve.v; repeated here to keep this file independent of it) *)
Lemma nm_find_insert_eq {V} k (v : V) m : nm_find k (nm_insert k v m) = Some v.
Proof.
  induction m as [|[k' v'] r IH]; cbn [nm_insert nm_find].
  - rewrite N.eqb_refl. reflexivity.
  - destruct (k <? k') eqn:L; cbn [nm_find]; [rewrite N.eqb_refl; reflexivity|].
    destruct (k =? k') eqn:E; cbn [nm_find]; [rewrite N.eqb_refl; reflexivity|]. rewrite E. exact IH.
Qed.
Lemma nm_find_insert_neq {V} k k0 (v : V) m : k0 <> k -> nm_find k0 (nm_insert k v m) = nm_find k0 m.
Proof.
  intros Hne. apply N.eqb_neq in Hne.
  induction m as [|[k' v'] r IH]; cbn [nm_insert nm_find].
  - rewrite Hne. reflexivity.
  - destruct (k <? k'); cbn [nm_find]; [rewrite Hne; reflexivity|].
    destruct (k =? k') eqn:E; cbn [nm_find].
    + apply N.eqb_eq in E. subst k'. rewrite Hne. reflexivity.
    + destruct (k0 =? k'); auto.
Qed.

(* ------------------------------------------------------------------ the keys of label_insert_here *)
(* Compiler.index_handle, as a function of current_function_handle and current_index *)
Definition index_key (fh : N) (idx : list N) : N :=
  handle_add fh (handle_of_bytes (flat_map (fun i => le_bytes 4 (i mod two32)) (rev idx))).
(* the key under which the body of a closure card at index [idx] of function [fh] is labelled *)
Definition closure_key (fh : N) (idx : list N) : N :=
  handle_add (index_key fh idx) (handle_from_u64 closure_mask).

(* every key that process_card passes to label_insert_here while it compiles [c] with
   cs_fh = fh and cs_idx = idx (last sub-index first), in the order of the calls *)
Fixpoint closure_keys_card (fh : N) (idx : list N) (c : card) {struct c} : list N :=
  let fix subs (l : list card) (i : N) {struct l} : list N :=
      match l with
      | [] => []
      | x :: r => closure_keys_card fh (i :: idx) x ++ subs r (i + 1)
      end in
  match c with
  | CBin _ a b => closure_keys_card fh (0 :: idx) a ++ closure_keys_card fh (1 :: idx) b
  | CUn _ a => closure_keys_card fh (0 :: idx) a
  | CTri _ a b c =>
      closure_keys_card fh (0 :: idx) a ++ closure_keys_card fh (1 :: idx) b ++ closure_keys_card fh (2 :: idx) c
  | CCallNative _ args => subs args 0
  | CCall _ args => subs args 0
  | CDynamicCall f args => subs args 1 ++ closure_keys_card fh (0 :: idx) f
  | CSetGlobalVar _ v => closure_keys_card fh (0 :: idx) v
  | CSetVar _ v => closure_keys_card fh (0 :: idx) v
  | CRepeat _ n body => closure_keys_card fh (0 :: idx) n ++ closure_keys_card fh (1 :: idx) body
  | CForEach _ _ _ it body => closure_keys_card fh (0 :: idx) it ++ closure_keys_card fh (1 :: idx) body
  | CComposite _ cards => subs cards 0
  | CArray cards => subs cards 0
  | CClosure _ cards => closure_key fh idx :: subs cards 0
  | _ => []
  end.

(* the children [l] of a card at [idx], numbered from [i] *)
Definition closure_keys_cards (fh : N) (idx : list N) : list card -> N -> list N :=
  fix subs (l : list card) (i : N) {struct l} : list N :=
    match l with
    | [] => []
    | x :: r => closure_keys_card fh (i :: idx) x ++ subs r (i + 1)
    end.

(* the top-level cards of a function: process_cards compiles card number [ic] under the index [ic] *)
Fixpoint closure_keys_top (fh : N) (cards : list card) (ic : N) : list N :=
  match cards with
  | [] => []
  | c :: r => closure_keys_card fh [ic] c ++ closure_keys_top fh r (ic + 1)
  end.

Definition fn_closure_keys (f : function_ir) : list N := closure_keys_top (fi_handle f) (fi_cards f) 0.
(* compile_other: the function's own label, then its closures *)
Definition other_insert_keys (f : function_ir) : list N := fi_handle f :: fn_closure_keys f.

(* every key passed to label_insert_here by stage_2, in order (the main function has no label of its own) *)
Definition insert_keys (fs : list function_ir) : list N :=
  match fs with
  | [] => []
  | m :: r => fn_closure_keys m ++ flat_map other_insert_keys r
  end.

Fixpoint nodupb (l : list N) : bool :=
  match l with
  | [] => true
  | x :: r => negb (existsb (N.eqb x) r) && nodupb r
  end.

Definition label_keys_distinct (fs : list function_ir) : bool := nodupb (insert_keys fs).

Definition label_keys_distinct_module (M : module) (limit : N) : bool :=
  match into_ir_stream M limit with
  | inr fs => label_keys_distinct fs
  | inl _ => false
  end.

Lemma nodupb_spec l : nodupb l = true <-> NoDup l.
Proof.
  induction l as [|x r IH]; cbn [nodupb].
  - split; [constructor | reflexivity].
  - rewrite andb_true_iff, negb_true_iff, IH. split.
    + intros [Hx Hr]. constructor; [|exact Hr]. intros Hin.
      assert (E : existsb (N.eqb x) r = true) by (apply existsb_exists; exists x; split; [exact Hin | apply N.eqb_refl]).
      congruence.
    + intros H. inversion H as [|? ? Hx Hr]; subst. split; [|exact Hr].
      destruct (existsb (N.eqb x) r) eqn:E; [|reflexivity]. exfalso.
      apply existsb_exists in E. destruct E as (y & Hy & Exy). apply N.eqb_eq in Exy. subst y. contradiction.
Qed.

Lemma label_keys_distinct_spec fs : label_keys_distinct fs = true <-> NoDup (insert_keys fs).
Proof. apply nodupb_spec. Qed.

(* unfolding of the collector, in terms of [closure_keys_cards] *)
Lemma closure_keys_card_unfold fh idx c :
  closure_keys_card fh idx c =
  match c with
  | CBin _ a b => closure_keys_card fh (0 :: idx) a ++ closure_keys_card fh (1 :: idx) b
  | CUn _ a => closure_keys_card fh (0 :: idx) a
  | CTri _ a b c =>
      closure_keys_card fh (0 :: idx) a ++ closure_keys_card fh (1 :: idx) b ++ closure_keys_card fh (2 :: idx) c
  | CCallNative _ args => closure_keys_cards fh idx args 0
  | CCall _ args => closure_keys_cards fh idx args 0
  | CDynamicCall f args => closure_keys_cards fh idx args 1 ++ closure_keys_card fh (0 :: idx) f
  | CSetGlobalVar _ v => closure_keys_card fh (0 :: idx) v
  | CSetVar _ v => closure_keys_card fh (0 :: idx) v
  | CRepeat _ n body => closure_keys_card fh (0 :: idx) n ++ closure_keys_card fh (1 :: idx) body
  | CForEach _ _ _ it body => closure_keys_card fh (0 :: idx) it ++ closure_keys_card fh (1 :: idx) body
  | CComposite _ cards => closure_keys_cards fh idx cards 0
  | CArray cards => closure_keys_cards fh idx cards 0
  | CClosure _ cards => closure_key fh idx :: closure_keys_cards fh idx cards 0
  | _ => []
  end.
Proof. destruct c; reflexivity. Qed.

Lemma closure_keys_cards_cons fh idx x r i :
  closure_keys_cards fh idx (x :: r) i = closure_keys_card fh (i :: idx) x ++ closure_keys_cards fh idx r (i + 1).
Proof. reflexivity. Qed.

(* ------------------------------------------------------------------ the context *)
Record ctx := mkctx {
  x_fh : N; x_idx : list N; x_ns : list str; x_imports : list (str * str); x_jump : list (str * fmeta) }.
Definition ctx_of (s : cstate) : ctx :=
  {| x_fh := cs_fh s; x_idx := cs_idx s; x_ns := cs_ns s; x_imports := cs_imports s; x_jump := cs_jump s |}.

(* ------------------------------------------------------------------ the relation between two states *)
(* the part of the code that lies below [lo] bytes stays *)
Definition frozen (lo : N) (s s' : cstate) : Prop :=
  forall mid old, cs_code s = mid ++ old -> bytes old <= lo -> exists mid', cs_code s' = mid' ++ old.

Record Rel (lo : N) (K : list N) (s s' : cstate) : Prop := {
  rel_pc : cs_pc s' = bytes (cs_code s');
  rel_mono : cs_pc s <= cs_pc s';
  rel_frozen : frozen lo s s';
  rel_labels : forall h, In h K \/ nm_find h (cs_labels s) = None \/
                         nm_find h (cs_labels s') = nm_find h (cs_labels s)
}.

Lemma Rel_refl lo K s : cs_pc s = bytes (cs_code s) -> Rel lo K s s.
Proof.
  intros Hpc. constructor.
  - exact Hpc.
  - lia.
  - intros mid old H _. eauto.
  - intros h. right. right. reflexivity.
Qed.

Lemma Rel_trans lo K s s1 s2 : Rel lo K s s1 -> Rel lo K s1 s2 -> Rel lo K s s2.
Proof.
  intros [A1 A2 A3 A4] [B1 B2 B3 B4]. constructor.
  - exact B1.
  - lia.
  - intros mid old H Hlo. destruct (A3 mid old H Hlo) as [mid1 H1]. apply (B3 mid1 old H1 Hlo).
  - intros h. destruct (A4 h) as [Hk|[Hn|He]]; auto.
    destruct (B4 h) as [Hk|[Hn|He']]; auto.
    + right. left. congruence.
    + right. right. congruence.
Qed.

Lemma Rel_weaken lo K K' s s' : incl K K' -> Rel lo K s s' -> Rel lo K' s s'.
Proof.
  intros Hi [A1 A2 A3 A4]. constructor; auto.
  intros h. destruct (A4 h) as [Hk|[Hn|He]]; auto.
Qed.

(* the facts used by the theorems *)
Lemma Rel_label_keep lo K s s' h p :
  Rel lo K s s' -> ~ In h K -> nm_find h (cs_labels s) = Some p -> nm_find h (cs_labels s') = Some p.
Proof.
  intros R Hn Hp. destruct (rel_labels _ _ _ _ R h) as [Hk|[Hnone|He]]; [contradiction | congruence | congruence].
Qed.

Lemma Rel_code_grows K s s' :
  cs_pc s = bytes (cs_code s) -> Rel (cs_pc s) K s s' -> exists new, cs_code s' = new ++ cs_code s.
Proof.
  intros Hpc R. apply (rel_frozen _ _ _ _ R [] (cs_code s)); [reflexivity | lia].
Qed.

(* ------------------------------------------------------------------ the triple *)
Definition T {A} (lo : N) (c c' : ctx) (K : list N) (m : M A) : Prop :=
  forall s, ctx_of s = c -> cs_pc s = bytes (cs_code s) -> lo <= cs_pc s ->
            match m s with
            | ROk _ s' => ctx_of s' = c' /\ Rel lo K s s'
            | _ => True
            end.

Lemma T_ret {A} lo c K (a : A) : T lo c c K (ret a).
Proof. intros s Hc Hpc Hlo. cbn. split; [exact Hc | apply Rel_refl, Hpc]. Qed.

Lemma T_bind {A B} lo c c1 c2 K (m : M A) (f : A -> M B) :
  T lo c c1 K m -> (forall a, T lo c1 c2 K (f a)) -> T lo c c2 K (bind m f).
Proof.
  intros Hm Hf s Hc Hpc Hlo. unfold bind. specialize (Hm s Hc Hpc Hlo).
  destruct (m s) as [a s1| | |]; auto. destruct Hm as [Hc1 R1].
  assert (Hlo1 : lo <= cs_pc s1) by (pose proof (rel_mono _ _ _ _ R1); lia).
  specialize (Hf a s1 Hc1 (rel_pc _ _ _ _ R1) Hlo1).
  destruct (f a s1) as [b s2| | |]; auto. destruct Hf as [Hc2 R2].
  split; [exact Hc2 | eapply Rel_trans; eauto].
Qed.

Lemma T_weaken {A} lo c c' K K' (m : M A) : incl K K' -> T lo c c' K m -> T lo c c' K' m.
Proof.
  intros Hi H s Hc Hpc Hlo. specialize (H s Hc Hpc Hlo). destruct (m s) as [a s'| | |]; auto.
  destruct H as [Hc' R]. split; [exact Hc' | eapply Rel_weaken; eauto].
Qed.

(* ---- operations that touch neither code, labels nor the context ---- *)
Definition sameL (s s' : cstate) : Prop :=
  cs_code s' = cs_code s /\ cs_pc s' = cs_pc s /\ cs_labels s' = cs_labels s /\ ctx_of s' = ctx_of s.
Definition frameL {A} (m : M A) : Prop :=
  forall s, match m s with ROk _ s' => sameL s s' | _ => True end.

Lemma sameL_refl s : sameL s s.
Proof. repeat split. Qed.

Lemma Rel_sameL lo K s s' :
  cs_pc s = bytes (cs_code s) -> cs_code s' = cs_code s -> cs_pc s' = cs_pc s -> cs_labels s' = cs_labels s ->
  Rel lo K s s'.
Proof.
  intros Hpc Hc Hp Hl. constructor.
  - rewrite Hp, Hc. exact Hpc.
  - rewrite Hp. lia.
  - intros mid old H _. rewrite Hc. eauto.
  - intros h. right. right. rewrite Hl. reflexivity.
Qed.

Lemma T_frame {A} lo c K (m : M A) : frameL m -> T lo c c K m.
Proof.
  intros Hf s Hc Hpc Hlo. specialize (Hf s). destruct (m s) as [a s'| | |]; auto.
  destruct Hf as (E1 & E2 & E3 & E4). split; [congruence | apply Rel_sameL; auto].
Qed.

Lemma frameL_ret {A} (a : A) : frameL (ret a).
Proof. intros s. cbn. apply sameL_refl. Qed.
Lemma frameL_bind {A B} (m : M A) (f : A -> M B) :
  frameL m -> (forall a, frameL (f a)) -> frameL (bind m f).
Proof.
  intros Hm Hf s. unfold bind. specialize (Hm s). destruct (m s) as [a s1| | |]; auto.
  specialize (Hf a s1). destruct (f a s1) as [b s2| | |]; auto.
  destruct Hm as (a1 & a2 & a3 & a4), Hf as (b1 & b2 & b3 & b4).
  repeat split; congruence.
Qed.

Ltac sameL_tac := first [apply sameL_refl | unfold sameL; cbn; repeat split; reflexivity].

Lemma frameL_get : frameL get. Proof. intros s. cbn. sameL_tac. Qed.
Lemma frameL_get_pc : frameL get_pc. Proof. intros s. cbn. sameL_tac. Qed.
Lemma frameL_get_pc_i32 : frameL get_pc_i32. Proof. intros s. cbn. sameL_tac. Qed.
Lemma frameL_panic {A} : frameL (@panic A). Proof. intros s. exact I. Qed.
Lemma frameL_diverge {A} : frameL (@diverge A). Proof. intros s. exact I. Qed.
Lemma frameL_error {A} e : frameL (@error A e). Proof. intros s. exact I. Qed.
Lemma frameL_scope_begin : frameL scope_begin. Proof. intros s. cbn. sameL_tac. Qed.
Lemma frameL_compile_begin : frameL compile_begin. Proof. intros s. cbn. sameL_tac. Qed.
Lemma frameL_compile_end : frameL compile_end. Proof. intros s. cbn. sameL_tac. Qed.
Lemma frameL_validate n : frameL (validate_var_name n).
Proof. unfold validate_var_name. destruct (is_empty n); [apply frameL_error | apply frameL_ret]. Qed.
Lemma frameL_add_local_unchecked n : frameL (add_local_unchecked n).
Proof.
  intros s. unfold add_local_unchecked.
  destruct (Nat.leb locals_cap (length (hd [] (cs_locals s)))); cbn; [exact I | sameL_tac].
Qed.
Lemma frameL_add_local n : frameL (add_local n).
Proof. apply frameL_bind; [apply frameL_validate | intros; apply frameL_add_local_unchecked]. Qed.
Lemma frameL_add_locals l : frameL (add_locals l).
Proof.
  induction l as [|n r IH]; cbn [add_locals]; [apply frameL_ret|].
  apply frameL_bind; [apply frameL_add_local | intros; exact IH].
Qed.
Lemma frameL_handle_from_bytes bs : frameL (handle_from_bytes_m bs).
Proof. intros s. unfold handle_from_bytes_m. sameL_tac. Qed.
Lemma frameL_resolve_var n : frameL (resolve_var n).
Proof.
  unfold resolve_var. apply frameL_bind; [apply frameL_validate|]. intros _ s.
  destruct (rfind_index _ _ _ _); cbn; [sameL_tac|].
  destruct (resolve_upvalue _ _ _) as [[[v ls] us]|]; cbn; [sameL_tac | exact I].
Qed.
Lemma frameL_global_id n : frameL (global_id n).
Proof.
  unfold global_id. apply frameL_bind; [apply frameL_handle_from_bytes|]. intros h s.
  destruct (nm_find h (cs_ids s)); [|destruct (ht_entry_hangs (cs_ids s)); [exact I|]];
    (destruct (nm_find _ (cs_names s));
     [unfold name_checked; destruct (global_name_checked && negb (str_eqb _ _)); cbn; [exact I | sameL_tac]|];
     destruct (ht_entry_hangs (cs_names s)); cbn; [exact I | sameL_tac]).
Qed.
Lemma frameL_resolve_function n : frameL (resolve_function n).
Proof.
  unfold resolve_function. apply frameL_bind; [apply frameL_get|]. intros s.
  apply frameL_bind.
  { destruct (match sm_find n (cs_jump s) with Some m => Some m | None => _ end); [apply frameL_ret|].
    destruct (sm_find n (cs_imports s)); [|apply frameL_ret].
    destruct (super_depth _) as [[cnt sx]|]; [|apply frameL_diverge].
    destruct (take_ns _ _ _); [apply frameL_ret | apply frameL_error]. }
  intros st3. apply frameL_bind.
  { destruct st3; [apply frameL_ret|].
    destruct (split_once_c c_dot n) as [[pre suf]|]; [|apply frameL_ret].
    destruct (sm_find pre (cs_imports s)); [|apply frameL_ret].
    destruct (super_depth _) as [[cnt sx]|]; [|apply frameL_diverge].
    destruct (take_ns _ _ _); [apply frameL_ret | apply frameL_error]. }
  intros st4. destruct st4; [apply frameL_ret | apply frameL_error].
Qed.

(* ---- operations on the context ---- *)
Lemma T_push_sub lo fh idx ns im jt K i :
  T lo (mkctx fh idx ns im jt) (mkctx fh (i :: idx) ns im jt) K (push_sub i).
Proof.
  intros s Hc Hpc Hlo. cbn. split.
  - unfold ctx_of in *. cbn. injection Hc as <- <- <- <- <-. reflexivity.
  - apply Rel_sameL; auto.
Qed.
Lemma T_pop_sub_gen lo fh idx ns im jt K :
  T lo (mkctx fh idx ns im jt) (mkctx fh (tl idx) ns im jt) K pop_sub.
Proof.
  intros s Hc Hpc Hlo. cbn. split.
  - unfold ctx_of in *. cbn. injection Hc as <- <- <- <- <-. reflexivity.
  - apply Rel_sameL; auto.
Qed.
Lemma T_pop_sub lo fh idx ns im jt K i :
  T lo (mkctx fh (i :: idx) ns im jt) (mkctx fh idx ns im jt) K pop_sub.
Proof. apply (T_pop_sub_gen lo fh (i :: idx)). Qed.
Lemma T_with_sub lo fh idx ns im jt K i m :
  T lo (mkctx fh (i :: idx) ns im jt) (mkctx fh (i :: idx) ns im jt) K m ->
  T lo (mkctx fh idx ns im jt) (mkctx fh idx ns im jt) K (with_sub i m).
Proof.
  intros H. unfold with_sub.
  eapply T_bind; [apply T_push_sub | intros _].
  eapply T_bind; [exact H | intros _; apply T_pop_sub].
Qed.
Lemma T_set_index_m lo fh idx ns im jt K f i :
  T lo (mkctx fh idx ns im jt) (mkctx fh i ns im jt) K (set_index_m f i).
Proof.
  intros s Hc Hpc Hlo. cbn. split.
  - unfold ctx_of in *. cbn. injection Hc as <- <- <- <- <-. reflexivity.
  - apply Rel_sameL; auto.
Qed.
Lemma T_set_fh_m lo fh idx ns im jt K h :
  T lo (mkctx fh idx ns im jt) (mkctx h idx ns im jt) K (set_fh_m h).
Proof.
  intros s Hc Hpc Hlo. cbn. split.
  - unfold ctx_of in *. cbn. injection Hc as <- <- <- <- <-. reflexivity.
  - apply Rel_sameL; auto.
Qed.
Lemma T_set_fctx lo fh idx ns im jt K ns' im' :
  T lo (mkctx fh idx ns im jt) (mkctx fh idx ns' im' jt) K (fun s => ROk tt (set_fctx ns' im' s)).
Proof.
  intros s Hc Hpc Hlo. cbn. split.
  - unfold ctx_of in *. cbn. injection Hc as <- <- <- <- <-. reflexivity.
  - apply Rel_sameL; auto.
Qed.

(* index_handle returns the key computed from the context *)
Lemma T_index_handle {A} lo fh idx ns im jt c' K (k : N -> M A) :
  T lo (mkctx fh idx ns im jt) c' K (k (index_key fh idx)) ->
  T lo (mkctx fh idx ns im jt) c' K (bind index_handle k).
Proof.
  intros H s Hc Hpc Hlo. specialize (H s Hc Hpc Hlo).
  unfold ctx_of in Hc. injection Hc as E1 E2 _ _ _. subst fh idx. exact H.
Qed.

(* ---- operations on the code ---- *)
Lemma T_push_instr lo c K i : T lo c c K (push_instr i).
Proof.
  intros s Hc Hpc Hlo. rewrite push_instr_eq. split; [exact Hc|]. unfold pushed.
  constructor; cbn [cs_code cs_pc cs_labels set_code set_trace].
  - cbn [bytes]. rewrite Hpc. unfold spanN. lia.
  - lia.
  - intros mid old H _. cbn [cs_code cs_pc cs_labels set_code set_trace] in H |- *.
    exists (i :: mid). rewrite H. reflexivity.
  - intros h. right. right. reflexivity.
Qed.

(* the position returned by get_pc lies at or above the floor *)
Lemma T_get_pc {A} lo c c' K (k : N -> M A) :
  (forall q, lo <= q -> T lo c c' K (k q)) -> T lo c c' K (bind get_pc k).
Proof. intros H s Hc Hpc Hlo. unfold bind, get_pc. apply (H (cs_pc s) Hlo s Hc Hpc Hlo). Qed.

(* back-patching a jump at or above the floor leaves everything below the floor alone *)
Lemma patch_code_app mid : forall old cur at_pc z code',
  patch_code (mid ++ old) cur at_pc z = Some code' -> cur = bytes (mid ++ old) -> bytes old <= at_pc ->
  exists mid', code' = mid' ++ old.
Proof.
  induction mid as [|i m IH]; intros old cur at_pc z code' H Hcur Hlo.
  - cbn [app] in *. destruct old as [|i r]; cbn [patch_code] in H; [discriminate|].
    cbn [bytes] in Hcur, Hlo. fold (spanN i) in H. pose proof (spanN_pos i) as Hp.
    assert (E : cur - spanN i = bytes r) by lia. rewrite E in H.
    destruct (N.eqb_spec (bytes r) at_pc) as [Heq|Hne]; [lia|].
    destruct (N.ltb_spec (bytes r) at_pc) as [Hlt|Hge]; [discriminate | lia].
  - cbn [app patch_code] in H. cbn [app bytes] in Hcur. fold (spanN i) in H.
    assert (E : cur - spanN i = bytes (m ++ old)) by lia. rewrite E in H.
    destruct (bytes (m ++ old) =? at_pc).
    + destruct (set_jump_target i z) as [i'|]; [|discriminate]. injection H as <-.
      exists (i' :: m). reflexivity.
    + destruct (bytes (m ++ old) <? at_pc); [discriminate|].
      destruct (patch_code (m ++ old) (bytes (m ++ old)) at_pc z) as [r'|] eqn:Er; [|discriminate].
      injection H as <-. destruct (IH _ _ _ _ _ Er eq_refl Hlo) as [mid' ->].
      exists (i :: mid'). reflexivity.
Qed.

Lemma patch_code_bytes code : forall cur at_pc z code',
  patch_code code cur at_pc z = Some code' -> bytes code' = bytes code.
Proof.
  induction code as [|i r IH]; intros cur at_pc z code' H; cbn [patch_code] in H; [discriminate|].
  destruct (_ =? at_pc).
  - destruct (set_jump_target i z) as [i'|] eqn:Ej; [|discriminate]. injection H as <-.
    cbn [bytes]. unfold spanN. rewrite (set_jump_target_span _ _ _ Ej). reflexivity.
  - destruct (_ <? at_pc); [discriminate|].
    destruct (patch_code r _ at_pc z) as [r'|] eqn:Er; [|discriminate]. injection H as <-.
    cbn [bytes]. rewrite (IH _ _ _ _ Er). reflexivity.
Qed.

Lemma T_patch lo c K q : lo <= q -> T lo c c K (patch_jump_here q).
Proof.
  intros Hq s Hc Hpc Hlo. unfold patch_jump_here.
  destruct (patch_code (cs_code s) (cs_pc s) q (u32_to_i32 (cs_pc s))) as [code'|] eqn:E; [|exact I].
  split; [exact Hc|]. constructor; cbn [cs_code cs_pc cs_labels set_code].
  - rewrite (patch_code_bytes _ _ _ _ _ E). exact Hpc.
  - lia.
  - intros mid old H Hold. cbn [cs_code cs_pc cs_labels set_code]. rewrite H in E.
    apply (patch_code_app mid old _ _ _ _ E); [rewrite <- H; exact Hpc | lia].
  - intros h. right. right. reflexivity.
Qed.

(* ---- labels ---- *)
Lemma T_label_insert lo c K h : In h K -> T lo c c K (label_insert_here h).
Proof.
  intros Hin s Hc Hpc Hlo. unfold label_insert_here.
  destruct ((two32 <=? cs_pc s) || (h =? 0)); [exact I|].
  split; [exact Hc|]. constructor; cbn [cs_code cs_pc cs_labels set_labels].
  - exact Hpc.
  - lia.
  - intros mid old H _. eauto.
  - intros x. destruct (N.eq_dec x h) as [->|Hne]; [left; exact Hin|].
    right. right. apply nm_find_insert_neq, Hne.
Qed.

(* card labels only fill absent keys *)
Lemma T_label_entry lo c K h : T lo c c K (label_entry_here h).
Proof.
  intros s Hc Hpc Hlo. unfold label_entry_here.
  destruct (two32 <=? cs_pc s); [exact I|].
  destruct (h =? 0); [split; [exact Hc | apply Rel_refl, Hpc]|].
  destruct (nm_find h (cs_labels s)) eqn:Ef; [split; [exact Hc | apply Rel_refl, Hpc]|].
  split; [exact Hc|]. constructor; cbn [cs_code cs_pc cs_labels set_labels].
  - exact Hpc.
  - lia.
  - intros mid old H _. eauto.
  - intros x. destruct (N.eq_dec x h) as [->|Hne]; [right; left; exact Ef|].
    right. right. apply nm_find_insert_neq, Hne.
Qed.

Lemma frameL_index_handle : frameL index_handle.
Proof.
  unfold index_handle. apply frameL_bind; [apply frameL_get|]. intros s.
  apply frameL_bind; [apply frameL_handle_from_bytes | intros; apply frameL_ret].
Qed.

Lemma T_card_label lo c K : T lo c c K card_label.
Proof.
  unfold card_label. eapply T_bind; [apply T_frame, frameL_index_handle | intros h; apply T_label_entry].
Qed.

Lemma T_push_string lo c K mk st : T lo c c K (push_string mk st).
Proof.
  unfold push_string. eapply T_bind; [apply T_frame, frameL_get | intros s0].
  eapply T_bind; [apply T_push_instr | intros _].
  apply T_frame. intros s. destruct (two32 <=? N.of_nat (length st)); cbn; [exact I | sameL_tac].
Qed.

(* ------------------------------------------------------------------ composite constructs *)
Ltac frameL_tac :=
  repeat first
    [ apply frameL_ret | apply frameL_get | apply frameL_get_pc | apply frameL_get_pc_i32 | apply frameL_panic
    | apply frameL_diverge | apply frameL_error | apply frameL_scope_begin | apply frameL_compile_begin
    | apply frameL_compile_end | apply frameL_validate | apply frameL_add_local_unchecked
    | apply frameL_add_local | apply frameL_add_locals | apply frameL_handle_from_bytes
    | apply frameL_resolve_var | apply frameL_global_id | apply frameL_resolve_function
    | match goal with |- frameL (bind _ _) => apply frameL_bind; [|intros ?] end ].

Lemma T_push_raws lo c K is : T lo c c K (push_raws is).
Proof.
  induction is as [|i r IH]; cbn [push_raws]; [apply T_ret|].
  eapply T_bind; [apply T_push_instr | intros _; exact IH].
Qed.

Lemma T_scope_end lo c K : T lo c c K scope_end.
Proof.
  intros s Hc Hpc Hlo. unfold scope_end.
  set (ds := map_hd _ (cs_depth s)). set (rlis := pop_locals _ _).
  set (s1 := set_scopes _ _ _ s).
  pose proof (T_push_raws lo c K (snd rlis) s1 Hc Hpc Hlo) as H.
  destruct (push_raws (snd rlis) s1) as [a s2| | |]; auto.
  destruct H as [Hc2 [R1 R2 R3 R4]]. split; [exact Hc2|]. constructor; auto.
Qed.

Lemma T_encode_if_then lo c K skip body : T lo c c K body -> T lo c c K (encode_if_then skip body).
Proof.
  intros Hb. unfold encode_if_then. apply T_get_pc. intros q Hq.
  eapply T_bind; [apply T_push_instr | intros _].
  eapply T_bind; [exact Hb | intros _]. apply T_patch, Hq.
Qed.

Lemma T_read_props lo c K props : T lo c c K (read_props props).
Proof.
  induction props as [|x r IH]; cbn [read_props]; [apply T_ret|].
  eapply T_bind; [|intros _; exact IH].
  destruct (is_empty x); [apply T_ret|].
  eapply T_bind; [apply T_push_string | intros _; apply T_push_instr].
Qed.

Lemma T_read_var_card lo c K v : T lo c c K (read_var_card v).
Proof.
  unfold read_var_card.
  destruct (match split_once_c c_dot v with Some (v0, p0) => (v0, p0) | None => (v, []) end) as [v0 props].
  eapply T_bind; [apply T_frame, frameL_resolve_var | intros scope].
  eapply T_bind; [|intros _; apply T_read_props].
  destruct scope.
  - eapply T_bind; [apply T_frame, frameL_global_id | intros id; apply T_push_instr].
  - apply T_push_instr.
  - apply T_push_instr.
Qed.

Lemma T_bind_loop_var lo c K o src : T lo c c K (bind_loop_var o src).
Proof.
  destruct o; cbn [bind_loop_var]; [|apply T_ret].
  eapply T_bind; [apply T_frame, frameL_add_local | intros x].
  eapply T_bind; [apply T_push_instr | intros _; apply T_push_instr].
Qed.

Lemma T_emit_upvalues lo c K ups : T lo c c K (emit_upvalues ups).
Proof.
  induction ups as [|u r IH]; cbn [emit_upvalues]; [apply T_ret|].
  eapply T_bind; [apply T_push_instr | intros _].
  eapply T_bind; [apply T_push_instr | intros _; exact IH].
Qed.

Lemma T_process_leaf lo c K i : T lo c c K (process_leaf i).
Proof.
  unfold process_leaf. eapply T_bind; [apply T_card_label | intros _; apply T_push_instr].
Qed.

(* ------------------------------------------------------------------ induction over cards *)
(* compiling [c] in the context (fh, idx, ..) restores the context, freezes the code below any floor,
   and only touches the labels of the closure keys of [c] (or fills absent ones) *)
Definition card_ok (c : card) : Prop :=
  forall lo fh idx ns im jt K, incl (closure_keys_card fh idx c) K ->
    T lo (mkctx fh idx ns im jt) (mkctx fh idx ns im jt) K (process_card c).

Lemma incl_app_l {A} (a b k : list A) : incl (a ++ b) k -> incl a k.
Proof. intros H x Hx. apply H, in_or_app. auto. Qed.
Lemma incl_app_r {A} (a b k : list A) : incl (a ++ b) k -> incl b k.
Proof. intros H x Hx. apply H, in_or_app. auto. Qed.
Lemma incl_cons_r {A} (a : A) (b k : list A) : incl (a :: b) k -> incl b k.
Proof. intros H x Hx. apply H. right. exact Hx. Qed.

Lemma T_subexpr lo fh idx ns im jt K l : Forall card_ok l -> forall i,
  incl (closure_keys_cards fh idx l i) K ->
  T lo (mkctx fh idx ns im jt) (mkctx fh idx ns im jt) K
    ((fix subexpr (l : list card) (i : N) {struct l} : M unit :=
        match l with
        | [] => ret tt
        | x :: r => with_sub i (process_card x) ;; subexpr r (i + 1)
        end) l i).
Proof.
  induction 1 as [|x r Hx _ IH]; intros i HK; [apply T_ret|].
  rewrite closure_keys_cards_cons in HK.
  eapply T_bind; [apply T_with_sub, Hx, (incl_app_l _ _ _ HK) | intros _; apply IH, (incl_app_r _ _ _ HK)].
Qed.

Lemma T_array_items lo fh idx ns im jt K tv l : Forall card_ok l -> forall i,
  incl (closure_keys_cards fh idx l i) K ->
  T lo (mkctx fh idx ns im jt) (mkctx fh idx ns im jt) K
    ((fix items (l : list card) (i : N) {struct l} : M unit :=
         match l with
         | [] => ret tt
         | x :: r =>
             push_instr IScalarNil ;;
             with_sub i (process_card x) ;;
             read_local tv ;;
             push_instr IAppendTable ;;
             items r (i + 1)
         end) l i).
Proof.
  induction 1 as [|x r Hx _ IH]; intros i HK; [apply T_ret|].
  rewrite closure_keys_cards_cons in HK.
  eapply T_bind; [apply T_push_instr | intros _].
  eapply T_bind; [apply T_with_sub, Hx, (incl_app_l _ _ _ HK) | intros _].
  eapply T_bind; [apply T_push_instr | intros _].
  eapply T_bind; [apply T_push_instr | intros _; apply IH, (incl_app_r _ _ _ HK)].
Qed.

Ltac incl_tac :=
  match goal with
  | HK : incl _ ?K |- incl _ ?K =>
      let x := fresh "x" in let Hx := fresh "Hx" in
      intros x Hx; apply HK; rewrite ?in_app_iff; cbn [In]; tauto
  end.

Ltac stepL :=
  first
    [ apply T_ret
    | apply T_card_label
    | apply T_scope_end
    | apply T_read_var_card
    | apply T_bind_loop_var
    | apply T_emit_upvalues
    | apply T_patch; assumption
    | apply T_push_instr
    | apply T_push_string
    | apply T_process_leaf
    | apply T_push_sub
    | apply T_pop_sub
    | match goal with H : card_ok ?c |- T _ _ _ _ (process_card ?c) => apply H; incl_tac end
    | apply T_with_sub
    | apply T_subexpr; [assumption | incl_tac]
    | apply T_array_items; [assumption | incl_tac]
    | apply T_encode_if_then
    | apply T_get_pc; intros ?q ?Hq
    | apply T_frame; solve [frameL_tac]
    | match goal with |- T _ _ _ _ (bind _ _) => eapply T_bind; [|intros ?] end ].

Lemma process_card_T c : card_ok c.
Proof.
  induction c using card_ind'; intros lo fh idx ns im jt K HK;
    rewrite closure_keys_card_unfold in HK; cbv beta match in HK; cbn [process_card].
  - (* CBin *) destruct op; repeat stepL.
  - destruct op; repeat stepL.
  - (* CTri *) destruct op; repeat stepL.
  - repeat stepL.
  - repeat stepL.
  - repeat stepL.
  - repeat stepL.
  - repeat stepL.
  - repeat stepL.
  - repeat stepL.
  - (* CFunction *) repeat stepL.
  - repeat stepL.
  - repeat stepL.
  - (* CCallNative *) repeat stepL.
  - (* CCall *) repeat stepL.
  - (* CDynamicCall *) repeat stepL.
  - (* CSetGlobalVar *)
    eapply T_bind; [stepL | intros _].
    eapply T_bind; [repeat stepL | intros _].
    destruct (is_empty n); repeat stepL.
  - (* CSetVar *)
    eapply T_bind; [stepL | intros _].
    eapply T_bind; [repeat stepL | intros _].
    destruct (rsplit_once_c c_dot n) as [[rp sp]|]; [repeat stepL|].
    eapply T_bind; [repeat stepL | intros var]. destruct var; repeat stepL.
  - (* CRepeat *) repeat stepL.
  - (* CForEach *) repeat stepL.
  - (* CComposite *) repeat stepL.
  - (* CArray *) repeat stepL.
  - (* CClosure *)
    eapply T_bind; [stepL | intros _].
    apply T_get_pc; intros q Hq.
    eapply T_bind; [stepL | intros _].
    eapply T_bind; [repeat stepL | intros _].
    apply T_index_handle.
    eapply T_bind; [apply T_label_insert, HK; left; reflexivity | intros _].
    repeat stepL.
Qed.

(* the state-level reading of [process_card_T] (successful run of process_card) *)
Theorem process_card_post c s s' :
  process_card c s = ROk tt s' -> cs_pc s = bytes (cs_code s) ->
  (exists new, cs_code s' = new ++ cs_code s) /\ cs_pc s' = bytes (cs_code s') /\
  cs_idx s' = cs_idx s /\ cs_fh s' = cs_fh s /\
  cs_jump s' = cs_jump s /\ cs_ns s' = cs_ns s /\ cs_imports s' = cs_imports s /\
  (forall h, In h (closure_keys_card (cs_fh s) (cs_idx s) c) \/ nm_find h (cs_labels s) = None \/
             nm_find h (cs_labels s') = nm_find h (cs_labels s)) /\
  (forall h p, nm_find h (cs_labels s) = Some p -> ~ In h (closure_keys_card (cs_fh s) (cs_idx s) c) ->
               nm_find h (cs_labels s') = Some p).
Proof.
  intros H Hpc.
  pose proof (process_card_T c (cs_pc s) (cs_fh s) (cs_idx s) (cs_ns s) (cs_imports s) (cs_jump s) _
                (incl_refl _) s eq_refl Hpc (N.le_refl _)) as HT.
  rewrite H in HT. destruct HT as [Hc R].
  unfold ctx_of in Hc. injection Hc as E1 E2 E3 E4 E5.
  split; [apply (Rel_code_grows _ _ _ Hpc R)|].
  split; [apply (rel_pc _ _ _ _ R)|].
  repeat (split; [assumption|]).
  split; [apply (rel_labels _ _ _ _ R)|].
  intros h p Hp Hn. apply (Rel_label_keep _ _ _ _ _ _ R Hn Hp).
Qed.

(* ------------------------------------------------------------------ functions and stages *)
Lemma T_process_cards lo fh ns im jt K cards : forall ic idx0,
  (length idx0 <= 1)%nat -> incl (closure_keys_top fh cards ic) K ->
  exists idx1, (length idx1 <= 1)%nat /\
    T lo (mkctx fh idx0 ns im jt) (mkctx fh idx1 ns im jt) K (process_cards cards ic).
Proof.
  induction cards as [|c r IH]; intros ic idx0 Hlen HK; cbn [process_cards].
  - exists idx0. split; [exact Hlen | apply T_ret].
  - cbn [closure_keys_top] in HK.
    destruct (IH (ic + 1) [ic] ltac:(cbn; lia) (incl_app_r _ _ _ HK)) as (idx1 & Hl1 & HT).
    exists idx1. split; [exact Hl1|].
    assert (Etl : tl idx0 = []) by (destruct idx0 as [|a [|b t]]; cbn in *; [reflexivity | reflexivity | lia]).
    eapply T_bind; [apply T_pop_sub_gen | intros _]. rewrite Etl.
    eapply T_bind; [apply T_push_sub | intros _].
    eapply T_bind; [apply process_card_T, (incl_app_l _ _ _ HK) | intros _; exact HT].
Qed.

Lemma T_process_function lo fh ns im jt K f idx0 :
  (length idx0 <= 1)%nat -> incl (closure_keys_top fh (fi_cards f) 0) K ->
  exists idx1, (length idx1 <= 1)%nat /\
    T lo (mkctx fh idx0 ns im jt) (mkctx fh idx1 (fi_ns f) (fi_imports f) jt) K (process_function f).
Proof.
  intros Hlen HK.
  destruct (T_process_cards lo fh (fi_ns f) (fi_imports f) jt K (fi_cards f) 0 idx0 Hlen HK) as (idx1 & Hl1 & HT).
  exists idx1. split; [exact Hl1|]. unfold process_function.
  eapply T_bind; [apply T_set_fctx | intros _].
  eapply T_bind; [apply T_frame, frameL_add_locals | intros _; exact HT].
Qed.

(* triples whose contexts do not matter *)
Definition U {A} (lo : N) (K : list N) (m : M A) : Prop :=
  forall s, cs_pc s = bytes (cs_code s) -> lo <= cs_pc s ->
            match m s with
            | ROk _ s' => Rel lo K s s'
            | _ => True
            end.

Lemma T_U {A} lo K (m : M A) : (forall c, exists c', T lo c c' K m) -> U lo K m.
Proof.
  intros H s Hpc Hlo. destruct (H (ctx_of s)) as [c' HT]. specialize (HT s eq_refl Hpc Hlo).
  destruct (m s) as [a s'| | |]; auto. apply HT.
Qed.
Lemma U_ret {A} lo K (a : A) : U lo K (ret a).
Proof. intros s Hpc _. cbn. apply Rel_refl, Hpc. Qed.
Lemma U_bind {A B} lo K (m : M A) (f : A -> M B) : U lo K m -> (forall a, U lo K (f a)) -> U lo K (bind m f).
Proof.
  intros Hm Hf s Hpc Hlo. unfold bind. specialize (Hm s Hpc Hlo).
  destruct (m s) as [a s1| | |]; auto.
  assert (Hlo1 : lo <= cs_pc s1) by (pose proof (rel_mono _ _ _ _ Hm); lia).
  specialize (Hf a s1 (rel_pc _ _ _ _ Hm) Hlo1). destruct (f a s1) as [b s2| | |]; auto.
  eapply Rel_trans; eauto.
Qed.
Lemma U_weaken {A} lo K K' (m : M A) : incl K K' -> U lo K m -> U lo K' m.
Proof.
  intros Hi H s Hpc Hlo. specialize (H s Hpc Hlo). destruct (m s) as [a s'| | |]; auto.
  eapply Rel_weaken; eauto.
Qed.
Lemma U_frame {A} lo K (m : M A) : frame m -> U lo K m.
Proof.
  intros Hf s Hpc _. specialize (Hf s). destruct (m s) as [a s'| | |]; auto.
  destruct Hf as (E1 & E2 & E3 & _). apply Rel_sameL; auto.
Qed.

Lemma T_compile_main lo K f : incl (fn_closure_keys f) K -> forall c, exists c', T lo c c' K (compile_main f).
Proof.
  intros HK [fh idx ns im jt].
  destruct (T_process_function lo (fi_handle f) ns im jt K f [0] ltac:(cbn; lia) HK) as (idx1 & _ & HT).
  eexists. unfold compile_main.
  eapply T_bind; [apply T_set_index_m | intros _].
  eapply T_bind; [apply T_set_fh_m | intros _].
  eapply T_bind; [apply T_frame, frameL_scope_begin | intros _].
  eapply T_bind; [exact HT | intros _].
  eapply T_bind; [apply T_set_index_m | intros _].
  eapply T_bind; [apply T_scope_end | intros _].
  apply T_process_leaf.
Qed.
Lemma U_compile_main lo K f : incl (fn_closure_keys f) K -> U lo K (compile_main f).
Proof. intros HK. apply T_U, T_compile_main, HK. Qed.

(* compile_other after the function's own label has been set *)
Definition other_body (f : function_ir) : M unit :=
  scope_begin ;; process_function f ;; scope_end ;; push_instr IScalarNil ;; push_instr IReturn.

Lemma T_other_body lo K f ns im jt :
  incl (fn_closure_keys f) K ->
  exists c', T lo (mkctx (fi_handle f) [] ns im jt) c' K (other_body f).
Proof.
  intros HK.
  destruct (T_process_function lo (fi_handle f) ns im jt K f [] ltac:(cbn; lia) HK) as (idx1 & _ & HT).
  eexists. unfold other_body.
  eapply T_bind; [apply T_frame, frameL_scope_begin | intros _].
  eapply T_bind; [exact HT | intros _].
  eapply T_bind; [apply T_scope_end | intros _].
  eapply T_bind; [apply T_push_instr | intros _]. apply T_push_instr.
Qed.

Lemma T_compile_other lo K f : incl (other_insert_keys f) K -> forall c, exists c', T lo c c' K (compile_other f).
Proof.
  intros HK [fh idx ns im jt].
  destruct (T_other_body lo K f ns im jt (incl_cons_r _ _ _ HK)) as [c' HT].
  exists c'. change (compile_other f) with
    (set_index_m (fi_index f) [] ;; set_fh_m (fi_handle f) ;; label_insert_here (fi_handle f) ;; other_body f).
  eapply T_bind; [apply T_set_index_m | intros _].
  eapply T_bind; [apply T_set_fh_m | intros _].
  eapply T_bind; [apply T_label_insert, HK; left; reflexivity | intros _]. exact HT.
Qed.
Lemma U_compile_other lo K f : incl (other_insert_keys f) K -> U lo K (compile_other f).
Proof. intros HK. apply T_U, T_compile_other, HK. Qed.

Lemma U_compile_others lo K fs : incl (flat_map other_insert_keys fs) K -> U lo K (compile_others fs).
Proof.
  induction fs as [|f r IH]; intros HK; cbn [compile_others]; [apply U_ret|].
  cbn [flat_map] in HK.
  apply U_bind; [apply U_compile_other, (incl_app_l _ _ _ HK) | intros _; apply IH, (incl_app_r _ _ _ HK)].
Qed.

Lemma U_stage_2 lo K fs : incl (insert_keys fs) K -> U lo K (stage_2 fs).
Proof.
  destruct fs as [|f r]; intros HK; cbn [stage_2]; [apply U_ret|].
  cbn [insert_keys] in HK.
  apply U_bind; [apply U_compile_main, (incl_app_l _ _ _ HK) | intros _; apply U_compile_others, (incl_app_r _ _ _ HK)].
Qed.

(* ------------------------------------------------------------------ monad plumbing at the level of states *)
Lemma bind_ok_inv {A B} (m : M A) (f : A -> M B) s b s' :
  bind m f s = ROk b s' -> exists a s1, m s = ROk a s1 /\ f a s1 = ROk b s'.
Proof. unfold bind. destruct (m s) as [a s1| | |]; try discriminate. eauto. Qed.

Lemma compile_others_app a : forall b s,
  compile_others (a ++ b) s = (compile_others a ;; compile_others b) s.
Proof.
  induction a as [|f r IH]; intros b s; cbn [app compile_others].
  - reflexivity.
  - unfold bind. destruct (compile_other f s) as [[] s1| | |]; auto. rewrite IH. reflexivity.
Qed.

Lemma encode_app a b : encode (a ++ b) = encode a ++ encode b.
Proof. unfold encode. apply flat_map_app. Qed.

Lemma pc_encoded_length s :
  cs_pc s = bytes (cs_code s) -> cs_pc s = N.of_nat (length (encode (rev (cs_code s)))).
Proof. intros ->. rewrite encode_length, nbytes_rev. apply bytes_nbytes. Qed.

(* ------------------------------------------------------------------ the theorem *)
Lemma NoDup_drop_app {A} (a b : list A) : NoDup (a ++ b) -> NoDup b.
Proof. induction a as [|x a IH]; cbn [app]; intros H; [exact H|]. inversion H; subst. auto. Qed.

Lemma NoDup_insert_keys_split m pre' g post :
  NoDup (insert_keys (m :: pre' ++ g :: post)) ->
  ~ In (fi_handle g) (fn_closure_keys g) /\ ~ In (fi_handle g) (flat_map other_insert_keys post).
Proof.
  cbn [insert_keys]. rewrite flat_map_app. cbn [flat_map]. intros H.
  apply NoDup_drop_app in H. apply NoDup_drop_app in H.
  unfold other_insert_keys at 1 in H. cbn [app] in H.
  inversion H as [|? ? Hn _]; subst. split; intros Hin; apply Hn, in_or_app; auto.
Qed.

Lemma label_insert_here_ok h s s' :
  label_insert_here h s = ROk tt s' ->
  cs_code s' = cs_code s /\ cs_pc s' = cs_pc s /\ ctx_of s' = ctx_of s /\
  nm_find h (cs_labels s') = Some (cs_pc s).
Proof.
  unfold label_insert_here. destruct ((two32 <=? cs_pc s) || (h =? 0)); [discriminate|].
  intros H. injection H as <-. cbn [cs_code cs_pc cs_labels set_labels].
  repeat split. apply nm_find_insert_eq.
Qed.

Theorem label_points_to_body fs d s_end pre g post :
  fs = pre ++ g :: post -> pre <> [] ->
  compile_ir fs (init_state d) = ROk tt s_end ->
  label_keys_distinct fs = true ->
  exists s1 s2 body rest,
    (stage_1 fs ;; stage_2 pre) (init_state d) = ROk tt s1 /\
    compile_other g s1 = ROk tt s2 /\
    rev (cs_code s2) = rev (cs_code s1) ++ body /\
    rev (cs_code s_end) = rev (cs_code s1) ++ body ++ rest /\
    cs_pc s1 = N.of_nat (length (encode (rev (cs_code s1)))) /\
    nm_find (fi_handle g) (cs_labels s_end) = Some (cs_pc s1).
Proof.
  intros Hfs Hpre H Hd. destruct pre as [|m pre']; [contradiction|]. clear Hpre.
  apply label_keys_distinct_spec in Hd. subst fs. cbn [app] in H, Hd.
  destruct (NoDup_insert_keys_split _ _ _ _ Hd) as [Hng Hnp].
  unfold compile_ir in H.
  apply bind_ok_inv in H. destruct H as ([] & s0 & H1 & H).
  apply bind_ok_inv in H. destruct H as ([] & s3 & H2 & H).
  apply bind_ok_inv in H. destruct H as ([] & s4 & H3 & H4).
  injection H3 as <-. rewrite push_instr_eq in H4. injection H4 as <-.
  cbn [stage_2] in H2. apply bind_ok_inv in H2. destruct H2 as ([] & sa & Hm & H2).
  rewrite compile_others_app in H2. apply bind_ok_inv in H2. destruct H2 as ([] & s1 & Hp & H2).
  cbn [compile_others] in H2. apply bind_ok_inv in H2. destruct H2 as ([] & s2 & Hg & Hpost).
  (* stage_1 touches neither code nor labels *)
  pose proof (frame_stage_1 (m :: pre' ++ g :: post) (init_state d)) as F1. rewrite H1 in F1.
  destruct F1 as (Fc & Fp & _ & _).
  assert (Hpc0 : cs_pc s0 = bytes (cs_code s0)) by (rewrite Fc, Fp; reflexivity).
  (* the functions before g *)
  assert (Hs1 : stage_2 (m :: pre') s0 = ROk tt s1).
  { cbn [stage_2]. unfold bind. rewrite Hm. exact Hp. }
  pose proof (U_stage_2 0 _ (m :: pre') (incl_refl _) s0 Hpc0 (N.le_0_l _)) as R1. rewrite Hs1 in R1.
  pose proof (rel_pc _ _ _ _ R1) as Hpc1.
  (* g: its label, then its body *)
  pose proof Hg as Hg0.
  change (compile_other g) with
    (set_index_m (fi_index g) [] ;; set_fh_m (fi_handle g) ;; label_insert_here (fi_handle g) ;; other_body g) in Hg.
  apply bind_ok_inv in Hg. destruct Hg as ([] & sb & Hb1 & Hg). injection Hb1 as <-.
  apply bind_ok_inv in Hg. destruct Hg as ([] & sc & Hb2 & Hg). injection Hb2 as <-.
  apply bind_ok_inv in Hg. destruct Hg as ([] & sl & Hl & Hbody).
  destruct (label_insert_here_ok _ _ _ Hl) as (Lc & Lp & Lx & Ll).
  cbn [cs_code cs_pc set_fh set_index] in Lc, Lp, Ll.
  destruct (T_other_body (cs_pc s1) (fn_closure_keys g) g (cs_ns s1) (cs_imports s1) (cs_jump s1) (incl_refl _))
    as [c' HT].
  assert (Hpcl : cs_pc sl = bytes (cs_code sl)) by (rewrite Lc, Lp; exact Hpc1).
  specialize (HT sl Lx Hpcl ltac:(rewrite Lp; apply N.le_refl)). rewrite Hbody in HT. destruct HT as [_ R2].
  destruct (rel_frozen _ _ _ _ R2 [] (cs_code sl) eq_refl ltac:(rewrite <- Hpcl, Lp; apply N.le_refl)) as [new E2].
  rewrite Lc in E2.
  pose proof (Rel_label_keep _ _ _ _ _ _ R2 Hng Ll) as Ll2.
  (* the functions after g *)
  pose proof (rel_pc _ _ _ _ R2) as Hpc2.
  pose proof (U_compile_others (cs_pc s2) _ post (incl_refl _) s2 Hpc2 (N.le_refl _)) as R3. rewrite Hpost in R3.
  destruct (Rel_code_grows _ _ _ Hpc2 R3) as [new2 E3].
  pose proof (Rel_label_keep _ _ _ _ _ _ R3 Hnp Ll2) as Ll3.
  exists s1, s2, (rev new), (rev new2 ++ [IExit]).
  split; [cbn [app]; unfold bind at 1; rewrite H1; exact Hs1|].
  split; [exact Hg0|].
  split; [rewrite E2, rev_app_distr; reflexivity|].
  split.
  { unfold pushed. cbn [cs_code set_code set_trace set_fctx]. cbn [rev].
    rewrite E3, E2, !rev_app_distr, <- !app_assoc. reflexivity. }
  split; [apply pc_encoded_length, Hpc1|].
  exact Ll3.
Qed.

Theorem compile_label_points_to_body M o B fs pre g post :
  into_ir_stream M (o_recursion_limit o) = inr fs -> fs = pre ++ g :: post -> pre <> [] ->
  compile M o = COk B -> label_keys_distinct fs = true ->
  exists before body rest,
    p_bytecode B = encode before ++ encode body ++ encode rest /\
    nm_find (fi_handle g) (p_labels B) = Some (N.of_nat (length (encode before))) /\
    (exists s1 s2, compile_other g s1 = ROk tt s2 /\ rev (cs_code s1) = before /\ rev (cs_code s2) = before ++ body).
Proof.
  intros Hir Hfs Hpre Hc Hd. destruct (compile_ok_inv _ _ _ Hc) as (fs' & s & Hir' & E & ->).
  rewrite Hir in Hir'. injection Hir' as <-.
  destruct (label_points_to_body fs _ s pre g post Hfs Hpre E Hd)
    as (s1 & s2 & body & rest & _ & Hg & E2 & E3 & Hpc & Hl).
  exists (rev (cs_code s1)), body, rest. unfold finish. cbn [p_bytecode p_labels].
  split; [rewrite E3, !encode_app; reflexivity|].
  split; [rewrite <- Hpc; exact Hl|]. exists s1, s2. auto.
Qed.

(* ------------------------------------------------------------------ an example *)
(* main = [f(); g(1)],  f = [closure { 7 }; nil],  g(x) = [return x]; the stream continues with the
   functions of the injected standard library *)
Definition ex_module : module :=
  Module []
    [(s_main, {| f_args := []; f_cards := [CCall [102] []; CCall [103] [CScalarInt 1]] |});
     ([102], {| f_args := []; f_cards := [CClosure [] [CScalarInt 7]; CScalarNil] |});
     ([103], {| f_args := [[120]]; f_cards := [CUn UReturn (CReadVar [120])] |})]
    [].
Definition ex_fs : list function_ir :=
  match into_ir_stream ex_module 64 with inr fs => fs | inl _ => [] end.
Definition ex_g : function_ir :=
  {| fi_index := 2; fi_name := [103]; fi_args := [[120]]; fi_cards := [CUn UReturn (CReadVar [120])];
     fi_ns := []; fi_imports := []; fi_handle := handle_from_u64 2 |}.

Example ex_keys_distinct : label_keys_distinct_module ex_module 64 = true.
Proof. vm_compute. reflexivity. Qed.

(* the first keys of the stream: f's handle, the closure in f (card 0 of function f), g's handle *)
Example ex_insert_keys_prefix :
  firstn 3 (insert_keys ex_fs) = [handle_from_u64 1; closure_key (handle_from_u64 1) [0]; handle_from_u64 2].
Proof. vm_compute. reflexivity. Qed.

Example ex_label_of_g :
  exists B before body rest,
    compile ex_module default_options = COk B /\
    nth_error ex_fs 2 = Some ex_g /\
    p_bytecode B = encode before ++ encode body ++ encode rest /\
    nm_find (fi_handle ex_g) (p_labels B) = Some (N.of_nat (length (encode before))) /\
    N.of_nat (length (encode before)) = 58.
Proof.
  destruct (compile ex_module default_options) as [B| | |] eqn:E; try (vm_compute in E; discriminate).
  assert (H58 : nm_find (fi_handle ex_g) (p_labels B) = Some 58).
  { vm_compute in E. injection E as <-. vm_compute. reflexivity. }
  assert (Hir : into_ir_stream ex_module (o_recursion_limit default_options) = inr ex_fs)
    by (vm_compute; reflexivity).
  assert (Hsplit : ex_fs = firstn 2 ex_fs ++ ex_g :: skipn 3 ex_fs) by (vm_compute; reflexivity).
  assert (Hne : firstn 2 ex_fs <> []) by (vm_compute; discriminate).
  assert (Hd : label_keys_distinct ex_fs = true) by (vm_compute; reflexivity).
  destruct (compile_label_points_to_body ex_module default_options B ex_fs _ ex_g _ Hir Hsplit Hne E Hd)
    as (before & body & rest & Hb & Hl & _).
  exists B, before, body, rest. split; [reflexivity|]. split; [vm_compute; reflexivity|].
  split; [exact Hb|]. split; [exact Hl|]. rewrite H58 in Hl. injection Hl as <-. reflexivity.
Qed.

Print Assumptions label_points_to_body.
Print Assumptions compile_label_points_to_body.
Print Assumptions process_card_post.
Print Assumptions ex_label_of_g.
