(* C15: closed examples (vm_compute) for the theorems of C15Full.v - a module with nested While / IfTrue / closure /
   IfElse in `main` and a second function, compiled with the default options; and instances that show that the
   hypotheses of the new theorems are satisfiable. *)
From Coq Require Import List NArith ZArith Bool Lia.
From Cao Require Import Bits CardAst Compiler CompilerProofs CompilerTrace CompilerOwner CompilerOwnerProg
     CompilerOwnerFull CompilerOwnerFullProg C15Link C15Resolve C15Full C15Examples.
From Cao Require CardEdit C15Check Vm VmCheck C15Proofs.
Import ListNotations.
Local Open Scope N_scope.

Definition w_g : str := [103].
Definition ex_ifelse : card := CTri TIfElse (CScalarInt 3) CScalarNil CAbort.
Definition ex_closure : card := CClosure [] [ex_ifelse].
Definition ex_iftrue : card := CBin BIfTrue (CScalarInt 2) ex_closure.
Definition ex_while : card := CBin BWhile (CScalarInt 1) ex_iftrue.
(* main = [ while 1 { if 2 { closure { if 3 { nil } else { abort } } } } ],  g = [ 7; 8 ] *)
Definition nested_module : module :=
  Module [] [(s_main, fn0 [ex_while]); (w_g, fn0 [CScalarInt 7; CScalarInt 8])] [].

(* the trace entries of the functions of the root namespace (those of `std` left out): address, opcode byte,
   (function, indices) of the recorded location, and what Module::get_card resolves the location to *)
Definition root_table (m : module) : list (N * N * (N * list N) * option card) :=
  match compile m default_options with
  | COk B =>
      map (fun e => (fst e, byte_at B (fst e), (N.of_nat (ci_function (snd (snd e))), map N.of_nat (ci_indices (snd (snd e)))), resolve m (snd e)))
          (filter (fun e => match fst (snd e) with [] => true | _ => false end) (p_trace B))
  | _ => []
  end.

(* - owned entries resolve to the emitting card at every depth, the closure body included (33, 47, 53; 54-56 are the
     closure's own ScalarNil / Return / Closure instructions);
   - N-C15-4: the jumps at 9, 65 (While) name its child 1 = the IfTrue card, the jump at 23 (IfTrue) names its child 1 =
     the closure, the jumps at 42, 48 (IfElse) name its child 1 = ScalarNil;
   - N-C15-3: the Exit of main's epilogue (70) carries index [1] = [number of cards of main] and resolves to nothing;
     ScalarNil / Return of g's epilogue (89, 90) carry the index of g's LAST card and resolve to it *)
Lemma nested_table :
  root_table nested_module =
    [(0, 5, (0, [0; 0]), Some (CScalarInt 1));
     (9, 30, (0, [0; 1]), Some ex_iftrue);
     (14, 5, (0, [0; 1; 0]), Some (CScalarInt 2));
     (23, 30, (0, [0; 1; 1]), Some ex_closure);
     (28, 28, (0, [0; 1; 1]), Some ex_closure);
     (33, 5, (0, [0; 1; 1; 0; 0]), Some (CScalarInt 3));
     (42, 30, (0, [0; 1; 1; 0; 1]), Some CScalarNil);
     (47, 7, (0, [0; 1; 1; 0; 1]), Some CScalarNil);
     (48, 28, (0, [0; 1; 1; 0; 1]), Some CScalarNil);
     (53, 10, (0, [0; 1; 1; 0; 2]), Some CAbort);
     (54, 7, (0, [0; 1; 1]), Some ex_closure);
     (55, 22, (0, [0; 1; 1]), Some ex_closure);
     (56, 42, (0, [0; 1; 1]), Some ex_closure);
     (65, 28, (0, [0; 1]), Some ex_iftrue);
     (70, 10, (0, [1]), None);
     (71, 5, (1, [0]), Some (CScalarInt 7));
     (80, 5, (1, [1]), Some (CScalarInt 8));
     (89, 7, (1, [1]), Some (CScalarInt 8));
     (90, 22, (1, [1]), Some (CScalarInt 8))].
Proof. vm_compute. reflexivity. Qed.

(* the card positions that the run list of `main` must hold: 9, in compilation order *)
Lemma nested_positions :
  subcards_list [] [ex_while] 0 =
    [([0], ex_while); ([0; 0], CScalarInt 1); ([1; 0], ex_iftrue); ([0; 1; 0], CScalarInt 2); ([1; 1; 0], ex_closure);
     ([0; 1; 1; 0], ex_ifelse); ([0; 0; 1; 1; 0], CScalarInt 3); ([1; 0; 1; 1; 0], CScalarNil);
     ([2; 0; 1; 1; 0], CAbort)].
Proof. reflexivity. Qed.

(* the hypotheses of compile_trace_classified hold for the nested module *)
Lemma nested_compiles :
  exists B, compile nested_module default_options = COk B /\ N.of_nat (length (p_bytecode B)) <= two32.
Proof.
  destruct (compile nested_module default_options) as [B| | |] eqn:E; try (vm_compute in E; discriminate).
  exists B. split; [reflexivity|]. vm_compute in E. injection E as <-. vm_compute. discriminate.
Qed.

(* ... and its conclusion, instantiated: the run list holds a run of process_card on the Abort card in the else
   branch of the IfElse inside the closure inside the IfTrue inside the While, at exactly that index; and the
   entry at address 14 (ScalarInt, neither a jump nor an epilogue opcode) names the card that emitted it *)
Lemma nested_abort_has_run :
  exists B fs gruns f r,
    compile nested_module default_options = COk B /\ gruns_full nested_module default_options B fs gruns /\
    In (f, r) gruns /\ r_idx r = [2; 0; 1; 1; 0] /\ r_card r = CAbort /\ fi_ns f = [] /\ fi_index f = 0%nat.
Proof.
  destruct nested_compiles as (B & Hc & Hsz).
  destruct (compile_trace_classified _ _ _ Hc Hsz) as (fs & gruns & Hfull & _).
  destruct Hfull as (Hir & Hin & Htree & Hk).
  assert (Hfs : exists f r0, fs = f :: r0 /\ fi_ns f = [] /\ fi_index f = 0%nat /\ fi_cards f = [ex_while]).
  { vm_compute in Hir. injection Hir as <-. eexists. eexists. split; [reflexivity|]. repeat split. }
  destruct Hfs as (f & r0 & -> & Hns & Hfi & Hcards).
  assert (Hat : exists ctx, at_ctx (fi_cards f) [2; 0; 1; 1; 0] (CAbort :: ctx)).
  { rewrite Hcards. exists [ex_ifelse; ex_closure; ex_iftrue; ex_while].
    apply (at_child _ 2 [0; 1; 1; 0] ex_ifelse CAbort); [|reflexivity].
    apply (at_child _ 0 [1; 1; 0] ex_closure ex_ifelse); [|reflexivity].
    apply (at_child _ 1 [1; 0] ex_iftrue ex_closure); [|reflexivity].
    apply (at_child _ 1 [0] ex_while ex_iftrue); [|reflexivity].
    apply at_top. reflexivity. }
  destruct Hat as (ctx & Hat).
  destruct (position_has_run _ _ f _ _ _ Hk (or_introl eq_refl) Hat) as (r & H1 & H2 & H3).
  exists B, (f :: r0), gruns, f, r. repeat split; auto.
Qed.

Lemma nested_entry_14_names_owner :
  exists B fs gruns f r,
    compile nested_module default_options = COk B /\ gruns_full nested_module default_options B fs gruns /\
    gdeepest gruns (f, r) 14 /\ resolves_to nested_module (mkl (fi_ns f) (fi_index f) (r_idx r)) (r_card r) /\
    In (14, mkl (fi_ns f) (fi_index f) (r_idx r)) (p_trace B).
Proof.
  destruct nested_compiles as (B & Hc & Hsz).
  destruct (compile_trace_classified _ _ _ Hc Hsz) as (fs & gruns & Hfull & Hall).
  assert (Hin : exists l, In (14, l) (p_trace B) /\ is_jump_byte (byte_at B 14) = false /\
                          is_epi_byte (byte_at B 14) = false).
  { vm_compute in Hc. injection Hc as <-. eexists. split; [right; right; left; reflexivity|]. split; reflexivity. }
  destruct Hin as (l & Hin & Hj & He).
  destruct (plain_entry_names_owner _ _ _ _ _ _ (Hall _ _ Hin) Hj He) as (f & r & Hd & Hl & Hres).
  exists B, fs, gruns, f, r. rewrite <- Hl. auto.
Qed.

(* epilogue_resolution on the function g of the nested module (index 1 of the root module): the location of its
   epilogue resolves to its last card *)
Lemma nested_g_epilogue :
  forall f, fi_index f = 1%nat -> fi_cards f = [CScalarInt 7; CScalarInt 8] ->
  forall k, CardEdit.get_card nested_module (snd (epi_loc (S k) f)) = CardEdit.ROk (CScalarInt 8).
Proof.
  intros f Hi Hc k.
  destruct (epilogue_resolution nested_module f w_g (fn0 [CScalarInt 7; CScalarInt 8])) as [_ H].
  - rewrite Hi. reflexivity.
  - rewrite Hc. reflexivity.
  - rewrite (H k), Hc. reflexivity.
Qed.

(* the hypotheses of error_trace_classified hold for the call chain of C15Examples (a failing run) *)
Lemma chain_size B : compile chain_module default_options = COk B -> N.of_nat (length (p_bytecode B)) <= two32.
Proof. intros E. vm_compute in E. injection E as <-. vm_compute. discriminate. Qed.

Lemma chain_run_fails (F : Vm.fops) :
  exists B e t s',
    compile chain_module default_options = COk B /\ N.of_nat (length (p_bytecode B)) <= two32 /\
    C15Proofs.frames_ok (C15Proofs.src_ok (to_vm B)) Vm.fresh_state /\
    Vm.run F (VmCheck.bld_of true) 1000 (to_vm B) Vm.fresh_state = (Vm.OErr e t, s').
Proof.
  destruct (compile chain_module default_options) as [B| | |] eqn:Ec; try (exfalso; vm_compute in Ec; discriminate).
  pose proof (chain_size B Ec) as Hsz. exists B.
  destruct (Vm.run F (VmCheck.bld_of true) 1000 (to_vm B) Vm.fresh_state) as [[|e t|ab] s'] eqn:Er.
  - exfalso. vm_compute in Ec. injection Ec as <-. vm_compute in Er. discriminate.
  - exists e, t, s'. split; [reflexivity|]. split; [exact Hsz|]. split; [|reflexivity].
    unfold C15Proofs.frames_ok, C15Proofs.Q. change (Vm.st_calls Vm.fresh_state) with (@nil Vm.frame). constructor.
  - exfalso. vm_compute in Ec. injection Ec as <-. vm_compute in Er. discriminate.
Qed.
