(* C08: the documented name-resolution rules of cao-lang as a specification over the MODULE TREE,
   written without reference to the compiler model (no jump table, no full-name strings, no
   flattening): a function is identified by the path of its module and its name.

   Lookup order for a call / function reference `name` made from a function of the module at path
   [ns] (documented on Module.imports and in resolve_function's comments):
     1. absolute dotted path       a.b.f    -> function f of module a.b (from the root)
     2. the caller's own module    f, s.f   -> relative to the caller's module
     3. function import            f        -> the caller module's import whose last segment is f;
                                               import paths are relative to the caller's module,
                                               every leading `super` segment walks up one module
                                               (the last segment is the imported name, never a step)
     4. module-prefix import       q.r.f    -> the import whose last segment is q designates a module;
                                               r.f is looked up inside it
   More `super` segments than enclosing modules is an error (SuperLimitReached).
   Definitions only. *)
From Coq Require Import List NArith ZArith Bool.
From Cao Require Import ListUtil CheckUtil Bits CardAst.
Import ListNotations.
Local Open Scope N_scope.

Definition seq_eqb : str -> str -> bool := list_eqb N.eqb.
Definition dot : N := 46.
Definition w_super : str := [115; 117; 112; 101; 114].
Definition w_std : str := [115; 116; 100].
Definition w_main : str := [109; 97; 105; 110].

(* "a.b.c" -> [a; b; c] *)
Fixpoint segments (s : str) : list str :=
  match s with
  | [] => [[]]
  | x :: r =>
      if x =? dot then [] :: segments r
      else match segments r with
           | h :: t => (x :: h) :: t
           | [] => [[x]]
           end
  end.

(* a function of the tree: path of its module from the root, and its name *)
Definition fid : Type := (list str * str)%type.

Fixpoint find_module (m : module) (path : list str) : option module :=
  match path with
  | [] => Some m
  | x :: p =>
      (fix go (l : list (str * module)) : option module :=
         match l with
         | [] => None
         | (n, sub) :: r => if seq_eqb n x then find_module sub p else go r
         end) (m_submodules m)
  end.

Definition has_function (m : module) (name : str) : bool :=
  existsb (fun nf => seq_eqb (fst nf) name) (m_functions m).

Definition lookup (root : module) (path : list str) (name : str) : option fid :=
  match find_module root path with
  | Some m => if has_function m name then Some (path, name) else None
  | None => None
  end.

(* number of leading `super` segments of a module path, and the remaining segments *)
Fixpoint strip_supers (segs : list str) : nat * list str :=
  match segs with
  | x :: r => if seq_eqb x w_super then let '(k, rest) := strip_supers r in (S k, rest) else (O, segs)
  | [] => (O, [])
  end.

(* the import of the caller's module whose last segment is [key] *)
Definition import_for (imports : list str) (key : str) : option (list str) :=
  match find (fun imp => seq_eqb (last (segments imp) []) key) imports with
  | Some imp => Some (segments imp)
  | None => None
  end.

Inductive sres := SFound (f : fid) | SNotFound | SSuperLimit.

Definition or_else (a : option fid) (b : sres) : sres :=
  match a with Some f => SFound f | None => b end.

(* An import path is  super* . module path . NAME : its LAST segment is the imported name (the key under
   which the import is used) and is never a `super` step; the segments before it are a module path
   relative to the caller's module, whose leading `super` segments walk up. *)
Definition spec_resolve (root : module) (ns : list str) (imports : list str) (name : str) : sres :=
  let segs := segments name in
  let mods := removelast segs in
  let f := last segs [] in
  or_else (lookup root mods f)                                   (* 1. absolute *)
  (or_else (lookup root (ns ++ mods) f)                          (* 2. caller's module *)
  (match mods with
   | [] =>                                                       (* 3. function import *)
       match import_for imports f with
       | None => SNotFound
       | Some isegs =>
           let '(ups, mpath) := strip_supers (removelast isegs) in
           if Nat.ltb (length ns) ups then SSuperLimit
           else or_else (lookup root (firstn (length ns - ups) ns ++ mpath) (last isegs [])) SNotFound
       end
   | q :: mrest =>                                               (* 4. module-prefix import *)
       match import_for imports q with
       | None => SNotFound
       | Some isegs =>
           let '(ups, mpath) := strip_supers (removelast isegs) in
           if Nat.ltb (length ns) ups then SSuperLimit
           else or_else (lookup root (firstn (length ns - ups) ns ++ mpath ++ last isegs [] :: mrest) f) SNotFound
       end
   end)).

(* ---- static rejection reasons, as an order-free set ---- *)
Definition ascii_alnum_ (b : N) : bool :=
  ((48 <=? b) && (b <=? 57)) || ((65 <=? b) && (b <=? 90)) || ((97 <=? b) && (b <=? 122)).
Definition valid_ident (s : str) : bool :=
  forallb (fun b => ascii_alnum_ b || (b =? 95)) s && negb (seq_eqb s []) && negb (seq_eqb s w_super).

Fixpoint has_dup (l : list str) : bool :=
  match l with
  | [] => false
  | x :: r => existsb (seq_eqb x) r || has_dup r
  end.

Inductive fault := FDupModule | FNoMain | FRecLimit | FBadImport | FAmbiguousImport | FBadFnName | FDupName.

(* folds [f] over every module of the tree with its depth *)
Fixpoint any_module (f : nat -> module -> bool) (d : nat) (m : module) : bool :=
  f d m ||
  match m with
  | Module subs _ _ =>
      (fix go (l : list (str * module)) : bool :=
         match l with
         | [] => false
         | (_, sub) :: r => any_module f (S d) sub || go r
         end) subs
  end.

Definition is_dotless (s : str) : bool := negb (existsb (N.eqb dot) s).

(* [root] is the user's module with `std` already injected *)
Definition static_faults (root : module) (limit : N) : list fault :=
  (if any_module (fun _ m => has_dup (map fst (m_submodules m))) 0 root then [FDupModule] else []) ++
  (if has_function root w_main then [] else [FNoMain]) ++
  (if any_module (fun d _ => limit <=? N.of_nat d) 0 root then [FRecLimit] else []) ++
  (if any_module (fun _ m => existsb is_dotless (m_imports m)) 0 root then [FBadImport] else []) ++
  (if any_module (fun _ m => has_dup (map (fun i => last (segments i) []) (filter (fun i => negb (is_dotless i)) (m_imports m)))) 0 root
   then [FAmbiguousImport] else []) ++
  (if any_module (fun _ m => negb (forallb valid_ident (map fst (m_functions m)))) 0 root then [FBadFnName] else []) ++
  (if any_module (fun _ m => has_dup (map fst (m_functions m))) 0 root then [FDupName] else []).

(* position of a function in the order in which the compiler numbers functions (functions of a module
   in order, then its submodules in order, depth first): the harness tags every body with it *)
Fixpoint count_functions (m : module) : nat :=
  match m with
  | Module subs funs _ =>
      (length funs +
      (fix go (l : list (str * module)) : nat :=
         match l with
         | [] => O
         | (_, sub) :: r => count_functions sub + go r
         end) subs)%nat
  end.

Fixpoint find_pos (name : str) (l : list (str * function)) (i : nat) : option nat :=
  match l with
  | [] => None
  | (n, _) :: r => if seq_eqb n name then Some i else find_pos name r (S i)
  end.

Fixpoint fn_position (m : module) (path : list str) (name : str) (base : nat) : option nat :=
  match path with
  | [] => find_pos name (m_functions m) base
  | x :: p =>
      (fix go (l : list (str * module)) (base : nat) : option nat :=
         match l with
         | [] => None
         | (n, sub) :: r =>
             if seq_eqb n x then fn_position sub p name base
             else go r (base + count_functions sub)%nat
         end) (m_submodules m) (base + length (m_functions m))%nat
  end.

Definition function_at (root : module) (f : fid) : option function :=
  match find_module root (fst f) with
  | Some m =>
      match find (fun nf => seq_eqb (fst nf) (snd f)) (m_functions m) with
      | Some (_, fn) => Some fn
      | None => None
      end
  | None => None
  end.

(* ---- enumeration of the call sites' surroundings: every function of the tree, in the order in which
   the compiler numbers them (fn_position is the index in this list), with the path of its module and
   that module's import list ---- *)
Record fsite := { fs_path : list str; fs_name : str; fs_fn : function; fs_imports : list str }.

Fixpoint tree_functions (m : module) (path : list str) : list fsite :=
  match m with
  | Module subs funs imps =>
      map (fun nf => {| fs_path := path; fs_name := fst nf; fs_fn := snd nf; fs_imports := imps |}) funs ++
      (fix go (l : list (str * module)) : list fsite :=
         match l with
         | [] => []
         | (n, sub) :: r => tree_functions sub (path ++ [n]) ++ go r
         end) subs
  end.

(* no module name of the tree contains a '.' (module names are not validated by the compiler; with a
   dotted module name full names are ambiguous and the specification does not apply) *)
Definition module_names_dotfree (root : module) : bool :=
  negb (any_module (fun _ m => existsb (fun n => negb (is_dotless n)) (map fst (m_submodules m))) 0 root).

(* the user's module with the standard library injected, as the compiler sees it *)
Definition with_std (std : module) (m : module) : module :=
  match m with Module subs funs imps => Module (subs ++ [(w_std, std)]) funs imps end.

(* ---- the static calls and function references of a card, in the order in which they are compiled:
   a Call card is a function reference followed by a call; a DynamicCall compiles its arguments, then
   the function expression, then the call ---- *)
Inductive citem := CPtr (name : str) | CCallI.

Fixpoint card_items (c : card) : list citem :=
  match c with
  | CCall name args => flat_map card_items args ++ [CPtr name; CCallI]
  | CFunction name => [CPtr name]
  | CDynamicCall f args => flat_map card_items args ++ card_items f ++ [CCallI]
  | CBin _ a b => card_items a ++ card_items b
  | CUn _ a => card_items a
  | CTri _ a b c => card_items a ++ card_items b ++ card_items c
  | CCallNative _ args => flat_map card_items args
  | CSetGlobalVar _ v => card_items v
  | CSetVar _ v => card_items v
  | CRepeat _ n body => card_items n ++ card_items body
  | CForEach _ _ _ it body => card_items it ++ card_items body
  | CComposite _ cards => flat_map card_items cards
  | CArray cards => flat_map card_items cards
  | CClosure _ cards => flat_map card_items cards
  | _ => []
  end.

(* the call sites of a function of the tree, each with its surroundings *)
Definition site_items (st : fsite) : list (fsite * citem) :=
  map (fun it => (st, it)) (flat_map card_items (f_cards (fs_fn st))).

(* what the specification designates for a reference to [name] made from site [st]: the position of
   the target in the compiler's numbering and the number of its parameters *)
Definition site_target (root : module) (st : fsite) (name : str) : option (nat * nat) :=
  match spec_resolve root (fs_path st) (fs_imports st) name with
  | SFound f =>
      match fn_position root (fst f) (snd f) 0, function_at root f with
      | Some pos, Some fn => Some (pos, length (f_args fn))
      | _, _ => None
      end
  | _ => None
  end.

(* position of `main` among the functions of the root: the compiler moves it to the front *)
Fixpoint main_index (funs : list (str * function)) (i : nat) : option nat :=
  match funs with
  | [] => None
  | (n, _) :: r => if seq_eqb n w_main then Some i else main_index r (S i)
  end.
