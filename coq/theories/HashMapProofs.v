(* CaoHashMap (HashMap.v) refines a mathematical map: invariant, lookup abstraction, and the
   effect of every operation on it.  Uses the generic probing theory of ProbeProofs.v. *)
From Coq Require Import Arith Lia List Bool NArith Permutation.
Import ListNotations.
From Cao Require Import Cyc ProbeDefs ProbeProofs HashMap.

Set Implicit Arguments.

Section HMP.
  Variables (K V : Type).
  Variable keqb : K -> K -> bool.
  Variable hashfn : K -> N.
  Variable home : nat -> N -> nat.
  Variable needs_grow : nat -> nat -> bool.
  Variable new_cap : nat -> nat.
  Variable clone_k : K -> K.
  Variable clone_v : V -> V.

  (* K: Eq is modelled as Leibniz equality *)
  Hypothesis keqb_spec : forall a b, reflect (a = b) (keqb a b).
  Hypothesis home_lt : forall n h, 0 < n -> home n h < n.
  (* the load test leaves a free slot: MAX_LOAD < 1 *)
  Hypothesis ng_lt : forall c cap, needs_grow (S c) cap = false -> S c < cap.
  Hypothesis new_cap_gt : forall c, c < new_cap c.

  Notation entry := (entry K V).
  Notation hmap := (hmap K V).
  Notation pk := (pk K).
  Notation ek := (@ek K V).
  Notation pkeqb := (pkeqb keqb).
  Notation phome := (@phome K home).
  Notation hfind := (hfind keqb home).
  Notation ChainN := (Chain ek phome).
  Notation DistinctN := (Distinct ek).

  Lemma pkeqb_spec : forall a b : pk, reflect (a = b) (pkeqb a b).
  Proof.
    intros [h k] [h' k']. unfold HashMap.pkeqb. cbn [fst snd].
    destruct (N.eqb_spec h h') as [->|Hne]; cbn.
    - destruct (keqb_spec k k') as [->|Hne]; constructor; congruence.
    - constructor. congruence.
  Qed.

  Lemma phome_lt : forall n (k : pk), 0 < n -> phome n k < n.
  Proof. intros n k Hn. unfold HashMap.phome. apply home_lt. exact Hn. Qed.

  Definition Inv (m : hmap) : Prop :=
    0 < hcap m /\ hm_count m = occ (hm_slots m) /\ hm_count m < hcap m /\
    ChainN (hcap m) (hm_slots m) /\ DistinctN (hcap m) (hm_slots m).

  (* the stored entries, as a set *)
  Definition Ent (m : hmap) (e : entry) : Prop := In_tbl (hcap m) (hm_slots m) e.

  (* the abstraction: which entry a probe key designates *)
  Definition lookup (m : hmap) (k : pk) : option entry :=
    lk pkeqb ek phome (hcap m) (hm_slots m) k.

  Lemma inv_has_empty m : Inv m -> has_empty (hcap m) (hm_slots m).
  Proof.
    intros (Hn & Hc & Hlt & _). unfold has_empty.
    apply occ_lt_has_none. unfold hcap in *. lia.
  Qed.

  Lemma lookup_ent m k e : Inv m -> (lookup m k = Some e <-> (Ent m e /\ ek e = k)).
  Proof.
    intros HI. pose proof (inv_has_empty HI) as HE.
    destruct HI as (Hn & _ & _ & HC & HD).
    unfold lookup, Ent. apply (lk_spec pkeqb pkeqb_spec phome_lt Hn k HC HD HE).
  Qed.

  Lemma lookup_none m k : Inv m -> (lookup m k = None <-> forall e, Ent m e -> ek e <> k).
  Proof.
    intros HI. pose proof (inv_has_empty HI) as HE.
    destruct HI as (Hn & _ & _ & HC & HD).
    unfold lookup, Ent. apply (lk_none pkeqb pkeqb_spec phome_lt Hn k HC HD HE).
  Qed.

  Lemma ent_unique m e1 e2 : Inv m -> Ent m e1 -> Ent m e2 -> ek e1 = ek e2 -> e1 = e2.
  Proof. intros (_ & _ & _ & _ & HD). apply (in_tbl_unique HD). Qed.

  (* probing always stops, at the key's slot or at the first empty slot of its chain *)
  Lemma hfind_spec m h k : Inv m ->
    exists q, q < hcap m /\ hfind (hm_slots m) h k = Some q /\
      ((exists e, get (hm_slots m) q = Some e /\ ek e = (h, k)) \/
       (get (hm_slots m) q = None /\ (forall e, Ent m e -> ek e <> (h, k)) /\
        forall s, s < dist (hcap m) (phome (hcap m) (h, k)) q ->
                  get (hm_slots m) ((phome (hcap m) (h, k) + s) mod hcap m) <> None)).
  Proof.
    intros HI. pose proof (inv_has_empty HI) as HE.
    destruct HI as (Hn & _ & _ & HC & HD).
    unfold HashMap.hfind. apply (find_spec pkeqb pkeqb_spec phome_lt Hn (h, k) HC HD HE).
  Qed.

  Lemma lookup_find m h k q : hfind (hm_slots m) h k = Some q ->
    lookup m (h, k) = get (hm_slots m) q.
  Proof. unfold lookup, lk, HashMap.hfind, hcap. intros ->. reflexivity. Qed.

  (* ---------- get / contains ---------- *)
  Theorem get_h_spec m h k : Inv m ->
    get_h keqb home m h k = Ok (option_map (@e_val K V) (lookup m (h, k))).
  Proof.
    intros HI. destruct (hfind_spec h k HI) as [q [Hq [Hf _]]].
    unfold get_h. rewrite Hf, (lookup_find _ _ _ Hf).
    destruct (get (hm_slots m) q); reflexivity.
  Qed.

  (* ---------- rehash / adjust_capacity ---------- *)
  Lemma contents_cons_some (e : entry) r : contents (Some e :: r) = e :: contents r.
  Proof. reflexivity. Qed.
  Lemma contents_cons_none (r : list (option entry)) : contents (None :: r) = contents r.
  Proof. reflexivity. Qed.

  Lemma rehash_spec : forall (old t : list (option entry)) cnt,
    0 < length t -> ChainN (length t) t -> DistinctN (length t) t -> cnt = occ t ->
    NoDup (map ek (contents old)) ->
    (forall e, In e (contents old) -> forall e', In_tbl (length t) t e' -> ek e' <> ek e) ->
    occ t + length (contents old) < length t ->
    exists t', rehash keqb home old t cnt = Ok (t', cnt + length (contents old)) /\
      length t' = length t /\ ChainN (length t) t' /\ DistinctN (length t) t' /\
      occ t' = cnt + length (contents old) /\
      (forall e, In_tbl (length t) t' e <-> (In_tbl (length t) t e \/ In e (contents old))).
  Proof.
    induction old as [|x r IH]; intros t cnt Hn HC HD Hcnt Hnd Hdis Hroom.
    - exists t. cbn. rewrite Nat.add_0_r. repeat split; auto; try tauto; try lia.
    - destruct x as [e|].
      2:{ cbn [rehash]. rewrite contents_cons_none in *. apply IH; auto. }
      rewrite contents_cons_some in *. cbn [map] in Hnd. apply NoDup_cons_iff in Hnd. destruct Hnd as [Hnotin Hnd'].
      cbn [rehash length] in *.
      assert (HE : has_empty (length t) t).
      { apply occ_lt_has_none. lia. }
      unfold HashMap.hfind.
      destruct (find_spec pkeqb pkeqb_spec phome_lt Hn (e_hash e, e_key e) HC HD HE)
        as [q [Hq [Hf [[e0 [Hg Hk]]|[Hnone [Habs Hocc]]]]]].
      { exfalso. apply (Hdis e (or_introl eq_refl) e0); [exists q; auto|]. rewrite Hk. destruct e; reflexivity. }
      rewrite Hf, Hnone.
      assert (Heke : ek e = (e_hash e, e_key e)) by (destruct e; reflexivity).
      set (t1 := set t q (Some e)).
      assert (Hlen1 : length t1 = length t) by (unfold t1; apply set_length).
      assert (HC1 : ChainN (length t) t1).
      { unfold t1. apply insert_new_chain; auto; try (rewrite Heke; exact Hocc). }
      assert (HD1 : DistinctN (length t) t1).
      { unfold t1. apply insert_new_distinct; auto; try (intros e' He'; rewrite Heke; apply Habs; auto). }
      assert (Hocc1 : occ t1 = S (occ t)) by (unfold t1; apply occ_set_some; auto).
      assert (Hin1 : forall e', In_tbl (length t) t1 e' <-> e' = e \/ In_tbl (length t) t e').
      { unfold t1. apply in_tbl_set_some; auto. }
      specialize (IH t1 (S cnt)). rewrite Hlen1 in IH.
      destruct IH as [t' [Hr [Hl' [HC' [HD' [Ho' Hin']]]]]];
        [lia | exact HC1 | exact HD1 | lia | exact Hnd' | | lia | ].
      { intros e2 He2 e' He'. apply Hin1 in He'. destruct He' as [->|He'].
        - intro Hc. apply Hnotin. rewrite Hc. apply in_map. exact He2.
        - apply Hdis; [right; exact He2 | exact He']. }
      exists t'.
      replace (cnt + S (length (contents r))) with (S cnt + length (contents r)) by lia.
      split; [exact Hr|]. split; [lia|]. split; [exact HC'|]. split; [exact HD'|].
      split; [exact Ho'|]. intros e'. rewrite Hin', Hin1. cbn [In]. intuition congruence.
  Qed.

  Lemma chain_empty c : ChainN c (repeat None c).
  Proof. intros p e Hp Hg. rewrite get_repeat_none in Hg. discriminate. Qed.
  Lemma distinct_empty c : DistinctN c (repeat None c).
  Proof. intros p q e1 e2 Hp Hq Hg. rewrite get_repeat_none in Hg. discriminate. Qed.
  Lemma in_tbl_empty c (e : entry) : ~ In_tbl c (repeat None c) e.
  Proof. intros [p [Hp Hg]]. rewrite get_repeat_none in Hg. discriminate. Qed.
  Lemma occ_empty c : occ (repeat (@None entry) c) = 0.
  Proof. unfold occ. rewrite contents_repeat_none. reflexivity. Qed.

  Lemma ent_contents m e : Ent m e <-> In e (contents (hm_slots m)).
  Proof. unfold Ent, In_tbl, hcap. symmetry. apply (in_contents ek (hm_slots m) e). Qed.

  Theorem adjust_spec m c : Inv m -> hm_count m < c ->
    exists m', adjust keqb home m c true = Ok m' /\ Inv m' /\ hcap m' = c /\
      hm_count m' = hm_count m /\ (forall e, Ent m' e <-> Ent m e).
  Proof.
    intros HI Hc. destruct HI as (Hn & Hcnt & Hlt & HC & HD).
    unfold adjust. cbn [negb].
    assert (Hlen : length (repeat (@None entry) c) = c) by apply repeat_length.
    pose proof (@rehash_spec (hm_slots m) (repeat None c) 0) as R. rewrite Hlen in R.
    destruct R as [t' [Hr [Hl' [HC' [HD' [Ho' Hin']]]]]].
    - lia.
    - apply chain_empty.
    - apply distinct_empty.
    - symmetry; apply occ_empty.
    - apply distinct_nodup. exact HD.
    - intros e _ e' He'. exfalso. eapply in_tbl_empty; eauto.
    - rewrite occ_empty. unfold occ in Hcnt. lia.
    - rewrite Hr. cbn [Nat.add]. unfold occ in Hcnt. rewrite <- Hcnt, Nat.eqb_refl.
      eexists. split; [reflexivity|]. cbn [Nat.add] in Ho'.
      split.
      { unfold Inv, hcap. cbn [hm_slots hm_count]. rewrite Hl'. unfold occ in *.
        split; [lia|]. split; [lia|]. split; [lia|]. split; assumption. }
      split. { unfold hcap. cbn [hm_slots]. exact Hl'. }
      split. { reflexivity. }
      intros e. unfold Ent at 1. unfold hcap at 1. cbn [hm_slots]. rewrite Hl', Hin'.
      rewrite <- ent_contents. split.
      * intros [H|H]; [exfalso; eapply in_tbl_empty; eauto|exact H].
      * intros H. right. exact H.
  Qed.

  Lemma adjust_fail (m : hmap) c : adjust keqb home m c false = AllocErr.
  Proof. reflexivity. Qed.

  (* ---------- insertion ---------- *)
  Definition mk (h : N) (k : K) (v : V) : entry := {| e_hash := h; e_key := k; e_val := v |}.

  Lemma insert_fresh m h k v : Inv m -> (forall e, Ent m e -> ek e <> (h, k)) ->
    S (hm_count m) < hcap m ->
    exists q, hfind (hm_slots m) h k = Some q /\ get (hm_slots m) q = None /\
      let m' := {| hm_slots := set (hm_slots m) q (Some (mk h k v)); hm_count := S (hm_count m) |} in
      Inv m' /\ hcap m' = hcap m /\ (forall e, Ent m' e <-> (e = mk h k v \/ Ent m e)).
  Proof.
    intros HI Habs Hroom.
    destruct (hfind_spec h k HI) as [q [Hq [Hf [[e0 [Hg Hk]]|[Hnone [_ Hocc]]]]]].
    { exfalso. apply (Habs e0); [exists q; auto|exact Hk]. }
    exists q. split; [exact Hf|]. split; [exact Hnone|].
    destruct HI as (Hn & Hcnt & Hlt & HC & HD). unfold hcap in *.
    assert (Hlen : length (set (hm_slots m) q (Some (mk h k v))) = length (hm_slots m)) by apply set_length.
    cbn zeta. unfold Inv, Ent, hcap. cbn [hm_slots hm_count]. rewrite Hlen.
    split; [|split; [reflexivity|]].
    - split; [exact Hn|]. split; [rewrite occ_set_some; auto|]. split; [exact Hroom|]. split.
      + apply insert_new_chain; auto.
      + apply insert_new_distinct; auto.
    - intros e. apply in_tbl_set_some; auto.
  Qed.


  (* overwrite the entry stored under a present probe key *)
  Lemma replace_present m q e0 e : Inv m -> q < hcap m -> get (hm_slots m) q = Some e0 -> ek e = ek e0 ->
    let m' := {| hm_slots := set (hm_slots m) q (Some e); hm_count := hm_count m |} in
    Inv m' /\ hcap m' = hcap m /\ (forall e', Ent m' e' <-> (e' = e \/ (Ent m e' /\ ek e' <> ek e0))).
  Proof.
    intros (Hn & Hcnt & Hlt & HC & HD) Hq Hg Hke. unfold hcap in *.
    assert (Hlen : length (set (hm_slots m) q (Some e)) = length (hm_slots m)) by apply set_length.
    cbn zeta. unfold Inv, Ent, hcap. cbn [hm_slots hm_count]. rewrite Hlen.
    split; [|split; [reflexivity|]].
    - split; [exact Hn|]. split; [erewrite occ_set_replace; [exact Hcnt | exact Hq | exact Hg]|].
      split; [exact Hlt|]. split.
      + eapply replace_chain; eauto.
      + eapply replace_distinct; eauto.
    - intros e'. eapply in_tbl_replace; eauto.
  Qed.

  Theorem insert_h_spec m h k v ok : Inv m ->
    match lookup m (h, k) with
    | Some e0 =>
        exists m', insert_h keqb home needs_grow new_cap m h k v ok
                   = (Ok m', ([e_key e0], [e_val e0])) /\
          Inv m' /\ hcap m' = hcap m /\ hm_count m' = hm_count m /\
          (forall e, Ent m' e <-> (e = mk h k v \/ (Ent m e /\ ek e <> (h, k))))
    | None =>
        (ok = false /\ insert_h keqb home needs_grow new_cap m h k v ok = (AllocErr, ([k], [v]))) \/
        (exists m', insert_h keqb home needs_grow new_cap m h k v ok = (Ok m', ([], [])) /\
          Inv m' /\ hm_count m' = S (hm_count m) /\
          (forall e, Ent m' e <-> (e = mk h k v \/ Ent m e)))
    end.
  Proof.
    intros HI.
    destruct (hfind_spec h k HI) as [q [Hq [Hf [[e0 [Hg Hk]]|[Hnone [Habs Hocc]]]]]].
    - (* replace *)
      rewrite (lookup_find _ _ _ Hf), Hg. unfold insert_h. rewrite Hf, Hg.
      eexists. split; [reflexivity|].
      destruct HI as (Hn & Hcnt & Hlt & HC & HD). unfold hcap in *.
      assert (Hlen : length (set (hm_slots m) q (Some (mk h k v))) = length (hm_slots m)) by apply set_length.
      assert (Hke : ek (mk h k v) = ek e0) by (rewrite Hk; reflexivity).
      unfold Inv, Ent, hcap. cbn [hm_slots hm_count]. fold (mk h k v). rewrite Hlen.
      split; [|split; [reflexivity|split; [reflexivity|]]].
      + split; [exact Hn|]. split; [erewrite occ_set_replace; [exact Hcnt | exact Hq | exact Hg]|].
        split; [exact Hlt|]. split.
        * eapply replace_chain; eauto.
        * eapply replace_distinct; eauto.
      + intros e. rewrite <- Hk. eapply in_tbl_replace; eauto.
    - (* new key *)
      rewrite (lookup_find _ _ _ Hf), Hnone. unfold insert_h. rewrite Hf, Hnone.
      destruct (needs_grow (S (hm_count m)) (hcap m)) eqn:Hng.
      + unfold grow. destruct ok.
        * right.
          assert (Hc : hm_count m < new_cap (hcap m)).
          { destruct HI as (_ & _ & Hlt & _). pose proof (new_cap_gt (hcap m)). lia. }
          destruct (adjust_spec HI Hc) as [m1 [Ha [HI1 [Hcap1 [Hcnt1 Hent1]]]]].
          rewrite Ha.
          assert (Habs1 : forall e, Ent m1 e -> ek e <> (h, k)).
          { intros e He. apply Habs. apply Hent1. exact He. }
          assert (Hroom : S (hm_count m1) < hcap m1).
          { rewrite Hcnt1, Hcap1. destruct HI as (_ & _ & Hlt & _). pose proof (new_cap_gt (hcap m)). lia. }
          destruct (insert_fresh v HI1 Habs1 Hroom) as [q1 [Hf1 [_ [HI' [_ Hent']]]]].
          rewrite Hf1. eexists. split; [reflexivity|]. split; [exact HI'|].
          split; [cbn; lia|]. intros e. rewrite Hent', Hent1. reflexivity.
        * left. split; [reflexivity|]. rewrite adjust_fail. reflexivity.
      + right. apply ng_lt in Hng.
        destruct (insert_fresh v HI Habs Hng) as [q1 [Hf1 [_ [HI' [_ Hent']]]]].
        assert (q1 = q) by congruence. subst q1.
        eexists. split; [reflexivity|]. split; [exact HI'|]. split; [reflexivity|exact Hent'].
  Qed.

  Corollary insert_h_total m h k v : Inv m ->
    exists m', insert_h keqb home needs_grow new_cap m h k v true = (Ok m', snd (insert_h keqb home needs_grow new_cap m h k v true))
               /\ Inv m'.
  Proof.
    intros HI. pose proof (insert_h_spec h k v true HI) as P.
    destruct (lookup m (h, k)) as [e0|].
    - destruct P as [m' [E [HI' _]]]. exists m'. rewrite E. auto.
    - destruct P as [[Hc _]|[m' [E [HI' _]]]]; [discriminate|]. exists m'. rewrite E. auto.
  Qed.

  (* ---------- removal ---------- *)
  Lemma occ_same n (t1 t2 : list (option entry)) : length t1 = n -> length t2 = n ->
    DistinctN n t1 -> DistinctN n t2 -> (forall e, In_tbl n t1 e <-> In_tbl n t2 e) -> occ t1 = occ t2.
  Proof.
    intros L1 L2 D1 D2 Hsame. unfold occ.
    apply Permutation_length. apply NoDup_Permutation.
    - eapply NoDup_map_inv. apply (distinct_nodup ek). rewrite L1. exact D1.
    - eapply NoDup_map_inv. apply (distinct_nodup ek). rewrite L2. exact D2.
    - intros e. rewrite !(in_contents ek). rewrite L1, L2. apply Hsame.
  Qed.

  Theorem remove_h_spec m h k : Inv m ->
    match lookup m (h, k) with
    | Some e0 =>
        exists m', remove_h keqb home m h k = (Ok (m', Some (e_val e0)), ([e_key e0], [])) /\
          Inv m' /\ hcap m' = hcap m /\ S (hm_count m') = hm_count m /\
          (forall e, Ent m' e <-> (Ent m e /\ ek e <> (h, k)))
    | None => remove_h keqb home m h k = (Ok (m, None), ([], []))
    end.
  Proof.
    intros HI.
    destruct (hfind_spec h k HI) as [q [Hq [Hf [[e0 [Hg Hk]]|[Hnone [Habs Hocc]]]]]].
    - rewrite (lookup_find _ _ _ Hf), Hg. unfold remove_h. rewrite Hf, Hg.
      destruct (inv_has_empty HI) as [z [Hz Hez]].
      destruct HI as (Hn & Hcnt & Hlt & HC & HD). unfold hcap in *.
      destruct (remove_at_correct phome_lt Hn eq_refl HC HD Hq Hg Hz Hez)
        as [t' [Hb [HC' [HD' [Hl' Hin']]]]].
      rewrite Hb. eexists. split; [reflexivity|].
      assert (Hocc' : S (occ t') = occ (hm_slots m)).
      { assert (Ho1 : S (occ (set (hm_slots m) q None)) = occ (hm_slots m)) by (eapply occ_set_none; eauto).
        rewrite <- Ho1. f_equal.
        apply (@occ_same (length (hm_slots m))); auto.
        - apply set_length.
        - intros p1 p2 e1 e2 Hp1 Hp2 H1 H2 Hke.
          destruct (Nat.eq_dec q p1) as [->|N1]; [rewrite get_set_eq in H1 by lia; discriminate|].
          destruct (Nat.eq_dec q p2) as [->|N2]; [rewrite get_set_eq in H2 by lia; discriminate|].
          rewrite get_set_ne in H1, H2 by assumption. eapply HD; eauto.
        - intros e. rewrite Hin'. symmetry. apply (in_tbl_set_none Hn eq_refl Hq Hg HD). }
      unfold Inv, Ent, hcap. cbn [hm_slots hm_count]. rewrite Hl'.
      split; [|split; [reflexivity|split]].
      + split; [exact Hn|]. split; [lia|]. split; [lia|]. split; assumption.
      + lia.
      + intros e. rewrite Hin', Hk. reflexivity.
    - rewrite (lookup_find _ _ _ Hf), Hnone. unfold remove_h. rewrite Hf, Hnone. reflexivity.
  Qed.

  (* ---------- the abstraction commutes with the operations ---------- *)
  Lemma lookup_ext m1 m2 : Inv m1 -> Inv m2 -> (forall e, Ent m1 e <-> Ent m2 e) ->
    forall k, lookup m1 k = lookup m2 k.
  Proof.
    intros H1 H2 Hsame k. destruct (lookup m2 k) as [e|] eqn:E.
    - apply lookup_ent; auto. apply lookup_ent in E; auto. rewrite Hsame. exact E.
    - apply lookup_none; auto. intros e He. apply (proj1 (lookup_none k H2) E). apply Hsame. exact He.
  Qed.

  Lemma lookup_after_insert m m' h k v : Inv m -> Inv m' ->
    (forall e, Ent m' e <-> (e = mk h k v \/ (Ent m e /\ ek e <> (h, k)))) ->
    forall k', lookup m' k' = if pkeqb k' (h, k) then Some (mk h k v) else lookup m k'.
  Proof.
    intros HI HI' Hent k'. destruct (pkeqb_spec k' (h, k)) as [->|Hne].
    - apply lookup_ent; auto. split; [apply Hent; left; reflexivity|reflexivity].
    - destruct (lookup m k') as [e|] eqn:E.
      + apply lookup_ent in E; auto. destruct E as [He Hk]. apply lookup_ent; auto.
        split; [|exact Hk]. apply Hent. right. split; [exact He|congruence].
      + apply lookup_none; auto. intros e He. apply Hent in He. destruct He as [->|[He _]].
        * unfold HashMap.ek, mk. cbn [e_hash e_key]. intro Hc. apply Hne. symmetry. exact Hc.
        * apply (proj1 (lookup_none k' HI) E). exact He.
  Qed.

  Lemma lookup_after_remove m m' kk : Inv m -> Inv m' ->
    (forall e, Ent m' e <-> (Ent m e /\ ek e <> kk)) ->
    forall k', lookup m' k' = if pkeqb k' kk then None else lookup m k'.
  Proof.
    intros HI HI' Hent k'. destruct (pkeqb_spec k' kk) as [->|Hne].
    - apply lookup_none; auto. intros e He. apply Hent in He. tauto.
    - destruct (lookup m k') as [e|] eqn:E.
      + apply lookup_ent in E; auto. destruct E as [He Hk]. apply lookup_ent; auto.
        split; [|exact Hk]. apply Hent. split; [exact He|congruence].
      + apply lookup_none; auto. intros e He. apply Hent in He. destruct He as [He _].
        apply (proj1 (lookup_none k' HI) E). exact He.
  Qed.

  (* length = number of distinct stored keys; iteration lists each entry exactly once *)
  Theorem iter_spec m : Inv m ->
    NoDup (map ek (contents (hm_slots m))) /\ length (contents (hm_slots m)) = hm_count m /\
    (forall e, In e (contents (hm_slots m)) <-> lookup m (ek e) = Some e).
  Proof.
    intros HI. pose proof HI as (Hn & Hcnt & Hlt & HC & HD). split; [|split].
    - apply distinct_nodup. exact HD.
    - unfold occ in Hcnt. lia.
    - intros e. rewrite <- ent_contents. rewrite (lookup_ent (ek e) e HI). tauto.
  Qed.

  (* ---------- get_mut, entry, clear, clone ---------- *)
  Theorem get_mut_set_spec m k v : Inv m ->
    match lookup m (hashfn k, k) with
    | Some e0 =>
        exists m', get_mut_set keqb hashfn home m k v = (Ok (m', true), ([], [e_val e0])) /\
          Inv m' /\ hcap m' = hcap m /\ hm_count m' = hm_count m /\
          (forall e, Ent m' e <-> (e = mk (e_hash e0) (e_key e0) v \/ (Ent m e /\ ek e <> (hashfn k, k))))
    | None => get_mut_set keqb hashfn home m k v = (Ok (m, false), ([], []))
    end.
  Proof.
    intros HI.
    destruct (hfind_spec (hashfn k) k HI) as [q [Hq [Hf [[e0 [Hg Hk]]|[Hnone _]]]]].
    - rewrite (lookup_find _ _ _ Hf), Hg. unfold get_mut_set. rewrite Hf, Hg.
      eexists. split; [reflexivity|].
      destruct HI as (Hn & Hcnt & Hlt & HC & HD). unfold hcap in *.
      fold (mk (e_hash e0) (e_key e0) v).
      assert (Hlen : length (set (hm_slots m) q (Some (mk (e_hash e0) (e_key e0) v))) = length (hm_slots m))
        by apply set_length.
      assert (Hke : ek (mk (e_hash e0) (e_key e0) v) = ek e0) by reflexivity.
      unfold Inv, Ent, hcap. cbn [hm_slots hm_count]. rewrite Hlen.
      split; [|split; [reflexivity|split; [reflexivity|]]].
      + split; [exact Hn|]. split; [erewrite occ_set_replace; [exact Hcnt | exact Hq | exact Hg]|].
        split; [exact Hlt|]. split.
        * eapply replace_chain; eauto.
        * eapply replace_distinct; eauto.
      + intros e. rewrite <- Hk. eapply in_tbl_replace; eauto.
    - rewrite (lookup_find _ _ _ Hf), Hnone. unfold get_mut_set. rewrite Hf, Hnone. reflexivity.
  Qed.

  Theorem entry_op_spec m k ins ok : Inv m ->
    let h := hashfn k in
    match lookup m (h, k) with
    | Some e0 => entry_op keqb hashfn home needs_grow new_cap m k ins ok = (Ok (m, Some (e_val e0)), ([k], []))
    | None =>
        (ok = false /\ entry_op keqb hashfn home needs_grow new_cap m k ins ok = (AllocErr, ([k], []))) \/
        match ins with
        | None => exists m', entry_op keqb hashfn home needs_grow new_cap m k ins ok = (Ok (m', None), ([k], [])) /\
                    Inv m' /\ hm_count m' = hm_count m /\ (forall e, Ent m' e <-> Ent m e)
        | Some v => exists m', entry_op keqb hashfn home needs_grow new_cap m k ins ok = (Ok (m', Some v), ([], [])) /\
                    Inv m' /\ hm_count m' = S (hm_count m) /\
                    (forall e, Ent m' e <-> (e = mk h k v \/ Ent m e))
        end
    end.
  Proof.
    intros HI h.
    destruct (hfind_spec h k HI) as [q [Hq [Hf [[e0 [Hg Hk]]|[Hnone [Habs Hocc]]]]]].
    - rewrite (lookup_find _ _ _ Hf), Hg. unfold entry_op. fold h. rewrite Hf, Hg. reflexivity.
    - rewrite (lookup_find _ _ _ Hf), Hnone. unfold entry_op. fold h. rewrite Hf, Hnone.
      assert (G : (ok = false /\ (if needs_grow (S (hm_count m)) (hcap m) then grow keqb home new_cap m ok else Ok m) = AllocErr) \/
                  exists m1, (if needs_grow (S (hm_count m)) (hcap m) then grow keqb home new_cap m ok else Ok m) = Ok m1 /\
                    Inv m1 /\ hm_count m1 = hm_count m /\ S (hm_count m1) < hcap m1 /\ (forall e, Ent m1 e <-> Ent m e)).
      { destruct (needs_grow (S (hm_count m)) (hcap m)) eqn:Hng.
        - unfold grow. destruct ok.
          + right.
            assert (Hc : hm_count m < new_cap (hcap m)).
            { destruct HI as (_ & _ & Hlt & _). pose proof (new_cap_gt (hcap m)). lia. }
            destruct (adjust_spec HI Hc) as [m1 [Ha [HI1 [Hcap1 [Hcnt1 Hent1]]]]].
            exists m1. split; [exact Ha|]. split; [exact HI1|]. split; [exact Hcnt1|]. split; [|exact Hent1].
            rewrite Hcnt1, Hcap1. destruct HI as (_ & _ & Hlt & _). pose proof (new_cap_gt (hcap m)). lia.
          + left. split; [reflexivity|apply adjust_fail].
        - right. exists m. apply ng_lt in Hng. split; [reflexivity|]. split; [exact HI|]. split; [reflexivity|]. split; [exact Hng|]. intros e; reflexivity. }
      destruct G as [[Hok G]|[m1 [G [HI1 [Hcnt1 [Hroom Hent1]]]]]]; rewrite G.
      + left. split; [exact Hok|reflexivity].
      + right. destruct ins as [v|].
        * assert (Habs1 : forall e, Ent m1 e -> ek e <> (h, k)).
          { intros e He. apply Habs. apply Hent1. exact He. }
          destruct (insert_fresh v HI1 Habs1 Hroom) as [q1 [Hf1 [_ [HI' [_ Hent']]]]].
          rewrite Hf1. eexists. split; [reflexivity|]. split; [exact HI'|].
          split; [cbn; lia|]. intros e. rewrite Hent', Hent1. reflexivity.
        * exists m1. auto.
  Qed.

  Lemma clear_inv m : Inv m -> Inv (fst (clear_op m)) /\ hcap (fst (clear_op m)) = hcap m /\
    forall e, ~ Ent (fst (clear_op m)) e.
  Proof.
    intros (Hn & _). unfold clear_op, Inv, Ent, hcap in *. cbn [fst hm_slots hm_count].
    rewrite repeat_length. split; [|split; [reflexivity|]].
    - split; [exact Hn|]. split; [symmetry; apply occ_empty|]. split; [exact Hn|].
      split; [apply chain_empty|apply distinct_empty].
    - intros e. apply in_tbl_empty.
  Qed.

  Lemma new_inv c : Inv (hm_new K V c).
  Proof.
    unfold hm_new, Inv, hcap. cbn [hm_slots hm_count]. rewrite repeat_length.
    split; [lia|]. split; [symmetry; apply occ_empty|]. split; [lia|].
    split; [apply chain_empty|apply distinct_empty].
  Qed.

  Lemma clone_fill_ok : forall es m0, Inv m0 ->
    exists c, clone_fill keqb hashfn home needs_grow new_cap clone_k clone_v es m0 = Ok c /\ Inv c.
  Proof.
    induction es as [|e r IH]; intros m0 HI; cbn [clone_fill].
    - exists m0. auto.
    - destruct (insert_h_total (hashfn (clone_k (e_key e))) (clone_k (e_key e)) (clone_v (e_val e)) HI)
        as [m1 [E HI1]].
      rewrite E. cbn [fst]. apply IH. exact HI1.
  Qed.

  (* ---------- every history: the invariant is kept, no loop diverges, no assertion fires ---------- *)
  Definition good_out (o : hout K V) : Prop :=
    match o with RDiverge _ _ => False | RPanic _ _ => False | _ => True end.

  Notation step := (hm_step keqb hashfn home needs_grow new_cap clone_k clone_v).
  Notation run := (hm_run keqb hashfn home needs_grow new_cap clone_k clone_v).

  Theorem hm_step_inv m o : Inv m ->
    let '(m', out, d) := step m o in Inv m' /\ good_out out.
  Proof.
    intros HI. destruct o; cbn [hm_step].
    - (* insert *)
      pose proof (insert_h_spec (hashfn k) k v ok HI) as P.
      destruct (lookup m (hashfn k, k)).
      + destruct P as [m' [E [HI' _]]]. rewrite E. cbn. auto.
      + destruct P as [[_ E]|[m' [E [HI' _]]]]; rewrite E; cbn; auto.
    - pose proof (insert_h_spec h k v ok HI) as P.
      destruct (lookup m (h, k)).
      + destruct P as [m' [E [HI' _]]]. rewrite E. cbn. auto.
      + destruct P as [[_ E]|[m' [E [HI' _]]]]; rewrite E; cbn; auto.
    - pose proof (remove_h_spec (hashfn k) k HI) as P.
      destruct (lookup m (hashfn k, k)).
      + destruct P as [m' [E [HI' _]]]. rewrite E. cbn. auto.
      + rewrite P. cbn. auto.
    - pose proof (remove_h_spec h k HI) as P.
      destruct (lookup m (h, k)).
      + destruct P as [m' [E [HI' _]]]. rewrite E. cbn. auto.
      + rewrite P. cbn. auto.
    - rewrite (get_h_spec (hashfn k) k HI). cbn. auto.
    - rewrite (get_h_spec h k HI). cbn. auto.
    - rewrite (get_h_spec (hashfn k) k HI). cbn. auto.
    - rewrite (get_h_spec h k HI). cbn. auto.
    - pose proof (get_mut_set_spec k v HI) as P.
      destruct (lookup m (hashfn k, k)).
      + destruct P as [m' [E [HI' _]]]. rewrite E. cbn. auto.
      + rewrite P. cbn. auto.
    - pose proof (entry_op_spec k (Some v) ok HI) as P. cbn zeta in P.
      destruct (lookup m (hashfn k, k)).
      + rewrite P. cbn. auto.
      + destruct P as [[_ E]|[m' [E [HI' _]]]]; rewrite E; cbn; auto.
    - pose proof (entry_op_spec k None ok HI) as P. cbn zeta in P.
      destruct (lookup m (hashfn k, k)).
      + rewrite P. cbn. auto.
      + destruct P as [[_ E]|[m' [E [HI' _]]]]; rewrite E; cbn; auto.
    - (* reserve *)
      destruct ok.
      + assert (Hc : hm_count m < hcap m + add) by (destruct HI as (_ & _ & Hlt & _); lia).
        destruct (adjust_spec HI Hc) as [m1 [Ha [HI1 _]]]. rewrite Ha. cbn. auto.
      + rewrite adjust_fail. cbn. auto.
    - pose proof (clear_inv HI) as [H _]. destruct (clear_op m) as [m' d]. cbn in *. auto.
    - unfold clone_op. destruct (clone_fill_ok (contents (hm_slots m)) (new_inv (hcap m))) as [c [E _]].
      rewrite E. cbn. auto.
    - cbn. auto.
    - cbn. auto.
    - cbn. auto.
  Qed.

  Theorem hm_run_inv : forall ops m, Inv m ->
    let '(m', outs) := run m ops in Inv m' /\ Forall (fun x => good_out (fst x)) outs.
  Proof.
    induction ops as [|o r IH]; intros m HI; cbn [hm_run].
    - split; [exact HI|constructor].
    - pose proof (hm_step_inv o HI) as P. destruct (step m o) as [[m1 x] d].
      destruct P as [HI1 Hx]. specialize (IH m1 HI1). destruct (run m1 r) as [m2 xs].
      destruct IH as [HI2 Hxs]. split; [exact HI2|]. constructor; [exact Hx|exact Hxs].
  Qed.
End HMP.

(* a reported allocation failure leaves the map exactly as it was *)
Lemma lift_err (K V A : Type) (r : res A) (m m' : hmap K V) (f : A -> hmap K V * hout K V) :
  (forall a, snd (f a) <> RErr K V) -> lift r m f = (m', RErr K V) -> m' = m.
Proof.
  intros Hf. destruct r; cbn; intros H.
  - exfalso. apply (Hf a). rewrite H. reflexivity.
  - congruence.
  - discriminate.
  - discriminate.
Qed.

Lemma hm_step_err_unchanged (K V : Type) keqb hashfn home needs_grow new_cap clone_k clone_v
      (m : hmap K V) o :
  let '(m', out, d) := hm_step keqb hashfn home needs_grow new_cap clone_k clone_v m o in
  out = RErr K V -> m' = m.
Proof.
  assert (L : forall A (r : res A) f, (forall a, snd (f a) <> RErr K V) ->
              forall d : drops K V, let '(m', out, _) := (lift r m f, d) in out = RErr K V -> m' = m).
  { intros A r f Hf d. destruct (lift r m f) as [m' out] eqn:E. intros ->. eapply lift_err; eauto. }
  destruct o; cbn [hm_step].
  - destruct (insert_h keqb home needs_grow new_cap m (hashfn k) k v ok) as [r d]. apply L; [intros a; cbn; discriminate | exact (nil, nil)].
  - destruct (insert_h keqb home needs_grow new_cap m h k v ok) as [r d]. apply L; [intros a; cbn; discriminate | exact (nil, nil)].
  - destruct (remove_h keqb home m (hashfn k) k) as [r d]. apply L; [intros a; cbn; discriminate | exact (nil, nil)].
  - destruct (remove_h keqb home m h k) as [r d]. apply L; [intros a; cbn; discriminate | exact (nil, nil)].
  - apply L; [intros a; cbn; discriminate | exact (nil, nil)].
  - apply L; [intros a; cbn; discriminate | exact (nil, nil)].
  - apply L; [intros a; cbn; discriminate | exact (nil, nil)].
  - apply L; [intros a; cbn; discriminate | exact (nil, nil)].
  - destruct (get_mut_set keqb hashfn home m k v) as [r d]. apply L; [intros a; cbn; discriminate | exact (nil, nil)].
  - destruct (entry_op keqb hashfn home needs_grow new_cap m k (Some v) ok) as [r d]. apply L; [intros a; cbn; discriminate | exact (nil, nil)].
  - destruct (entry_op keqb hashfn home needs_grow new_cap m k None ok) as [r d]. apply L; [intros a; cbn; discriminate | exact (nil, nil)].
  - apply L; [intros a; cbn; discriminate | exact (nil, nil)].
  - destruct (clear_op m) as [m' d]. discriminate.
  - destruct (clone_op keqb hashfn home needs_grow new_cap clone_k clone_v m); reflexivity.
  - discriminate.
  - discriminate.
  - discriminate.
Qed.
