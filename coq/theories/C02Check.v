(* Executable checker for C02: collection cases (collector model vs. the real collector) and
   forced-collection schedule cases, whose verdict (heap audit after every collection, outcome and
   globals equal to the run without forced collections) is computed by the harness.

   Allocation-point cases (AllocSegCase): ties VmAllocPoints.alloc_points - the hand transcription of where each
   instruction of the VM calls the allocator - to the crate.  The harness (harness/src/c02.rs, alloc_segments) runs a
   compiled straight-line program whose instructions of interest are separated by calls of the native `log1` (the
   mark), records every call of CaoLangAllocator::alloc (verif-hooks allocation events) and attributes the calls to
   the segment between two marks.  An observed call is classified from its layout alone: 0 = AObject (size and
   alignment of a CaoLangObject header), 1 = ASecond (a character buffer - alignment 4 - or a hash part of
   capacity 8, the one init_table creates), 2 = AGrow (a hash part of a larger capacity).  The checker runs Vm.v
   over the same program, collects `map ap_kind (alloc_points ...)` of every instruction it dispatches, cut at the
   same marks (a CallNative of `log1`), and compares per segment.
   AGrow points are CONDITIONAL (the model of a table has no capacity): the comparison is "equal after removing
   AGrow points that did not fire" - every observed call must be matched, in order, by a point of the same kind,
   every AObject / ASecond point must be observed, an AGrow point may be skipped.  That the AGrow points fire at the
   right entries is checked separately and independently of the model by [grow_sizes_ok]: the sizes of the observed
   hash parts of ONE table filled by a program (stream `alloc_points.grow`) are 40 * 8, 40 * 12, 40 * 18, ... and
   the growth happens in the segments of the 6th, 9th, 13th ... new key (count + 1 > 0.7 * capacity).
   Codes: 1 = the sequences of a segment differ / the number of segments differs, 2 = the growth steps are not at the
   expected entries, 3 = the model does not run the program to Exit (error, abort, out of budget). *)
From Cao Require Export C05Check.
From Cao Require Import Bits Vm VmFloat VmGcRoots VmAllocPoints.
Local Open Scope N_scope.

Inductive c02case :=
| GcCase2 (objs : list (N * N * list N)) (roots : list N) (after : list (N * N))
| SchedCase (prog nalloc : N) (forced : option (list N)) (same audits_ok final_ok : bool)
| AllocSegCase (P : Vm.program) (budget : N) (segs : list (list (N * N)))
    (* per segment the observed calls of alloc in order: (kind 0/1/2, size) *)
| GrowCase (entries : list (list (N * N))).
    (* one table: per inserted NEW key (in order, the first is the 1st entry) the observed calls of alloc *)

Definition approg (code data : list N) (labels ids : list (N * N)) (names : list (N * list N))
           (trace : list (N * N)) : Vm.program := Vm.mkProgram code data labels ids names trace.

Definition kind_code (k : akind) : N := match k with AObject => 0 | ASecond => 1 | AGrow => 2 end.

(* the mark: CallNative of the menu native log1 (no allocation point, no effect on the heap) *)
Definition is_mark (P : Vm.program) (ip0 : N) : bool :=
  match nth (N.to_nat ip0) (Vm.p_code P) 255 with
  | 4 => match read_le (Vm.p_code P) (ip0 + 1) 4 with
         | Some h => h =? handle_of_bytes Vm.name_log1
         | None => false
         end
  | _ => false
  end.

(* the dispatch loop of Vm.loop (same bookkeeping, same [step]) that also collects the kinds of the allocation points
   of every instruction, cut at the marks; None = the run does not end with Exit *)
Fixpoint seg_loop (P : Vm.program) (fuel : nat) (ip : N) (s : Vm.state) (cur : list N) (acc : list (list N))
  : option (list (list N)) :=
  if Vm.code_len P <=? ip then None
  else
    match fuel with
    | O => None
    | S f =>
        let s1 := Vm.tick (Vm.set_rem s (N.pred (Vm.st_rem s))) in
        let pts := map (fun p => kind_code (ap_kind p)) (alloc_points flocq_ops P ip s1) in
        match Vm.step flocq_ops Vm.Debug P Vm.no_reenter ip s1 with
        | Vm.SNext ip' s' =>
            if is_mark P ip then seg_loop P f ip' s' [] (acc ++ [cur ++ pts])
            else seg_loop P f ip' s' (cur ++ pts) acc
        | Vm.SExit _ => Some (acc ++ [cur ++ pts])
        | _ => None
        end
    end.

Definition model_segments (P : Vm.program) (budget : N) : option (list (list N)) :=
  match Vm.push_frame Vm.fresh_state (Vm.mkFrame 0 0 0 None) with
  | None => None
  | Some s1 => seg_loop P (N.to_nat budget) 0 (Vm.set_rem s1 (budget + 1)) [] []
  end.

(* equal after removing AGrow points (code 2) that did not fire *)
Fixpoint kinds_match (model obs : list N) : bool :=
  match model with
  | [] => match obs with [] => true | _ => false end
  | k :: m =>
      match obs with
      | o :: os => if k =? o then kinds_match m os else (k =? 2) && kinds_match m obs
      | [] => (k =? 2) && kinds_match m []
      end
  end.

Fixpoint segs_match (model obs : list (list N)) : bool :=
  match model, obs with
  | [], [] => true
  | m :: mr, o :: or => kinds_match m o && segs_match mr or
  | _, _ => false
  end.

(* growth of one table, independent of Vm.v: capacity 8, then (cap * 3) / 2 whenever count + 1 > 0.7 * cap, i.e.
   10 * (count + 1) > 7 * cap; a hash part of capacity c is one buffer of 40 c bytes (u64 hash + two 16 byte values) *)
Fixpoint grow_ok (cap count : N) (entries : list (list (N * N))) : bool :=
  match entries with
  | [] => true
  | e :: r =>
      if 7 * cap <? 10 * (count + 1) then
        let cap' := (N.max cap 2 * 3) / 2 in
        match e with
        | [(2, sz)] => (sz =? 40 * cap') && grow_ok cap' (count + 1) r
        | _ => false
        end
      else match e with [] => grow_ok cap (count + 1) r | _ => false end
  end.

Notation GcCase := GcCase2.

Definition check1 (c : c02case) : list N :=
  match c with
  | GcCase2 objs roots after => check_gc objs roots after
  | SchedCase _ _ _ same audits_ok final_ok => if same && audits_ok && final_ok then [] else [2]
  | AllocSegCase P budget segs =>
      match model_segments P budget with
      | None => [3]
      | Some m => if segs_match m (map (map fst) segs) then [] else [1]
      end
  | GrowCase entries => if grow_ok 8 0 entries then [] else [2]
  end.

Definition check_all := CheckUtil.check_all check1.
