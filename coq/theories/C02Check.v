(* Executable checker for C02: collection cases (collector model vs. the real collector) and
   forced-collection schedule cases, whose verdict (heap audit after every collection, outcome and
   globals equal to the run without forced collections) is computed by the harness. *)
From Cao Require Export C05Check.
Local Open Scope N_scope.

Inductive c02case :=
| GcCase2 (objs : list (N * N * list N)) (roots : list N) (after : list (N * N))
| SchedCase (prog nalloc : N) (forced : option (list N)) (same audits_ok final_ok : bool).

Notation GcCase := GcCase2.

Definition check1 (c : c02case) : list N :=
  match c with
  | GcCase2 objs roots after => check_gc objs roots after
  | SchedCase _ _ _ same audits_ok final_ok => if same && audits_ok && final_ok then [] else [2]
  end.

Definition check_all := CheckUtil.check_all check1.
