(* C15, compile-time half, part 3: from one card to the whole program.

   [GP fs s s']: between the compiler states s and s' every pushed instruction either lies in the byte range of
   a process_card run of a function of the IR stream [fs] and is attributed as in CompilerOwner.v (innermost
   run; namespace and function index of the location are those of the function: fi_ns, fi_index), or lies in
   no run at all: a function-level instruction (the scope-end Pop / CloseUpvalue, ScalarNil, Return, Exit of
   the epilogues; finding N-C15-3) - and such an instruction is never a CallFunction. *)
From Coq Require Import List NArith ZArith Bool Lia.
From Cao Require Import ListUtil CheckUtil Bits CardAst Bytecode Compiler CompilerGen Wellformed
     CompilerProofs CompilerWf CompilerTrace CompilerLabels CompilerOwner.
From Cao Require CardEdit.
Import ListNotations.
Local Open Scope N_scope.

Definition grun : Type := (function_ir * run)%type.

Definition gdeepest (gruns : list grun) (g : grun) (a : N) : Prop :=
  In g gruns /\ in_run (snd g) a /\
  forall g', In g' gruns -> in_run (snd g') a -> r_lo (snd g') <= r_lo (snd g) /\ r_hi (snd g) <= r_hi (snd g').

Definition gattr (gruns : list grun) (lo hi : N) (x : xentry) : Prop :=
  let a := fst (fst x) in let l := snd (fst x) in let b := snd x in
  lo <= a < hi /\
  ((exists f r, gdeepest gruns (f, r) a /\ own_loc (fi_ns f) (fi_index f) r l /\
                (b = true -> is_call_card (r_card r) = true /\ l = mkl (fi_ns f) (fi_index f) (r_idx r)))
   \/ ((forall g, In g gruns -> ~ in_run (snd g) a) /\ b = false)).

Definition gruns_in (fs : list function_ir) (lo hi : N) (tlo thi : list (N * loc)) (gruns : list grun) : Prop :=
  Forall (fun g => In (fst g) fs /\ run_ok (fi_cards (fst g)) (fi_ns (fst g)) (fi_index (fst g)) tlo thi (snd g) /\
                   lo <= r_lo (snd g) /\ r_lo (snd g) <= r_hi (snd g) /\ r_hi (snd g) <= hi) gruns.

Definition GP (fs : list function_ir) (s s' : cstate) : Prop :=
  cs_pc s' = bytes (cs_code s') /\ cs_pc s <= cs_pc s' /\
  (cs_pc s' <= two32 ->
   exists newx gruns,
     cs_trace s' = map fst newx ++ cs_trace s /\
     addrs (cs_code s') (cs_pc s') = map xaddr newx ++ addrs (cs_code s) (cs_pc s) /\
     gruns_in fs (cs_pc s) (cs_pc s') (cs_trace s) (cs_trace s') gruns /\
     Forall (gattr gruns (cs_pc s) (cs_pc s')) newx).

Lemma GP_same fs s s' :
  cs_pc s = bytes (cs_code s) -> cs_code s' = cs_code s -> cs_pc s' = cs_pc s -> cs_trace s' = cs_trace s ->
  GP fs s s'.
Proof.
  intros Hpc Hc Hp Ht. split; [congruence|]. split; [lia|]. intros _. exists [], [].
  cbn [map app]. rewrite Hc, Hp, Ht. repeat split; constructor.
Qed.

Lemma gruns_in_widen fs lo hi lo' hi' tlo thi tlo' thi' gruns :
  lo' <= lo -> hi <= hi' -> (exists x, tlo = x ++ tlo') -> (exists y, thi' = y ++ thi) ->
  gruns_in fs lo hi tlo thi gruns -> gruns_in fs lo' hi' tlo' thi' gruns.
Proof.
  intros H1 H2 [x Hx] [y Hy] H. unfold gruns_in in *. rewrite Forall_forall in *. intros r Hr.
  destruct (H r Hr) as (a & (ctx & s1 & s2 & q1 & q2 & q3 & q4 & q5 & q6 & q7 & [mid q8] & [later q9]) & c & d & e).
  split; [exact a|]. split; [|repeat split; lia].
  exists ctx, s1, s2. repeat (split; [assumption|]). split.
  - exists (mid ++ x). rewrite q8, Hx, app_assoc. reflexivity.
  - exists (y ++ later). rewrite Hy, q9, app_assoc. reflexivity.
Qed.

Lemma gattr_extend_r gruns more lo mid hi x :
  mid <= hi -> (forall g, In g more -> mid <= r_lo (snd g)) ->
  gattr gruns lo mid x -> gattr (gruns ++ more) lo hi x.
Proof.
  intros Hmh Hmore (Hr & H). split; [lia|]. destruct H as [(f & r & (Hin & Hir & Hd) & Ho)|(Hout & Hp)].
  - left. exists f, r. split; [|exact Ho]. split; [apply in_or_app; left; exact Hin|]. split; [exact Hir|].
    intros r' Hr' Hir'. apply in_app_or in Hr'. destruct Hr' as [Hr'|Hr']; [apply Hd; assumption|].
    specialize (Hmore r' Hr'). unfold in_run in Hir'. lia.
  - right. split; [|exact Hp]. intros r Hin. apply in_app_or in Hin. destruct Hin as [Hin|Hin]; [apply Hout, Hin|].
    specialize (Hmore r Hin). unfold in_run. lia.
Qed.
Lemma gattr_extend_l gruns more lo mid hi x :
  lo <= mid -> (forall g, In g more -> r_hi (snd g) <= mid) ->
  gattr gruns mid hi x -> gattr (more ++ gruns) lo hi x.
Proof.
  intros Hlm Hmore (Hr & H). split; [lia|]. destruct H as [(f & r & (Hin & Hir & Hd) & Ho)|(Hout & Hp)].
  - left. exists f, r. split; [|exact Ho]. split; [apply in_or_app; right; exact Hin|]. split; [exact Hir|].
    intros r' Hr' Hir'. apply in_app_or in Hr'. destruct Hr' as [Hr'|Hr']; [|apply Hd; assumption].
    specialize (Hmore r' Hr'). unfold in_run in Hir'. lia.
  - right. split; [|exact Hp]. intros r Hin. apply in_app_or in Hin. destruct Hin as [Hin|Hin]; [|apply Hout, Hin].
    specialize (Hmore r Hin). unfold in_run. lia.
Qed.

Lemma GP_trans fs s s1 s2 : GP fs s s1 -> GP fs s1 s2 -> GP fs s s2.
Proof.
  intros (Hpc1 & Hle1 & H1) (Hpc2 & Hle2 & H2). split; [exact Hpc2|]. split; [lia|].
  intros Hg. destruct (H1 ltac:(lia)) as (n1 & r1 & Ht1 & Ha1 & Hr1 & Hx1).
  destruct (H2 Hg) as (n2 & r2 & Ht2 & Ha2 & Hr2 & Hx2).
  exists (n2 ++ n1), (r1 ++ r2). rewrite !map_app, <- !app_assoc.
  split; [rewrite Ht2, Ht1; reflexivity|]. split; [rewrite Ha2, Ha1; reflexivity|]. split.
  - apply Forall_app. split.
    + eapply gruns_in_widen; [| | | |exact Hr1]; [lia | lia | exists []; reflexivity | exists (map fst n2); exact Ht2].
    + eapply gruns_in_widen; [| | | |exact Hr2]; [lia | lia | exists (map fst n1); exact Ht1 | exists []; reflexivity].
  - apply Forall_app. split.
    + eapply Forall_impl; [|exact Hx2]. intros x Hx. eapply gattr_extend_l; [exact Hle1| |exact Hx].
      intros r Hr. unfold gruns_in in Hr1. rewrite Forall_forall in Hr1. destruct (Hr1 r Hr) as (_ & _ & _ & _ & H). exact H.
    + eapply Forall_impl; [|exact Hx1]. intros x Hx. eapply gattr_extend_r; [exact Hle2| |exact Hx].
      intros r Hr. unfold gruns_in in Hr2. rewrite Forall_forall in Hr2. destruct (Hr2 r Hr) as (_ & _ & H & _). exact H.
Qed.

Lemma GP_pushed fs s i : cs_pc s = bytes (cs_code s) -> is_callf i = false -> GP fs s (pushed s i).
Proof.
  intros Hpc Hc. unfold GP, pushed.
  cbn [cs_pc cs_code cs_trace set_code set_trace]. fold (spanN i). pose proof (spanN_pos i) as Hsp.
  split; [cbn [bytes]; lia|]. split; [lia|].
  intros Hg. exists [((cs_pc s mod two32, cur_loc s), false)], [].
  assert (Hm : cs_pc s mod two32 = cs_pc s) by (apply N.mod_small; lia).
  cbn [map fst app addrs]. unfold xaddr. cbn [fst snd]. rewrite Hm, Hc.
  replace (cs_pc s + spanN i - spanN i) with (cs_pc s) by lia.
  split; [reflexivity|]. split; [reflexivity|]. split; [constructor|].
  constructor; [|constructor]. split; [cbn [fst snd]; lia|]. cbn [fst snd].
  right. split; [intros r []|reflexivity].
Qed.

(* a card-level result, read at program level *)
Lemma JB_GP fs f idx ctx (m : M unit) s s' :
  In f fs -> JB (fi_cards f) idx ctx idx ctx [] m ->
  cs_idx s = idx -> at_ctx (fi_cards f) idx ctx -> cs_pc s = bytes (cs_code s) ->
  cs_ns s = fi_ns f -> cs_fn s = fi_index f ->
  m s = ROk tt s' ->
  GP fs s s' /\ cs_idx s' = idx /\ cs_fn s' = cs_fn s /\ cs_ns s' = cs_ns s.
Proof.
  intros Hf HJ Hi Hat Hpc Hns Hfn Hm. specialize (HJ s Hi Hat Hpc). rewrite Hm in HJ.
  destruct HJ as (h1 & h2 & h3 & h4 & h5 & h6 & H). repeat split; auto.
  intros Hg. destruct (H Hg) as (n & runs & Ht & Ha & Hr & Hx). rewrite Hns, Hfn in Hr, Hx.
  exists n, (map (pair f) runs). split; [exact Ht|]. split; [exact Ha|]. split.
  - unfold gruns_in, runs_in in *. rewrite Forall_forall in *. intros g Hg'. apply in_map_iff in Hg'.
    destruct Hg' as (r & <- & Hr'). cbn [fst snd]. destruct (Hr r Hr') as (q1 & q2 & q3 & q4). auto.
  - eapply Forall_impl; [|exact Hx]. intros [[a l] b] (Hrg & Hx1). split; [exact Hrg|]. cbn [fst snd] in *.
    destruct Hx1 as [(r & (Hin & Hir & Hd) & Ho)|(_ & i & mc & [] & _)].
    left. exists f, r. split; [|exact Ho]. split; [apply in_map, Hin|]. split; [exact Hir|].
    intros g' Hg' Hir'. apply in_map_iff in Hg'. destruct Hg' as (r' & <- & Hr''). cbn [snd] in *. apply Hd; assumption.
Qed.

(* ------------------------------------------------------------------ the cards of one function *)
Section Prog.
  Variable fs : list function_ir.

  Lemma process_cards_gp f : In f fs -> forall rest done s s',
    fi_cards f = done ++ rest ->
    (length (cs_idx s) <= 1)%nat -> cs_ns s = fi_ns f -> cs_fn s = fi_index f -> cs_pc s = bytes (cs_code s) ->
    process_cards rest (N.of_nat (length done)) s = ROk tt s' ->
    GP fs s s' /\ (length (cs_idx s') <= 1)%nat /\ cs_fn s' = cs_fn s /\ cs_ns s' = cs_ns s.
  Proof.
    intros Hf. induction rest as [|c r IH]; intros done s s' Hc Hidx Hns Hfn Hpc H; cbn [process_cards] in H.
    - injection H as <-. split; [apply GP_same; auto|]. auto.
    - unfold bind in H. cbn [pop_sub push_sub] in H.
      set (s1 := set_index (cs_fn (set_index (cs_fn s) (tl (cs_idx s)) s))
                           (N.of_nat (length done) :: cs_idx (set_index (cs_fn s) (tl (cs_idx s)) s))
                           (set_index (cs_fn s) (tl (cs_idx s)) s)) in H.
      assert (Hidx1 : cs_idx s1 = [N.of_nat (length done)]).
      { subst s1. cbn. destruct (cs_idx s) as [|x [|y t]]; cbn in *; [reflexivity | reflexivity | lia]. }
      assert (Hat : at_ctx (fi_cards f) [N.of_nat (length done)] [c]).
      { constructor. rewrite Nat2N.id, Hc, nth_error_app2, Nat.sub_diag by lia. reflexivity. }
      destruct (process_card c s1) as [[] s2| | |] eqn:E1; try discriminate.
      destruct (JB_GP fs f _ _ _ s1 s2 Hf (process_card_jb (fi_cards f) c _ [] []) Hidx1 Hat Hpc Hns Hfn E1)
        as (G1 & Hi2 & Hfn2 & Hns2).
      replace (N.of_nat (length done) + 1) with (N.of_nat (length (done ++ [c]))) in H
        by (rewrite app_length; cbn; lia).
      assert (Hpc2 : cs_pc s2 = bytes (cs_code s2)) by apply G1.
      destruct (IH (done ++ [c]) s2 s' ltac:(rewrite <- app_assoc; exact Hc) ltac:(rewrite Hi2; cbn; lia)
                   ltac:(rewrite Hns2; exact Hns) ltac:(rewrite Hfn2; exact Hfn) Hpc2 H)
        as (G2 & Hl3 & Hfn3 & Hns3).
      assert (E1f : cs_fn s1 = cs_fn s) by reflexivity. assert (E1n : cs_ns s1 = cs_ns s) by reflexivity.
      split; [|repeat split; try congruence; auto].
      eapply GP_trans; [|exact G2]. eapply GP_trans; [|exact G1].
      apply GP_same; auto.
  Qed.

  (* ---- program-level triples: P, Q are facts about cs_fn / cs_idx ---- *)
  Definition GJ {A} (P Q : cstate -> Prop) (m : M A) : Prop :=
    forall s, P s -> cs_pc s = bytes (cs_code s) ->
      match m s with ROk _ s' => Q s' /\ GP fs s s' | _ => True end.

  Definition stable (P : cstate -> Prop) : Prop :=
    forall s s', cs_fn s' = cs_fn s -> cs_idx s' = cs_idx s -> P s -> P s'.
  Definition Pf (fn : nat) (s : cstate) : Prop := cs_fn s = fn /\ (length (cs_idx s) <= 1)%nat.
  Lemma stable_Pf fn : stable (Pf fn).
  Proof. intros s s' H1 H2 [H3 H4]. split; congruence. Qed.
  Lemma stable_True : stable (fun _ => True).
  Proof. intros s s' _ _ _. exact I. Qed.

  Lemma GJ_ret {A} P (a : A) : GJ P P (ret a).
  Proof. intros s HP Hpc. cbn. split; [exact HP | apply GP_same; auto]. Qed.
  Lemma GJ_bind {A B} P Q R (m : M A) (f : A -> M B) : GJ P Q m -> (forall a, GJ Q R (f a)) -> GJ P R (bind m f).
  Proof.
    intros Hm Hf s HP Hpc. unfold bind. specialize (Hm s HP Hpc). destruct (m s) as [a s1| | |]; auto.
    destruct Hm as [HQ G1]. specialize (Hf a s1 HQ (proj1 G1)). destruct (f a s1) as [b s2| | |]; auto.
    destruct Hf as [HR G2]. split; [exact HR | eapply GP_trans; eauto].
  Qed.
  Lemma GJ_pre {A} (P P' Q : cstate -> Prop) (m : M A) : (forall s, P' s -> P s) -> GJ P Q m -> GJ P' Q m.
  Proof. intros Hi H s HP Hpc. apply (H s (Hi s HP) Hpc). Qed.
  Lemma GJ_frame3 {A} P (m : M A) : stable P -> frame3 m -> framePC m -> GJ P P m.
  Proof.
    intros HS H3 HP s Hp Hpc. specialize (H3 s). specialize (HP s). destruct (m s) as [a s'| | |]; auto.
    destruct H3 as (a1 & a2 & a3 & a4), HP as (b1 & b2). split; [apply (HS s s'); auto | apply GP_same; auto].
  Qed.
  Lemma GJ_frameW {A} (m : M A) : frame m -> GJ (fun _ => True) (fun _ => True) m.
  Proof.
    intros H s _ Hpc. specialize (H s). destruct (m s) as [a s'| | |]; auto.
    destruct H as (a1 & a2 & a3 & a4). split; [exact I | apply GP_same; auto].
  Qed.
  Lemma GJ_push_other P i : stable P -> is_callf i = false -> GJ P P (push_instr i).
  Proof.
    intros HS Hc s HP Hpc. rewrite push_instr_eq. split; [|apply GP_pushed; auto].
    apply (HS s (pushed s i)); auto.
  Qed.
  Lemma GJ_push_raws P is : stable P -> Forall (fun i => is_callf i = false) is -> GJ P P (push_raws is).
  Proof.
    intros HS Hall. induction Hall as [|i r Hi _ IH]; cbn [push_raws]; [apply GJ_ret|].
    eapply GJ_bind; [apply GJ_push_other; auto | intros _; exact IH].
  Qed.
  Lemma GJ_scope_end P : stable P -> GJ P P scope_end.
  Proof.
    intros HS s HP Hpc. unfold scope_end.
    set (ds := map_hd _ (cs_depth s)). set (rlis := pop_locals _ _). set (s1 := set_scopes _ _ _ s).
    assert (HP1 : P s1) by (apply (HS s s1); auto).
    exact (GJ_push_raws P (snd rlis) HS (pop_locals_nocallf _ _) s1 HP1 Hpc).
  Qed.
  Lemma GJ_process_leaf P i : stable P -> is_callf i = false -> GJ P P (process_leaf i).
  Proof.
    intros HS Hc. unfold process_leaf.
    eapply GJ_bind; [apply GJ_frame3; [exact HS | apply frame3_card_label | apply framePC_card_label] | intros _].
    apply GJ_push_other; auto.
  Qed.
  Lemma GJ_set_index (P : cstate -> Prop) fn idx : (length idx <= 1)%nat -> GJ P (Pf fn) (set_index_m fn idx).
  Proof.
    intros Hl s _ Hpc. cbn. split; [split; [reflexivity | exact Hl] | apply GP_same; auto].
  Qed.
  Lemma GJ_set_fh P h : stable P -> GJ P P (set_fh_m h).
  Proof. intros HS s HP Hpc. cbn. split; [apply (HS s _); auto | apply GP_same; auto]. Qed.

  Lemma GJ_process_function f : In f fs -> GJ (Pf (fi_index f)) (Pf (fi_index f)) (process_function f).
  Proof.
    intros Hf s [Hfn Hl] Hpc. unfold process_function, bind.
    set (s0 := set_fctx (fi_ns f) (fi_imports f) s).
    pose proof (frame3_add_locals (rev (fi_args f)) s0) as H3.
    pose proof (frame_add_locals (rev (fi_args f)) s0) as HW.
    destruct (add_locals (rev (fi_args f)) s0) as [[] s1| | |]; auto.
    destruct H3 as (a1 & a2 & a3 & a4), HW as (b1 & b2 & _ & _).
    destruct (process_cards (fi_cards f) 0 s1) as [[] s2| | |] eqn:E; auto.
    destruct (process_cards_gp f Hf (fi_cards f) [] s1 s2 eq_refl ltac:(rewrite a1; exact Hl)
                ltac:(rewrite a3; reflexivity) ltac:(rewrite a2; exact Hfn) ltac:(rewrite b1, b2; exact Hpc) E)
      as (G & Hl2 & Hfn2 & _).
    split; [split; [rewrite Hfn2, a2; exact Hfn | exact Hl2]|].
    eapply GP_trans; [|exact G]. apply GP_same; auto.
  Qed.

  Lemma GJ_compile_main f : In f fs -> GJ (fun _ => True) (fun _ => True) (compile_main f).
  Proof.
    intros Hf. unfold compile_main.
    eapply GJ_bind; [apply GJ_set_index; cbn; lia | intros _].
    eapply GJ_bind; [apply GJ_set_fh, stable_Pf | intros _].
    eapply GJ_bind; [apply GJ_frame3; [apply stable_Pf | apply frame3_scope_begin | apply frame_framePC, frame_scope_begin] | intros _].
    eapply GJ_bind; [apply GJ_process_function, Hf | intros _].
    eapply GJ_bind; [apply (GJ_set_index _ (fi_index f)); cbn; lia | intros _].
    eapply GJ_bind; [apply GJ_scope_end, stable_Pf | intros _].
    eapply GJ_pre; [|apply (GJ_process_leaf (fun _ => True)); [apply stable_True | reflexivity]]. intros; exact I.
  Qed.
  Lemma GJ_compile_other f : In f fs -> GJ (fun _ => True) (fun _ => True) (compile_other f).
  Proof.
    intros Hf. unfold compile_other.
    eapply GJ_bind; [apply GJ_set_index; cbn; lia | intros _].
    eapply GJ_bind; [apply GJ_set_fh, stable_Pf | intros _].
    eapply GJ_bind; [apply GJ_frame3; [apply stable_Pf | apply frame3_label_insert | apply framePC_label_insert] | intros _].
    eapply GJ_bind; [apply GJ_frame3; [apply stable_Pf | apply frame3_scope_begin | apply frame_framePC, frame_scope_begin] | intros _].
    eapply GJ_bind; [apply GJ_process_function, Hf | intros _].
    eapply GJ_bind; [apply GJ_scope_end, stable_Pf | intros _].
    eapply GJ_bind; [apply GJ_push_other; [apply stable_Pf | reflexivity] | intros _].
    eapply GJ_pre; [|apply (GJ_push_other (fun _ => True)); [apply stable_True | reflexivity]]. intros; exact I.
  Qed.
  Lemma GJ_compile_others l : incl l fs -> GJ (fun _ => True) (fun _ => True) (compile_others l).
  Proof.
    induction l as [|f r IH]; intros Hi; cbn [compile_others]; [apply GJ_ret|].
    eapply GJ_bind; [apply GJ_compile_other, Hi; left; reflexivity | intros _].
    apply IH. intros x Hx. apply Hi. right. exact Hx.
  Qed.
  Lemma GJ_stage_2 l : incl l fs -> GJ (fun _ => True) (fun _ => True) (stage_2 l).
  Proof.
    destruct l as [|f r]; intros Hi; cbn [stage_2]; [apply GJ_ret|].
    eapply GJ_bind; [apply GJ_compile_main, Hi; left; reflexivity | intros _].
    apply GJ_compile_others. intros x Hx. apply Hi. right. exact Hx.
  Qed.
  Lemma GJ_compile_ir : GJ (fun _ => True) (fun _ => True) (compile_ir fs).
  Proof.
    unfold compile_ir. destruct fs as [|f0 r] eqn:Efs; [intros s _ _; exact I|]. rewrite <- Efs.
    eapply GJ_bind; [apply GJ_frameW, frame_stage_1 | intros _].
    eapply GJ_bind; [apply GJ_stage_2, incl_refl | intros _].
    eapply GJ_bind; [|intros _; apply GJ_push_other; [apply stable_True | reflexivity]].
    intros s _ Hpc. cbn. split; [exact I | apply GP_same; auto].
  Qed.
End Prog.

(* ------------------------------------------------------------------ the whole compilation *)
Theorem compile_ir_owner fs d s_end :
  compile_ir fs (init_state d) = ROk tt s_end ->
  cs_pc s_end = bytes (cs_code s_end) /\
  (cs_pc s_end <= two32 ->
   exists newx gruns,
     cs_trace s_end = map fst newx /\
     addrs (cs_code s_end) (cs_pc s_end) = map xaddr newx /\
     gruns_in fs 0 (cs_pc s_end) [] (cs_trace s_end) gruns /\
     Forall (gattr gruns 0 (cs_pc s_end)) newx).
Proof.
  intros H. pose proof (GJ_compile_ir fs (init_state d) I eq_refl) as HG. rewrite H in HG.
  destruct HG as (_ & Hpc & _ & HG). split; [exact Hpc|]. intros Hg.
  destruct (HG Hg) as (n & g & Ht & Ha & Hr & Hx). exists n, g.
  cbn [init_state cs_trace cs_code cs_pc addrs] in *. rewrite !app_nil_r in *. auto.
Qed.
