(* C15: the trace entries of a compiled program resolve, in the module tree, to the card that emitted the
   instruction - compile-time half (a), (b), (c) put together and joined to the run-time theorem
   (C15Proofs.error_trace_shape).

   (b) every function of the IR stream is a function of the tree (with `std` injected): its namespace designates
       a submodule (C15Check.module_at, the checker's model of "namespace -> submodule path"), its function index
       is its position in that submodule's function list, and it has the cards of that function; hence the
       index of a process_card run resolves, through CardEdit.get_card on that submodule, to the card of the run.
   (a), (c) from CompilerOwnerProg.compile_ir_owner. *)
From Coq Require Import List NArith ZArith Bool Lia.
From Cao Require Import ListUtil CheckUtil Bits CardAst Bytecode Compiler CompilerGen StdlibGen Wellformed
     CompilerProofs CompilerWf CompilerTrace CompilerLabels CompilerOwner CompilerOwnerProg
     ResolveSpec CompilerResolve ResolveProofs ResolveTree.
From Cao Require CardEdit C15Check Vm C15Link C15Proofs.
Import ListNotations.
Local Open Scope N_scope.

(* ------------------------------------------------------------------ (b) the IR stream and the tree *)
Lemma str_eqb_sym a b : str_eqb a b = str_eqb b a.
Proof.
  destruct (str_eqb a b) eqn:E1, (str_eqb b a) eqn:E2; auto.
  - apply str_eqb_eq in E1. subst. rewrite str_eqb_refl in E2. discriminate.
  - apply str_eqb_eq in E2. subst. rewrite str_eqb_refl in E1. discriminate.
Qed.

Lemma module_at_find : forall p m, C15Check.module_at m p = find_module m p.
Proof.
  induction p as [|x p IH]; intros [subs funs imps]; [reflexivity|].
  rewrite find_module_cons. cbn [C15Check.module_at m_submodules].
  induction subs as [|[n sub] r IHr]; cbn [sm_find find_sub]; [reflexivity|].
  rewrite str_eqb_sym. change (str_eqb n x) with (seq_eqb n x).
  destruct (seq_eqb n x); [apply IH | exact IHr].
Qed.

Lemma with_std_same M : C15Check.with_std M = ResolveSpec.with_std std_module M.
Proof. destruct M; reflexivity. Qed.

Definition fn_at (m : module) (base rel : list str) (f : function_ir) : Prop :=
  exists sub fn, fi_ns f = base ++ rel /\ find_module m rel = Some sub /\
                 nth_error (m_functions sub) (fi_index f) = Some (fi_name f, fn) /\ f_cards fn = fi_cards f.

Lemma flatten_functions_idx : forall funs fid ns imports out n out' n',
  flatten_functions funs fid ns imports out n = inr (out', n') ->
  exists irs, out' = rev irs ++ out /\
    Forall (fun f => fi_ns f = ns /\ (fid <= fi_index f)%nat /\
                     exists fn, nth_error funs (fi_index f - fid) = Some (fi_name f, fn) /\ f_cards fn = fi_cards f) irs.
Proof.
  induction funs as [|[name fn] r IH]; intros fid ns imports out n out' n' H; cbn [flatten_functions] in H.
  - injection H as <- _. exists []. split; [reflexivity | constructor].
  - destruct (negb (is_name_valid name)); [discriminate|].
    destruct (IH _ _ _ _ _ _ _ H) as (irs & -> & Hall).
    eexists (_ :: irs). cbn [rev]. rewrite <- app_assoc. cbn [app]. split; [reflexivity|].
    constructor.
    + cbn [fi_ns fi_index fi_name fi_cards]. split; [reflexivity|]. split; [lia|]. exists fn.
      rewrite Nat.sub_diag. auto.
    + eapply Forall_impl; [|exact Hall]. intros f (h1 & h2 & fn' & h3 & h4). split; [exact h1|]. split; [lia|].
      exists fn'. split; [|exact h4]. replace (fi_index f - fid)%nat with (S (fi_index f - S fid)) by lia. exact h3.
Qed.

Lemma flatten_module_idx m : forall limit ns out n out' n',
  flatten_module m limit ns out n = inr (out', n') -> ensure_invariants m = None ->
  exists irs, out' = rev irs ++ out /\ Forall (fun f => exists rel, fn_at m ns rel f) irs.
Proof.
  induction m as [subs funs imps IHs] using module_ind'. intros limit ns out n out' n' H He.
  rewrite ensure_invariants_eq in He. destruct (first_dup [] (map fst subs)) eqn:Ed; [discriminate|].
  destruct (first_dup_none _ _ Ed) as [Hnd _].
  cbn [flatten_module] in H.
  destruct (limit <=? N.of_nat (length ns)); [discriminate|].
  destruct (execute_imports imps []) as [e|imports] eqn:Ei; [discriminate|].
  destruct (flatten_functions funs 0 ns imports out n) as [e|[out1 n1]] eqn:Ef; [discriminate|].
  destruct (flatten_functions_idx _ _ _ _ _ _ _ _ Ef) as (irs1 & -> & H1).
  assert (Hgo : forall subs0, incl subs0 subs ->
            forall out n out' n',
              (fix go (l : list (str * module)) (out : list function_ir) (n : N) : cerr + (list function_ir * N) :=
                 match l with
                 | [] => inr (out, n)
                 | (name, sub) :: r =>
                     match flatten_module sub limit (ns ++ [name]) out n with
                     | inl e => inl e
                     | inr (out', n') => go r out' n'
                     end
                 end) subs0 out n = inr (out', n') ->
              exists irs, out' = rev irs ++ out /\
                          Forall (fun f => exists rel, fn_at (Module subs funs imps) ns rel f) irs).
  { induction subs0 as [|[name sub] r IHr]; intros Hincl out0 n0 out0' n0' Hg.
    - injection Hg as <- _. exists []. split; [reflexivity | constructor].
    - destruct (flatten_module sub limit (ns ++ [name]) out0 n0) as [e|[o1 k1]] eqn:Efm; [discriminate|].
      assert (Hin : In (name, sub) subs) by (apply Hincl; left; reflexivity).
      pose proof (proj1 (Forall_forall _ _) IHs (name, sub) Hin) as Hsub. cbn [snd] in Hsub.
      destruct (Hsub _ _ _ _ _ _ Efm (ensure_subs_in _ _ _ He Hin)) as (ia & -> & Ha).
      destruct (IHr ltac:(intros x Hx; apply Hincl; right; exact Hx) _ _ _ _ Hg) as (ib & -> & Hb).
      exists (ia ++ ib). rewrite rev_app_distr, <- app_assoc. split; [reflexivity|].
      apply Forall_app. split; [|exact Hb].
      eapply Forall_impl; [|exact Ha]. intros f (rel & sub' & fn & q1 & q2 & q3 & q4).
      exists (name :: rel), sub', fn. split; [rewrite q1, <- app_assoc; reflexivity|].
      split; [|auto]. rewrite find_module_cons, (find_sub_nodup name rel subs sub Hnd Hin). exact q2. }
  destruct (Hgo subs (incl_refl _) _ _ _ _ H) as (irs2 & -> & H2).
  exists (irs1 ++ irs2). rewrite rev_app_distr, <- app_assoc. split; [reflexivity|].
  apply Forall_app. split; [|exact H2].
  eapply Forall_impl; [|exact H1]. intros f (h1 & _ & fn & h3 & h4).
  exists [], (Module subs funs imps), fn. rewrite app_nil_r, Nat.sub_0_r in *. auto.
Qed.

(* the function [f] of the IR stream, as a function of the module tree of [M] (with std) *)
Definition fn_in_tree (M : module) (f : function_ir) : Prop :=
  exists sub fn, C15Check.module_at (C15Check.with_std M) (fi_ns f) = Some sub /\
                 nth_error (m_functions sub) (fi_index f) = Some (fi_name f, fn) /\ f_cards fn = fi_cards f.

Theorem ir_stream_in_tree M limit fs :
  into_ir_stream M limit = inr fs -> forall f, In f fs -> fn_in_tree M f.
Proof.
  intros H f Hin. unfold fn_in_tree. rewrite with_std_same. destruct M as [subs funs imps]. rewrite with_std_eq.
  unfold into_ir_stream in H.
  destruct (ensure_invariants (Module (subs ++ [(s_std, std_module)]) funs imps)) eqn:Ee; [discriminate|].
  destruct (find_index (fun nf => str_eqb (fst nf) s_main) funs 0) as [mi|]; [|discriminate].
  destruct (flatten_module _ limit [] [] 0) as [e|[out n]] eqn:Ef; [discriminate|]. injection H as <-.
  destruct (flatten_module_idx _ _ _ _ _ _ _ Ef Ee) as (irs & -> & Hall).
  rewrite app_nil_r, rev_involutive in Hin. apply in_swap0 in Hin.
  rewrite Forall_forall in Hall. destruct (Hall f Hin) as (rel & sub & fn & q1 & q2 & q3 & q4).
  exists sub, fn. rewrite module_at_find, q1. cbn [app]. auto.
Qed.

(* ------------------------------------------------------------------ resolution of a run's index *)
Definition resolves_to (M : module) (l : loc) (c : card) : Prop :=
  exists sub, C15Check.module_at (C15Check.with_std M) (fst l) = Some sub /\
              CardEdit.get_card sub (snd l) = CardEdit.ROk c.

Lemma at_ctx_get_card M f idx c ctx :
  fn_in_tree M f -> at_ctx (fi_cards f) idx (c :: ctx) -> resolves_to M (mkl (fi_ns f) (fi_index f) idx) c.
Proof.
  intros (sub & fn & Hm & Hn & Hc) Hat. exists sub. split; [exact Hm|]. cbn [snd mkl].
  destruct (at_ctx_resolves _ _ _ Hat) as (b & path & c0 & c' & Hl & Hb & Hh & Hd). cbn in Hh. injection Hh as <-.
  apply (get_card_resolves sub (fi_index f) (fi_name f) fn _ b path c0 c Hn Hl); [rewrite Hc; exact Hb | exact Hd].
Qed.

Lemma quirk_child c : quirk c = true -> exists c1, CardEdit.get_child c (N.to_nat 1) = Some c1.
Proof. destruct c as [[] a b|? ?|[] a b c| | | | | | | | | | | | | | | | | | | |]; try discriminate; intros _; eexists; reflexivity. Qed.

(* ------------------------------------------------------------------ bytes at instruction starts *)
Lemma addrs_lt code : forall a b, In (a, b) (addrs code (bytes code)) -> a < bytes code.
Proof.
  induction code as [|i r IH]; intros a b H; [destruct H|]. cbn [addrs bytes] in *.
  pose proof (spanN_pos i). replace (spanN i + bytes r - spanN i) with (bytes r) in H by lia.
  destruct H as [E|H]; [injection E as <- _; lia|]. specialize (IH _ _ H). lia.
Qed.
Lemma addrs_byte code : forall a b, In (a, b) (addrs code (bytes code)) ->
  exists i, is_callf i = b /\ nth (N.to_nat a) (encode (rev code)) 255 = op_code (instr_op i).
Proof.
  induction code as [|i r IH]; intros a b H; [destruct H|]. cbn [addrs bytes] in H.
  pose proof (spanN_pos i). replace (spanN i + bytes r - spanN i) with (bytes r) in H by lia.
  cbn [rev]. unfold encode. rewrite flat_map_app. fold (encode (rev r)). cbn [flat_map]. rewrite app_nil_r.
  assert (Hlen : length (encode (rev r)) = N.to_nat (bytes r))
    by (rewrite encode_length, nbytes_rev, bytes_nbytes, Nat2N.id; reflexivity).
  destruct H as [E|H].
  - injection E as <- <-. exists i. split; [reflexivity|]. rewrite app_nth2 by lia. rewrite Hlen, Nat.sub_diag. reflexivity.
  - pose proof (addrs_lt _ _ _ H) as Hlt. destruct (IH _ _ H) as (j & Hj & Hn). exists j. split; [exact Hj|].
    rewrite app_nth1 by lia. exact Hn.
Qed.
Lemma op_code_call i : op_code (instr_op i) = 11 <-> is_callf i = true.
Proof. destruct i; cbn; split; intros H; try discriminate H; reflexivity. Qed.

(* ------------------------------------------------------------------ the compile-time theorem *)
(* the ghost: the process_card runs of a compilation, each an execution on a card of a function of the tree and a
   part of this compilation: what its end state has recorded is a suffix of the final trace (in emission order:
   rev (p_trace B), newest first) *)
Definition gruns_real (M : module) (o : options) (B : compiled) (gruns : list grun) : Prop :=
  exists fs, into_ir_stream M (o_recursion_limit o) = inr fs /\
             gruns_in fs 0 (N.of_nat (length (p_bytecode B))) [] (rev (p_trace B)) gruns /\
             forall f, In f fs -> fn_in_tree M f.

Definition byte_at (B : compiled) (a : N) : N := nth (N.to_nat a) (p_bytecode B) 255.

(* what the location [l] recorded for address [a] designates *)
Definition entry_resolves (M : module) (B : compiled) (gruns : list grun) (a : N) (l : loc) : Prop :=
  (exists f r, gdeepest gruns (f, r) a /\ fst l = fi_ns f /\ ci_function (snd l) = fi_index f /\
      (resolves_to M l (r_card r) \/
       (quirk (r_card r) = true /\ exists c1, CardEdit.get_child (r_card r) 1 = Some c1 /\ resolves_to M l c1)) /\
      (byte_at B a = 11 -> is_call_card (r_card r) = true /\ resolves_to M l (r_card r)))
  \/ ((forall g, In g gruns -> ~ in_run (snd g) a) /\ byte_at B a <> 11).

Theorem compile_trace_resolves M o B :
  compile M o = COk B -> N.of_nat (length (p_bytecode B)) <= two32 ->
  exists gruns, gruns_real M o B gruns /\
    forall a l, In (a, l) (p_trace B) -> entry_resolves M B gruns a l.
Proof.
  unfold compile. intros H Hsz.
  destruct (into_ir_stream M (o_recursion_limit o)) as [e|fs] eqn:Eir; [discriminate|].
  destruct (compile_ir fs (init_state (o_debug o))) as [[] s|? ?| |] eqn:Ec; try discriminate.
  injection H as <-. cbn [finish p_bytecode p_trace] in *.
  destruct (compile_ir_owner fs _ _ Ec) as (Hpc & HG).
  assert (Hlen : N.of_nat (length (encode (rev (cs_code s)))) = cs_pc s) by (symmetry; apply pc_encoded_length, Hpc).
  rewrite Hlen in Hsz. destruct (HG Hsz) as (newx & gruns & Ht & Ha & Hr & Hx).
  pose proof (ir_stream_in_tree _ _ _ Eir) as Htree.
  exists gruns. split; [exists fs; unfold finish; cbn [p_bytecode p_trace]; rewrite Hlen, rev_involutive; auto|].
  intros a l Hin. apply in_rev in Hin. rewrite Ht in Hin. apply in_map_iff in Hin.
  destruct Hin as ([[a' l'] b] & E & Hin). cbn [fst] in E. injection E as -> ->.
  rewrite Forall_forall in Hx. destruct (Hx _ Hin) as (_ & Hat). cbn [fst snd] in Hat.
  assert (Hab : In (a, b) (addrs (cs_code s) (cs_pc s))) by (rewrite Ha; apply in_map_iff; exists ((a, l), b); auto).
  rewrite Hpc in Hab. destruct (addrs_byte _ _ _ Hab) as (i & Hi & Hbyte).
  unfold entry_resolves, byte_at, finish. cbn [p_bytecode]. rewrite Hbyte.
  destruct Hat as [(f & r & Hd & Ho & Hcall)|(Hout & Hb)].
  - left. exists f, r. split; [exact Hd|].
    destruct Hd as (Hing & _). unfold gruns_in in Hr. rewrite Forall_forall in Hr.
    destruct (Hr _ Hing) as (Hf & (ctx & s1 & s2 & Hctx & _) & _). cbn [fst snd] in Hf, Hctx.
    pose proof (Htree f Hf) as Hft.
    assert (Hself : resolves_to M (mkl (fi_ns f) (fi_index f) (r_idx r)) (r_card r)) by (eapply at_ctx_get_card; eauto).
    assert (Hnsfn : fst l = fi_ns f /\ ci_function (snd l) = fi_index f)
      by (destruct Ho as [->|[_ ->]]; split; reflexivity).
    split; [apply Hnsfn|]. split; [apply Hnsfn|]. split.
    + destruct Ho as [->|[Hq ->]]; [left; exact Hself|]. right. split; [exact Hq|].
      destruct (quirk_child _ Hq) as [c1 Hc1]. exists c1. split; [exact Hc1|].
      eapply at_ctx_get_card; [exact Hft|]. constructor; [exact Hctx | exact Hc1].
    + intros H11. apply op_code_call in H11. rewrite Hi in H11. destruct (Hcall H11) as [q1 ->]. auto.
  - right. split; [exact Hout|]. intros H11. apply op_code_call in H11. congruence.
Qed.

Lemma entry_resolves_call M B gruns a l :
  entry_resolves M B gruns a l -> byte_at B a = 11 ->
  exists f r, gdeepest gruns (f, r) a /\ fst l = fi_ns f /\ is_call_card (r_card r) = true /\ resolves_to M l (r_card r).
Proof.
  intros [(f & r & Hd & Hns & _ & _ & Hc)|[_ Hn]] H11; [|contradiction].
  destruct (Hc H11) as [q1 q2]. exists f, r. auto.
Qed.

(* ------------------------------------------------------------------ the run-time half joined *)
Import C15Link.

(* the location that the trace of [to_vm B] holds for address [a] *)
Definition entry_at (B : compiled) (a : N) : option loc :=
  option_map (trace_loc B) (Vm.assoc a (Vm.p_trace (to_vm B))).

Lemma assoc_index_in : forall l i a id,
  Vm.assoc a (index_trace i l) = Some id -> exists k e, id = i + N.of_nat k /\ nth_error l k = Some (a, e).
Proof.
  induction l as [|[b eb] r IH]; intros i a id H; cbn [index_trace Vm.assoc] in H; [discriminate|].
  destruct (N.eqb_spec a b) as [->|Hne].
  - injection H as <-. exists 0%nat, eb. split; [cbn; lia | reflexivity].
  - destruct (IH _ _ _ H) as (k & e & -> & Hn). exists (S k), e. split; [lia | exact Hn].
Qed.
Lemma entry_at_in B a l : entry_at B a = Some l -> In (a, l) (p_trace B).
Proof.
  unfold entry_at. cbn [to_vm Vm.p_trace]. destruct (Vm.assoc a _) as [id|] eqn:E; [|discriminate].
  cbn [option_map]. intros H. injection H as <-.
  destruct (assoc_index_in _ _ _ _ E) as (k & e & -> & Hn). unfold trace_loc.
  rewrite N.add_0_l, Nat2N.id, (nth_error_nth _ _ _ Hn). cbn [snd]. eapply nth_error_In; eauto.
Qed.
Lemma map_opt_list {A B} (g : A -> B) l : map g (Vm.opt_list l) = Vm.opt_list (map (option_map g) l).
Proof. induction l as [|[x|] r IH]; cbn [Vm.opt_list map option_map]; [reflexivity | f_equal; exact IH | exact IH]. Qed.

Theorem error_trace_resolves (F : Vm.fops) (bld : Vm.build) (budget : nat) M o B s e t s' :
  compile M o = COk B -> N.of_nat (length (p_bytecode B)) <= two32 ->
  C15Proofs.frames_ok (C15Proofs.src_ok (to_vm B)) s ->
  Vm.run F bld budget (to_vm B) s = (Vm.OErr e t, s') ->
  (t = [] /\ e = Vm.ECallStackOverflow /\ Vm.push_frame s (Vm.mkFrame 0 0 0 None) = None) \/
  exists gruns a s_fail s_start s0,
    gruns_real M o B gruns /\
    map (trace_loc B) t =
      Vm.opt_list (entry_at B a :: map (fun f => entry_at B (Vm.fr_src f)) (Vm.st_calls s_fail)) /\
    (forall l, entry_at B a = Some l -> entry_resolves M B gruns a l) /\
    Forall (fun f => (Vm.fr_src f = 0 \/ byte_at B (Vm.fr_src f) = 11 \/
                      exists label, Vm.assoc label (Vm.p_labels (to_vm B)) = Some (Vm.fr_src f)) /\
                     forall l, entry_at B (Vm.fr_src f) = Some l -> entry_resolves M B gruns (Vm.fr_src f) l)
           (Vm.st_calls s_fail) /\
    Vm.push_frame s (Vm.mkFrame 0 0 0 None) = Some s_start /\
    C15Proofs.reaches F bld (to_vm B) (Vm.run_at F bld (to_vm B) false (N.of_nat budget) (pred Vm.max_depth)) 0
                      (Vm.set_rem s_start (N.of_nat budget)) a s0 /\
    C15Proofs.fails_at F bld (to_vm B) (Vm.run_at F bld (to_vm B) false (N.of_nat budget) (pred Vm.max_depth))
                       a s0 e s_fail.
Proof.
  intros Hc Hsz Hfr Hrun.
  destruct (compile_trace_resolves M o B Hc Hsz) as (gruns & Hreal & Hall).
  destruct (C15Proofs.error_trace_shape F bld budget Hfr Hrun)
    as [Hl|(a & s_fail & s_start & s0 & Ht & Hsrc & Hpf & Hre & Hfa)]; [left; exact Hl|].
  right. exists gruns, a, s_fail, s_start, s0. split; [exact Hreal|]. split.
  { rewrite Ht, map_opt_list. cbn [map]. rewrite map_map. reflexivity. }
  split; [intros l Hl; apply Hall, entry_at_in, Hl|]. split; [|auto].
  eapply Forall_impl; [|exact Hsrc]. intros f Hs. split; [exact Hs|].
  intros l Hl. apply Hall, entry_at_in, Hl.
Qed.
