(* The concrete parameters of CaoHashMap, from the generated Consts.v *)
From Coq Require Import Arith NArith.
From Cao Require Import Consts Bits F32Load.

Definition cneeds_grow : nat -> nat -> bool := needs_grow_nat hm_load_num hm_load_shift.
Definition cnew_cap (c : nat) : nat :=
  (Nat.max c (N.to_nat hm_grow_min) * N.to_nat hm_grow_mul) / N.to_nat hm_grow_div.
