(* C18, reentry_balanced for a restricted class of callees: the callee's body is straight-line code made of
   ScalarNil (7), CopyLast (9) and Pop (16) that never pops below its frame base, followed by Return (22).
   For these the missing half of C18_reentry_balanced_partial (the body keeps the caller's part of the value stack
   and the frames intact up to its Return) is proved, so run_function is balanced outright. *)
From Coq Require Import NArith ZArith List Lia Bool.
From Cao Require Import ListUtil Bits Stacks StacksProofs Vm VmWitness VmProofs VmNativeProofs.
Import ListNotations.

Set Implicit Arguments.

(* height above the frame base after the body, None = not in the class (another opcode, or a Pop at the base) *)
Fixpoint body_height (body : list N) (h : nat) : option nat :=
  match body with
  | [] => Some h
  | op :: r =>
      if (op =? 7)%N || (op =? 9)%N then body_height r (S h)
      else if (op =? 16)%N then match h with O => None | S h' => body_height r h' end
      else None
  end.

Definition cap (s : state) : nat := length (vdata (st_stack s)).

Lemma spush_full s v :
  stack_ok s -> S (length (stack_of s)) < cap s ->
  exists s', spush s v = Some s' /\ stack_ok s' /\ stack_of s' = stack_of s ++ [v] /\
             st_calls s' = st_calls s /\ st_open s' = st_open s /\ st_rem s' = st_rem s /\ cap s' = cap s.
Proof.
  intros Hok Hfit. destruct (spush_abs v Hok Hfit) as (s' & Hp & Hok' & Hs' & Hc & _ & _ & _ & Ho).
  exists s'. repeat split; auto.
  - apply spush_cnt in Hp. unfold cr in Hp. inversion Hp. reflexivity.
  - unfold spush in Hp. unfold vs_push in Hp. unfold cap.
    destruct (S (vcount (st_stack s)) <? length (vdata (st_stack s))); inversion Hp; subst s'; cbn.
    apply upd_length.
Qed.

Lemma spop_full s :
  stack_ok s ->
  exists s', fst (spop s) = s' /\ stack_ok s' /\ stack_of s' = removelast (stack_of s) /\
             st_calls s' = st_calls s /\ st_open s' = st_open s /\ st_rem s' = st_rem s /\ cap s' = cap s.
Proof.
  intros Hok. destruct (spop_abs Hok) as (s1 & E & Hok1 & Hs1 & Hc & _).
  exists s1. rewrite E. cbn [fst]. repeat split; auto.
  - unfold spop in E. destruct (vs_pop VNil (st_stack s)); inversion E; reflexivity.
  - pose proof (spop_cnt _ E) as Hcr. unfold cr in Hcr. inversion Hcr. reflexivity.
  - unfold spop, vs_pop in E. unfold cap.
    destruct (vcount (st_stack s) =? 0); inversion E; subst s1; cbn; [reflexivity|]. apply upd_length.
Qed.

Section Body.
Variable F : fops.
Variable bld : build.
Variable P : program.
Variable re0 : N -> state -> rres.

(* the caller's part [l] of the value stack, h values above it; the frames [C]; no open upvalue *)
Definition binv (l : list value) (C : list frame) (h : nat) (x : state) : Prop :=
  stack_ok x /\ st_calls x = C /\ firstn (length l) (stack_of x) = l /\
  length (stack_of x) = length l + h /\ st_open x = None.

Lemma loop_body : forall body ip x l C h h' fuel,
  binv l C h x ->
  body_height body h = Some h' ->
  (forall i, i < length body -> nth (N.to_nat ip + i) (p_code P) 255%N = nth i body 255%N) ->
  N.to_nat ip + length body <= length (p_code P) ->
  (N.of_nat (length body) + 1 <= st_rem x)%N ->
  length l + h + length body + 1 < cap x ->
  exists x',
    loop F bld P re0 (length body + fuel) ip x = loop F bld P re0 fuel (ip + N.of_nat (length body)) x' /\
    binv l C h' x' /\ st_rem x' = (st_rem x - N.of_nat (length body))%N /\ cap x' = cap x.
Proof.
  induction body as [|op body IH]; intros ip x l C h h' fuel Hinv Hh Hcode Hlen Hrem Hcap.
  - cbn [body_height] in Hh. inversion Hh; subst h'. exists x. cbn [length Nat.add N.of_nat].
    rewrite N.add_0_r, N.sub_0_r. repeat split; auto; apply Hinv.
  - cbn [length] in *. destruct Hinv as (Hok & Hc & Hpre & Hl & Ho).
    assert (Hop : nth (N.to_nat ip) (p_code P) 255%N = op).
    { specialize (Hcode 0 ltac:(lia)). rewrite Nat.add_0_r in Hcode. exact Hcode. }
    assert (Hip : (ip < code_len P)%N) by (unfold code_len; lia).
    set (x0 := tick (set_rem x (N.pred (st_rem x)))).
    assert (Hstep : exists x1, step F bld P re0 ip x0 = SNext (ip + 1)%N x1 /\
              binv l C (match body_height (op :: body) h with Some _ =>
                          if (op =? 7)%N || (op =? 9)%N then S h else h - 1 | None => h end) x1 /\
              st_rem x1 = N.pred (st_rem x) /\ cap x1 = cap x).
    { cbn [body_height] in Hh |- *. unfold step. cbv zeta. rewrite Hop.
      destruct ((op =? 7)%N || (op =? 9)%N) eqn:E79.
      - rewrite Hh.
        assert (Hfit : S (length (stack_of x0)) < cap x0).
        { change (stack_of x0) with (stack_of x). change (cap x0) with (cap x). lia. }
        apply orb_true_iff in E79. destruct E79 as [E|E]; apply N.eqb_eq in E; subst op.
        + destruct (@spush_full x0 VNil Hok Hfit) as (x1 & Hp & Hok1 & Hs1 & Hc1 & Ho1 & Hr1 & Hcap1).
          unfold push_next. rewrite Hp. exists x1. split; [reflexivity|]. repeat split; auto.
          * rewrite Hc1. exact Hc.
          * rewrite Hs1. change (stack_of x0) with (stack_of x). rewrite firstn_app.
            replace (length l - length (stack_of x)) with 0 by lia. cbn [firstn]. rewrite app_nil_r. exact Hpre.
          * rewrite Hs1, app_length. change (stack_of x0) with (stack_of x). cbn [length]. lia.
          * rewrite Ho1. exact Ho.
        + destruct (@spush_full x0 (slast x0) Hok Hfit) as (x1 & Hp & Hok1 & Hs1 & Hc1 & Ho1 & Hr1 & Hcap1).
          unfold push_next. rewrite Hp. exists x1. split; [reflexivity|]. repeat split; auto.
          * rewrite Hc1. exact Hc.
          * rewrite Hs1. change (stack_of x0) with (stack_of x). rewrite firstn_app.
            replace (length l - length (stack_of x)) with 0 by lia. cbn [firstn]. rewrite app_nil_r. exact Hpre.
          * rewrite Hs1, app_length. change (stack_of x0) with (stack_of x). cbn [length]. lia.
          * rewrite Ho1. exact Ho.
      - destruct (op =? 16)%N eqn:E16; [|discriminate Hh]. apply N.eqb_eq in E16; subst op.
        destruct h as [|h0]; [discriminate Hh|]. rewrite Hh.
        destruct (@spop_full x0 Hok) as (x1 & Hp & Hok1 & Hs1 & Hc1 & Ho1 & Hr1 & Hcap1).
        rewrite Hp. exists x1. split; [reflexivity|]. change (stack_of x0) with (stack_of x) in Hs1.
        assert (Hrl : stack_of x1 = firstn (length l + h0) (stack_of x)).
        { rewrite Hs1. rewrite removelast_firstn_len. f_equal. lia. }
        repeat split; auto.
        * rewrite Hc1. exact Hc.
        * rewrite Hrl. rewrite firstn_firstn. replace (Nat.min (length l) (length l + h0)) with (length l) by lia.
          exact Hpre.
        * rewrite Hrl, firstn_length. lia.
        * rewrite Ho1. exact Ho. }
    destruct Hstep as (x1 & Hst & Hinv1 & Hr1 & Hcap1).
    cbn [body_height] in Hh.
    assert (Hh1 : exists h1, body_height body h1 = Some h' /\ binv l C h1 x1 /\ h1 <= S h).
    { cbn [body_height] in Hinv1. destruct ((op =? 7)%N || (op =? 9)%N).
      - rewrite Hh in Hinv1. exists (S h). auto.
      - destruct (op =? 16)%N; [|discriminate Hh]. destruct h as [|h0]; [discriminate Hh|].
        rewrite Hh in Hinv1. exists h0. replace (S h0 - 1) with h0 in Hinv1 by lia.
        split; [exact Hh|split; [exact Hinv1|lia]]. }
    destruct Hh1 as (h1 & Hb1 & Hinv1' & Hle).
    destruct (IH (ip + 1)%N x1 l C h1 h' fuel Hinv1' Hb1) as (x' & Hloop & Hinv' & Hrem' & Hcap').
    + intros i Hi. replace (N.to_nat (ip + 1) + i) with (N.to_nat ip + S i) by lia.
      rewrite (Hcode (S i)) by lia. reflexivity.
    + lia.
    + rewrite Hr1. lia.
    + rewrite Hcap1. lia.
    + exists x'. split; [|split; [exact Hinv'|split]].
      * cbn [Nat.add loop].
        replace (code_len P <=? ip)%N with false by (symmetry; apply N.leb_gt; exact Hip).
        cbn [st_rem set_rem].
        replace (N.pred (st_rem x) =? 0)%N with false by (symmetry; apply N.eqb_neq; lia).
        fold x0. rewrite Hst. rewrite Hloop. f_equal. lia.
      * rewrite Hrem', Hr1. lia.
      * rewrite Hcap', Hcap1. reflexivity.
Qed.

End Body.

(* reentry_balanced for the class: a host function calls run_function on a script function / closure whose body is
   [body] (ScalarNil / CopyLast / Pop, never popping below its frame base, at least one value above the base at the
   end) followed by Return; budget and stack room suffice, no upvalue is open.  Then run_function returns a value
   and leaves exactly the caller's part  l  on the value stack and exactly the caller's frames on the call stack. *)
Theorem reentry_balanced_straightline :
  forall F bld P re0 cn (a : N) (s : state) (l args : list value) h ar ups (is_clo : bool) src
         (body : list N) (hh fuel : nat),
  let re := fun ip st => loop F bld P re0 (length body + S (S fuel)) ip st in
  stack_ok s -> stack_of s = l ++ args -> length args = N.to_nat ar ->
  hget (st_heap s) a = Some (callee_obj is_clo h ar ups) ->
  assoc h (p_labels P) = Some src ->
  S (length (st_calls s)) < call_stack_size ->
  (code_len P <> 0)%N ->
  nth (N.to_nat (last_pos P)) (p_code P) 255%N = 10%N ->
  st_open s = None ->
  body_height body (length args) = Some (S hh) ->
  (forall i, i < length body -> nth (N.to_nat src + i) (p_code P) 255%N = nth i body 255%N) ->
  nth (N.to_nat src + length body) (p_code P) 255%N = 22%N ->
  N.to_nat src + length body < length (p_code P) ->
  (N.of_nat (length body) + 3 <= st_rem s)%N ->
  length l + length args + length body + 1 < cap s ->
  exists v s',
    run_function P re cn (VObj a) s = NOk v s' /\
    stack_ok s' /\ stack_of s' = l /\ st_calls s' = st_calls s.
Proof.
  intros F bld P re0 cn a s l args h ar ups is_clo src body hh fuel re
         Hok Hst Hlen Hobj Hlab Hroom Hcl Hexit Hopen Hbody Hcode Hret Hin Hrem Hcap.
  set (f := mkFrame src (last_pos P) (N.of_nat (length l)) (if is_clo then Some a else None)).
  set (s0 := set_calls s (f :: f :: st_calls s)).
  assert (Hinv0 : binv l (f :: f :: st_calls s) (length args) s0).
  { unfold binv, s0. change (stack_of (set_calls s (f :: f :: st_calls s))) with (stack_of s).
    repeat split; auto.
    - rewrite Hst, firstn_app, Nat.sub_diag, firstn_all. cbn [firstn]. apply app_nil_r.
    - rewrite Hst, app_length. reflexivity. }
  destruct (@loop_body F bld P re0 body src s0 l (f :: f :: st_calls s) (length args) (S hh) (S (S fuel))
              Hinv0 Hbody Hcode) as (x & Hloop & (Hokx & Hcx & Hprex & Hlx & Hox) & Hremx & _).
  { lia. }
  { unfold s0. cbn [st_rem set_calls]. lia. }
  { unfold s0. change (cap (set_calls s (f :: f :: st_calls s))) with (cap s). lia. }
  assert (Hr0 : st_rem s0 = st_rem s) by reflexivity.
  destruct (@reentry_balanced_partial F bld P re0 cn a s l args h ar ups is_clo src
              (length body + S (S fuel)) fuel (src + N.of_nat (length body))%N x
              Hok Hst Hlen Hobj Hlab Hroom Hcl Hexit) as (s' & Hrun & Hok' & Hst' & Hc').
  - exact Hloop.
  - unfold code_len. lia.
  - replace (N.to_nat (src + N.of_nat (length body))) with (N.to_nat src + length body) by lia. exact Hret.
  - rewrite Hremx, Hr0. lia.
  - exact Hcx.
  - exact Hokx.
  - exact Hprex.
  - rewrite Hlx. lia.
  - eexists. unfold close_upvalues_from. cbn [close_upvalues_go].
    cbn [st_open set_calls tick set_rem]. rewrite Hox. reflexivity.
  - exists (last (stack_of x) VNil), s'. auto.
Qed.
