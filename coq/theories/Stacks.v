(* Model of cao-lang/src/collections/value_stack.rs and bounded_stack.rs.
   Hand transcription; tied to the code by the C14 correspondence check. *)
From Cao Require Import ListUtil.

Set Implicit Arguments.

Section ValueStack.
  Variable V : Type.
  Variable vnil : V.

  (* struct ValueStack { count: usize, data: Box<[Value]> } ; capacity = length vdata.
     Dead slots above [vcount] are part of the state. *)
  Record vstack := { vcount : nat; vdata : list V }.

  Inductive vop :=
  | VPush (v : V) | VPop | VPopN (n : nat) | VPopOff (off : nat)
  | VSet (i : nat) (v : V) | VGet (i : nat) | VLast | VPeek (n : nat)
  | VClear | VClearUntil (h : nat) | VLen | VIter | VTop.

  Inductive vout :=
  | OUnit | OFull | OOob (cap idx : nat) | OVal (v : V) | OVals (l : list V)
  | ONat (n : nat) | OTop (o : option nat).

  Definition vs_new (size : nat) : vstack := {| vcount := 0; vdata := repeat vnil size |}.

  Definition vs_push (s : vstack) (v : V) : vstack * vout :=
    if S (vcount s) <? length (vdata s)
    then ({| vcount := S (vcount s); vdata := upd (vdata s) (vcount s) v |}, OUnit)
    else (s, OFull).

  (* pop as repaired by the fix commit: an empty stack yields nil and is left alone.
     [vs_pop_legacy] below is the pinned-tree code. *)
  Definition vs_pop (s : vstack) : vstack * V :=
    if vcount s =? 0 then (s, vnil)
    else let c := vcount s - 1 in
         ({| vcount := c; vdata := upd (vdata s) c vnil |}, nth c (vdata s) vnil).

  Definition vs_pop_legacy (s : vstack) : vstack * V :=
    let c := vcount s - 1 in
    ({| vcount := c; vdata := upd (vdata s) c vnil |}, nth c (vdata s) vnil).

  Definition vs_pop_n (s : vstack) (n : nat) : vstack * list V :=
    let m := Nat.min (vcount s) n in
    ({| vcount := vcount s - m; vdata := vdata s |},
     map (fun i => nth (vcount s - i - 1) (vdata s) vnil) (seq 0 m) ++ repeat vnil (n - m)).

  Definition vs_last (s : vstack) : V :=
    if 0 <? vcount s then nth (vcount s - 1) (vdata s) vnil else vnil.

  Definition vs_step (s : vstack) (o : vop) : vstack * vout :=
    match o with
    | VPush v => vs_push s v
    | VPop => let '(s', v) := vs_pop s in (s', OVal v)
    | VPopN n => let '(s', l) := vs_pop_n s n in (s', OVals l)
    | VPopOff off =>
        if vcount s <=? off then (s, OVal vnil)
        else let '(s', v) := vs_pop s in (s', OVal v)
    | VSet i v =>
        if vcount s <? i then (s, OOob (vcount s) i)
        else if i =? vcount s then
               match vs_push s v with
               | (s', OUnit) => (s', OVal vnil)
               | (s', o) => (s', o)
               end
             else ({| vcount := vcount s; vdata := upd (vdata s) i v |},
                   OVal (nth i (vdata s) vnil))
    | VGet i => (s, OVal (if vcount s <=? i then vnil else nth i (vdata s) vnil))
    | VLast => (s, OVal (vs_last s))
    | VPeek n =>
        (s, OVal (if n <? vcount s then nth (vcount s - n - 1) (vdata s) vnil else vnil))
    | VClear => ({| vcount := 0; vdata := upd (vdata s) 0 vnil |}, OUnit)
    | VClearUntil h => ({| vcount := h; vdata := vdata s |}, OVal (vs_last s))
    | VLen => (s, ONat (vcount s))
    | VIter => (s, OVals (firstn (vcount s) (vdata s)))
    | VTop => (s, OTop (if vcount s =? 0 then None else Some (vcount s - 1)))
    end.

  Fixpoint vs_run (s : vstack) (ops : list vop) : vstack * list vout :=
    match ops with
    | [] => (s, [])
    | o :: r => let '(s1, x) := vs_step s o in
                let '(s2, xs) := vs_run s1 r in (s2, x :: xs)
    end.

  (* ---------- the Vec-based specification ---------- *)

  Definition sp_push (cap : nat) (l : list V) (v : V) : list V * vout :=
    if S (length l) <? cap then (l ++ [v], OUnit) else (l, OFull).

  (* None = the operation's precondition (clear_until h with h <= height) is violated. *)
  Definition sp_step (cap : nat) (l : list V) (o : vop) : option (list V * vout) :=
    match o with
    | VPush v => Some (sp_push cap l v)
    | VPop => Some (removelast l, OVal (last l vnil))
    | VPopN n =>
        let m := Nat.min (length l) n in
        Some (firstn (length l - m) l,
              OVals (rev (skipn (length l - m) l) ++ repeat vnil (n - m)))
    | VPopOff off =>
        if length l <=? off then Some (l, OVal vnil)
        else Some (removelast l, OVal (last l vnil))
    | VSet i v =>
        if length l <? i then Some (l, OOob (length l) i)
        else if i =? length l then
               match sp_push cap l v with
               | (l', OUnit) => Some (l', OVal vnil)
               | (l', o) => Some (l', o)
               end
             else Some (upd l i v, OVal (nth i l vnil))
    | VGet i => Some (l, OVal (nth i l vnil))
    | VLast => Some (l, OVal (last l vnil))
    | VPeek n => Some (l, OVal (if n <? length l then nth (length l - n - 1) l vnil else vnil))
    | VClear => Some ([], OUnit)
    | VClearUntil h => if h <=? length l then Some (firstn h l, OVal (last l vnil)) else None
    | VLen => Some (l, ONat (length l))
    | VIter => Some (l, OVals l)
    | VTop => Some (l, OTop (if length l =? 0 then None else Some (length l - 1)))
    end.

  Fixpoint sp_run (cap : nat) (l : list V) (ops : list vop) : option (list V * list vout) :=
    match ops with
    | [] => Some (l, [])
    | o :: r =>
        match sp_step cap l o with
        | None => None
        | Some (l1, x) =>
            match sp_run cap l1 r with
            | None => None
            | Some (l2, xs) => Some (l2, x :: xs)
            end
        end
    end.

  Definition vs_abs (s : vstack) : list V := firstn (vcount s) (vdata s).
  Definition vs_inv (s : vstack) : Prop := vcount s < length (vdata s).

End ValueStack.

Section BoundedStack.
  Variable T : Type.

  (* struct BoundedStack<T> { head, capacity, storage: Box<[MaybeUninit<T>]> }.
     A slot is [None] while uninitialised; popped slots keep their stale bits, which the
     model represents by leaving the [Some] in place (it is never read again before being
     overwritten; [bs_inv] does not depend on it). *)
  Record bstack := { bhead : nat; bcap : nat; bslots : list (option T) }.

  Inductive bop := BPush (x : T) | BPop | BLast | BClear | BLen | BIter | BIterBack.
  Inductive bout :=
  | BOk | BFull | BSome (x : T) | BNone | BNat (n : nat) | BList (l : list T) | BUninit.

  Definition bs_new (cap : nat) : bstack := {| bhead := 0; bcap := cap; bslots := repeat None cap |}.

  Fixpoint somes (l : list (option T)) : option (list T) :=
    match l with
    | [] => Some []
    | Some x :: r => match somes r with Some xs => Some (x :: xs) | None => None end
    | None :: _ => None
    end.

  (* returns new state, result, and the list of elements dropped by the operation *)
  Definition bs_step (s : bstack) (o : bop) : bstack * bout * list T :=
    match o with
    | BPush x =>
        if bcap s <=? bhead s then (s, BFull, [x])   (* the rejected value is dropped by the caller side *)
        else ({| bhead := S (bhead s); bcap := bcap s; bslots := upd (bslots s) (bhead s) (Some x) |}, BOk, [])
    | BPop =>
        if 0 <? bhead s then
          match nth (bhead s - 1) (bslots s) None with
          | Some x => ({| bhead := bhead s - 1; bcap := bcap s; bslots := bslots s |}, BSome x, [])
          | None => (s, BUninit, [])
          end
        else (s, BNone, [])
    | BLast =>
        if 0 <? bhead s then
          match nth (bhead s - 1) (bslots s) None with
          | Some x => (s, BSome x, [])
          | None => (s, BUninit, [])
          end
        else (s, BNone, [])
    | BClear =>
        match somes (firstn (bhead s) (bslots s)) with
        | Some xs => ({| bhead := 0; bcap := bcap s; bslots := bslots s |}, BOk, xs)
        | None => (s, BUninit, [])
        end
    | BLen => (s, BNat (bhead s), [])
    | BIter =>
        match somes (firstn (bhead s) (bslots s)) with
        | Some xs => (s, BList xs, [])
        | None => (s, BUninit, [])
        end
    | BIterBack =>
        match somes (firstn (bhead s) (bslots s)) with
        | Some xs => (s, BList (rev xs), [])
        | None => (s, BUninit, [])
        end
    end.

  Fixpoint bs_run (s : bstack) (ops : list bop) : bstack * list (bout * list T) :=
    match ops with
    | [] => (s, [])
    | o :: r => let '(s1, x, d) := bs_step s o in
                let '(s2, xs) := bs_run s1 r in (s2, (x, d) :: xs)
    end.

  (* spec: a list bounded by cap *)
  Definition bsp_step (cap : nat) (l : list T) (o : bop) : list T * bout * list T :=
    match o with
    | BPush x => if cap <=? length l then (l, BFull, [x]) else (l ++ [x], BOk, [])
    | BPop => match rev l with
              | [] => (l, BNone, [])
              | x :: _ => (removelast l, BSome x, [])
              end
    | BLast => match rev l with
               | [] => (l, BNone, [])
               | x :: _ => (l, BSome x, [])
               end
    | BClear => ([], BOk, l)
    | BLen => (l, BNat (length l), [])
    | BIter => (l, BList l, [])
    | BIterBack => (l, BList (rev l), [])
    end.

  Fixpoint bsp_run (cap : nat) (l : list T) (ops : list bop) : list T * list (bout * list T) :=
    match ops with
    | [] => (l, [])
    | o :: r => let '(l1, x, d) := bsp_step cap l o in
                let '(l2, xs) := bsp_run cap l1 r in (l2, (x, d) :: xs)
    end.

  Definition bs_inv (s : bstack) (l : list T) : Prop :=
    length (bslots s) = bcap s /\ bhead s <= bcap s /\
    firstn (bhead s) (bslots s) = map Some l.

End BoundedStack.
