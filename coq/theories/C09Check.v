(* Executable checker for C09: the standard library functions of the real crate, called from
   generated scripts on generated tables with generated callbacks, against
     - the specification functions of StdSpec.v applied to what the HARNESS SAW (code 2): the input
       table as logged just before the call, the callback = the logged invocations (arguments and
       result of every call; so the oracle needs no model of the callback), the result and the input
       table read back after the run;
     - the reference semantics RefSem.eval_program of the whole script (code 1), for the scripts
       the harness marks as predictable (tables built by the script, callbacks without effects on
       the table the library is going through).

   Protocol of a script (harness/src/c09.rs builds it, this file reads it back):
     * the only native is log1; the log is the flat sequence of its arguments;
     * ["in"; T]                  T = the input just before the library call (deep copy at that time)
     * ["cb3"; i; v; k; r]        one callback invocation of filter / map / any: arguments in call
                                  order and the result r
     * ["cb2"; v; k; r]           one key-function invocation of min/max/sorted_by_key
       (a marker is a string; the records are read positionally from the start of the log, so a
        value that looks like a marker cannot confuse the reader);
       records logged before "in" (set-up calls of the script) are ignored;
     * global "res" = what the library function returned, global "tin" = the input table (by
       reference: read after the run).  A global that holds nil is not listed.

     * a table built by the HOST (native c09_input) travels in the case as a tree ([hostin]): the
       input the script logs must be that table.

   codes: 1 the run differs from RefSem's prediction; 2 the specification rejects the observation
   (wrong result, wrong sequence of callback invocations, input changed, the script did not receive
   the table the host built, crash); 3 the case is outside the checker's precondition (malformed
   log, not well-scoped, semantics out of fuel).  The flag [unrooted] marks inputs built by
   Vm::insert_value under a memory limit small enough for collections: the class of finding F-1
   (insert_value held what it created unrooted; repaired by a1ac5c5) - kept as information only,
   such cases are judged like all others. *)
From Coq Require Import Floats.SpecFloat.
From Cao Require Export CheckUtil CardAst RefSem RefScope C01Check StdSpec.
From Cao Require Import Value.
Local Open Scope N_scope.

Inductive c09fn :=
| FFilter | FMap | FAny | FMin | FMax | FMinBy | FMaxBy | FSorted | FSortedBy | FToArray.

(* predict: compare with RefSem;  spec: apply the specification;  touches: the callback changes
   the input table itself (then "input unchanged" is not demanded) *)
Inductive c09case :=
| StdCase (f : c09fn) (predict spec touches : bool) (hostin : option tree) (unrooted : bool)
          (m : module) (host : list str) (o : c01obs).

Definition stdcase := StdCase.
Definition ffilter := FFilter.
Definition fmap := FMap.
Definition fany := FAny.
Definition fmin := FMin.
Definition fmax := FMax.
Definition fminby := FMinBy.
Definition fmaxby := FMaxBy.
Definition fsorted := FSorted.
Definition fsortedby := FSortedBy.
Definition ftoarray := FToArray.

(* ---------------------------------------------------------------------------------------- *)
(* the language's truthiness and orderings on trees                                          *)
(* ---------------------------------------------------------------------------------------- *)
Definition tr_len (t : tree) : nat :=
  match t with TrStr s => length s | TrTable l => length l | _ => 0%nat end.
Definition tr_is_int (t : tree) := match t with TrInt _ => true | _ => false end.
Definition tr_is_obj (t : tree) :=
  match t with TrNil | TrInt _ | TrReal _ => false | _ => true end.
Definition tr_to_i64 (t : tree) : Z :=
  match t with
  | TrNil => 0%Z
  | TrInt i => i
  | TrReal b => sf_to_i64 (sf_of_bits b)
  | _ => Z.of_nat (tr_len t)
  end.
Definition tr_bool (t : tree) : bool :=
  match t with
  | TrNil => false
  | TrInt i => negb (Z.eqb i 0)
  | TrReal b => negb (SFeqb (sf_of_bits b) sf_zero)
  | TrStr _ | TrTable _ => negb (Nat.eqb (tr_len t) 0)
  | TrFn | TrCut => true
  end.
(* Value::partial_cmp: None = unordered *)
Definition tr_cmp (a b : tree) : option comparison :=
  match a, b with
  | TrReal x, TrReal y => SFcompare (sf_of_bits x) (sf_of_bits y)
  | TrReal x, _ => option_map CompOpp (Z_cmp_sf (tr_to_i64 b) (sf_of_bits x))
  | _, TrReal y => Z_cmp_sf (tr_to_i64 a) (sf_of_bits y)
  | _, _ =>
      if tr_is_int a || tr_is_int b then Some (Z.compare (tr_to_i64 a) (tr_to_i64 b))
      else if tr_is_obj a && tr_is_obj b then
        if tree_eqb a b then Some Eq
        else match Nat.compare (tr_len a) (tr_len b) with Eq => None | c => Some c end
      else None
  end.
Definition tr_less (a b : tree) : bool := match tr_cmp a b with Some Lt => true | _ => false end.
Definition tr_greater (a b : tree) : bool := match tr_cmp a b with Some Gt => true | _ => false end.
(* stdlib.rs sort_key_cmp: numbers (nil 0, objects their length), NaN last *)
Definition tr_is_nan (t : tree) : bool :=
  match t with TrReal b => match sf_of_bits b with S754_nan => true | _ => false end | _ => false end.
Definition tr_num (t : tree) : tree :=
  match t with TrInt _ | TrReal _ => t | _ => TrInt (tr_to_i64 t) end.
Definition tr_sort_lt (a b : tree) : bool :=
  match tr_is_nan a, tr_is_nan b with
  | false, false => tr_less (tr_num a) (tr_num b)
  | false, true => true
  | _, _ => false
  end.

(* ---------------------------------------------------------------------------------------- *)
(* reading the protocol back                                                                 *)
(* ---------------------------------------------------------------------------------------- *)
Definition s_in : str := [105; 110].                 (* "in" *)
Definition s_cb3 : str := [99; 98; 51].              (* "cb3" *)
Definition s_cb2 : str := [99; 98; 50].              (* "cb2" *)
Definition s_res : str := [114; 101; 115].           (* "res" *)
Definition s_tin : str := [116; 105; 110].           (* "tin" *)

Definition is_marker (m : str) (t : tree) : bool :=
  match t with TrStr s => list_eqb N.eqb s m | _ => false end.

(* the arguments of the log1 calls, in order; None: another native was called *)
Fixpoint flat_log (l : list (str * list tree)) : option (list tree) :=
  match l with
  | [] => Some []
  | (n, [t]) :: r => if str_eqb n n_log1 then option_map (cons t) (flat_log r) else None
  | _ => None
  end.

Record parsed := { p_in : option tree; p_calls : list (list tree * tree) }.

(* records before "in" are dropped ([seen] = false); after it every record must be well formed *)
Fixpoint parse (fuel : nat) (l : list tree) (seen : option tree) (acc : list (list tree * tree))
  : option parsed :=
  match fuel with
  | O => None
  | S f =>
      match l with
      | [] => Some {| p_in := seen; p_calls := rev acc |}
      | m :: r =>
          if is_marker s_in m then
            match seen, r with
            | None, t :: r' => parse f r' (Some t) []
            | _, _ => None                                  (* two "in", or nothing after it *)
            end
          else if is_marker s_cb3 m then
            match r with
            | i :: v :: k :: x :: r' => parse f r' seen (([i; v; k], x) :: acc)
            | _ => None
            end
          else if is_marker s_cb2 m then
            match r with
            | v :: k :: x :: r' => parse f r' seen (([v; k], x) :: acc)
            | _ => None
            end
          else match seen with
               | None => parse f r seen acc                 (* set-up noise before the call *)
               | Some _ => None
               end
      end
  end.

Definition global (name : str) (g : list (str * tree)) : tree :=
  match assoc name g with Some t => t | None => TrNil end.

(* the callback as the harness saw it: the first logged call with these arguments *)
Fixpoint lookup_call (calls : list (list tree * tree)) (args : list tree) : tree :=
  match calls with
  | [] => TrCut
  | (a, r) :: rest => if list_eqb tree_eqb a args then r else lookup_call rest args
  end.

Definition trees_eqb := list_eqb tree_eqb.
Definition entries_tree (l : list (tree * tree)) : tree := TrTable l.
Definition row_tree (e : tree * tree) : tree :=
  TrTable [(TrStr s_key, fst e); (TrStr s_value, snd e)].
Definition opt_row (o : option (tree * tree)) : tree :=
  match o with Some e => row_tree e | None => TrNil end.

Definition tr_iv (i : nat) : tree := TrInt (Z.of_nat i).
Definition tr_kv (k : tree) : tree := k.

(* (expected result, expected sequence of callback argument lists) for a TABLE input *)
Definition expect (f : c09fn) (cb : list tree -> tree) (es : list (tree * tree))
  : tree * list (list tree) :=
  let by_cb := key_by_cb tr_kv cb in
  let by_val := @key_by_value tree tree in
  match f with
  | FFilter => (TrTable (spec_filter tr_kv tr_iv tr_bool cb es), calls3_from tr_kv tr_iv 0 es)
  | FMap => (TrTable (spec_map tr_kv tr_iv cb es), calls3_from tr_kv tr_iv 0 es)
  | FAny => (match spec_any tr_kv tr_iv tr_bool cb es with Some k => k | None => TrNil end,
             calls_any_from tr_kv tr_iv tr_bool cb 0 es)
  | FMin => (opt_row (spec_best tr_less by_val es), [])
  | FMax => (opt_row (spec_best tr_greater by_val es), [])
  | FMinBy => (opt_row (spec_best tr_less by_cb es), calls2 tr_kv es)
  | FMaxBy => (opt_row (spec_best tr_greater by_cb es), calls2 tr_kv es)
  | FSorted => (TrTable (spec_sorted tr_sort_lt by_val es), [])
  | FSortedBy => (TrTable (spec_sorted tr_sort_lt by_cb es), calls2 tr_kv es)
  | FToArray => (TrTable (spec_to_array tr_iv es), [])
  end.

Definition native_backed (f : c09fn) : bool :=
  match f with FFilter | FMap | FAny => false | _ => true end.

Definition spec_check (f : c09fn) (touches : bool) (hostin : option tree) (k : okind)
           (g : list (str * tree)) (l : list (str * list tree)) : list N :=
  match flat_log l with
  | None => [3]
  | Some fl =>
      match parse (S (length fl)) fl None [] with
      | None => [3]
      | Some {| p_in := None |} => [3]
      | Some {| p_in := Some tin0; p_calls := calls |} =>
          if negb (match hostin with Some t => tree_eqb t tin0 | None => true end) then [2] else
          if negb (okind_eqb k KOk) then [2] else
          let res := global s_res g in
          let tin1 := global s_tin g in
          let unchanged := touches || tree_eqb tin0 tin1 in
          match tin0 with
          | TrTable es =>
              let '(want, want_calls) := expect f (lookup_call calls) es in
              if tree_eqb res want && list_eqb trees_eqb (map fst calls) want_calls && unchanged
              then [] else [2]
          | _ =>
              (* a non-table input: the native-backed functions hand it back, call nothing *)
              if native_backed f
              then (if tree_eqb res tin0 && Nat.eqb (length calls) 0 && unchanged then [] else [2])
              else [3]
          end
      end
  end.

Definition c09_fuel : nat := N.to_nat 20000.

Definition predict_check (m : module) (host : list str) (k : okind) (g : list (str * tree))
           (l : list (str * list tree)) : list N :=
  match eval_program c09_fuel m host with
  | PObs o' => if okind_eqb k (ob_kind o') && globals_agree g (ob_globals o') && log_eqb l (ob_log o')
               then [] else [1]
  | PFuel | PUnspec _ => [3]
  end.

Definition check1 (c : c09case) : list N :=
  match c with
  | StdCase f predict spec touches hostin unrooted m host o =>
      if negb (well_scoped m) then [3] else
      let codes :=
        match o with
        | ObsResource _ => []
        | ObsCompileError => [3]
        | ObsPanic => [2]
        | ObsRun k g l =>
            (if spec then spec_check f touches hostin k g l else []) ++
            (if predict then predict_check m host k g l else [])
        end in
      (* F-1 (insert_value unrooted) is repaired in /repo (a1ac5c5): no relabelling, a code 2 in the
         class [unrooted] is an ordinary violation *)
      codes
  end.

Definition check_all := CheckUtil.check_all check1.

(* for debugging a case by hand *)
Definition explain (c : c09case) :=
  match c with
  | StdCase f _ _ _ _ _ m host (ObsRun k g l) =>
      match flat_log l with
      | Some fl =>
          match parse (S (length fl)) fl None [] with
          | Some {| p_in := Some (TrTable es); p_calls := calls |} =>
              Some (expect f (lookup_call calls) es, global s_res g, global s_tin g)
          | _ => None
          end
      | None => None
      end
  | _ => None
  end.
Definition predict (c : c09case) : presult :=
  match c with StdCase _ _ _ _ _ _ m host _ => eval_program c09_fuel m host end.
