(* C01, simulation, VM half for fragment F9, first part: a pure expression evaluated in ANY frame.
   [holds9 off R stk]: the locals R of the running frame lie in the stack from position off on (slot i of the frame =
   position off + i).  [expr_f1_sim9]: the code of an F1 expression over parameters / locals / globals, run in a frame with
   offset off above any frames and with any heap, pushes the value of the expression (or stops with VarNotFound): the
   statement of C01SimF5.expr_f1_sim5 without the assumption that the frame is main's.
   (The simulation of right-hand sides with calls, statements, bodies and functions on top of this and of
   C01SimVm9.ex9_call / ex9_return: C01SimF9b; the whole-program theorem: C01SimF9c.) *)
From Coq Require Import List NArith ZArith Bool Lia.
From Cao Require Import ListUtil CheckUtil Bits Stacks Bytecode Compiler CompilerProofs CompilerWf CompilerOk CardAst.
From Cao Require Import Vm VmProofs C04VmProofs C01SimVm C01SimVmLocals C01SimDefs C01SimRef C01SimF1 C01SimDefs2 C01SimF2.
From Cao Require Import C01SimDefs4 C01SimDefs5 C01SimRef5 C01SimF5 C01SimVm9.
From Cao Require C01SimDefs9.
From Cao Require RefSem.
Import ListNotations.
Local Open Scope N_scope.

Section Run9.
Variable F : fops.
Variable bld : build.
Variable P : program.
Variable T : list (N * N).
Variable names : list str.

Hypothesis T_lt : forall h id, nm_find h T = Some id -> id < two32.
Hypothesis T_inj : forall h1 h2 id, nm_find h1 T = Some id -> nm_find h2 T = Some id -> h1 = h2.
Hypothesis names_inj : handles_inj names = true.

Notation seg' := (seg P).
Notation grel' := (grel T names).

Definition holds9 (off : nat) (R : lstore) (stk : list value) : Prop :=
  forall n v, RefSem.assoc n R = Some v ->
    exists i, slot (lnames R) n = Some i /\ (off + i < length stk)%nat /\ nth (off + i) stk VNil = to_vm v.

Lemma holds9_lstack below R temps : holds9 (length below) R (below ++ lstack R ++ temps).
Proof.
  intros n v H. destruct (slot_local n R v H) as (i & A & B & C & _). exists i.
  split; [exact A|]. split; [rewrite !app_length; lia|].
  rewrite app_nth2 by lia. replace (length below + i - length below)%nat with i by lia.
  rewrite app_nth1 by exact B. exact C.
Qed.
Lemma holds9_snoc off R stk x : holds9 off R stk -> holds9 off R (stk ++ [x]).
Proof.
  intros H n v Hn. destruct (H n v Hn) as (i & A & B & C). exists i. split; [exact A|].
  split; [rewrite app_length; lia|]. rewrite app_nth1 by exact B. exact C.
Qed.

Section Frame.
Variable top : frame.
Variable rest : list frame.
Variable hp : heap.
Notation steps' := (steps F bld P cap (top :: rest) hp None (@nil (list tval))).
Notation exec1' := (exec1 F bld P cap (top :: rest) hp None (@nil (list tval))).
Notation exec_err' := (exec_err F bld P cap (top :: rest) hp None (@nil (list tval))).

Definition expr_sim9 (e : card) : Prop :=
  forall pre stk R g gv,
    seg' pre (code_expr5 T (lnames R) e) ->
    (forall n, In n (expr_gnames (lnames R) e) -> In n names /\ nm_find (handle_of_bytes n) T <> None) ->
    holds9 (N.to_nat (fr_off top)) R stk -> grel' g gv -> gsimple (R ++ g) -> (S (length stk + depth e) < cap)%nat ->
    match ev (R ++ g) e with
    | Some v => steps' (length (code_expr5 T (lnames R) e)) (bytes pre, stk, gv)
                       (bytes (pre ++ code_expr5 T (lnames R) e), stk ++ [to_vm v], gv)
    | None => exists k c1 nm, (k < length (code_expr5 T (lnames R) e))%nat /\ steps' k (bytes pre, stk, gv) c1 /\
                              exec_err' c1 (EVarNotFound nm) /\ snd c1 = gv
    end.

Lemma expr_f1_sim9 e : expr_f1 e = true -> expr_sim9 e.
Proof.
  induction e; intros He; cbn [expr_f1] in He; try discriminate He;
    intros pre stk R g gv Hseg Hnames Hloc Hrel Hsimp Hroom; cbn [code_expr5 ev depth expr_gnames] in *.
  - (* CBin *)
    apply andb_true_iff in He. destruct He as [He He2]. apply andb_true_iff in He. destruct He as [Hop He1].
    set (ca := code_expr5 T (lnames R) e1) in *. set (cb := code_expr5 T (lnames R) e2) in *.
    pose proof (seg_app_l _ _ _ _ Hseg) as Sa.
    pose proof (seg_app_r _ _ _ _ Hseg) as Sbi.
    pose proof (seg_app_l _ _ _ _ Sbi) as Sb.
    pose proof (seg_app_r _ _ _ _ Sbi) as Si.
    assert (Hna : forall n, In n (expr_gnames (lnames R) e1) -> In n names /\ nm_find (handle_of_bytes n) T <> None)
      by (intros n Hn; apply Hnames, in_or_app; auto).
    assert (Hnb : forall n, In n (expr_gnames (lnames R) e2) -> In n names /\ nm_find (handle_of_bytes n) T <> None)
      by (intros n Hn; apply Hnames, in_or_app; auto).
    pose proof (IHe1 He1 pre stk R g gv Sa Hna Hloc Hrel Hsimp ltac:(lia)) as Ha. fold ca in Ha.
    destruct (ev (R ++ g) e1) as [x|] eqn:Ex.
    + pose proof (IHe2 He2 (pre ++ ca) (stk ++ [to_vm x]) R g gv Sb Hnb (holds9_snoc _ _ _ _ Hloc) Hrel Hsimp
                      ltac:(rewrite app_length; cbn [length]; lia)) as Hb. fold cb in Hb.
      destruct (ev (R ++ g) e2) as [y|] eqn:Ey.
      * destruct (vm_binop F hp op x y Hop (ev_simple _ _ _ Hsimp Ex) (ev_simple _ _ _ Hsimp Ey)) as (f & Hf & Hv).
        rewrite <- !app_assoc in Si. pose proof (seg_instr _ _ _ _ Si) as Hc.
        assert (X : exec1' (bytes (pre ++ ca ++ cb), stk ++ [to_vm x; to_vm y], gv)
                           (bytes (pre ++ ca ++ cb) + 1, stk ++ [to_vm (binval op x y)], gv)).
        { eapply ex_binop; eauto. lia. }
        rewrite !app_length. cbn [length].
        eapply steps_trans; [exact Ha|]. rewrite <- !app_assoc in Hb. cbn [app] in Hb.
        eapply steps_trans; [exact Hb|].
        replace (pre ++ ca ++ cb ++ [simple_binop op]) with ((pre ++ ca ++ cb) ++ [simple_binop op])
          by (rewrite <- !app_assoc; reflexivity).
        rewrite bytes_snoc.
        replace (spanN (simple_binop op)) with 1 by (destruct op; try discriminate Hop; reflexivity).
        apply steps_1. exact X.
      * destruct Hb as (k & c1 & nm & Hk & Hst & Herr & Hg).
        exists (length ca + k)%nat, c1, nm. split; [rewrite !app_length; lia|].
        split; [eapply steps_trans; eauto | auto].
    + destruct Ha as (k & c1 & nm & Hk & Hst & Herr & Hg).
      exists k, c1, nm. split; [rewrite !app_length; lia | auto].
  - (* CUn UNot *)
    destruct op; try discriminate He. cbn [code_expr5 ev expr_gnames] in *.
    set (ca := code_expr5 T (lnames R) e) in *.
    pose proof (seg_app_l _ _ _ _ Hseg) as Sa. pose proof (seg_app_r _ _ _ _ Hseg) as Si.
    pose proof (IHe He pre stk R g gv Sa Hnames Hloc Hrel Hsimp Hroom) as Ha. fold ca in Ha.
    destruct (ev (R ++ g) e) as [x|] eqn:Ex.
    + pose proof (seg_instr _ _ _ _ Si) as Hc.
      rewrite app_length. cbn [length]. eapply steps_trans; [exact Ha|].
      rewrite app_assoc, bytes_snoc. change (spanN INot) with 1.
      apply steps_1. rewrite to_vm_bool.
      eapply ex_not; eauto; [apply vm_not; eapply ev_simple; eauto | lia].
    + destruct Ha as (k & c1 & nm & Hk & Hst & Herr & Hg).
      exists k, c1, nm. split; [rewrite !app_length; lia | auto].
  - (* CScalarNil *)
    pose proof (seg_instr _ _ _ _ Hseg) as Hc. rewrite bytes_snoc. change (spanN IScalarNil) with 1.
    apply steps_1. eapply ex_scalar_nil; eauto. lia.
  - (* CScalarInt *)
    pose proof (seg_instr _ _ _ _ Hseg) as Hc. rewrite bytes_snoc. change (spanN (IScalarInt i)) with 9.
    apply steps_1. unfold lit_ok in He. apply andb_true_iff in He. destruct He as [H1 H2].
    apply Z.leb_le in H1. apply Z.ltb_lt in H2.
    eapply ex_scalar_int; eauto; lia.
  - (* CReadVar *)
    rewrite assoc_app.
    destruct (lmem name (lnames R)) eqn:Em.
    + (* a local *)
      destruct (lmem_some _ _ Em) as [v Ev]. rewrite Ev.
      destruct (Hloc name v Ev) as (i & Hi & Hlt & Hnth). rewrite Hi in *. cbn [length].
      pose proof (seg_instr _ _ _ _ Hseg) as Hc.
      rewrite bytes_snoc. change (spanN (IReadLocalVar (N.of_nat i))) with 5.
      apply steps_1. rewrite <- Hnth.
      pose proof (@ex9_read_local F bld P cap (bytes pre) (N.of_nat i) stk gv top rest hp Hc) as X.
      rewrite Nat2N.id in X. apply X; [unfold cap, stack_size in *; lia | lia].
    + destruct (lmem_none _ _ Em) as [Ev Hs]. rewrite Ev, Hs in *.
      pose proof (seg_instr _ _ _ _ Hseg) as Hc.
      destruct (Hnames name (or_introl eq_refl)) as [Hin Hfound].
      pose proof (Hrel name (no_collision_name _ names_inj _ Hin)) as Hr. unfold gread in Hr.
      unfold idT in *. destruct (nm_find (handle_of_bytes name) T) as [id|] eqn:Eid; [|congruence].
      assert (Hid : id < 4294967296) by (rewrite <- two32_eq; eapply T_lt; eauto).
      destruct (RefSem.assoc name g) as [v|] eqn:Ea; cbn [option_map] in Hr.
      * rewrite bytes_snoc. change (spanN (IReadGlobalVar id)) with 5.
        apply steps_1. eapply ex_read_global; eauto; [|lia].
        destruct (nth_error gv (N.to_nat id)) as [[w|]|]; congruence.
      * destruct (@ex_read_global_err F bld P cap (top :: rest) hp None [] (bytes pre) id stk gv Hc Hid) as [nm Herr].
        { intros w Hw. rewrite Hw in Hr. discriminate. }
        exists 0%nat, (bytes pre, stk, gv), (Some nm). split; [cbn; lia|]. split; [constructor | auto].
Qed.

(* the arguments of a call, left to right: their values pile up on the stack (first argument lowest) *)
Lemma args_sim9 args : forallb expr_f1 args = true ->
  forall pre stk R g gv,
    seg' pre (C01SimDefs9.code_args9 T (lnames R) args) ->
    (forall n, In n (flat_map (expr_gnames (lnames R)) args) -> In n names /\ nm_find (handle_of_bytes n) T <> None) ->
    holds9 (N.to_nat (fr_off top)) R stk -> grel' g gv -> gsimple (R ++ g) ->
    (S (length stk + C01SimDefs9.depth_args args) < cap)%nat ->
    match C01SimDefs9.evs9 (R ++ g) args with
    | Some vs => steps' (length (C01SimDefs9.code_args9 T (lnames R) args)) (bytes pre, stk, gv)
                        (bytes (pre ++ C01SimDefs9.code_args9 T (lnames R) args), stk ++ map to_vm vs, gv) /\
                 length vs = length args
    | None => exists k c1 nm, steps' k (bytes pre, stk, gv) c1 /\ exec_err' c1 (EVarNotFound nm) /\ snd c1 = gv
    end.
Proof.
  induction args as [|a r IH]; intros Hargs pre stk R g gv Hseg Hnames Hloc Hrel Hsimp Hroom.
  - cbn. rewrite !app_nil_r. split; [constructor | reflexivity].
  - cbn [forallb] in Hargs. apply andb_true_iff in Hargs. destruct Hargs as [Ha Hr].
    cbn [C01SimDefs9.code_args9 flat_map C01SimDefs9.evs9 C01SimDefs9.depth_args] in *.
    fold (C01SimDefs9.code_args9 T (lnames R) r) in *.
    set (ca := code_expr5 T (lnames R) a) in *. set (cr := C01SimDefs9.code_args9 T (lnames R) r) in *.
    assert (Hna : forall n, In n (expr_gnames (lnames R) a) -> In n names /\ nm_find (handle_of_bytes n) T <> None)
      by (intros n Hn; apply Hnames, in_or_app; auto).
    assert (Hnr : forall n, In n (flat_map (expr_gnames (lnames R)) r) -> In n names /\ nm_find (handle_of_bytes n) T <> None)
      by (intros n Hn; apply Hnames, in_or_app; auto).
    pose proof (expr_f1_sim9 a Ha pre stk R g gv (seg_app_l _ _ _ _ Hseg) Hna Hloc Hrel Hsimp ltac:(lia)) as Hea.
    fold ca in Hea.
    destruct (ev (R ++ g) a) as [v|] eqn:Ev.
    + pose proof (IH Hr (pre ++ ca) (stk ++ [to_vm v]) R g gv (seg_app_r _ _ _ _ Hseg) Hnr (holds9_snoc _ _ _ _ Hloc) Hrel Hsimp
                     ltac:(rewrite app_length; cbn [length]; lia)) as Her. fold cr in Her.
      destruct (C01SimDefs9.evs9 (R ++ g) r) as [vs|].
      * cbv beta iota. destruct Her as [Her Hlen]. split; [|cbn [length]; rewrite Hlen; reflexivity].
        rewrite app_length. eapply steps_trans; [exact Hea|].
        rewrite <- app_assoc in Her. cbn [map]. rewrite app_assoc.
        replace ((stk ++ [to_vm v]) ++ map to_vm vs) with (stk ++ to_vm v :: map to_vm vs) in Her
          by (rewrite <- app_assoc; reflexivity).
        replace (pre ++ ca ++ cr) with (pre ++ ca ++ cr) by reflexivity. rewrite <- app_assoc. exact Her.
      * cbv beta iota. destruct Her as (k & c1 & nm & Hst & Herr & Hg).
        exists (length ca + k)%nat, c1, nm. split; [eapply steps_trans; eauto | auto].
    + cbv beta iota. destruct Hea as (k & c1 & nm & _ & Hst & Herr & Hg). exists k, c1, nm. auto.
Qed.

End Frame.
End Run9.
