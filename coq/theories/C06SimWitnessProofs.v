(* C06, refinement: every state of the witness run (C06SimWitness.sim_st) satisfies the open-upvalue invariant. *)
From Coq Require Import List NArith ZArith Bool Lia.
From Cao Require Import ListUtil Bits Stacks Vm VmUpvalueProofs VmUpvalueStep C06SimWitness.
Import ListNotations.

Lemma sim_entry_vm_ok : vm_ok sim_entry.
Proof.
  change sim_entry with (set_calls fresh_state [mkFrame 0 0 0 None]).
  apply vm_ok_set_calls; [exact fresh_state_vm_ok|].
  constructor; [vm_compute; lia | constructor].
Qed.

Lemma sim_st_vm_ok n : vm_ok (sim_st n).
Proof.
  unfold sim_st, sim_at.
  assert (H : vm_ok (set_rem sim_entry (N.of_nat n))).
  { eapply keep_vm_ok; [apply set_rem_keep | exact sim_entry_vm_ok]. }
  pose proof (run_at_vm_ok wnofloat Debug sim_program (N.of_nat n) max_depth 0 _ H) as Hr.
  destruct (run_at wnofloat Debug sim_program false (N.of_nat n) max_depth 0 (set_rem sim_entry (N.of_nat n)))
    as [x|e ip x|a x]; cbn [rres_ok snd] in *; try exact fresh_state_vm_ok.
  destruct e; cbn [snd]; try exact fresh_state_vm_ok. exact Hr.
Qed.
