(* C06, refinement through the compiler, fragment FC: the reference half, part 2 - the invariant between RefSem's state
   (main's scope, the cell store, the closure store) and the stores of the direct meaning, and the body of a closure:
   run from ANY later state of main it computes [run_body] on main's store (the writes go to main's cells). *)
From Coq Require Import List NArith ZArith Bool Lia.
From Cao Require Import CheckUtil Bits CardAst Table TableProofs StdlibGen RefSem
     C01SimDefs C01SimRef C01SimDefs2 C01SimRef2 C01SimDefs4 C01SimDefs5 C01SimRef5 C06Proofs C06SimFcDefs C06SimFcRef.
From Cao Require C01SimF1.
Import ListNotations.

Lemma nth_error_upd_oth {A} (l : list A) i j x : i <> j -> nth_error (RefSem.upd l i x) j = nth_error l j.
Proof.
  revert i j; induction l as [|y l IH]; intros [|i] [|j] H; cbn [RefSem.upd nth_error]; try reflexivity; try congruence.
  apply IH. congruence.
Qed.
Lemma str_eqb_rfl n : str_eqb n n = true.
Proof. unfold str_eqb. destruct (bytes_eqb_spec n n); [reflexivity | congruence]. Qed.
Lemma str_eqb_neq n m : n <> m -> str_eqb n m = false.
Proof. intros H. destruct (str_eqb n m) eqn:E; [apply str_eqb_eq in E; contradiction | reflexivity]. Qed.

Lemma assoc_restrict vis n (R : lstore) : assoc n (restrict vis R) = if smem n vis then assoc n R else None.
Proof.
  induction R as [|[k v] r IH]; cbn [restrict filter assoc fst].
  - destruct (smem n vis); reflexivity.
  - fold (restrict vis r). destruct (smem k vis) eqn:Ek; cbn [assoc]; destruct (str_eqb n k) eqn:E.
    + apply str_eqb_eq in E. subst k. rewrite Ek. reflexivity.
    + exact IH.
    + apply str_eqb_eq in E. subst k. rewrite IH, Ek. reflexivity.
    + exact IH.
Qed.
Lemma simples_restrict vis R g : simples (R ++ g) -> simples (restrict vis R ++ g).
Proof.
  intros H. apply simples_app in H. destruct H as [HR Hg]. apply simples_app. split; [|exact Hg].
  unfold simples in *. rewrite Forall_forall in *. intros x Hx. apply filter_In in Hx. apply HR, Hx.
Qed.
Lemma assoc_set_some n x (v : value) R : assoc n R <> None -> assoc n (set_assoc x v R) <> None.
Proof.
  intros H. destruct (bytes_eqb_spec n x) as [->|Hne].
  - rewrite C01SimF1.assoc_set_assoc_same. discriminate.
  - rewrite C01SimF1.assoc_set_assoc_other by exact Hne. exact H.
Qed.

Section Eval.
Variable P : list fentry.
Variable host : list str.
Variable limit : N.
Variable fi : nat.
Notation evalf := (eval P host limit).

Definition menv (sc : scope) : env := {| e_scopes := [sc]; e_up := [] |}.
Definition cenv (scx : scope) : env := {| e_scopes := [[]]; e_up := [scx] |}.
Lemma lookup_menv sc n : lookup_var (menv sc) n = assoc n sc.
Proof. unfold lookup_var, menv, orelse. cbn [e_scopes e_up lookup_scopes]. destruct (assoc n sc); reflexivity. Qed.
Lemma lookup_cenv scx n : lookup_var (cenv scx) n = assoc n scx.
Proof. unfold lookup_var, cenv, orelse. cbn [e_scopes e_up lookup_scopes assoc]. destruct (assoc n scx); reflexivity. Qed.

(* what does not change once the closure exists, given that main's scope only grows *)
Definition clos_static (sc : scope) (body : list card) (vis : list str) (scx : scope) : Prop :=
  exists Lnk Lck,
    forallb (bstmt_fc Lnk Lck) body = true /\
    (forall n, smem n Lck = false -> smem n vis = lmem n Lnk) /\
    (forall n, lmem n Lnk = true -> assoc n scx = assoc n sc /\ assoc n sc <> None) /\
    (forall n, lmem n Lnk = false -> assoc n scx = None).

Definition clos_ok (s : state) (sc : scope) (R : lstore) (C : cstore) (x : str) : Prop :=
  exists c k body vis scx,
    assoc x sc = Some c /\ nth_error (st_cells s) c = Some (VClosure k) /\
    assoc x C = Some (body, vis) /\
    nth_error (st_clos s) k = Some {| cl_params := []; cl_body := body; cl_up := [scx]; cl_fi := fi |} /\
    (forall n, smem n vis = true -> assoc n R <> None) /\
    clos_static sc body vis scx.

Definition inv (s : state) (sc : scope) (R : lstore) (C : cstore) (g : gl) (Ln Lc : list str) : Prop :=
  st_heap s = [] /\ st_globals s = g /\ simples (R ++ g) /\
  (forall n, smem n Lc = false ->
     match assoc n R with
     | Some v => exists c, assoc n sc = Some c /\ nth_error (st_cells s) c = Some v
     | None => assoc n sc = None
     end) /\
  (forall n m c, assoc n sc = Some c -> assoc m sc = Some c -> n = m) /\
  (forall n c, assoc n sc = Some c -> c < length (st_cells s)) /\
  (forall n, lmem n Ln = match assoc n sc with Some _ => true | None => false end) /\
  (forall n, smem n Lc = true -> assoc n R = None) /\
  (forall x, smem x Lc = true -> clos_ok s sc R C x).

Lemma inv_same s s' sc R C g Ln Lc : same_mem s s' -> inv s sc R C g Ln Lc -> inv s' sc R C g Ln Lc.
Proof.
  intros (A1 & A2 & A3 & A4) (H1 & H2 & H3 & H4 & H5 & H6 & H7 & H8 & H9).
  unfold inv, clos_ok. rewrite A1, A2, A3, A4. repeat split; auto.
Qed.

Lemma vars_ok_menv s sc R C g Ln Lc : inv s sc R C g Ln Lc -> vars_ok (menv sc) s R g Lc.
Proof.
  intros (H1 & H2 & H3 & H4 & _). unfold vars_ok. repeat split; auto.
  intros n Hn. rewrite lookup_menv. apply H4, Hn.
Qed.

Lemma vars_ok_cenv s sc R C g Ln Lc body vis scx Lnk Lck :
  inv s sc R C g Ln Lc ->
  (forall n, smem n vis = true -> assoc n R <> None) ->
  (forall n, smem n Lck = false -> smem n vis = lmem n Lnk) ->
  (forall n, lmem n Lnk = true -> assoc n scx = assoc n sc /\ assoc n sc <> None) ->
  (forall n, lmem n Lnk = false -> assoc n scx = None) ->
  forallb (bstmt_fc Lnk Lck) body = true ->
  vars_ok (cenv scx) s (restrict vis R) g Lck.
Proof.
  intros (H1 & H2 & H3 & H4 & H5 & H6 & H7 & H8 & H9) Hvis Hk1 Hk2 Hk3 _.
  unfold vars_ok. split; [exact H1|]. split; [exact H2|]. split; [apply simples_restrict, H3|].
  intros n Hn. rewrite lookup_cenv, assoc_restrict. pose proof (Hk1 n Hn) as Hv.
  destruct (smem n vis) eqn:Ev.
  - symmetry in Hv. destruct (Hk2 n Hv) as [Hsx _]. rewrite Hsx.
    assert (Hnc : smem n Lc = false).
    { destruct (smem n Lc) eqn:E; [|reflexivity]. exfalso. apply (Hvis n Ev). apply H8, E. }
    apply H4, Hnc.
  - symmetry in Hv. apply Hk3, Hv.
Qed.

(* a write to the cell of a data local *)
Lemma inv_set_local s sc R C g Ln Lc x v old c :
  inv s sc R C g Ln Lc -> smem x Lc = false -> simple v ->
  assoc x R = Some old -> assoc x sc = Some c ->
  inv (set_cells (upd (st_cells s) c v) s) sc (set_assoc x v R) C g Ln Lc.
Proof.
  intros (H1 & H2 & H3 & H4 & H5 & H6 & H7 & H8 & H9) Hx Hv Hold Hc.
  apply simples_app in H3. destruct H3 as [HsR Hsg].
  pose proof (H6 _ _ Hc) as Hlt.
  unfold inv. cbn [set_cells st_heap st_globals st_cells st_clos].
  split; [exact H1|]. split; [exact H2|].
  split; [apply simples_app; split; [apply set_assoc_simple; assumption | exact Hsg]|].
  split.
  { intros n Hn. destruct (bytes_eqb_spec n x) as [->|Hne].
    - rewrite C01SimF1.assoc_set_assoc_same. exists c. split; [exact Hc|].
      apply C06Proofs.nth_error_upd_same. exact Hlt.
    - rewrite C01SimF1.assoc_set_assoc_other by exact Hne. pose proof (H4 n Hn) as Hm.
      destruct (assoc n R) as [w|]; [|exact Hm]. destruct Hm as (c' & A & B). exists c'. split; [exact A|].
      rewrite nth_error_upd_oth; [exact B|]. intros ->. apply Hne. eapply H5; eassumption. }
  split; [exact H5|].
  split; [intros n c' Hn; rewrite upd_length; eapply H6; exact Hn|].
  split; [exact H7|].
  split.
  { intros n Hn. rewrite C01SimF1.assoc_set_assoc_other; [apply H8, Hn|]. intros ->. congruence. }
  intros y Hy. destruct (H9 y Hy) as (cy & k & body & vis & scx & A & B & Cc & D & E & F0).
  exists cy, k, body, vis, scx. cbn [set_cells st_heap st_globals st_cells st_clos]. split; [exact A|]. split.
  { rewrite nth_error_upd_oth; [exact B|]. intros ->.
    assert (x = y) by (eapply H5; eassumption). subst y. congruence. }
  split; [exact Cc|]. split; [exact D|]. split; [|exact F0].
  intros n Hn. apply assoc_set_some, E, Hn.
Qed.

(* a write to a global *)
Lemma inv_set_global s sc R C g Ln Lc n v :
  inv s sc R C g Ln Lc -> simple v ->
  inv (set_globals (set_assoc n v (st_globals s)) s) sc R C (set_assoc n v g) Ln Lc.
Proof.
  intros (H1 & H2 & H3 & H4 & H5 & H6 & H7 & H8 & H9) Hv.
  apply simples_app in H3. destruct H3 as [HsR Hsg].
  unfold inv, clos_ok. cbn [set_globals st_heap st_globals st_cells st_clos]. rewrite H2.
  repeat split; auto. apply simples_app. split; [exact HsR | apply set_assoc_simple; assumption].
Qed.

(* ---- the body of a closure ---- *)
Definition body_res (r : res) (scx : scope) (sc : scope) (vis : list str) (R : lstore) (C : cstore) (g : gl)
           (Ln Lc : list str) (body : list card) : Prop :=
  r = RFuel \/
  (exists vs s' R' g', r = ok vs (cenv scx) s' /\ run_body vis R g body = (true, R', g') /\ inv s' sc R' C g' Ln Lc /\
                       (forall n, assoc n R <> None -> assoc n R' <> None)) \/
  (exists e' s' R' g', r = err EVarNotFound e' s' /\ run_body vis R g body = (false, R', g') /\
                       st_heap s' = [] /\ st_globals s' = g' /\ simples g').

Lemma inv_globals_simple s sc R C g Ln Lc : inv s sc R C g Ln Lc -> st_heap s = [] /\ st_globals s = g /\ simples g.
Proof. intros (H1 & H2 & H3 & _). apply simples_app in H3. tauto. Qed.

Lemma run_body_cons vis R g c r :
  run_body vis R g (c :: r) =
  match run_body vis R g [c] with (true, R1, g1) => run_body vis R1 g1 r | other => other end.
Proof.
  destruct c; try reflexivity; cbn [run_body]; destruct (ev (restrict vis R ++ g) _); reflexivity.
Qed.

Section Body.
Variables (Lnk Lck vis : list str) (scx sc : scope) (C : cstore) (Ln Lc : list str).
Hypothesis Hk1 : forall n, smem n Lck = false -> smem n vis = lmem n Lnk.
Hypothesis Hk2 : forall n, lmem n Lnk = true -> assoc n scx = assoc n sc /\ assoc n sc <> None.
Hypothesis Hk3 : forall n, lmem n Lnk = false -> assoc n scx = None.

Lemma eval_bstmt c : bstmt_fc Lnk Lck c = true ->
  forall fuel s R g, inv s sc R C g Ln Lc ->
    (forall n, smem n vis = true -> assoc n R <> None) ->
    body_res (evalf fuel (TkCard fi (cenv scx) c) s) scx sc vis R C g Ln Lc [c].
Proof.
  intros Hc fuel s R g Hinv Hvis.
  destruct fuel as [|f']; [left; reflexivity|]. cbn [eval]. unfold F.
  destruct (limit <? st_steps s)%N; [left; reflexivity|].
  pose proof (inv_same _ _ _ _ _ _ _ _ (same_mem_bump s) Hinv) as Hinvb.
  assert (Hvo' : vars_ok (cenv scx) (bump s) (restrict vis R) g Lck).
  { eapply (vars_ok_cenv _ _ _ _ _ _ _ [c]); eauto. cbn [forallb]. rewrite Hc. reflexivity. }
  destruct c; cbn [bstmt_fc] in Hc; try discriminate Hc; cbn [eval_card].
  + (* SetGlobalVar *)
    apply andb_true_iff in Hc. destruct Hc as [Hne He]. apply negb_true_iff in Hne.
    assert (Hne' : is_empty name = false) by (destruct name; [discriminate Hne | reflexivity]).
    pose proof (eval_condC P host limit fi _ _ He f' (cenv scx) (bump s) (restrict vis R) g Hvo')
      as [E|[(v & s1 & E & Hv & Hsv & Hs1)|(s1 & E & Hv & Hs1)]];
      cbn zeta in E; rewrite E; cbn [bnd ok err one].
    * left; reflexivity.
    * rewrite Hne'.
      assert (Hinv1 : inv s1 sc R C g Ln Lc) by (eapply inv_same; [exact Hs1 | exact Hinvb]).
      pose proof (inv_set_global _ _ _ _ _ _ _ name v Hinv1 Hsv) as Hinv2.
      right; left. eexists [], _, R, (set_assoc name v g). cbn [run_body]. rewrite Hv.
      split; [reflexivity|]. split; [reflexivity|]. split; [exact Hinv2 | auto].
    * right; right. exists (cenv scx), s1, R, g. cbn [run_body]. rewrite Hv. split; [reflexivity|]. split; [reflexivity|].
      assert (Hinv1 : inv s1 sc R C g Ln Lc) by (eapply inv_same; [exact Hs1 | exact Hinvb]).
      eapply inv_globals_simple, Hinv1.
  + (* SetVar *)
    apply andb_true_iff in Hc. destruct Hc as [Hc He]. apply andb_true_iff in Hc. destruct Hc as [Hc Hxc].
    apply andb_true_iff in Hc. destruct Hc as [Hx Hxl]. apply negb_true_iff in Hxc.
    unfold var_ok in Hx. apply andb_true_iff in Hx. destruct Hx as [Hne Hdot]. apply negb_true_iff in Hne, Hdot.
    assert (Hne' : is_empty name = false) by (destruct name; [discriminate Hne | reflexivity]).
    pose proof (eval_condC P host limit fi _ _ He f' (cenv scx) (bump s) (restrict vis R) g Hvo')
      as [E|[(v & s1 & E & Hv & Hsv & Hs1)|(s1 & E & Hv & Hs1)]];
      cbn zeta in E; rewrite E; cbn [bnd ok err one].
    * left; reflexivity.
    * rewrite (rsplit_no_dot _ Hdot), Hne'. rewrite lookup_cenv.
      assert (Hinv1 : inv s1 sc R C g Ln Lc) by (eapply inv_same; [exact Hs1 | exact Hinvb]).
      pose proof (Hk1 name Hxc) as Hxv. rewrite Hxl in Hxv.
      destruct (Hk2 name Hxl) as [Hsx Hscn]. rewrite Hsx.
      pose proof (Hvis name Hxv) as HxR.
      assert (HxLc : smem name Lc = false).
      { destruct (smem name Lc) eqn:E0; [|reflexivity]. exfalso. apply HxR.
        destruct Hinv1 as (_ & _ & _ & _ & _ & _ & _ & X & _). apply X, E0. }
      destruct (assoc name R) as [old|] eqn:Eold; [|congruence].
      pose proof Hinv1 as (_ & _ & _ & X4 & _). specialize (X4 name HxLc). rewrite Eold in X4.
      destruct X4 as (c0 & Hc0 & Hcell). rewrite Hc0.
      pose proof (inv_set_local _ _ _ _ _ _ _ name v old c0 Hinv1 HxLc Hsv Eold Hc0) as Hinv2.
      right; left. eexists [], _, (set_assoc name v R), g. cbn [run_body]. rewrite Hv.
      split; [reflexivity|]. split; [reflexivity|]. split; [exact Hinv2|].
      intros n Hn. apply assoc_set_some, Hn.
    * right; right. exists (cenv scx), s1, R, g. cbn [run_body]. rewrite Hv. split; [reflexivity|]. split; [reflexivity|].
      assert (Hinv1 : inv s1 sc R C g Ln Lc) by (eapply inv_same; [exact Hs1 | exact Hinvb]).
      eapply inv_globals_simple, Hinv1.
Qed.

Lemma eval_body body : forallb (bstmt_fc Lnk Lck) body = true ->
  forall fuel s R g, inv s sc R C g Ln Lc ->
    (forall n, smem n vis = true -> assoc n R <> None) ->
    body_res (evalf fuel (TkSeq fi (cenv scx) body) s) scx sc vis R C g Ln Lc body.
Proof.
  induction body as [|c r IH]; intros Hb fuel s R g Hinv Hvis.
  - destruct fuel as [|f]; [left; reflexivity|]. cbn [eval]. unfold F.
    destruct (limit <? st_steps s)%N; [left; reflexivity|]. right; left.
    exists [], (bump s), R, g. split; [reflexivity|]. split; [reflexivity|].
    split; [eapply inv_same; [apply same_mem_bump | exact Hinv] | auto].
  - cbn [forallb] in Hb. apply andb_true_iff in Hb. destruct Hb as [Hc Hr].
    destruct fuel as [|f]; [left; reflexivity|]. cbn [eval]. unfold F.
    destruct (limit <? st_steps s)%N; [left; reflexivity|].
    pose proof (inv_same _ _ _ _ _ _ _ _ (same_mem_bump s) Hinv) as Hinvb.
    unfold body_res. rewrite (run_body_cons vis R g c r).
    destruct (eval_bstmt c Hc f (bump s) R g Hinvb Hvis)
      as [E|[(vs & s1 & R1 & g1 & E & Hr1 & Hinv1 & Hdom1)|(e1 & s1 & R1 & g1 & E & Hr1 & Hrest)]]; rewrite E; cbn [bnd ok err].
    + left; reflexivity.
    + rewrite Hr1.
      assert (Hvis1 : forall n, smem n vis = true -> assoc n R1 <> None) by (intros n Hn; apply Hdom1, Hvis, Hn).
      destruct (IH Hr f s1 R1 g1 Hinv1 Hvis1)
        as [E2|[(vs2 & s2 & R2 & g2 & E2 & Hr2 & Hinv2 & Hdom2)|(e2 & s2 & R2 & g2 & E2 & Hr2 & Hrest)]]; rewrite E2; cbn [bnd ok err].
      * left; reflexivity.
      * right; left. exists (vs ++ vs2), s2, R2, g2. split; [reflexivity|]. split; [exact Hr2|]. split; [exact Hinv2|].
        intros n Hn. apply Hdom2, Hdom1, Hn.
      * right; right. exists e2, s2, R2, g2. auto.
    + right; right. exists e1, s1, R1, g1. rewrite Hr1. auto.
Qed.
End Body.
End Eval.
