(* C18: the typed native wrappers of traits.rs stated ONCE, generically, for the whole menu of natives
   (Vm.all_natives = the natives registered by harness/src/vmrun.rs + the four natives of stdlib.rs).
   Definitions only; the proofs are in VmNativeMenuProofs.v.

   * [argty] / [native_sig]: the declared parameter types (the Rust signatures of n_log1 .. n_rb1 in vmrun.rs and of
     native_minmax / native_sorted / native_to_array in stdlib.rs).
   * [conv]: TryFrom<Value> for T (value.rs), on the model's values; [CvUb] = the `unsafe` dereference of an object
     pointer that is not in the heap.
   * [native_fn]: the Rust function bodies as functions of the parameters THEY RECEIVE (written from vmrun.rs /
     stdlib.rs, not from Vm.native_body: native_body reads its arguments with `speek s i` at hand-written indices and
     fuses conversion and body; here the body only sees the converted parameters).
   * [typed_call]: impl VmFunction for VmFunction1..4 of traits.rs as one function of the signature: peek the k
     arguments, convert them last-to-first, call; (pop_n::<k> is done by Vm.call_native_fuel). *)
From Coq Require Import NArith ZArith List Bool.
From Cao Require Import ListUtil Bits Stacks Vm.
Import ListNotations.

Inductive argty := TyI64 | TyF64 | TyBool | TyStr | TyTable | TyValue | TyNilable (t : argty).

(* a converted parameter *)
Inductive arg :=
| AInt (i : Z) | AReal (r : N) | ABool (b : bool) | AStr (b : list N)
| ATable (a : N) (t : table)         (* &CaoLangTable: the object and its contents at conversion time *)
| AValue (v : value)
| ANone | ASome (a : arg).           (* Nilable<T> *)

Inductive cvres := CvOk (a : arg) | CvFail | CvUb.

Section WithFloat.
Variable F : fops.

(* TryFrom<Value> for T *)
Fixpoint conv (t : argty) (h : heap) (v : value) : cvres :=
  match t with
  | TyI64 => match to_i64 F h v with Some i => CvOk (AInt i) | None => CvUb end
  | TyF64 => match to_f64 F h v with Some r => CvOk (AReal r) | None => CvUb end
  | TyBool => match as_bool F h v with Some b => CvOk (ABool b) | None => CvUb end
  | TyStr => match as_str h v with SIs b => CvOk (AStr b) | SNot => CvFail | SUb => CvUb end
  | TyTable => match get_table h v with TblOk a t => CvOk (ATable a t) | TblNot => CvFail | TblUb => CvUb end
  | TyValue => CvOk (AValue v)
  | TyNilable t' =>
      match v with
      | VNil => CvOk ANone
      | _ => match conv t' h v with CvOk a => CvOk (ASome a) | r => r end
      end
  end.

(* the signature table *)
Definition native_sig (n : native) : list argty :=
  match n with
  | NLog1 => [TyValue]
  | NSub2 => [TyI64; TyI64]
  | NFail0 => []
  | NStr1 => [TyStr]
  | NMix3 => [TyF64; TyI64; TyValue]
  | NCall1 => [TyValue; TyValue]
  | NTry1 => [TyValue; TyValue]
  | NCall0 => [TyValue]
  | NT4 => [TyI64; TyF64; TyBool; TyStr]
  | NNil1 => [TyNilable TyI64]
  | NTab1 => [TyTable]
  | NCat2 => [TyStr; TyStr]
  | NRb1 => [TyValue; TyValue]
  | NStdMin | NStdMax | NStdSort => [TyValue; TyValue]
  | NStdToArray => [TyValue]
  end.

(* conversion of the k arguments, LAST parameter first; [i] = 1-based number of the first parameter of [sig].
   CaFail n: parameter n is the first one (in conversion order) whose conversion fails. *)
Inductive cvall := CaOk (args : list arg) | CaFail (n : nat) | CaUb.
Fixpoint conv_args (sig : list argty) (vs : list value) (i : nat) (h : heap) : cvall :=
  match sig, vs with
  | [], [] => CaOk []
  | t :: sig', v :: vs' =>
      match conv_args sig' vs' (S i) h with
      | CaOk r => match conv t h v with CvOk a => CaOk (a :: r) | CvFail => CaFail i | CvUb => CaUb end
      | x => x
      end
  | _, _ => CaUb
  end.

Variable P : program.
Variable reenter : N -> state -> rres.
Variable self : N -> state -> nres.

(* stdlib.rs native_to_array(vm, iterable) *)
Definition to_array_fn (v : value) (s : state) : nres :=
  match v with
  | VObj a =>
      match hget (st_heap s) a with
      | Some (OTable t) =>
          let '(s2, out) := salloc s (OTable (mkTable [] [])) in
          match titer (veq0 F (st_heap s2)) t with
          | None => NStop ACrash s2
          | Some l =>
              match to_array_go (veq0 F (st_heap s2)) (mkTable [] []) 0%Z l with
              | None => NStop ACrash s2
              | Some t' => NOk (VObj out) (set_heap s2 (hset (st_heap s2) out (OTable t')))
              end
          end
      | Some _ => NOk v s
      | None => NStop AUB s
      end
  | _ => NOk v s
  end.

(* harness callee_arity(f) *)
Definition callee_arity (h : heap) (f : value) : Z :=
  match f with
  | VObj a =>
      match hget h a with
      | Some (OFun _ ar) | Some (OClo _ ar _) => Z.of_N ar
      | Some (ONative nh) =>
          match find_native nh all_natives with Some n' => Z.of_nat (native_arity n') | None => (-1)%Z end
      | _ => (-1)%Z
      end
  | _ => (-1)%Z
  end.

(* The host functions, as functions of the parameters they receive (in declaration order) and of the VM.
   An ill-typed parameter list cannot be produced by the typed wrappers (rustc checks it): APanic. *)
Definition native_fn (n : native) (args : list arg) (s : state) : nres :=
  match n, args with
  | NLog1, [AValue v] =>
      NOk VNil (log_push s [TInt (Z.of_nat (scount s)); TInt (Z.of_nat (length (st_calls s)));
                            tree_of F (st_heap s) v])
  | NSub2, [AInt a; AInt b] => NOk (VInt (wrap_i64 (a - b))) (log_push s [TInt a; TInt b])
  | NFail0, [] => NErr EUnimplemented s
  | NStr1, [AStr b] => NOk (VInt (Z.of_nat (length b))) (log_push s [TStr b])
  | NMix3, [AReal a; AInt b; AValue c] =>
      NOk VNil (log_push s [TReal (canon_real F a); TInt b; tree_of F (st_heap s) c])
  | NCall1, [AValue f; AValue x] =>
      match spush s x with
      | None => NErr EStackoverflow s
      | Some s1 => run_function P reenter self f s1
      end
  | NTry1, [AValue f; AValue x] =>
      match spush s x with
      | None => NErr EStackoverflow s
      | Some s1 =>
          match run_function P reenter self f s1 with
          | NErr _ s2 => NOk VNil (log_push s2 [TStr name_try1])
          | r => r
          end
      end
  | NCall0, [AValue f] => run_function P reenter self f s
  | NT4, [AInt a; AReal b; ABool c; AStr d] =>
      NOk VNil (log_push s [TInt a; TReal (canon_real F b); TInt (if c then 1 else 0); TStr d])
  | NNil1, [ANone] => NOk (VInt (-1)) (log_push s [TNil])
  | NNil1, [ASome (AInt i)] => NOk (VInt i) (log_push s [TInt i])
  | NTab1, [ATable _ t] => let l := Z.of_nat (length (tkeys t)) in NOk (VInt l) (log_push s [TInt l])
  | NCat2, [AStr a; AStr b] => NOk (VInt (Z.of_nat (length a + length b))) (log_push s [TStr a; TStr b])
  | NRb1, [AValue f; AValue x] =>
      let h0 := Z.of_nat (scount s) in
      let d0 := Z.of_nat (length (st_calls s)) in
      let arity := callee_arity (st_heap s) f in
      match spush s x with
      | None => NErr EStackoverflow s
      | Some s1 =>
          let entry (y : state) (ok : Z) :=
            [TStr name_rb1; TInt h0; TInt d0; TInt (Z.of_nat (scount y)); TInt (Z.of_nat (length (st_calls y)));
             TInt ok; TInt arity] in
          match run_function P reenter self f s1 with
          | NOk v s2 => NOk v (log_push s2 (entry s2 1%Z))
          | NErr e s2 => NErr e (log_push s2 (entry s2 0%Z))
          | r => r
          end
      end
  | NStdToArray, [AValue v] => to_array_fn v s
  | NStdMin, [AValue it; AValue kf] => native_minmax F P reenter self true it kf s
  | NStdMax, [AValue it; AValue kf] => native_minmax F P reenter self false it kf s
  | NStdSort, [AValue it; AValue kf] => native_sorted F P reenter self it kf s
  | _, _ => NStop APanic s
  end.

(* the k topmost values of the stack, parameter 1 first (peek_last(k-1) .. peek_last(0)) *)
Fixpoint peek_args (s : state) (k : nat) : list value :=
  match k with
  | O => []
  | S k' => speek s k' :: peek_args s k'
  end.

(* impl VmFunction for VmFunction1..4 (and the plain closure for arity 0), without the final pop_n::<k> *)
Definition typed_call (n : native) (s : state) : nres :=
  match conv_args (native_sig n) (peek_args s (native_arity n)) 1 (st_heap s) with
  | CaOk args => native_fn n args s
  | CaFail i => NErr (EConversion (N.of_nat i)) s
  | CaUb => NStop AUB s
  end.

(* what call_native does with the function's answer: pop_n::<k>, then push the result / wrap the error *)
Definition native_finish (n : native) (r : nres) : nres :=
  match r with
  | NOk v s1 =>
      let s1 := spop_n s1 (native_arity n) in
      match spush s1 v with
      | Some s2 => NOk v s2
      | None => NErr EStackoverflow s1
      end
  | NErr e s1 => NErr (ETaskFailure (native_name n) e) (spop_n s1 (native_arity n))
  | NStop a s1 => NStop a s1
  end.

(* what call1 / try1 / rb1 do with the answer of run_function ([s] = the state in which the native was entered,
   [f] = the callee it received) *)
Definition reentrant_post (n : native) (s : state) (f : value) (r : nres) : nres :=
  match n with
  | NTry1 => match r with NErr _ s2 => NOk VNil (log_push s2 [TStr name_try1]) | r => r end
  | NRb1 =>
      let entry (y : state) (ok : Z) :=
        [TStr name_rb1; TInt (Z.of_nat (scount s)); TInt (Z.of_nat (length (st_calls s)));
         TInt (Z.of_nat (scount y)); TInt (Z.of_nat (length (st_calls y))); TInt ok;
         TInt (callee_arity (st_heap s) f)] in
      match r with
      | NOk v s2 => NOk v (log_push s2 (entry s2 1%Z))
      | NErr e s2 => NErr e (log_push s2 (entry s2 0%Z))
      | r => r
      end
  | _ => r
  end.

(* what run_function does with the answer of the nested `_run` ([depth] = call depth before the two frames) *)
Definition after_reenter (depth : nat) (r : rres) : nres :=
  let unwind (x : state) := set_calls x (skipn (length (st_calls x) - depth) (st_calls x)) in
  match r with
  | ROk s3 => let '(s5, v) := spop (unwind s3) in NOk v s5
  | RErr e _ s3 => NErr e (unwind s3)
  | RStop ab s3 => NStop ab s3
  end.

End WithFloat.

(* the natives that do not re-enter the VM and do not allocate: result and log entry are a function of the
   received parameters (log1 also reports the stack heights it sees) *)
Definition simple_native (n : native) : bool :=
  match n with
  | NLog1 | NSub2 | NStr1 | NMix3 | NT4 | NNil1 | NTab1 | NCat2 => true
  | _ => false
  end.

(* (returned value, host-log entry) of a simple native *)
Definition simple_result (F : fops) (n : native) (args : list arg) (height depth : nat) (h : heap)
  : option (value * list tval) :=
  match n, args with
  | NLog1, [AValue v] => Some (VNil, [TInt (Z.of_nat height); TInt (Z.of_nat depth); tree_of F h v])
  | NSub2, [AInt a; AInt b] => Some (VInt (wrap_i64 (a - b)), [TInt a; TInt b])
  | NStr1, [AStr b] => Some (VInt (Z.of_nat (length b)), [TStr b])
  | NMix3, [AReal a; AInt b; AValue c] => Some (VNil, [TReal (canon_real F a); TInt b; tree_of F h c])
  | NT4, [AInt a; AReal b; ABool c; AStr d] =>
      Some (VNil, [TInt a; TReal (canon_real F b); TInt (if c then 1 else 0); TStr d])
  | NNil1, [ANone] => Some (VInt (-1), [TNil])
  | NNil1, [ASome (AInt i)] => Some (VInt i, [TInt i])
  | NTab1, [ATable _ t] => let l := Z.of_nat (length (tkeys t)) in Some (VInt l, [TInt l])
  | NCat2, [AStr a; AStr b] => Some (VInt (Z.of_nat (length a + length b)), [TStr a; TStr b])
  | _, _ => None
  end.
