(* C15: closed examples (vm_compute) for the trace-resolution theorems: a module tree with submodules and a
   call chain, and the witness of finding N-C15-4 (jumps of While / If cards carry the index of child 1). *)
From Coq Require Import List NArith ZArith Bool.
From Cao Require Import CardAst Compiler CompilerProofs C15Link.
From Cao Require CardEdit C15Check Vm VmCheck.
Import ListNotations.
Local Open Scope N_scope.

Definition w_lib : str := [108; 105; 98].
Definition w_deep : str := [100; 101; 101; 112].
Definition w_boom : str := [98; 111; 111; 109].
Definition w_outer : str := [111; 117; 116; 101; 114].
Definition w_nope : str := [110; 111; 112; 101].
Definition fn0 (cards : list card) : function := {| f_args := []; f_cards := cards |}.

(* main -> lib.outer -> lib.deep.boom, which calls a native that does not exist *)
Definition card_boom : card := CCallNative w_nope [].
Definition card_call_boom : card := CCall (w_deep ++ [46] ++ w_boom) [].
Definition card_call_outer : card := CCall (w_lib ++ [46] ++ w_outer) [].
Definition chain_module : module :=
  Module
    [(w_lib, Module [(w_deep, Module [] [(w_boom, fn0 [CScalarInt 7; card_boom])] [])]
                    [(w_outer, fn0 [CBin BIfTrue (CScalarInt 1) card_call_boom])] [])]
    [(s_main, fn0 [CScalarInt 1; card_call_outer])] [].

(* Module::get_card on the submodule that the namespace designates (the checker's resolver) *)
Definition resolve (m : module) (l : loc) : option card :=
  match C15Check.module_at (C15Check.with_std m) (fst l) with
  | Some sub => match CardEdit.get_card sub (snd l) with CardEdit.ROk c => Some c | _ => None end
  | None => None
  end.

(* compile with the default options, run on the VM model with float operations F (not used by this program) *)
Definition run_loc (F : Vm.fops) (m : module) (budget : nat) : option (Vm.err * list loc) :=
  match C15Check.compile_default true m with
  | COk B =>
      match Vm.run F (VmCheck.bld_of true) budget (to_vm B) Vm.fresh_state with
      | (Vm.OErr e t, _) => Some (e, map (trace_loc B) t)
      | _ => None
      end
  | _ => None
  end.

Lemma chain_trace_resolves : forall F : Vm.fops,
  exists h t,
    run_loc F chain_module 1000 = Some (Vm.EProcedureNotFound h, t) /\
    map fst t = [[w_lib; w_deep]; [w_lib]; []; []] /\
    map (resolve chain_module) t = [Some card_boom; Some card_call_boom; Some card_call_outer; Some (CScalarInt 1)].
Proof.
  intros F.
  destruct (run_loc F chain_module 1000) as [[e t]|] eqn:E; try (vm_compute in E; discriminate).
  vm_compute in E. injection E as <- <-. eexists. eexists. split; [reflexivity|]. split; reflexivity.
Qed.

(* N-C15-4: the GotoIfFalse of a While card (opcode 30, address 9) is recorded under sub-index 1: its
   location resolves to the body of the loop, not to the While card that emitted it *)
Definition while_module : module := main_module [CBin BWhile (CScalarInt 1) CScalarNil].
Lemma while_jump_names_body :
  exists B idx,
    compile while_module default_options = COk B /\
    nth 9 (p_bytecode B) 255 = 30 /\
    In (9, ([], idx)) (p_trace B) /\
    CardEdit.get_card while_module idx = CardEdit.ROk CScalarNil.
Proof.
  destruct (compile while_module default_options) as [B| | |] eqn:E; try (vm_compute in E; discriminate).
  exists B, {| ci_function := 0; ci_indices := [0; 1]%nat |}.
  split; [reflexivity|]. vm_compute in E. injection E as <-.
  split; [reflexivity|]. split; [right; left; reflexivity | reflexivity].
Qed.
