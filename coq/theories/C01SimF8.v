(* C01, simulation, fragment F8: compile_correct for F7 plus declarations in scopes - a  SetVar  of a new name
   directly in main, directly as the body of a Repeat, or inside Composite cards in such a position.  The
   locals a Repeat body declares are entries of the local store above the loop variable and the two hidden
   locals of the loop; they are popped with the loop variable at the end of every round. *)
From Coq Require Import List NArith ZArith Bool Lia.
From Cao Require Import ListUtil CheckUtil Bits CardAst Bytecode Compiler CompilerProofs CompilerWf CompilerResolve.
From Cao Require Import Stacks Vm VmProofs C04VmProofs C15Link.
From Cao Require RefSem TableProofs.
From Cao Require Import C01SimKeep C01SimVm C01SimVmLocals C01SimDefs C01SimComp C01SimRef C01SimF1 C01SimDefs2 C01SimComp2 C01SimF2.
From Cao Require Import C01SimDefs3 C01SimF3 C01SimDefs4 C01SimF4 C01SimDefs5 C01SimRef5 C01SimComp5 C01SimF5.
From Cao Require Import C01SimDefs6 C01SimF6 C01SimDefs7 C01SimF7 C01SimDefs8 C01SimRef8 C01SimComp8.
Import ListNotations.
Local Open Scope N_scope.


(* ------------------------------------------------------------------ the shape of the local store behind a statement *)
(* [fext R R']: R' is R, with the named entries possibly reassigned, under new entries *)
Definition fext (R R' : lstore) : Prop := exists A R'', R' = A ++ R'' /\ frozen R R''.

Lemma fext_refl R : fext R R.
Proof. exists [], R. split; [reflexivity | apply frozen_refl]. Qed.
Lemma frozen_fext R R' : frozen R R' -> fext R R'.
Proof. intros H. exists [], R'. split; [reflexivity | exact H]. Qed.
Lemma frozen_app_inv_l A B C : frozen (A ++ B) C -> exists C1 C2, C = C1 ++ C2 /\ frozen A C1 /\ frozen B C2.
Proof. intros H. apply Forall2_app_inv_l in H. destruct H as (C1 & C2 & H1 & H2 & ->). exists C1, C2. auto. Qed.
Lemma fext_trans A B C : fext A B -> fext B C -> fext A C.
Proof.
  intros (A1 & B2 & -> & F1) (A2 & C2 & -> & F2).
  destruct (frozen_app_inv_l _ _ _ F2) as (C1 & C3 & -> & _ & F3).
  exists (A2 ++ C1), C3. split; [rewrite app_assoc; reflexivity | eapply frozen_trans; eauto].
Qed.
Lemma frozen_length R R' : frozen R R' -> length R' = length R.
Proof. intros H. rewrite <- (lnames_length R'), (frozen_names _ _ H). apply lnames_length. Qed.

(* behind the body of a round: the new entries, the loop variable, the two hidden locals, the old store *)
Lemma fext_round i kk a b R R1 : fext (lvb i kk ++ a :: b :: R) R1 ->
  exists top a' b' Rr, R1 = top ++ a' :: b' :: Rr /\ keep_last (length R) R1 = Rr /\ frozen R Rr /\
    fst a' = fst a /\ fst b' = fst b /\ (fst a = [] -> snd a' = snd a) /\ (fst b = [] -> snd b' = snd b).
Proof.
  intros (A & R1' & -> & F).
  destruct (frozen_unb _ _ _ _ _ _ F) as (top & a' & b' & Rr & -> & _ & _ & F2 & E1 & E2 & V1 & V2).
  exists (A ++ top), a', b', Rr. split; [rewrite <- app_assoc; reflexivity|]. split.
  - rewrite <- (frozen_length _ _ F2).
    replace (A ++ top ++ a' :: b' :: Rr) with ((A ++ top ++ [a'; b']) ++ Rr) by (rewrite <- !app_assoc; reflexivity).
    apply keep_last_app.
  - auto 6.
Qed.

Lemma run8_shape n :
  (forall decl c R g R' g', ok8 decl (lnames R) c = true -> run8 n R g c = Some (true, R', g') ->
     fext R R' /\ lnames R' = names8 (lnames R) c) /\
  (forall b i nv k R g R' g', ok8 true (lvn i ++ [] :: [] :: lnames R) b = true ->
     rep8 n i nv k R g b = Some (true, R', g') -> frozen R R').
Proof.
  induction n as [|n [IHr IHp]]; [split; intros; discriminate|].
  assert (IHs : forall decl cs R g R' g', oks8 decl (lnames R) cs = true -> runs8 n R g cs = Some (true, R', g') ->
            fext R R' /\ lnames R' = names_seq8 (lnames R) cs).
  { intros decl. induction cs as [|c r IH]; intros R g R' g' Hc Hrun; cbn [runs8] in Hrun.
    - injection Hrun as <- <-. split; [apply fext_refl | reflexivity].
    - cbn [oks8] in Hc. apply andb_true_iff in Hc. destruct Hc as [Hc Hr].
      destruct (run8 n R g c) as [[[[|] R1] g1]|] eqn:E1; try discriminate.
      destruct (IHr _ _ _ _ _ _ Hc E1) as [F1 N1].
      destruct (IH R1 g1 R' g' ltac:(rewrite N1; exact Hr) Hrun) as [F2 N2].
      split; [eapply fext_trans; eauto | cbn [names_seq8]; rewrite N2, N1; reflexivity]. }
  split.
  - intros decl c R g R' g' Hc Hrun. pose proof Hc as Hc0. destruct c; cbn [ok8] in Hc; try discriminate Hc.
    + (* CBin *)
      clear Hc0. destruct op; try discriminate Hc; apply andb_true_iff in Hc; destruct Hc as [He Hb]; cbn [run8 names8] in *;
        (destruct (ev (R ++ g) c1) as [v|]; [|discriminate Hrun]); destruct (RefSem.v_bool [] v).
      * destruct (IHr false c2 R g R' g' Hb Hrun) as [F1 N1]. rewrite (ok8_false_names _ _ Hb) in N1. auto.
      * injection Hrun as <- <-. split; [apply fext_refl | reflexivity].
      * injection Hrun as <- <-. split; [apply fext_refl | reflexivity].
      * destruct (IHr false c2 R g R' g' Hb Hrun) as [F1 N1]. rewrite (ok8_false_names _ _ Hb) in N1. auto.
      * destruct (run8 n R g c2) as [[[[|] R1] g1]|] eqn:E1; try discriminate.
        destruct (IHr false c2 R g R1 g1 Hb E1) as [F1 N1]. rewrite (ok8_false_names _ _ Hb) in N1.
        destruct (IHr decl (CBin BWhile c1 c2) R1 g1 R' g' ltac:(cbn [ok8]; rewrite N1, He, Hb; reflexivity) Hrun) as [F2 N2].
        cbn [names8] in N2. split; [eapply fext_trans; eauto | congruence].
      * injection Hrun as <- <-. split; [apply fext_refl | reflexivity].
    + (* IfElse *)
      destruct op; try discriminate Hc. apply andb_true_iff in Hc. destruct Hc as [Hc Hb].
      apply andb_true_iff in Hc. destruct Hc as [He Ha]. cbn [run8 names8] in *.
      destruct (ev (R ++ g) c1) as [v|]; [|discriminate Hrun]. destruct (RefSem.v_bool [] v).
      * destruct (IHr false c2 R g R' g' Ha Hrun) as [F1 N1]. rewrite (ok8_false_names _ _ Ha) in N1. auto.
      * destruct (IHr false c3 R g R' g' Hb Hrun) as [F1 N1]. rewrite (ok8_false_names _ _ Hb) in N1. auto.
    + (* Comment *) cbn [run8] in Hrun. injection Hrun as <- <-. split; [apply fext_refl | reflexivity].
    + (* SetGlobalVar *)
      cbn [run8] in Hrun. destruct (ev (R ++ g) c); [|discriminate Hrun]. injection Hrun as <- <-. split; [apply fext_refl | reflexivity].
    + (* SetVar *)
      apply andb_true_iff in Hc. destruct Hc as [Hc He]. apply andb_true_iff in Hc. destruct Hc as [Hx _].
      unfold var_ok in Hx. apply andb_true_iff in Hx. destruct Hx as [Hne _]. apply negb_true_iff in Hne.
      cbn [run8] in Hrun. destruct (ev (R ++ g) c) as [v|]; [|discriminate Hrun]. injection Hrun as <- <-.
      unfold sets_local. change (map fst R) with (lnames R). cbn [names8]. destruct (lmem name (lnames R)) eqn:Hm.
      * pose proof (frozen_set_assoc name v R Hne Hm) as Fz. split; [apply frozen_fext, Fz | apply frozen_names, Fz].
      * split; [exists [(name, v)], R; split; [reflexivity | apply frozen_refl] | reflexivity].
    + (* Repeat *)
      apply andb_true_iff in Hc. destruct Hc as [Hc Hb]. cbn [run8 names8] in *.
      destruct (ev (R ++ g) c1) as [nv|]; [|discriminate Hrun].
      pose proof (IHp _ _ _ _ _ _ _ _ Hb Hrun) as Fz. split; [apply frozen_fext, Fz | apply frozen_names, Fz].
    + (* Composite *)
      rewrite run8_composite in Hrun. rewrite ok8_composite in Hc0. rewrite names8_composite. eapply IHs; eassumption.
  - intros b i nv k R g R' g' Hb Hrun. cbn [rep8] in Hrun.
    destruct (RefSem.v_cmp [] (RefSem.VInt k) nv) as [[[]|]|]; try (injection Hrun as <- <-; apply frozen_refl).
    assert (Hb' : ok8 true (lnames (lvb i k ++ ([], RefSem.VInt k) :: ([], nv) :: R)) b = true) by (destruct i; exact Hb).
    destruct (run8 n (lvb i k ++ ([], RefSem.VInt k) :: ([], nv) :: R) g b) as [[[[|] R1] g1]|] eqn:E1; try discriminate.
    destruct (IHr true b _ g R1 g1 Hb' E1) as [F1 _].
    destruct (fext_round _ _ _ _ _ _ F1) as (top & a' & b' & Rr & _ & EK & F2 & _). rewrite EK in Hrun.
    eapply frozen_trans; [exact F2|]. eapply IHp; [|exact Hrun]. rewrite (frozen_names _ _ F2). exact Hb.
Qed.

Lemma run8_names n decl c R g R' g' : ok8 decl (lnames R) c = true -> run8 n R g c = Some (true, R', g') ->
  lnames R' = names8 (lnames R) c.
Proof. intros H1 H2. eapply (proj1 (run8_shape n)); eauto. Qed.
Lemma runs8_names n decl cs R g R' g' : oks8 decl (lnames R) cs = true -> runs8 n R g cs = Some (true, R', g') ->
  lnames R' = names_seq8 (lnames R) cs.
Proof.
  intros H1 H2. rewrite <- (names8_composite _ []). apply (run8_names (S n) decl (CComposite [] cs) R g R' g').
  - rewrite ok8_composite. exact H1.
  - rewrite run8_composite. exact H2.
Qed.

Lemma lstack_app (A B : lstore) : lstack (A ++ B) = lstack B ++ lstack A.
Proof. unfold lstack. rewrite map_app, rev_app_distr. reflexivity. Qed.

Section Run8.
Variable F : fops.
Variable bld : build.
Variable P : program.
Variable T : list (N * N).
Variable names : list str.

Hypothesis T_lt : forall h id, nm_find h T = Some id -> id < two32.
Hypothesis T_inj : forall h1 h2 id, nm_find h1 T = Some id -> nm_find h2 T = Some id -> h1 = h2.
Hypothesis names_inj : handles_inj names = true.
Hypothesis P_small : code_len P < 2147483648.

Notation steps' := (steps F bld P cap calls0 (@nil obj) None (@nil (list tval))).
Notation exec1' := (exec1 F bld P cap calls0 (@nil obj) None (@nil (list tval))).
Notation exec_err' := (exec_err F bld P cap calls0 (@nil obj) None (@nil (list tval))).
Notation seg' := (seg P).
Notation grel' := (grel T names).
Notation cont6 := (cont5 F bld P T names).
Notation cont6_prepend := (cont5_prepend F bld P T names).
Notation cont6_done := (cont5_done F bld P T names).
Notation cont6_err := (cont5_err F bld P T names).
Notation expr_on_locals6 := (expr_on_locals F bld P T names T_lt names_inj P_small).
Notation branch_sim6 := (branch_sim5 F bld P T names T_lt names_inj P_small).

Definition stmt_sim8 (n : nat) : Prop :=
  forall decl c R g okf R' g', ok8 decl (lnames R) c = true -> run8 n R g c = Some (okf, R', g') ->
  forall pre gv,
    seg' pre (code8 T (lnames R) (bytes pre) c) ->
    (forall x, In x (gnames8 (lnames R) c) -> In x names /\ nm_find (handle_of_bytes x) T <> None) ->
    (S (length R + stmt_depth8 c) < cap)%nat -> grel' g gv -> gsimple (R ++ g) ->
    cont6 (bytes pre) R gv (bytes (pre ++ code8 T (lnames R) (bytes pre) c)) okf R' g'.

(* the rounds of a Repeat: [pre] ends at the head of the loop *)
Definition rep_sim8 (n : nat) : Prop :=
  forall b i nv kk R g okf R' g',
    lv_ok i = true -> ok8 true (lvn i ++ [] :: [] :: lnames R) b = true -> rep8 n i nv kk R g b = Some (okf, R', g') ->
    forall pre gv,
      let k := N.of_nat (length R) in
      let R2 := ([], RefSem.VInt kk) :: ([], nv) :: R in
      let bind := match i with Some _ => [IReadLocalVar (k + 1); ISetLocalVar (k + 2)] | None => [] end in
      let unbind := repeat IPop (length (names8 (lvn i ++ lnames R2) b) - S (S (length R))) in
      let cb := code8 T (lvn i ++ lnames R2) (bytes pre + 16 + bytes bind) b in
      let tgt := bytes pre + 16 + bytes bind + bytes cb + bytes unbind + 25 in
      let whole := [IReadLocalVar (k + 1); IReadLocalVar k; ILess; IGotoIfFalse (u32_to_i32 tgt)] ++
                   bind ++ cb ++ unbind ++
                   [IScalarInt 1; IReadLocalVar (k + 1); IAdd; ISetLocalVar (k + 1); IGoto (u32_to_i32 (bytes pre))] ++
                   [IPop; IPop] in
      seg' pre whole ->
      (forall x, In x (gnames8 (lvn i ++ lnames R2) b) -> In x names /\ nm_find (handle_of_bytes x) T <> None) ->
      (S (length R + 3 + Nat.max 2 (stmt_depth8 b)) < cap)%nat -> grel' g gv -> gsimple (R ++ g) -> simple nv ->
      cont6 (bytes pre) R2 gv (bytes (pre ++ whole)) okf R' g'.

Lemma seg_cons pre i rest : seg' pre (i :: rest) -> code_at P (bytes pre) i /\ seg' (pre ++ [i]) rest.
Proof.
  intros H. split; [eapply seg_instr; exact H|]. change (i :: rest) with ([i] ++ rest) in H. apply seg_app_r in H. exact H.
Qed.

Ltac spans :=
  repeat match goal with
         | |- context [spanN (?c ?a)] => let v := eval cbv in (spanN (c a)) in change (spanN (c a)) with v
         | |- context [spanN ?c] => is_constructor c; let v := eval cbv in (spanN c) in change (spanN c) with v
         end.
Ltac spans_in H :=
  repeat match type of H with
         | context [spanN (?c ?a)] => let v := eval cbv in (spanN (c a)) in change (spanN (c a)) with v in H
         | context [spanN ?c] => is_constructor c; let v := eval cbv in (spanN c) in change (spanN c) with v in H
         end.

(* popping the top of the stack *)
Lemma pops_steps_top l : forall base pre gv,
  seg' pre (repeat IPop (length l)) ->
  steps' (length l) (bytes pre, base ++ l, gv) (bytes (pre ++ repeat IPop (length l)), base, gv).
Proof.
  induction l as [|v l IH] using rev_ind; intros base pre gv Hseg.
  - cbn [length repeat]. rewrite !app_nil_r. constructor.
  - rewrite app_length in *. cbn [length] in *. rewrite Nat.add_1_r in *. cbn [repeat] in *.
    pose proof (seg_instr _ _ _ _ Hseg) as Hc.
    change (IPop :: repeat IPop (length l)) with ([IPop] ++ repeat IPop (length l)) in Hseg.
    apply seg_app_r in Hseg. rewrite app_assoc.
    econstructor; [apply (@ex_pop F bld P cap calls0 [] None [] (bytes pre) (base ++ l) v gv Hc)|].
    specialize (IH base (pre ++ [IPop]) gv Hseg). rewrite bytes_snoc in IH. change (spanN IPop) with 1 in IH.
    rewrite <- app_assoc in IH. exact IH.
Qed.

Lemma rep_step n : stmt_sim8 n -> rep_sim8 n -> rep_sim8 (S n).
Proof.
  intros IH IHrep b i nv kk R g okf R' g' Hi Hb Hrun pre gv k R2 bind unbind cb tgt whole Hseg Hnames Hdepth Hrel Hsimp Hnv.
  pose proof Hsimp as Hsimp0. apply gsimple_app in Hsimp0. destruct Hsimp0 as [HsR Hsg].
  assert (Hsimp2 : gsimple (R2 ++ g)).
  { unfold R2. cbn [app]. constructor; [exact I|]. constructor; [exact Hnv | exact Hsimp]. }
  assert (HlenR2 : length R2 = S (S (length R))) by reflexivity.
  assert (Hk : N.to_nat k = length R) by (unfold k; apply Nat2N.id).
  assert (Hk1 : N.to_nat (k + 1) = (length R + 1)%nat) by (unfold k; lia).
  assert (Hk2 : N.to_nat (k + 2) = (length R + 2)%nat) by (unfold k; lia).
  assert (Hcap : (length R + 6 < cap)%nat) by lia.
  assert (Hk32 : k + 1 < 4294967296) by (unfold k, cap, stack_size in *; lia).
  assert (Hk32' : k < 4294967296) by lia.
  assert (Hk32'' : k + 2 < 4294967296) by (unfold k, cap, stack_size in *; lia).
  assert (Hst2 : lstack R2 = lstack R ++ [to_vm nv; Vm.VInt kk]) by apply lstack2.
  assert (HlenS2 : length (lstack R2) = S (S (length R))) by (rewrite lstack_length; exact HlenR2).
  set (i4 := IGotoIfFalse (u32_to_i32 tgt)) in *.
  set (tail := [IScalarInt 1; IReadLocalVar (k + 1); IAdd; ISetLocalVar (k + 1); IGoto (u32_to_i32 (bytes pre))]) in *.
  assert (Hseg' : seg' pre (IReadLocalVar (k + 1) :: IReadLocalVar k :: ILess :: i4 :: (bind ++ cb ++ unbind ++ tail ++ [IPop; IPop]))) by exact Hseg.
  destruct (seg_cons _ _ _ Hseg') as [C1 S1]. destruct (seg_cons _ _ _ S1) as [C2 S2].
  destruct (seg_cons _ _ _ S2) as [C3 S3]. destruct (seg_cons _ _ _ S3) as [C4 S4].
  set (pre4 := (((pre ++ [IReadLocalVar (k + 1)]) ++ [IReadLocalVar k]) ++ [ILess]) ++ [i4]) in *.
  assert (Hp4 : bytes pre4 = bytes pre + 16).
  { unfold pre4. rewrite !bytes_snoc. change (spanN i4) with 5. spans. lia. }
  rewrite !bytes_snoc in C2. rewrite !bytes_snoc in C3. rewrite !bytes_snoc in C4. spans_in C2. spans_in C3. spans_in C4.
  pose proof (seg_app_l _ _ _ _ S4) as Sbind. pose proof (seg_app_r _ _ _ _ S4) as S5.
  set (pre5 := pre4 ++ bind) in *.
  assert (Hp5 : bytes pre5 = bytes pre + 16 + bytes bind) by (unfold pre5; rewrite bytes_app, Hp4; reflexivity).
  pose proof (seg_app_l _ _ _ _ S5) as Sb. pose proof (seg_app_r _ _ _ _ S5) as S6.
  pose proof (seg_app_l _ _ _ _ S6) as Sunb. pose proof (seg_app_r _ _ _ _ S6) as St.
  set (pre6 := (pre5 ++ cb) ++ unbind) in *.
  assert (Hp6 : bytes pre6 = bytes pre + 16 + bytes bind + bytes cb + bytes unbind) by (unfold pre6; rewrite !bytes_app, Hp5; reflexivity).
  assert (Hend : bytes (pre ++ whole) = tgt + 2).
  { unfold whole. rewrite !bytes_app. fold i4 tail. unfold tgt.
    change (bytes [IReadLocalVar (k + 1); IReadLocalVar k; ILess; i4]) with 16.
    change (bytes tail) with 25. change (bytes [IPop; IPop]) with 2. lia. }
  pose proof (seg_bound P P_small _ _ Hseg) as Hbound. rewrite Hend in Hbound.
  assert (Hsmall : tgt < 2147483648) by lia.
  assert (Hpre_small : bytes pre < 2147483648) by (unfold tgt in Hsmall; lia).
  (* the head of the loop *)
  remember (match RefSem.v_cmp [] (RefSem.VInt kk) nv with Some (Some Lt) => true | _ => false end) as lt eqn:Elt.
  assert (Hhead : steps' 4 (bytes pre, lstack R2, gv) (if lt then bytes pre4 else tgt, lstack R2, gv)).
  { destruct (vm_binop F [] BLess (RefSem.VInt kk) nv eq_refl I Hnv) as (f & Hf & Hv).
    pose proof (@ex_read_local F bld P cap calls0 [] None [] main_frame0 _ (k + 1) (lstack R2) gv C1 Hk32 ltac:(lia)) as X1.
    rewrite Hk1 in X1.
    replace (nth (length R + 1) (lstack R2) VNil) with (Vm.VInt kk) in X1
      by (rewrite Hst2, <- (app_nil_r (lstack R ++ _)), nth_hidden; reflexivity).
    pose proof (@ex_read_local F bld P cap calls0 [] None [] main_frame0 _ k (lstack R2 ++ [Vm.VInt kk]) gv C2 Hk32'
                  ltac:(rewrite app_length, HlenS2; cbn [length]; lia)) as X2.
    rewrite Hk in X2.
    replace (nth (length R) (lstack R2 ++ [Vm.VInt kk]) VNil) with (to_vm nv) in X2
      by (rewrite Hst2; rewrite <- (Nat.add_0_r (length R)) at 1; rewrite nth_hidden; reflexivity).
    rewrite <- app_assoc in X2. cbn [app] in X2.
    pose proof (@ex_binop F bld P cap calls0 [] None [] _ ILess f (lstack R2) (Vm.VInt kk) (to_vm nv) _ gv C3 Hf Hv ltac:(lia)) as X3.
    pose proof (@ex_goto_if F bld P cap calls0 [] None [] false _ tgt (lstack R2) _ _ gv C4 Hsmall
                  (vm_not F [] _ (binval_simple BLess (RefSem.VInt kk) nv I Hnv))) as X4.
    rewrite less_bool, <- Elt in X4.
    replace (if Bool.eqb lt false then tgt else bytes pre + 5 + 5 + 1 + 5) with (if lt then bytes pre4 else tgt) in X4
      by (rewrite Hp4; destruct lt; cbn [Bool.eqb]; [lia | reflexivity]).
    econstructor; [exact X1|]. econstructor; [exact X2|]. econstructor; [exact X3|]. apply steps_1. exact X4. }
  assert (Hst2' : lstack R2 = (lstack R ++ [to_vm nv]) ++ [Vm.VInt kk]) by (rewrite Hst2, <- app_assoc; reflexivity).
  pose proof (seg_app_r _ _ _ _ St) as Sp.
  assert (Htgt : bytes (pre6 ++ tail) = tgt).
  { rewrite !bytes_app, Hp6. change (bytes tail) with 25. unfold tgt. lia. }
  destruct (seg_cons _ _ _ Sp) as [P1 Sp1]. destruct (seg_cons _ _ _ Sp1) as [P2 _].
  rewrite bytes_snoc in P2. rewrite Htgt in P1, P2. spans_in P2.
  assert (Hexit : lt = false -> (okf, R', g') = (true, R, g) ->
                  cont6 (bytes pre) R2 gv (bytes (pre ++ whole)) okf R' g').
  { intros Hlt E. injection E as -> -> ->. split; [exact Hsimp|].
    exists 6%nat, gv. split; [|exact Hrel]. rewrite Hlt in Hhead.
    apply (steps_trans Hhead). rewrite Hst2', Hend.
    econstructor; [apply (@ex_pop F bld P cap calls0 [] None [] tgt _ _ gv P1)|].
    apply steps_1. replace (tgt + 2) with (tgt + 1 + 1) by lia.
    apply (@ex_pop F bld P cap calls0 [] None [] (tgt + 1) _ _ gv P2). }
  cbn [rep8] in Hrun.
  destruct (RefSem.v_cmp [] (RefSem.VInt kk) nv) as [[[]|]|]; try (apply Hexit; [exact Elt | injection Hrun as <- <- <-; reflexivity]).
  clear Hexit. subst lt. rewrite Hp4 in Hhead.
  change (([], RefSem.VInt kk) :: ([], nv) :: R) with R2 in Hrun.
  set (Rb := lvb i kk ++ R2) in *.
  assert (HlnRb : lnames Rb = lvn i ++ [] :: [] :: lnames R) by (destruct i; reflexivity).
  assert (HlenRb : (length Rb <= length R + 3)%nat) by (destruct i; cbn; lia).
  assert (HsimpRb : gsimple (Rb ++ g)) by (destruct i; cbn [Rb lvb app]; [constructor; [exact I | exact Hsimp2] | exact Hsimp2]).
  assert (Hdb : (S (length Rb + stmt_depth8 b) < cap)%nat) by lia.
  assert (Hb' : ok8 true (lnames Rb) b = true) by (rewrite HlnRb; exact Hb).
  (* the loop variable is bound *)
  assert (Hbind : exists nb, steps' nb (bytes pre + 16, lstack R2, gv) (bytes pre5, lstack Rb, gv)).
  { destruct i as [x|].
    - assert (Sbind' : seg' pre4 [IReadLocalVar (k + 1); ISetLocalVar (k + 2)]) by exact Sbind.
      destruct (seg_cons _ _ _ Sbind') as [B1 Sb1]. destruct (seg_cons _ _ _ Sb1) as [B2 _].
      rewrite bytes_snoc in B2. spans_in B2. rewrite Hp4 in B1, B2.
      pose proof (@ex_read_local F bld P cap calls0 [] None [] main_frame0 _ (k + 1) (lstack R2) gv B1 Hk32 ltac:(lia)) as X1.
      rewrite Hk1 in X1.
      replace (nth (length R + 1) (lstack R2) VNil) with (Vm.VInt kk) in X1
        by (rewrite Hst2, <- (app_nil_r (lstack R ++ _)), nth_hidden; reflexivity).
      pose proof (@ex_set_local F bld P cap calls0 [] None [] main_frame0 _ (k + 2) (lstack R2) (Vm.VInt kk) gv B2 Hk32''
                    ltac:(lia) ltac:(lia)) as X2.
      rewrite Hk2, HlenS2 in X2. replace (length R + 2 =? S (S (length R)))%nat with true in X2 by (symmetry; apply Nat.eqb_eq; lia).
      exists 2%nat. econstructor; [exact X1|]. apply steps_1.
      replace (bytes pre5) with (bytes pre + 16 + 5 + 5) by (rewrite Hp5; change (bytes bind) with 10; lia).
      exact X2.
    - exists 0%nat. replace (bytes pre5) with (bytes pre + 16) by (rewrite Hp5; change (bytes bind) with 0; lia). constructor. }
  destruct Hbind as [nb Hbind].
  destruct (run8 n Rb g b) as [[[[|] R1] g1]|] eqn:E1; try discriminate.
  - (* a round, then the rest *)
    pose proof (IH true b Rb g true R1 g1 Hb' E1 pre5 gv ltac:(rewrite Hp5, HlnRb; exact Sb) ltac:(rewrite HlnRb; exact Hnames) Hdb Hrel HsimpRb)
      as [Hs1 (kb & gv1 & Hstb & Hr1)].
    assert (Hstb' : steps' kb (bytes pre5, lstack Rb, gv) (bytes (pre5 ++ cb), lstack R1, gv1)).
    { replace cb with (code8 T (lnames Rb) (bytes pre5) b) by (unfold cb; rewrite Hp5, HlnRb; reflexivity). exact Hstb. }
    clear Hstb. rename Hstb' into Hstb.
    destruct (proj1 (run8_shape n) true b Rb g R1 g1 Hb' E1) as [F1 N1].
    destruct (fext_round i kk ([], RefSem.VInt kk) ([], nv) R R1 F1) as (top & [a1 a2] & [b1 b2] & Rr & ER1 & EK & F2 & Ea & Eb & Va & Vb).
    cbn [fst snd] in Ea, Eb, Va, Vb. subst a1 b1. specialize (Va eq_refl). specialize (Vb eq_refl). subst a2 b2.
    rewrite EK in Hrun.
    pose proof (frozen_names _ _ F2) as HlnRr.
    pose proof (frozen_length _ _ F2) as HlenRr.
    assert (Hs1' : gsimple (Rr ++ g1)).
    { rewrite ER1 in Hs1. rewrite <- app_assoc in Hs1. apply gsimple_app in Hs1. destruct Hs1 as [_ Hs1].
      cbn [app] in Hs1. inversion Hs1 as [|? ? _ Hs1a]; inversion Hs1a; assumption. }
    set (kk' := RefSem.wrap64 (kk + 1)) in *.
    set (R2r := ([], RefSem.VInt kk) :: ([], nv) :: Rr) in *.
    (* the locals of the body and the loop variable are popped *)
    assert (Hntop : (length (names8 (lvn i ++ lnames R2) b) - S (S (length R)) = length top)%nat).
    { change (lvn i ++ lnames R2) with (lvn i ++ [] :: [] :: lnames R). rewrite <- HlnRb, <- N1, lnames_length, ER1.
      rewrite app_length. cbn [length]. rewrite HlenRr. lia. }
    assert (Hunb : steps' (length top) (bytes (pre5 ++ cb), lstack R1, gv1) (bytes pre6, lstack R2r, gv1)).
    { assert (Sunb' : seg' (pre5 ++ cb) (repeat IPop (length (lstack top)))).
      { rewrite lstack_length, <- Hntop. exact Sunb. }
      pose proof (pops_steps_top (lstack top) (lstack R2r) (pre5 ++ cb) gv1 Sunb') as Hp.
      rewrite lstack_length in Hp. rewrite ER1. change (top ++ ([], RefSem.VInt kk) :: ([], nv) :: Rr) with (top ++ R2r).
      rewrite lstack_app. unfold pre6, unbind. rewrite Hntop. exact Hp. }
    (* the tail of the round *)
    assert (St' : seg' pre6 (IScalarInt 1 :: IReadLocalVar (k + 1) :: IAdd :: ISetLocalVar (k + 1) ::
                                    IGoto (u32_to_i32 (bytes pre)) :: [IPop; IPop])) by exact St.
    destruct (seg_cons _ _ _ St') as [D1 T1]. destruct (seg_cons _ _ _ T1) as [D2 T2].
    destruct (seg_cons _ _ _ T2) as [D3 T3]. destruct (seg_cons _ _ _ T3) as [D4 T4]. destruct (seg_cons _ _ _ T4) as [D5 _].
    rewrite !bytes_snoc in D2. rewrite !bytes_snoc in D3. rewrite !bytes_snoc in D4. rewrite !bytes_snoc in D5.
    spans_in D2. spans_in D3. spans_in D4. spans_in D5.
    set (p0 := bytes pre6) in *.
    assert (Hst1 : lstack R2r = lstack Rr ++ [to_vm nv; Vm.VInt kk]) by apply lstack2.
    assert (HlenS1 : length (lstack R2r) = S (S (length R)))
      by (rewrite lstack_length; cbn [length R2r]; rewrite HlenRr; reflexivity).
    assert (Htail : steps' 5 (p0, lstack R2r, gv1)
                           (bytes pre, lstack (([], RefSem.VInt kk') :: ([], nv) :: Rr), gv1)).
    { set (Sk1 := lstack R2r) in *.
      destruct (vm_binop F [] BAdd (RefSem.VInt 1) (RefSem.VInt kk) eq_refl I I) as (f & Hf & Hv).
      rewrite add_one in Hv. fold kk' in Hv. change (to_vm (RefSem.VInt kk')) with (Vm.VInt kk') in Hv.
      pose proof (@ex_scalar_int F bld P cap calls0 [] None [] p0 1%Z Sk1 gv1 D1 ltac:(lia) ltac:(lia)) as Y1.
      pose proof (@ex_read_local F bld P cap calls0 [] None [] main_frame0 _ (k + 1) (Sk1 ++ [Vm.VInt 1]) gv1 D2 Hk32
                    ltac:(rewrite app_length, HlenS1; cbn [length]; lia)) as Y2.
      rewrite Hk1 in Y2.
      replace (nth (length R + 1) (Sk1 ++ [Vm.VInt 1]) VNil) with (Vm.VInt kk) in Y2
        by (rewrite Hst1, <- HlenRr, nth_hidden; reflexivity).
      rewrite <- app_assoc in Y2. cbn [app] in Y2.
      pose proof (@ex_binop F bld P cap calls0 [] None [] _ IAdd f Sk1 (Vm.VInt 1) (Vm.VInt kk) _ gv1 D3 Hf Hv ltac:(lia)) as Y3.
      pose proof (@ex_set_local F bld P cap calls0 [] None [] main_frame0 _ (k + 1) Sk1 (Vm.VInt kk') gv1 D4 Hk32
                    ltac:(lia) ltac:(lia)) as Y4.
      rewrite Hk1, HlenS1 in Y4.
      replace (length R + 1 =? S (S (length R)))%nat with false in Y4 by (symmetry; apply Nat.eqb_neq; lia).
      replace (upd Sk1 (length R + 1) (Vm.VInt kk')) with (lstack (([], RefSem.VInt kk') :: ([], nv) :: Rr)) in Y4.
      2: { rewrite lstack2, Hst1.
           replace (lstack Rr ++ [to_vm nv; Vm.VInt kk]) with ((lstack Rr ++ [to_vm nv]) ++ [Vm.VInt kk]) by (rewrite <- app_assoc; reflexivity).
           replace (length R + 1)%nat with (length (lstack Rr ++ [to_vm nv])) by (rewrite app_length, lstack_length, HlenRr; reflexivity).
           rewrite upd_app_len', <- app_assoc. reflexivity. }
      pose proof (@ex_goto F bld P cap calls0 [] None [] _ (bytes pre) (lstack (([], RefSem.VInt kk') :: ([], nv) :: Rr)) gv1 D5 Hpre_small) as Y5.
      econstructor; [exact Y1|]. econstructor; [exact Y2|]. econstructor; [exact Y3|]. econstructor; [exact Y4|].
      apply steps_1. exact Y5. }
    (* the remaining rounds *)
    pose proof (IHrep b i nv kk' Rr g1 okf R' g' Hi ltac:(rewrite HlnRr; exact Hb) Hrun pre gv1) as Hnext.
    cbv zeta in Hnext.
    change (lnames (([], RefSem.VInt kk') :: ([], nv) :: Rr)) with ([] :: [] :: lnames Rr) in Hnext.
    rewrite HlenRr, HlnRr in Hnext.
    pose proof (Hnext Hseg Hnames Hdepth Hr1 Hs1' Hnv) as Hrest.
    eapply cont6_prepend; [exact Hhead|]. eapply cont6_prepend; [exact Hbind|]. eapply cont6_prepend; [exact Hstb|].
    eapply cont6_prepend; [exact Hunb|]. eapply cont6_prepend; [exact Htail|]. exact Hrest.
  - (* the body fails *)
    pose proof (IH true b Rb g false R1 g1 Hb' E1 pre5 gv ltac:(rewrite Hp5, HlnRb; exact Sb) ltac:(rewrite HlnRb; exact Hnames) Hdb Hrel HsimpRb)
      as [Hs1 (kb & c1 & nm & Hstb & Herr & Hr1)].
    injection Hrun as <- <- <-.
    split; [exact Hs1|].
    exists (4 + (nb + kb))%nat, c1, nm. split; [|split; [exact Herr | exact Hr1]].
    eapply steps_trans; [exact Hhead|]. eapply steps_trans; [exact Hbind|]. exact Hstb.
Qed.

Lemma seq_sim8 n : stmt_sim8 n ->
  forall decl cs R g okf R' g', oks8 decl (lnames R) cs = true -> runs8 n R g cs = Some (okf, R', g') ->
  forall pre gv,
    seg' pre (code_seq8 T (lnames R) (bytes pre) cs) ->
    (forall x, In x (gnames_seq8 (lnames R) cs) -> In x names /\ nm_find (handle_of_bytes x) T <> None) ->
    (S (length R + seq_depth8 cs) < cap)%nat -> grel' g gv -> gsimple (R ++ g) ->
    cont6 (bytes pre) R gv (bytes (pre ++ code_seq8 T (lnames R) (bytes pre) cs)) okf R' g'.
Proof.
  intros Hn decl. induction cs as [|c r IH]; intros R g okf R' g' Hc Hrun pre gv Hseg Hnames Hd Hrel Hsimp.
  - cbn [runs8] in Hrun. injection Hrun as <- <- <-. cbn [code_seq8]. rewrite app_nil_r.
    apply cont6_done; assumption.
  - cbn [oks8] in Hc. apply andb_true_iff in Hc. destruct Hc as [Hc Hcr].
    cbn [runs8 code_seq8 gnames_seq8] in *. cbv zeta in *.
    set (cc := code8 T (lnames R) (bytes pre) c) in *.
    assert (Hnc : forall x, In x (gnames8 (lnames R) c) -> In x names /\ nm_find (handle_of_bytes x) T <> None)
      by (intros x Hx; apply Hnames, in_or_app; auto).
    assert (Hnr : forall x, In x (gnames_seq8 (names8 (lnames R) c) r) -> In x names /\ nm_find (handle_of_bytes x) T <> None)
      by (intros x Hx; apply Hnames, in_or_app; auto).
    assert (Eb : bytes (pre ++ cc) = bytes pre + bytes cc) by apply bytes_app.
    destruct (seq_depth8_cons c r) as [Hd1 Hd2].
    destruct (run8 n R g c) as [[[[|] R1] g1]|] eqn:E1; try discriminate.
    + pose proof (Hn decl c R g true R1 g1 Hc E1 pre gv (seg_app_l _ _ _ _ Hseg) Hnc ltac:(lia) Hrel Hsimp)
        as [Hs1 (k1 & gv1 & Hst1 & Hr1)]. fold cc in Hst1.
      pose proof (run8_names n decl c R g R1 g1 Hc E1) as Hl1.
      assert (HlenR : (length R1 <= length R + maxdecl8 c)%nat).
      { rewrite <- (lnames_length R1), Hl1. pose proof (names8_length (lnames R) c) as H. rewrite lnames_length in H. lia. }
      pose proof (IH R1 g1 okf R' g' ltac:(rewrite Hl1; exact Hcr) Hrun (pre ++ cc) gv1
                   ltac:(rewrite Hl1, Eb; apply seg_app_r; exact Hseg) ltac:(rewrite Hl1; exact Hnr)
                   ltac:(lia) Hr1 Hs1) as H2.
      rewrite Hl1, Eb in H2. rewrite <- app_assoc in H2.
      rewrite Eb in Hst1. eapply cont6_prepend; [exact Hst1 | exact H2].
    + injection Hrun as <- <- <-.
      pose proof (Hn decl c R g false R1 g1 Hc E1 pre gv (seg_app_l _ _ _ _ Hseg) Hnc ltac:(lia) Hrel Hsimp)
        as [Hs1 H1]. split; [exact Hs1|]. exact H1.
Qed.

Lemma sim8_step n : stmt_sim8 n -> rep_sim8 n -> stmt_sim8 (S n).
Proof.
  intros IH IHrep decl c R g okf R' g' Hc Hrun pre gv Hseg Hnames Hdepth Hrel Hsimp.
  pose proof Hsimp as Hsimp2. apply gsimple_app in Hsimp2. destruct Hsimp2 as [HsR Hsg].
  pose proof Hc as Hc0.
  destruct c; cbn [ok8] in Hc; try discriminate Hc.
  - (* CBin *)
    clear Hc0.
    destruct op; try discriminate Hc; apply andb_true_iff in Hc; destruct Hc as [He Hb];
      cbn [run8 code8 gnames8 stmt_depth8] in *; cbv zeta in *;
      set (ce := code_expr5 T (lnames R) c1) in *;
      set (cb := code8 T (lnames R) (bytes pre + bytes ce + 5) c2) in *;
      assert (Hne : forall x, In x (expr_gnames (lnames R) c1) -> In x names /\ nm_find (handle_of_bytes x) T <> None)
        by (intros x Hx; apply Hnames, in_or_app; auto);
      assert (Hnb : forall x, In x (gnames8 (lnames R) c2) -> In x names /\ nm_find (handle_of_bytes x) T <> None)
        by (intros x Hx; apply Hnames, in_or_app; auto).
    + (* IfTrue *)
      set (tgt := bytes pre + bytes ce + 5 + bytes cb) in *.
      set (J := IGotoIfFalse (u32_to_i32 tgt)) in *.
      assert (Hend : bytes (pre ++ ce ++ J :: cb) = tgt).
      { rewrite !bytes_app. cbn [bytes]. change (spanN J) with 5. unfold tgt. lia. }
      assert (Hsmall : tgt < 2147483648) by (pose proof (seg_bound P P_small _ _ Hseg) as Hb'; rewrite Hend in Hb'; lia).
      destruct (ev (R ++ g) c1) as [v|] eqn:Ev.
      * destruct (RefSem.v_bool [] v) eqn:Ebv.
        -- destruct (seg_mid P _ _ _ _ Hseg) as (_ & _ & Sb).
           assert (Hpre' : bytes (pre ++ ce ++ [J]) = bytes pre + bytes ce + 5).
           { rewrite !bytes_app. cbn [bytes]. change (spanN J) with 5. lia. }
           pose proof (IH false c2 R g okf R' g' Hb Hrun (pre ++ ce ++ [J]) gv ltac:(rewrite Hpre'; exact Sb) Hnb ltac:(lia) Hrel Hsimp) as Hbody.
           rewrite Hpre' in Hbody. fold cb in Hbody. rewrite <- !app_assoc in Hbody. cbn [app] in Hbody.
           apply (branch_sim6 false c1 pre cb tgt R g gv okf R' g' He Hseg Hsmall Hne ltac:(lia) Hrel Hsimp).
           rewrite Ev, Ebv. cbn [Bool.eqb]. fold ce. exact Hbody.
        -- injection Hrun as <- <- <-.
           apply (branch_sim6 false c1 pre cb tgt R g gv true R g He Hseg Hsmall Hne ltac:(lia) Hrel Hsimp).
           rewrite Ev, Ebv. cbn [Bool.eqb]. fold ce. fold J. rewrite Hend. apply cont6_done; assumption.
      * injection Hrun as <- <- <-.
        apply (branch_sim6 false c1 pre cb tgt R g gv false R g He Hseg Hsmall Hne ltac:(lia) Hrel Hsimp).
        rewrite Ev. reflexivity.
    + (* IfFalse *)
      set (tgt := bytes pre + bytes ce + 5 + bytes cb) in *.
      set (J := IGotoIfTrue (u32_to_i32 tgt)) in *.
      assert (Hend : bytes (pre ++ ce ++ J :: cb) = tgt).
      { rewrite !bytes_app. cbn [bytes]. change (spanN J) with 5. unfold tgt. lia. }
      assert (Hsmall : tgt < 2147483648) by (pose proof (seg_bound P P_small _ _ Hseg) as Hb'; rewrite Hend in Hb'; lia).
      destruct (ev (R ++ g) c1) as [v|] eqn:Ev.
      * destruct (RefSem.v_bool [] v) eqn:Ebv.
        -- injection Hrun as <- <- <-.
           apply (branch_sim6 true c1 pre cb tgt R g gv true R g He Hseg Hsmall Hne ltac:(lia) Hrel Hsimp).
           rewrite Ev, Ebv. cbn [Bool.eqb]. fold ce. fold J. rewrite Hend. apply cont6_done; assumption.
        -- destruct (seg_mid P _ _ _ _ Hseg) as (_ & _ & Sb).
           assert (Hpre' : bytes (pre ++ ce ++ [J]) = bytes pre + bytes ce + 5).
           { rewrite !bytes_app. cbn [bytes]. change (spanN J) with 5. lia. }
           pose proof (IH false c2 R g okf R' g' Hb Hrun (pre ++ ce ++ [J]) gv ltac:(rewrite Hpre'; exact Sb) Hnb ltac:(lia) Hrel Hsimp) as Hbody.
           rewrite Hpre' in Hbody. fold cb in Hbody. rewrite <- !app_assoc in Hbody. cbn [app] in Hbody.
           apply (branch_sim6 true c1 pre cb tgt R g gv okf R' g' He Hseg Hsmall Hne ltac:(lia) Hrel Hsimp).
           rewrite Ev, Ebv. cbn [Bool.eqb]. fold ce. exact Hbody.
      * injection Hrun as <- <- <-.
        apply (branch_sim6 true c1 pre cb tgt R g gv false R g He Hseg Hsmall Hne ltac:(lia) Hrel Hsimp).
        rewrite Ev. reflexivity.
    + (* While *)
      set (tgt := bytes pre + bytes ce + 5 + (bytes cb + 5)) in *.
      set (J := IGotoIfFalse (u32_to_i32 tgt)) in *.
      set (jg := IGoto (u32_to_i32 (bytes pre))) in *.
      assert (Hend : bytes (pre ++ ce ++ J :: cb ++ [jg]) = tgt).
      { rewrite !bytes_app. cbn [bytes]. rewrite bytes_app. cbn [bytes].
        change (spanN J) with 5. change (spanN jg) with 5. unfold tgt. lia. }
      assert (Hsmall : tgt < 2147483648) by (pose proof (seg_bound P P_small _ _ Hseg) as Hb'; rewrite Hend in Hb'; lia).
      assert (Hpre_small : bytes pre < 2147483648) by (unfold tgt in Hsmall; lia).
      destruct (ev (R ++ g) c1) as [v|] eqn:Ev.
      * destruct (RefSem.v_bool [] v) eqn:Ebv.
        -- destruct (seg_mid P _ _ _ _ Hseg) as (_ & _ & Srest).
           assert (Hpre' : bytes (pre ++ ce ++ [J]) = bytes pre + bytes ce + 5).
           { rewrite !bytes_app. cbn [bytes]. change (spanN J) with 5. lia. }
           destruct (run8 n R g c2) as [[[[|] R1] g1]|] eqn:Eb; try discriminate.
           ++ pose proof (IH false c2 R g true R1 g1 Hb Eb (pre ++ ce ++ [J]) gv
                           ltac:(rewrite Hpre'; eapply seg_app_l; exact Srest) Hnb ltac:(lia) Hrel Hsimp)
                as [Hs1 (kb & gv1 & Hstb & Hr1)].
              rewrite Hpre' in Hstb. fold cb in Hstb.
              pose proof (run8_names n false c2 R g R1 g1 Hb Eb) as Hl1. rewrite (ok8_false_names _ _ Hb) in Hl1.
              assert (HlenR : length R1 = length R) by (rewrite <- (lnames_length R1), Hl1, lnames_length; reflexivity).
              assert (Hcg : code_at P (bytes ((pre ++ ce ++ [J]) ++ cb)) jg).
              { eapply seg_instr. eapply seg_app_r. exact Srest. }
              pose proof (@ex_goto F bld P cap calls0 [] None [] _ (bytes pre) (lstack R1) gv1 Hcg Hpre_small) as Hgo.
              pose proof (IH decl (CBin BWhile c1 c2) R1 g1 okf R' g' ltac:(cbn [ok8]; rewrite Hl1, He, Hb; reflexivity) Hrun pre gv1
                           ltac:(cbn [code8]; cbv zeta; rewrite Hl1; exact Hseg)
                           ltac:(cbn [gnames8]; rewrite Hl1; exact Hnames)
                           ltac:(cbn [stmt_depth8]; rewrite HlenR; exact Hdepth) Hr1 Hs1) as Hrest.
              cbn [code8] in Hrest. cbv zeta in Hrest. rewrite Hl1 in Hrest. fold ce cb tgt J jg in Hrest. rewrite Hend in Hrest.
              apply (branch_sim6 false c1 pre (cb ++ [jg]) tgt R g gv okf R' g' He Hseg Hsmall Hne ltac:(lia) Hrel Hsimp).
              rewrite Ev, Ebv. cbn [Bool.eqb]. fold ce. fold J. rewrite Hend.
              eapply cont6_prepend; [exact Hstb|]. eapply cont6_prepend; [apply steps_1; exact Hgo | exact Hrest].
           ++ injection Hrun as <- <- <-.
              pose proof (IH false c2 R g false R1 g1 Hb Eb (pre ++ ce ++ [J]) gv
                           ltac:(rewrite Hpre'; eapply seg_app_l; exact Srest) Hnb ltac:(lia) Hrel Hsimp)
                as [Hs1 (kb & c1' & nm & Hstb & Herr & Hr1)].
              rewrite Hpre' in Hstb.
              apply (branch_sim6 false c1 pre (cb ++ [jg]) tgt R g gv false R1 g1 He Hseg Hsmall Hne ltac:(lia) Hrel Hsimp).
              rewrite Ev, Ebv. cbn [Bool.eqb]. split; [exact Hs1|]. exists kb, c1', nm. auto.
        -- injection Hrun as <- <- <-.
           apply (branch_sim6 false c1 pre (cb ++ [jg]) tgt R g gv true R g He Hseg Hsmall Hne ltac:(lia) Hrel Hsimp).
           rewrite Ev, Ebv. cbn [Bool.eqb]. fold ce. fold J. rewrite Hend. apply cont6_done; assumption.
      * injection Hrun as <- <- <-.
        apply (branch_sim6 false c1 pre (cb ++ [jg]) tgt R g gv false R g He Hseg Hsmall Hne ltac:(lia) Hrel Hsimp).
        rewrite Ev. reflexivity.
  - (* IfElse *)
    clear Hc0.
    destruct op; try discriminate Hc. apply andb_true_iff in Hc. destruct Hc as [Hc Hb].
    apply andb_true_iff in Hc. destruct Hc as [He Ha].
    cbn [run8 code8 gnames8 stmt_depth8] in *; cbv zeta in *.
    set (ce := code_expr5 T (lnames R) c1) in *.
    set (ca := code8 T (lnames R) (bytes pre + bytes ce + 5) c2) in *.
    set (else_at := bytes pre + bytes ce + 5 + bytes ca + 5) in *.
    set (cb := code8 T (lnames R) else_at c3) in *.
    set (jf := IGotoIfFalse (u32_to_i32 else_at)) in *.
    set (jg := IGoto (u32_to_i32 (else_at + bytes cb))) in *.
    assert (Hend : bytes (pre ++ ce ++ jf :: ca ++ jg :: cb) = else_at + bytes cb).
    { rewrite !bytes_app. cbn [bytes]. rewrite bytes_app. cbn [bytes].
      change (spanN jf) with 5. change (spanN jg) with 5. unfold else_at. lia. }
    assert (Hsmall : else_at + bytes cb < 2147483648) by (pose proof (seg_bound P P_small _ _ Hseg) as Hb'; rewrite Hend in Hb'; lia).
    assert (Hne : forall x, In x (expr_gnames (lnames R) c1) -> In x names /\ nm_find (handle_of_bytes x) T <> None)
      by (intros x Hx; apply Hnames, in_or_app; auto).
    assert (Hna : forall x, In x (gnames8 (lnames R) c2) -> In x names /\ nm_find (handle_of_bytes x) T <> None)
      by (intros x Hx; apply Hnames, in_or_app; right; apply in_or_app; auto).
    assert (Hnb : forall x, In x (gnames8 (lnames R) c3) -> In x names /\ nm_find (handle_of_bytes x) T <> None)
      by (intros x Hx; apply Hnames, in_or_app; right; apply in_or_app; auto).
    destruct (seg_mid P _ _ _ _ Hseg) as (_ & _ & Srest).
    destruct (seg_mid P _ _ _ _ Srest) as (Sa & Hcg & Sb).
    assert (Hpre1 : bytes (pre ++ ce ++ [jf]) = bytes pre + bytes ce + 5).
    { rewrite !bytes_app. cbn [bytes]. change (spanN jf) with 5. lia. }
    assert (Hpre2 : bytes ((pre ++ ce ++ [jf]) ++ ca ++ [jg]) = else_at).
    { rewrite bytes_app, Hpre1, bytes_app. cbn [bytes]. change (spanN jg) with 5. unfold else_at. lia. }
    destruct (ev (R ++ g) c1) as [v|] eqn:Ev.
    + destruct (RefSem.v_bool [] v) eqn:Ebv.
      * pose proof (IH false c2 R g okf R' g' Ha Hrun (pre ++ ce ++ [jf]) gv ltac:(rewrite Hpre1; exact Sa) Hna ltac:(lia) Hrel Hsimp) as [Hs1 Hbody].
        rewrite Hpre1 in Hbody. fold ca in Hbody.
        apply (branch_sim6 false c1 pre (ca ++ jg :: cb) else_at R g gv okf R' g' He Hseg ltac:(lia) Hne ltac:(lia) Hrel Hsimp).
        rewrite Ev, Ebv. cbn [Bool.eqb]. fold ce. fold jf. rewrite Hend.
        split; [exact Hs1|]. destruct okf.
        -- destruct Hbody as (k & gv' & Hst & Hr'). exists (k + 1)%nat, gv'. split; [|exact Hr'].
           eapply steps_trans; [exact Hst|]. apply steps_1.
           apply (@ex_goto F bld P cap calls0 [] None [] _ (else_at + bytes cb) (lstack R') gv' Hcg Hsmall).
        -- exact Hbody.
      * pose proof (IH false c3 R g okf R' g' Hb Hrun ((pre ++ ce ++ [jf]) ++ ca ++ [jg]) gv ltac:(rewrite Hpre2; exact Sb) Hnb ltac:(lia) Hrel Hsimp) as Hbody.
        rewrite Hpre2 in Hbody. fold cb in Hbody.
        replace (((pre ++ ce ++ [jf]) ++ ca ++ [jg]) ++ cb) with (pre ++ ce ++ jf :: ca ++ jg :: cb) in Hbody
          by (rewrite <- ?app_assoc; cbn [app]; rewrite <- ?app_assoc; cbn [app]; reflexivity).
        apply (branch_sim6 false c1 pre (ca ++ jg :: cb) else_at R g gv okf R' g' He Hseg ltac:(lia) Hne ltac:(lia) Hrel Hsimp).
        rewrite Ev, Ebv. cbn [Bool.eqb]. fold ce. fold jf. exact Hbody.
    + injection Hrun as <- <- <-.
      apply (branch_sim6 false c1 pre (ca ++ jg :: cb) else_at R g gv false R g He Hseg ltac:(lia) Hne ltac:(lia) Hrel Hsimp).
      rewrite Ev. reflexivity.
  - (* Comment *)
    cbn [run8] in Hrun. injection Hrun as <- <- <-. cbn [code8]. rewrite app_nil_r.
    apply cont6_done; assumption.
  - (* SetGlobalVar *)
    clear Hc0.
    apply andb_true_iff in Hc. destruct Hc as [Hne He].
    cbn [run8 code8 gnames8 stmt_depth8] in *.
    set (ce := code_expr5 T (lnames R) c) in *.
    pose proof (seg_app_l _ _ _ _ Hseg) as Se. pose proof (seg_app_r _ _ _ _ Hseg) as Si.
    assert (Hne' : forall x, In x (expr_gnames (lnames R) c) -> In x names /\ nm_find (handle_of_bytes x) T <> None)
      by (intros x Hx; apply Hnames, in_or_app; auto).
    destruct (Hnames name) as [Hgin Hgfound]; [apply in_or_app; right; left; reflexivity|].
    pose proof (expr_on_locals6 c pre R g gv He Se Hne' Hrel Hsimp Hdepth) as Hex. fold ce in Hex.
    destruct (ev (R ++ g) c) as [v|] eqn:Ev.
    + injection Hrun as <- <- <-.
      pose proof (ev_simple _ _ _ Hsimp Ev) as Hv.
      unfold idT in *. destruct (nm_find (handle_of_bytes name) T) as [id|] eqn:Eid; [|congruence].
      assert (Hid : id < 4294967296) by (rewrite <- two32_eq; eapply T_lt; eauto).
      pose proof (seg_instr _ _ _ _ Si) as Hci.
      pose proof (@ex_set_global F bld P cap calls0 [] None [] _ id (lstack R) (to_vm v) gv Hci Hid) as Hset.
      split.
      { apply gsimple_app. split; [exact HsR | apply set_assoc_simple; assumption]. }
      exists (length ce + 1)%nat, (gset gv id (to_vm v)). split; [|apply grel_set; auto].
      eapply steps_trans; [exact Hex|]. apply steps_1.
      rewrite app_assoc, bytes_snoc. change (spanN (ISetGlobalVar id)) with 5. exact Hset.
    + injection Hrun as <- <- <-.
      destruct Hex as (k & c1 & nm & Hst & Herr & Hg). eapply cont6_err; eauto.
  - (* SetVar: an assignment, or - in a declaring position - a declaration *)
    clear Hc0.
    apply andb_true_iff in Hc. destruct Hc as [Hc He]. apply andb_true_iff in Hc. destruct Hc as [Hx Hdm].
    cbn [run8 code8 gnames8 stmt_depth8] in *.
    set (ce := code_expr5 T (lnames R) c) in *.
    pose proof (seg_app_l _ _ _ _ Hseg) as Se. pose proof (seg_app_r _ _ _ _ Hseg) as Si.
    pose proof (expr_on_locals6 c pre R g gv He Se Hnames Hrel Hsimp ltac:(lia)) as Hex. fold ce in Hex.
    destruct (ev (R ++ g) c) as [v|] eqn:Ev.
    2:{ injection Hrun as <- <- <-.
        destruct Hex as (k & c1 & nm & Hst & Herr & Hg). eapply cont6_err; eauto. }
    injection Hrun as <- <- <-.
    pose proof (ev_simple _ _ _ Hsimp Ev) as Hv.
    unfold sets_local. change (map fst R) with (lnames R).
    destruct (lmem name (lnames R)) eqn:Hm.
    + destruct (lmem_some _ _ Hm) as [old Eold].
      destruct (slot_local name R old Eold) as (i & Hi & Hlt & _ & Hupd).
      destruct (Hupd v) as [Hu Hl].
      unfold set_slot in *. rewrite Hi in *.
      pose proof (seg_instr _ _ _ _ Si) as Hci.
      assert (Hi32 : N.of_nat i < 4294967296) by (rewrite lstack_length in Hlt; unfold cap, stack_size in *; lia).
      pose proof (@ex_set_local F bld P cap calls0 [] None [] main_frame0 _ (N.of_nat i) (lstack R) (to_vm v) gv Hci Hi32) as Hset.
      rewrite Nat2N.id in Hset. specialize (Hset ltac:(lia) ltac:(rewrite lstack_length; lia)).
      replace (i =? length (lstack R))%nat with false in Hset by (symmetry; apply Nat.eqb_neq; lia).
      rewrite Hu in Hset.
      split.
      { apply gsimple_app. split; [apply set_assoc_simple; assumption | exact Hsg]. }
      exists (length ce + 1)%nat, gv. split; [|exact Hrel].
      eapply steps_trans; [exact Hex|]. apply steps_1.
      rewrite app_assoc, bytes_snoc. change (spanN (ISetLocalVar (N.of_nat i))) with 5. exact Hset.
    + destruct (lmem_none _ _ Hm) as [_ Hs]. unfold set_slot in *. rewrite Hs in *.
      pose proof (seg_instr _ _ _ _ Si) as Hci. rewrite lnames_length in *.
      assert (Hi32 : N.of_nat (length R) < 4294967296) by (unfold cap, stack_size in *; lia).
      pose proof (@ex_set_local F bld P cap calls0 [] None [] main_frame0 _ (N.of_nat (length R)) (lstack R) (to_vm v) gv Hci Hi32) as Hset.
      rewrite Nat2N.id, lstack_length in Hset. specialize (Hset ltac:(lia) ltac:(lia)).
      rewrite Nat.eqb_refl in Hset. rewrite <- lstack_cons with (x := name) in Hset.
      split.
      { cbn [app]. constructor; [exact Hv | exact Hsimp]. }
      exists (length ce + 1)%nat, gv. split; [|exact Hrel].
      eapply steps_trans; [exact Hex|]. apply steps_1.
      rewrite app_assoc, bytes_snoc. change (spanN (ISetLocalVar _)) with 5. exact Hset.
  - (* Repeat *)
    clear Hc0.
    apply andb_true_iff in Hc. destruct Hc as [Hc Hb]. apply andb_true_iff in Hc. destruct Hc as [He Hi].
    cbn [run8 code8 gnames8 stmt_depth8] in *. cbv zeta in *.
    rewrite lnames_length in Hseg |- *.
    set (k := N.of_nat (length R)) in *.
    set (cn := code_expr5 T (lnames R) c1) in *.
    set (b0 := bytes pre + bytes cn + 19) in *.
    set (bind := match i with Some _ => [IReadLocalVar (k + 1); ISetLocalVar (k + 2)] | None => [] end) in *.
    set (unbind := repeat IPop (length (names8 (lvn i ++ [] :: [] :: lnames R) c2) - S (S (length R)))) in *.
    set (cb := code8 T (lvn i ++ [] :: [] :: lnames R) (b0 + 16 + bytes bind) c2) in *.
    set (tgt := b0 + 16 + bytes bind + bytes cb + bytes unbind + 25) in *.
    set (rest := [IReadLocalVar (k + 1); IReadLocalVar k; ILess; IGotoIfFalse (u32_to_i32 tgt)] ++
                 bind ++ cb ++ unbind ++
                 [IScalarInt 1; IReadLocalVar (k + 1); IAdd; ISetLocalVar (k + 1); IGoto (u32_to_i32 b0)] ++ [IPop; IPop]) in *.
    assert (Hne : forall x, In x (expr_gnames (lnames R) c1) -> In x names /\ nm_find (handle_of_bytes x) T <> None)
      by (intros x Hx; apply Hnames, in_or_app; auto).
    assert (Hnb : forall x, In x (gnames8 (lvn i ++ [] :: [] :: lnames R) c2) -> In x names /\ nm_find (handle_of_bytes x) T <> None)
      by (intros x Hx; apply Hnames, in_or_app; auto).
    pose proof (seg_app_l _ _ _ _ Hseg) as Se. pose proof (seg_app_r _ _ _ _ Hseg) as Sr.
    pose proof (expr_on_locals6 c1 pre R g gv He Se Hne Hrel Hsimp ltac:(lia)) as Hex. fold cn in Hex.
    destruct (ev (R ++ g) c1) as [nv|] eqn:Ev.
    2: { injection Hrun as <- <- <-.
         destruct Hex as (k0 & c1' & nm & Hst & Herr & Hg). eapply cont6_err; eauto. }
    pose proof (ev_simple _ _ _ Hsimp Ev) as Hnv.
    assert (Sr' : seg' (pre ++ cn) (ISetLocalVar k :: IScalarInt 0 :: ISetLocalVar (k + 1) :: rest)) by exact Sr.
    destruct (seg_cons _ _ _ Sr') as [E1c Q1]. destruct (seg_cons _ _ _ Q1) as [E2c Q2]. destruct (seg_cons _ _ _ Q2) as [E3c Q3].
    set (pre3 := (((pre ++ cn) ++ [ISetLocalVar k]) ++ [IScalarInt 0]) ++ [ISetLocalVar (k + 1)]) in *.
    assert (Hp3 : bytes pre3 = b0).
    { unfold pre3. rewrite !bytes_snoc, bytes_app. spans. unfold b0. lia. }
    rewrite !bytes_snoc in E2c. rewrite !bytes_snoc in E3c. spans_in E2c. spans_in E3c.
    assert (Hcap : (length R + 6 < cap)%nat) by lia.
    assert (Hk32 : k + 1 < 4294967296) by (unfold k, cap, stack_size in *; lia).
    assert (Hk : N.to_nat k = length R) by (unfold k; apply Nat2N.id).
    assert (Hk1 : N.to_nat (k + 1) = (length R + 1)%nat) by (unfold k; lia).
    set (R2 := ([], RefSem.VInt 0) :: ([], nv) :: R).
    assert (Hsetup : steps' 3 (bytes (pre ++ cn), lstack R ++ [to_vm nv], gv) (b0, lstack R2, gv)).
    { pose proof (@ex_set_local F bld P cap calls0 [] None [] main_frame0 _ k (lstack R) (to_vm nv) gv E1c ltac:(lia)
                    ltac:(rewrite Hk, lstack_length; lia) ltac:(rewrite lstack_length; lia)) as Z1.
      rewrite Hk, lstack_length, Nat.eqb_refl in Z1.
      pose proof (@ex_scalar_int F bld P cap calls0 [] None [] _ 0%Z (lstack R ++ [to_vm nv]) gv E2c ltac:(lia)
                    ltac:(rewrite app_length, lstack_length; cbn [length]; lia)) as Z2.
      pose proof (@ex_set_local F bld P cap calls0 [] None [] main_frame0 _ (k + 1) (lstack R ++ [to_vm nv]) (Vm.VInt 0) gv E3c Hk32
                    ltac:(rewrite Hk1, app_length, lstack_length; cbn [length]; lia)
                    ltac:(rewrite app_length, lstack_length; cbn [length]; lia)) as Z3.
      rewrite Hk1, app_length, lstack_length in Z3. cbn [length] in Z3. rewrite Nat.eqb_refl in Z3.
      replace ((lstack R ++ [to_vm nv]) ++ [Vm.VInt 0]) with (lstack R2) in Z3
        by (unfold R2; rewrite lstack2, <- app_assoc; reflexivity).
      replace (bytes (pre ++ cn) + 5 + 9 + 5) with b0 in Z3 by (unfold b0; rewrite bytes_app; lia).
      econstructor; [exact Z1|]. econstructor; [exact Z2|]. apply steps_1. exact Z3. }
    pose proof (IHrep c2 i nv 0%Z R g okf R' g' Hi Hb Hrun pre3 gv) as Hnext.
    cbv zeta in Hnext. rewrite Hp3 in Hnext.
    assert (Hdb : (S (length R + 3 + Nat.max 2 (stmt_depth8 c2)) < cap)%nat) by lia.
    pose proof (Hnext Q3 Hnb Hdb Hrel Hsimp Hnv) as Hrest.
    replace (pre ++ cn ++ [ISetLocalVar k; IScalarInt 0; ISetLocalVar (k + 1)] ++ rest) with (pre3 ++ rest)
      by (unfold pre3; rewrite <- !app_assoc; reflexivity).
    eapply cont6_prepend; [|exact Hrest].
    eapply steps_trans; [exact Hex | exact Hsetup].
  - (* Composite *)
    rewrite code8_composite in *. rewrite run8_composite in Hrun. rewrite ok8_composite in Hc0.
    rewrite gnames8_composite in Hnames. rewrite stmt_depth8_composite in Hdepth.
    apply (seq_sim8 n IH decl cards R g okf R' g' Hc0 Hrun pre gv Hseg Hnames Hdepth Hrel Hsimp).
Qed.

Lemma sim_rep8 n : stmt_sim8 n /\ rep_sim8 n.
Proof.
  induction n as [|n [IH1 IH2]].
  - split; [intros decl c R g okf R' g' _ H; discriminate H | intros b i nv kk R g okf R' g' _ _ H; discriminate H].
  - split; [apply sim8_step | apply rep_step]; assumption.
Qed.
Lemma sim8 n : stmt_sim8 n.
Proof. apply sim_rep8. Qed.

End Run8.

(* ------------------------------------------------------------------ the theorem *)
Theorem compile_correct_f8 F bld M B fuel host o :
  in_f8 M = true ->
  depth_ok8 (main_cards M) = true ->
  compile M default_options = COk B ->
  N.of_nat (length (Compiler.p_ids B)) < two32 ->
  N.of_nat (length (Compiler.p_bytecode B)) < 2147483648 ->
  RefSem.eval_program fuel M host = RefSem.PObs o ->
  exists N0 : nat, forall budget : nat, (N0 <= budget)%nat ->
    let r := Vm.run F bld budget (C15Link.to_vm B) fresh_state in
    vm_kind (fst r) = Some (RefSem.ob_kind o) /\
    forall n, no_collision (gnames_seq8 [] (main_cards M)) n ->
      option_map vm_tree (read_var_by_name (C15Link.to_vm B) (snd r) n) = RefSem.assoc n (RefSem.ob_globals o).
Proof.
  intros HM Hdepth HB Hlen Hsmall Href.
  destruct (compile_f8_shape M B HM HB Hlen) as (rest & Hbc & Hnames & Tinj & Tlt & Hinj).
  destruct (eval_program_f8 fuel M host o HM Href) as (nf & Rf & g & Hrun & Hkind & HsR & Hgs & Hglob).
  pose proof (in_f8_cards M HM) as Hcards.
  set (T := Compiler.p_ids B) in *. set (cards := main_cards M) in *. set (names := gnames_seq8 [] cards) in *.
  set (P := C15Link.to_vm B).
  set (cm := code_seq8 T [] 0 cards) in *.
  set (npop := length (names_seq8 [] cards)) in *.
  assert (Hcode : p_code P = encode (cm ++ repeat IPop npop ++ IExit :: rest)).
  { change (p_code P) with (Compiler.p_bytecode B). rewrite Hbc. unfold code_all8. fold cm npop.
    rewrite <- !app_assoc. reflexivity. }
  assert (Psmall : code_len P < 2147483648) by exact Hsmall.
  assert (Hseg : seg P [] (code_seq8 T (lnames []) (bytes []) cards)) by (eexists; exact Hcode).
  assert (Hnm : forall x, In x (gnames_seq8 (lnames []) cards) -> In x names /\ nm_find (handle_of_bytes x) T <> None)
    by (intros x Hx; split; [exact Hx | apply Hnames, Hx]).
  assert (Hrel0 : grel T names [] []).
  { intros x _. unfold gread. cbn [RefSem.assoc option_map].
    destruct (nm_find (handle_of_bytes x) T) as [id|]; [|reflexivity]. destruct (N.to_nat id); reflexivity. }
  assert (Hread : forall s' gv', st_globals s' = gv' -> grel T names g gv' ->
            forall x, no_collision names x ->
            option_map vm_tree (read_var_by_name P (set_calls s' []) x) = RefSem.assoc x (RefSem.ob_globals o)).
  { intros s' gv' Hg' Hrel x Hx. rewrite Hglob, assoc_map_tree, (Hrel x Hx). f_equal.
    unfold read_var_by_name, gread. cbn [st_globals set_calls]. rewrite Hg', assoc_nm_find. reflexivity. }
  assert (Hdep : (S (length (@nil (str * RefSem.value)) + seq_depth8 cards) < cap)%nat).
  { unfold depth_ok8 in Hdepth. apply Nat.ltb_lt in Hdepth. exact Hdepth. }
  pose proof (seq_sim8 F bld P T names Psmall nf (sim8 F bld P T names Tlt Tinj Hinj Psmall nf)
                true cards [] [] _ Rf g Hcards Hrun [] [] Hseg Hnm Hdep Hrel0 (Forall_nil _)) as [_ Hsim].
  change (bytes []) with 0 in Hsim. change (lnames []) with (@nil str) in *. fold cm in Hsim.
  change (lstack []) with (@nil value) in Hsim.
  destruct (RefSem.ob_kind o) as [|kk] eqn:Ek.
  - destruct Hsim as (k & gv' & Hsteps & Hrel).
    pose proof (runs8_names nf true cards [] [] Rf g Hcards Hrun) as Hln. change (lnames []) with (@nil str) in Hln.
    assert (Hnp : length (lstack Rf) = npop) by (rewrite lstack_length, <- (lnames_length Rf), Hln; reflexivity).
    assert (Spop : seg P cm (repeat IPop (length (lstack Rf)))) by (rewrite Hnp; eexists; exact Hcode).
    pose proof (pops_steps F bld P (lstack Rf) cm gv' Spop) as Hpops. rewrite Hnp in Hpops.
    pose proof (steps_trans Hsteps Hpops) as Hall.
    exists (k + npop + 2)%nat. intros budget Hbud r.
    set (re := run_at F bld P false (N.of_nat budget) 129).
    set (s2 := set_rem (set_calls fresh_state calls0) (N.of_nat budget)).
    assert (Hr : r = finish P (loop F bld P re budget 0 s2)).
    { subst r. unfold run, run_gen.
      change (push_frame fresh_state (mkFrame 0 0 0 None)) with (Some (set_calls fresh_state calls0)).
      change max_depth with (S 129). cbv beta iota zeta. rewrite run_at_S. cbn [st_rem set_rem]. rewrite Nat2N.id. reflexivity. }
    clearbody r. subst r.
    pose proof (St_entry (N.of_nat budget)) as HS2. fold s2 in HS2.
    destruct (loop_steps re Hall (budget - (k + npop)) HS2) as (s' & HS' & El); [cbn [fst snd]; lia|].
    cbn [fst snd] in HS', El. replace (k + npop + (budget - (k + npop)))%nat with budget in El by lia.
    assert (Hex : code_at P (bytes (cm ++ repeat IPop npop)) IExit).
    { eapply code_at_encode. rewrite Hcode, <- app_assoc. reflexivity. }
    replace (budget - (k + npop))%nat with (S (budget - (k + npop) - 1)) in El by lia.
    destruct (loop_exit F bld re (budget - (k + npop) - 1) HS' Hex) as (s'' & Eex & _ & Hg''); [lia|].
    rewrite Eex in El.
    rewrite El. cbn [finish outcome_of fst snd vm_kind]. split; [reflexivity|].
    eapply Hread; eauto.
  - destruct Hkind as [Hk|Hk]; [discriminate|]. injection Hk as ->.
    destruct Hsim as (k & c1 & nm & Hsteps & Herr & Hrel).
    exists (k + 2)%nat. intros budget Hbud r.
    set (re := run_at F bld P false (N.of_nat budget) 129).
    set (s2 := set_rem (set_calls fresh_state calls0) (N.of_nat budget)).
    assert (Hr : r = finish P (loop F bld P re budget 0 s2)).
    { subst r. unfold run, run_gen.
      change (push_frame fresh_state (mkFrame 0 0 0 None)) with (Some (set_calls fresh_state calls0)).
      change max_depth with (S 129). cbv beta iota zeta. rewrite run_at_S. cbn [st_rem set_rem]. rewrite Nat2N.id. reflexivity. }
    clearbody r. subst r.
    pose proof (St_entry (N.of_nat budget)) as HS2. fold s2 in HS2.
    destruct (loop_steps re Hsteps (budget - k) HS2) as (s' & HS' & El); [cbn [fst snd]; lia|].
    cbn [fst snd] in El. replace (k + (budget - k))%nat with budget in El by lia.
    replace (budget - k)%nat with (S (budget - k - 1)) in El by lia.
    destruct (@loop_err F bld P _ _ _ _ _ re (budget - k - 1) c1 _ s' _ Herr HS') as (s'' & Eerr & Hg''); [lia|].
    rewrite Eerr in El.
    rewrite El. cbn [finish outcome_of fst snd vm_kind kind_of_err]. split; [reflexivity|].
    eapply Hread; eauto.
Qed.
