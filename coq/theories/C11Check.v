(* Executable checker for C11: the two hand-written map deserializers against the model, and
   format round trips whose verdict is computed by the harness. *)
From Cao Require Export CheckUtil Bits F32Load Consts ProbeDefs HashMap HashMapConsts HandleTable
     HandleTableConsts Serde.
Local Open Scope N_scope.

(* CaoHashMap<i64, i64>: keys hashed by the FNV model *)
Definition hm11_de (hint : option nat) (l : list (Z * Z)) :=
  hm_de Z.eqb hash_i64 fib_home64 cneeds_grow cnew_cap hint l.
Definition ht11_de (hint : option nat) (l : list (N * Z)) :=
  ht_de fib_home32 ht_needs_grow ht_grow_cap ht_min_cap_nat hint l.

Definition zz_eqb (a b : Z * Z) : bool := Z.eqb (fst a) (fst b) && Z.eqb (snd a) (snd b).
Definition nz_eqb (a b : N * Z) : bool := N.eqb (fst a) (fst b) && Z.eqb (snd a) (snd b).

Fixpoint zlook (l : list (Z * Z)) (k : Z) : option Z :=
  match l with [] => None | (k', v) :: r => if Z.eqb k k' then Some v else zlook r k end.
Fixpoint nlook (l : list (N * Z)) (k : N) : option Z :=
  match l with [] => None | (k', v) :: r => if N.eqb k k' then Some v else nlook r k end.

Inductive c11case :=
(* entries in serialization order, size hint the format gives, decoded map: iteration order, capacity *)
| HmRt (hint : option nat) (ser : list (Z * Z)) (dec : list (Z * Z)) (cap : nat)
| HtRt (hint : option nat) (ser : list (N * Z)) (dec : list (N * Z)) (cap : nat)
(* format round trip judged by the harness: ok?, known-finding class (0 = none) *)
| RtCase (kind : N) (ok : bool) (known : N).

Definition check1 (c : c11case) : list N :=
  match c with
  | HmRt hint ser dec cap =>
      (match hm11_de hint ser with
       | Ok m => if list_eqb zz_eqb (iter_op m) dec && Nat.eqb (hcap m) cap then [] else [1]
       | _ => [1]
       end) ++
      (if Nat.eqb (length ser) (length dec)
          && forallb (fun e => opt_eqb Z.eqb (zlook dec (fst e)) (Some (snd e))) ser then [] else [2])
  | HtRt hint ser dec cap =>
      (match ht11_de hint ser with
       | Ok m => if list_eqb nz_eqb (ht_iter m) dec && Nat.eqb (hcap m) cap then [] else [1]
       | _ => [1]
       end) ++
      (if Nat.eqb (length ser) (length dec)
          && forallb (fun e => opt_eqb Z.eqb (nlook dec (fst e)) (Some (snd e))) ser then [] else [2])
  | RtCase _ ok known => if ok then [] else if N.eqb known 0 then [2] else [known]
  end.

Definition check_all := CheckUtil.check_all check1.
