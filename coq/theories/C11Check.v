(* Executable checker for C11: the two hand-written map deserializers against the model, format round trips
   whose verdict is computed by the harness, and the OwnedValue conversions (Vm::insert_value followed by
   OwnedValue::try_from) against the model Owned.v. *)
From Cao Require Export CheckUtil Bits F32Load Consts ProbeDefs HashMap HashMapConsts HandleTable
     HandleTableConsts Serde.
From Cao Require Vm VmFloat Owned.
Local Open Scope N_scope.

(* ---- OwnedValue terms as the harness prints them ---- *)
Definition owned := Owned.owned.
Definition onil : owned := Owned.ONil.
Definition oint (z : Z) : owned := Owned.OInt z.
Definition oreal (bits : N) : owned := Owned.OReal bits.
Definition ostr (s : list N) : owned := Owned.OStr s.
Definition otable (l : list (owned * owned)) : owned := Owned.OTable l.

Definition is_nan64 (x : N) : bool := match VmFloat.fl_cmp x x with None => true | Some _ => false end.

(* structural equality; reals by bit pattern, with [nan_eq] any two NaNs are alike (a format may change the
   payload) *)
Fixpoint owned_eqb (nan_eq : bool) (a b : owned) : bool :=
  match a, b with
  | Owned.ONil, Owned.ONil => true
  | Owned.OInt x, Owned.OInt y => Z.eqb x y
  | Owned.OReal x, Owned.OReal y => N.eqb x y || (nan_eq && is_nan64 x && is_nan64 y)
  | Owned.OStr s, Owned.OStr t => list_eqb N.eqb s t
  | Owned.OTable l, Owned.OTable m =>
      (fix go (l m : list (Owned.owned * Owned.owned)) {struct l} : bool :=
         match l, m with
         | [], [] => true
         | (k, v) :: l', (k2, v2) :: m' => owned_eqb nan_eq k k2 && owned_eqb nan_eq v v2 && go l' m'
         | _, _ => false
         end) l m
  | _, _ => false
  end.

(* the model's prediction of try_from(insert_value(o)) in a fresh VM; None = the model does not answer a value *)
Definition model_roundtrip (o : owned) : option owned :=
  match Owned.insert_owned VmFloat.flocq_ops [] o with
  | Owned.IOk h v =>
      match Owned.owned_of VmFloat.flocq_ops 64 h v with
      | Owned.CvOk r => Some r
      | _ => None
      end
  | _ => None
  end.

(* CaoHashMap<i64, i64>: keys hashed by the FNV model *)
Definition hm11_de (hint : option nat) (l : list (Z * Z)) :=
  hm_de Z.eqb hash_i64 fib_home64 cneeds_grow cnew_cap hint l.
Definition ht11_de (hint : option nat) (l : list (N * Z)) :=
  ht_de fib_home32 ht_needs_grow ht_grow_cap ht_min_cap_nat hint l.

Definition zz_eqb (a b : Z * Z) : bool := Z.eqb (fst a) (fst b) && Z.eqb (snd a) (snd b).
Definition nz_eqb (a b : N * Z) : bool := N.eqb (fst a) (fst b) && Z.eqb (snd a) (snd b).

Fixpoint zlook (l : list (Z * Z)) (k : Z) : option Z :=
  match l with [] => None | (k', v) :: r => if Z.eqb k k' then Some v else zlook r k end.
Fixpoint nlook (l : list (N * Z)) (k : N) : option Z :=
  match l with [] => None | (k', v) :: r => if N.eqb k k' then Some v else nlook r k end.

Inductive c11case :=
(* entries in serialization order, size hint the format gives, decoded map: iteration order, capacity *)
| HmRt (hint : option nat) (ser : list (Z * Z)) (dec : list (Z * Z)) (cap : nat)
| HtRt (hint : option nat) (ser : list (N * Z)) (dec : list (N * Z)) (cap : nat)
(* format round trip judged by the harness: ok?, known-finding class (0 = none) *)
| RtCase (kind : N) (ok : bool) (known : N)
(* o: an OwnedValue; direct = try_from(insert_value(o)) in one VM; back = the same value after a format round
   trip of [direct] and insert_value + try_from in a second VM (None = the format failed); known = the
   known-finding class of a format failure (0 = none) *)
| OwRt (o direct : owned) (back : option owned) (known : N).

Definition check1 (c : c11case) : list N :=
  match c with
  | HmRt hint ser dec cap =>
      (match hm11_de hint ser with
       | Ok m => if list_eqb zz_eqb (iter_op m) dec && Nat.eqb (hcap m) cap then [] else [1]
       | _ => [1]
       end) ++
      (if Nat.eqb (length ser) (length dec)
          && forallb (fun e => opt_eqb Z.eqb (zlook dec (fst e)) (Some (snd e))) ser then [] else [2])
  | HtRt hint ser dec cap =>
      (match ht11_de hint ser with
       | Ok m => if list_eqb nz_eqb (ht_iter m) dec && Nat.eqb (hcap m) cap then [] else [1]
       | _ => [1]
       end) ++
      (if Nat.eqb (length ser) (length dec)
          && forallb (fun e => opt_eqb Z.eqb (nlook dec (fst e)) (Some (snd e))) ser then [] else [2])
  | RtCase _ ok known => if ok then [] else if N.eqb known 0 then [2] else [known]
  | OwRt o direct back known =>
      (* model: insert_owned into the empty heap, then owned_of *)
      (if opt_eqb (owned_eqb false) (model_roundtrip o) (Some direct) then [] else [1]) ++
      (* specification: an owned value of the round-trip class comes back bit for bit ... *)
      (if Owned.owned_ok VmFloat.flocq_ops o then (if owned_eqb false o direct then [] else [2]) else []) ++
      (* ... and what try_from answered survives the format and the second VM *)
      (match back with
       | Some b => if owned_eqb true direct b then [] else if N.eqb known 0 then [2] else [known]
       | None => if N.eqb known 0 then [2] else [known]
       end)
  end.

Definition check_all := CheckUtil.check_all check1.
