(* C04 - "running is total", Part E.6: which instructions leave the tables of the heap alone, and the
   preservation of heap_acyclic by every instruction except SetProperty, AppendTable and the natives. *)
From Coq Require Import NArith ZArith List Lia Bool.
From Cao Require Import ListUtil Bits Stacks Vm VmProofs C04VmProofs C04VmProofs2 C04VmProofs3 C04VmProofs4 C04VmProofs5
  C04VmProofs6 C04VmProofs8.
Import ListNotations.

Lemma spop_heap s s1 v : spop s = (s1, v) -> st_heap s1 = st_heap s.
Proof. unfold spop. destruct (vs_pop _ _); intros H; inversion H; reflexivity. Qed.
Lemma spush_heap s v s1 : spush s v = Some s1 -> st_heap s1 = st_heap s.
Proof. unfold spush. destruct (vs_push _ _) as [k []]; intros H; inversion H; reflexivity. Qed.
Lemma sset_heap s i v s1 : sset s i v = Some s1 -> st_heap s1 = st_heap s.
Proof. unfold sset. destruct (vs_step _ _ _) as [k []]; intros H; inversion H; reflexivity. Qed.
Lemma write_local_heap s off h v s1 : write_local s off h v = Some s1 -> st_heap s1 = st_heap s.
Proof. apply sset_heap. Qed.
Lemma sclear_until_heap s h s1 v : sclear_until s h = (s1, v) -> st_heap s1 = st_heap s.
Proof. unfold sclear_until. destruct (vs_step _ _ _) as [k []]; intros H; inversion H; reflexivity. Qed.
Lemma spop_w_offset_heap s h s1 v : spop_w_offset s h = (s1, v) -> st_heap s1 = st_heap s.
Proof. unfold spop_w_offset. destruct (vs_step _ _ _) as [k []]; intros H; inversion H; reflexivity. Qed.
Lemma push_frame_heap s f s1 : push_frame s f = Some s1 -> st_heap s1 = st_heap s.
Proof. unfold push_frame. destruct (_ <=? _); intros H; inversion H; reflexivity. Qed.
Lemma push_next_heap ip s v s' : res_st (push_next ip s v) = Some s' -> st_heap s' = st_heap s.
Proof. apply res_st_push_next. Qed.

Ltac note_heap :=
  repeat match goal with
         | H : spush _ _ = Some _ |- _ => apply spush_heap in H
         | H : spop _ = (_, _) |- _ => apply spop_heap in H
         | H : sset _ _ _ = Some _ |- _ => apply sset_heap in H
         | H : sclear_until _ _ = (_, _) |- _ => apply sclear_until_heap in H
         | H : spop_w_offset _ _ = (_, _) |- _ => apply spop_w_offset_heap in H
         | H : push_frame _ _ = Some _ |- _ => apply push_frame_heap in H
         | H : write_local _ _ _ _ = Some _ |- _ => apply write_local_heap in H
         | H : res_st (push_next _ _ _) = Some _ |- _ => apply push_next_heap in H
         end.

Ltac crack H :=
  repeat match type of H with
         | context [match ?x with _ => _ end] => destruct x eqn:?; cbn [res_st] in H; try discriminate H
         end.

Ltac heap_done H :=
  crack H; cbn [res_st] in H; try (inversion H; subst; clear H); note_heap;
  cbn [st_heap set_calls set_globals set_stack set_open set_log] in *; congruence.


Lemma same_tables_refl h : same_tables h h.
Proof. intros a t. tauto. Qed.
Lemma same_tables_trans h1 h2 h3 : same_tables h1 h2 -> same_tables h2 h3 -> same_tables h1 h3.
Proof. intros A B a t. rewrite (B a t). apply A. Qed.
Lemma same_tables_eq h h' : h' = h -> same_tables h h'.
Proof. intros ->. apply same_tables_refl. Qed.

Lemma same_tables_alloc h o : (forall t, o <> OTable t) -> same_tables h (h ++ [o]).
Proof.
  intros Ho a t. split; intros H.
  - destruct (hget_app_inv _ _ _ _ H) as [H1|[_ E]]; [exact H1 | exfalso; eapply Ho; eauto].
  - rewrite hget_app_old; [exact H | congruence].
Qed.

Definition no_table_at (h : heap) (a : N) : Prop := forall t, hget h a <> Some (OTable t).

Lemma same_tables_hset h a o' : no_table_at h a -> (forall t, o' <> OTable t) -> same_tables h (hset h a o').
Proof.
  intros Ha Ho b t. destruct (N.eq_dec a b) as [<-|Hne].
  - split; intros H; [|exfalso; eapply Ha; eauto].
    destruct (hget h a) eqn:E.
    + rewrite hget_hset_same in H by congruence. inversion H. exfalso. eapply Ho; eauto.
    + exfalso. assert (H1 : hget (hset h a o') a <> None) by congruence.
      rewrite hget_lt, hset_length, <- hget_lt in H1. congruence.
  - rewrite hget_hset_other by exact Hne. tauto.
Qed.

Lemma no_table_at_same h h' a : same_tables h h' -> no_table_at h a -> no_table_at h' a.
Proof. intros Hs Ha t H. apply Hs in H. eapply Ha; eauto. Qed.

Lemma no_table_at_obj h a o : hget h a = Some o -> (forall t, o <> OTable t) -> no_table_at h a.
Proof. intros Ha Ho t H. rewrite Ha in H. inversion H. eapply Ho; eauto. Qed.

Lemma close_upvalues_go_tables : forall fuel top s,
  match close_upvalues_go fuel top s with
  | ClOk s' | ClErr _ s' => same_tables (st_heap s) (st_heap s')
  | ClStop _ _ => True
  end.
Proof.
  induction fuel as [|f IH]; intros top s; cbn [close_upvalues_go]; [exact I|].
  destruct (st_open s) as [a|]; [|apply same_tables_refl].
  destruct (hget (st_heap s) a) as [[| | | | |u]|] eqn:Ea; try exact I; try apply same_tables_refl.
  destruct (u_loc u) as [l|]; [|exact I].
  destruct (l <? top); [apply same_tables_refl|].
  match goal with |- match close_upvalues_go f top ?x with _ => _ end => specialize (IH top x) end.
  destruct (close_upvalues_go f top _); try exact I; cbn [set_open set_heap st_heap] in IH;
    (eapply same_tables_trans; [|exact IH]; apply same_tables_hset; [|intros; discriminate];
     eapply no_table_at_obj; [exact Ea | intros; discriminate]).
Qed.

(* an error result keeps the heap of a state reached so far *)
Ltac dis H :=
  first [ discriminate H
        | (cbn [res_st] in H; inversion H; subst; clear H;
           first [ apply same_tables_refl
                 | (apply same_tables_eq; note_heap; cbn [st_heap set_calls set_stack set_open] in *; congruence) ]) ].

Section HeapSame.
Variable F : fops.
Variable bld : build.
Variable P : program.
Variable reenter : N -> state -> rres.

Lemma binary_op_heap ip s op s' : res_st (binary_op ip s op) = Some s' -> st_heap s' = st_heap s.
Proof. unfold binary_op, of_vres. intros H. heap_done H. Qed.
Lemma i_5_heap opc ip0 ip s s' : res_st (i_5 P opc ip0 ip s) = Some s' -> st_heap s' = st_heap s.
Proof. unfold i_5. intros H. heap_done H. Qed.
Lemma i_6_heap opc ip0 ip s s' : res_st (i_6 P opc ip0 ip s) = Some s' -> st_heap s' = st_heap s.
Proof. unfold i_6. intros H. heap_done H. Qed.
Lemma i_17_heap opc ip0 ip s s' : res_st (i_17 P opc ip0 ip s) = Some s' -> st_heap s' = st_heap s.
Proof. unfold i_17. intros H. heap_done H. Qed.
Lemma i_18_heap opc ip0 ip s s' : res_st (i_18 P opc ip0 ip s) = Some s' -> st_heap s' = st_heap s.
Proof. unfold i_18. intros H. heap_done H. Qed.
Lemma i_19_heap opc ip0 ip s s' : res_st (i_19 P opc ip0 ip s) = Some s' -> st_heap s' = st_heap s.
Proof. unfold i_19. intros H. heap_done H. Qed.
Lemma i_20_heap opc ip0 ip s s' : res_st (i_20 P opc ip0 ip s) = Some s' -> st_heap s' = st_heap s.
Proof. unfold i_20. intros H. heap_done H. Qed.
Lemma i_21_heap opc ip0 ip s s' : res_st (i_21 opc ip0 ip s) = Some s' -> st_heap s' = st_heap s.
Proof.
  unfold i_21. intros H. destruct (top_offset s) as [off|]; [|discriminate]. inversion H; subst.
  unfold sclear_until. cbn [vs_step fst set_stack st_heap]. reflexivity.
Qed.
Lemma i_23_heap opc ip0 ip s s' : res_st (i_23 opc ip0 ip s) = Some s' -> st_heap s' = st_heap s.
Proof. unfold i_23. intros H. heap_done H. Qed.
Lemma i_27_heap opc ip0 ip s s' : res_st (i_27 F opc ip0 ip s) = Some s' -> st_heap s' = st_heap s.
Proof. unfold i_27. intros H. heap_done H. Qed.
Lemma i_28_heap opc ip0 ip s s' : res_st (i_28 bld P opc ip0 ip s) = Some s' -> st_heap s' = st_heap s.
Proof. unfold i_28. intros H. heap_done H. Qed.
Lemma i_29_30_heap opc ip0 ip s s' : res_st (i_29_30 F bld P opc ip0 ip s) = Some s' -> st_heap s' = st_heap s.
Proof. unfold i_29_30. intros H. heap_done H. Qed.
Lemma i_32_heap opc ip0 ip s s' : res_st (i_32 F opc ip0 ip s) = Some s' -> st_heap s' = st_heap s.
Proof. unfold i_32. intros H. heap_done H. Qed.
Lemma i_34_heap opc ip0 ip s s' : res_st (i_34 opc ip0 ip s) = Some s' -> st_heap s' = st_heap s.
Proof. unfold i_34. intros H. heap_done H. Qed.
Lemma i_35_heap opc ip0 ip s s' : res_st (i_35 P opc ip0 ip s) = Some s' -> st_heap s' = st_heap s.
Proof. unfold i_35. intros H. heap_done H. Qed.
Lemma i_36_heap opc ip0 ip s s' : res_st (i_36 F bld P opc ip0 ip s) = Some s' -> st_heap s' = st_heap s.
Proof. unfold i_36. intros H. heap_done H. Qed.

(* CallFunction of a script function or closure *)
Lemma i_11_heap opc ip0 ip s s' :
  (forall a h, top1 s = VObj a -> hget (st_heap s) a <> Some (ONative h)) ->
  res_st (i_11 F P reenter opc ip0 ip s) = Some s' -> st_heap s' = st_heap s.
Proof.
  unfold i_11, top1. intros Hn H. destruct (spop s) as [s1 fv] eqn:E1. cbn [snd] in Hn.
  pose proof (spop_heap _ _ _ E1) as Hh.
  assert (Herr : forall e ip1, res_st (SErr e ip1 s1) = Some s' -> st_heap s' = st_heap s).
  { intros e ip1 E. cbn [res_st] in E. inversion E; subst. exact Hh. }
  destruct fv as [| | |a]; try (eapply Herr; exact H).
  destruct (hget (st_heap s1) a) as [o|] eqn:Ea; [|discriminate H].
  destruct o; try (eapply Herr; exact H).
  - heap_done H.
  - exfalso. apply (Hn a h eq_refl). rewrite <- Hh. exact Ea.
  - heap_done H.
Qed.

(* allocation of an object that is not a table *)
Lemma alloc_push_tables ip s o s' : (forall t, o <> OTable t) ->
  res_st (let '(s1, a) := salloc s o in push_next ip s1 (VObj a)) = Some s' -> same_tables (st_heap s) (st_heap s').
Proof.
  intros Ho H. unfold salloc, halloc in H. apply push_next_heap in H. rewrite H. cbn [set_heap st_heap].
  apply same_tables_alloc; exact Ho.
Qed.
Lemma i_8_tables opc ip0 ip s s' : res_st (i_8 P opc ip0 ip s) = Some s' -> same_tables (st_heap s) (st_heap s').
Proof.
  unfold i_8. intros H. destruct (op_u32 P ip); [|dis H]. destruct (read_str _ _); try dis H.
  eapply alloc_push_tables; [|exact H]. intros; discriminate.
Qed.
Lemma i_38_tables opc ip0 ip s s' : res_st (i_38 P opc ip0 ip s) = Some s' -> same_tables (st_heap s) (st_heap s').
Proof.
  unfold i_38. intros H. destruct (op_u32 P ip); [|dis H]. destruct (read_str _ _); try dis H.
  eapply alloc_push_tables; [|exact H]. intros; discriminate.
Qed.
Lemma i_37_42_tables opc ip0 ip s s' : res_st (i_37_42 P opc ip0 ip s) = Some s' -> same_tables (st_heap s) (st_heap s').
Proof.
  unfold i_37_42. intros H. destruct (op_u32 P ip); [|dis H]. destruct (op_u32 P (ip + 4)); [|dis H].
  eapply alloc_push_tables; [|exact H]. destruct (opc =? 37)%N; intros; discriminate.
Qed.

(* Return / CloseUpvalue *)
Lemma i_22_tables opc ip0 ip s s' : res_st (i_22 opc ip0 ip s) = Some s' -> same_tables (st_heap s) (st_heap s').
Proof.
  unfold i_22. intros H. destruct (st_calls s) as [|fr rest]; [dis H|]. cbv zeta in H.
  pose proof (close_upvalues_go_tables (S (length (st_heap (set_calls s rest)))) (N.to_nat (fr_off fr)) (set_calls s rest)) as Ec.
  unfold close_upvalues_from in H. destruct (close_upvalues_go _ _ _) as [s2|e s2|]; [| |discriminate H].
  - cbn [set_calls st_heap] in Ec. destruct (sclear_until s2 _) as [s3 v] eqn:E3. apply sclear_until_heap in E3.
    destruct rest; [cbn [res_st] in H; inversion H; subst; rewrite E3; exact Ec|].
    apply push_next_heap in H. rewrite H, E3. exact Ec.
  - cbn [res_st] in H. inversion H; subst. exact Ec.
Qed.
Lemma i_46_tables opc ip0 ip s s' : res_st (i_46 P opc ip0 ip s) = Some s' -> same_tables (st_heap s) (st_heap s').
Proof.
  unfold i_46. intros H. destruct (op_u32 P ip); [|dis H]. destruct (top_offset s); [|dis H].
  pose proof (close_upvalues_go_tables (S (length (st_heap s))) (n0 + N.to_nat n) s) as Ec.
  unfold close_upvalues_from in H. destruct (close_upvalues_go _ _ _) as [s2|e s2|]; [| |discriminate H];
    cbn [res_st] in H; inversion H; subst; exact Ec.
Qed.

(* SetUpvalue / ReadUpvalue *)
Lemma i_43_44_tables opc ip0 ip s s' : res_st (i_43_44 P opc ip0 ip s) = Some s' -> same_tables (st_heap s) (st_heap s').
Proof.
  unfold i_43_44. intros H. destruct (op_u32 P ip); [|dis H]. cbv zeta in H.
  assert (Hs1 : forall s1 wv, (if (opc =? 43)%N then spop s else (s, VNil)) = (s1, wv) -> st_heap s1 = st_heap s).
  { intros s1 wv E. destruct (opc =? 43)%N; [eapply spop_heap; eauto | inversion E; reflexivity]. }
  destruct (if (opc =? 43)%N then spop s else (s, VNil)) as [s1 wv] eqn:E1. pose proof (Hs1 _ _ eq_refl) as Hh.
  destruct (st_calls s1) as [|fr rest]; [dis H|]. destruct (fr_clo fr) as [ca|]; [|dis H].
  destruct (hget (st_heap s1) ca) as [[| | | |hd ar ups|]|]; try dis H.
  destruct (nth_error ups _) as [ua|]; [|dis H].
  destruct (hget (st_heap s1) ua) as [[| | | | |u]|] eqn:Eua; try dis H.
  destruct (opc =? 43)%N.
  - cbn [res_st] in H. destruct (u_loc u); cbn [res_st] in H; inversion H; subst; cbn [sraw_set set_stack set_heap st_heap]; rewrite <- Hh;
      [apply same_tables_refl|].
    apply same_tables_hset; [eapply no_table_at_obj; [exact Eua | intros; discriminate] | intros; discriminate].
  - apply push_next_heap in H. rewrite H, Hh. apply same_tables_refl.
Qed.

(* RegisterUpvalue *)
Lemma i_45_tables opc ip0 ip s s' : res_st (i_45 P opc ip0 ip s) = Some s' -> same_tables (st_heap s) (st_heap s').
Proof.
  unfold i_45. intros H.
  destruct (read_le (p_code P) ip 1) as [index|]; [|dis H]. destruct (read_le (p_code P) (ip + 1) 1) as [is_local|]; [|dis H].
  cbv zeta in H. destruct (spop s) as [s1 cv] eqn:E1. apply spop_heap in E1. rewrite <- E1.
  destruct cv as [| | |ca]; try dis H.
  destruct (hget (st_heap s1) ca) as [[| | | |ch car cups|]|] eqn:Eca; try dis H.
  assert (Hca : no_table_at (st_heap s1) ca) by (eapply no_table_at_obj; [exact Eca | intros; discriminate]).
  assert (Hclo : forall x sx, same_tables (st_heap s1) (st_heap sx) ->
            same_tables (st_heap s1) (st_heap (set_heap sx (hset (st_heap sx) ca (OClo ch car (cups ++ [x])))))).
  { intros x sx Hs. cbn [set_heap st_heap]. eapply same_tables_trans; [exact Hs|].
    apply same_tables_hset; [eapply no_table_at_same; eauto | intros; discriminate]. }
  destruct (negb (is_local =? 0)%N).
  - destruct (top_offset s1) as [off|]; [|dis H]. destruct (scount s1 <=? _); [dis H|].
    destruct (walk_open _ _ _ _ _) as [prev cur|]; [|dis H].
    match type of H with res_st (if ?c then _ else _) = _ => destruct c end.
    + destruct cur; [|dis H]. cbn [res_st] in H. inversion H; subst. apply Hclo. apply same_tables_refl.
    + unfold salloc, halloc in H. cbn [res_st] in H. inversion H; subst. apply Hclo.
      set (h2 := st_heap s1 ++ [OUp (mkUp (Some (off + N.to_nat index)) VNil cur)]).
      assert (H2 : same_tables (st_heap s1) h2) by (apply same_tables_alloc; intros; discriminate).
      destruct prev as [pa|]; [|exact H2]. cbn [set_heap st_heap].
      destruct (hget h2 pa) as [[| | | | |pu]|] eqn:Epa; try exact H2.
      cbn [set_heap st_heap]. eapply same_tables_trans; [exact H2|].
      apply same_tables_hset; [eapply no_table_at_obj; [exact Epa | intros; discriminate] | intros; discriminate].
  - destruct (st_calls s1) as [|fr rest]; [dis H|]. destruct (fr_clo fr) as [fa|]; [|dis H].
    destruct (hget (st_heap s1) fa) as [[| | | |fh far fups|]|]; try dis H.
    destruct (nth_error fups _); [|dis H]. cbn [res_st] in H. inversion H; subst. apply Hclo. apply same_tables_refl.
Qed.

End HeapSame.

(* heap_acyclic is kept by every instruction except SetProperty (33), AppendTable (40) and the natives
   (CallNative 4, CallFunction 11 of a native function value); for 33 / 40 see set_property_ranked,
   append_table_ranked (C04VmProofs8.v) *)
Theorem step_keeps_acyclic : forall F bld P reenter ip0 s s',
  res_st (step F bld P reenter ip0 s) = Some s' ->
  heap_acyclic (st_heap s) -> heap_closed (st_heap s) ->
  ~ In (opcode_at P ip0) [4; 33; 40]%N ->
  (opcode_at P ip0 = 11%N -> forall a h, top1 s = VObj a -> hget (st_heap s) a <> Some (ONative h)) ->
  heap_acyclic (st_heap s').
Proof.
  intros F bld P reenter ip0 s s' H Hac Hc Hnot H11. unfold step in H. cbv zeta in H.
  fold (opcode_at P ip0) in H. remember (opcode_at P ip0) as k eqn:Ek.
  assert (Heq : forall h', h' = st_heap s -> heap_acyclic h') by (intros h' ->; exact Hac).
  assert (Htab : forall h', same_tables (st_heap s) h' -> heap_acyclic h').
  { intros h' Hs. eapply heap_acyclic_same_tables; eauto. }
  destruct k as [|p]; [|do 6 (try destruct p as [p|p|])]; try discriminate H;
    try (exfalso; apply Hnot; cbn [In]; tauto).
  all: try (match type of H with res_st (SExit _) = _ => cbn [res_st] in H; inversion H; subst; exact Hac end).
  all: try (apply Heq;
    match type of H with
    | context [binary_op] => eapply binary_op_heap; exact H
    | context [i_5] => eapply i_5_heap; exact H
    | context [i_6] => eapply i_6_heap; exact H
    | context [i_17] => eapply i_17_heap; exact H
    | context [i_18] => eapply i_18_heap; exact H
    | context [i_19] => eapply i_19_heap; exact H
    | context [i_20] => eapply i_20_heap; exact H
    | context [i_21] => eapply i_21_heap; exact H
    | context [i_23] => eapply i_23_heap; exact H
    | context [i_27] => eapply i_27_heap; exact H
    | context [i_28] => eapply i_28_heap; exact H
    | context [i_29_30] => eapply i_29_30_heap; exact H
    | context [i_32] => eapply i_32_heap; exact H
    | context [i_34] => eapply i_34_heap; exact H
    | context [i_35] => eapply i_35_heap; exact H
    | context [i_36] => eapply i_36_heap; exact H
    | context [i_11] => eapply i_11_heap; [apply H11; reflexivity | exact H]
    | context [push_next] => eapply push_next_heap; exact H
    end).
  all: try (apply Htab;
    match type of H with
    | context [i_8] => eapply i_8_tables; exact H
    | context [i_38] => eapply i_38_tables; exact H
    | context [i_37_42] => eapply i_37_42_tables; exact H
    | context [i_22] => eapply i_22_tables; exact H
    | context [i_46] => eapply i_46_tables; exact H
    | context [i_43_44] => eapply i_43_44_tables; exact H
    | context [i_45] => eapply i_45_tables; exact H
    end).
  all: try (match type of H with
    | context [i_31] => eapply init_table_acyclic; eauto
    | context [i_39] => eapply nth_row_acyclic; eauto
    | context [i_41] => destruct Hac as [rk Hr]; exists rk; eapply pop_table_ranked; eauto
    end).
  (* Pop *)
  cbn [res_st] in H. inversion H; subst. apply Heq. destruct (spop s) as [s1 v] eqn:E. cbn [fst]. eapply spop_heap; eauto.
Qed.
