(* Executable correspondence checker for C12 (CaoHashMap). Keys are (instance id, i64 value):
   equality and hashing look at the value only, the instance id identifies the object for the
   drop log.  Values are instance ids. *)
From Cao Require Export CheckUtil Bits F32Load Consts ProbeDefs HashMap HashMapConsts.
From Coq Require Import Sorting.Mergesort Orders.
Local Open Scope N_scope.

Definition ckey : Type := (N * Z)%type.
Definition ckeqb (a b : ckey) : bool := Z.eqb (snd a) (snd b).
Definition chash (k : ckey) : N := hash_i64 (snd k).
Definition clone_off : N := 1000000.
Definition cclone_k (k : ckey) : ckey := (fst k + clone_off, snd k).
Definition cclone_v (v : N) : N := v + clone_off.

Definition cstep := @hm_step ckey N ckeqb chash fib_home64 cneeds_grow cnew_cap cclone_k cclone_v.
Definition crun := @hm_run ckey N ckeqb chash fib_home64 cneeds_grow cnew_cap cclone_k cclone_v.
Definition cop := hop ckey N.
Definition cout := hout ckey N.

(* monomorphic constructors for the generated case files *)
Definition hins (k : ckey) (v : N) (ok : bool) : cop := @HInsert ckey N k v ok.
Definition hinsh (h : N) (k : ckey) (v : N) (ok : bool) : cop := @HInsertH ckey N h k v ok.
Definition hrem (k : ckey) : cop := @HRemove ckey N k.
Definition hremh (h : N) (k : ckey) : cop := @HRemoveH ckey N h k.
Definition hget (k : ckey) : cop := @HGet ckey N k.
Definition hgeth (h : N) (k : ckey) : cop := @HGetH ckey N h k.
Definition hcon (k : ckey) : cop := @HContains ckey N k.
Definition hconh (h : N) (k : ckey) : cop := @HContainsH ckey N h k.
Definition hgms (k : ckey) (v : N) : cop := @HGetMutSet ckey N k v.
Definition hent (k : ckey) (v : N) (ok : bool) : cop := @HEntryIns ckey N k v ok.
Definition hentd (k : ckey) (ok : bool) : cop := @HEntryDrop ckey N k ok.
Definition hres (a : nat) (ok : bool) : cop := @HReserve ckey N a ok.
Definition hclear : cop := @HClear ckey N.
Definition hclone : cop := @HClone ckey N.
Definition hlen : cop := @HLen ckey N.
Definition hcapq : cop := @HCap ckey N.
Definition hiter : cop := @HIter ckey N.
Definition runit : cout := @RUnit ckey N.
Definition rerr : cout := @RErr ckey N.
Definition rhash (h : N) : cout := @RHash ckey N h.
Definition roptv (o : option N) : cout := @ROptV ckey N o.
Definition rbool (b : bool) : cout := @RBool ckey N b.
Definition rnat (n : nat) : cout := @RNat ckey N n.
Definition rlist (l : list (ckey * N)) : cout := @RList ckey N l.
Definition rclone (c : nat) (l : list (ckey * N)) : cout := @RClone ckey N c l.
Definition rdiverge : cout := @RDiverge ckey N.
Definition rpanic : cout := @RPanic ckey N.

Definition kv_eqb (a b : ckey * N) : bool :=
  N.eqb (fst (fst a)) (fst (fst b)) && Z.eqb (snd (fst a)) (snd (fst b)) && N.eqb (snd a) (snd b).

Definition cout_eqb (a b : cout) : bool :=
  match a, b with
  | @RUnit _ _, @RUnit _ _ => true
  | @RErr _ _, @RErr _ _ => true
  | @RHash _ _ h, @RHash _ _ h' => N.eqb h h'
  | @ROptV _ _ o, @ROptV _ _ o' => opt_eqb N.eqb o o'
  | @RBool _ _ x, @RBool _ _ y => Bool.eqb x y
  | @RNat _ _ x, @RNat _ _ y => Nat.eqb x y
  | @RList _ _ l, @RList _ _ l' => list_eqb kv_eqb l l'
  | @RClone _ _ c l, @RClone _ _ c' l' => Nat.eqb c c' && list_eqb kv_eqb l l'
  | @RDiverge _ _, @RDiverge _ _ => true
  | @RPanic _ _, @RPanic _ _ => true
  | _, _ => false
  end.

(* observation: output, ids of dropped keys, ids of dropped values *)
Definition cobs : Type := (cout * (list N * list N))%type.
Definition cobs_eqb (a b : cobs) : bool :=
  cout_eqb (fst a) (fst b) && list_eqb N.eqb (fst (snd a)) (fst (snd b))
  && list_eqb N.eqb (snd (snd a)) (snd (snd b)).

Definition model_obs (x : cout * (list ckey * list N)) : cobs :=
  (fst x, (map fst (fst (snd x)), snd (snd x))).

(* ---------- the specification oracle: a reference map with drop accounting ---------- *)
Module NOrder <: TotalLeBool.
  Definition t := N.
  Definition leb := N.leb.
  Lemma leb_total : forall a b, leb a b = true \/ leb b a = true.
  Proof. intros a b. unfold leb. destruct (N.leb_spec a b); auto. right. apply N.leb_le. lia. Qed.
End NOrder.
Module NSort := Sort NOrder.

Definition same_set (a b : list N) : bool := list_eqb N.eqb (NSort.sort a) (NSort.sort b).

(* abstract state: association list  key value z |-> (key instance id, value id) *)
Definition amap : Type := list (Z * (N * N)).
Fixpoint alook (m : amap) (z : Z) : option (N * N) :=
  match m with
  | [] => None
  | (z', p) :: r => if Z.eqb z z' then Some p else alook r z
  end.
Definition adel (m : amap) (z : Z) : amap := filter (fun e => negb (Z.eqb z (fst e))) m.

Definition nodup_z (l : list Z) : bool :=
  (fix go (l : list Z) (seen : list Z) :=
     match l with
     | [] => true
     | x :: r => negb (existsb (Z.eqb x) seen) && go r (x :: seen)
     end) l [].

(* does the iteration output [l] list exactly the entries of m, each once? *)
Definition iter_ok (m : amap) (l : list (ckey * N)) (off : N) : bool :=
  Nat.eqb (length l) (length m) && nodup_z (map (fun e => snd (fst e)) l) &&
  forallb (fun e => match alook m (snd (fst e)) with
                    | Some (kid, vid) => N.eqb (fst (fst e)) (kid + off) && N.eqb (snd e) (vid + off)
                    | None => false end) l.

(* the hash discipline of the case: hint operations must use the same hash for equal keys *)
Definition sp_step (m : amap) (o : cop) (ob : cobs) : option amap :=
  let '(out, (dk, dv)) := ob in
  let nodrop := match dk, dv with [], [] => true | _, _ => false end in
  let ins (k : ckey) (v : N) (ok : bool) (expect : cout) :=
    match alook m (snd k) with
    | Some (kid, vid) =>
        if cout_eqb out expect && list_eqb N.eqb dk [kid] && list_eqb N.eqb dv [vid]
        then Some ((snd k, (fst k, v)) :: adel m (snd k)) else None
    | None =>
        if cout_eqb out expect && nodrop then Some ((snd k, (fst k, v)) :: m)
        else if negb ok && cout_eqb out rerr && list_eqb N.eqb dk [fst k] && list_eqb N.eqb dv [v]
             then Some m else None
    end in
  let rem (k : ckey) :=
    match alook m (snd k) with
    | Some (kid, vid) =>
        if cout_eqb out (roptv (Some vid)) && list_eqb N.eqb dk [kid] && list_eqb N.eqb dv []
        then Some (adel m (snd k)) else None
    | None => if cout_eqb out (roptv None) && nodrop then Some m else None
    end in
  let getk (k : ckey) :=
    if cout_eqb out (roptv (option_map snd (alook m (snd k)))) && nodrop then Some m else None in
  let conk (k : ckey) :=
    if cout_eqb out (rbool (match alook m (snd k) with Some _ => true | None => false end)) && nodrop
    then Some m else None in
  match o with
  | @HInsert _ _ k v ok => ins k v ok (rhash (chash k))
  | @HInsertH _ _ h k v ok => ins k v ok runit
  | @HRemove _ _ k => rem k
  | @HRemoveH _ _ _ k => rem k
  | @HGet _ _ k => getk k
  | @HGetH _ _ _ k => getk k
  | @HContains _ _ k => conk k
  | @HContainsH _ _ _ k => conk k
  | @HGetMutSet _ _ k v =>
      match alook m (snd k) with
      | Some (kid, vid) =>
          if cout_eqb out (rbool true) && list_eqb N.eqb dk [] && list_eqb N.eqb dv [vid]
          then Some ((snd k, (kid, v)) :: adel m (snd k)) else None
      | None => if cout_eqb out (rbool false) && nodrop then Some m else None
      end
  | @HEntryIns _ _ k v ok =>
      match alook m (snd k) with
      | Some (kid, vid) =>
          if cout_eqb out (roptv (Some vid)) && list_eqb N.eqb dk [fst k] && list_eqb N.eqb dv []
          then Some m else None
      | None =>
          if cout_eqb out (roptv (Some v)) && nodrop then Some ((snd k, (fst k, v)) :: m)
          else if negb ok && cout_eqb out rerr && list_eqb N.eqb dk [fst k] && list_eqb N.eqb dv []
               then Some m else None
      end
  | @HEntryDrop _ _ k ok =>
      if (cout_eqb out runit || (negb ok && cout_eqb out rerr))
         && list_eqb N.eqb dk [fst k] && list_eqb N.eqb dv [] then Some m else None
  | @HReserve _ _ _ ok =>
      if (cout_eqb out runit || (negb ok && cout_eqb out rerr)) && nodrop then Some m else None
  | @HClear _ _ =>
      if cout_eqb out runit && same_set dk (map (fun e => fst (snd e)) m)
         && same_set dv (map (fun e => snd (snd e)) m) then Some [] else None
  | @HClone _ _ =>
      match out with
      | @RClone _ _ c l =>
          if iter_ok m l clone_off && Nat.ltb (length m) c
             && same_set dk (map (fun e => fst (snd e) + clone_off) m)
             && same_set dv (map (fun e => snd (snd e) + clone_off) m) then Some m else None
      | _ => None
      end
  | @HLen _ _ => if cout_eqb out (rnat (length m)) && nodrop then Some m else None
  | @HCap _ _ => match out with
            | @RNat _ _ c => if Nat.ltb (length m) c && nodrop then Some m else None
            | _ => None end
  | @HIter _ _ => match out with
             | @RList _ _ l => if iter_ok m l 0 && nodrop then Some m else None
             | _ => None end
  end.

Fixpoint sp_run (m : amap) (ops : list cop) (obs : list cobs) : bool :=
  match ops, obs with
  | [], [] => true
  | o :: r, ob :: r' => match sp_step m o ob with Some m' => sp_run m' r r' | None => false end
  | _, _ => false
  end.

Inductive c12case := HmCase (cap0 : nat) (ops : list cop) (obs : list cobs).

Definition check1 (c : c12case) : list N :=
  match c with
  | HmCase cap0 ops obs =>
      let m := snd (crun (hm_new ckey N cap0) ops) in
      (if list_eqb cobs_eqb (map model_obs m) obs then [] else [1]) ++
      (if sp_run [] ops obs then [] else [2])
  end.

Definition check_all := CheckUtil.check_all check1.
