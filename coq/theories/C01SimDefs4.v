(* C01, simulation: fragment F4 = the while-language over integer / nil globals:
     statements:  SetGlobalVar g e | Comment | IfTrue e s | IfFalse e s | IfElse e s s | While e s | Composite [s; ...]
   nested at will, e an expression of F1; main is a list of statements.  The meaning is computed
   with fuel that is spent at every statement ([run4]; None = not finished within the fuel). *)
From Coq Require Import List NArith ZArith Bool.
From Cao Require Import ListUtil Bits CardAst Bytecode Compiler CompilerWf C01SimDefs C01SimDefs2.
From Cao Require RefSem Vm.
Import ListNotations.
Local Open Scope N_scope.

Fixpoint stmt4 (c : card) : bool :=
  match c with
  | CSetGlobalVar g e => negb (is_empty g) && expr_f1 e
  | CComment _ => true
  | CBin BIfTrue e b | CBin BIfFalse e b | CBin BWhile e b => expr_f1 e && stmt4 b
  | CTri TIfElse e a b => expr_f1 e && stmt4 a && stmt4 b
  | CComposite _ cs => forallb stmt4 cs
  | _ => false
  end.

Definition in_f4 (M : module) : bool :=
  match M with
  | Module [] [(name, f)] [] =>
      str_eqb name s_main && (match f_args f with [] => true | _ => false end) &&
      forallb stmt4 (f_cards f)
  | _ => false
  end.

Fixpoint code4 (T : list (N * N)) (base : N) (c : card) : list instr :=
  match c with
  | CSetGlobalVar g e => code_expr T e ++ [ISetGlobalVar (idT T g)]
  | CBin BIfTrue e b =>
      let ce := code_expr T e in
      let cb := code4 T (base + bytes ce + 5) b in
      ce ++ IGotoIfFalse (u32_to_i32 (base + bytes ce + 5 + bytes cb)) :: cb
  | CBin BIfFalse e b =>
      let ce := code_expr T e in
      let cb := code4 T (base + bytes ce + 5) b in
      ce ++ IGotoIfTrue (u32_to_i32 (base + bytes ce + 5 + bytes cb)) :: cb
  | CBin BWhile e b =>
      let ce := code_expr T e in
      let cb := code4 T (base + bytes ce + 5) b in
      ce ++ IGotoIfFalse (u32_to_i32 (base + bytes ce + 5 + (bytes cb + 5))) :: cb ++ [IGoto (u32_to_i32 base)]
  | CTri TIfElse e a b =>
      let ce := code_expr T e in
      let ca := code4 T (base + bytes ce + 5) a in
      let else_at := base + bytes ce + 5 + bytes ca + 5 in
      let cb := code4 T else_at b in
      ce ++ IGotoIfFalse (u32_to_i32 else_at) :: ca ++ IGoto (u32_to_i32 (else_at + bytes cb)) :: cb
  | CComposite _ cs =>
      (fix go (base : N) (l : list card) {struct l} : list instr :=
         match l with
         | [] => []
         | c :: r => let cc := code4 T base c in cc ++ go (base + bytes cc) r
         end) base cs
  | _ => []
  end.

Fixpoint code_main4 (T : list (N * N)) (base : N) (cards : list card) : list instr :=
  match cards with
  | [] => []
  | c :: r => let cc := code4 T base c in cc ++ code_main4 T (base + bytes cc) r
  end.

Lemma code4_composite T base ty cs : code4 T base (CComposite ty cs) = code_main4 T base cs.
Proof.
  revert base. induction cs as [|c r IH]; intros base; [reflexivity|].
  cbn [code_main4]. rewrite <- IH. reflexivity.
Qed.

(* depth and names: the functions of F2a apply (they treat all two-child cards alike) *)
Definition depth_ok4 (cards : list card) : bool :=
  forallb (fun c => Nat.ltb (S (stmt_depth2 c)) Vm.stack_size) cards.
Definition main_names4 (cards : list card) : list str := flat_map stmt_names2 cards.

Definition gl : Type := list (str * RefSem.value).

Fixpoint run4 (fuel : nat) (g : gl) (c : card) : option (bool * gl) :=
  match fuel with
  | O => None
  | S f =>
      match c with
      | CSetGlobalVar n e =>
          match ev g e with Some v => Some (true, RefSem.set_assoc n v g) | None => Some (false, g) end
      | CBin BIfTrue e b =>
          match ev g e with
          | None => Some (false, g)
          | Some v => if RefSem.v_bool [] v then run4 f g b else Some (true, g)
          end
      | CBin BIfFalse e b =>
          match ev g e with
          | None => Some (false, g)
          | Some v => if RefSem.v_bool [] v then Some (true, g) else run4 f g b
          end
      | CBin BWhile e b =>
          match ev g e with
          | None => Some (false, g)
          | Some v =>
              if RefSem.v_bool [] v then
                match run4 f g b with
                | Some (true, g1) => run4 f g1 c
                | other => other
                end
              else Some (true, g)
          end
      | CTri TIfElse e a b =>
          match ev g e with
          | None => Some (false, g)
          | Some v => if RefSem.v_bool [] v then run4 f g a else run4 f g b
          end
      | CComposite _ cs =>
          (fix go (g : gl) (l : list card) {struct l} : option (bool * gl) :=
             match l with
             | [] => Some (true, g)
             | x :: r => match run4 f g x with
                         | Some (true, g1) => go g1 r
                         | other => other
                         end
             end) g cs
      | _ => Some (true, g)
      end
  end.

(* a list of statements with the fuel [f] for each of them *)
Fixpoint runs4 (f : nat) (g : gl) (l : list card) : option (bool * gl) :=
  match l with
  | [] => Some (true, g)
  | x :: r => match run4 f g x with
              | Some (true, g1) => runs4 f g1 r
              | other => other
              end
  end.

Lemma run4_composite f g ty cs : run4 (S f) g (CComposite ty cs) = runs4 f g cs.
Proof.
  revert g. induction cs as [|x r IH]; intros g; [reflexivity|].
  cbn [runs4].
  change (run4 (S f) g (CComposite ty (x :: r))) with
    (match run4 f g x with Some (true, g1) => run4 (S f) g1 (CComposite ty r) | other => other end).
  destruct (run4 f g x) as [[[|] g1]|]; [apply IH | reflexivity | reflexivity].
Qed.
