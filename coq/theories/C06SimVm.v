(* C06, refinement, VM side: the representation relation of C06SimDefs (reference cells <-> stack slots / upvalue
   objects) is preserved, instruction by instruction, by the accesses to variables - ReadLocalVar / SetLocalVar of
   the declaring function, ReadUpvalue / SetUpvalue of a closure, through an OPEN upvalue (cell = the stack slot)
   and through a CLOSED one (cell = the object's own value) - and each of them does to the VM what the reference
   semantics does to the cell the name designates (read: the cell's value; write: RefSem.upd on the cell store).
   Built on the per-instruction theorems of VmUpvalueSem.v. *)
From Coq Require Import List NArith ZArith Bool Lia Sorted.
From Cao Require Import ListUtil Bits Stacks Vm VmUpvalueProofs VmUpvalueStep VmUpvalueSem C06SimDefs.
From Cao Require RefSem.
Import ListNotations.

(* ------------------------------------------------------------------ RefSem.upd *)
Lemma rupd_same {A} (l : list A) i x v : nth_error l i = Some v -> nth_error (RefSem.upd l i x) i = Some x.
Proof. revert i. induction l as [|y t IH]; intros [|i]; cbn; intros H; try discriminate; auto. Qed.
Lemma rupd_other {A} (l : list A) i j x : i <> j -> nth_error (RefSem.upd l i x) j = nth_error l j.
Proof.
  revert i j. induction l as [|y t IH]; intros [|i] [|j] H; cbn; auto; try congruence.
Qed.

(* ------------------------------------------------------------------ the value stack, raw view *)
Lemma spush_raw s v : S (scount s) < cap s ->
  exists s', spush s v = Some s' /\ scount s' = S (scount s) /\ cap s' = cap s /\
    st_heap s' = st_heap s /\ st_calls s' = st_calls s /\ st_open s' = st_open s /\
    sraw_get s' (scount s) = v /\ (forall i, i <> scount s -> sraw_get s' i = sraw_get s i).
Proof.
  unfold scount, cap, spush, vs_push. intros H.
  destruct (Nat.ltb_spec (S (vcount (st_stack s))) (length (vdata (st_stack s)))) as [_|]; [|lia].
  eexists. split; [reflexivity|]. unfold sraw_get. cbn [st_stack set_stack vcount vdata st_heap st_calls st_open].
  rewrite upd_length. repeat split.
  - apply nth_upd_same. lia.
  - intros i Hi. apply nth_upd_other. congruence.
Qed.

Lemma spop_raw s : 0 < scount s ->
  exists s1, spop s = (s1, sraw_get s (scount s - 1)) /\ scount s1 = scount s - 1 /\ cap s1 = cap s /\
    st_heap s1 = st_heap s /\ st_calls s1 = st_calls s /\ st_open s1 = st_open s /\
    (forall i, i <> scount s - 1 -> sraw_get s1 i = sraw_get s i).
Proof.
  unfold scount, cap, spop, vs_pop. intros H.
  destruct (Nat.eqb_spec (vcount (st_stack s)) 0) as [|_]; [lia|].
  eexists. split; [reflexivity|]. unfold sraw_get. cbn [st_stack set_stack vcount vdata st_heap st_calls st_open].
  rewrite upd_length. repeat split.
  intros i Hi. apply nth_upd_other. congruence.
Qed.

(* ------------------------------------------------------------------ rep: frame and point update *)
Lemma vrel_det K v w w' : vrel K v w -> vrel K v w' -> w = w'.
Proof. intros H1 H2. destruct H1; inversion H2; subst; congruence. Qed.

Lemma rep_frame K R top cells s s' :
  rep K R top cells s ->
  (forall i, i < top -> sraw_get s' i = sraw_get s i) ->
  (forall a w nx, hget (st_heap s) a = Some (OUp (mkUp None w nx)) ->
                  exists nx', hget (st_heap s') a = Some (OUp (mkUp None w nx'))) ->
  top <= scount s' -> rep K R top cells s'.
Proof.
  intros [Hc Hi Ht Hr] Hs Hh Hr'. constructor; auto.
  intros c l Hl. destruct (Hc c l Hl) as (v & Hv & Hp). exists v. split; [exact Hv|].
  destruct l as [i|a]; cbn [place_holds] in *.
  - rewrite Hs by (eapply Ht; eauto). exact Hp.
  - destruct Hp as (w & nx & Ha & Hw). destruct (Hh _ _ _ Ha) as (nx' & Ha'). eauto.
Qed.

Lemma rep_write K R top cells s s' c l v :
  rep K R top cells s -> R c = Some l ->
  place_holds K s' l v ->
  (forall l' v', l' <> l -> (forall i, l' = LSlot i -> i < top) -> place_holds K s l' v' -> place_holds K s' l' v') ->
  top <= scount s' ->
  rep K R top (RefSem.upd cells c v) s'.
Proof.
  intros [Hc Hi Ht Hr] Hl Hp Ho Hr'. constructor; auto.
  intros c' l' Hl'. destruct (Nat.eq_dec c' c) as [->|Hne].
  - rewrite Hl in Hl'. injection Hl' as <-. destruct (Hc c l Hl) as (v0 & Hv0 & _).
    exists v. split; [eapply rupd_same; eauto | exact Hp].
  - destruct (Hc c' l' Hl') as (v' & Hv' & Hp'). exists v'. split; [rewrite rupd_other by congruence; exact Hv'|].
    apply Ho; auto.
    + intros ->. apply Hne. eapply Hi; eauto.
    + intros i ->. eapply Ht; eauto.
Qed.

Section Access.
  Variable F : fops.
  Variable bld : build.
  Variable P : program.
  Variable reenter : N -> state -> rres.
  Notation STEP := (step F bld P reenter).

  Variable K : clomap.
  Variable R : cellmap.

  (* ---------------------------------------------------------------- ReadUpvalue *)
  (* the closure reads the captured variable: the value of the cell the upvalue denotes is pushed, whether the
     upvalue is open (the slot of the declaring scope) or closed (the object's own value) *)
  Theorem rep_read_upvalue : forall ip0 s idx ua u top cells c,
    opcode_at P ip0 = 44%N -> op_u32 P (ip0 + 1) = Some idx -> upvalue_of s idx ua u ->
    rep K R top cells s -> up_cell R s ua c -> S (scount s) < cap s ->
    exists v w s', nth_error cells c = Some v /\ vrel K v w /\
      STEP ip0 s = SNext (ip0 + 1 + 4) s' /\ spush s w = Some s' /\ rep K R top cells s'.
  Proof.
    intros ip0 s idx ua u top cells c Hop Ei Hu Hrep (u' & Hua & Hc) Hroom.
    pose proof Hu as (fr & rest & ca & h & ar & ups & _ & _ & _ & _ & Hua').
    rewrite Hua' in Hua. injection Hua as <-.
    destruct (rep_cell _ _ _ _ _ Hrep c _ Hc) as (v & Hv & Hp).
    rewrite (read_upvalue F bld P reenter ip0 s idx ua u Hop Ei Hu).
    set (w := match u_loc u with Some l => sraw_get s l | None => u_val u end).
    assert (Hw : vrel K v w).
    { subst w. unfold up_place in Hp. destruct u as [[i|] uv un]; cbn [u_loc u_val place_holds] in *; [exact Hp|].
      destruct Hp as (w & nx & Ha & Hw). rewrite Hua' in Ha. injection Ha as <- _. exact Hw. }
    destruct (spush_raw s w Hroom) as (s' & E & Hn & _ & Hh & _ & _ & _ & Hsame).
    exists v, w, s'. split; [exact Hv|]. split; [exact Hw|]. unfold push_next. rewrite E.
    split; [reflexivity|]. split; [reflexivity|].
    eapply rep_frame; [exact Hrep | | |].
    - intros i Hi. apply Hsame. pose proof (rep_room _ _ _ _ _ Hrep). lia.
    - intros a w0 nx Ha. rewrite Hh. eauto.
    - pose proof (rep_room _ _ _ _ _ Hrep). lia.
  Qed.

  (* ---------------------------------------------------------------- SetUpvalue *)
  (* the closure assigns the captured variable: exactly the cell the upvalue denotes is updated (RefSem.upd on
     the cell store), in the slot while open - where the declaring function and every sibling closure read it -,
     in the object once closed *)
  Theorem rep_write_upvalue : forall ip0 s s1 wv idx ua u top cells c v,
    opcode_at P ip0 = 43%N -> op_u32 P (ip0 + 1) = Some idx -> spop s = (s1, wv) -> upvalue_of s1 idx ua u ->
    rep K R top cells s -> top < scount s -> scount s < cap s -> up_cell R s ua c -> vrel K v wv ->
    exists s', STEP ip0 s = SNext (ip0 + 1 + 4) s' /\ scount s' = scount s - 1 /\
      rep K R top (RefSem.upd cells c v) s'.
  Proof.
    intros ip0 s s1 wv idx ua u top cells c v Hop Ei Ep Hu Hrep Htop Hcap (u' & Hua & Hc) Hv.
    destruct (spop_raw s) as (s1' & Ep' & Hn1 & Hcap1 & Hh1 & Hc1 & Ho1 & Hsame1); [lia|].
    rewrite Ep in Ep'. injection Ep' as <- ->.
    pose proof Hu as (fr & rest & ca & h & ar & ups & _ & _ & _ & _ & Hua').
    rewrite Hh1, Hua in Hua'. injection Hua' as <-.
    rewrite (write_upvalue F bld P reenter ip0 s s1 _ idx ua u' Hop Ei Ep Hu).
    assert (Hrep1 : rep K R top cells s1).
    { eapply rep_frame; [exact Hrep | | |].
      - intros i Hi. apply Hsame1. lia.
      - intros a w0 nx Ha. rewrite Hh1. eauto.
      - lia. }
    eexists. split; [reflexivity|]. unfold up_place in Hc.
    destruct u' as [[i|] uv un]; cbn [u_loc u_next] in *.
    - split; [exact Hn1|]. pose proof (rep_top _ _ _ _ _ Hrep _ _ Hc) as Hi.
      eapply rep_write; [exact Hrep1 | exact Hc | | |].
      + cbn [place_holds]. rewrite sraw_set_get by (rewrite Hcap1; lia). exact Hv.
      + intros l' v' Hne Hlt Hp. destruct l' as [j|a]; cbn [place_holds] in *.
        * rewrite sraw_set_get_other by congruence. exact Hp.
        * exact Hp.
      + change (top <= scount s1); lia.
    - split; [exact Hn1|].
      assert (Hlt : N.to_nat ua < length (st_heap s1)) by (rewrite Hh1; eapply hget_lt; eauto).
      eapply rep_write; [exact Hrep1 | exact Hc | | |].
      + cbn [place_holds st_heap set_heap]. exists (sraw_get s (scount s - 1)), un.
        rewrite hget_hset_eq by exact Hlt. split; [reflexivity | exact Hv].
      + intros l' v' Hne _ Hp. destruct l' as [j|a]; cbn [place_holds st_heap set_heap] in *.
        * exact Hp.
        * rewrite hget_hset_ne by congruence. exact Hp.
      + change (top <= scount s1); lia.
  Qed.

  (* ---------------------------------------------------------------- ReadLocalVar / SetLocalVar *)
  (* the declaring function reads / assigns a variable whose scope is alive: the same cell, in the slot *)
  Theorem rep_read_local : forall ip0 s hd off top cells c,
    opcode_at P ip0 = 20%N -> op_u32 P (ip0 + 1) = Some hd -> top_offset s = Some off ->
    rep K R top cells s -> R c = Some (LSlot (off + N.to_nat hd)) -> S (scount s) < cap s ->
    exists v w s', nth_error cells c = Some v /\ vrel K v w /\
      STEP ip0 s = SNext (ip0 + 1 + 4) s' /\ spush s w = Some s' /\ rep K R top cells s'.
  Proof.
    intros ip0 s hd off top cells c Hop Eh Eo Hrep Hc Hroom.
    destruct (rep_cell _ _ _ _ _ Hrep c _ Hc) as (v & Hv & Hp). cbn [place_holds] in Hp.
    pose proof (rep_top _ _ _ _ _ Hrep _ _ Hc) as Hi. pose proof (rep_room _ _ _ _ _ Hrep) as Hr.
    rewrite (read_local F bld P reenter ip0 s hd off Hop Eh Eo) by lia.
    destruct (spush_raw s (sraw_get s (off + N.to_nat hd)) Hroom) as (s' & E & Hn & _ & Hh & _ & _ & _ & Hsame).
    exists v, (sraw_get s (off + N.to_nat hd)), s'. split; [exact Hv|]. split; [exact Hp|].
    unfold push_next. rewrite E. split; [reflexivity|]. split; [reflexivity|].
    eapply rep_frame; [exact Hrep | | |].
    - intros i Hi'. apply Hsame. lia.
    - intros a w0 nx Ha. rewrite Hh. eauto.
    - lia.
  Qed.

  Theorem rep_write_local : forall ip0 s hd off top cells c v,
    opcode_at P ip0 = 19%N -> op_u32 P (ip0 + 1) = Some hd -> top_offset s = Some off ->
    rep K R top cells s -> top < scount s -> scount s < cap s ->
    R c = Some (LSlot (off + N.to_nat hd)) -> vrel K v (sraw_get s (scount s - 1)) ->
    exists s', STEP ip0 s = SNext (ip0 + 1 + 4) s' /\ scount s' = scount s - 1 /\
      rep K R top (RefSem.upd cells c v) s'.
  Proof.
    intros ip0 s hd off top cells c v Hop Eh Eo Hrep Htop Hcap Hc Hv.
    pose proof (rep_top _ _ _ _ _ Hrep _ _ Hc) as Hi.
    destruct (spop_raw s) as (s1 & Ep & Hn1 & Hcap1 & Hh1 & Hc1 & Ho1 & Hsame1); [lia|].
    assert (Epo : spop_w_offset s off = (s1, sraw_get s (scount s - 1))).
    { unfold spop_w_offset, vs_step. destruct (Nat.leb_spec (vcount (st_stack s)) off) as [Hle|_].
      - unfold scount in *. lia.
      - unfold spop in Ep. destruct (vs_pop VNil (st_stack s)) as [k x]. injection Ep as <- <-. reflexivity. }
    rewrite (write_local F bld P reenter ip0 s s1 _ hd off Hop Eh Eo Epo) by lia.
    assert (Hrep1 : rep K R top cells s1).
    { eapply rep_frame; [exact Hrep | | |].
      - intros i Hi'. apply Hsame1. lia.
      - intros a w0 nx Ha. rewrite Hh1. eauto.
      - lia. }
    eexists. split; [reflexivity|]. split; [exact Hn1|].
    eapply rep_write; [exact Hrep1 | exact Hc | | |].
    - cbn [place_holds]. rewrite sraw_set_get by (rewrite Hcap1; lia). exact Hv.
    - intros l' v' Hne Hlt Hp. destruct l' as [j|a]; cbn [place_holds] in *.
      + rewrite sraw_set_get_other by congruence. exact Hp.
      + exact Hp.
    - change (top <= scount s1); lia.
  Qed.
End Access.
