(* Round trip of the two hand-written map serializers: deserialize (serialize m) holds exactly
   the entries of m, for every size, size hint and initial capacity. *)
From Coq Require Import Arith Lia List Bool NArith.
Import ListNotations.
From Cao Require Import ProbeDefs ProbeProofs HashMap HashMapProofs HandleTable HandleTableProofs Serde.

Set Implicit Arguments.

Section HMR.
  Variables (K V : Type).
  Variable keqb : K -> K -> bool.
  Variable hashfn : K -> N.
  Variable home : nat -> N -> nat.
  Variable needs_grow : nat -> nat -> bool.
  Variable new_cap : nat -> nat.
  Hypothesis keqb_spec : forall a b, reflect (a = b) (keqb a b).
  Hypothesis home_lt : forall n h, 0 < n -> home n h < n.
  Hypothesis ng_lt : forall c cap, needs_grow (S c) cap = false -> S c < cap.
  Hypothesis new_cap_gt : forall c, c < new_cap c.

  Notation HInv := (Inv (K:=K) (V:=V) home).
  Notation look := (lookup keqb home).

  Lemma hm_fill_spec : forall (l : list (K * V)) (m0 : hmap K V),
    HInv m0 -> NoDup (map fst l) ->
    (forall k v, In (k, v) l -> forall e, Ent m0 e -> ek e <> (hashfn k, k)) ->
    exists m', hm_fill keqb hashfn home needs_grow new_cap l m0 = Ok m' /\ HInv m' /\
      hm_count m' = hm_count m0 + length l /\
      (forall e, Ent m' e <-> (Ent m0 e \/ exists k v, In (k, v) l /\ e = mk (hashfn k) k v)).
  Proof.
    induction l as [|[k v] r IH]; intros m0 HI Hnd Hdis; cbn [hm_fill].
    - exists m0. split; [reflexivity|]. split; [exact HI|]. split; [cbn; lia|].
      intros e. split; [auto|]. intros [H|[k [v [[] _]]]]. exact H.
    - cbn [map fst] in Hnd. apply NoDup_cons_iff in Hnd. destruct Hnd as [Hnotin Hnd].
      pose proof (insert_h_spec keqb needs_grow new_cap keqb_spec home_lt ng_lt new_cap_gt (hashfn k) k v true HI) as P.
      assert (Hnone : look m0 (hashfn k, k) = None).
      { apply (lookup_none keqb keqb_spec home_lt); auto. intros e He. apply (Hdis k v); auto. left; reflexivity. }
      rewrite Hnone in P. destruct P as [[Hc _]|[m1 [E [HI1 [Hcnt1 Hent1]]]]]; [discriminate|].
      rewrite E. cbn [fst].
      destruct (IH m1 HI1 Hnd) as [m' [Ef [HI' [Hcnt' Hent']]]].
      { intros k' v' Hin e He. apply Hent1 in He. destruct He as [->|He].
        - unfold HashMap.ek, mk. cbn. intros Hc. inversion Hc; subst k'. apply Hnotin.
          change k with (fst (k, v')). apply in_map. exact Hin.
        - apply (Hdis k' v'); auto. right. exact Hin. }
      exists m'. split; [exact Ef|]. split; [exact HI'|]. split; [cbn [length]; lia|].
      intros e. rewrite Hent'. rewrite Hent1. split.
      + intros [[->|H]|[k' [v' [Hin ->]]]].
        * right. exists k, v. split; [left; reflexivity|reflexivity].
        * left. exact H.
        * right. exists k', v'. split; [right; exact Hin|reflexivity].
      + intros [H|[k' [v' [[Heq|Hin] ->]]]].
        * left. right. exact H.
        * inversion Heq; subst. left. left. reflexivity.
        * right. exists k', v'. auto.
  Qed.

  (* every stored hash is the hash of its key (entries were stored through insert / entry) *)
  Definition hash_consistent (m : hmap K V) : Prop := forall e, Ent m e -> e_hash e = hashfn (e_key e).

  Lemma nodup_keys (l : list (entry K V)) :
    NoDup (map (@ek K V) l) -> (forall e, In e l -> e_hash e = hashfn (e_key e)) ->
    NoDup (map (@e_key K V) l).
  Proof.
    induction l as [|e r IH]; cbn; intros Hnd Hc; [constructor|].
    apply NoDup_cons_iff in Hnd. destruct Hnd as [Hnotin Hnd].
    constructor; [|apply IH; auto].
    intros Hin. apply in_map_iff in Hin. destruct Hin as [e' [Hk Hin]].
    apply Hnotin. apply in_map_iff. exists e'. split; [|exact Hin].
    unfold HashMap.ek. rewrite (Hc e' (or_intror Hin)), (Hc e (or_introl eq_refl)), Hk. reflexivity.
  Qed.

  Theorem hm_roundtrip (m : hmap K V) (c : nat) :
    HInv m -> hash_consistent m ->
    exists m', hm_fill keqb hashfn home needs_grow new_cap (hm_ser m) (hm_new K V c) = Ok m' /\
      HInv m' /\ hm_count m' = hm_count m /\ (forall e, Ent m' e <-> Ent m e).
  Proof.
    intros HI Hcons. unfold hm_ser, iter_op.
    destruct (iter_spec keqb keqb_spec home_lt HI) as [Hnd [Hlen _]].
    assert (Hcons' : forall e, In e (contents (hm_slots m)) -> e_hash e = hashfn (e_key e)).
    { intros e He. apply Hcons. apply ent_contents. exact He. }
    destruct (@hm_fill_spec (map (fun e => (e_key e, e_val e)) (contents (hm_slots m))) (hm_new K V c))
      as [m' [E [HI' [Hcnt Hent]]]].
    - apply new_inv.
    - rewrite map_map. cbn [fst]. apply nodup_keys; auto.
    - intros k v _ e He. exfalso. unfold Ent, hm_new, hcap in He. cbn [hm_slots] in He.
      rewrite repeat_length in He. eapply in_tbl_empty; eauto.
    - exists m'. split; [exact E|]. split; [exact HI'|]. split.
      + rewrite Hcnt, map_length. cbn. exact Hlen.
      + intros e. rewrite Hent. split.
        * intros [H|[k [v [Hin ->]]]].
          -- exfalso. unfold Ent, hm_new, hcap in H. cbn [hm_slots] in H. rewrite repeat_length in H.
             eapply in_tbl_empty; eauto.
          -- apply in_map_iff in Hin. destruct Hin as [e0 [Heq Hin0]]. inversion Heq; subst.
             apply ent_contents. rewrite <- (Hcons' e0 Hin0). destruct e0; exact Hin0.
        * intros He. right. exists (e_key e), (e_val e). split.
          -- apply in_map_iff. exists e. split; [reflexivity|]. apply ent_contents. exact He.
          -- rewrite <- (Hcons e He). destruct e; reflexivity.
  Qed.
End HMR.

Section HTR.
  Variable V : Type.
  Variable home : nat -> N -> nat.
  Variable needs_grow : nat -> nat -> bool.
  Variable grow_cap : nat -> nat.
  Variable min_cap : nat.
  Hypothesis home_lt : forall n h, 0 < n -> home n h < n.
  Hypothesis ng_lt : forall c cap, needs_grow (S c) cap = false -> S c < cap.
  Hypothesis grow_cap_gt : forall c, c < grow_cap c.
  Hypothesis min_cap_pos : 2 <= min_cap.
  Hypothesis min_cap_pow2 : is_pow2 min_cap.

  Notation TI := (TInv (V:=V) home).
  Notation tlook := (lookup ueqb home).

  Lemma ht_fill_spec : forall (l : list (N * V)) (m0 : hmap unit V),
    TI m0 -> NoDup (map fst l) -> (forall h v, In (h, v) l -> h <> 0%N) ->
    (forall h v, In (h, v) l -> forall e, Ent m0 e -> ek e <> (h, tt)) ->
    exists m', ht_fill home needs_grow grow_cap min_cap l m0 = Ok m' /\ TI m' /\
      hm_count m' = hm_count m0 + length l /\
      (forall e, Ent m' e <-> (Ent m0 e \/ exists h v, In (h, v) l /\ e = hk h v)).
  Proof.
    induction l as [|[h v] r IH]; intros m0 HT Hnd Hnz Hdis; cbn [ht_fill].
    - exists m0. split; [reflexivity|]. split; [exact HT|]. split; [cbn; lia|].
      intros e. split; [auto|]. intros [H|[h [v [[] _]]]]. exact H.
    - cbn [map fst] in Hnd. apply NoDup_cons_iff in Hnd. destruct Hnd as [Hnotin Hnd].
      assert (Hh : h <> 0%N) by (apply (Hnz h v); left; reflexivity).
      pose proof (ht_insert_spec needs_grow grow_cap home_lt ng_lt grow_cap_gt min_cap_pos min_cap_pow2 v true HT Hh) as P.
      destruct P as [[Hc _]|P]; [discriminate|].
      assert (Hnone : tlook m0 (h, tt) = None).
      { apply (lookup_none ueqb ueqb_spec home_lt); [apply HT|].
        intros e He. apply (Hdis h v); auto. left; reflexivity. }
      rewrite Hnone in P. destruct P as [m1 [E [HT1 [Hcnt1 Hent1]]]]. rewrite E.
      destruct (IH m1 HT1 Hnd) as [m' [Ef [HT' [Hcnt' Hent']]]].
      { intros h' v' Hin. apply (Hnz h' v'). right. exact Hin. }
      { intros h' v' Hin e He. apply Hent1 in He. destruct He as [->|He].
        - rewrite hk_ek. intros Hc. inversion Hc; subst h'. apply Hnotin.
          change h with (fst (h, v')). apply in_map. exact Hin.
        - apply (Hdis h' v'); auto. right. exact Hin. }
      exists m'. split; [exact Ef|]. split; [exact HT'|]. split; [cbn [length]; lia|].
      intros e. rewrite Hent'. rewrite Hent1. split.
      + intros [[->|H]|[h' [v' [Hin ->]]]].
        * right. exists h, v. split; [left; reflexivity|reflexivity].
        * left. exact H.
        * right. exists h', v'. split; [right; exact Hin|reflexivity].
      + intros [H|[h' [v' [[Heq|Hin] ->]]]].
        * left. right. exact H.
        * inversion Heq; subst. left. left. reflexivity.
        * right. exists h', v'. auto.
  Qed.

  Theorem ht_roundtrip (m : hmap unit V) (c : nat) :
    TI m ->
    exists m', ht_fill home needs_grow grow_cap min_cap (ht_ser m) (ht_new V min_cap c) = Ok m' /\
      TI m' /\ hm_count m' = hm_count m /\ (forall e, Ent m' e <-> Ent m e).
  Proof.
    intros HT. pose proof HT as (HI & Hnz & _). unfold ht_ser, ht_iter.
    destruct (iter_spec ueqb ueqb_spec home_lt HI) as [Hnd [Hlen _]].
    assert (Heta : forall e : entry unit V, hk (e_hash e) (e_val e) = e) by (intros [h [] v]; reflexivity).
    destruct (@ht_fill_spec (map (fun e => (e_hash e, e_val e)) (contents (hm_slots m))) (ht_new V min_cap c))
      as [m' [E [HT' [Hcnt Hent]]]].
    - apply ht_new_inv; auto.
    - rewrite map_map. cbn [fst].
      assert (Hm : map (fun e : entry unit V => e_hash e) (contents (hm_slots m))
                   = map fst (map (@ek unit V) (contents (hm_slots m)))).
      { rewrite map_map. apply map_ext. intros e. rewrite ek_unit. reflexivity. }
      rewrite Hm. clear Hm.
      assert (Hinj : forall l : list (N * unit), NoDup l -> NoDup (map fst l)).
      { induction l as [|[a []] l IHl]; cbn; intros Hn; [constructor|].
        apply NoDup_cons_iff in Hn. destruct Hn as [Hni Hn]. constructor; [|auto].
        intros Hin. apply in_map_iff in Hin. destruct Hin as [[a' []] [Ha Hin]]. cbn in Ha. subst a'. auto. }
      apply Hinj. exact Hnd.
    - intros h v Hin. apply in_map_iff in Hin. destruct Hin as [e [Heq Hin]]. inversion Heq; subst.
      apply Hnz. apply ent_contents. exact Hin.
    - intros h v _ e He. exfalso. unfold Ent, ht_new, hcap in He. cbn [hm_slots] in He.
      rewrite repeat_length in He. eapply in_tbl_empty; eauto.
    - exists m'. split; [exact E|]. split; [exact HT'|]. split.
      + rewrite Hcnt, map_length. cbn. exact Hlen.
      + intros e. rewrite Hent. split.
        * intros [H|[h [v [Hin ->]]]].
          -- exfalso. unfold Ent, ht_new, hcap in H. cbn [hm_slots] in H. rewrite repeat_length in H.
             eapply in_tbl_empty; eauto.
          -- apply in_map_iff in Hin. destruct Hin as [e0 [Heq Hin0]]. inversion Heq; subst.
             rewrite Heta. apply ent_contents. exact Hin0.
        * intros He. right. exists (e_hash e), (e_val e). split.
          -- apply in_map_iff. exists e. split; [reflexivity|]. apply ent_contents. exact He.
          -- symmetry. apply Heta.
  Qed.
End HTR.
