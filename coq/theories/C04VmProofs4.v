(* C04 - "running is total", Part E: the structural invariant [vm_inv] of the VM state and its preservation by
   the state primitives (value stack, frames, globals, heap writes, upvalue closing). *)
From Coq Require Import NArith ZArith List Lia Bool.
From Cao Require Import ListUtil Bits Stacks Vm VmProofs C04VmProofs C04VmProofs2 C04VmProofs3.
Import ListNotations.

Lemma nth_upd_cases {A} (l : list A) i v j d : nth j (upd l i v) d = v \/ nth j (upd l i v) d = nth j l d.
Proof.
  destruct (Nat.eq_dec i j) as [->|Hne]; [|right; apply nth_upd_other; exact Hne].
  destruct (Nat.lt_ge_cases j (length l)) as [Hl|Hl]; [left; apply nth_upd_same; exact Hl|].
  right. rewrite !nth_overflow; [reflexivity | exact Hl | rewrite upd_length; exact Hl].
Qed.

Ltac splits := repeat match goal with |- _ /\ _ => split end.

Section Inv.
Variable P : program.
(* the instruction starts of the program (C10) *)
Variable start : N -> Prop.

Definition ipok (ip : N) : Prop := (ip < code_len P)%N -> start ip.

Definition cap (s : state) : nat := length (vdata (st_stack s)).

Definition clo_live (h : heap) (fr : frame) : Prop :=
  forall ca, fr_clo fr = Some ca -> exists hd ar ups, hget h ca = Some (OClo hd ar ups).

(* a call frame: its stack offset is inside the value stack array, its return address is an instruction
   start, its closure is alive *)
Definition frame_ok (s : state) (fr : frame) : Prop :=
  N.to_nat (fr_off fr) < cap s /\ ipok (fr_dst fr) /\ clo_live (st_heap s) fr.

Definition globals_closed (s : state) : Prop := forall v, In (Some v) (st_globals s) -> val_ok (st_heap s) v.

Record vm_inv0 (s : state) : Prop := mkInv {
  vi_stack : vcount (st_stack s) < cap s /\ 2 < cap s;
  vi_closed : stack_closed s;
  vi_globals : globals_closed s;
  vi_heap : heap_closed (st_heap s);
  vi_frames : forall fr, In fr (st_calls s) -> frame_ok s fr;
  vi_open : open_ok s
}.
Definition vm_inv (s : state) : Prop := vm_inv0 s /\ st_calls s <> [].

(* the invariant only reads five fields *)
Lemma inv_eq s s' : st_stack s' = st_stack s -> st_calls s' = st_calls s -> st_globals s' = st_globals s ->
  st_heap s' = st_heap s -> st_open s' = st_open s -> vm_inv0 s -> vm_inv0 s'.
Proof.
  intros E1 E2 E3 E4 E5 [H1 H2 H3 H4 H5 H6]. constructor.
  - unfold cap in *. rewrite E1. exact H1.
  - unfold stack_closed in *. rewrite E1, E4. exact H2.
  - unfold globals_closed in *. rewrite E3, E4. exact H3.
  - rewrite E4. exact H4.
  - intros fr Hfr. rewrite E2 in Hfr. unfold frame_ok, cap in *. rewrite E1, E4. apply H5; exact Hfr.
  - unfold open_ok in *. rewrite E4, E5. exact H6.
Qed.

Lemma inv_tick s : vm_inv0 s -> vm_inv0 (tick s).
Proof. apply inv_eq; reflexivity. Qed.
Lemma inv_set_rem s r : vm_inv0 s -> vm_inv0 (set_rem s r).
Proof. apply inv_eq; reflexivity. Qed.
Lemma inv_log_push s e : vm_inv0 s -> vm_inv0 (log_push s e).
Proof. apply inv_eq; reflexivity. Qed.

(* ---- the value stack ---- *)
Lemma inv_set_stack s k : vm_inv0 s -> length (vdata k) = cap s -> vcount k < cap s ->
  (forall i, val_ok (st_heap s) (nth i (vdata k) VNil)) -> vm_inv0 (set_stack s k).
Proof.
  intros [H1 H2 H3 H4 H5 H6] Hl Hc Hv. constructor; cbn [set_stack st_stack st_calls st_globals st_heap st_open].
  - unfold cap. cbn [st_stack set_stack]. rewrite Hl. split; [exact Hc | apply H1].
  - exact Hv.
  - exact H3.
  - exact H4.
  - intros fr Hfr. destruct (H5 fr Hfr) as (A & B & C). unfold frame_ok, cap. cbn [st_stack set_stack st_heap].
    rewrite Hl. splits; assumption.
  - exact H6.
Qed.

Lemma upd_slots_ok h l i v : (forall j, val_ok h (nth j l VNil)) -> val_ok h v ->
  forall j, val_ok h (nth j (upd l i v) VNil).
Proof. intros Hl Hv j. destruct (nth_upd_cases l i v j VNil) as [-> | ->]; [exact Hv | apply Hl]. Qed.

Lemma inv_spop s s1 v : spop s = (s1, v) -> vm_inv0 s ->
  vm_inv0 s1 /\ val_ok (st_heap s1) v /\ st_heap s1 = st_heap s /\ st_calls s1 = st_calls s /\ cap s1 = cap s.
Proof.
  intros E Hi. unfold spop, vs_pop in E. destruct (vcount (st_stack s) =? 0) eqn:E0; inversion E; subst; clear E.
  - splits; try exact I; try reflexivity. apply (inv_eq s); auto.
  - cbn [set_stack st_heap st_calls]. splits; try reflexivity.
    + apply inv_set_stack; cbn [vdata vcount]; [exact Hi | apply upd_length | | ].
      * destruct (vi_stack s Hi). unfold cap in *. lia.
      * apply upd_slots_ok; [apply (vi_closed s Hi) | exact I].
    + apply (vi_closed s Hi).
    + unfold cap. cbn [st_stack set_stack vdata]. apply upd_length.
Qed.

Lemma inv_spush s v s1 : spush s v = Some s1 -> vm_inv0 s -> val_ok (st_heap s) v ->
  vm_inv0 s1 /\ st_heap s1 = st_heap s /\ st_calls s1 = st_calls s /\ cap s1 = cap s.
Proof.
  intros E Hi Hv. unfold spush, vs_push in E. destruct (S (vcount (st_stack s)) <? _) eqn:E0; inversion E; subst; clear E.
  apply Nat.ltb_lt in E0. cbn [set_stack st_heap st_calls]. splits; try reflexivity.
  - apply inv_set_stack; cbn [vdata vcount]; [exact Hi | apply upd_length | exact E0 |].
    apply upd_slots_ok; [apply (vi_closed s Hi) | exact Hv].
  - unfold cap. cbn [st_stack set_stack vdata]. apply upd_length.
Qed.

Lemma inv_sset s i v s1 : sset s i v = Some s1 -> vm_inv0 s -> val_ok (st_heap s) v ->
  vm_inv0 s1 /\ st_heap s1 = st_heap s /\ st_calls s1 = st_calls s /\ cap s1 = cap s.
Proof.
  intros E Hi Hv. unfold sset in E. cbn [vs_step] in E.
  destruct (vcount (st_stack s) <? i); [discriminate|].
  destruct (i =? vcount (st_stack s)).
  - pose proof (inv_spush s v) as Hp. unfold spush in Hp. unfold vs_push in *.
    destruct (S (vcount (st_stack s)) <? length (vdata (st_stack s))); inversion E; subst. apply (Hp _ eq_refl Hi Hv).
  - inversion E; subst; clear E. cbn [set_stack st_heap st_calls]. splits; try reflexivity.
    + apply inv_set_stack; cbn [vdata vcount]; [exact Hi | apply upd_length | apply (vi_stack s Hi) |].
      apply upd_slots_ok; [apply (vi_closed s Hi) | exact Hv].
    + unfold cap. cbn [st_stack set_stack vdata]. apply upd_length.
Qed.

Lemma inv_write_local s off hd v s1 : write_local s off hd v = Some s1 -> vm_inv0 s -> val_ok (st_heap s) v ->
  vm_inv0 s1 /\ st_heap s1 = st_heap s /\ st_calls s1 = st_calls s /\ cap s1 = cap s.
Proof. apply inv_sset. Qed.

Lemma vs_last_ok s : stack_closed s -> val_ok (st_heap s) (vs_last VNil (st_stack s)).
Proof. intros Hc. unfold vs_last. destruct (0 <? _); [apply Hc | exact I]. Qed.

Lemma inv_sclear_until s off s1 v : sclear_until s off = (s1, v) -> vm_inv0 s -> off < cap s ->
  vm_inv0 s1 /\ val_ok (st_heap s1) v /\ st_heap s1 = st_heap s /\ st_calls s1 = st_calls s /\ cap s1 = cap s.
Proof.
  intros E Hi Hoff. unfold sclear_until in E. cbn [vs_step] in E. inversion E; subst; clear E.
  cbn [set_stack st_heap st_calls]. splits; try reflexivity.
  - apply inv_set_stack; cbn [vdata vcount]; [exact Hi | reflexivity | exact Hoff | apply (vi_closed s Hi)].
  - apply vs_last_ok. apply (vi_closed s Hi).
Qed.

Lemma inv_spop_w_offset s off s1 v : spop_w_offset s off = (s1, v) -> vm_inv0 s ->
  vm_inv0 s1 /\ val_ok (st_heap s1) v /\ st_heap s1 = st_heap s /\ st_calls s1 = st_calls s /\ cap s1 = cap s.
Proof.
  intros E Hi. unfold spop_w_offset in E. cbn [vs_step] in E.
  destruct (vcount (st_stack s) <=? off).
  - inversion E; subst. splits; try exact I; try reflexivity. apply (inv_eq s); auto.
  - pose proof (inv_spop s) as Hp. unfold spop in Hp. destruct (vs_pop VNil (st_stack s)) as [k w].
    inversion E; subst. apply (Hp _ _ eq_refl Hi).
Qed.

Lemma inv_spop_n s n : vm_inv0 s -> vm_inv0 (spop_n s n).
Proof.
  intros Hi. unfold spop_n, vs_pop_n. cbn [fst]. apply inv_set_stack; cbn [vdata vcount];
    [exact Hi | reflexivity | destruct (vi_stack s Hi); lia | apply (vi_closed s Hi)].
Qed.

Lemma inv_sraw_set s l v : vm_inv0 s -> val_ok (st_heap s) v -> vm_inv0 (sraw_set s l v).
Proof.
  intros Hi Hv. unfold sraw_set. apply inv_set_stack; cbn [vdata vcount];
    [exact Hi | apply upd_length | apply (vi_stack s Hi) | apply upd_slots_ok; [apply (vi_closed s Hi) | exact Hv]].
Qed.

(* ---- frames, globals ---- *)
Lemma inv_set_calls s c : vm_inv0 s -> (forall fr, In fr c -> frame_ok s fr) -> vm_inv0 (set_calls s c).
Proof. intros [H1 H2 H3 H4 H5 H6] Hc. constructor; try assumption. Qed.

Lemma inv_set_globals s g : vm_inv0 s -> (forall v, In (Some v) g -> val_ok (st_heap s) v) -> vm_inv0 (set_globals s g).
Proof. intros [H1 H2 H3 H4 H5 H6] Hg. constructor; try assumption. Qed.

Lemma inv_push_frame s f s1 : push_frame s f = Some s1 -> vm_inv0 s -> frame_ok s f ->
  vm_inv0 s1 /\ st_heap s1 = st_heap s /\ st_calls s1 = f :: st_calls s /\ st_stack s1 = st_stack s.
Proof.
  unfold push_frame. destruct (_ <=? _); [discriminate|]. intros E Hi Hf. inversion E; subst; clear E.
  splits; try reflexivity. apply inv_set_calls; [exact Hi|]. intros fr [<-|Hfr]; [exact Hf | apply (vi_frames s Hi); exact Hfr].
Qed.

(* ---- the heap ---- *)
(* a heap change: nothing dies, the new heap is closed, closures stay closures, the open list is given *)
Lemma inv_heap_change s h' o' : vm_inv0 s -> length (st_heap s) <= length h' -> heap_closed h' ->
  (forall ca hd ar ups, hget (st_heap s) ca = Some (OClo hd ar ups) -> exists ups', hget h' ca = Some (OClo hd ar ups')) ->
  (exists l, open_chain h' o' l /\ NoDup l) ->
  vm_inv0 (set_open (set_heap s h') o').
Proof.
  intros [H1 H2 H3 H4 H5 H6] Hl Hc Hclo Hopen. constructor; cbn [set_open set_heap st_stack st_calls st_globals st_heap st_open].
  - exact H1.
  - intros i. eapply val_ok_len; [exact Hl | apply H2].
  - intros v Hv. eapply val_ok_len; [exact Hl | apply H3; exact Hv].
  - exact Hc.
  - intros fr Hfr. destruct (H5 fr Hfr) as (A & B & C). unfold frame_ok; splits; [exact A | exact B |].
    intros ca Eca. destruct (C ca Eca) as (hd & ar & ups & E). destruct (Hclo _ _ _ _ E) as [ups' E']. eauto.
  - exact Hopen.
Qed.

Lemma open_chain_in h o l a : open_chain h o l -> In a l -> exists u loc, hget h a = Some (OUp u) /\ u_loc u = Some loc.
Proof. induction 1; intros Hin; [contradiction|]. destruct Hin as [<-|Hin]; eauto. Qed.

Lemma inv_alloc s o : vm_inv0 s -> obj_closed (st_heap s) o -> vm_inv0 (set_heap s (st_heap s ++ [o])).
Proof.
  intros Hi Ho. apply (inv_eq (set_open (set_heap s (st_heap s ++ [o])) (st_open s))); try reflexivity.
  apply inv_heap_change; [exact Hi | rewrite app_length; lia | apply heap_closed_alloc; [apply (vi_heap s Hi) | exact Ho] | |].
  - intros ca hd ar ups E. exists ups. rewrite hget_app_old; [exact E | congruence].
  - destruct (vi_open s Hi) as (l & Hch & Hnd). exists l. split; [apply open_chain_app; exact Hch | exact Hnd].
Qed.

Lemma inv_salloc s o s1 a : salloc s o = (s1, a) -> vm_inv0 s -> obj_closed (st_heap s) o ->
  vm_inv0 s1 /\ st_heap s1 = st_heap s ++ [o] /\ a = N.of_nat (length (st_heap s)) /\ st_calls s1 = st_calls s /\
  st_stack s1 = st_stack s.
Proof.
  unfold salloc, halloc. intros E Hi Ho. inversion E; subst; clear E. splits; try reflexivity. apply inv_alloc; assumption.
Qed.

(* overwriting a live object that is not an open upvalue with a closed object of the same kind *)
Lemma inv_hset s a o o' : vm_inv0 s -> hget (st_heap s) a = Some o -> obj_closed (st_heap s) o' ->
  (forall hd ar ups, o = OClo hd ar ups -> exists ups', o' = OClo hd ar ups') ->
  (forall u loc, o = OUp u -> u_loc u = Some loc -> False) ->
  vm_inv0 (set_heap s (hset (st_heap s) a o')).
Proof.
  intros Hi Ha Ho Hk Hnu.
  apply (inv_eq (set_open (set_heap s (hset (st_heap s) a o')) (st_open s))); try reflexivity.
  apply inv_heap_change; [exact Hi | rewrite hset_length; lia | apply heap_closed_hset; [apply (vi_heap s Hi) | exact Ho] | |].
  - intros ca hd ar ups E. destruct (N.eq_dec a ca) as [<-|Hne].
    + rewrite E in Ha. inversion Ha; subst. destruct (Hk _ _ _ eq_refl) as [ups' ->]. exists ups'.
      apply hget_hset_same. congruence.
    + exists ups. rewrite hget_hset_other; assumption.
  - destruct (vi_open s Hi) as (l & Hch & Hnd). exists l. split; [|exact Hnd].
    apply open_chain_hset; [exact Hch|]. intros Hin.
    destruct (open_chain_in _ _ _ _ Hch Hin) as (u & loc & E & El). rewrite E in Ha. inversion Ha; subst.
    eapply Hnu; eauto.
Qed.

Lemma inv_set_table s a t t' : vm_inv0 s -> hget (st_heap s) a = Some (OTable t) ->
  (forall v, tmentions t' v -> val_ok (st_heap s) v) -> vm_inv0 (set_table s a t').
Proof.
  intros Hi Ha Ht. unfold set_table. apply (inv_hset s a (OTable t)); auto; intros; discriminate.
Qed.

(* ---- closing upvalues ---- *)
Lemma sraw_get_ok s l : stack_closed s -> val_ok (st_heap s) (sraw_get s l).
Proof. intros H. apply H. Qed.

Lemma close_upvalues_go_inv : forall fuel top s, vm_inv0 s ->
  match close_upvalues_go fuel top s with
  | ClOk s' | ClErr _ s' =>
      vm_inv0 s' /\ st_calls s' = st_calls s /\ length (st_heap s') = length (st_heap s) /\ st_stack s' = st_stack s
  | ClStop _ _ => True
  end.
Proof.
  induction fuel as [|f IH]; intros top s Hi; cbn [close_upvalues_go]; [exact I|].
  destruct (st_open s) as [a|] eqn:Eo; [|splits; try reflexivity; exact Hi].
  destruct (hget (st_heap s) a) as [o|] eqn:Ea; [|exact I].
  destruct o as [| | | | |u];
    try (splits; try reflexivity; apply (inv_eq (set_open (set_heap s (st_heap s)) None)); try reflexivity;
         apply inv_heap_change; [exact Hi | lia | apply (vi_heap s Hi) | intros; eauto | exists []; split; constructor]).
  destruct (u_loc u) as [l|] eqn:El; [|exact I].
  destruct (l <? top); [splits; try reflexivity; exact Hi|].
  set (s1 := set_open (set_heap s (hset (st_heap s) a (OUp (mkUp None (sraw_get s l) (u_next u))))) (u_next u)).
  assert (Hi1 : vm_inv0 s1).
  { apply inv_heap_change; [exact Hi | rewrite hset_length; lia | | |].
    - apply heap_closed_hset; [apply (vi_heap s Hi)|]. cbn [obj_closed u_val]. apply sraw_get_ok. apply (vi_closed s Hi).
    - intros ca hd ar ups E. exists ups. rewrite hget_hset_other; [exact E|]. intros ->. congruence.
    - destruct (vi_open s Hi) as (l0 & Hch & Hnd). rewrite Eo in Hch.
      inversion Hch as [|a' u' l' loc' Ha' Hloc' Hch' Ho' Hl']; subst.
      rewrite Ea in Ha'. inversion Ha'; subst u'.
      inversion Hnd; subst. exists l'. split; [apply open_chain_hset; assumption | assumption]. }
  specialize (IH top s1 Hi1). destruct (close_upvalues_go f top s1); try exact I;
    destruct IH as (A & B & C & D); (split; [exact A|]); unfold s1 in *;
    cbn [set_open set_heap st_calls st_heap st_stack] in *; rewrite hset_length in C; auto.
Qed.

Lemma close_upvalues_from_inv top s : vm_inv0 s ->
  match close_upvalues_from top s with
  | ClOk s' | ClErr _ s' =>
      vm_inv0 s' /\ st_calls s' = st_calls s /\ length (st_heap s') = length (st_heap s) /\ st_stack s' = st_stack s
  | ClStop _ _ => True
  end.
Proof. apply close_upvalues_go_inv. Qed.

End Inv.
