(* C17, part 3: entering a native function of the menu preserves the relation of VmClearProofs.v (natives_ok). *)
From Coq Require Import NArith ZArith List Lia Bool.
From Cao Require Import ListUtil Bits Stacks StacksProofs Vm VmWitness VmProofs VmClearProofs VmClearProofs2.
Import ListNotations.

Set Implicit Arguments.

Ltac frames_tac ::=
  goal_cbn;
  try match goal with H : st_calls ?a = _ |- context [st_calls ?a] => rewrite H end;
  first [ assumption
        | apply frames_ok_nil
        | (eapply frames_ok_mono; [eassumption | bounds])
        | (apply frames_ok_cons; [bounds | frames_tac])
        | (apply frames_ok_skipn; frames_tac)
        | (eapply frames_ok_tail; eassumption) ].

Ltac sim_split H :=
  let hw := fresh "hw" in let kb := fresh "kb" in
  let Hag := fresh "Hag" in let Hfr := fresh "Hfr" in let Hup := fresh "Hup" in
  destruct H as (hw & kb & -> & Hag & Hfr & Hup).

Ltac close_leaf :=
  cbn [nres_sim sres_sim rres_sim];
  repeat match goal with |- _ /\ _ => split end; try reflexivity; try sim_leaf.

Lemma speek_eq hw (x : state) kb n : agree VNil hw (st_stack x) kb -> speek (set_stack x kb) n = speek x n.
Proof.
  intros H. unfold speek. cbn [st_stack set_stack].
  destruct (@vs_step_agree value VNil hw (st_stack x) kb (VPeek value n) H I) as [Ho _].
  destruct (vs_step VNil (st_stack x) (VPeek value n)) as [k o], (vs_step VNil kb (VPeek value n)) as [k' o'].
  cbn [snd] in Ho. subst o'. reflexivity.
Qed.

Section Natives.
  Variable F : fops.
  Variable P : program.
  Variable re : N -> state -> rres.
  Hypothesis Hre : forall ip x y, Sim x y -> rres_sim (re ip x) (re ip y).

  Section Std.
    Variable self : N -> state -> nres.
    Hypothesis Hself : forall h x y, Sim x y -> nres_sim (self h x) (self h y).

    Lemma rf_sim3 fv x y : Sim x y -> nres_sim (run_function P re self fv x) (run_function P re self fv y).
    Proof. apply (@run_function_sim P re Hre self Hself). Qed.

    (* run_function on both states *)
    Ltac lock_rf :=
      match goal with
      | |- context [run_function P re self ?fv ?X] =>
          match goal with
          | |- context [run_function P re self fv ?Y] =>
              lazymatch X with Y => fail
              | _ =>
                  let HS := fresh "HS" in assert (HS : Sim X Y) by sim_leaf;
                  let Hr := fresh "Hr" in pose proof (@rf_sim3 fv X Y HS) as Hr; clear HS;
                  destruct (run_function P re self fv X), (run_function P re self fv Y);
                  cbn [nres_sim] in Hr; try contradiction;
                  let E := fresh "E" in destruct Hr as [E Hr]; try subst; sim_split Hr
              end
          end
      end.

    Ltac plain_destruct :=
      match goal with
      | |- context [match ?x with _ => _ end] =>
          lazymatch x with
          | context [match _ with _ => _ end] => fail
          | vs_step _ _ _ => fail
          | vs_push _ _ => fail
          | vs_pop _ _ => fail
          | vs_pop_n _ _ _ => fail
          | run_function _ _ _ _ _ => fail
          | minmax_go _ _ _ _ _ _ _ _ _ _ _ => fail
          | sort_keys _ _ _ _ _ _ => fail
          | make_row _ _ _ _ => fail
          | snapshot _ _ _ => fail
          | _ => destruct x eqn:?
          end
      end.

    Ltac go := repeat first [ progress sm_unfold | progress sm_cbn | lock_reads | plain_destruct | lock_writes | lock_rf ].

    Lemma make_row_sim x y k v : Sim x y -> nres_sim (make_row F x k v) (make_row F y k v).
    Proof. sim_start. unfold make_row. go. all: close_leaf. Qed.

    Ltac lock_mm :=
      match goal with
      | |- context [minmax_go F P re self ?less ?kf ?l ?j ?i ?best ?X] =>
          match goal with
          | |- context [minmax_go F P re self less kf l j i best ?Y] =>
              lazymatch X with Y => fail
              | _ =>
                  let HS := fresh "HS" in assert (HS : Sim X Y) by sim_leaf;
                  let Hr := fresh "Hr" in
                  pose proof (@minmax_go_sim F P re Hre self Hself less kf l j i best X Y HS) as Hr; clear HS;
                  destruct (minmax_go F P re self less kf l j i best X),
                           (minmax_go F P re self less kf l j i best Y);
                  cbn [mmres_sim] in Hr; try contradiction
              end
          end
      end.

    (* the private copy of the table (662697a): one more heap allocation, the same copy on both sides *)
    Lemma snapshot_sim t x y :
      Sim x y ->
      match snapshot F x t, snapshot F y t with
      | Some (x', c), Some (y', c') => c = c' /\ Sim x' y'
      | None, None => True
      | _, _ => False
      end.
    Proof. sim_start. unfold snapshot. go. all: try exact I. all: close_leaf. Qed.

    Ltac lock_snap :=
      match goal with
      | |- context [snapshot F ?X ?t] =>
          match goal with
          | |- context [snapshot F ?Y t] =>
              lazymatch X with Y => fail
              | _ =>
                  let HS := fresh "HS" in assert (HS : Sim X Y) by sim_leaf;
                  let Hr := fresh "Hr" in pose proof (@snapshot_sim t X Y HS) as Hr; clear HS;
                  destruct (snapshot F X t) as [[? ?]|], (snapshot F Y t) as [[? ?]|];
                  try contradiction;
                  [ let E := fresh "E" in destruct Hr as [E Hr]; try subst; sim_split Hr | clear Hr ]
              end
          end
      end.
    Ltac go2 := repeat first [ progress sm_unfold | progress sm_cbn | lock_reads | plain_destruct | lock_writes
                             | lock_rf | lock_snap ].

    Lemma native_minmax_sim less it kf x y :
      Sim x y -> nres_sim (native_minmax F P re self less it kf x) (native_minmax F P re self less it kf y).
    Proof.
      sim_start. unfold native_minmax. go2.
      all: try (close_leaf; fail).
      all: lock_mm.
      all: try exact Hr.
      all: destruct Hr as [-> Hr]; sim_split Hr; sm_cbn.
      all: repeat plain_destruct; sm_cbn.
      all: try (close_leaf; fail).
      all: apply make_row_sim; sim_leaf.
    Qed.

    Ltac lock_sk lem :=
      match goal with
      | |- context [sort_keys P re self ?kf ?l ?X] =>
          match goal with
          | |- context [sort_keys P re self kf l ?Y] =>
              lazymatch X with Y => fail
              | _ =>
                  let HS := fresh "HS" in assert (HS : Sim X Y) by sim_leaf;
                  let Hr := fresh "Hr" in pose proof (lem l X Y HS) as Hr; clear HS;
                  destruct (sort_keys P re self kf l X), (sort_keys P re self kf l Y);
                  cbn [skres_sim] in Hr; try contradiction
              end
          end
      end.

    Lemma sort_keys_sim kf : forall l x y,
      Sim x y -> skres_sim (sort_keys P re self kf l x) (sort_keys P re self kf l y).
    Proof.
      induction l as [|[k v] rest IH]; intros x y HS; cbn [sort_keys].
      - cbn [skres_sim]. auto.
      - revert HS. sim_start. go.
        all: try (cbn [skres_sim]; close_leaf; fail).
        all: lock_sk (fun (_ : list (value * value)) => IH).
        all: cbn [skres_sim]; try exact Hr.
        all: destruct Hr as [-> Hr]; split; [reflexivity|exact Hr].
    Qed.

    Lemma native_sorted_sim it kf x y :
      Sim x y -> nres_sim (native_sorted F P re self it kf x) (native_sorted F P re self it kf y).
    Proof.
      sim_start. unfold native_sorted. go2.
      all: try (close_leaf; fail).
      all: lock_sk (sort_keys_sim kf).
      all: try exact Hr.
      all: destruct Hr as [-> Hr]; sim_split Hr; sm_cbn.
      all: go.
      all: close_leaf.
    Qed.

    Lemma native_body_sim n x y :
      Sim x y -> nres_sim (native_body F P re self n x) (native_body F P re self n y).
    Proof.
      sim_start. destruct n; cbn [native_body]; cbv zeta; rewrite ?(speek_eq _ Hag); go.
      all: try (close_leaf; fail).
      all: try (apply native_minmax_sim; sim_leaf).
      all: try (apply native_sorted_sim; sim_leaf).
    Qed.
  End Std.
End Natives.
