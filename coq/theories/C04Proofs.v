(* C04: compiling is total - errors are values, never crashes or hangs.

   Panic / diverge sites of the compiler model (Compiler.v) and their status:

   site  where                                   outcome   status
   ----  --------------------------------------  --------  ------------------------------------------------
   S1    resolve_function: super_depth = None    RDiverge  UNREACHABLE unconditionally (super_depth_total:
         (2 places, fuel of super_depth_go)                every round of split_once_str "super." drops >= 6
                                                           bytes, fuel S (length s) suffices)
   S2    global_id: ht_entry_hangs (ids, names)  RDiverge  UNREACHABLE because CompilerGen.ht_entry_grows = true
         (2 places)                                        (ht_entry_never_hangs, by computation; breaks if the
                                                           generated constant flips - intended)
   S3    patch_jump_here q: patch_code = None    RPanic    UNREACHABLE unconditionally: invariant "q is the start
                                                           of a jump instruction" (jump_at), preserved by
                                                           appending and by patching (patch_code_complete)
   S4    handle_from_bytes_m bs: hash = 0 and    -         GONE since 3f22e7c "handles are never 0": the
         cs_debug (debug_assert in from_bytes)             debug_assert was removed, a hash of 0 becomes 1 (was
                                                           REACHABLE in debug builds: findings N-C04-1, N-C04-2)
   S5    label_insert_here h: h = 0 (unwrap of   RPanic    h = 0 UNREACHABLE since 3f22e7c (was REACHABLE in every
         Err(InvalidHandle)) or 2^32 <= pc                 build, N-C04-3): closure labels are Handle + Handle
                                                           (handle_add_neq), function labels Handle::from_u64
                                                           (into_ir_stream_nz); pc by the size bound
   S6    label_entry_here: 2^32 <= pc            RPanic    excluded by the size bound of the domain (fs_cost)
   S7    push_string: string of >= 2^32 bytes    RPanic    excluded by the size bound of the domain (fs_cost)
   --    panic / diverge (the monad primitives)            only used at S1 (diverge); panic is unused

   Main results: super_depth_total, ht_entry_never_hangs, patch_code_complete, compile_never_diverges
   (unconditional), compile_total (on module_in_domain).

   The domain (module_in_domain, decidable) only excludes S5(pc)-S7: a size bound (fs_cost, a structural
   over-approximation of the emitted bytes and of every pushed string, below 2^32).  Until 3f22e7c it
   also required non-zero handles of the non-main functions and of the closures (S5) and, in debug
   builds, non-zero FNV hashes of the index paths, of the native names and of the names that can be
   looked up as globals (S4); those conditions are theorems now (hash_ok_always, card_dom_always,
   into_ir_stream_nz) and compile_total is stated on the smaller domain.  It does not assume valid
   names, matching arities, a main function, resolvable calls or imports: all of these come out as
   CErr.

   Proof: a Hoare logic [np dbg fh js c idx idx' m Q] with total-correctness flavour over the state
   monad: from a state satisfying Inv3 (pc = byte length of the code, <= 255 locals / upvalues per
   function) with room for c more bytes below 2^32, whose remembered positions js are starts of jump
   instructions, m neither panics nor diverges and emits at most c bytes. *)
From Coq Require Import List NArith ZArith Bool Lia.
From Cao Require Import ListUtil CheckUtil Bits CardAst Bytecode Compiler CompilerGen StdlibGen Wellformed
     CompilerProofs CompilerWf CompilerOk.
Import ListNotations.
Local Open Scope N_scope.

(* ================================================================== Stage A *)
(* ------------------------------------------------------------------ S1: super_depth has enough fuel *)
Lemma strip_prefix_length p : forall s rest,
  strip_prefix p s = Some rest -> length s = (length p + length rest)%nat.
Proof.
  induction p as [|a p IH]; intros s rest H; cbn [strip_prefix] in H.
  - injection H as <-. reflexivity.
  - destruct s as [|b s]; [discriminate|]. destruct (a =? b); [|discriminate].
    apply IH in H. cbn [length]. lia.
Qed.

Lemma split_once_str_length p : forall s a b,
  split_once_str p s = Some (a, b) -> length s = (length a + length p + length b)%nat.
Proof.
  induction s as [|x r IH]; intros a b H.
  - cbn [split_once_str] in H. destruct (strip_prefix p []) eqn:E; [|discriminate].
    injection H as <- <-. apply strip_prefix_length in E. cbn [length] in *. lia.
  - cbn [split_once_str] in H. destruct (strip_prefix p (x :: r)) eqn:E.
    + injection H as <- <-. apply strip_prefix_length in E. cbn [length] in *. lia.
    + destruct (split_once_str p r) as [[a' b']|] eqn:E2; [|discriminate].
      injection H as <- <-. specialize (IH _ _ eq_refl). cbn [length]. lia.
Qed.

(* super_depth since 4a89bbc: whole leading "super." prefixes (strip_prefix), 6 bytes a round *)
Lemma super_depth_go_total : forall fuel s cnt,
  (length s < fuel)%nat -> super_depth_go fuel s cnt <> None.
Proof.
  induction fuel as [|f IH]; intros s cnt Hl; [lia|].
  cbn [super_depth_go].
  destruct (strip_prefix s_super_dot s) as [post|] eqn:E; [|discriminate].
  apply IH. apply strip_prefix_length in E. unfold s_super_dot in E. cbn [length] in E. lia.
Qed.

Theorem super_depth_total : forall s, super_depth s <> None.
Proof. intros s. unfold super_depth. apply super_depth_go_total. lia. Qed.

(* ------------------------------------------------------------------ S2: the entry probe terminates *)
Lemma ht_entry_never_hangs {V} (m : list (N * V)) : ht_entry_hangs m = false.
Proof. unfold ht_entry_hangs. reflexivity. Qed.

(* ------------------------------------------------------------------ S3: patching finds its jump *)
Definition is_jump (i : instr) : bool :=
  match i with IGoto _ | IGotoIfTrue _ | IGotoIfFalse _ => true | _ => false end.

(* [q] is the start of a jump instruction of [code] (newest first) *)
Definition jump_at (code : list instr) (q : N) : Prop :=
  exists k j, nth_error code k = Some j /\ is_jump j = true /\ bytes (skipn (S k) code) = q.

Lemma is_jump_set i z : is_jump i = true ->
  exists i', set_jump_target i z = Some i' /\ is_jump i' = true /\ instr_span i' = instr_span i.
Proof. destruct i; cbn; intros H; try discriminate; eexists; repeat split. Qed.

Lemma set_jump_is_jump i z i' : set_jump_target i z = Some i' -> is_jump i' = true.
Proof. destruct i; cbn; intros H; try discriminate; injection H as <-; reflexivity. Qed.

Lemma is_jump_span i : is_jump i = true -> spanN i = 5.
Proof. destruct i; cbn; intros H; try discriminate; reflexivity. Qed.

Lemma jump_at_cons i code q : jump_at code q -> jump_at (i :: code) q.
Proof. intros (k & j & Hn & Hj & Hq). exists (S k), j. repeat split; auto. Qed.

Lemma jump_at_head i code : is_jump i = true -> jump_at (i :: code) (bytes code).
Proof. intros H. exists 0%nat, i. repeat split; auto. Qed.

Lemma patch_code_some code : forall q z,
  jump_at code q -> patch_code code (bytes code) q z <> None.
Proof.
  induction code as [|i r IH]; intros q z (k & j & Hn & Hj & Hq).
  - destruct k; discriminate.
  - cbn [patch_code bytes]. fold (spanN i).
    replace (spanN i + bytes r - spanN i) with (bytes r) by lia.
    destruct k as [|k]; cbn in Hn.
    + injection Hn as ->. cbn [skipn] in Hq. rewrite Hq, N.eqb_refl.
      destruct (is_jump_set j z Hj) as (j' & -> & _). discriminate.
    + change (skipn (S (S k)) (i :: r)) with (skipn (S k) r) in Hq.
      pose proof (bytes_skipn_S_lt k r j Hn) as H1. pose proof (bytes_skipn_le k r) as H2.
      destruct (N.eqb_spec (bytes r) q) as [E|E]; [lia|].
      destruct (N.ltb_spec (bytes r) q) as [L|L]; [lia|].
      assert (Hr : jump_at r q) by (exists k, j; auto).
      specialize (IH q z Hr). destruct (patch_code r (bytes r) q z); [discriminate | congruence].
Qed.

(* completeness of back-patching: a remembered jump position is always found; the patched code has
   the same spans and the same jump positions *)
Theorem patch_code_complete code q z :
  jump_at code q ->
  exists code', patch_code code (bytes code) q z = Some code' /\
                map instr_span code' = map instr_span code /\
                (forall q', jump_at code q' -> jump_at code' q').
Proof.
  intros Hq. destruct (patch_code code (bytes code) q z) as [code'|] eqn:E;
    [|exfalso; exact (patch_code_some code q z Hq E)].
  exists code'. split; [reflexivity|].
  destruct (patch_code_spec _ _ _ _ _ E eq_refl) as (k & j & j' & Hn & Hj & Hc & Hp).
  pose proof (set_jump_target_span _ _ _ Hj) as Hspan.
  pose proof (map_span_upd _ _ _ _ Hn Hspan) as Hspans. rewrite <- Hc in Hspans.
  split; [exact Hspans|].
  intros q' (k0 & j0 & Hn0 & Hj0 & Hq0).
  destruct (Nat.eq_dec k k0) as [<-|Hne].
  - exists k, j'. split; [rewrite Hc; apply (nth_error_upd_same _ _ _ _ Hn)|].
    split; [apply (set_jump_is_jump _ _ _ Hj)|].
    rewrite <- Hq0. apply bytes_skipn_spans. exact Hspans.
  - exists k0, j0. split; [rewrite Hc, nth_error_upd_other by exact Hne; exact Hn0|].
    split; [exact Hj0|]. rewrite <- Hq0. apply bytes_skipn_spans. exact Hspans.
Qed.

(* ================================================================== no divergence, unconditionally *)
Definition nd {A} (m : M A) : Prop := forall s, m s <> RDiverge.

Lemma nd_ret {A} (a : A) : nd (ret a).
Proof. intros s. discriminate. Qed.
Lemma nd_bind {A B} (m : M A) (f : A -> M B) : nd m -> (forall a, nd (f a)) -> nd (bind m f).
Proof.
  intros Hm Hf s. unfold bind. specialize (Hm s). destruct (m s) as [a s1| | |]; try discriminate.
  - apply Hf.
  - congruence.
Qed.
Lemma nd_error {A} e : nd (@error A e).
Proof. intros s. discriminate. Qed.
Lemma nd_panic {A} : nd (@panic A).
Proof. intros s. discriminate. Qed.

Ltac nd_prim :=
  let s := fresh "s" in
  intros s;
  cbv beta zeta delta [get put get_pc get_pc_i32 push_raw push_instr patch_jump_here push_sub pop_sub
                  handle_from_bytes_m label_insert_here label_entry_here scope_begin compile_begin
                  compile_end add_local_unchecked set_index_m set_fh_m jt_get error];
  repeat match goal with |- context [match ?x with _ => _ end] => destruct x end;
  discriminate.

Lemma nd_get : nd get. Proof. nd_prim. Qed.
Lemma nd_put s0 : nd (put s0). Proof. nd_prim. Qed.
Lemma nd_get_pc : nd get_pc. Proof. nd_prim. Qed.
Lemma nd_get_pc_i32 : nd get_pc_i32. Proof. nd_prim. Qed.
Lemma nd_push_instr i : nd (push_instr i). Proof. nd_prim. Qed.
Lemma nd_patch q : nd (patch_jump_here q). Proof. nd_prim. Qed.
Lemma nd_push_sub i : nd (push_sub i). Proof. nd_prim. Qed.
Lemma nd_pop_sub : nd pop_sub. Proof. nd_prim. Qed.
Lemma nd_hfb bs : nd (handle_from_bytes_m bs). Proof. nd_prim. Qed.
Lemma nd_label_insert h : nd (label_insert_here h). Proof. nd_prim. Qed.
Lemma nd_label_entry h : nd (label_entry_here h). Proof. nd_prim. Qed.
Lemma nd_scope_begin : nd scope_begin. Proof. nd_prim. Qed.
Lemma nd_compile_begin : nd compile_begin. Proof. nd_prim. Qed.
Lemma nd_compile_end : nd compile_end. Proof. nd_prim. Qed.
Lemma nd_add_local_unchecked n : nd (add_local_unchecked n). Proof. nd_prim. Qed.
Lemma nd_set_index_m f i : nd (set_index_m f i). Proof. nd_prim. Qed.
Lemma nd_set_fh_m h : nd (set_fh_m h). Proof. nd_prim. Qed.

Lemma nd_push_raws is : nd (push_raws is).
Proof.
  induction is as [|i r IH]; cbn [push_raws]; [apply nd_ret|].
  apply nd_bind; [apply nd_push_instr | intros _; exact IH].
Qed.
Lemma nd_scope_end : nd scope_end.
Proof. intros s. unfold scope_end. apply nd_push_raws. Qed.

Lemma nd_global_id_tail name h : nd (fun s =>
    let r := match nm_find h (cs_ids s) with
             | Some id => Some (id, cs_ids s, cs_next_var s)
             | None =>
                 if ht_entry_hangs (cs_ids s) then None
                 else Some (cs_next_var s, nm_insert h (cs_next_var s) (cs_ids s), (cs_next_var s + 1) mod two32)
             end in
    match r with
    | None => RDiverge
    | Some (id, ids, nv) =>
        let k := handle_from_u32 id in
        match nm_find k (cs_names s) with
        | Some nm => name_checked nm name id (set_vars ids (cs_names s) nv s)
        | None =>
            if ht_entry_hangs (cs_names s) then RDiverge
            else ROk id (set_vars ids (nm_insert k name (cs_names s)) nv s)
        end
    end).
Proof.
  intros s. cbv zeta. rewrite !ht_entry_never_hangs. unfold name_checked.
  destruct (nm_find h (cs_ids s)); destruct (nm_find _ (cs_names s));
    try destruct (global_name_checked && _); discriminate.
Qed.

Ltac nd_go :=
  repeat first
    [ progress cbv zeta
    | apply nd_ret | apply nd_error | apply nd_get | apply nd_put | apply nd_get_pc | apply nd_get_pc_i32
    | apply nd_push_instr | apply nd_patch | apply nd_push_sub | apply nd_pop_sub | apply nd_hfb
    | apply nd_label_insert | apply nd_label_entry | apply nd_scope_begin | apply nd_compile_begin
    | apply nd_compile_end | apply nd_add_local_unchecked | apply nd_set_index_m | apply nd_set_fh_m
    | apply nd_scope_end | apply nd_global_id_tail
    | assumption
    | match goal with |- nd (bind _ _) => apply nd_bind; [|intros ?] end
    | match goal with
      | |- nd (match super_depth ?a with _ => _ end) =>
          let E := fresh "E" in
          destruct (super_depth a) as [[? ?]|] eqn:E; [|exfalso; exact (super_depth_total a E)]
      end
    | match goal with |- nd (match ?x with _ => _ end) => destruct x end ].

Lemma nd_validate n : nd (validate_var_name n).
Proof. unfold validate_var_name. nd_go. Qed.
Lemma nd_add_local n : nd (add_local n).
Proof. unfold add_local. nd_go. apply nd_validate. Qed.
Lemma nd_add_locals l : nd (add_locals l).
Proof.
  induction l as [|n r IH]; cbn [add_locals]; [apply nd_ret|].
  apply nd_bind; [apply nd_add_local | intros _; exact IH].
Qed.
Lemma nd_resolve_var n : nd (resolve_var n).
Proof.
  unfold resolve_var. apply nd_bind; [apply nd_validate | intros _].
  intros s. destruct (rfind_index _ _ _ _); [discriminate|].
  destruct (resolve_upvalue _ _ _) as [[[v ls] us]|]; discriminate.
Qed.
Lemma nd_global_id n : nd (global_id n).
Proof. unfold global_id. nd_go. Qed.
Lemma nd_resolve_function n : nd (resolve_function n).
Proof. unfold resolve_function. nd_go. Qed.
Lemma nd_index_handle : nd index_handle.
Proof. unfold index_handle. nd_go. Qed.
Lemma nd_card_label : nd card_label.
Proof. unfold card_label. nd_go. apply nd_index_handle. Qed.
Lemma nd_push_string mk st : nd (push_string mk st).
Proof.
  unfold push_string. nd_go. intros s. destruct (two32 <=? N.of_nat (length st)); discriminate.
Qed.
Lemma nd_read_props l : nd (read_props l).
Proof.
  induction l as [|p r IH]; cbn [read_props]; [apply nd_ret|].
  nd_go; apply nd_push_string.
Qed.
Lemma nd_read_var_card v : nd (read_var_card v).
Proof.
  unfold read_var_card. nd_go;
    first [apply nd_resolve_var | apply nd_read_props | apply nd_global_id].
Qed.
Lemma nd_emit_upvalues l : nd (emit_upvalues l).
Proof. induction l as [|u r IH]; cbn [emit_upvalues]; nd_go. Qed.
Lemma nd_process_leaf i : nd (process_leaf i).
Proof. unfold process_leaf. nd_go. apply nd_card_label. Qed.
Lemma nd_bind_loop_var o src : nd (bind_loop_var o src).
Proof. unfold bind_loop_var, read_local, write_local. nd_go. apply nd_add_local. Qed.
Lemma nd_with_sub i m : nd m -> nd (with_sub i m).
Proof. intros H. unfold with_sub. nd_go. Qed.
Lemma nd_encode_if_then skip body : nd body -> nd (encode_if_then skip body).
Proof. intros H. unfold encode_if_then. nd_go. Qed.

Lemma nd_subexpr l : Forall (fun c => nd (process_card c)) l -> forall i,
  nd ((fix subexpr (l : list card) (i : N) {struct l} : M unit :=
         match l with
         | [] => ret tt
         | x :: r => with_sub i (process_card x) ;; subexpr r (i + 1)
         end) l i).
Proof.
  induction 1 as [|x r Hx _ IH]; intros i; [apply nd_ret|].
  apply nd_bind; [apply nd_with_sub, Hx | intros _; apply IH].
Qed.
Lemma nd_array_items tv l : Forall (fun c => nd (process_card c)) l -> forall i,
  nd ((fix items (l : list card) (i : N) {struct l} : M unit :=
         match l with
         | [] => ret tt
         | x :: r =>
             push_instr IScalarNil ;;
             with_sub i (process_card x) ;;
             read_local tv ;;
             push_instr IAppendTable ;;
             items r (i + 1)
         end) l i).
Proof.
  induction 1 as [|x r Hx _ IH]; intros i; [apply nd_ret|].
  unfold read_local. nd_go; [apply nd_with_sub, Hx | apply IH].
Qed.

Ltac nd_card :=
  repeat first
    [ apply nd_card_label | apply nd_read_var_card | apply nd_bind_loop_var | apply nd_emit_upvalues
    | apply nd_process_leaf | apply nd_push_string | apply nd_resolve_var | apply nd_resolve_function
    | apply nd_global_id | apply nd_index_handle | apply nd_add_local | apply nd_add_locals
    | apply nd_with_sub | apply nd_encode_if_then
    | apply nd_subexpr; assumption | apply nd_array_items; assumption
    | progress nd_go ].

Lemma nd_process_card c : nd (process_card c).
Proof.
  induction c using card_ind'; cbn [process_card]; unfold read_local, write_local, read_upvalue, write_upvalue;
    nd_card.
Qed.

Lemma nd_process_cards cards : forall ic, nd (process_cards cards ic).
Proof.
  induction cards as [|c r IH]; intros ic; cbn [process_cards]; nd_go; [apply nd_process_card | apply IH].
Qed.
Lemma nd_process_function f : nd (process_function f).
Proof.
  unfold process_function. nd_go; [intros s; discriminate | apply nd_add_locals | apply nd_process_cards].
Qed.
Lemma nd_compile_main f : nd (compile_main f).
Proof. unfold compile_main. nd_go; [apply nd_process_function | apply nd_process_leaf]. Qed.
Lemma nd_compile_other f : nd (compile_other f).
Proof. unfold compile_other. nd_go. apply nd_process_function. Qed.
Lemma nd_compile_others fs : nd (compile_others fs).
Proof. induction fs as [|f r IH]; cbn [compile_others]; nd_go. apply nd_compile_other. Qed.
Lemma nd_add_function f : nd (add_function f).
Proof. unfold add_function. nd_go. Qed.
Lemma nd_stage_1 fs : nd (stage_1 fs).
Proof. induction fs as [|f r IH]; cbn [stage_1]; nd_go. apply nd_add_function. Qed.
Lemma nd_stage_2 fs : nd (stage_2 fs).
Proof. destruct fs as [|f r]; cbn [stage_2]; nd_go; [apply nd_compile_main | apply nd_compile_others]. Qed.
Lemma nd_compile_ir fs : nd (compile_ir fs).
Proof.
  unfold compile_ir. destruct fs as [|f r]; nd_go;
    [apply nd_stage_1 | apply nd_stage_2 | intros s; discriminate].
Qed.

(* errors are values, never hangs: for every module and all options *)
Theorem compile_never_diverges : forall (M : module) (o : options), compile M o <> CDiverge.
Proof.
  intros M o. unfold compile. destruct (into_ir_stream M (o_recursion_limit o)) as [e|fs]; [discriminate|].
  pose proof (nd_compile_ir fs (init_state (o_debug o))) as H.
  destruct (compile_ir fs (init_state (o_debug o))); congruence.
Qed.

(* ================================================================== the domain *)
(* bytes hashed by CardIndex::sub_handle for the index path [idx] (newest index first) *)
Definition path_bytes (idx : list N) : list N := flat_map (fun i => le_bytes 4 (i mod two32)) (rev idx).
(* "Handle::from_bytes does not trip its debug_assert": until 3f22e7c a condition of the domain (S4); since
   then handles are never 0 and the predicate holds of every byte string (hash_ok_always).  It survives, with
   [card_dom] / [fn_dom] below, as the internal invariant the Hoare logic threads through process_card. *)
Definition hash_ok (dbg : bool) (bs : list N) : bool := negb dbg || negb (handle_of_bytes bs =? 0).
(* the label of the closure compiled at path [idx] of the function with handle [fh] *)
Definition closure_handle (fh : N) (idx : list N) : N :=
  handle_add (handle_add fh (handle_of_bytes (path_bytes idx))) (handle_from_u64 closure_mask).
(* the part of a variable path that read_var_card hashes when it resolves to a global *)
Definition var_head (v : str) : str :=
  match split_once_c c_dot v with Some (v0, _) => v0 | None => v end.
Definition slen (s : str) : N := N.of_nat (length s).

Section SubsAll.
  Variable f : list N -> card -> bool.
  Variable idx : list N.
  (* children l numbered i, i+1, ... below the path idx *)
  Fixpoint subs_all (l : list card) (i : N) : bool :=
    match l with
    | [] => true
    | x :: r => f (i :: idx) x && subs_all r (i + 1)
    end.
End SubsAll.

Section CardDom.
  Variable dbg : bool.       (* debug_assert compiled in *)
  Variable fh : N.           (* handle of the enclosing function *)
  (* [idx] = cs_idx when process_card is entered for the card *)
  Fixpoint card_dom (idx : list N) (c : card) {struct c} : bool :=
    hash_ok dbg (path_bytes idx) &&                                    (* S4: card_label *)
    match c with
    | CBin _ a b => card_dom (0 :: idx) a && card_dom (1 :: idx) b
    | CUn _ a => card_dom (0 :: idx) a
    | CTri _ a b c => card_dom (0 :: idx) a && card_dom (1 :: idx) b && card_dom (2 :: idx) c
    | CReadVar name => hash_ok dbg (var_head name)                     (* S4: global_id *)
    | CCallNative name args => hash_ok dbg name && subs_all card_dom idx args 0   (* S4 *)
    | CCall _ args | CComposite _ args | CArray args => subs_all card_dom idx args 0
    | CDynamicCall f args => card_dom (0 :: idx) f && subs_all card_dom idx args 1
    | CSetGlobalVar name v => hash_ok dbg name && card_dom (0 :: idx) v  (* S4: global_id *)
    | CSetVar name v =>
        match rsplit_once_c c_dot name with
        | Some (rprops, _) => hash_ok dbg (var_head rprops)            (* S4: read_var_card *)
        | None => true
        end && card_dom (0 :: idx) v
    | CRepeat _ n b => card_dom (0 :: idx) n && card_dom (1 :: idx) b
    | CForEach _ _ _ it b => card_dom (0 :: idx) it && card_dom (1 :: idx) b
    | CClosure _ cards =>
        negb (closure_handle fh idx =? 0) && subs_all card_dom idx cards 0        (* S5 *)
    | _ => true
    end.
End CardDom.

(* over-approximation of the bytes process_card emits.  One constant per node: the largest fixed
   emission is a closure (4 instructions <= 21 bytes, scope_end <= 255 pops of <= 5 bytes (CloseUpvalue
   carries a u32 since d723a2c), emit_upvalues <= 255 * 4 bytes: 2400) or a loop (Repeat: 15 instructions,
   one 5-byte jump, two scope_ends: 2870);
   a list child costs 3 more instructions in an Array (64); a name that is read costs
   <= 5 + 6 bytes per '.'-separated segment plus its length (it is also a bound for S7) *)
Definition node_cost : N := 4096.
Section CardsCost.
  Variable f : card -> N.
  Fixpoint cards_cost (l : list card) : N :=
    match l with
    | [] => 0
    | x :: r => 64 + f x + cards_cost r
    end.
End CardsCost.
Fixpoint card_cost (c : card) : N :=
  node_cost +
  match c with
  | CBin _ a b => card_cost a + card_cost b
  | CUn _ a => card_cost a
  | CTri _ a b c => card_cost a + card_cost b + card_cost c
  | CStringLiteral s | CNativeFunction s | CReadVar s => 8 * slen s
  | CCallNative _ args | CCall _ args | CComposite _ args | CArray args | CClosure _ args =>
      cards_cost card_cost args
  | CDynamicCall f args => card_cost f + cards_cost card_cost args
  | CSetGlobalVar _ v => card_cost v
  | CSetVar name v => 8 * slen name + card_cost v
  | CRepeat _ n b => card_cost n + card_cost b
  | CForEach _ _ _ it b => card_cost it + card_cost b
  | _ => 0
  end.

Definition fn_cost (f : function_ir) : N := node_cost + cards_cost card_cost (fi_cards f).
Fixpoint fs_cost (fs : list function_ir) : N :=
  match fs with [] => 0 | f :: r => fn_cost f + fs_cost r end.
(* the top-level card number ic of a function is compiled at path [ic] *)
Definition fn_dom (dbg : bool) (f : function_ir) : bool :=
  subs_all (card_dom dbg (fi_handle f)) [] (fi_cards f) 0.

(* the domain since 3f22e7c: the size bound only (S5 pc, S6, S7).  [dbg] is kept in the signature (the build
   profile no longer matters to the domain). *)
Definition fs_in_domain (dbg : bool) (fs : list function_ir) : bool :=
  fs_cost fs + node_cost <? two32.
(* what the proof needs besides: every card satisfies card_dom (card_dom_always) and the functions of
   into_ir_stream carry non-zero handles (into_ir_stream_nz) *)
Definition handles_nz (fs : list function_ir) : Prop := Forall (fun f => fi_handle f <> 0) fs.

Definition module_in_domain (M : module) (o : options) : bool :=
  match into_ir_stream M (o_recursion_limit o) with
  | inl _ => true
  | inr fs => fs_in_domain (o_debug o) fs
  end.

Example domain_sanity_debug :
  module_in_domain (main_module [CScalarInt 1; CSetVar [120] (CScalarInt 2); CClosure [] [CReadVar [120]]])
                   default_options = true.
Proof. vm_compute. reflexivity. Qed.
Example domain_sanity_release :
  module_in_domain (main_module [CScalarInt 1; CSetVar [120] (CScalarInt 2); CClosure [] [CReadVar [120]]])
                   {| o_recursion_limit := 64; o_debug := false |} = true.
Proof. vm_compute. reflexivity. Qed.

(* ================================================================== Stage B: the no-panic logic *)
Record Inv3 (s : cstate) : Prop := {
  i3_pc : cs_pc s = bytes (cs_code s);
  i3_locals : Forall (fun ls : list local => (length ls <= 255)%nat) (cs_locals s);
  i3_ups : Forall ups_ok (cs_upvalues s)
}.

Definition jumps_in (js : list N) (s : cstate) : Prop := forall q, In q js -> jump_at (cs_code s) q.
Definition jmono (s s' : cstate) : Prop := forall q, jump_at (cs_code s) q -> jump_at (cs_code s') q.

(* total-correctness flavoured triple: from a state with debug flag [dbg], function handle [fh], index
   path [idx], whose remembered jump positions [js] are jumps, and with room for [c] more bytes below
   2^32, [m] does not panic or diverge; if it returns it has emitted at most [c] bytes *)
Definition np {A} (dbg : bool) (fh : N) (js : list N) (c : N) (idx idx' : list N) (m : M A) (Q : A -> Prop) : Prop :=
  forall s, Inv3 s -> cs_debug s = dbg -> cs_fh s = fh -> cs_idx s = idx -> jumps_in js s ->
            cs_pc s + c < two32 ->
    match m s with
    | ROk a s' => Inv3 s' /\ cs_debug s' = dbg /\ cs_fh s' = fh /\ cs_idx s' = idx' /\ jmono s s' /\
                  cs_pc s <= cs_pc s' /\ cs_pc s' <= cs_pc s + c /\ Q a
    | RErr _ _ => True
    | RPanic | RDiverge => False
    end.

Lemma jmono_refl s : jmono s s.
Proof. intros q H; exact H. Qed.

Ltac np_split := split; [|split; [|split; [|split; [|split; [|split; [|split]]]]]].

Lemma np_ret {A} dbg fh js idx (a : A) (Q : A -> Prop) : Q a -> np dbg fh js 0 idx idx (ret a) Q.
Proof. intros H s HI Hd Hf Hi Hj Hc. cbn. np_split; auto; try lia. apply jmono_refl. Qed.
Lemma np_ret_T {A} dbg fh js idx (a : A) : np dbg fh js 0 idx idx (ret a) (fun _ => True).
Proof. apply np_ret. exact I. Qed.
Lemma np_error {A} dbg fh js idx e (Q : A -> Prop) : np dbg fh js 0 idx idx (error e) Q.
Proof. intros s _ _ _ _ _ _. exact I. Qed.

Lemma np_bind {A B} dbg fh js c1 c2 idx idx1 idx' (m : M A) (f : A -> M B) Q1 Q :
  np dbg fh js c1 idx idx1 m Q1 -> (forall a, Q1 a -> np dbg fh js c2 idx1 idx' (f a) Q) ->
  np dbg fh js (c1 + c2) idx idx' (bind m f) Q.
Proof.
  intros Hm Hk s HI Hd Hf Hi Hj Hc. unfold bind.
  specialize (Hm s HI Hd Hf Hi Hj ltac:(lia)). destruct (m s) as [a s1| | |]; auto.
  destruct Hm as (HI1 & Hd1 & Hf1 & Hi1 & Hm1 & Hle1 & Hub1 & Hq).
  assert (Hj1 : jumps_in js s1) by (intros q Hin; apply Hm1, Hj, Hin).
  specialize (Hk a Hq s1 HI1 Hd1 Hf1 Hi1 Hj1 ltac:(lia)). destruct (f a s1) as [b s2| | |]; auto.
  destruct Hk as (HI2 & Hd2 & Hf2 & Hi2 & Hm2 & Hle2 & Hub2 & Hq2).
  np_split; auto; try lia. intros q Hq0. apply Hm2, Hm1, Hq0.
Qed.

Lemma np_weaken {A} dbg fh js c c' idx idx' (m : M A) (Q Q' : A -> Prop) :
  np dbg fh js c idx idx' m Q -> c <= c' -> (forall a, Q a -> Q' a) -> np dbg fh js c' idx idx' m Q'.
Proof.
  intros Hm Hc HQ s HI Hd Hf Hi Hj Hc'. specialize (Hm s HI Hd Hf Hi Hj ltac:(lia)).
  destruct (m s); auto. destruct Hm as (H1 & H2 & H3 & H4 & H5 & H6 & H7 & H8). np_split; auto. lia.
Qed.
Lemma np_cost {A} dbg fh js c c' idx idx' (m : M A) (Q : A -> Prop) :
  np dbg fh js c idx idx' m Q -> c <= c' -> np dbg fh js c' idx idx' m Q.
Proof. intros H Hc. eapply np_weaken; eauto. Qed.
Lemma np_unit {A} dbg fh js c idx idx' (m : M A) (Q : A -> Prop) :
  np dbg fh js c idx idx' m Q -> np dbg fh js c idx idx' m (fun _ => True).
Proof. intros H. eapply np_weaken; eauto. lia. Qed.

(* operations that leave the code alone *)
Lemma np_nocode {A} dbg fh js c idx idx' (m : M A) (Q : A -> Prop) :
  (forall s, Inv3 s -> cs_debug s = dbg -> cs_fh s = fh -> cs_idx s = idx -> cs_pc s + c < two32 ->
     match m s with
     | ROk a s' => cs_code s' = cs_code s /\ cs_pc s' = cs_pc s /\ cs_debug s' = cs_debug s /\
                   cs_fh s' = cs_fh s /\ cs_idx s' = idx' /\
                   Forall (fun ls : list local => (length ls <= 255)%nat) (cs_locals s') /\
                   Forall ups_ok (cs_upvalues s') /\ Q a
     | RErr _ _ => True
     | RPanic | RDiverge => False
     end) ->
  np dbg fh js c idx idx' m Q.
Proof.
  intros H s HI Hd Hf Hi Hj Hc. specialize (H s HI Hd Hf Hi Hc). destruct (m s) as [a s'| | |]; auto.
  destruct H as (E1 & E2 & E3 & E4 & E5 & E6 & E7 & E8).
  np_split; [constructor; [rewrite E1, E2; apply HI | auto | auto] | congruence | congruence | auto
            | intros q; rewrite E1; auto | lia | lia | auto].
Qed.

Ltac nocode :=
  apply np_nocode;
  let s := fresh "s" in let HI := fresh "HI" in let Hd := fresh "Hd" in let Hf := fresh "Hf" in
  let Hi := fresh "Hi" in let Hc := fresh "Hc" in
  intros s HI Hd Hf Hi Hc.
Ltac nocode_done HI :=
  cbn; repeat split; auto; try apply (i3_locals _ HI); try apply (i3_ups _ HI).

Lemma np_get_bind {B} dbg fh js c idx idx' (k : cstate -> M B) Q :
  (forall s0, Inv3 s0 -> cs_fh s0 = fh -> cs_idx s0 = idx -> np dbg fh js c idx idx' (k s0) Q) ->
  np dbg fh js c idx idx' (bind get k) Q.
Proof. intros H s HI Hd Hf Hi Hj Hc. unfold bind, get. apply (H s HI Hf Hi s HI Hd Hf Hi Hj Hc). Qed.

Lemma np_get_pc_i32 dbg fh js idx : np dbg fh js 0 idx idx get_pc_i32 (fun _ => True).
Proof. nocode. nocode_done HI. Qed.
Lemma np_push_sub dbg fh js idx i : np dbg fh js 0 idx (i :: idx) (push_sub i) (fun _ => True).
Proof. nocode. nocode_done HI. rewrite Hi. reflexivity. Qed.
Lemma np_pop_sub_gen dbg fh js idx : np dbg fh js 0 idx (tl idx) pop_sub (fun _ => True).
Proof. nocode. nocode_done HI. rewrite Hi. reflexivity. Qed.
Lemma np_pop_sub dbg fh js idx i : np dbg fh js 0 (i :: idx) idx pop_sub (fun _ => True).
Proof. apply (np_pop_sub_gen dbg fh js (i :: idx)). Qed.
Lemma np_set_index_m dbg fh js idx f idx' : np dbg fh js 0 idx idx' (set_index_m f idx') (fun _ => True).
Proof. nocode. nocode_done HI. Qed.
Lemma np_scope_begin dbg fh js idx : np dbg fh js 0 idx idx scope_begin (fun _ => True).
Proof. nocode. nocode_done HI. Qed.
Lemma np_compile_begin dbg fh js idx : np dbg fh js 0 idx idx compile_begin (fun _ => True).
Proof.
  nocode. cbn. repeat split; auto.
  - constructor; [cbn; lia | apply HI].
  - constructor; [split; [cbn; lia | constructor] | apply HI].
Qed.
Lemma np_compile_end dbg fh js idx : np dbg fh js 0 idx idx compile_end (fun _ => True).
Proof. nocode. cbn. repeat split; auto; apply Forall_tl; apply HI. Qed.
Lemma np_validate dbg fh js idx n : np dbg fh js 0 idx idx (validate_var_name n) (fun _ => True).
Proof. unfold validate_var_name. destruct (is_empty n); [apply np_error | apply np_ret_T]. Qed.
Lemma np_add_local_unchecked dbg fh js idx n : np dbg fh js 0 idx idx (add_local_unchecked n) (fun _ => True).
Proof.
  nocode. unfold add_local_unchecked.
  destruct (Nat.leb_spec locals_cap (length (hd [] (cs_locals s)))) as [Hge|Hlt]; [exact I|].
  unfold locals_cap in Hlt. cbn. repeat split; auto; [|apply HI].
  destruct (i3_locals _ HI) as [|ls rest Hls Hrest]; cbn in *; constructor; auto.
  rewrite app_length. cbn. lia.
Qed.
Lemma np_add_local dbg fh js idx n : np dbg fh js 0 idx idx (add_local n) (fun _ => True).
Proof.
  unfold add_local. apply np_cost with (c := 0 + 0); [|lia].
  eapply np_bind; [apply np_validate | intros _ _; apply np_add_local_unchecked].
Qed.
Lemma np_add_locals dbg fh js idx l : np dbg fh js 0 idx idx (add_locals l) (fun _ => True).
Proof.
  induction l as [|n r IH]; cbn [add_locals]; [apply np_ret_T|].
  apply np_cost with (c := 0 + 0); [|lia].
  eapply np_bind; [apply np_add_local | intros _ _; exact IH].
Qed.
Lemma np_resolve_var dbg fh js idx n : np dbg fh js 0 idx idx (resolve_var n) (fun _ => True).
Proof.
  unfold resolve_var. apply np_cost with (c := 0 + 0); [|lia].
  eapply np_bind; [apply np_validate | intros _ _].
  nocode. destruct (rfind_index _ (hd [] (cs_locals s)) 0 None) as [i|]; [nocode_done HI|].
  destruct (resolve_upvalue n (cs_locals s) (cs_upvalues s)) as [[[v ls] us]|] eqn:Er; [|exact I].
  destruct (resolve_upvalue_ok _ _ _ _ _ _ (i3_locals _ HI) (i3_ups _ HI) Er) as (Hl & Hu & Hv).
  cbn. repeat split; auto.
Qed.

Lemma hash_ok_always dbg bs : hash_ok dbg bs = true.
Proof.
  unfold hash_ok. destruct (N.eqb_spec (handle_of_bytes bs) 0) as [E|E]; [|apply orb_true_r].
  exfalso. exact (handle_of_bytes_neq bs E).
Qed.

(* S4 *)
Lemma np_hfb dbg fh js idx bs :
  hash_ok dbg bs = true ->
  np dbg fh js 0 idx idx (handle_from_bytes_m bs) (fun h => h = handle_of_bytes bs).
Proof.
  intros _. nocode. unfold handle_from_bytes_m. nocode_done HI.
Qed.
Lemma np_index_handle dbg fh js idx :
  hash_ok dbg (path_bytes idx) = true ->
  np dbg fh js 0 idx idx index_handle (fun h => h = handle_add fh (handle_of_bytes (path_bytes idx))).
Proof.
  intros H. unfold index_handle. apply np_get_bind. intros s0 _ Hf0 Hi0. rewrite Hf0, Hi0.
  fold (path_bytes idx). apply np_cost with (c := 0 + 0); [|lia].
  eapply np_bind; [apply np_hfb, H | intros sub ->; apply np_ret; reflexivity].
Qed.
(* S5 *)
Lemma np_label_insert dbg fh js idx h :
  h <> 0 -> np dbg fh js 0 idx idx (label_insert_here h) (fun _ => True).
Proof.
  intros H. nocode. unfold label_insert_here.
  destruct (N.leb_spec two32 (cs_pc s)); [lia|]. destruct (N.eqb_spec h 0); [contradiction|].
  nocode_done HI.
Qed.
(* S6 *)
Lemma np_label_entry dbg fh js idx h : np dbg fh js 0 idx idx (label_entry_here h) (fun _ => True).
Proof.
  nocode. unfold label_entry_here. destruct (N.leb_spec two32 (cs_pc s)); [lia|].
  destruct (h =? 0); [nocode_done HI|]. destruct (nm_find h (cs_labels s)); nocode_done HI.
Qed.
Lemma np_card_label dbg fh js idx :
  hash_ok dbg (path_bytes idx) = true -> np dbg fh js 0 idx idx card_label (fun _ => True).
Proof.
  intros H. unfold card_label. apply np_cost with (c := 0 + 0); [|lia].
  eapply np_bind; [apply np_index_handle, H | intros h _; apply np_label_entry].
Qed.

(* S2 *)
Lemma np_global_id dbg fh js idx name :
  hash_ok dbg name = true -> np dbg fh js 0 idx idx (global_id name) (fun _ => True).
Proof.
  intros H. unfold global_id. apply np_cost with (c := 0 + 0); [|lia].
  eapply np_bind; [apply np_hfb, H | intros h _].
  nocode. cbv zeta. rewrite !ht_entry_never_hangs. unfold name_checked.
  destruct (nm_find h (cs_ids s)); destruct (nm_find _ (cs_names s));
    try destruct (global_name_checked && _); nocode_done HI.
Qed.

(* S1 *)
Lemma np_resolve_function dbg fh js idx n : np dbg fh js 0 idx idx (resolve_function n) (fun _ => True).
Proof.
  unfold resolve_function. apply np_get_bind. intros s _ _ _. cbv zeta.
  apply np_cost with (c := 0 + (0 + 0)); [|lia].
  eapply np_bind with (Q1 := fun _ => True).
  { destruct (match sm_find n (cs_jump s) with Some m => Some m | None => _ end); [apply np_ret_T|].
    destruct (sm_find n (cs_imports s)) as [alias|]; [|apply np_ret_T].
    destruct (super_depth alias) as [[cnt sx]|] eqn:E; [|exfalso; exact (super_depth_total _ E)].
    destruct (take_ns _ _ _); [apply np_ret_T | apply np_error]. }
  intros st3 _. eapply np_bind with (Q1 := fun _ => True).
  { destruct st3; [apply np_ret_T|].
    destruct (split_once_c c_dot n) as [[pre suf]|]; [|apply np_ret_T].
    destruct (sm_find pre (cs_imports s)) as [alias|]; [|apply np_ret_T].
    destruct (super_depth alias) as [[cnt sx]|] eqn:E; [|exfalso; exact (super_depth_total _ E)].
    destruct (take_ns _ _ _); [apply np_ret_T | apply np_error]. }
  intros st4 _. destruct st4; [apply np_ret_T | apply np_error].
Qed.

(* ---- emission ---- *)
Lemma spanN_le i : spanN i <= 21.
Proof. destruct i; vm_compute; discriminate. Qed.

Lemma pushed_facts s i : Inv3 s ->
  Inv3 (pushed s i) /\ cs_debug (pushed s i) = cs_debug s /\ cs_fh (pushed s i) = cs_fh s /\
  cs_idx (pushed s i) = cs_idx s /\ jmono s (pushed s i) /\ cs_pc (pushed s i) = cs_pc s + spanN i /\
  cs_code (pushed s i) = i :: cs_code s.
Proof.
  intros [H1 H2 H3]. unfold pushed, jmono.
  cbn [cs_code cs_pc cs_locals cs_upvalues cs_debug cs_fh cs_idx set_code set_trace].
  split; [constructor; cbn [cs_code cs_pc cs_locals cs_upvalues set_code set_trace]; auto;
          cbn [bytes]; rewrite H1; unfold spanN; lia|].
  repeat split; auto. intros q. apply jump_at_cons.
Qed.

Lemma np_push_instr_c dbg fh js idx i c :
  spanN i <= c -> np dbg fh js c idx idx (push_instr i) (fun _ => True).
Proof.
  intros Hs s HI Hd Hf Hi Hj Hc. rewrite push_instr_eq.
  destruct (pushed_facts s i HI) as (F1 & F2 & F3 & F4 & F5 & F6 & F7).
  np_split; auto; try congruence; lia.
Qed.
Lemma np_push_instr dbg fh js idx i : np dbg fh js 21 idx idx (push_instr i) (fun _ => True).
Proof. apply np_push_instr_c, spanN_le. Qed.

(* a jump whose position is remembered: it is a jump of the code for the continuation *)
Lemma np_pending {B} dbg fh js c idx idx' j (k : N -> M B) Q :
  is_jump j = true ->
  (forall q, np dbg fh (q :: js) c idx idx' (k q) Q) ->
  np dbg fh js (5 + c) idx idx' (bind get_pc (fun q => bind (push_instr j) (fun _ => k q))) Q.
Proof.
  intros Hjmp Hk s HI Hd Hf Hi Hj Hc.
  assert (E : bind get_pc (fun q => bind (push_instr j) (fun _ => k q)) s = k (cs_pc s) (pushed s j))
    by reflexivity.
  rewrite E. clear E.
  destruct (pushed_facts s j HI) as (F1 & F2 & F3 & F4 & F5 & F6 & F7).
  rewrite (is_jump_span j Hjmp) in F6.
  assert (Hj1 : jumps_in (cs_pc s :: js) (pushed s j)).
  { intros q [<-|Hin].
    - rewrite F7, (i3_pc _ HI). apply jump_at_head, Hjmp.
    - apply F5, Hj, Hin. }
  specialize (Hk (cs_pc s) (pushed s j) F1 ltac:(congruence) ltac:(congruence) ltac:(congruence) Hj1 ltac:(lia)).
  destruct (k (cs_pc s) (pushed s j)) as [b s2| | |]; auto.
  destruct Hk as (H1 & H2 & H3 & H4 & H5 & H6 & H7 & H8).
  np_split; auto; try lia. intros q Hq. apply H5, F5, Hq.
Qed.

(* S3 *)
Lemma np_patch dbg fh js idx q :
  In q js -> np dbg fh js 0 idx idx (patch_jump_here q) (fun _ => True).
Proof.
  intros Hin s HI Hd Hf Hi Hj Hc. unfold patch_jump_here.
  destruct (patch_code_complete (cs_code s) q (u32_to_i32 (cs_pc s)) (Hj q Hin)) as (code' & E & Hsp & Hjm).
  rewrite <- (i3_pc _ HI) in E. rewrite E.
  np_split; cbn; auto; try lia.
  constructor; cbn; try apply HI.
  rewrite (i3_pc _ HI). symmetry. apply (bytes_skipn_spans 0 code' (cs_code s) Hsp).
Qed.

(* S7 *)
Lemma np_push_string dbg fh js idx mk st :
  (forall x, spanN (mk x) = 5) ->
  np dbg fh js (5 + slen st) idx idx (push_string mk st) (fun _ => True).
Proof.
  intros Hmk. unfold push_string. apply np_get_bind. intros s0 _ _ _.
  eapply np_bind; [apply np_push_instr_c; rewrite Hmk; lia | intros _ _].
  nocode. unfold slen in Hc. destruct (N.leb_spec two32 (N.of_nat (length st))); [lia|].
  nocode_done HI.
Qed.

(* d723a2c: the CloseUpvalue of scope_end has a u32 operand: 5 bytes (Pop stays 1 byte) *)
Lemma np_push_raws dbg fh js idx is :
  Forall (fun i => spanN i <= 5) is ->
  np dbg fh js (5 * N.of_nat (length is)) idx idx (push_raws is) (fun _ => True).
Proof.
  induction 1 as [|i r Hi _ IH]; cbn [push_raws length]; [apply np_ret_T|].
  eapply np_cost; [eapply np_bind; [apply np_push_instr_c with (c := 5); lia | intros _ _; exact IH]|]. lia.
Qed.

Lemma pop_locals_instrs rls d :
  Forall (fun i => spanN i <= 5) (snd (pop_locals rls d)) /\
  (length (snd (pop_locals rls d)) <= length rls)%nat.
Proof.
  induction rls as [|l r IH]; cbn [pop_locals]; [split; [constructor | cbn; lia]|].
  destruct (d <? l_depth l)%Z; [|split; [constructor | cbn; lia]].
  destruct (pop_locals r d) as [r' is]. cbn [snd length] in *. destruct IH as [IH1 IH2].
  split; [|lia]. constructor; auto. destruct (l_captured l); vm_compute; discriminate.
Qed.

Lemma np_scope_end dbg fh js idx : np dbg fh js 1275 idx idx scope_end (fun _ => True).
Proof.
  intros s HI Hd Hf Hi Hj Hc. unfold scope_end.
  set (ds := map_hd _ (cs_depth s)). set (rlis := pop_locals _ _). set (s1 := set_scopes _ _ _ s).
  destruct (pop_locals_instrs (rev (hd [] (cs_locals s))) (hd 0%Z ds)) as [Hsp Hlen].
  fold rlis in Hsp, Hlen. rewrite rev_length in Hlen.
  assert (Hhd : (length (hd [] (cs_locals s)) <= 255)%nat).
  { destruct (i3_locals _ HI); cbn; [lia | auto]. }
  assert (HI1 : Inv3 s1).
  { destruct HI as [H1 H2 H3]. constructor; cbn; auto.
    destruct H2 as [|ls rest Hls Hrest]; cbn; constructor; auto.
    rewrite rev_length. subst rlis. cbn [hd].
    pose proof (pop_locals_length (rev ls) (hd 0%Z ds)) as H. rewrite rev_length in H. lia. }
  pose proof (np_push_raws dbg fh js idx (snd rlis) Hsp s1 HI1 Hd Hf Hi Hj) as H.
  assert (Hc1 : cs_pc s1 + 5 * N.of_nat (length (snd rlis)) < two32).
  { change (cs_pc s1) with (cs_pc s). lia. }
  specialize (H Hc1). destruct (push_raws (snd rlis) s1) as [a s2| | |]; auto.
  destruct H as (H1 & H2 & H3 & H4 & H5 & H6 & H7 & H8).
  np_split; auto. change (cs_pc s1) with (cs_pc s) in H7. lia.
Qed.

Lemma np_emit_upvalues_len dbg fh js idx ups :
  np dbg fh js (4 * N.of_nat (length ups)) idx idx (emit_upvalues ups) (fun _ => True).
Proof.
  induction ups as [|u r IH]; cbn [emit_upvalues length]; [apply np_ret_T|].
  eapply np_cost.
  - eapply np_bind; [apply np_push_instr_c with (c := 1); vm_compute; discriminate | intros _ _].
    eapply np_bind; [apply np_push_instr_c with (c := 3); vm_compute; discriminate | intros _ _; exact IH].
  - lia.
Qed.
Lemma np_emit_upvalues dbg fh js idx ups :
  (length ups <= 255)%nat -> np dbg fh js 1020 idx idx (emit_upvalues ups) (fun _ => True).
Proof. intros H. eapply np_cost; [apply np_emit_upvalues_len | lia]. Qed.

Lemma np_with_sub dbg fh js c idx i m Q :
  np dbg fh js c (i :: idx) (i :: idx) m Q -> np dbg fh js c idx idx (with_sub i m) (fun _ => True).
Proof.
  intros H. unfold with_sub. apply np_cost with (c := 0 + (c + 0)); [|lia].
  eapply np_bind; [apply np_push_sub | intros _ _].
  eapply np_bind; [exact H | intros _ _; apply np_pop_sub].
Qed.

Lemma np_encode_if_then dbg fh js c idx idx' skip body Q :
  is_jump (skip 0%Z) = true ->
  (forall q, np dbg fh (q :: js) c idx idx' body Q) ->
  np dbg fh js (5 + c) idx idx' (encode_if_then skip body) (fun _ => True).
Proof.
  intros Hs Hb. unfold encode_if_then. eapply np_cost; [apply np_pending; [exact Hs | intros q]|].
  - eapply np_bind; [apply Hb | intros _ _; apply np_patch; left; reflexivity].
  - lia.
Qed.

Lemma np_process_leaf dbg fh js idx i :
  hash_ok dbg (path_bytes idx) = true -> np dbg fh js 21 idx idx (process_leaf i) (fun _ => True).
Proof.
  intros H. unfold process_leaf. apply np_cost with (c := 0 + 21); [|lia].
  eapply np_bind; [apply np_card_label, H | intros _ _; apply np_push_instr].
Qed.

Lemma np_bind_loop_var dbg fh js idx o src :
  np dbg fh js 42 idx idx (bind_loop_var o src) (fun _ => True).
Proof.
  destruct o; cbn [bind_loop_var]; [|eapply np_cost; [apply np_ret_T | lia]].
  unfold read_local, write_local. apply np_cost with (c := 0 + (21 + 21)); [|lia].
  eapply np_bind; [apply np_add_local | intros x _].
  eapply np_bind; [apply np_push_instr | intros _ _; apply np_push_instr].
Qed.

(* ---- variable paths ---- *)
Lemma split_once_c_length c : forall s a b,
  split_once_c c s = Some (a, b) -> length s = S (length a + length b).
Proof.
  induction s as [|x r IH]; intros a b H; cbn [split_once_c] in H; [discriminate|].
  destruct (x =? c).
  - injection H as <- <-. reflexivity.
  - destruct (split_once_c c r) as [[a' b']|]; [|discriminate]. injection H as <- <-.
    specialize (IH _ _ eq_refl). cbn [length]. lia.
Qed.
Lemma rsplit_once_c_length c s a b :
  rsplit_once_c c s = Some (a, b) -> length s = S (length a + length b).
Proof.
  unfold rsplit_once_c. destruct (split_once_c c (rev s)) as [[a' b']|] eqn:E; [|discriminate].
  intros H. injection H as <- <-. apply split_once_c_length in E.
  rewrite rev_length in E. rewrite !rev_length. lia.
Qed.

Fixpoint props_cost (l : list str) : N :=
  match l with [] => 0 | p :: r => 6 + slen p + props_cost r end.
Lemma props_cost_split c s : props_cost (split_c c s) <= 6 + 7 * slen s.
Proof.
  induction s as [|x r IH]; cbn [split_c]; [cbn; lia|].
  unfold slen in *. cbn [length]. destruct (x =? c).
  - cbn [props_cost]. unfold slen. cbn [length]. lia.
  - destruct (split_c c r) as [|h t]; cbn [props_cost] in *; unfold slen in *; cbn [length] in *; lia.
Qed.

Lemma np_read_props dbg fh js idx props :
  np dbg fh js (props_cost props) idx idx (read_props props) (fun _ => True).
Proof.
  induction props as [|p r IH]; cbn [read_props props_cost]; [apply np_ret_T|].
  eapply np_cost; [eapply np_bind; [|intros _ _; exact IH]|].
  - destruct (is_empty p).
    + apply np_cost with (c := 0); [apply np_ret_T|]. instantiate (1 := 6 + slen p). lia.
    + apply np_cost with (c := 5 + slen p + 1); [|lia].
      eapply np_bind; [apply np_push_string; reflexivity | intros _ _].
      apply np_push_instr_c. vm_compute. discriminate.
  - lia.
Qed.

Lemma np_read_var_card dbg fh js idx v :
  hash_ok dbg (var_head v) = true ->
  np dbg fh js (32 + 8 * slen v) idx idx (read_var_card v) (fun _ => True).
Proof.
  intros H. unfold read_var_card. unfold var_head in H.
  assert (Hp : forall v0 props,
             (match split_once_c c_dot v with Some (v1, p) => (v1, p) | None => (v, []) end) = (v0, props) ->
             hash_ok dbg v0 = true /\ slen props <= slen v).
  { intros v0 props E. destruct (split_once_c c_dot v) as [[v1 p]|] eqn:Es; injection E as <- <-.
    - split; auto. apply split_once_c_length in Es. unfold slen. lia.
    - split; auto. unfold slen. cbn. lia. }
  destruct (match split_once_c c_dot v with Some (v1, p) => (v1, p) | None => (v, []) end) as [v0 props].
  destruct (Hp v0 props eq_refl) as [Hv0 Hlen].
  pose proof (props_cost_split c_dot props) as Hpc.
  apply np_cost with (c := 0 + (21 + props_cost (split_c c_dot props))); [|lia].
  eapply np_bind; [apply np_resolve_var | intros scope _].
  eapply np_bind; [|intros _ _; apply np_read_props].
  unfold read_local, read_upvalue. destruct scope.
  - apply np_cost with (c := 0 + 21); [|lia].
    eapply np_bind; [apply np_global_id, Hv0 | intros id _; apply np_push_instr].
  - apply np_push_instr.
  - apply np_push_instr.
Qed.

Lemma np_write_var dbg fh js idx name var :
  np dbg fh js 21 idx idx
     (match var with
      | VLocal i => write_local i
      | VGlobal => do i <- add_local name ;; write_local i
      | VUpvalue i => write_upvalue i
      end) (fun _ => True).
Proof.
  unfold write_local, write_upvalue. destruct var.
  - apply np_cost with (c := 0 + 21); [|lia].
    eapply np_bind; [apply np_add_local | intros i _; apply np_push_instr].
  - apply np_push_instr.
  - apply np_push_instr.
Qed.

(* ================================================================== Stage C: cards *)
Definition card_ok3 (c : card) : Prop :=
  forall dbg fh js idx, card_dom dbg fh idx c = true ->
    np dbg fh js (card_cost c) idx idx (process_card c) (fun _ => True).

Lemma np_subexpr dbg fh js idx l : Forall card_ok3 l -> forall i,
  subs_all (card_dom dbg fh) idx l i = true ->
  np dbg fh js (cards_cost card_cost l) idx idx
    ((fix subexpr (l : list card) (i : N) {struct l} : M unit :=
        match l with
        | [] => ret tt
        | x :: r => with_sub i (process_card x) ;; subexpr r (i + 1)
        end) l i) (fun _ => True).
Proof.
  induction 1 as [|x r Hx _ IH]; intros i Hd; cbn [subs_all cards_cost] in *; [apply np_ret_T|].
  apply andb_true_iff in Hd. destruct Hd as [H1 H2].
  eapply np_cost; [eapply np_bind; [eapply np_with_sub, Hx, H1 | intros _ _; apply IH, H2]|]. lia.
Qed.

Lemma np_array_items dbg fh js idx tv l : Forall card_ok3 l -> forall i,
  subs_all (card_dom dbg fh) idx l i = true ->
  np dbg fh js (cards_cost card_cost l) idx idx
    ((fix items (l : list card) (i : N) {struct l} : M unit :=
         match l with
         | [] => ret tt
         | x :: r =>
             push_instr IScalarNil ;;
             with_sub i (process_card x) ;;
             read_local tv ;;
             push_instr IAppendTable ;;
             items r (i + 1)
         end) l i) (fun _ => True).
Proof.
  induction 1 as [|x r Hx _ IH]; intros i Hd; cbn [subs_all cards_cost] in *; [apply np_ret_T|].
  apply andb_true_iff in Hd. destruct Hd as [H1 H2]. unfold read_local.
  eapply np_cost.
  - eapply np_bind; [apply np_push_instr | intros _ _].
    eapply np_bind; [eapply np_with_sub, Hx, H1 | intros _ _].
    eapply np_bind; [apply np_push_instr | intros _ _].
    eapply np_bind; [apply np_push_instr | intros _ _; apply IH, H2].
  - lia.
Qed.

Ltac step3 :=
  first
    [ apply np_ret_T
    | apply np_card_label; assumption
    | apply np_scope_end
    | apply np_scope_begin
    | apply np_compile_begin
    | apply np_compile_end
    | apply np_push_sub
    | apply np_pop_sub
    | apply np_get_pc_i32
    | apply np_read_var_card; assumption
    | apply np_bind_loop_var
    | apply np_write_var
    | apply np_patch; cbn [In]; tauto
    | apply np_push_instr
    | apply np_push_string; reflexivity
    | apply np_process_leaf; assumption
    | apply np_add_local_unchecked
    | apply np_add_local
    | apply np_add_locals
    | apply np_resolve_var
    | apply np_resolve_function
    | apply np_global_id; assumption
    | apply np_hfb; assumption
    | apply np_error
    | match goal with H : card_ok3 ?c |- np _ _ _ _ _ _ (process_card ?c) _ => apply H; assumption end
    | eapply np_with_sub
    | apply np_subexpr; assumption
    | apply np_array_items; assumption
    | eapply np_encode_if_then; [reflexivity | intros ?q]
    | eapply np_pending; [reflexivity | intros ?q]
    | match goal with |- np _ _ _ _ _ _ (bind _ _) _ => eapply np_bind; [|intros ? ?] end ].

Ltac prep3 :=
  match goal with H : card_dom _ _ _ _ = true |- _ => cbn [card_dom] in H end;
  repeat match goal with H : _ && _ = true |- _ => apply andb_true_iff in H; destruct H end.

Ltac fin3 := cbn [card_cost]; unfold node_cost; lia.

Lemma process_card_ok3 c : card_ok3 c.
Proof.
  induction c using card_ind'; intros dbg fh js idx Hd; prep3; cbn [process_card];
    unfold read_local, write_local, read_upvalue, write_upvalue.
  - (* CBin *) destruct op; (eapply np_cost; [repeat step3 | fin3]).
  - (* CUn *) eapply np_cost; [repeat step3 | fin3].
  - (* CTri *) destruct op; (eapply np_cost; [repeat step3 | fin3]).
  - eapply np_cost; [repeat step3 | fin3].
  - eapply np_cost; [repeat step3 | fin3].
  - eapply np_cost; [repeat step3 | fin3].
  - eapply np_cost; [repeat step3 | fin3].
  - eapply np_cost; [repeat step3 | fin3].
  - (* CStringLiteral *) eapply np_cost; [repeat step3 | fin3].
  - eapply np_cost; [repeat step3 | fin3].
  - (* CFunction *) eapply np_cost; [repeat step3 | fin3].
  - (* CNativeFunction *) eapply np_cost; [repeat step3 | fin3].
  - (* CReadVar *) eapply np_cost; [repeat step3 | fin3].
  - (* CCallNative *) eapply np_cost; [repeat step3 | fin3].
  - (* CCall *) eapply np_cost; [repeat step3 | fin3].
  - (* CDynamicCall *) eapply np_cost; [repeat step3 | fin3].
  - (* CSetGlobalVar *)
    destruct (is_empty n); (eapply np_cost; [repeat step3 | fin3]).
  - (* CSetVar *)
    destruct (rsplit_once_c c_dot n) as [[rp sp]|] eqn:E.
    + apply rsplit_once_c_length in E.
      eapply np_cost; [repeat step3 | cbn [card_cost]; unfold node_cost, slen; lia].
    + eapply np_cost; [repeat step3 | fin3].
  - (* CRepeat *) eapply np_cost; [repeat step3 | fin3].
  - (* CForEach *) eapply np_cost; [repeat step3 | fin3].
  - (* CComposite *) eapply np_cost; [repeat step3 | fin3].
  - (* CArray *) eapply np_cost; [repeat step3 | fin3].
  - (* CClosure *)
    eapply np_cost.
    + eapply np_bind; [step3 | intros _ _].
      eapply np_pending; [reflexivity | intros q].
      eapply np_bind; [step3 | intros _ _].
      eapply np_bind; [apply np_index_handle; assumption | intros h ->].
      eapply np_bind.
      { apply np_label_insert. fold (closure_handle fh idx).
        match goal with H : negb (closure_handle fh idx =? 0) = true |- _ =>
          apply negb_true_iff, N.eqb_neq in H; exact H end. }
      intros _ _.
      eapply np_bind; [step3 | intros _ _].
      eapply np_bind; [step3 | intros _ _].
      eapply np_bind; [step3 | intros _ _].
      eapply np_bind; [step3 | intros _ _].
      eapply np_bind; [step3 | intros _ _].
      eapply np_bind; [step3 | intros _ _].
      eapply np_bind; [step3 | intros _ _].
      eapply np_bind; [step3 | intros _ _].
      apply np_get_bind. intros s0 HI0 _ _.
      eapply np_bind; [|intros _ _; step3].
      apply np_emit_upvalues. destruct (i3_ups _ HI0) as [|us rest [Hus _] _]; cbn; [lia | exact Hus].
    + fin3.
Qed.

(* ================================================================== functions and stages *)
Lemma np_process_cards dbg fh js cards : forall ic idx, tl idx = [] ->
  subs_all (card_dom dbg fh) [] cards ic = true ->
  exists idx', tl idx' = [] /\
    np dbg fh js (cards_cost card_cost cards) idx idx' (process_cards cards ic) (fun _ => True).
Proof.
  induction cards as [|c r IH]; intros ic idx Htl Hd; cbn [process_cards subs_all cards_cost] in *.
  - exists idx. split; auto. apply np_ret_T.
  - apply andb_true_iff in Hd. destruct Hd as [H1 H2].
    destruct (IH (ic + 1) [ic] eq_refl H2) as (idx' & Htl' & Hnp).
    exists idx'. split; auto.
    eapply np_cost.
    + eapply np_bind; [apply np_pop_sub_gen | intros _ _]. rewrite Htl.
      eapply np_bind; [apply np_push_sub | intros _ _].
      eapply np_bind; [apply process_card_ok3, H1 | intros _ _; exact Hnp].
    + lia.
Qed.

Lemma np_process_function dbg js f idx : tl idx = [] -> fn_dom dbg f = true ->
  exists idx', np dbg (fi_handle f) js (cards_cost card_cost (fi_cards f)) idx idx'
                  (process_function f) (fun _ => True).
Proof.
  intros Htl Hd.
  destruct (np_process_cards dbg (fi_handle f) js (fi_cards f) 0 idx Htl Hd) as (idx' & _ & H).
  exists idx'. unfold process_function. eapply np_cost.
  - eapply np_bind with (idx1 := idx) (c1 := 0) (Q1 := fun _ => True); [|intros _ _].
    { nocode. nocode_done HI. }
    eapply np_bind; [apply np_add_locals | intros _ _; exact H].
  - lia.
Qed.

(* top level: the function handle and the index path are reset per function *)
Definition tp (dbg : bool) (c : N) (m : M unit) : Prop :=
  forall s, Inv3 s -> cs_debug s = dbg -> cs_pc s + c < two32 ->
    match m s with
    | ROk _ s' => Inv3 s' /\ cs_debug s' = dbg /\ cs_pc s' <= cs_pc s + c
    | RErr _ _ => True
    | RPanic | RDiverge => False
    end.

Lemma tp_ret dbg : tp dbg 0 (ret tt).
Proof. intros s HI Hd Hc. cbn. repeat split; auto; try apply HI. lia. Qed.
Lemma tp_bind dbg c1 c2 (m : M unit) (k : unit -> M unit) :
  tp dbg c1 m -> (forall a, tp dbg c2 (k a)) -> tp dbg (c1 + c2) (bind m k).
Proof.
  intros Hm Hk s HI Hd Hc. unfold bind. specialize (Hm s HI Hd ltac:(lia)).
  destruct (m s) as [a s1| | |]; auto. destruct Hm as (HI1 & Hd1 & Hc1).
  specialize (Hk a s1 HI1 Hd1 ltac:(lia)). destruct (k a s1) as [b s2| | |]; auto.
  destruct Hk as (HI2 & Hd2 & Hc2). split; [exact HI2|]. split; [exact Hd2 | lia].
Qed.
Lemma tp_cost dbg c c' m : tp dbg c m -> c <= c' -> tp dbg c' m.
Proof.
  intros H Hc s HI Hd Hc'. specialize (H s HI Hd ltac:(lia)). destruct (m s); auto.
  destruct H as (H1 & H2 & H3). split; [exact H1|]. split; [exact H2 | lia].
Qed.
Lemma tp_of_np dbg c m Q :
  (forall fh idx, exists idx', np dbg fh [] c idx idx' m Q) -> tp dbg c m.
Proof.
  intros H s HI Hd Hc. destruct (H (cs_fh s) (cs_idx s)) as [idx' Hn].
  specialize (Hn s HI Hd eq_refl eq_refl (fun q (Hq : In q []) => match Hq with end) Hc).
  destruct (m s); auto. destruct Hn as (H1 & H2 & _ & _ & _ & _ & H7 & _). auto.
Qed.
Lemma tp_fn dbg c fi idx idx' h (k : M unit) Q :
  np dbg h [] c idx idx' k Q -> tp dbg c (set_index_m fi idx ;; set_fh_m h ;; k).
Proof.
  intros H s HI Hd Hc.
  assert (E : (set_index_m fi idx ;; set_fh_m h ;; k) s = k (set_fh h (set_index fi idx s))) by reflexivity.
  rewrite E. clear E.
  assert (HI1 : Inv3 (set_fh h (set_index fi idx s))) by (destruct HI; constructor; cbn; auto).
  specialize (H _ HI1 Hd eq_refl eq_refl (fun q (Hq : In q []) => match Hq with end) Hc).
  destruct (k (set_fh h (set_index fi idx s))); auto.
  destruct H as (H1 & H2 & _ & _ & _ & _ & H7 & _). auto.
Qed.

Lemma tp_compile_main dbg f :
  fn_dom dbg f = true ->
  hash_ok dbg (path_bytes [N.of_nat (length (fi_cards f)) mod two32]) = true ->
  tp dbg (fn_cost f) (compile_main f).
Proof.
  intros Hd Hh. unfold compile_main.
  destruct (np_process_function dbg [] f [0] eq_refl Hd) as (idx' & Hpf).
  eapply tp_fn. eapply np_cost.
  - eapply np_bind; [apply np_scope_begin | intros _ _].
    eapply np_bind; [exact Hpf | intros _ _].
    eapply np_bind; [apply np_set_index_m | intros _ _].
    eapply np_bind; [apply np_scope_end | intros _ _].
    apply np_process_leaf, Hh.
  - unfold fn_cost, node_cost. lia.
Qed.

Lemma tp_compile_other dbg f :
  fn_dom dbg f = true -> fi_handle f <> 0 -> tp dbg (fn_cost f) (compile_other f).
Proof.
  intros Hd Hh. unfold compile_other.
  destruct (np_process_function dbg [] f [] eq_refl Hd) as (idx' & Hpf).
  eapply tp_fn. eapply np_cost.
  - eapply np_bind; [apply np_label_insert, Hh | intros _ _].
    eapply np_bind; [apply np_scope_begin | intros _ _].
    eapply np_bind; [exact Hpf | intros _ _].
    eapply np_bind; [apply np_scope_end | intros _ _].
    eapply np_bind; [apply np_push_instr | intros _ _; apply np_push_instr].
  - unfold fn_cost, node_cost. lia.
Qed.

Lemma tp_compile_others dbg fs :
  forallb (fn_dom dbg) fs = true -> handles_nz fs ->
  tp dbg (fs_cost fs) (compile_others fs).
Proof.
  induction fs as [|f r IH]; intros H1 H2; cbn [compile_others fs_cost forallb] in *; [apply tp_ret|].
  apply andb_true_iff in H1. destruct H1 as [H1 H1r]. inversion H2 as [|? ? H2f H2r]; subst.
  apply tp_bind; [apply tp_compile_other; assumption | intros _; apply IH; assumption].
Qed.

(* ---- every card is in the (former) hash domain ---- *)
Lemma subs_all_always (f : list N -> card -> bool) l :
  Forall (fun c => forall idx, f idx c = true) l -> forall idx i, subs_all f idx l i = true.
Proof.
  induction 1 as [|x r Hx _ IH]; intros idx i; cbn [subs_all]; [reflexivity|].
  rewrite Hx, IH. reflexivity.
Qed.
Lemma card_dom_always dbg fh c : forall idx, card_dom dbg fh idx c = true.
Proof.
  induction c using card_ind'; intros idx; cbn [card_dom]; rewrite ?hash_ok_always; cbn [andb];
    rewrite ?IHc, ?IHc1, ?IHc2, ?IHc3; cbn [andb]; auto;
    try (apply subs_all_always; assumption).
  - (* CSetVar *) destruct (rsplit_once_c c_dot n) as [[rp sp]|]; [rewrite hash_ok_always|]; reflexivity.
  - (* CClosure *)
    destruct (N.eqb_spec (closure_handle fh idx) 0) as [E|E]; [exfalso; exact (handle_add_neq _ _ E)|].
    cbn [negb andb]. apply subs_all_always; assumption.
Qed.
Lemma fn_dom_always dbg f : fn_dom dbg f = true.
Proof.
  unfold fn_dom. apply subs_all_always. apply Forall_forall. intros c _ idx. apply card_dom_always.
Qed.

(* ---- the function handles of into_ir_stream are Handle::from_u64(i): never 0 ---- *)
Lemma flatten_functions_nz fs : forall fid ns imports out n out' n',
  handles_nz out -> flatten_functions fs fid ns imports out n = inr (out', n') -> handles_nz out'.
Proof.
  induction fs as [|[name f] r IH]; intros fid ns imports out n out' n' Ho H; cbn [flatten_functions] in H.
  - injection H as <- <-. exact Ho.
  - destruct (negb (is_name_valid name)); [discriminate|].
    eapply IH; [|exact H]. constructor; [|exact Ho]. cbn [fi_handle].
    apply handle_from_u64_neq.
Qed.
Section ModuleInd.
  Variable P : module -> Prop.
  Hypothesis Hm : forall subs funs imps, Forall (fun nm => P (snd nm)) subs -> P (Module subs funs imps).
  Fixpoint module_ind' (m : module) : P m :=
    match m with
    | Module subs funs imps =>
        Hm subs funs imps
           ((fix all (l : list (str * module)) : Forall (fun nm => P (snd nm)) l :=
               match l with
               | [] => Forall_nil _
               | nm :: r => Forall_cons nm (module_ind' (snd nm)) (all r)
               end) subs)
    end.
End ModuleInd.
Lemma flatten_module_nz m : forall limit ns out n out' n',
  handles_nz out -> flatten_module m limit ns out n = inr (out', n') -> handles_nz out'.
Proof.
  induction m as [subs funs imps IHs] using module_ind'.
  intros limit ns out n out' n' Ho H. cbn [flatten_module] in H.
  destruct (limit <=? N.of_nat (length ns)); [discriminate|].
  destruct (execute_imports imps []) as [e|imports]; [discriminate|].
  destruct (flatten_functions funs 0 ns imports out n) as [e|[out1 n1]] eqn:Ef; [discriminate|].
  pose proof (flatten_functions_nz _ _ _ _ _ _ _ _ Ho Ef) as H1. clear Ef Ho.
  revert out1 n1 H1 H. induction IHs as [|[name sub] r Hsub _ IHr]; intros out1 n1 H1 H.
  - injection H as <- <-. exact H1.
  - cbn [snd] in Hsub.
    destruct (flatten_module sub limit (ns ++ [name]) out1 n1) as [e|[out2 n2]] eqn:Es; [discriminate|].
    eapply IHr; [|exact H]. eapply Hsub; eauto.
Qed.
Lemma handles_nz_upd l i f : handles_nz l -> fi_handle f <> 0 -> handles_nz (upd l i f).
Proof.
  intros Hl Hf. revert i. induction Hl as [|x r Hx Hr IH]; intros [|i]; cbn [upd]; constructor; auto.
  apply IH.
Qed.
Lemma into_ir_stream_nz M limit fs : into_ir_stream M limit = inr fs -> handles_nz fs.
Proof.
  destruct M as [subs funs imps]. unfold into_ir_stream.
  destruct (ensure_invariants _); [discriminate|].
  destruct (find_index _ funs 0) as [mi|]; [|discriminate].
  destruct (flatten_module _ limit [] [] 0) as [e|[out n]] eqn:Ef; [discriminate|].
  intros H. injection H as <-.
  assert (Hr : handles_nz (rev out)).
  { apply Forall_rev. eapply flatten_module_nz; [|exact Ef]. constructor. }
  unfold swap0. destruct (rev out) as [|x0 l] eqn:El; [constructor|].
  destruct (nth_error (x0 :: l) mi) as [xi|] eqn:En; [|exact Hr].
  assert (Hxi : fi_handle xi <> 0).
  { unfold handles_nz in Hr. rewrite Forall_forall in Hr. apply Hr. eapply nth_error_In; eauto. }
  assert (Hx0 : fi_handle x0 <> 0) by (inversion Hr; assumption).
  apply handles_nz_upd; [apply handles_nz_upd|]; assumption.
Qed.

Lemma tp_add_function dbg f : tp dbg 0 (add_function f).
Proof.
  intros s HI Hd Hc. unfold add_function, bind, get.
  destruct (sm_find (fi_full_name f) (cs_jump s)); cbn; [exact I|].
  split; [destruct HI; constructor; cbn; auto|]. split; [exact Hd | lia].
Qed.
Lemma tp_stage_1 dbg fs : tp dbg 0 (stage_1 fs).
Proof.
  induction fs as [|f r IH]; cbn [stage_1]; [apply tp_ret|].
  apply tp_cost with (c := 0 + 0); [|lia]. apply tp_bind; [apply tp_add_function | intros _; exact IH].
Qed.

Lemma tp_compile_ir dbg fs :
  handles_nz fs -> tp dbg (fs_cost fs + node_cost) (compile_ir fs).
Proof.
  intros Hnz.
  destruct fs as [|f r]; [intros s _ _ _; exact I|].
  inversion Hnz as [|? ? _ Hr]; subst.
  pose proof (hash_ok_always dbg (path_bytes [N.of_nat (length (fi_cards f)) mod two32])) as Hh.
  pose proof (fn_dom_always dbg f) as Hf.
  assert (Hfr : forallb (fn_dom dbg) r = true) by (apply forallb_forall; intros g _; apply fn_dom_always).
  unfold compile_ir. apply tp_cost with (c := 0 + ((fn_cost f + fs_cost r) + (0 + 21))).
  2:{ cbn [fs_cost]. unfold node_cost. lia. }
  apply tp_bind; [apply tp_stage_1 | intros _].
  apply tp_bind.
  { cbn [stage_2]. apply tp_bind; [apply tp_compile_main; assumption | intros _].
    apply tp_compile_others; assumption. }
  intros _. apply tp_bind.
  - intros s HI Hd Hc. cbn. split; [destruct HI; constructor; cbn; auto|]. split; [exact Hd | lia].
  - intros _. eapply tp_of_np. intros fh idx. exists idx. apply np_push_instr.
Qed.

Lemma Inv3_init d : Inv3 (init_state d).
Proof.
  constructor; cbn.
  - reflexivity.
  - constructor; [cbn; lia | constructor].
  - constructor; [split; [cbn; lia | constructor] | constructor].
Qed.

(* C04: on the domain, compile returns a program or an error value *)
Theorem compile_total : forall (M : module) (o : options),
  module_in_domain M o = true -> compile M o <> CPanic /\ compile M o <> CDiverge.
Proof.
  intros M o H. unfold module_in_domain in H. unfold compile.
  destruct (into_ir_stream M (o_recursion_limit o)) as [e|fs] eqn:Eir; [split; discriminate|].
  pose proof (tp_compile_ir (o_debug o) fs (into_ir_stream_nz _ _ _ Eir)
                            (init_state (o_debug o)) (Inv3_init _) eq_refl) as T.
  assert (Hc : cs_pc (init_state (o_debug o)) + (fs_cost fs + node_cost) < two32).
  { unfold fs_in_domain in H. apply N.ltb_lt in H. cbn [cs_pc init_state]. lia. }
  specialize (T Hc).
  destruct (compile_ir fs (init_state (o_debug o))); [split; discriminate | split; discriminate | |];
    contradiction.
Qed.

Print Assumptions super_depth_total.
Print Assumptions patch_code_complete.
Print Assumptions compile_never_diverges.
Print Assumptions compile_total.
