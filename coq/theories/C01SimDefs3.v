(* C01, simulation: fragment F3w = F2a plus While loops at the top level of main.
     cards of main:  a statement of F2a  |  While e s   (e an expression of F1, s a statement of F2a)
   Loops make the length of a run unbounded: the meaning of a loop is computed with explicit fuel
   ([run_while]; None = not finished within the fuel), the meaning of main is the relation [runs3]. *)
From Coq Require Import List NArith ZArith Bool.
From Cao Require Import ListUtil Bits CardAst Bytecode Compiler CompilerWf C01SimDefs C01SimDefs2.
From Cao Require RefSem Vm.
Import ListNotations.
Local Open Scope N_scope.

Definition top_f3 (c : card) : bool :=
  match c with
  | CBin BWhile e b => expr_f1 e && stmt_f2 b
  | _ => stmt_f2 c
  end.

Definition in_f3 (M : module) : bool :=
  match M with
  | Module [] [(name, f)] [] =>
      str_eqb name s_main && (match f_args f with [] => true | _ => false end) &&
      forallb top_f3 (f_cards f)
  | _ => false
  end.

Definition code_top3 (T : list (N * N)) (base : N) (c : card) : list instr :=
  match c with
  | CBin BWhile e b =>
      let ce := code_expr T e in
      let cb := code_stmt2 T (base + bytes ce + 5) b in
      ce ++ IGotoIfFalse (u32_to_i32 (base + bytes ce + 5 + (bytes cb + 5))) :: cb ++ [IGoto (u32_to_i32 base)]
  | _ => code_stmt2 T base c
  end.

Fixpoint code_main3 (T : list (N * N)) (base : N) (cards : list card) : list instr :=
  match cards with
  | [] => []
  | c :: r => let cc := code_top3 T base c in cc ++ code_main3 T (base + bytes cc) r
  end.

Definition depth_ok3 (cards : list card) : bool :=
  forallb (fun c => Nat.ltb (S (stmt_depth2 c)) Vm.stack_size) cards.
Definition main_names3 (cards : list card) : list str := flat_map stmt_names2 cards.

(* the loop, with fuel: (finished normally?, globals) *)
Fixpoint run_while (fuel : nat) (g : list (str * RefSem.value)) (e b : card) : option (bool * list (str * RefSem.value)) :=
  match fuel with
  | O => None
  | S f =>
      match ev g e with
      | None => Some (false, g)
      | Some v =>
          if RefSem.v_bool [] v then
            match run_stmt2 g b with
            | (true, g1) => run_while f g1 e b
            | (false, g1) => Some (false, g1)
            end
          else Some (true, g)
      end
  end.

Definition run_top3 (fuel : nat) (g : list (str * RefSem.value)) (c : card) : option (bool * list (str * RefSem.value)) :=
  match c with
  | CBin BWhile e b => run_while fuel g e b
  | _ => Some (run_stmt2 g c)
  end.

Inductive runs3 : list (str * RefSem.value) -> list card -> bool -> list (str * RefSem.value) -> Prop :=
| runs3_nil g : runs3 g [] true g
| runs3_ok g c r n g1 okf g2 :
    run_top3 n g c = Some (true, g1) -> runs3 g1 r okf g2 -> runs3 g (c :: r) okf g2
| runs3_err g c r n g1 :
    run_top3 n g c = Some (false, g1) -> runs3 g (c :: r) false g1.
