(* C03 with re-entry, part 2: run_function, the natives of the menu, call_native, the dispatch loop and `run`
   commute with [shift d] (VmShift.v) as long as the result still has budget left; hence a run that ends with at
   least one unit of budget left is unaffected by a larger budget. *)
From Coq Require Import NArith ZArith List Lia Bool.
From Cao Require Import ListUtil Bits Stacks Vm VmWitness VmProofs VmShift.
Import ListNotations.

Set Implicit Arguments.

Section ShiftReentry.
  Variable d : N.
  Variable F : fops.
  Variable bld : build.
  Variable P : program.

  (* ---- re-entry: run_function, the natives, call_native ---- *)
  Variable re re' : N -> state -> rres.
  Hypothesis re_paid : forall ip s, rres_R paid (cr s) (re ip s).
  Hypothesis Hre : forall ip s, alive (res_state (re ip s)) -> re' ip (shift d s) = rres_shift d (re ip s).

  Lemma spush_shift s v : spush (shift d s) v = option_map (shift d) (spush s v).
  Proof. unfold spush. sh_cbn. destruct (vs_push (st_stack s) v) as [k []]; reflexivity. Qed.
  Lemma spop_shift s : spop (shift d s) = (shift d (fst (spop s)), snd (spop s)).
  Proof. unfold spop. sh_cbn. destruct (vs_pop VNil (st_stack s)); reflexivity. Qed.
  Lemma spop_alive s : alive (fst (spop s)) <-> alive s.
  Proof. unfold spop, alive. destruct (vs_pop VNil (st_stack s)). cbn. tauto. Qed.
  Lemma spush_alive s v s1 : spush s v = Some s1 -> (alive s1 <-> alive s).
  Proof. intros H. apply spush_cnt in H. unfold cr, alive in *. injection H as _ E. rewrite E. tauto. Qed.

  Section RF.
    Variable cn cn' : N -> state -> nres.
    Hypothesis cn_paid : forall h s, nres_R paid (cr s) (cn h s).
    Hypothesis Hcn : forall h s, alive (nres_state (cn h s)) -> cn' h (shift d s) = nres_shift d (cn h s).

    (* the script-callee branch of run_function *)
    Definition rf_go (rr : N -> state -> rres) (s : state) (arity label : N) (clo : option N) : nres :=
      if (code_len P =? 0)%N then NStop APanic s
      else
        match assoc label (p_labels P) with
        | None => NErr (EProcedureNotFound label) s
        | Some src =>
            let len := N.of_nat (scount s) in
            if (len <? arity)%N then NErr EMissingArgument s
            else
              let f := mkFrame src (last_pos P) (len - arity) clo in
              match push_frame s f with
              | None => NErr ECallStackOverflow s
              | Some s1 =>
                  match push_frame s1 f with
                  | None => NErr ECallStackOverflow s
                  | Some s2 =>
                      let depth := length (st_calls s) in
                      let unwind (x : state) :=
                        set_calls x (skipn (length (st_calls x) - depth) (st_calls x)) in
                      match rr src s2 with
                      | ROk s3 => let '(s5, v) := spop (unwind s3) in NOk v s5
                      | RErr e _ s3 => NErr e (unwind s3)
                      | RStop ab s3 => NStop ab s3
                      end
                  end
              end
        end.

    Lemma run_function_unfold rr (c : N -> state -> nres) fv s :
      run_function P rr c fv s =
      match fv with
      | VObj a =>
          match hget (st_heap s) a with
          | None => NStop AUB s
          | Some o =>
              match o with
              | OClo h ar _ => rf_go rr s ar h (Some a)
              | OFun h ar => rf_go rr s ar h None
              | ONative h =>
                  match c h s with
                  | NOk _ s1 => let '(s2, v) := spop s1 in NOk v s2
                  | r => r
                  end
              | _ => NErr EInvalidArgument s
              end
          end
      | _ => NErr EInvalidArgument s
      end.
    Proof. reflexivity. Qed.

    Lemma rf_go_shift s arity label clo :
      alive (nres_state (rf_go re s arity label clo)) ->
      rf_go re' (shift d s) arity label clo = nres_shift d (rf_go re s arity label clo).
    Proof.
      unfold rf_go. intros Hal.
      destruct (code_len P =? 0)%N; [reflexivity|].
      destruct (assoc label (p_labels P)) as [src|]; [|reflexivity].
      cbv zeta in *. unfold scount in *. sh_cbn.
      destruct (_ <? _)%N; [reflexivity|].
      unfold push_frame in *. sh_cbn.
      destruct (call_stack_size <=? length (st_calls s)); [reflexivity|]. sh_cbn.
      destruct (call_stack_size <=? _); [reflexivity|].
      match goal with |- context [re' ?ip ?X] =>
        match goal with |- context [re ip ?Y] => change X with (shift d Y); set (s2 := Y) in * end end.
      assert (Hal2 : alive (res_state (re src s2))).
      { destruct (re src s2) as [s3|e ip3 s3|ab s3]; cbn [res_state]; cbn [nres_state] in Hal.
        - match type of Hal with alive (nres_state (let '(_, _) := spop ?u in _)) =>
            pose proof (spop_alive u) as Hp; destruct (spop u) as [s5 v] end.
          cbn [nres_state fst] in *. apply Hp in Hal. exact Hal.
        - exact Hal.
        - exact Hal. }
      rewrite (Hre src s2 Hal2).
      destruct (re src s2) as [s3|e ip3 s3|ab s3]; cbn [rres_shift]; sh_cbn.
      - match goal with |- (let '(_, _) := spop ?u in _) = _ =>
          match goal with |- _ = nres_shift d (let '(_, _) := spop ?w in _) =>
            change u with (shift d w); rewrite (spop_shift w); destruct (spop w) as [s5 v] end end.
        reflexivity.
      - reflexivity.
      - reflexivity.
    Qed.

    Lemma run_function_shift fv s :
      alive (nres_state (run_function P re cn fv s)) ->
      run_function P re' cn' fv (shift d s) = nres_shift d (run_function P re cn fv s).
    Proof.
      rewrite !run_function_unfold. sh_cbn. intros Ha.
      destruct fv as [|z|r|a]; try reflexivity.
      destruct (hget (st_heap s) a) as [o|]; [|reflexivity].
      destruct o; try reflexivity; try (apply rf_go_shift; exact Ha).
      (* a native function value *)
      assert (Hal2 : alive (nres_state (cn h s))).
      { destruct (cn h s) as [v s1|e s1|ab s1]; cbn [nres_state] in *; try exact Ha.
        pose proof (spop_alive s1) as Hp. destruct (spop s1) as [s2 v2]. cbn [nres_state fst] in *.
        apply Hp. exact Ha. }
      rewrite (Hcn h s Hal2).
      destruct (cn h s) as [v s1|e s1|ab s1]; cbn [nres_shift]; try reflexivity.
      rewrite (spop_shift s1). destruct (spop s1) as [s2 v2]. reflexivity.
    Qed.
  End RF.

  Definition mm_state (r : mmres) : state := match r with MMOk _ s => s | MMFail r => nres_state r end.
  Definition mmres_shift (r : mmres) : mmres :=
    match r with MMOk i s => MMOk i (shift d s) | MMFail r => MMFail (nres_shift d r) end.
  Definition sk_state (r : skres) : state := match r with SKOk _ s => s | SKFail r => nres_state r end.
  Definition skres_shift (r : skres) : skres :=
    match r with SKOk l s => SKOk l (shift d s) | SKFail r => SKFail (nres_shift d r) end.

  Lemma paid_cr_alive s s' : paid (cr s) (cr s') -> alive s' -> alive s.
  Proof. apply paid_alive. Qed.

  Section Std.
    Variable self self' : N -> state -> nres.
    Hypothesis self_paid : forall h s, nres_R paid (cr s) (self h s).
    Hypothesis Hself : forall h s, alive (nres_state (self h s)) -> self' h (shift d s) = nres_shift d (self h s).

    Lemma rf_paid fv s : nres_R paid (cr s) (run_function P re self fv s).
    Proof. apply (@run_function_R paid paid_refl P re re_paid self self_paid). Qed.

    Lemma rf_shift fv s :
      alive (nres_state (run_function P re self fv s)) ->
      run_function P re' self' fv (shift d s) = nres_shift d (run_function P re self fv s).
    Proof. apply run_function_shift; assumption. Qed.

    Lemma mm_alive less kf l j i best s :
      alive (mm_state (minmax_go F P re self less kf l j i best s)) -> alive s.
    Proof.
      pose proof (@minmax_go_R paid paid_trans F P re self rf_paid less kf l j i best s (cr s) (paid_refl _)) as H.
      destruct (minmax_go F P re self less kf l j i best s) as [i' s'|r]; cbn [mm_state].
      - apply paid_alive. exact H.
      - destruct r; cbn [nres_R nres_state] in *; apply paid_alive; exact H.
    Qed.

    Lemma sk_alive kf l s : alive (sk_state (sort_keys P re self kf l s)) -> alive s.
    Proof.
      pose proof (@sort_keys_R paid paid_trans P re self rf_paid kf l s (cr s) (paid_refl _)) as H.
      destruct (sort_keys P re self kf l s) as [l' s'|r]; cbn [sk_state].
      - apply paid_alive. exact H.
      - destruct r; cbn [nres_R nres_state] in *; apply paid_alive; exact H.
    Qed.

    Lemma minmax_go_shift less kf : forall l j i best s,
      alive (mm_state (minmax_go F P re self less kf l j i best s)) ->
      minmax_go F P re' self' less kf l j i best (shift d s)
      = mmres_shift (minmax_go F P re self less kf l j i best s).
    Proof.
      induction l as [|[k v] rest IH]; intros j i best s Ha; cbn [minmax_go] in *; [reflexivity|].
      rewrite spush_shift. destruct (spush s v) as [s1|] eqn:E1; cbn [option_map]; [|reflexivity].
      rewrite spush_shift. destruct (spush s1 k) as [s2|] eqn:E2; cbn [option_map]; [|reflexivity].
      assert (Hrf : alive (nres_state (run_function P re self kf s2))).
      { destruct (run_function P re self kf s2) as [key s3|e s3|ab s3]; cbn [nres_state mm_state] in *;
          try exact Ha.
        destruct (vcmp F (st_heap s3) key best) as [[]| |]; cbv beta iota zeta in Ha; cbn [mm_state nres_state] in Ha;
          try exact Ha;
          destruct less; cbn [negb] in Ha; cbv beta iota in Ha; eapply mm_alive; exact Ha. }
      rewrite (rf_shift kf s2 Hrf).
      destruct (run_function P re self kf s2) as [key s3|e s3|ab s3]; cbn [nres_shift mmres_shift]; try reflexivity.
      sh_cbn.
      destruct (vcmp F (st_heap s3) key best) as [[]| |]; cbv beta iota zeta in Ha |- *; try reflexivity;
        destruct less; cbn [negb] in Ha |- *; cbv beta iota in Ha |- *; apply IH; exact Ha.
    Qed.

    Lemma make_row_shift s k v : make_row F (shift d s) k v = nres_shift d (make_row F s k v).
    Proof. unfold make_row. sh_auto. Qed.

    Lemma make_row_alive s k v : alive (nres_state (make_row F s k v)) -> alive s.
    Proof.
      pose proof (@make_row_R paid F s k v (cr s) (paid_refl _)) as H.
      destruct (make_row F s k v); cbn [nres_R nres_state] in *; apply paid_alive; exact H.
    Qed.

    (* the private copy of the table (662697a) is one more heap allocation *)
    Lemma snapshot_shift s t :
      snapshot F (shift d s) t = option_map (fun p => (shift d (fst p), snd p)) (snapshot F s t).
    Proof.
      unfold snapshot. sh_cbn. destruct (titer (veq0 F (st_heap s)) t); [|reflexivity].
      unfold salloc, halloc, set_table. sh_cbn. destruct (insert_pairs _ _ _); reflexivity.
    Qed.

    Lemma native_minmax_shift less it kf s0 :
      alive (nres_state (native_minmax F P re self less it kf s0)) ->
      native_minmax F P re' self' less it kf (shift d s0) = nres_shift d (native_minmax F P re self less it kf s0).
    Proof.
      unfold native_minmax. sh_cbn. intros Ha.
      destruct it as [|z|r|a]; try reflexivity.
      destruct (hget (st_heap s0) a) as [[t| | | | |]|]; try reflexivity.
      rewrite snapshot_shift.
      destruct (snapshot F s0 t) as [[s entries]|]; cbn [option_map fst snd]; [|reflexivity].
      sh_cbn.
      destruct (titer (veq0 F (st_heap s)) entries) as [[|[k0 v0] rest]|]; try reflexivity.
      rewrite spush_shift. destruct (spush s v0) as [s1|] eqn:E1; cbn [option_map]; [|reflexivity].
      rewrite spush_shift. destruct (spush s1 k0) as [s2|] eqn:E2; cbn [option_map]; [|reflexivity].
      assert (Hmm : forall key0 s3,
                 alive (nres_state
                   match minmax_go F P re self less kf rest 1 0 key0 s3 with
                   | MMFail r => r
                   | MMOk i s4 =>
                       let k := tnth_key entries i in
                       match tget (veq0 F (st_heap s4)) entries k with
                       | None => NStop ACrash s4
                       | Some r => make_row F s4 k (match r with Some v => v | None => VNil end)
                       end
                   end) ->
                 alive (mm_state (minmax_go F P re self less kf rest 1 0 key0 s3))).
      { intros key0 s3 H. destruct (minmax_go F P re self less kf rest 1 0 key0 s3) as [i s4|r]; cbn [mm_state];
          [|exact H].
        cbv zeta in H. destruct (tget _ entries _); [|exact H]. eapply make_row_alive. exact H. }
      assert (Hrf : alive (nres_state (run_function P re self kf s2))).
      { destruct (run_function P re self kf s2) as [key0 s3|e s3|ab s3]; cbn [nres_state] in *; try exact Ha.
        eapply mm_alive. apply Hmm. exact Ha. }
      rewrite (rf_shift kf s2 Hrf).
      destruct (run_function P re self kf s2) as [key0 s3|e s3|ab s3]; cbn [nres_shift]; try reflexivity.
      rewrite (minmax_go_shift less kf rest 1 0 key0 s3 (Hmm _ _ Ha)).
      destruct (minmax_go F P re self less kf rest 1 0 key0 s3) as [i s4|r]; cbn [mmres_shift]; [|reflexivity].
      sh_cbn.
      cbv zeta. destruct (tget _ entries _); [|reflexivity]. apply make_row_shift.
    Qed.

    Lemma sort_keys_shift kf : forall l s,
      alive (sk_state (sort_keys P re self kf l s)) ->
      sort_keys P re' self' kf l (shift d s) = skres_shift (sort_keys P re self kf l s).
    Proof.
      induction l as [|[k v] rest IH]; intros s Ha; cbn [sort_keys] in *; [reflexivity|].
      rewrite spush_shift. destruct (spush s v) as [s1|] eqn:E1; cbn [option_map]; [|reflexivity].
      rewrite spush_shift. destruct (spush s1 k) as [s2|] eqn:E2; cbn [option_map]; [|reflexivity].
      assert (Hrf : alive (nres_state (run_function P re self kf s2))).
      { destruct (run_function P re self kf s2) as [key s3|e s3|ab s3]; cbn [nres_state sk_state] in *;
          try exact Ha.
        apply (@sk_alive kf rest s3). destruct (sort_keys P re self kf rest s3); exact Ha. }
      rewrite (rf_shift kf s2 Hrf).
      destruct (run_function P re self kf s2) as [key s3|e s3|ab s3]; cbn [nres_shift skres_shift]; try reflexivity.
      assert (Ha3 : alive (sk_state (sort_keys P re self kf rest s3))).
      { destruct (sort_keys P re self kf rest s3); exact Ha. }
      rewrite (IH s3 Ha3). destruct (sort_keys P re self kf rest s3); reflexivity.
    Qed.

    Lemma native_sorted_shift it kf s0 :
      alive (nres_state (native_sorted F P re self it kf s0)) ->
      native_sorted F P re' self' it kf (shift d s0) = nres_shift d (native_sorted F P re self it kf s0).
    Proof.
      unfold native_sorted. sh_cbn. intros Ha.
      destruct it as [|z|r|a]; try reflexivity.
      destruct (hget (st_heap s0) a) as [[t| | | | |]|]; try reflexivity.
      rewrite snapshot_shift.
      destruct (snapshot F s0 t) as [[s entries]|]; cbn [option_map fst snd]; [|reflexivity].
      sh_cbn.
      destruct (titer (veq0 F (st_heap s)) entries) as [l|]; [|reflexivity].
      assert (Hk : alive (sk_state (sort_keys P re self kf l s))).
      { destruct (sort_keys P re self kf l s) as [keyed s1|r]; cbn [sk_state]; [|exact Ha].
        destruct (stable_sort F (st_heap s1) keyed []); [|exact Ha].
        unfold salloc, halloc in Ha. destruct (insert_all _ _ _); exact Ha. }
      rewrite (sort_keys_shift kf l s Hk).
      destruct (sort_keys P re self kf l s) as [keyed s1|r]; cbn [skres_shift]; [|reflexivity].
      sh_cbn. destruct (stable_sort F (st_heap s1) keyed []); [|reflexivity].
      sh_auto.
    Qed.

    Lemma speek_shift s n : speek (shift d s) n = speek s n.
    Proof. reflexivity. Qed.

    Lemma native_body_shift n s :
      alive (nres_state (native_body F P re self n s)) ->
      native_body F P re' self' n (shift d s) = nres_shift d (native_body F P re self n s).
    Proof.
      destruct n; cbn [native_body]; cbv zeta; intros Ha.
      - (* log1 *) sh_auto.
      - (* sub2 *) sh_auto.
      - (* fail0 *) reflexivity.
      - (* str1 *) sh_auto.
      - (* mix3 *) sh_auto.
      - (* call1 *)
        rewrite !speek_shift, spush_shift.
        destruct (spush s (speek s 0)) as [s1|]; cbn [option_map]; [|reflexivity].
        apply rf_shift. exact Ha.
      - (* try1 *)
        rewrite !speek_shift, spush_shift.
        destruct (spush s (speek s 0)) as [s1|]; cbn [option_map]; [|reflexivity].
        assert (Hrf : alive (nres_state (run_function P re self (speek s 1) s1))).
        { destruct (run_function P re self (speek s 1) s1); exact Ha. }
        rewrite (rf_shift _ _ Hrf). destruct (run_function P re self (speek s 1) s1); reflexivity.
      - (* call0 *)
        rewrite !speek_shift. apply rf_shift. exact Ha.
      - (* t4 *) sh_auto.
      - (* nil1 *) sh_auto.
      - (* tab1 *) sh_auto.
      - (* cat2 *) sh_auto.
      - (* rb1 *)
        rewrite !speek_shift, spush_shift.
        destruct (spush s (speek s 0)) as [s1|]; cbn [option_map]; [|reflexivity].
        assert (Hrf : alive (nres_state (run_function P re self (speek s 1) s1))).
        { destruct (run_function P re self (speek s 1) s1); exact Ha. }
        rewrite (rf_shift _ _ Hrf). destruct (run_function P re self (speek s 1) s1); reflexivity.
      - (* min *) rewrite !speek_shift. apply native_minmax_shift. exact Ha.
      - (* max *) rewrite !speek_shift. apply native_minmax_shift. exact Ha.
      - (* sort *) rewrite !speek_shift. apply native_sorted_shift. exact Ha.
      - (* to_array *) sh_auto.
    Qed.
  End Std.

  Lemma cnf_paid fuel h s : nres_R paid (cr s) (call_native_fuel F P re fuel h s).
  Proof. apply (@call_native_fuel_R paid paid_refl paid_trans F P re re_paid). Qed.

  Lemma call_native_fuel_shift : forall fuel h s,
    alive (nres_state (call_native_fuel F P re fuel h s)) ->
    call_native_fuel F P re' fuel h (shift d s) = nres_shift d (call_native_fuel F P re fuel h s).
  Proof.
    induction fuel as [|f IH]; intros h s Ha; cbn [call_native_fuel] in *; [reflexivity|].
    destruct (find_native h all_natives) as [n|]; [|reflexivity].
    assert (Hb : alive (nres_state (native_body F P re (call_native_fuel F P re f) n s))).
    { destruct (native_body F P re (call_native_fuel F P re f) n s) as [v s1|e s1|ab s1];
        cbn [nres_state] in *; cbv zeta in Ha; try exact Ha.
      destruct (spush (spop_n s1 (native_arity n)) v) as [s2|] eqn:E; cbn [nres_state] in Ha.
      - apply (spush_alive _ _ E) in Ha. exact Ha.
      - exact Ha. }
    rewrite (@native_body_shift (call_native_fuel F P re f) (call_native_fuel F P re' f) (cnf_paid f) IH n s Hb).
    destruct (native_body F P re (call_native_fuel F P re f) n s) as [v s1|e s1|ab s1]; cbn [nres_shift];
      try reflexivity.
    cbv zeta. change (spop_n (shift d s1) (native_arity n)) with (shift d (spop_n s1 (native_arity n))).
    rewrite spush_shift. destruct (spush (spop_n s1 (native_arity n)) v); reflexivity.
  Qed.

  Lemma native_step_shift h ip s :
    alive (sres_state (native_step F P re h ip s)) ->
    native_step F P re' h ip (shift d s) = sres_shift d (native_step F P re h ip s).
  Proof.
    unfold native_step, call_native. intros Ha.
    assert (Hc : alive (nres_state (call_native_fuel F P re 8 h s))).
    { destruct (call_native_fuel F P re 8 h s); exact Ha. }
    rewrite (call_native_fuel_shift 8 h s Hc). destruct (call_native_fuel F P re 8 h s); reflexivity.
  Qed.

  Lemma i_4_shift opc ip0 ip s :
    alive (sres_state (i_4 F P re opc ip0 ip s)) ->
    i_4 F P re' opc ip0 ip (shift d s) = sres_shift d (i_4 F P re opc ip0 ip s).
  Proof.
    unfold i_4. intros Ha. destruct (op_u32 P ip); [|reflexivity]. apply native_step_shift. exact Ha.
  Qed.

  Lemma i_11_shift opc ip0 ip s :
    alive (sres_state (i_11 F P re opc ip0 ip s)) ->
    i_11 F P re' opc ip0 ip (shift d s) = sres_shift d (i_11 F P re opc ip0 ip s).
  Proof.
    unfold i_11. rewrite spop_shift. destruct (spop s) as [s1 fv]. cbn [fst snd]. intros Ha.
    destruct fv as [|z|r|a]; try reflexivity. sh_cbn.
    destruct (hget (st_heap s1) a) as [o|]; [|reflexivity].
    destruct o; try reflexivity.
    - sh_auto.
    - apply native_step_shift. exact Ha.
    - sh_auto.
  Qed.

  Lemma step_shift ip0 s :
    alive (sres_state (step F bld P re ip0 s)) ->
    step F bld P re' ip0 (shift d s) = sres_shift d (step F bld P re ip0 s).
  Proof.
    unfold step. cbv zeta. intros Ha.
    destruct (nth (N.to_nat ip0) (p_code P) 255%N) as [|p]; [apply binary_op_shift|].
    do 6 (try destruct p as [p|p|]).
    all: first
      [ apply binary_op_shift
      | apply push_next_shift
      | apply i_5_shift | apply i_6_shift | apply i_8_shift | apply i_17_shift | apply i_18_shift
      | apply i_19_shift | apply i_20_shift | apply i_21_shift | apply i_22_shift | apply i_23_shift
      | apply i_27_shift | apply i_28_shift | apply i_29_30_shift | apply i_31_shift | apply i_32_shift
      | apply i_33_shift | apply i_34_shift | apply i_35_shift | apply i_36_shift | apply i_37_42_shift
      | apply i_38_shift | apply i_39_shift | apply i_40_shift | apply i_41_shift | apply i_43_44_shift
      | apply i_45_shift | apply i_46_shift
      | (apply i_4_shift; exact Ha) | (apply i_11_shift; exact Ha)
      | (rewrite spop_shift; reflexivity)
      | reflexivity ].
  Qed.

  Lemma step_paid ip s : sres_R paid (cr s) (step F bld P re ip s).
  Proof. apply (@step_count_rel paid paid_refl paid_trans F bld P re re_paid). Qed.

  Lemma loop_shift : forall fuel ip s,
    alive (res_state (loop F bld P re fuel ip s)) ->
    loop F bld P re' fuel ip (shift d s) = rres_shift d (loop F bld P re fuel ip s).
  Proof.
    induction fuel as [|f IH]; intros ip s Ha; cbn [loop] in *.
    - destruct (code_len P <=? ip)%N; [reflexivity|].
      cbn [st_rem set_rem shift] in *.
      destruct (N.pred (st_rem s) =? 0)%N eqn:E0.
      + exfalso. unfold alive in Ha. cbn [res_state st_rem set_rem] in Ha. apply N.eqb_eq in E0. lia.
      + apply N.eqb_neq in E0.
        replace (N.pred (st_rem s + d)) with (N.pred (st_rem s) + d)%N by lia.
        replace (N.pred (st_rem s) + d =? 0)%N with false by (symmetry; apply N.eqb_neq; lia).
        reflexivity.
    - destruct (code_len P <=? ip)%N; [reflexivity|].
      cbn [st_rem set_rem shift] in *.
      destruct (N.pred (st_rem s) =? 0)%N eqn:E0.
      + exfalso. unfold alive in Ha. cbn [res_state st_rem set_rem] in Ha. apply N.eqb_eq in E0. lia.
      + apply N.eqb_neq in E0.
        replace (N.pred (st_rem s + d)) with (N.pred (st_rem s) + d)%N by lia.
        replace (N.pred (st_rem s) + d =? 0)%N with false by (symmetry; apply N.eqb_neq; lia).
        set (x := tick (set_rem s (N.pred (st_rem s)))) in *.
        match goal with |- match step F bld P re' ip ?y with _ => _ end = _ => change y with (shift d x) end.
        assert (Hs : alive (sres_state (step F bld P re ip x))).
        { destruct (step F bld P re ip x) as [ip' s'|s'|e ip' s'|a s'] eqn:Es; cbn [sres_state res_state] in *;
            try exact Ha.
          pose proof (@loop_paid F bld P re re_paid f ip' s') as Hp.
          destruct (loop F bld P re f ip' s'); cbn [rres_R res_state] in *; eapply paid_alive; eauto. }
        rewrite (step_shift ip x Hs).
        destruct (step F bld P re ip x) as [ip' s'|s'|e ip' s'|a s']; cbn [sres_shift]; try reflexivity.
        apply IH. exact Ha.
  Qed.
End ShiftReentry.

(* ------------------------------------------------------------------ *)
(* Nested runs and `run`                                               *)
(* ------------------------------------------------------------------ *)

Lemma run_at_shift d F bld P mi mi' : forall depth ip s,
  alive (res_state (run_at F bld P false mi depth ip s)) ->
  run_at F bld P false mi' depth ip (shift d s) = rres_shift d (run_at F bld P false mi depth ip s).
Proof.
  induction depth as [|d0 IH]; intros ip s Ha; cbn [run_at] in *; [reflexivity|].
  unfold run_loop in *.
  set (f := N.to_nat (st_rem s + d)).
  assert (E1 : loop F bld P (run_at F bld P false mi' d0) (N.to_nat (st_rem (shift d s))) ip (shift d s)
               = loop F bld P (run_at F bld P false mi' d0) f ip (shift d s)).
  { apply loop_fuel_irrelevant; [apply run_at_paid| |]; cbn [st_rem shift set_rem]; unfold f; lia. }
  assert (E2 : loop F bld P (run_at F bld P false mi d0) (N.to_nat (st_rem s)) ip s
               = loop F bld P (run_at F bld P false mi d0) f ip s).
  { apply loop_fuel_irrelevant; [apply run_at_paid| |]; unfold f; lia. }
  rewrite E1. rewrite E2 in *.
  apply (@loop_shift d F bld P _ _ (run_at_paid F bld P mi d0) IH f ip s Ha).
Qed.

Lemma finish_shift d P r :
  finish P (rres_shift d r) = (fst (finish P r), shift d (snd (finish P r))).
Proof. unfold finish. destruct r as [s|e ip s|a s]; reflexivity. Qed.

(* A run that ends with budget left is unaffected by a larger budget - with re-entry at any depth through every
   native of the menu, including natives that swallow the errors of their callees (try1): no Timeout can have been
   raised at any level, because a Timeout leaves the shared counter at 0 and the counter never grows. *)
Theorem budget_monotone_reentry : forall F bld P N1 N2 s o s1,
  length (st_calls s) < call_stack_size ->
  N1 <= N2 -> run F bld N1 P s = (o, s1) -> (1 <= st_rem s1)%N ->
  run F bld N2 P s = (o, set_rem s1 (st_rem s1 + N.of_nat (N2 - N1))).
Proof.
  intros F bld P N1 N2 s o s1 Hroom Hle Hrun Hrem. unfold run, run_gen, push_frame in *.
  apply Nat.leb_gt in Hroom. rewrite Hroom in *.
  set (s0 := set_calls s (mkFrame 0 0 0 None :: st_calls s)) in *.
  set (d := N.of_nat (N2 - N1)).
  assert (E : set_rem s0 (N.of_nat N2) = shift d (set_rem s0 (N.of_nat N1))).
  { replace (N.of_nat N2) with (N.of_nat N1 + d)%N by (unfold d; lia). reflexivity. }
  rewrite E.
  set (r := run_at F bld P false (N.of_nat N1) max_depth 0 (set_rem s0 (N.of_nat N1))) in *.
  assert (Ha : alive (res_state r)).
  { destruct (finish_state P r) as [_ Hr]. rewrite Hrun in Hr. cbn [snd] in Hr. unfold alive. rewrite <- Hr. exact Hrem. }
  rewrite (@run_at_shift d F bld P (N.of_nat N1) (N.of_nat N2) max_depth 0%N _ Ha). fold r.
  rewrite finish_shift, Hrun. reflexivity.
Qed.

(* run(P,N) = run(P,N') whenever both end with budget left: same outcome (error payload and trace included), same
   final state up to the remaining budget, same number of dispatched instructions *)
Corollary sufficient_budgets_agree_reentry : forall F bld P N1 N2 s o1 s1 o2 s2,
  length (st_calls s) < call_stack_size ->
  run F bld N1 P s = (o1, s1) -> run F bld N2 P s = (o2, s2) ->
  (1 <= st_rem s1)%N -> (1 <= st_rem s2)%N ->
  o1 = o2 /\ set_rem s1 0 = set_rem s2 0 /\ st_count s1 = st_count s2 /\
  (st_rem s1 + N.of_nat N2 = st_rem s2 + N.of_nat N1)%N.
Proof.
  intros F bld P N1 N2 s o1 s1 o2 s2 Hroom E1 E2 R1 R2.
  destruct (Nat.le_ge_cases N1 N2) as [L|L].
  - pose proof (budget_monotone_reentry F bld P s Hroom L E1 R1) as E. rewrite E2 in E.
    inversion E; subst. cbn [st_rem set_rem st_count]. repeat split; lia.
  - pose proof (budget_monotone_reentry F bld P s Hroom L E2 R2) as E. rewrite E1 in E.
    inversion E; subst. cbn [st_rem set_rem st_count]. repeat split; lia.
Qed.
