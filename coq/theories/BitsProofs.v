(* Proofs about the handle constructors of Bits.v (handle_table.rs since 3f22e7c "handles are never 0"):
   a Handle built by from_bytes / from_str / from_u32 / from_u64 / from_i64 or by Handle + Handle is never 0,
   the value that marks an empty slot of a HandleTable (the key C13 excludes). *)
From Coq Require Import NArith.
From Cao Require Import Bits.
Local Open Scope N_scope.

Lemma non_zero_neq x : non_zero x <> 0.
Proof. unfold non_zero, nonzero_hash. destruct (N.eqb_spec x 0); [discriminate | assumption]. Qed.
Lemma non_zero_id x : x <> 0 -> non_zero x = x.
Proof. unfold non_zero, nonzero_hash. destruct (N.eqb_spec x 0); [contradiction | reflexivity]. Qed.
Lemma handle_of_bytes_neq bs : handle_of_bytes bs <> 0.
Proof. apply non_zero_neq. Qed.
Lemma hash_u64_neq k m : hash_u64 k m <> 0.
Proof. unfold hash_u64. apply non_zero_neq. Qed.
Lemma handle_add_neq a b : handle_add a b <> 0.
Proof. apply non_zero_neq. Qed.
Lemma handle_from_u64_neq k : handle_from_u64 k <> 0.
Proof. unfold handle_from_u64. apply hash_u64_neq. Qed.
Lemma handle_from_u32_neq k : handle_from_u32 k <> 0.
Proof. unfold handle_from_u32. apply hash_u64_neq. Qed.
