(* Executable checker for C06: closures capture variables by reference, with the right identity and
   lifetime.  Programs come from a generator dedicated to closures (harness/src/c06.rs); every
   closure body starts with  log1("t<tag>")  (its own unique tag) and every call site at which the
   generator knows which closure expression created the callee logs  log1("w<site>")  immediately
   before the call.

   Two oracles, both reported as code 2:
     (A) the observation (outcome kind, globals by name, native log) differs from what the
         reference semantics [RefSem.eval_program] defines, on programs [RefScope.well_scoped]
         accepts;
     (B) identity, independent of the reference semantics: in the OBSERVED log, the tag entry that
         follows a site marker  w<site>  must be the tag  t<tag>  the generator's own bookkeeping
         expects for that site ([expect], printed by the generator).
   code 3: the case is outside the checker's precondition: not well_scoped, does not compile,
           outside the domain / the fuel of the semantics, a marker without an expectation, or the
           generator's expectation is not met by the reference semantics itself (bookkeeping bug).
   No known classes.  Resource errors of the implementation are skipped (counted by the harness). *)
From Cao Require Export C01Check.
Local Open Scope N_scope.

Inductive c06case :=
| ClosCase (m : module) (host : list str) (o : c01obs) (expect : list (str * str)).
Definition closcase := ClosCase.

(* a log entry  log1("t..")  or  log1("w..") ; the generated programs log no other strings *)
Definition tag_entry (e : str * list tree) : option str :=
  if str_eqb (fst e) n_log1 then
    match snd e with
    | [TrStr (c :: r)] => if N.eqb c 116 || N.eqb c 119 then Some (c :: r) else None
    | _ => None
    end
  else None.
Definition tag_entries (log : list (str * list tree)) : list str :=
  flat_map (fun e => match tag_entry e with Some s => [s] | None => [] end) log.

Definition is_marker (s : str) : bool := match s with c :: _ => N.eqb c 119 | [] => false end.

(* None: a marker the generator gave no expectation for *)
Fixpoint identity_ok (expect : list (str * str)) (l : list str) : option bool :=
  match l with
  | [] => Some true
  | s :: r =>
      if is_marker s then
        match assoc s expect with
        | None => None
        | Some t => match r with
                    | t' :: _ => if str_eqb t t' then identity_ok expect r else Some false
                    | [] => Some false
                    end
        end
      else identity_ok expect r
  end.

Definition obs_agree (k : okind) (g : list (str * tree)) (l : list (str * list tree)) (o' : obs) : bool :=
  okind_eqb k (ob_kind o') && globals_agree g (ob_globals o') && log_eqb l (ob_log o').

Definition check1 (c : c06case) : list N :=
  match c with
  | ClosCase m host o expect =>
      if negb (well_scoped m) then [3] else
      match o with
      | ObsResource _ => []
      | ObsCompileError => [3]
      | ObsPanic => [2]
      | ObsRun k g l =>
          match eval_program check_fuel m host with
          | PObs o' =>
              match identity_ok expect (tag_entries (ob_log o')) with
              | Some true =>
                  if obs_agree k g l o' &&
                     match identity_ok expect (tag_entries l) with Some true => true | _ => false end
                  then [] else [2]
              | _ => [3]
              end
          | _ => [3]
          end
      end
  end.

Definition check_all := CheckUtil.check_all check1.

(* ---- for debugging a case by hand ---- *)
Definition predict (c : c06case) : presult :=
  match c with ClosCase m host _ _ => eval_program check_fuel m host end.
(* which oracle objects: (A disagrees, B on the observation, B on the prediction) *)
Definition which (c : c06case) :=
  match c with
  | ClosCase m host (ObsRun k g l) expect =>
      match eval_program check_fuel m host with
      | PObs o' => Some (negb (obs_agree k g l o'), identity_ok expect (tag_entries l),
                         identity_ok expect (tag_entries (ob_log o')))
      | _ => None
      end
  | _ => None
  end.
Definition diagnose (c : c06case) :=
  match c with ClosCase m host o _ => C01Check.diagnose (ProgCase m host o) end.
