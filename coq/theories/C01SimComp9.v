(* C01, simulation, compiler half for fragment F9 (several functions, static calls with parameters, Return).
   The combinators of C01SimComp5 are reused through a guard: [gd FT m] runs m only in a state whose jump table
   answers every name of the function table FT as FT does; a card with calls is compiled as the fragment says
   in such states, and process_card never changes the jump table (CompilerLabels.process_card_post). *)
From Coq Require Import List NArith ZArith Bool Lia.
From Cao Require TableProofs.
From Cao Require Import ListUtil CheckUtil Bits CardAst Bytecode Compiler CompilerGen CompilerProofs CompilerWf
     CompilerResolve StdlibGen C01SimKeep C01SimDefs C01SimComp C01SimDefs2 C01SimComp2 C01SimDefs4 C01SimDefs5
     C01SimComp5 C01SimDefs9.
From Cao Require CompilerLabels ResolveTree.
Import ListNotations.
Local Open Scope N_scope.

(* ------------------------------------------------------------------ the guard *)
Definition jb (FT : ftab) (j : list (str * fmeta)) : bool :=
  forallb (fun e => match sm_find (fst e) j with
                    | Some m => (fm_handle m =? fst (snd e)) && (fm_arity m =? snd (snd e))
                    | None => false
                    end) FT.

Lemma sm_find_in {V} k (m : list (str * V)) v : sm_find k m = Some v -> In (k, v) m.
Proof.
  induction m as [|[k' v'] r IH]; cbn [sm_find]; [discriminate|].
  destruct (str_eqb k k') eqn:E.
  - intros H; injection H as <-. apply str_eqb_true in E. subst k'. left. reflexivity.
  - intros H. right. apply IH, H.
Qed.

Lemma jb_find FT j name h ar :
  jb FT j = true -> sm_find name FT = Some (h, ar) ->
  sm_find name j = Some {| fm_handle := h; fm_arity := ar |}.
Proof.
  intros Hj Hf. apply sm_find_in in Hf. unfold jb in Hj. rewrite forallb_forall in Hj.
  specialize (Hj _ Hf). cbn [fst snd] in Hj. destruct (sm_find name j) as [[h' a']|]; [|discriminate].
  cbn [fm_handle fm_arity] in Hj. apply andb_true_iff in Hj. destruct Hj as [H1 H2].
  apply N.eqb_eq in H1, H2. subst. reflexivity.
Qed.

Section Guard.
Variable FT : ftab.

Definition gd (m : M unit) : M unit := fun s => if jb FT (cs_jump s) then m s else RPanic.
Definition pinv (s : cstate) : Prop := cs_pc s = bytes (cs_code s).
Definition pj (m : M unit) : Prop :=
  forall s s', pinv s -> m s = ROk tt s' -> pinv s' /\ cs_jump s' = cs_jump s.
Definition le9 (m m' : M unit) : Prop := forall s s', pinv s -> m s = ROk tt s' -> m' s = ROk tt s'.

Lemma ctxL_pinv L s : ctxL L s -> pinv s.
Proof. intros (_ & _ & H). exact H. Qed.

Lemma emitsL_le9 L L' m m' n c : emitsL L L' m' n c -> le9 m m' -> emitsL L L' m n c.
Proof. intros H Hle s s' Hc E. apply (H s s' Hc). apply Hle; [eapply ctxL_pinv; eauto | exact E]. Qed.

Lemma le9_gd m : le9 (gd m) m.
Proof. intros s s' _ E. unfold gd in E. destruct (jb FT (cs_jump s)); [exact E | discriminate]. Qed.
Lemma le9_refl m : le9 m m.
Proof. intros s s' _ E. exact E. Qed.

Lemma le9_seq m1 m1' m2 m2' :
  le9 (gd m1) m1' -> pj m1 -> le9 (gd m2) m2' -> le9 (gd (m1 ;; m2)) (m1' ;; m2').
Proof.
  intros H1 P H2 s s' Hp E. unfold gd in E. destruct (jb FT (cs_jump s)) eqn:Ej; [|discriminate].
  apply bind_ok in E. destruct E as ([] & s1 & E1 & E2).
  assert (X : gd m1 s = ROk tt s1) by (unfold gd; rewrite Ej; exact E1).
  unfold bind. rewrite (H1 s s1 Hp X). destruct (P _ _ Hp E1) as [Hp1 Hj1].
  apply (H2 s1 s' Hp1). unfold gd. rewrite Hj1, Ej. exact E2.
Qed.

Lemma le9_seq_last m1 m1' m2 : le9 (gd m1) m1' -> le9 (gd (m1 ;; m2)) (m1' ;; m2).
Proof.
  intros H1 s s' Hp E. unfold gd in E. destruct (jb FT (cs_jump s)) eqn:Ej; [|discriminate].
  apply bind_ok in E. destruct E as ([] & s1 & E1 & E2).
  assert (X : gd m1 s = ROk tt s1) by (unfold gd; rewrite Ej; exact E1).
  unfold bind. rewrite (H1 s s1 Hp X). exact E2.
Qed.

(* ---- what keeps the jump table ---- *)
Lemma pj_push_sub i : pj (push_sub i).
Proof. intros s s' Hp E. injection E as <-. split; [exact Hp | reflexivity]. Qed.
Lemma pj_pop_sub : pj pop_sub.
Proof. intros s s' Hp E. injection E as <-. split; [exact Hp | reflexivity]. Qed.
Lemma pj_card_label : pj card_label.
Proof.
  intros s s' Hp E. revert E.
  unfold card_label, index_handle, bind, get, handle_from_bytes_m, ret, label_entry_here.
  destruct (two32 <=? cs_pc s); [discriminate|].
  destruct (_ =? 0); [intros E; injection E as <-; split; [exact Hp | reflexivity]|].
  destruct (nm_find _ (cs_labels s)); intros E; injection E as <-; (split; [exact Hp | reflexivity]).
Qed.
Lemma pj_card c : pj (process_card c).
Proof.
  intros s s' Hp E. destruct (CompilerLabels.process_card_post c s s' E Hp) as (_ & A & _ & _ & B & _).
  split; [exact A | exact B].
Qed.
Lemma pj_seq m1 m2 : pj m1 -> pj m2 -> pj (m1 ;; m2).
Proof.
  intros P1 P2 s s' Hp E. apply bind_ok in E. destruct E as ([] & s1 & E1 & E2).
  destruct (P1 _ _ Hp E1) as [Hp1 Hj1]. destruct (P2 _ _ Hp1 E2) as [Hp2 Hj2].
  split; [exact Hp2 | congruence].
Qed.
Lemma pj_with_sub i m : pj m -> pj (with_sub i m).
Proof. intros P. unfold with_sub. apply pj_seq; [apply pj_push_sub|]. apply pj_seq; [exact P | apply pj_pop_sub]. Qed.
Lemma pj_ret : pj (ret tt).
Proof. intros s s' Hp E. injection E as <-. split; [exact Hp | reflexivity]. Qed.
Lemma pj_subexpr l : forall i,
  pj ((fix subexpr (l : list card) (i : N) {struct l} : M unit :=
         match l with
         | [] => ret tt
         | x :: r => with_sub i (process_card x) ;; subexpr r (i + 1)
         end) l i).
Proof.
  induction l as [|x r IH]; intros i; [apply pj_ret|].
  apply pj_seq; [apply pj_with_sub, pj_card | apply IH].
Qed.

Lemma pinv_pushed s i : pinv s -> pinv (pushed s i).
Proof.
  unfold pinv. intros Hp. cbn [pushed cs_pc cs_code set_code set_trace bytes]. unfold spanN. rewrite Hp. lia.
Qed.

Lemma le9_with_sub i m m' : le9 (gd m) m' -> le9 (gd (with_sub i m)) (with_sub i m').
Proof.
  intros H. unfold with_sub. apply le9_seq; [apply le9_gd | apply pj_push_sub|]. apply le9_seq_last, H.
Qed.

Lemma le9_if_then skip body body' :
  le9 (gd body) body' -> le9 (gd (encode_if_then skip body)) (encode_if_then skip body').
Proof.
  intros H s s' Hp E. unfold gd in E. destruct (jb FT (cs_jump s)) eqn:Ej; [|discriminate].
  unfold encode_if_then in *.
  apply bind_ok in E. destruct E as (p & sa & Ea & E). injection Ea as <- <-.
  apply bind_ok in E. destruct E as ([] & s1 & E1 & E).
  apply bind_ok in E. destruct E as ([] & s2 & E2 & E3).
  rewrite push_instr_eq in E1. injection E1 as <-.
  assert (X : gd body (pushed s (skip 0%Z)) = ROk tt s2).
  { unfold gd. cbn [cs_jump pushed set_code set_trace]. rewrite Ej. exact E2. }
  unfold bind, get_pc. rewrite push_instr_eq. rewrite (H _ _ (pinv_pushed _ _ Hp) X). exact E3.
Qed.

Lemma patch_here_inv q s s' : pinv s -> patch_jump_here q s = ROk tt s' -> pinv s' /\ cs_jump s' = cs_jump s.
Proof.
  unfold patch_jump_here, pinv. intros Hp E.
  destruct (patch_code (cs_code s) (cs_pc s) q (u32_to_i32 (cs_pc s))) as [c|] eqn:Ec; [|discriminate].
  injection E as <-. cbn [cs_pc cs_code cs_jump set_code].
  rewrite (CompilerLabels.patch_code_bytes _ _ _ _ _ Ec). split; [exact Hp | reflexivity].
Qed.

Lemma le9_if_else A A' B B' :
  le9 (gd A) A' -> pj A -> le9 (gd B) B' -> le9 (gd (if_else_tail A B)) (if_else_tail A' B').
Proof.
  intros HA PA HB s s' Hp E. unfold gd in E. destruct (jb FT (cs_jump s)) eqn:Ej; [|discriminate].
  unfold if_else_tail in *.
  apply bind_ok in E. destruct E as (p & sa & Ea & E). injection Ea as <- <-.
  apply bind_ok in E. destruct E as ([] & s1 & E1 & E).
  apply bind_ok in E. destruct E as ([] & s2 & E2 & E).
  apply bind_ok in E. destruct E as (p2 & sb & Eb & E). injection Eb as <- <-.
  apply bind_ok in E. destruct E as ([] & s3 & E3 & E).
  apply bind_ok in E. destruct E as ([] & s4 & E4 & E).
  apply bind_ok in E. destruct E as ([] & s4' & E4' & E).
  apply bind_ok in E. destruct E as ([] & s5 & E5 & E6).
  rewrite push_instr_eq in E1. injection E1 as <-.
  rewrite push_instr_eq in E3. injection E3 as <-.
  injection E4' as <-.
  assert (Hp1 : pinv (pushed s (IGotoIfFalse 0%Z))) by (apply pinv_pushed, Hp).
  assert (X : gd A (pushed s (IGotoIfFalse 0%Z)) = ROk tt s2).
  { unfold gd. cbn [cs_jump pushed set_code set_trace]. rewrite Ej. exact E2. }
  destruct (PA _ _ Hp1 E2) as [Hp2 Hj2]. cbn [cs_jump pushed set_code set_trace] in Hj2.
  destruct (patch_here_inv _ _ _ (pinv_pushed _ (IGoto placeholder) Hp2) E4) as [Hp4 Hj4].
  cbn [cs_jump pushed set_code set_trace] in Hj4.
  unfold with_sub in E5.
  apply bind_ok in E5. destruct E5 as ([] & s5a & E5a & E5). injection E5a as <-.
  apply bind_ok in E5. destruct E5 as ([] & s5b & E5b & E5c).
  match type of E5b with B ?st = _ => set (sB := st) in * end.
  assert (Y : gd B sB = ROk tt s5b).
  { unfold gd. subst sB. cbn [cs_jump set_index]. rewrite Hj4, Hj2, Ej. exact E5b. }
  assert (HpB : pinv sB) by exact Hp4.
  unfold bind, get_pc. rewrite push_instr_eq, (HA _ _ Hp1 X), push_instr_eq, E4.
  unfold with_sub, bind. unfold pop_sub at 1. unfold push_sub.
  match goal with |- context [B' ?x] => change x with sB end. rewrite (HB _ _ HpB Y), E5c. exact E6.
Qed.

End Guard.

(* ------------------------------------------------------------------ the cards of the fragment *)
Section Cards.
Variable FT : ftab.
Variable sg : sig9.
Hypothesis sg_ft : forall name n, sm_find name sg = Some n -> exists h ar, sm_find name FT = Some (h, ar).

Lemma emitsL_args9 Ln l : forallb expr_f1 l = true -> forall i,
  emitsL Ln Ln ((fix subexpr (l : list card) (i : N) {struct l} : M unit :=
             match l with
             | [] => ret tt
             | x :: r => with_sub i (process_card x) ;; subexpr r (i + 1)
             end) l i) (flat_map (expr_gnames Ln) l) (fun T _ => code_args9 T Ln l).
Proof.
  induction l as [|x r IH]; intros Hc i.
  - apply emitsL_nop. intros s s' E. injection E as <-. repeat split.
  - cbn [forallb] in Hc. apply andb_true_iff in Hc. destruct Hc as [H1 H2].
    eapply emitsL_ext.
    + apply emitsL_seq; [apply emitsL_with_sub, emitsL_expr, H1 | apply (IH H2 (i + 1))].
    + intros y Hy. exact Hy.
    + intros T b. reflexivity.
Qed.

Definition call_tail (name : str) : M unit :=
  do m <- resolve_function name ;;
  push_instr (IFunctionPointer (fm_handle m) (fm_arity m)) ;;
  push_instr ICallFunction.

Lemma emitsL_call_tail Ln name h ar :
  sm_find name FT = Some (h, ar) ->
  emitsL Ln Ln (gd FT (call_tail name)) [] (fun _ _ => [IFunctionPointer h ar; ICallFunction]).
Proof.
  intros Hf s s' Hc E. unfold gd in E. destruct (jb FT (cs_jump s)) eqn:Ej; [|discriminate].
  pose proof (jb_find _ _ _ _ _ Ej Hf) as Hj.
  assert (Hres : resolve_function name s = ROk {| fm_handle := h; fm_arity := ar |} s).
  { unfold resolve_function, bind, get. cbv zeta. rewrite Hj. reflexivity. }
  unfold call_tail in E. apply bind_ok in E. destruct E as (m & s1 & E1 & E2).
  rewrite Hres in E1. injection E1 as <- <-. cbn [fm_handle fm_arity] in E2.
  assert (H2 : emitsL Ln Ln (push_instr (IFunctionPointer h ar) ;; push_instr ICallFunction) []
                      (fun _ _ => [IFunctionPointer h ar; ICallFunction])).
  { eapply emitsL_ext; [apply emitsL_seq; apply emitsL_push | intros x Hx; exact Hx | intros T b; reflexivity]. }
  exact (H2 s s' Hc E2).
Qed.

Lemma emitsG_rhs Ln r : rhs9 sg r = true ->
  emitsL Ln Ln (gd FT (process_card r)) (rhs_gnames9 Ln r) (fun T _ => code_rhs9 T FT Ln r).
Proof.
  intros Hr.
  assert (Hex : expr_f1 r = true ->
                emitsL Ln Ln (gd FT (process_card r)) (expr_gnames Ln r) (fun T _ => code_expr5 T Ln r)).
  { intros He. eapply emitsL_le9; [apply emitsL_expr, He | apply le9_gd]. }
  destruct r; try (exact (Hex Hr)).
  cbn [rhs9] in Hr. apply andb_true_iff in Hr. destruct Hr as [Ha Hs].
  destruct (sm_find name sg) as [k|] eqn:Es; [|discriminate].
  destruct (sg_ft _ _ Es) as (h & ar & Hf).
  eapply emitsL_ext.
  - eapply emitsL_le9; cycle 1.
    { cbn [process_card]. apply le9_seq; [apply le9_gd | apply pj_card_label|].
      apply le9_seq; [apply le9_gd | apply pj_subexpr | apply le9_refl]. }
    apply emitsL_seq; [apply emitsL_nop, keepL_card_label|].
    apply emitsL_seq; [apply (emitsL_args9 Ln args Ha 0) | apply (emitsL_call_tail Ln name h ar Hf)].
  - intros x Hx. cbn [rhs_gnames9 app] in *. rewrite app_nil_r. exact Hx.
  - intros T b. cbn [code_rhs9 app]. rewrite Hf. reflexivity.
Qed.

Lemma emitsG_set_global Ln g r : is_empty g = false -> rhs9 sg r = true ->
  emitsL Ln Ln (gd FT (process_card (CSetGlobalVar g r))) (rhs_gnames9 Ln r ++ [g])
         (fun T _ => code_rhs9 T FT Ln r ++ [ISetGlobalVar (idT T g)]).
Proof.
  intros Hne Hr. eapply emitsL_ext.
  - eapply emitsL_le9; cycle 1.
    { cbn [process_card]. rewrite Hne. apply le9_seq; [apply le9_gd | apply pj_card_label|].
      apply le9_seq_last, le9_with_sub, le9_refl. }
    apply emitsL_seq; [apply emitsL_nop, keepL_card_label|].
    apply emitsL_seq; [apply emitsL_with_sub, (emitsG_rhs Ln r Hr) | apply (emitsL_global Ln g ISetGlobalVar)].
  - intros x Hx. exact Hx.
  - intros T b. reflexivity.
Qed.

Lemma emitsG_set_local Ln x r i : var_ok x = true -> rhs9 sg r = true -> slot Ln x = Some i ->
  emitsL Ln Ln (gd FT (process_card (CSetVar x r))) (rhs_gnames9 Ln r)
         (fun T _ => code_rhs9 T FT Ln r ++ [ISetLocalVar (N.of_nat i)]).
Proof.
  intros Hx Hr Hi. unfold var_ok in Hx. apply andb_true_iff in Hx. destruct Hx as [Hne Hdot].
  apply negb_true_iff in Hne, Hdot.
  eapply emitsL_ext.
  - eapply emitsL_le9; cycle 1.
    { cbn [process_card]. rewrite (rsplit_no_dot _ Hdot). apply le9_seq; [apply le9_gd | apply pj_card_label|].
      apply le9_seq_last, le9_with_sub, le9_refl. }
    apply emitsL_seq; [apply emitsL_nop, keepL_card_label|].
    apply emitsL_seq; [apply emitsL_with_sub, (emitsG_rhs Ln r Hr)|].
    apply emitsL_bind_resolve; [exact Hne|]. rewrite Hi. apply emitsL_push.
  - intros y Hy. cbn [app] in *. rewrite app_nil_r. exact Hy.
  - intros T b. cbn [app]. reflexivity.
Qed.

Lemma emitsG_return Ln r : rhs9 sg r = true ->
  emitsL Ln Ln (gd FT (process_card (CUn UReturn r))) (rhs_gnames9 Ln r)
         (fun T _ => code_rhs9 T FT Ln r ++ [IReturn]).
Proof.
  intros Hr. eapply emitsL_ext.
  - eapply emitsL_le9; cycle 1.
    { cbn [process_card unop_instr]. apply le9_seq; [apply le9_gd | apply pj_card_label|].
      apply le9_seq_last, le9_with_sub, le9_refl. }
    apply emitsL_seq; [apply emitsL_nop, keepL_card_label|].
    apply emitsL_seq; [apply emitsL_with_sub, (emitsG_rhs Ln r Hr) | apply emitsL_push].
  - intros y Hy. cbn [app] in *. rewrite app_nil_r. exact Hy.
  - intros T b. cbn [app]. reflexivity.
Qed.

Lemma emitsG_declare Ln x r : var_ok x = true -> rhs9 sg r = true -> lmem x Ln = false ->
  emitsL Ln (x :: Ln) (gd FT (process_card (CSetVar x r))) (rhs_gnames9 Ln r)
         (fun T _ => code_rhs9 T FT Ln r ++ [ISetLocalVar (N.of_nat (length Ln))]).
Proof.
  intros Hx Hr Hm. unfold var_ok in Hx. apply andb_true_iff in Hx. destruct Hx as [Hne Hdot].
  apply negb_true_iff in Hne, Hdot.
  eapply emitsL_le9; cycle 1.
  { cbn [process_card]. rewrite (rsplit_no_dot _ Hdot). apply le9_seq; [apply le9_gd | apply pj_card_label|].
    apply le9_seq_last, le9_with_sub, le9_refl. }
  intros s s' Hc E.
  pose proof (emitsL_seq_gen Ln Ln (x :: Ln) _ _ _ _ _ _
                (emitsL_nop Ln _ keepL_card_label)
                (emitsL_seq_gen Ln Ln (x :: Ln) _ _ _ _ _ _
                   (emitsL_with_sub Ln 0 _ _ _ (emitsG_rhs Ln r Hr))
                   (emitsL_declare_tail Ln x Hne Hm))) as H.
  destruct (H s s' Hc E) as (A & B & C & D). split; [exact A|]. split; [exact B|]. split.
  - intros n Hn. apply C. cbn [app]. rewrite app_nil_r. exact Hn.
  - intros T HT. rewrite (D T HT). cbn [app]. reflexivity.
Qed.

Lemma emitsG_stmt ret Ln c : stmt9 sg ret Ln c = true ->
  emitsL Ln Ln (gd FT (process_card c)) (stmt_gnames9 Ln c) (fun T b => code9 T FT Ln b c).
Proof.
  induction c using card_ind'; intros Hc; cbn [stmt9] in Hc; try discriminate Hc.
  - (* IfTrue / IfFalse *)
    destruct op; try discriminate Hc; apply andb_true_iff in Hc; destruct Hc as [He Hb].
    + eapply emitsL_ext.
      * eapply emitsL_le9; cycle 1.
        { cbn [process_card]. apply le9_seq; [apply le9_gd | apply pj_card_label|].
          apply le9_seq; [apply le9_gd | apply pj_with_sub, pj_card|].
          apply le9_seq; [apply le9_gd | apply pj_push_sub|].
          apply le9_seq_last, le9_if_then, le9_refl. }
        apply emitsL_seq; [apply emitsL_nop, keepL_card_label|].
        apply emitsL_seq; [apply emitsL_with_sub, emitsL_expr, He|].
        apply emitsL_seq; [apply emitsL_nop, keepL_push_sub|].
        apply emitsL_seq; [apply (emitsL_if_then Ln IGotoIfFalse); [left; reflexivity | apply IHc2, Hb]|].
        apply emitsL_nop, keepL_pop_sub.
      * intros x Hx. cbn [stmt_gnames9 app] in *. rewrite app_nil_r. exact Hx.
      * intros T b. cbn [code9 app bytes]. rewrite ?N.add_0_r, ?app_nil_r. reflexivity.
    + eapply emitsL_ext.
      * eapply emitsL_le9; cycle 1.
        { cbn [process_card]. apply le9_seq; [apply le9_gd | apply pj_card_label|].
          apply le9_seq; [apply le9_gd | apply pj_with_sub, pj_card|].
          apply le9_seq; [apply le9_gd | apply pj_push_sub|].
          apply le9_seq_last, le9_if_then, le9_refl. }
        apply emitsL_seq; [apply emitsL_nop, keepL_card_label|].
        apply emitsL_seq; [apply emitsL_with_sub, emitsL_expr, He|].
        apply emitsL_seq; [apply emitsL_nop, keepL_push_sub|].
        apply emitsL_seq; [apply (emitsL_if_then Ln IGotoIfTrue); [right; reflexivity | apply IHc2, Hb]|].
        apply emitsL_nop, keepL_pop_sub.
      * intros x Hx. cbn [stmt_gnames9 app] in *. rewrite app_nil_r. exact Hx.
      * intros T b. cbn [code9 app bytes]. rewrite ?N.add_0_r, ?app_nil_r. reflexivity.
  - (* Return *)
    destruct op; try discriminate Hc. apply andb_true_iff in Hc. destruct Hc as [_ Hr].
    exact (emitsG_return Ln c Hr).
  - (* IfElse *)
    destruct op; try discriminate Hc. apply andb_true_iff in Hc. destruct Hc as [Hc Hb].
    apply andb_true_iff in Hc. destruct Hc as [He Ha].
    eapply emitsL_ext.
    + eapply emitsL_le9; cycle 1.
      { cbn [process_card]. apply le9_seq; [apply le9_gd | apply pj_card_label|].
        apply le9_seq; [apply le9_gd | apply pj_with_sub, pj_card|].
        apply le9_seq; [apply le9_gd | apply pj_push_sub|].
        apply (le9_if_else FT (process_card c2) (gd FT (process_card c2)) (process_card c3) (gd FT (process_card c3))); [apply le9_refl | apply pj_card | apply le9_refl]. }
      apply emitsL_seq; [apply emitsL_nop, keepL_card_label|].
      apply emitsL_seq; [apply emitsL_with_sub, emitsL_expr, He|].
      apply emitsL_seq; [apply emitsL_nop, keepL_push_sub|].
      apply emitsL_if_else; [apply IHc2, Ha | apply IHc3, Hb].
    + intros x Hx. cbn [stmt_gnames9 app] in *. exact Hx.
    + intros T b. cbn [code9 app bytes]. unfold code_if_else. rewrite ?N.add_0_r. reflexivity.
  - (* SetGlobalVar *)
    apply andb_true_iff in Hc. destruct Hc as [Hne Hr]. apply negb_true_iff in Hne.
    exact (emitsG_set_global Ln n c Hne Hr).
  - (* SetVar of an existing local *)
    apply andb_true_iff in Hc. destruct Hc as [Hc Hr]. apply andb_true_iff in Hc. destruct Hc as [Hx Hm].
    unfold lmem in Hm. destruct (find_first n Ln) as [p|] eqn:Ef; [|discriminate].
    eapply emitsL_ext.
    + apply (emitsG_set_local Ln n c (length Ln - 1 - p) Hx Hr). unfold slot. rewrite Ef. reflexivity.
    + intros x Hx'. exact Hx'.
    + intros T b. cbn [code9 stmt_gnames9]. unfold set_slot, slot. rewrite Ef. reflexivity.
Qed.

Lemma emitsG_top ret Ln c : top9 sg ret Ln c = true ->
  emitsL Ln (names_next Ln c) (gd FT (process_card c)) (stmt_gnames9 Ln c) (fun T b => code9 T FT Ln b c).
Proof.
  intros Hc. destruct c; try (apply (emitsG_stmt ret); exact Hc).
  cbn [top9] in Hc. apply andb_true_iff in Hc. destruct Hc as [Hx Hr].
  cbn [names_next stmt_gnames9 code9]. unfold set_slot, slot, lmem. destruct (find_first name Ln) as [p|] eqn:Ef.
  - apply (emitsG_set_local Ln name c (length Ln - 1 - p) Hx Hr). unfold slot. rewrite Ef. reflexivity.
  - apply (emitsG_declare Ln name c Hx Hr). unfold lmem. rewrite Ef. reflexivity.
Qed.

Lemma emitsG_cards ret cards : forall Ln ic, cards9 sg ret Ln cards = true ->
  emitsL Ln (names_end Ln cards) (gd FT (process_cards cards ic)) (top_gnames9 Ln cards)
         (fun T b => code_top9 T FT Ln b cards).
Proof.
  induction cards as [|c r IH]; intros Ln ic Hc; cbn [process_cards names_end top_gnames9].
  - eapply emitsL_le9; [|apply le9_gd]. apply emitsL_nop. intros s s' E. injection E as <-. repeat split.
  - cbn [cards9] in Hc. apply andb_true_iff in Hc. destruct Hc as [Hc Hr].
    eapply emitsL_le9; cycle 1.
    { apply le9_seq; [apply le9_gd | apply pj_pop_sub|]. apply le9_seq; [apply le9_gd | apply pj_push_sub|].
      apply le9_seq; [apply le9_refl | apply pj_card | apply le9_refl]. }
    intros s s' Hcx E.
    pose proof (emitsL_seq_gen Ln Ln _ _ _ _ _ _ _ (emitsL_nop Ln _ keepL_pop_sub)
                 (emitsL_seq_gen Ln Ln _ _ _ _ _ _ _ (emitsL_nop Ln _ (keepL_push_sub ic))
                    (emitsL_seq_gen Ln _ _ _ _ _ _ _ _ (emitsG_top ret Ln c Hc) (IH (names_next Ln c) (ic + 1) Hr)))) as H.
    destruct (H s s' Hcx E) as (A & B & C & D). split; [exact A|]. split; [exact B|]. split.
    + intros n Hn. apply C. exact Hn.
    + intros T HT. rewrite (D T HT). cbn [code_top9 app bytes]. rewrite ?N.add_0_r. reflexivity.
Qed.

End Cards.

(* ------------------------------------------------------------------ the parameters become locals *)
Lemma add_locals_L names : forall L s s', ctxL L s -> add_locals names s = ROk tt s' ->
  ctxL (rev names ++ L) s' /\ cs_ids s' = cs_ids s /\ cs_names s' = cs_names s /\ cs_code s' = cs_code s /\
  cs_pc s' = cs_pc s /\ cs_jump s' = cs_jump s.
Proof.
  induction names as [|n r IH]; intros L s s' Hc E; cbn [add_locals] in E.
  - injection E as <-. cbn [rev app]. split; [exact Hc | repeat split].
  - apply bind_ok in E. destruct E as (i & s1 & Ea & E).
    destruct Hc as ((Hl & Hd) & Hu & Hp).
    unfold add_local, bind, validate_var_name in Ea. destruct (is_empty n); [discriminate Ea|]. cbn [ret] in Ea.
    unfold add_local_unchecked in Ea. rewrite Hl in Ea. cbn [hd] in Ea.
    destruct (Nat.leb locals_cap (length (map mkl (rev L)))); [discriminate Ea|]. injection Ea as <- <-.
    match type of E with add_locals r ?st = _ => assert (Hc1 : ctxL (n :: L) st) end.
    { split; [split|split].
      - cbn [cs_locals set_scopes map_hd]. rewrite Hd. cbn [rev]. rewrite map_app. reflexivity.
      - exact Hd.
      - exact Hu.
      - exact Hp. }
    destruct (IH _ _ _ Hc1 E) as (A & B). split.
    + cbn [rev]. rewrite <- app_assoc. exact A.
    + exact B.
Qed.

Lemma pj_process_cards cards : forall ic, pj (process_cards cards ic).
Proof.
  induction cards as [|c r IH]; intros ic; cbn [process_cards]; [apply pj_ret|].
  apply pj_seq; [apply pj_pop_sub|]. apply pj_seq; [apply pj_push_sub|]. apply pj_seq; [apply pj_card | apply IH].
Qed.

(* ------------------------------------------------------------------ the IR stream of the user functions *)
Definition fir9 (i : nat) (n : N) (name : str) (f : function) : function_ir :=
  {| fi_index := i; fi_name := name; fi_args := f_args f; fi_cards := f_cards f; fi_ns := [];
     fi_imports := []; fi_handle := handle_from_u64 n |}.
Fixpoint firs9 (i : nat) (n : N) (fs : list (str * function)) : list function_ir :=
  match fs with
  | [] => []
  | (name, f) :: r => fir9 i n name f :: firs9 (S i) (n + 1) r
  end.

Lemma flatten_functions9 fs : forall i n out out' n',
  flatten_functions fs i [] [] out n = inr (out', n') ->
  out' = rev (firs9 i n fs) ++ out /\ n' = n + N.of_nat (length fs).
Proof.
  induction fs as [|[name f] r IH]; intros i n out out' n' H; cbn [flatten_functions] in H.
  - injection H as <- <-. cbn [firs9 rev app length]. split; [reflexivity | lia].
  - destruct (negb (is_name_valid name)); [discriminate H|].
    destruct (IH _ _ _ _ _ H) as [-> ->]. cbn [firs9 rev length]. rewrite <- app_assoc. cbn [app].
    split; [reflexivity | lia].
Qed.

Lemma swap0_0 {A} (l : list A) : swap0 l 0 = l.
Proof. destruct l as [|x r]; reflexivity. Qed.

Lemma ir_stream9 f0 others fs :
  into_ir_stream (Module [] ((s_main, f0) :: others) []) 64 = inr fs ->
  exists std, fs = firs9 0 0 ((s_main, f0) :: others) ++ std.
Proof.
  unfold into_ir_stream. cbn [app]. destruct (ensure_invariants _); [discriminate|].
  cbn [find_index fst]. change (str_eqb s_main s_main) with true. cbv iota.
  cbn [flatten_module length execute_imports].
  change (64 <=? N.of_nat 0) with false. cbv iota.
  destruct (flatten_functions _ 0 [] [] [] 0) as [e|[out1 n1]] eqn:Ef; [discriminate|].
  destruct (flatten_functions9 _ _ _ _ _ _ Ef) as [-> _].
  destruct (flatten_module std_module 64 _ _ n1) as [e|[out' n']] eqn:Em; [discriminate|].
  destruct (ResolveTree.flatten_module_spec _ _ _ _ _ _ _ Em) as (irs & -> & _ & _).
  intros H. injection H as <-. exists irs.
  rewrite swap0_0, app_nil_r, rev_app_distr, (rev_involutive irs). f_equal.
  first [ exact (rev_involutive (firs9 0 0 ((s_main, f0) :: others)))
        | symmetry; exact (rev_involutive (firs9 0 0 ((s_main, f0) :: others))) ].
Qed.

(* ------------------------------------------------------------------ one function *)
Lemma push_raws_more is : forall s s', push_raws is s = ROk tt s' ->
  cs_depth s' = cs_depth s /\ cs_jump s' = cs_jump s.
Proof.
  induction is as [|i r IH]; intros s s' E; cbn [push_raws] in E.
  - injection E as <-. split; reflexivity.
  - apply bind_ok in E. destruct E as ([] & s1 & E1 & E2). rewrite push_instr_eq in E1. injection E1 as <-.
    destruct (IH _ _ E2) as (A & B). rewrite A, B. split; reflexivity.
Qed.

Definition fst9 (FT : ftab) (s : cstate) : Prop :=
  ctx s /\ (exists d, cs_depth s = 0%Z :: d) /\ jb FT (cs_jump s) = true.

Section Fun.
Variable FT : ftab.
Variable sg : sig9.
Hypothesis sg_ft : forall name n, sm_find name sg = Some n -> exists h ar, sm_find name FT = Some (h, ar).

Lemma fun_body9 ret i n name f s0 se :
  cards9 sg ret (f_args f) (f_cards f) = true ->
  ctxL [] s0 -> jb FT (cs_jump s0) = true ->
  process_function (fir9 i n name f) s0 = ROk tt se ->
  ctxL (names_end (f_args f) (f_cards f)) se /\ cs_jump se = cs_jump s0 /\ sub2 s0 se /\
  (forall x, In x (fn_gnames9 f) -> named se x) /\
  (forall T, sub (cs_ids se) T -> cs_code se = rev (code_top9 T FT (f_args f) (cs_pc s0) (f_cards f)) ++ cs_code s0).
Proof.
  intros Hcards Hc0 Hj E. unfold process_function in E.
  cbn [fir9 fi_args fi_cards fi_ns fi_imports] in E.
  apply bind_ok in E. destruct E as ([] & sx & Ex & E). injection Ex as <-.
  apply bind_ok in E. destruct E as ([] & s1 & E1 & E).
  assert (Hcx : ctxL [] (set_fctx [] [] s0)) by exact Hc0.
  destruct (add_locals_L _ _ _ _ Hcx E1) as (Hc1 & Ai & An & Ac & Ap & Aj).
  rewrite app_nil_r, rev_involutive in Hc1.
  cbn [cs_ids cs_names cs_code cs_pc cs_jump set_fctx] in Ai, An, Ac, Ap, Aj.
  assert (E' : gd FT (process_cards (f_cards f) 0) s1 = ROk tt se).
  { unfold gd. rewrite Aj, Hj. exact E. }
  destruct (emitsG_cards FT sg sg_ft ret (f_cards f) (f_args f) 0 Hcards s1 se Hc1 E') as (Hce & Bd & Cd & Dd).
  destruct (pj_process_cards _ _ _ _ (ctxL_pinv _ _ Hc1) E) as [_ Hje].
  split; [exact Hce|]. split; [congruence|].
  split; [destruct Bd as [B1 B2]; split; [rewrite <- Ai; exact B1 | rewrite <- An; exact B2]|].
  split; [exact Cd|].
  intros T HT. rewrite (Dd T HT), Ap, Ac. reflexivity.
Qed.

Lemma scope_end9 L se sf :
  ctxL L se -> scope_end se = ROk tt sf ->
  cs_locals sf = [[]] /\ cs_upvalues sf = [[]] /\ (exists d, cs_depth sf = 0%Z :: d) /\ cs_jump sf = cs_jump se /\
  cs_code sf = repeat IPop (length L) ++ cs_code se /\ cs_ids sf = cs_ids se /\ cs_names sf = cs_names se /\
  cs_pc sf = cs_pc se + bytes (repeat IPop (length L)).
Proof.
  intros ((HlL & HdL) & HuL & HpL) Ef.
  unfold scope_end in Ef. rewrite HlL in Ef. cbn [hd] in Ef. rewrite <- map_rev, rev_involutive in Ef.
  assert (Hds : exists rest, cs_depth se = 1%Z :: rest).
  { unfold scope_depth in HdL. destruct (cs_depth se) as [|d rest]; [discriminate HdL|]. cbn [hd] in HdL. subst d. eauto. }
  destruct Hds as (drest & Hds). rewrite Hds in Ef. cbn [map_hd hd] in Ef. change (1 - 1)%Z with 0%Z in Ef.
  rewrite pop_locals_all in Ef. cbn [fst snd] in Ef.
  destruct (push_raws_spec _ _ _ Ef) as (Fc & Fi & Fn & Fp & Fl & Fu).
  destruct (push_raws_more _ _ _ Ef) as (Fd & Fj).
  cbn [cs_code cs_ids cs_names cs_pc cs_locals cs_upvalues cs_depth cs_jump set_scopes rev] in Fc, Fi, Fn, Fp, Fl, Fu, Fd, Fj.
  split; [exact Fl|]. split; [rewrite Fu; exact HuL|]. split; [exists drest; exact Fd|]. split; [exact Fj|].
  split; [rewrite Fc, rev_repeat; reflexivity|]. split; [exact Fi|]. split; [exact Fn | exact Fp].
Qed.

Lemma other9_shape i n name f s s' :
  cards9 sg true (f_args f) (f_cards f) = true ->
  fst9 FT s -> compile_other (fir9 i n name f) s = ROk tt s' ->
  fst9 FT s' /\ sub2 s s' /\
  (forall x, In x (fn_gnames9 f) -> named s' x) /\
  (forall T, sub (cs_ids s') T -> cs_code s' = rev (code_fn9 T FT (cs_pc s) f) ++ cs_code s).
Proof.
  intros Hcards ((Hl & Hu & Hp) & (d0 & Hd) & Hj) E.
  unfold compile_other in E.
  apply bind_ok in E. destruct E as ([] & sa & Ea & E). injection Ea as <-.
  apply bind_ok in E. destruct E as ([] & sb & Eb & E). injection Eb as <-.
  apply bind_ok in E. destruct E as ([] & sc & Ec & E).
  unfold label_insert_here in Ec. destruct (_ || _); [discriminate Ec|]. injection Ec as <-.
  apply bind_ok in E. destruct E as ([] & sd & Ed & E). injection Ed as <-.
  apply bind_ok in E. destruct E as ([] & se & Ee & E).
  match type of Ee with process_function _ ?st = _ => set (s0 := st) in * end.
  assert (Hc0 : ctxL [] s0).
  { subst s0. split; [split|split]; cbn; [rewrite Hl; reflexivity | rewrite Hd; reflexivity | exact Hu | exact Hp]. }
  assert (Hj0 : jb FT (cs_jump s0) = true) by exact Hj.
  destruct (fun_body9 true i n name f s0 se Hcards Hc0 Hj0 Ee) as (Hce & Hje & Bd & Cd & Dd).
  apply bind_ok in E. destruct E as ([] & sf & Ef & E).
  destruct (scope_end9 _ _ _ Hce Ef) as (Fl & Fu & Fd & Fj & Fc & Fi & Fn & Fp).
  apply bind_ok in E. destruct E as ([] & sg1 & Eg & E).
  rewrite push_instr_eq in Eg. injection Eg as <-. rewrite push_instr_eq in E. injection E as <-.
  assert (Hids0 : cs_ids s0 = cs_ids s) by reflexivity.
  assert (Hnames0 : cs_names s0 = cs_names s) by reflexivity.
  assert (Hcode0 : cs_code s0 = cs_code s) by reflexivity.
  assert (Hpc0 : cs_pc s0 = cs_pc s) by reflexivity.
  assert (Hjump0 : cs_jump s0 = cs_jump s) by reflexivity.
  pose proof (ctxL_pinv _ _ Hce) as Hpe. unfold pinv in Hpe.
  split.
  { split; [split; [exact Fl | split; [exact Fu|]]|split].
    - cbn [pushed cs_pc cs_code set_code set_trace bytes]. rewrite Fp, Fc, Hpe, bytes_app. unfold spanN. lia.
    - exact Fd.
    - cbn [pushed cs_jump set_code set_trace]. rewrite Fj, Hje, Hjump0. exact Hj. }
  split.
  { destruct Bd as [B1 B2]. split; cbn [pushed cs_ids cs_names set_code set_trace].
    - rewrite Fi, <- Hids0. exact B1.
    - rewrite Fn, <- Hnames0. exact B2. }
  split.
  { intros x Hx. destruct (Cd x Hx) as (id & I1 & I2). exists id. cbn [pushed cs_ids cs_names set_code set_trace].
    rewrite Fi, Fn. auto. }
  intros T HT. cbn [pushed cs_code cs_ids set_code set_trace] in *. rewrite Fi in HT.
  rewrite Fc, (Dd T HT), Hpc0, Hcode0. unfold code_fn9.
  rewrite !rev_app_distr. cbn [rev app]. rewrite rev_repeat. rewrite <- !app_assoc. cbn [app]. reflexivity.
Qed.

End Fun.

Section Fun2.
Variable FT : ftab.

Lemma main9_shape sg f s s' :
  (forall name n, sm_find name sg = Some n -> exists h ar, sm_find name FT = Some (h, ar)) ->
  f_args f = [] -> cards9 sg false [] (f_cards f) = true ->
  fst9 FT s -> cs_pc s = 0 ->
  compile_main (fir9 0 0 s_main f) s = ROk tt s' ->
  fst9 FT s' /\ sub2 s s' /\
  (forall x, In x (fn_gnames9 f) -> named s' x) /\
  (forall T, sub (cs_ids s') T -> cs_code s' = rev (code_main9 T FT (f_cards f)) ++ cs_code s).
Proof.
  intros sg_ft Ha Hcards ((Hl & Hu & Hp) & (d0 & Hd) & Hj) Hpc E.
  unfold compile_main in E.
  apply bind_ok in E. destruct E as ([] & sa & Ea & E). injection Ea as <-.
  apply bind_ok in E. destruct E as ([] & sb & Eb & E). injection Eb as <-.
  apply bind_ok in E. destruct E as ([] & sd & Ed & E). injection Ed as <-.
  apply bind_ok in E. destruct E as ([] & se & Ee & E).
  match type of Ee with process_function _ ?st = _ => set (s0 := st) in * end.
  assert (Hc0 : ctxL [] s0).
  { subst s0. split; [split|split]; cbn; [rewrite Hl; reflexivity | rewrite Hd; reflexivity | exact Hu | exact Hp]. }
  assert (Hj0 : jb FT (cs_jump s0) = true) by exact Hj.
  assert (Hcards' : cards9 sg false (f_args f) (f_cards f) = true) by (rewrite Ha; exact Hcards).
  destruct (fun_body9 FT sg sg_ft false 0%nat 0 s_main f s0 se Hcards' Hc0 Hj0 Ee) as (Hce & Hje & Bd & Cd & Dd).
  apply bind_ok in E. destruct E as ([] & sx & Ex & E). injection Ex as <-.
  apply bind_ok in E. destruct E as ([] & sf & Ef & E).
  match type of Ef with scope_end ?st = _ => assert (Hce' : ctxL (names_end (f_args f) (f_cards f)) st) by exact Hce end.
  destruct (scope_end9 _ _ _ Hce' Ef) as (Fl & Fu & Fd & Fj & Fc & Fi & Fn & Fp).
  cbn [cs_jump cs_code cs_ids cs_names cs_pc set_index] in Fj, Fc, Fi, Fn, Fp.
  unfold process_leaf in E.
  apply bind_ok in E. destruct E as ([] & sg1 & Eg & E).
  destruct (keepL_card_label _ _ Eg) as ((g1 & g2 & g3 & g4 & g5 & g6) & g7).
  pose proof (ctxL_pinv _ _ Hce) as Hpe. unfold pinv in Hpe.
  assert (Hpf : pinv sf).
  { unfold pinv. rewrite Fp, Fc, Hpe, bytes_app. lia. }
  destruct (pj_card_label _ _ Hpf Eg) as [_ gj].
  rewrite push_instr_eq in E. injection E as <-.
  assert (Hids0 : cs_ids s0 = cs_ids s) by reflexivity.
  assert (Hnames0 : cs_names s0 = cs_names s) by reflexivity.
  assert (Hcode0 : cs_code s0 = cs_code s) by reflexivity.
  assert (Hpc0 : cs_pc s0 = 0) by exact Hpc.
  assert (Hjump0 : cs_jump s0 = cs_jump s) by reflexivity.
  split.
  { split; [split; [cbn; rewrite g3; exact Fl | split; [cbn; rewrite g4; exact Fu|]]|split].
    - cbn [pushed cs_pc cs_code set_code set_trace bytes]. rewrite g5, g1. unfold pinv in Hpf. rewrite Hpf. unfold spanN. lia.
    - cbn [pushed cs_depth set_code set_trace]. rewrite g7. exact Fd.
    - cbn [pushed cs_jump set_code set_trace]. rewrite gj, Fj, Hje, Hjump0. exact Hj. }
  split.
  { destruct Bd as [B1 B2]. split; cbn [pushed cs_ids cs_names set_code set_trace].
    - rewrite g2, Fi, <- Hids0. exact B1.
    - rewrite g6, Fn, <- Hnames0. exact B2. }
  split.
  { intros x Hx. destruct (Cd x Hx) as (id & I1 & I2). exists id. cbn [pushed cs_ids cs_names set_code set_trace].
    rewrite g2, Fi, g6, Fn. auto. }
  intros T HT. cbn [pushed cs_code cs_ids set_code set_trace] in *. rewrite g2, Fi in HT.
  rewrite g1, Fc, (Dd T HT), Hpc0, Hcode0. unfold code_main9. rewrite Ha.
  rewrite !rev_app_distr. cbn [rev app]. rewrite rev_repeat. rewrite <- !app_assoc. cbn [app]. reflexivity.
Qed.

Lemma others9_shape others : forall i n s s',
  (forall nm k, sm_find nm (sig_of others) = Some k -> exists h ar, sm_find nm FT = Some (h, ar)) ->
  fns_ok9 others = true -> fst9 FT s ->
  compile_others (firs9 i n others) s = ROk tt s' ->
  fst9 FT s' /\ sub2 s s' /\
  (forall x, In x (flat_map (fun nf => fn_gnames9 (snd nf)) others) -> named s' x) /\
  (forall T, sub (cs_ids s') T -> cs_code s' = rev (code_fns9 T FT (cs_pc s) others) ++ cs_code s).
Proof.
  induction others as [|[nm f] r IH]; intros i n s s' Hsg Hok Hst E.
  - cbn [firs9 compile_others] in E. injection E as <-.
    split; [exact Hst|]. split; [apply sub2_refl|]. split; [intros x []|]. intros T _. reflexivity.
  - cbn [firs9 compile_others] in E. apply bind_ok in E. destruct E as ([] & s1 & E1 & E2).
    cbn [fns_ok9] in Hok. apply andb_true_iff in Hok. destruct Hok as [Hf Hr].
    unfold fn_ok9 in Hf. apply andb_true_iff in Hf. destruct Hf as [_ Hcards].
    assert (Hsg_r : forall x k, sm_find x (sig_of r) = Some k -> exists h ar, sm_find x FT = Some (h, ar)).
    { intros x k Hx. destruct (str_eqb x nm) eqn:Ex.
      - apply (Hsg x (length (f_args f))). cbn [sig_of map fst snd sm_find]. rewrite Ex. reflexivity.
      - apply (Hsg x k). cbn [sig_of map fst snd sm_find]. rewrite Ex. exact Hx. }
    destruct (other9_shape FT (sig_of r) Hsg_r i n nm f s s1 Hcards Hst E1) as (Hst1 & S1 & N1 & C1).
    destruct (IH (S i) (n + 1) s1 s' Hsg_r Hr Hst1 E2) as (Hst2 & S2 & N2 & C2).
    split; [exact Hst2|]. split; [eapply sub2_trans; eauto|]. split.
    + intros x Hx. cbn [flat_map snd] in Hx. apply in_app_or in Hx. destruct Hx as [Hx|Hx]; [|auto].
      eapply named_sub2; [apply N1, Hx | exact S2].
    + intros T HT. pose proof (sub_trans _ _ _ (proj1 S2) HT) as HT1.
      rewrite (C2 T HT). pose proof (C1 T HT1) as Hc1.
      assert (Hpc1 : cs_pc s1 = cs_pc s + bytes (code_fn9 T FT (cs_pc s) f)).
      { destruct Hst1 as ((_ & _ & Hp1) & _). destruct Hst as ((_ & _ & Hp0) & _).
        rewrite Hp1, Hc1, bytes_app, bytes_rev, <- Hp0. lia. }
      rewrite Hpc1, Hc1. cbn [code_fns9]. rewrite rev_app_distr, app_assoc. reflexivity.
Qed.

End Fun2.

(* ------------------------------------------------------------------ stage 1 fills the jump table *)
Lemma stage_1_keeps l : forall s s' k m, stage_1 l s = ROk tt s' ->
  sm_find k (cs_jump s) = Some m -> sm_find k (cs_jump s') = Some m.
Proof.
  induction l as [|g r IH]; intros s s' k m E Hk; cbn [stage_1] in E.
  - injection E as <-. exact Hk.
  - apply bind_ok in E. destruct E as ([] & s1 & E1 & E2). apply (IH _ _ _ _ E2).
    unfold add_function, bind, get in E1. destruct (sm_find (fi_full_name g) (cs_jump s)) eqn:Eg; [discriminate E1|].
    injection E1 as <-. cbn [cs_jump set_jump].
    rewrite sm_find_insert_other; [exact Hk|]. intros ->. congruence.
Qed.

Lemma stage_1_jb fs : forall i n std s s', stage_1 (firs9 i n fs ++ std) s = ROk tt s' ->
  jb (ftab_from n fs) (cs_jump s') = true.
Proof.
  induction fs as [|[nm f] r IH]; intros i n std s s' E; [reflexivity|].
  cbn [firs9 app stage_1] in E. apply bind_ok in E. destruct E as ([] & s1 & E1 & E2).
  unfold jb. cbn [ftab_from forallb fst snd]. apply andb_true_iff. split; [|apply (IH _ _ _ _ _ E2)].
  unfold add_function, bind, get in E1. cbn [fir9 fi_full_name fi_ns fi_name fi_handle fi_args] in E1.
  destruct (sm_find nm (cs_jump s)); [discriminate E1|]. injection E1 as <-.
  rewrite (stage_1_keeps _ _ _ nm _ E2 (sm_find_insert_same _ _ _)).
  cbn [fm_handle fm_arity]. rewrite !N.eqb_refl. reflexivity.
Qed.

Lemma sig_ftab fs : forall j nm k, sm_find nm (sig_of fs) = Some k ->
  exists h ar, sm_find nm (ftab_from j fs) = Some (h, ar).
Proof.
  induction fs as [|[n0 f] r IH]; intros j nm k H; cbn [sig_of map fst snd sm_find ftab_from] in *; [discriminate|].
  destruct (str_eqb nm n0); [eauto | apply (IH _ _ _ H)].
Qed.

(* ------------------------------------------------------------------ the compiled program: code and ids *)
Theorem compile_f9_shape_code M B :
  in_f9 M = true -> compile M default_options = COk B ->
  N.of_nat (length (p_ids B)) < two32 ->
  exists rest,
    p_bytecode B = encode (code_all9 (p_ids B) M ++ rest) /\
    (forall n, In n (gnames9 M) -> nm_find (handle_of_bytes n) (p_ids B) <> None) /\
    (forall h1 h2 id, nm_find h1 (p_ids B) = Some id -> nm_find h2 (p_ids B) = Some id -> h1 = h2) /\
    (forall h id, nm_find h (p_ids B) = Some id -> id < two32) /\
    handles_inj (gnames9 M) = true.
Proof.
  intros HM HB Hlen. destruct M as [subs funs imps]. cbn [in_f9] in HM.
  destruct subs; [|discriminate]. destruct funs as [|[name f] others]; [discriminate|].
  destruct imps; [|discriminate].
  apply andb_true_iff in HM. destruct HM as [HM Hfns]. apply andb_true_iff in HM. destruct HM as [HM Hcards].
  apply andb_true_iff in HM. destruct HM as [HM _]. apply andb_true_iff in HM. destruct HM as [Hname Hargs].
  apply str_eqb_main in Hname. subst name.
  assert (Ha : f_args f = []) by (destruct (f_args f); [reflexivity | discriminate]).
  destruct (compile_ok_inv _ _ _ HB) as (fs & s & Hfs & E & ->).
  change (o_recursion_limit default_options) with 64 in Hfs. destruct (ir_stream9 _ _ _ Hfs) as (std & ->).
  set (M := Module [] ((s_main, f) :: others) []) in *.
  set (FT := ftab_of M).
  cbn [finish p_ids p_bytecode] in *.
  set (s0 := init_state (o_debug default_options)) in *.
  cbn [firs9 app] in E. set (fm := fir9 0 0 s_main f) in *.
  unfold compile_ir in E.
  apply bind_ok in E. destruct E as ([] & s1 & E1 & E).
  apply bind_ok in E. destruct E as ([] & s3 & E23 & E4).
  cbn [stage_2] in E23. apply bind_ok in E23. destruct E23 as ([] & s2 & E2 & E3).
  rewrite CompilerLabels.compile_others_app in E3. apply bind_ok in E3. destruct E3 as ([] & su & Eu & Estd).
  assert (Eafter : after_main std su = ROk tt s).
  { unfold after_main, bind. rewrite Estd. exact E4. }
  match type of E1 with stage_1 ?l _ = _ => set (FS := l) in * end.
  match type of Eu with compile_others ?l _ = _ => set (US := l) in * end.
  pose proof (frame3_stage_1 FS s0) as F1. rewrite E1 in F1.
  destruct F1 as (c1 & p1 & i1 & n1).
  assert (Hctx1 : ctx s1).
  { destruct (stage_1_ctx _ _ _ E1) as [A B]. split; [rewrite A; reflexivity|]. split; [rewrite B; reflexivity|].
    rewrite p1, c1. reflexivity. }
  assert (Hd1 : cs_depth s1 = [0%Z]).
  { clear - E1. assert (Hg : forall fs sa sb, stage_1 fs sa = ROk tt sb -> cs_depth sb = cs_depth sa).
    { induction fs as [|x r IH]; intros sa sb H; cbn [stage_1] in H; [injection H as <-; reflexivity|].
      apply bind_ok in H. destruct H as ([] & sx & Hx & Hr). rewrite (IH _ _ Hr).
      unfold add_function, bind, get in Hx. destruct (sm_find _ _); [discriminate|]. injection Hx as <-. reflexivity. }
    rewrite (Hg _ _ _ E1). reflexivity. }
  assert (Hjb1 : jb FT (cs_jump s1) = true).
  { exact (stage_1_jb ((s_main, f) :: others) 0%nat 0 std s0 s1 E1). }
  assert (Hst1 : fst9 FT s1).
  { split; [exact Hctx1|]. split; [exists []; exact Hd1 | exact Hjb1]. }
  assert (Hsg : forall nm k, sm_find nm (sig_of others) = Some k -> exists h ar, sm_find nm FT = Some (h, ar)).
  { intros nm k Hk. unfold FT, ftab_of, M. cbn [m_functions ftab_from sm_find].
    destruct (str_eqb nm s_main); [eauto | apply (sig_ftab _ _ _ _ Hk)]. }
  destruct (main9_shape FT (sig_of others) f s1 s2 Hsg Ha Hcards Hst1 ltac:(rewrite p1; reflexivity) E2)
    as (Hst2 & S12 & N2 & C2).
  destruct (others9_shape FT others _ _ s2 su Hsg Hfns Hst2 Eu) as (Hstu & S2u & Nu & Cu).
  assert (Gu : G [] [] su).
  { assert (S : sp3 [] [] (stage_1 FS ;; (compile_main fm ;; compile_others US)) (fun _ => True)).
    { eapply sp3_bind; [apply sp3_frame, frame3_stage_1 | intros _ _].
      eapply sp3_bind; [apply sp3_compile_main | intros _ _; apply sp3_compile_others]. }
    specialize (S s0 (G_init _)). unfold bind in S. rewrite E1, E2, Eu in S. apply S. }
  assert (Gs : G (cs_code su) (cs_ids su) s).
  { assert (Gu' : G (cs_code su) (cs_ids su) su).
    { apply G_here; [apply (g_pc _ _ _ Gu)|]. intros Hl. destruct (g_ids _ _ _ Gu Hl) as [I1 I2 I3 _]. auto. }
    pose proof (sp3_after_main (cs_code su) (cs_ids su) std su Gu') as S. rewrite Eafter in S. apply S. }
  destruct (g_ids _ _ _ Gs Hlen) as [Inv Ilt Iinj Iext].
  destruct (g_code _ _ _ Gs) as [l El].
  assert (Hsub : sub (cs_ids su) (cs_ids s)) by exact Iext.
  assert (Hsub2 : sub (cs_ids s2) (cs_ids s)) by (eapply sub_trans; [exact (proj1 S2u) | exact Hsub]).
  assert (Hnames : forall n, In n (gnames9 M) -> named su n).
  { intros n Hin. unfold gnames9, M in Hin. cbn [m_functions flat_map snd] in Hin.
    apply in_app_or in Hin. destruct Hin as [Hin|Hin]; [|auto].
    eapply named_sub2; [apply N2, Hin | exact S2u]. }
  exists (rev l). split; [|split; [|split; [|split]]].
  - f_equal. rewrite El, (Cu _ Hsub), (C2 _ Hsub2), c1. cbn [s0 init_state cs_code].
    assert (Hpc2 : cs_pc s2 = bytes (code_main9 (cs_ids s) FT (f_cards f))).
    { destruct Hst2 as ((_ & _ & Hp2) & _). rewrite Hp2, (C2 _ Hsub2), c1. cbn [s0 init_state cs_code].
      rewrite app_nil_r, bytes_rev. reflexivity. }
    rewrite Hpc2. unfold code_all9. cbn [M main_fn other_fns]. fold M. fold FT.
    rewrite app_nil_r, !rev_app_distr, !rev_involutive. reflexivity.
  - intros n Hin. pose proof (named_found _ _ (Hnames n Hin)) as Hnf.
    destruct (nm_find (handle_of_bytes n) (cs_ids su)) as [id|] eqn:En; [|congruence].
    rewrite (Hsub _ _ En). discriminate.
  - exact Iinj.
  - intros h id Hf. specialize (Ilt _ _ Hf). rewrite Inv in Ilt. lia.
  - apply (named_inj su _ eq_refl Hnames).
Qed.

(* ------------------------------------------------------------------ towards the labels *)
Lemma firs9_app a : forall i n b,
  firs9 i n (a ++ b) = firs9 i n a ++ firs9 (i + length a) (n + N.of_nat (length a)) b.
Proof.
  induction a as [|[nm f] r IH]; intros i n b; cbn [app firs9 length].
  - rewrite Nat.add_0_r, N.add_0_r. reflexivity.
  - rewrite IH. cbn [app]. do 2 f_equal.
    replace (S i + length r)%nat with (i + S (length r))%nat by lia.
    replace (n + 1 + N.of_nat (length r)) with (n + N.of_nat (S (length r))) by lia. reflexivity.
Qed.

Lemma code_fns9_app T FT a : forall base b,
  code_fns9 T FT base (a ++ b) =
  code_fns9 T FT base a ++ code_fns9 T FT (base + bytes (code_fns9 T FT base a)) b.
Proof.
  induction a as [|[nm f] r IH]; intros base b; cbn [app code_fns9].
  - cbn [bytes]. rewrite N.add_0_r. reflexivity.
  - rewrite IH, <- app_assoc. do 2 f_equal. rewrite bytes_app. f_equal. lia.
Qed.

(* others9_shape for a prefix of the list of functions: the later ones are [r ++ tail] *)
Lemma others9_shape_gen FT tail others : forall i n s s',
  (forall nm k, sm_find nm (sig_of (others ++ tail)) = Some k -> exists h ar, sm_find nm FT = Some (h, ar)) ->
  fns_ok9 (others ++ tail) = true -> fst9 FT s ->
  compile_others (firs9 i n others) s = ROk tt s' ->
  fst9 FT s' /\ sub2 s s' /\
  (forall T, sub (cs_ids s') T -> cs_code s' = rev (code_fns9 T FT (cs_pc s) others) ++ cs_code s).
Proof.
  induction others as [|[nm f] r IH]; intros i n s s' Hsg Hok Hst E.
  - cbn [firs9 compile_others] in E. injection E as <-.
    split; [exact Hst|]. split; [apply sub2_refl|]. intros T _. reflexivity.
  - cbn [firs9 compile_others] in E. apply bind_ok in E. destruct E as ([] & s1 & E1 & E2).
    cbn [app fns_ok9] in Hok. apply andb_true_iff in Hok. destruct Hok as [Hf Hr].
    unfold fn_ok9 in Hf. apply andb_true_iff in Hf. destruct Hf as [_ Hcards].
    assert (Hsg_r : forall x k, sm_find x (sig_of (r ++ tail)) = Some k -> exists h ar, sm_find x FT = Some (h, ar)).
    { intros x k Hx. destruct (str_eqb x nm) eqn:Ex.
      - apply (Hsg x (length (f_args f))). cbn [app sig_of map fst snd sm_find]. rewrite Ex. reflexivity.
      - apply (Hsg x k). cbn [app sig_of map fst snd sm_find]. rewrite Ex. exact Hx. }
    destruct (other9_shape FT (sig_of (r ++ tail)) Hsg_r i n nm f s s1 Hcards Hst E1) as (Hst1 & S1 & N1 & C1).
    destruct (IH (S i) (n + 1) s1 s' Hsg_r Hr Hst1 E2) as (Hst2 & S2 & C2).
    split; [exact Hst2|]. split; [eapply sub2_trans; eauto|].
    intros T HT. pose proof (sub_trans _ _ _ (proj1 S2) HT) as HT1.
    rewrite (C2 T HT). pose proof (C1 T HT1) as Hc1.
    assert (Hpc1 : cs_pc s1 = cs_pc s + bytes (code_fn9 T FT (cs_pc s) f)).
    { destruct Hst1 as ((_ & _ & Hp1) & _). destruct Hst as ((_ & _ & Hp0) & _).
      rewrite Hp1, Hc1, bytes_app, bytes_rev, <- Hp0. lia. }
    rewrite Hpc1, Hc1. cbn [code_fns9]. rewrite rev_app_distr, app_assoc. reflexivity.
Qed.

Lemma fns_ok9_suffix pre : forall suf, fns_ok9 (pre ++ suf) = true -> fns_ok9 suf = true.
Proof.
  induction pre as [|[n f] r IH]; intros suf H; [exact H|].
  cbn [app fns_ok9] in H. apply andb_true_iff in H. apply IH, H.
Qed.

Lemma sig_suffix pre : forall suf x k, sm_find x (sig_of suf) = Some k ->
  exists k', sm_find x (sig_of (pre ++ suf)) = Some k'.
Proof.
  induction pre as [|[n f] r IH]; intros suf x k H; [eauto|].
  cbn [app sig_of map fst snd sm_find]. destruct (str_eqb x n); [eauto|]. apply (IH _ _ _ H).
Qed.

(* ------------------------------------------------------------------ the compiled program: labels *)
Theorem compile_f9_labels M B :
  in_f9 M = true -> compile M default_options = COk B ->
  N.of_nat (length (p_ids B)) < two32 ->
  CompilerLabels.label_keys_distinct_module M 64 = true ->
  labels_ok9 (p_labels B) 1 (bases_all9 (p_ids B) M).
Proof.
  intros HM HB Hlen Hdist. destruct M as [subs funs imps]. cbn [in_f9] in HM.
  destruct subs; [|discriminate]. destruct funs as [|[name f] others]; [discriminate|].
  destruct imps; [|discriminate].
  apply andb_true_iff in HM. destruct HM as [HM Hfns]. apply andb_true_iff in HM. destruct HM as [HM Hcards].
  apply andb_true_iff in HM. destruct HM as [HM _]. apply andb_true_iff in HM. destruct HM as [Hname Hargs].
  apply str_eqb_main in Hname. subst name.
  assert (Ha : f_args f = []) by (destruct (f_args f); [reflexivity | discriminate]).
  destruct (compile_ok_inv _ _ _ HB) as (fs & s & Hfs & E & ->).
  change (o_recursion_limit default_options) with 64 in Hfs.
  unfold CompilerLabels.label_keys_distinct_module in Hdist. rewrite Hfs in Hdist.
  destruct (ir_stream9 _ _ _ Hfs) as (std & ->).
  set (M := Module [] ((s_main, f) :: others) []) in *.
  set (FT := ftab_of M).
  cbn [finish p_ids p_labels] in *.
  set (s0 := init_state (o_debug default_options)) in *.
  pose proof E as Ecomp.
  cbn [firs9 app] in E. set (fm := fir9 0 0 s_main f) in *.
  unfold compile_ir in E.
  apply bind_ok in E. destruct E as ([] & s1 & E1 & E).
  apply bind_ok in E. destruct E as ([] & s3 & E23 & E4).
  cbn [stage_2] in E23. apply bind_ok in E23. destruct E23 as ([] & s2 & E2 & E3).
  rewrite CompilerLabels.compile_others_app in E3. apply bind_ok in E3. destruct E3 as ([] & su & Eu & Estd).
  assert (Eafter : after_main std su = ROk tt s).
  { unfold after_main, bind. rewrite Estd. exact E4. }
  match type of E1 with stage_1 ?l _ = _ => set (FS := l) in * end.
  pose proof (frame3_stage_1 FS s0) as F1. rewrite E1 in F1.
  destruct F1 as (c1 & p1 & i1 & n1).
  assert (Hctx1 : ctx s1).
  { destruct (stage_1_ctx _ _ _ E1) as [A B]. split; [rewrite A; reflexivity|]. split; [rewrite B; reflexivity|].
    rewrite p1, c1. reflexivity. }
  assert (Hd1 : cs_depth s1 = [0%Z]).
  { clear - E1. assert (Hg : forall fs sa sb, stage_1 fs sa = ROk tt sb -> cs_depth sb = cs_depth sa).
    { induction fs as [|x r IH]; intros sa sb H; cbn [stage_1] in H; [injection H as <-; reflexivity|].
      apply bind_ok in H. destruct H as ([] & sx & Hx & Hr). rewrite (IH _ _ Hr).
      unfold add_function, bind, get in Hx. destruct (sm_find _ _); [discriminate|]. injection Hx as <-. reflexivity. }
    rewrite (Hg _ _ _ E1). reflexivity. }
  assert (Hjb1 : jb FT (cs_jump s1) = true).
  { exact (stage_1_jb ((s_main, f) :: others) 0%nat 0 std s0 s1 E1). }
  assert (Hst1 : fst9 FT s1).
  { split; [exact Hctx1|]. split; [exists []; exact Hd1 | exact Hjb1]. }
  assert (Hsg : forall nm k, sm_find nm (sig_of others) = Some k -> exists h ar, sm_find nm FT = Some (h, ar)).
  { intros nm k Hk. unfold FT, ftab_of, M. cbn [m_functions ftab_from sm_find].
    destruct (str_eqb nm s_main); [eauto | apply (sig_ftab _ _ _ _ Hk)]. }
  destruct (main9_shape FT (sig_of others) f s1 s2 Hsg Ha Hcards Hst1 ltac:(rewrite p1; reflexivity) E2)
    as (Hst2 & S12 & N2 & C2).
  destruct (others9_shape FT others _ _ s2 su Hsg Hfns Hst2 Eu) as (Hstu & S2u & Nu & Cu).
  assert (Gu : G [] [] su).
  { assert (S : sp3 [] [] (stage_1 FS ;; (compile_main fm ;; compile_others (firs9 1 (0 + 1) others))) (fun _ => True)).
    { eapply sp3_bind; [apply sp3_frame, frame3_stage_1 | intros _ _].
      eapply sp3_bind; [apply sp3_compile_main | intros _ _; apply sp3_compile_others]. }
    specialize (S s0 (G_init _)). unfold bind in S. rewrite E1, E2, Eu in S. apply S. }
  assert (Gs : G (cs_code su) (cs_ids su) s).
  { assert (Gu' : G (cs_code su) (cs_ids su) su).
    { apply G_here; [apply (g_pc _ _ _ Gu)|]. intros Hl. destruct (g_ids _ _ _ Gu Hl) as [I1 I2 I3 _]. auto. }
    pose proof (sp3_after_main (cs_code su) (cs_ids su) std su Gu') as S. rewrite Eafter in S. apply S. }
  destruct (g_ids _ _ _ Gs Hlen) as [Inv Ilt Iinj Iext].
  assert (Hsub : sub (cs_ids su) (cs_ids s)) by exact Iext.
  assert (Hsub2 : sub (cs_ids s2) (cs_ids s)) by (eapply sub_trans; [exact (proj1 S2u) | exact Hsub]).
  set (T := cs_ids s) in *.
  set (cm := code_main9 T FT (f_cards f)).
  assert (Hcode2 : cs_code s2 = rev cm).
  { rewrite (C2 _ Hsub2), c1. cbn [s0 init_state cs_code]. rewrite app_nil_r. reflexivity. }
  assert (Hpc2 : cs_pc s2 = bytes cm).
  { destruct Hst2 as ((_ & _ & Hp2) & _). rewrite Hp2, Hcode2, bytes_rev. reflexivity. }
  assert (Hlab : forall post pre, others = pre ++ post ->
            labels_ok9 (cs_labels s) (1 + N.of_nat (length pre))
              (bases9 T FT (bytes cm + bytes (code_fns9 T FT (bytes cm) pre)) post)).
  { induction post as [|[nm g] post IHp]; intros pre Ho; [exact I|].
    cbn [bases9 labels_ok9]. split.
    - eassert (Hsplit : firs9 0 0 ((s_main, f) :: others) ++ std = (fm :: firs9 1 (0 + 1) pre) ++ _ :: _).
      { rewrite Ho. cbn [firs9]. rewrite firs9_app. cbn [firs9 app]. rewrite <- app_assoc. cbn [app]. reflexivity. }
      destruct (CompilerLabels.label_points_to_body _ _ s _ _ _ Hsplit ltac:(discriminate) Ecomp Hdist)
        as (s1' & s2' & body & rest & Hrun & _ & _ & _ & _ & Hl).
      apply bind_ok in Hrun. destruct Hrun as ([] & sx & Hx & Hrun).
      change (stage_1 FS s0 = ROk tt sx) in Hx. rewrite E1 in Hx. injection Hx as <-.
      cbn [stage_2] in Hrun. apply bind_ok in Hrun. destruct Hrun as ([] & sy & Hy & Hrun).
      rewrite E2 in Hy. injection Hy as <-.
      cbn [fir9 fi_handle] in Hl. change (0 + 1) with 1 in Hl. rewrite Hl. f_equal.
      assert (Hsg' : forall x k, sm_find x (sig_of (pre ++ (nm, g) :: post)) = Some k ->
                                 exists h ar, sm_find x FT = Some (h, ar)) by (rewrite <- Ho; exact Hsg).
      assert (Hfns' : fns_ok9 (pre ++ (nm, g) :: post) = true) by (rewrite <- Ho; exact Hfns).
      destruct (others9_shape_gen FT ((nm, g) :: post) pre _ _ s2 s1' Hsg' Hfns' Hst2 Hrun) as (Hst1' & S1' & C1').
      pose proof Eu as Eu'. rewrite Ho, firs9_app, CompilerLabels.compile_others_app in Eu'.
      apply bind_ok in Eu'. destruct Eu' as ([] & sz & Ez & Erest).
      rewrite Hrun in Ez. injection Ez as <-.
      assert (Hsg'' : forall x k, sm_find x (sig_of (((nm, g) :: post) ++ [])) = Some k ->
                                  exists h ar, sm_find x FT = Some (h, ar)).
      { rewrite app_nil_r. intros x k Hx. destruct (sig_suffix pre _ x k Hx) as [k' Hk'].
        rewrite <- Ho in Hk'. exact (Hsg x k' Hk'). }
      assert (Hfns'' : fns_ok9 (((nm, g) :: post) ++ []) = true).
      { rewrite app_nil_r. apply (fns_ok9_suffix pre). rewrite <- Ho. exact Hfns. }
      destruct (others9_shape_gen FT [] ((nm, g) :: post) _ _ s1' su Hsg'' Hfns'' Hst1' Erest) as (_ & S' & _).
      assert (HT : sub (cs_ids s1') T) by (eapply sub_trans; [exact (proj1 S') | exact Hsub]).
      destruct Hst1' as ((_ & _ & Hp1') & _).
      rewrite Hp1', (C1' T HT), Hpc2, Hcode2, bytes_app, !bytes_rev. lia.
    - specialize (IHp (pre ++ [(nm, g)])). rewrite <- app_assoc in IHp. specialize (IHp Ho).
      rewrite app_length, code_fns9_app in IHp. cbn [length code_fns9] in IHp.
      rewrite app_nil_r, bytes_app, N.add_assoc in IHp.
      replace (1 + N.of_nat (length pre) + 1) with (1 + N.of_nat (length pre + 1)) by lia. exact IHp. }
  pose proof (Hlab others [] eq_refl) as H. cbn [length code_fns9 bytes] in H.
  change (N.of_nat 0) with 0 in H. rewrite !N.add_0_r in H. exact H.
Qed.
