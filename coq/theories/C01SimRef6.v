(* C01, simulation, reference half for fragment F6r (Repeat without a loop variable).
   The expression part is generic in the environment: [lk en cells R] says that the names of the local
   store R (entries named "" are the hidden locals of the compiler and are never looked up) resolve
   in [en] to cells holding their values. *)
From Coq Require Import List NArith ZArith Bool Lia.
From Cao Require Import CheckUtil Bits CardAst Table TableProofs StdlibGen RefSem
     C01SimDefs C01SimRef C01SimDefs2 C01SimRef2 C01SimDefs3 C01SimRef3 C01SimDefs4 C01SimDefs5 C01SimRef5 C01SimDefs6.
Import ListNotations.

Definition lk (en : env) (cells : list value) (R : lstore) : Prop :=
  forall n, is_empty n = false ->
    match assoc n R with
    | Some v => exists c, lookup_var en n = Some c /\ nth_error cells c = Some v
    | None => lookup_var en n = None
    end.

Definition st6 (en : env) (cl : list value) (s : state) (R : lstore) (g : gl) : Prop :=
  st_heap s = [] /\ st_globals s = g /\ lk en (st_cells s) R /\ simples (R ++ g) /\ st_cells s = cl.

Lemma st6_bump en cl s R g : st6 en cl s R g -> st6 en cl (bump s) R g.
Proof. unfold st6. cbn. tauto. Qed.

(* ---- more fuel does not change a result of the direct evaluator ---- *)
Lemma runs6_mono_from n m (Hrun : forall R g c r, run6 n R g c = Some r -> run6 m R g c = Some r) :
  forall l R g r, runs6 n R g l = Some r -> runs6 m R g l = Some r.
Proof.
  induction l as [|x l IH]; intros R g r H; cbn [runs6] in *; [exact H|].
  destruct (run6 n R g x) as [[[[|] R1] g1]|] eqn:E; try discriminate.
  - rewrite (Hrun _ _ _ _ E). apply IH, H.
  - rewrite (Hrun _ _ _ _ E). exact H.
Qed.

Lemma run_rep6_mono n : forall m, (n <= m)%nat ->
  (forall R g c r, run6 n R g c = Some r -> run6 m R g c = Some r) /\
  (forall nv k R g b r, rep6 n nv k R g b = Some r -> rep6 m nv k R g b = Some r).
Proof.
  induction n as [|n IH]; intros m Hle; [split; intros; discriminate|].
  destruct m as [|m]; [lia|]. assert (Hle' : (n <= m)%nat) by lia.
  destruct (IH m Hle') as [IH' IHr]. split.
  2:{ intros nv k R g b r H. cbn [rep6] in *. destruct (v_cmp [] (VInt k) nv) as [[[| |]|]|]; try exact H.
      destruct (run6 n (([], VInt k) :: ([], nv) :: R) g b) as [[[[|] R1] g1]|] eqn:E; try discriminate;
        rewrite (IH' _ _ _ _ E); [apply IHr|]; exact H. }
  intros R g c r H.
  destruct c; try exact H.
  - (* CBin *)
    destruct op; try exact H; cbn [run6] in *; destruct (ev (R ++ g) c1) as [v|]; try exact H;
      destruct (v_bool [] v); try exact H; try (apply IH'; exact H).
    destruct (run6 n R g c2) as [[[[|] R1] g1]|] eqn:E; try discriminate; rewrite (IH' _ _ _ _ E); [apply IH'|]; exact H.
  - (* CTri *)
    destruct op; try exact H. cbn [run6] in *. destruct (ev (R ++ g) c1) as [v|]; try exact H.
    destruct (v_bool [] v); apply IH'; exact H.
  - (* Repeat *)
    destruct i; try exact H. cbn [run6] in *. destruct (ev (R ++ g) c1) as [nv|]; [|exact H]. apply IHr, H.
  - (* Composite *)
    rewrite run6_composite in *. eapply runs6_mono_from; eauto.
Qed.

Lemma run6_mono n m R g c r : run6 n R g c = Some r -> (n <= m)%nat -> run6 m R g c = Some r.
Proof. intros H Hle. apply (proj1 (run_rep6_mono n m Hle)), H. Qed.
Lemma rep6_mono n m nv k R g b r : rep6 n nv k R g b = Some r -> (n <= m)%nat -> rep6 m nv k R g b = Some r.
Proof. intros H Hle. apply (proj2 (run_rep6_mono n m Hle)), H. Qed.

Lemma runs6_mono n m l R g r : runs6 n R g l = Some r -> (n <= m)%nat -> runs6 m R g l = Some r.
Proof. intros H Hle. eapply runs6_mono_from; [|exact H]. intros; eapply run6_mono; eauto. Qed.


Section Eval.
Variable P : list fentry.
Variable host : list str.
Variable limit : N.
Variable fi : nat.

Notation evalf := (eval P host limit).

Definition expr_res6 (r : res) (en : env) (cl : list value) (R : lstore) (g : gl) (e : card) : Prop :=
  r = RFuel \/
  (exists v s', r = ok [v] en s' /\ ev (R ++ g) e = Some v /\ st6 en cl s' R g) \/
  (exists s', r = err EVarNotFound en s' /\ ev (R ++ g) e = None /\ st6 en cl s' R g).

Definition args_res6 (r : res) (en : env) (cl : list value) (R : lstore) (g : gl) (es : list card) : Prop :=
  r = RFuel \/
  (exists vs s', r = ok vs en s' /\ evs (R ++ g) es = Some vs /\ st6 en cl s' R g) \/
  (exists s', r = err EVarNotFound en s' /\ evs (R ++ g) es = None /\ st6 en cl s' R g).

Definition expr_good6 (e : card) : Prop :=
  forall fuel s en cl R g, st6 en cl s R g -> expr_res6 (evalf fuel (TkCard fi en e) s) en cl R g e.

Lemma eval_args6 es : Forall expr_good6 es -> forall fuel s en cl R g, st6 en cl s R g ->
  args_res6 (evalf fuel (TkArgs false fi en es) s) en cl R g es.
Proof.
  induction 1 as [|e r He _ IH]; intros fuel s en cl R g Hs.
  - destruct fuel as [|f]; [left; reflexivity|]. cbn [eval]. unfold F.
    destruct (limit <? st_steps s)%N; [left; reflexivity|]. right; left.
    exists [], (bump s). split; [reflexivity|]. split; [reflexivity | apply st6_bump, Hs].
  - destruct fuel as [|f]; [left; reflexivity|]. cbn [eval]. unfold F.
    destruct (limit <? st_steps s)%N; [left; reflexivity|].
    pose proof (He f (bump s) en cl R g (st6_bump _ _ _ _ _ Hs)) as [E|[(v & s1 & E & Hv & Hs1)|(s1 & E & Hv & Hs1)]];
      rewrite E; cbn [bnd ok err].
    + left; reflexivity.
    + pose proof (IH f s1 en cl R g Hs1) as [E2|[(vs & s2 & E2 & Hvs & Hs2)|(s2 & E2 & Hvs & Hs2)]];
        rewrite E2; cbn [bnd ok err].
      * left; reflexivity.
      * right; left. exists (v :: vs), s2. cbn [evs]. rewrite Hv, Hvs. auto.
      * right; right. exists s2. cbn [evs]. rewrite Hv, Hvs. auto.
    + right; right. exists s1. cbn [evs]. rewrite Hv. auto.
Qed.

Lemma eval_card_binop6 rec en op a b s :
  op_f1 op = true ->
  eval_card P rec fi en (CBin op a b) s =
  bnd (rec (TkArgs false fi en [a; b]) s) (fun vs e1 s1 => two vs (fun x y => binop_value op s1 e1 x y)).
Proof. destruct op; intros H; try discriminate H; reflexivity. Qed.

Lemma expr_f1_good6 e : expr_f1 e = true -> expr_good6 e.
Proof.
  induction e; intros He; cbn [expr_f1] in He; try discriminate He; intros fuel s en cl R g Hs;
    (destruct fuel as [|f]; [left; reflexivity|]); cbn [eval]; unfold F;
    (destruct (limit <? st_steps s)%N; [left; reflexivity|]);
    pose proof (st6_bump _ _ _ _ _ Hs) as Hb; cbn [F].
  - (* CBin *)
    apply andb_true_iff in He. destruct He as [He He2]. apply andb_true_iff in He. destruct He as [Hop He1].
    rewrite eval_card_binop6 by exact Hop.
    assert (Hgood : Forall expr_good6 [e1; e2]) by (apply Forall_cons; [auto | apply Forall_cons; [auto | apply Forall_nil]]).
    pose proof (eval_args6 _ Hgood f (bump s) en cl R g Hb) as [E|[(vs & s1 & E & Hv & Hs1)|(s1 & E & Hv & Hs1)]];
      rewrite E; cbn [bnd ok err evs] in *.
    + left; reflexivity.
    + destruct (ev (R ++ g) e1) as [x|] eqn:E1; [|discriminate].
      destruct (ev (R ++ g) e2) as [y|] eqn:E2; [|discriminate]. injection Hv as <-.
      cbn [two]. destruct Hs1 as (Hh & Hg & Hc & Hsim & Hcl).
      rewrite binop_value_simple; auto; [|eapply ev_simple; eauto|eapply ev_simple; eauto].
      right; left. exists (binval op x y), s1. cbn [ev]. rewrite E1, E2. repeat split; auto.
    + right; right. exists s1. cbn [ev].
      destruct (ev (R ++ g) e1) as [x|]; [|auto]. destruct (ev (R ++ g) e2) as [y|]; [discriminate|auto].
  - (* CUn *)
    destruct op; try discriminate He. cbn [eval_card].
    assert (Hgood : Forall expr_good6 [e]) by (apply Forall_cons; [auto | apply Forall_nil]).
    pose proof (eval_args6 _ Hgood f (bump s) en cl R g Hb) as [E|[(vs & s1 & E & Hv & Hs1)|(s1 & E & Hv & Hs1)]];
      rewrite E; cbn [bnd ok err evs] in *.
    + left; reflexivity.
    + destruct (ev (R ++ g) e) as [x|] eqn:E1; [|discriminate]. injection Hv as <-. cbn [one].
      destruct Hs1 as (Hh & Hg & Hc & Hsim & Hcl). rewrite Hh.
      right; left. eexists _, s1. cbn [ev]. rewrite E1. repeat split; auto.
    + right; right. exists s1. cbn [ev]. destruct (ev (R ++ g) e); [discriminate|auto].
  - right; left. exists VNil, (bump s). cbn. auto.
  - right; left. exists (VInt i), (bump s). cbn. auto.
  - (* CReadVar *)
    unfold var_ok in He. apply andb_true_iff in He. destruct He as [Hne Hdot].
    apply negb_true_iff in Hne, Hdot.
    cbn [eval_card]. unfold read_var. rewrite (split_no_dot _ Hdot).
    assert (Hne' : is_empty name = false) by (destruct name; [discriminate Hne | reflexivity]).
    rewrite Hne'. unfold expr_res6. cbn [ev]. rewrite assoc_app. destruct Hb as (Hbh & Hbg & Hbl & Hbs & Hbc).
    pose proof (Hbl name Hne') as Hl.
    destruct (assoc name R) as [v|] eqn:Ea.
    + destruct Hl as (c & A & B). rewrite A, B. cbn [get_props]. right; left. exists v, (bump s). repeat split; auto.
    + rewrite Hl, Hbg.
      destruct (assoc name g) as [x|] eqn:Eg; cbn [get_props].
      * right; left. exists x, (bump s). repeat split; auto.
      * right; right. exists (bump s). repeat split; auto.
Qed.

(* the condition of a conditional or a loop *)
Lemma eval_cond6 e : expr_f1 e = true -> forall fuel s en cl R g, st6 en cl s R g ->
  let r := evalf fuel (TkArgs false fi en [e]) s in
  r = RFuel \/
  (exists v s', r = ok [v] en s' /\ ev (R ++ g) e = Some v /\ simple v /\ st6 en cl s' R g) \/
  (exists s', r = err EVarNotFound en s' /\ ev (R ++ g) e = None /\ st6 en cl s' R g).
Proof.
  intros He fuel s en cl R g Hs r.
  assert (Hgood : Forall expr_good6 [e]) by (apply Forall_cons; [apply expr_f1_good6, He | apply Forall_nil]).
  pose proof (eval_args6 _ Hgood fuel s en cl R g Hs) as [E|[(vs & s1 & E & Hv & Hs1)|(s1 & E & Hv & Hs1)]].
  - left. exact E.
  - right; left. cbn [evs] in Hv. destruct (ev (R ++ g) e) as [x|] eqn:E1; [|discriminate]. injection Hv as <-.
    exists x, s1. split; [exact E|]. split; [reflexivity|]. split; [|exact Hs1].
    destruct Hs as (_ & _ & _ & Hsim & _). eapply ev_simple; eauto.
  - right; right. cbn [evs] in Hv. exists s1. destruct (ev (R ++ g) e); [discriminate|]. auto.
Qed.



(* ------------------------------------------------------------------ the concrete environments *)
Definition vis (R : lstore) : lstore := filter (fun nv => negb (is_empty (fst nv))) R.
Definition envK (k : nat) (R : lstore) : env := {| e_scopes := repeat [] k ++ [scope_of (vis R)]; e_up := [] |}.
Definition stK (k : nat) (s : state) (R : lstore) (g : gl) : Prop := st6 (envK k R) (cells_of (vis R)) s R g.

Lemma str_eqb_nil n : is_empty n = false -> str_eqb n [] = false.
Proof. destruct n; [discriminate | reflexivity]. Qed.

Lemma assoc_vis n R : is_empty n = false -> assoc n (vis R) = assoc n R.
Proof.
  intros Hn. induction R as [|[x v] r IH]; [reflexivity|]. cbn [vis filter fst assoc].
  destruct x as [|x0 xr]; cbn [is_empty negb].
  - rewrite (str_eqb_nil _ Hn). exact IH.
  - cbn [assoc]. destruct (str_eqb n (x0 :: xr)); [reflexivity | exact IH].
Qed.

Lemma lookup_rep n k sc : lookup_scopes n (repeat [] k ++ [sc]) = match assoc n sc with Some c => Some c | None => None end.
Proof. induction k as [|k IH]; cbn [repeat app lookup_scopes assoc]; [destruct (assoc n sc); reflexivity | exact IH]. Qed.

Lemma lk_envK k R : lk (envK k R) (cells_of (vis R)) R.
Proof.
  intros n Hn. unfold lookup_var, envK. cbn [e_scopes e_up lookup_scopes]. rewrite lookup_rep, <- (assoc_vis n R Hn).
  destruct (assoc n (vis R)) as [v|] eqn:E.
  - destruct (scope_some _ _ _ E) as (c & A & B & _). rewrite A. cbn [orelse]. eauto.
  - rewrite (scope_none _ _ E). reflexivity.
Qed.

Lemma stK_intro k s R g :
  st_heap s = [] -> st_globals s = g -> st_cells s = cells_of (vis R) -> simples (R ++ g) -> stK k s R g.
Proof. intros A B C D. unfold stK, st6. rewrite C. repeat split; auto. apply lk_envK. Qed.

Lemma stK_elim k s R g : stK k s R g ->
  st_heap s = [] /\ st_globals s = g /\ st_cells s = cells_of (vis R) /\ simples (R ++ g).
Proof. intros (A & B & _ & D & E). auto. Qed.

Lemma stK_bump k s R g : stK k s R g -> stK k (bump s) R g.
Proof. apply st6_bump. Qed.

Lemma lmem_some6 n (R : lstore) : lmem n (map fst R) = true -> exists v, assoc n R = Some v.
Proof. rewrite lmem_assoc. destruct (assoc n R); [eauto | discriminate]. Qed.

Lemma vis_set_assoc n w R old : is_empty n = false -> assoc n R = Some old ->
  vis (set_assoc n w R) = set_assoc n w (vis R) /\ map fst (set_assoc n w R) = map fst R.
Proof.
  intros Hn. induction R as [|[x v] r IH]; cbn [assoc set_assoc]; [discriminate|].
  destruct x as [|x0 xr].
  - rewrite (str_eqb_nil _ Hn). intros H. destruct (IH H) as [A B]. cbn [vis filter fst is_empty negb map].
    fold (vis (set_assoc n w r)). fold (vis r). rewrite A, B. split; reflexivity.
  - destruct (str_eqb n (x0 :: xr)) eqn:E.
    + intros _. cbn [vis filter fst is_empty negb set_assoc map]. rewrite E. split; reflexivity.
    + intros H. destruct (IH H) as [A B]. cbn [vis filter fst is_empty negb set_assoc map]. rewrite E.
      fold (vis (set_assoc n w r)). fold (vis r). rewrite A, B. split; reflexivity.
Qed.

(* assigning a local that exists *)
Lemma stK_assign k s R g n w :
  is_empty n = false -> lmem n (map fst R) = true -> simple w -> stK k s R g ->
  exists c, lookup_var (envK k R) n = Some c /\
            envK k (set_assoc n w R) = envK k R /\
            stK k (set_cells (upd (st_cells s) c w) s) (set_assoc n w R) g /\
            map fst (set_assoc n w R) = map fst R.
Proof.
  intros Hn Hm Hw Hs. destruct (stK_elim _ _ _ _ Hs) as (Hh & Hg & Hc & Hsim).
  destruct (lmem_some6 _ _ Hm) as [old Eo].
  destruct (vis_set_assoc n w R old Hn Eo) as [Hv Hf].
  pose proof Eo as Eo'. rewrite <- (assoc_vis n R Hn) in Eo'.
  destruct (scope_some _ _ _ Eo') as (c & A & B & C).
  destruct (set_assoc_present n w (vis R) old Eo') as [_ Hsc].
  exists c. split.
  { unfold lookup_var, envK. cbn [e_scopes e_up lookup_scopes]. rewrite lookup_rep, A. reflexivity. }
  assert (Hen : envK k (set_assoc n w R) = envK k R) by (unfold envK; rewrite Hv, Hsc; reflexivity).
  split; [exact Hen|]. split; [|exact Hf].
  apply stK_intro; cbn [set_cells st_heap st_globals st_cells]; auto.
  - rewrite Hc, C, Hv. reflexivity.
  - apply simples_app in Hsim. destruct Hsim as [S1 S2]. apply simples_app. split; [apply set_assoc_simple; assumption | exact S2].
Qed.

Lemma vis_names R R' : map fst R' = map fst R -> map fst (vis R') = map fst (vis R) /\ length (vis R') = length (vis R).
Proof.
  revert R'. induction R as [|[x v] r IH]; intros [|[x' v'] r'] H; try discriminate; [split; reflexivity|].
  cbn [map fst] in H. injection H as -> H. destruct (IH _ H) as [A B].
  cbn [vis filter fst]. destruct (negb (is_empty x)); cbn [map fst length]; fold (vis r) (vis r'); [rewrite A, B|]; auto.
Qed.
Lemma scope_of_names A B : map fst A = map fst B -> length A = length B -> scope_of A = scope_of B.
Proof.
  revert B. induction A as [|[x v] r IH]; intros [|[x' v'] r'] H L; try discriminate; [reflexivity|].
  cbn [map fst length] in *. injection H as -> H. injection L as L. cbn [scope_of]. rewrite L, (IH _ H L). reflexivity.
Qed.
Lemma envK_names k R R' : map fst R' = map fst R -> envK k R' = envK k R.
Proof. intros H. destruct (vis_names _ _ H) as [A B]. unfold envK. rewrite (scope_of_names _ _ A B). reflexivity. Qed.

(* ---- statements ---- *)
Definition top_res6 (k : nat) (R : lstore) (r : res) (run : nat -> option (bool * lstore * gl)) : Prop :=
  r = RFuel \/
  (exists n s' R' g', r = ok [] (envK k R) s' /\ run n = Some (true, R', g') /\ stK k s' R' g' /\ map fst R' = map fst R) \/
  (exists n s' e' R' g', r = err EVarNotFound e' s' /\ run n = Some (false, R', g') /\ stK k s' R' g' /\ map fst R' = map fst R).

Definition all6 (fuel : nat) : Prop :=
  (forall c s k R g, stmt6 (map fst R) c = true -> stK k s R g ->
     top_res6 k R (evalf fuel (TkCard fi (envK k R) c) s) (fun n => run6 n R g c)) /\
  (forall cs s k R g, forallb (stmt6 (map fst R)) cs = true -> stK k s R g ->
     top_res6 k R (evalf fuel (TkSeq fi (envK k R) cs) s) (fun n => runs6 n R g cs)) /\
  (forall e b s k R g, expr_f1 e = true -> stmt6 (map fst R) b = true -> stK k s R g ->
     top_res6 k R (evalf fuel (TkWhile fi (envK k R) e b) s) (fun n => run6 n R g (CBin BWhile e b))) /\
  (forall nv kk b s k R g, simple nv -> stmt6 ([] :: [] :: map fst R) b = true -> stK k s R g ->
     top_res6 k R (evalf fuel (TkRepeat fi (envK k R) None nv kk b) s) (fun n => rep6 n nv kk R g b)).

Lemma stK_names k s R R' g : map fst R' = map fst R -> stK k s R' g -> envK k R' = envK k R.
Proof. intros H _. apply envK_names, H. Qed.

Lemma eval6 fuel : all6 fuel.
Proof.
  induction fuel as [|f (IH1 & IH2 & IH3 & IH4)].
  { split; [|split; [|split]]; intros; left; reflexivity. }
  split; [|split; [|split]].
  - (* a statement *)
    intros c st k R g Hc Hs. unfold top_res6.
    destruct c; cbn [stmt6] in Hc; try discriminate Hc.
    + (* CBin *)
      destruct op; try discriminate Hc; apply andb_true_iff in Hc; destruct Hc as [He Hb];
        cbn [eval]; unfold F; (destruct (limit <? st_steps st)%N; [left; reflexivity|]);
        pose proof (stK_bump _ _ _ _ Hs) as Hbs; cbn [eval_card].
      * (* IfTrue *)
        pose proof (eval_cond6 _ He f (bump st) _ _ R g Hbs) as [E|[(v & s1 & E & Hv & Hsv & Hs1)|(s1 & E & Hv & Hs1)]];
          cbn zeta in E; rewrite E; cbn [bnd ok err one].
        -- left; reflexivity.
        -- destruct (stK_elim _ _ _ _ Hs1) as (Hh1 & _). rewrite Hh1. destruct (v_bool [] v) eqn:Eb.
           ++ destruct (IH1 c2 s1 k R g Hb Hs1) as [E2|[(n & s2 & R2 & g2 & E2 & Hr & Hs2 & Hl2)|(n & s2 & e2 & R2 & g2 & E2 & Hr & Hs2 & Hl2)]]; rewrite E2.
              ** left; reflexivity.
              ** right; left. exists (S n), s2, R2, g2. cbn [run6]. rewrite Hv, Eb. auto.
              ** right; right. exists (S n), s2, e2, R2, g2. cbn [run6]. rewrite Hv, Eb. auto.
           ++ right; left. exists 1%nat, s1, R, g. cbn [run6]. rewrite Hv, Eb. auto.
        -- right; right. exists 1%nat, s1, (envK k R), R, g. cbn [run6]. rewrite Hv. auto.
      * (* IfFalse *)
        pose proof (eval_cond6 _ He f (bump st) _ _ R g Hbs) as [E|[(v & s1 & E & Hv & Hsv & Hs1)|(s1 & E & Hv & Hs1)]];
          cbn zeta in E; rewrite E; cbn [bnd ok err one].
        -- left; reflexivity.
        -- destruct (stK_elim _ _ _ _ Hs1) as (Hh1 & _). rewrite Hh1. destruct (v_bool [] v) eqn:Eb.
           ++ right; left. exists 1%nat, s1, R, g. cbn [run6]. rewrite Hv, Eb. auto.
           ++ destruct (IH1 c2 s1 k R g Hb Hs1) as [E2|[(n & s2 & R2 & g2 & E2 & Hr & Hs2 & Hl2)|(n & s2 & e2 & R2 & g2 & E2 & Hr & Hs2 & Hl2)]]; rewrite E2.
              ** left; reflexivity.
              ** right; left. exists (S n), s2, R2, g2. cbn [run6]. rewrite Hv, Eb. auto.
              ** right; right. exists (S n), s2, e2, R2, g2. cbn [run6]. rewrite Hv, Eb. auto.
        -- right; right. exists 1%nat, s1, (envK k R), R, g. cbn [run6]. rewrite Hv. auto.
      * (* While *)
        destruct (IH3 c1 c2 (bump st) k R g He Hb Hbs) as [E|[(n & s2 & R2 & g2 & E2 & Hr & Hs2 & Hl2)|(n & s2 & e2 & R2 & g2 & E2 & Hr & Hs2 & Hl2)]].
        -- left; exact E.
        -- right; left. exists (S n), s2, R2, g2. split; [exact E2|]. split; [eapply run6_mono; [exact Hr | lia] | auto].
        -- right; right. exists (S n), s2, e2, R2, g2. split; [exact E2|]. split; [eapply run6_mono; [exact Hr | lia] | auto].
    + (* IfElse *)
      destruct op; try discriminate Hc. apply andb_true_iff in Hc. destruct Hc as [Hc Hb].
      apply andb_true_iff in Hc. destruct Hc as [He Ha].
      cbn [eval]; unfold F; (destruct (limit <? st_steps st)%N; [left; reflexivity|]).
      pose proof (stK_bump _ _ _ _ Hs) as Hbs; cbn [eval_card].
      pose proof (eval_cond6 _ He f (bump st) _ _ R g Hbs) as [E|[(v & s1 & E & Hv & Hsv & Hs1)|(s1 & E & Hv & Hs1)]];
        cbn zeta in E; rewrite E; cbn [bnd ok err one].
      * left; reflexivity.
      * destruct (stK_elim _ _ _ _ Hs1) as (Hh1 & _). rewrite Hh1. destruct (v_bool [] v) eqn:Eb.
        -- destruct (IH1 c2 s1 k R g Ha Hs1) as [E2|[(n & s2 & R2 & g2 & E2 & Hr & Hs2 & Hl2)|(n & s2 & e2 & R2 & g2 & E2 & Hr & Hs2 & Hl2)]]; rewrite E2.
           ++ left; reflexivity.
           ++ right; left. exists (S n), s2, R2, g2. cbn [run6]. rewrite Hv, Eb. auto.
           ++ right; right. exists (S n), s2, e2, R2, g2. cbn [run6]. rewrite Hv, Eb. auto.
        -- destruct (IH1 c3 s1 k R g Hb Hs1) as [E2|[(n & s2 & R2 & g2 & E2 & Hr & Hs2 & Hl2)|(n & s2 & e2 & R2 & g2 & E2 & Hr & Hs2 & Hl2)]]; rewrite E2.
           ++ left; reflexivity.
           ++ right; left. exists (S n), s2, R2, g2. cbn [run6]. rewrite Hv, Eb. auto.
           ++ right; right. exists (S n), s2, e2, R2, g2. cbn [run6]. rewrite Hv, Eb. auto.
      * right; right. exists 1%nat, s1, (envK k R), R, g. cbn [run6]. rewrite Hv. auto.
    + (* Comment *)
      cbn [eval]; unfold F; (destruct (limit <? st_steps st)%N; [left; reflexivity|]). cbn [eval_card].
      right; left. exists 1%nat, (bump st), R, g. split; [reflexivity|]. split; [reflexivity|]. split; [apply stK_bump, Hs | reflexivity].
    + (* SetGlobalVar *)
      apply andb_true_iff in Hc. destruct Hc as [Hne He]. apply negb_true_iff in Hne.
      assert (Hne' : is_empty name = false) by (destruct name; [discriminate Hne | reflexivity]).
      cbn [eval]; unfold F; (destruct (limit <? st_steps st)%N; [left; reflexivity|]).
      pose proof (stK_bump _ _ _ _ Hs) as Hbs; cbn [eval_card].
      pose proof (eval_cond6 _ He f (bump st) _ _ R g Hbs) as [E|[(v & s1 & E & Hv & Hsv & Hs1)|(s1 & E & Hv & Hs1)]];
        cbn zeta in E; rewrite E; cbn [bnd ok err one].
      * left; reflexivity.
      * rewrite Hne'. right; left. eexists 1%nat, _, R, _. split; [reflexivity|]. cbn [run6]. rewrite Hv.
        split; [reflexivity|]. split; [|reflexivity].
        destruct (stK_elim _ _ _ _ Hs1) as (Hh & Hg & Hcl & Hsim). apply simples_app in Hsim. destruct Hsim as [HsR Hsg].
        apply stK_intro; cbn [set_globals st_heap st_globals st_cells]; auto; [rewrite Hg; reflexivity|].
        apply simples_app. split; [exact HsR | apply set_assoc_simple; assumption].
      * right; right. exists 1%nat, s1, (envK k R), R, g. cbn [run6]. rewrite Hv. auto.
    + (* SetVar of a local *)
      apply andb_true_iff in Hc. destruct Hc as [Hc He]. apply andb_true_iff in Hc. destruct Hc as [Hx Hm].
      unfold var_ok in Hx. apply andb_true_iff in Hx. destruct Hx as [Hne Hdot]. apply negb_true_iff in Hne, Hdot.
      assert (Hne' : is_empty name = false) by (destruct name; [discriminate Hne | reflexivity]).
      cbn [eval]; unfold F; (destruct (limit <? st_steps st)%N; [left; reflexivity|]).
      pose proof (stK_bump _ _ _ _ Hs) as Hbs; cbn [eval_card].
      pose proof (eval_cond6 _ He f (bump st) _ _ R g Hbs) as [E|[(v & s1 & E & Hv & Hsv & Hs1)|(s1 & E & Hv & Hs1)]];
        cbn zeta in E; rewrite E; cbn [bnd ok err one].
      * left; reflexivity.
      * rewrite (rsplit_no_dot _ Hdot), Hne'.
        destruct (stK_assign k s1 R g name v Hne' Hm Hsv Hs1) as (c0 & A & Hen & Hs2 & Hf). rewrite A.
        right; left. eexists 1%nat, _, (set_assoc name v R), g. split; [reflexivity|]. cbn [run6]. rewrite Hv.
        unfold sets_local. rewrite Hm. auto.
      * right; right. exists 1%nat, s1, (envK k R), R, g. cbn [run6]. rewrite Hv. auto.
    + (* Repeat *)
      destruct i; [discriminate Hc|]. apply andb_true_iff in Hc. destruct Hc as [He Hb].
      cbn [eval]; unfold F; (destruct (limit <? st_steps st)%N; [left; reflexivity|]).
      pose proof (stK_bump _ _ _ _ Hs) as Hbs; cbn [eval_card].
      pose proof (eval_cond6 _ He f (bump st) _ _ R g Hbs) as [E|[(v & s1 & E & Hv & Hsv & Hs1)|(s1 & E & Hv & Hs1)]];
        cbn zeta in E; rewrite E; cbn [bnd ok err one].
      * left; reflexivity.
      * destruct (IH4 v 0%Z c2 s1 k R g Hsv Hb Hs1) as [E2|[(n & s2 & R2 & g2 & E2 & Hr & Hs2 & Hl2)|(n & s2 & e2 & R2 & g2 & E2 & Hr & Hs2 & Hl2)]]; rewrite E2.
        -- left; reflexivity.
        -- right; left. exists (S n), s2, R2, g2. cbn [run6]. rewrite Hv. auto.
        -- right; right. exists (S n), s2, e2, R2, g2. cbn [run6]. rewrite Hv. auto.
      * right; right. exists 1%nat, s1, (envK k R), R, g. cbn [run6]. rewrite Hv. auto.
    + (* Composite *)
      cbn [eval]; unfold F; (destruct (limit <? st_steps st)%N; [left; reflexivity|]).
      pose proof (stK_bump _ _ _ _ Hs) as Hbs; cbn [eval_card].
      destruct (IH2 cards (bump st) k R g Hc Hbs) as [E|[(n & s2 & R2 & g2 & E2 & Hr & Hs2 & Hl2)|(n & s2 & e2 & R2 & g2 & E2 & Hr & Hs2 & Hl2)]].
      * left; exact E.
      * right; left. exists (S n), s2, R2, g2. rewrite run6_composite. auto.
      * right; right. exists (S n), s2, e2, R2, g2. rewrite run6_composite. auto.
  - (* a sequence *)
    intros cs st k R g Hc Hs. unfold top_res6. cbn [eval]; unfold F.
    destruct (limit <? st_steps st)%N; [left; reflexivity|]. pose proof (stK_bump _ _ _ _ Hs) as Hbs.
    destruct cs as [|c r].
    + right; left. exists 0%nat, (bump st), R, g. cbn. auto.
    + cbn [forallb] in Hc. apply andb_true_iff in Hc. destruct Hc as [Hc Hr].
      destruct (IH1 c (bump st) k R g Hc Hbs) as [E|[(n1 & s1 & R1 & g1 & E & Hr1 & Hs1 & Hl1)|(n1 & s1 & e1 & R1 & g1 & E & Hr1 & Hs1 & Hl1)]];
        rewrite E; cbn [bnd ok err].
      * left; reflexivity.
      * rewrite <- (envK_names k R R1 Hl1).
        destruct (IH2 r s1 k R1 g1 ltac:(rewrite Hl1; exact Hr) Hs1) as [E2|[(n2 & s2 & R2 & g2 & E2 & Hr2 & Hs2 & Hl2)|(n2 & s2 & e2 & R2 & g2 & E2 & Hr2 & Hs2 & Hl2)]];
          rewrite E2; cbn [bnd ok err app].
        -- left; reflexivity.
        -- right; left. exists (Nat.max n1 n2), s2, R2, g2. split; [reflexivity|].
           split; [|split; [exact Hs2 | congruence]].
           cbn [runs6]. rewrite (run6_mono _ (Nat.max n1 n2) _ _ _ _ Hr1) by lia.
           eapply runs6_mono; [exact Hr2 | lia].
        -- right; right. exists (Nat.max n1 n2), s2, e2, R2, g2. split; [reflexivity|].
           split; [|split; [exact Hs2 | congruence]].
           cbn [runs6]. rewrite (run6_mono _ (Nat.max n1 n2) _ _ _ _ Hr1) by lia.
           eapply runs6_mono; [exact Hr2 | lia].
      * right; right. exists n1, s1, e1, R1, g1. split; [reflexivity|]. split; [|auto]. cbn [runs6]. rewrite Hr1. reflexivity.
  - (* a While loop *)
    intros e b st k R g He Hb Hs. unfold top_res6. cbn [eval]; unfold F.
    destruct (limit <? st_steps st)%N; [left; reflexivity|]. pose proof (stK_bump _ _ _ _ Hs) as Hbs.
    pose proof (eval_cond6 _ He f (bump st) _ _ R g Hbs) as [E|[(v & s1 & E & Hv & Hsv & Hs1)|(s1 & E & Hv & Hs1)]];
      cbn zeta in E; rewrite E; cbn [bnd ok err one].
    + left; reflexivity.
    + destruct (stK_elim _ _ _ _ Hs1) as (Hh1 & _). rewrite Hh1. destruct (v_bool [] v) eqn:Eb.
      * destruct (IH1 b s1 k R g Hb Hs1) as [E2|[(n1 & s2 & R2 & g2 & E2 & Hr1 & Hs2 & Hl2)|(n1 & s2 & e2 & R2 & g2 & E2 & Hr1 & Hs2 & Hl2)]];
          rewrite E2; cbn [bnd ok err].
        -- left; reflexivity.
        -- rewrite <- (envK_names k R R2 Hl2).
           destruct (IH3 e b s2 k R2 g2 He ltac:(rewrite Hl2; exact Hb) Hs2) as [E3|[(n2 & s3 & R3 & g3 & E3 & Hr2 & Hs3 & Hl3)|(n2 & s3 & e3 & R3 & g3 & E3 & Hr2 & Hs3 & Hl3)]]; rewrite E3.
           ++ left; reflexivity.
           ++ right; left. exists (S (Nat.max n1 n2)), s3, R3, g3. split; [rewrite (envK_names k R R2 Hl2); reflexivity|].
              split; [|split; [exact Hs3 | congruence]].
              cbn [run6]. rewrite Hv, Eb. rewrite (run6_mono _ (Nat.max n1 n2) _ _ _ _ Hr1) by lia.
              eapply run6_mono; [exact Hr2 | lia].
           ++ right; right. exists (S (Nat.max n1 n2)), s3, e3, R3, g3. split; [reflexivity|].
              split; [|split; [exact Hs3 | congruence]].
              cbn [run6]. rewrite Hv, Eb. rewrite (run6_mono _ (Nat.max n1 n2) _ _ _ _ Hr1) by lia.
              eapply run6_mono; [exact Hr2 | lia].
        -- right; right. exists (S n1), s2, e2, R2, g2. split; [reflexivity|]. split; [|auto].
           cbn [run6]. rewrite Hv, Eb, Hr1. reflexivity.
      * right; left. exists 1%nat, s1, R, g. cbn [run6]. rewrite Hv, Eb. auto.
    + right; right. exists 1%nat, s1, (envK k R), R, g. cbn [run6]. rewrite Hv. auto.
  - (* the rounds of a Repeat *)
    intros nv kk b st k R g Hnv Hb Hs. unfold top_res6. cbn [eval]; unfold F.
    destruct (limit <? st_steps st)%N; [left; reflexivity|]. pose proof (stK_bump _ _ _ _ Hs) as Hbs.
    destruct (stK_elim _ _ _ _ Hbs) as (Hh & Hg & Hcl & Hsim). rewrite Hh.
    assert (Hcmp : exists c, v_cmp [] (VInt kk) nv = Some c) by (apply v_cmp_simple; [exact I | exact Hnv]).
    destruct Hcmp as [c Hc]. rewrite Hc.
    destruct c as [[| |]|];
      [ right; left; exists 1%nat, (bump st), R, g; split; [reflexivity|]; split; [cbn [rep6]; rewrite Hc; reflexivity|]; split; [exact Hbs | reflexivity]
      |
      | right; left; exists 1%nat, (bump st), R, g; split; [reflexivity|]; split; [cbn [rep6]; rewrite Hc; reflexivity|]; split; [exact Hbs | reflexivity]
      | right; left; exists 1%nat, (bump st), R, g; split; [reflexivity|]; split; [cbn [rep6]; rewrite Hc; reflexivity|]; split; [exact Hbs | reflexivity] ].
    (* one more round *)
    cbn [declare_opt].
    set (R1 := ([], VInt kk) :: ([], nv) :: R).
    change (push_scope (envK k R)) with (envK (S k) R1).
    assert (Hs1 : stK (S k) (bump st) R1 g).
    { apply stK_intro; auto. cbn [app R1]. constructor; [exact I|]. constructor; [exact Hnv | exact Hsim]. }
    destruct (IH1 b (bump st) (S k) R1 g Hb Hs1) as [E2|[(n1 & s2 & R2 & g2 & E2 & Hr1 & Hs2 & Hl2)|(n1 & s2 & e2 & R2 & g2 & E2 & Hr1 & Hs2 & Hl2)]];
      rewrite E2; cbn [bnd ok err].
    + left; reflexivity.
    + (* the hidden locals are still the two most recent entries *)
      destruct R2 as [|[h1 v1] [|[h2 v2] R2']]; try discriminate Hl2. cbn [map fst R1] in Hl2. injection Hl2 as -> -> Hl2.
      assert (Hs2' : stK k s2 R2' g2).
      { destruct (stK_elim _ _ _ _ Hs2) as (A & B & C & D). apply stK_intro; auto.
        cbn [app] in D. inversion D as [|? ? _ D1]. inversion D1 as [|? ? _ D2]. exact D2. }
      assert (Hb' : stmt6 ([] :: [] :: map fst R2') b = true) by (rewrite Hl2; exact Hb).
      destruct (IH4 nv (wrap64 (kk + 1)) b s2 k R2' g2 Hnv Hb' Hs2') as [E3|[(n2 & s3 & R3 & g3 & E3 & Hr2 & Hs3 & Hl3)|(n2 & s3 & e3 & R3 & g3 & E3 & Hr2 & Hs3 & Hl3)]].
      * rewrite <- (envK_names k R R2' Hl2), E3. left; reflexivity.
      * rewrite <- (envK_names k R R2' Hl2), E3. right; left. exists (S (Nat.max n1 n2)), s3, R3, g3.
        split; [rewrite (envK_names k R R2' Hl2); reflexivity|]. split; [|split; [exact Hs3 | congruence]].
        cbn [rep6]. rewrite Hc. fold R1. rewrite (run6_mono _ (Nat.max n1 n2) _ _ _ _ Hr1) by lia. cbn [tl].
        eapply rep6_mono; [exact Hr2 | lia].
      * rewrite <- (envK_names k R R2' Hl2), E3. right; right. exists (S (Nat.max n1 n2)), s3, e3, R3, g3.
        split; [reflexivity|]. split; [|split; [exact Hs3 | congruence]].
        cbn [rep6]. rewrite Hc. fold R1. rewrite (run6_mono _ (Nat.max n1 n2) _ _ _ _ Hr1) by lia. cbn [tl].
        eapply rep6_mono; [exact Hr2 | lia].
    + destruct R2 as [|[h1 v1] [|[h2 v2] R2']]; try discriminate Hl2. cbn [map fst R1] in Hl2. injection Hl2 as -> -> Hl2.
      assert (Hs2' : stK k s2 R2' g2).
      { destruct (stK_elim _ _ _ _ Hs2) as (A & B & C & D). apply stK_intro; auto.
        cbn [app] in D. inversion D as [|? ? _ D1]. inversion D1 as [|? ? _ D2]. exact D2. }
      right; right. exists (S n1), s2, e2, R2', g2. split; [reflexivity|]. split; [|auto].
      cbn [rep6]. rewrite Hc. fold R1. rewrite Hr1. reflexivity.
Qed.

(* ------------------------------------------------------------------ the cards of main (declarations) *)
Definition main_res6 (R : lstore) (c_names : list str) (r : res) (run : nat -> option (bool * lstore * gl)) : Prop :=
  r = RFuel \/
  (exists n s' R' g', r = ok [] (envK 0 R') s' /\ run n = Some (true, R', g') /\ stK 0 s' R' g' /\ map fst R' = c_names) \/
  (exists n s' e' R' g', r = err EVarNotFound e' s' /\ run n = Some (false, R', g') /\ stK 0 s' R' g').

Lemma top_eval6 fuel c s R g :
  top6 (map fst R) c = true -> stK 0 s R g ->
  main_res6 R (names_next (map fst R) c) (evalf fuel (TkCard fi (envK 0 R) c) s) (fun n => run6 n R g c).
Proof.
  intros Hc Hs. unfold main_res6.
  assert (Hstmt : stmt6 (map fst R) c = true -> names_next (map fst R) c = map fst R ->
            main_res6 R (names_next (map fst R) c) (evalf fuel (TkCard fi (envK 0 R) c) s) (fun n => run6 n R g c)).
  { intros H6 Hn. destruct (eval6 fuel) as (H1 & _).
    destruct (H1 c s 0%nat R g H6 Hs) as [E|[(n & s2 & R2 & g2 & E2 & Hr & Hs2 & Hl2)|(n & s2 & e2 & R2 & g2 & E2 & Hr & Hs2 & Hl2)]].
    - left; exact E.
    - right; left. exists n, s2, R2, g2. rewrite (envK_names 0 R R2 Hl2), Hn. auto.
    - right; right. exists n, s2, e2, R2, g2. auto. }
  destruct c; try (apply Hstmt; [exact Hc | reflexivity]).
  cbn [top6] in Hc. apply andb_true_iff in Hc. destruct Hc as [Hx He].
  destruct (lmem name (map fst R)) eqn:Hm.
  - apply Hstmt; [cbn [stmt6]; rewrite Hx, Hm, He; reflexivity | cbn [names_next]; rewrite Hm; reflexivity].
  - (* the declaration *)
    cbn [names_next]. rewrite Hm.
    unfold var_ok in Hx. apply andb_true_iff in Hx. destruct Hx as [Hne Hdot]. apply negb_true_iff in Hne, Hdot.
    assert (Hne' : is_empty name = false) by (destruct name; [discriminate Hne | reflexivity]).
    destruct fuel as [|f]; [left; reflexivity|].
    cbn [eval]; unfold F; (destruct (limit <? st_steps s)%N; [left; reflexivity|]).
    pose proof (stK_bump _ _ _ _ Hs) as Hbs; cbn [eval_card].
    pose proof (eval_cond6 _ He f (bump s) _ _ R g Hbs) as [E|[(v & s1 & E & Hv & Hsv & Hs1)|(s1 & E & Hv & Hs1)]];
      cbn zeta in E; rewrite E; cbn [bnd ok err one].
    + left; reflexivity.
    + rewrite (rsplit_no_dot _ Hdot), Hne'.
      destruct Hs1 as (Hh & Hg & Hlk & Hsim & Hcl).
      pose proof (Hlk name Hne') as Hl. rewrite lmem_assoc in Hm. destruct (assoc name R) eqn:Ea; [discriminate|].
      rewrite Hl. unfold declare, alloc_cell. cbn [envK repeat app e_scopes e_up].
      rewrite Hcl, cells_of_length.
      right; left. eexists 1%nat, _, ((name, v) :: R), g. cbn [run6]. rewrite Hv.
      unfold sets_local. rewrite lmem_assoc, Ea.
      assert (Hvis : vis ((name, v) :: R) = (name, v) :: vis R) by (cbn [vis filter fst]; rewrite Hne'; reflexivity).
      split; [unfold envK; rewrite Hvis; reflexivity|]. split; [reflexivity|]. split; [|reflexivity].
      apply stK_intro; cbn [set_cells st_heap st_globals st_cells]; auto.
      * rewrite Hvis, cells_cons. reflexivity.
      * cbn [app]. constructor; [exact Hsv | exact Hsim].
    + right; right. exists 1%nat, s1, (envK 0 R), R, g. cbn [run6]. rewrite Hv. auto.
Qed.

Lemma main_eval6 fuel : forall cards s R g,
  cards6 (map fst R) cards = true -> stK 0 s R g ->
  main_res6 R (names_end (map fst R) cards) (evalf fuel (TkSeq fi (envK 0 R) cards) s) (fun n => runs6 n R g cards).
Proof.
  induction fuel as [|f IH]; intros cards s R g Hc Hs; [left; reflexivity|].
  unfold main_res6. cbn [eval]; unfold F.
  destruct (limit <? st_steps s)%N; [left; reflexivity|]. pose proof (stK_bump _ _ _ _ Hs) as Hbs.
  destruct cards as [|c r].
  - right; left. exists 0%nat, (bump s), R, g. cbn. auto.
  - cbn [cards6 names_end] in *. apply andb_true_iff in Hc. destruct Hc as [Hc Hr].
    destruct (top_eval6 f c (bump s) R g Hc Hbs) as [E|[(n1 & s1 & R1 & g1 & E & Hr1 & Hs1 & Hl1)|(n1 & s1 & e1 & R1 & g1 & E & Hr1 & Hs1)]];
      rewrite E; cbn [bnd ok err].
    + left; reflexivity.
    + destruct (IH r s1 R1 g1 ltac:(rewrite Hl1; exact Hr) Hs1) as [E2|[(n2 & s2 & R2 & g2 & E2 & Hr2 & Hs2 & Hl2)|(n2 & s2 & e2 & R2 & g2 & E2 & Hr2 & Hs2)]];
        rewrite E2; cbn [bnd ok err app].
      * left; reflexivity.
      * right; left. exists (Nat.max n1 n2), s2, R2, g2. split; [reflexivity|].
        split; [|split; [exact Hs2 | rewrite <- Hl1; exact Hl2]].
        cbn [runs6]. rewrite (run6_mono _ (Nat.max n1 n2) _ _ _ _ Hr1) by lia.
        eapply runs6_mono; [exact Hr2 | lia].
      * right; right. exists (Nat.max n1 n2), s2, e2, R2, g2. split; [reflexivity|]. split; [|exact Hs2].
        cbn [runs6]. rewrite (run6_mono _ (Nat.max n1 n2) _ _ _ _ Hr1) by lia.
        eapply runs6_mono; [exact Hr2 | lia].
    + right; right. exists n1, s1, e1, R1, g1. split; [reflexivity|]. split; [|exact Hs1]. cbn [runs6]. rewrite Hr1. reflexivity.
Qed.
End Eval.

Theorem eval_program_f6 fuel M host o :
  in_f6 M = true -> eval_program fuel M host = PObs o ->
  exists n R g, runs6 n [] [] (main_cards M) = Some (match ob_kind o with KOk => true | _ => false end, R, g) /\
                (ob_kind o = KOk \/ ob_kind o = KErr EVarNotFound) /\
                simples R /\ simples g /\
                ob_globals o = map (fun nv => (fst nv, vm_tree (to_vm (snd nv)))) g.
Proof.
  intros HM. destruct M as [subs funs imps]. cbn [in_f6] in HM.
  destruct subs; [|discriminate]. destruct funs as [|[name f] [|]]; try discriminate.
  destruct imps; [|discriminate].
  apply andb_true_iff in HM. destruct HM as [HM Hcards]. apply andb_true_iff in HM. destruct HM as [Hname _].
  apply str_eqb_main in Hname. subst name.
  destruct flatten_std_some as [stdl Hstd].
  unfold eval_program, program_of, add_std. cbn [app].
  change 64%nat with (S 63). rewrite (flatten_f1 63 f stdl Hstd).
  cbn [find_index fe_name]. change (str_eqb s_main s_main) with true. cbv iota.
  cbn [nth_error fe_fn main_cards].
  set (P := _ :: stdl).
  intros H.
  assert (Hgs : stK 0 init_state [] []) by (apply stK_intro; try reflexivity; constructor).
  change {| e_scopes := [[]]; e_up := [] |} with (envK 0 []) in H.
  pose proof (main_eval6 P host (step_limit fuel) 0 fuel _ _ [] [] Hcards Hgs) as [E|[(n & s1 & R1 & g1 & E & Hrun & Hs1 & _)|(n & s1 & e1 & R1 & g1 & E & Hrun & Hs1)]];
    rewrite E in H; cbn [ok err] in H; try discriminate H.
  - injection H as <-. exists n, R1, g1. cbn [ob_kind ob_globals observe].
    destruct (stK_elim _ _ _ _ Hs1) as (Hh & Hg & _ & Hsim). apply simples_app in Hsim. destruct Hsim as [HsR Hsg].
    repeat split; auto. rewrite Hh, Hg. apply map_ext_in. intros [x v] Hin.
    unfold simples in Hsg. rewrite Forall_forall in Hsg. pose proof (Hsg _ Hin) as Hv. cbn [snd] in Hv.
    destruct v; try contradiction; reflexivity.
  - injection H as <-. exists n, R1, g1. cbn [ob_kind ob_globals observe].
    destruct (stK_elim _ _ _ _ Hs1) as (Hh & Hg & _ & Hsim). apply simples_app in Hsim. destruct Hsim as [HsR Hsg].
    repeat split; auto. rewrite Hh, Hg. apply map_ext_in. intros [x v] Hin.
    unfold simples in Hsg. rewrite Forall_forall in Hsg. pose proof (Hsg _ Hin) as Hv. cbn [snd] in Hv.
    destruct v; try contradiction; reflexivity.
Qed.
