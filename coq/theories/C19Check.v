(* Executable correspondence checker for C19.  A case is a pair or a triple of values (as tval
   terms, read back from the objects the harness built through the host API) with what the
   implementation answered for ==, hash, partial_cmp, <, <=, as_bool and the two casts.
     1  = the model of Value.v predicts something else
     2  = the observations violate one of the laws of the property (stated on the observations,
          not on the model): reflexivity, symmetry, eq -> same hash,
          eq -> neither less nor greater, asymmetry, numeric order, length order, transitivity
     3  = ill-formed case (harness bug)
   NaN and signed zero are the exceptions listed in the property text itself: the laws are not
   required where they occur (no code). *)
From Cao Require Export CheckUtil Value.
From Cao Require Import Bits.
From Coq Require Import Floats.SpecFloat.
From Flocq Require Import IEEE754.Binary IEEE754.Bits.
Local Open Scope N_scope.

(* ---- constructors for the generated files ---- *)
Definition tnil : tval := TNil.
Definition tint (z : Z) : tval := TInt z.
Definition treal (bits : Z) : tval := TReal (b64_of_bits bits).
Definition tstr (bs : list N) : tval := TStr bs.
Definition ttab (l : list (tval * tval)) : tval := TTable l.
Definition tfn (h a : N) : tval := TFn h a.
Definition tnat (h : N) : tval := TNative h.
Definition tclo (id h a : N) : tval := TClosure id h a.   (* id: the closure objects of a case, numbered in first-seen order *)

(* what the implementation says about one value *)
Record vobs := vo {
  o_hash : N;        (* CaoHashMap::<Value, i64>::insert(v, _) = Ok(hash) *)
  o_bool : bool;     (* v.as_bool() *)
  o_eqself : bool;   (* v == v *)
  o_i64 : Z;         (* i64::try_from(v) *)
  o_f64 : Z          (* f64::try_from(v).to_bits() *)
}.

Inductive c19case :=
| CPair (a b : tval) (oa ob : vobs) (eab eba : bool) (cab cba : option comparison) (ltab leab : bool)
| CTriple (a b c : tval) (eab ebc eac : bool) (cab cbc cac : option comparison)
| CPanic (what : list N).   (* the implementation panicked on this (acyclic) input *)
Definition cpair := CPair.
Definition ctriple := CTriple.
Definition cpanic := CPanic.

(* ---- equality tests on observations ---- *)
Definition cmp_eqb (x y : comparison) : bool :=
  match x, y with Eq, Eq | Lt, Lt | Gt, Gt => true | _, _ => false end.
Definition ocmp_eqb := opt_eqb cmp_eqb.
Definition sf_same (x y : spec_float) : bool :=
  match x, y with
  | S754_zero s, S754_zero s' => Bool.eqb s s'
  | S754_infinity s, S754_infinity s' => Bool.eqb s s'
  | S754_nan, S754_nan => true
  | S754_finite s m e, S754_finite s' m' e' => Bool.eqb s s' && Pos.eqb m m' && Z.eqb e e'
  | _, _ => false
  end.
Definition not_ltgt (c : option comparison) : bool :=
  match c with Some Lt | Some Gt => false | _ => true end.

(* ---- well-formedness of a case ---- *)
Fixpoint twf (a : tval) : bool :=
  match a with
  | TNil => true
  | TInt z => (i64_min <=? z)%Z && (z <=? i64_max)%Z
  | TReal _ => true
  | TStr bs => forallb (fun x => x <? 256) bs
  | TTable l =>
      (fix go (l : list (tval * tval)) : bool :=
         match l with
         | [] => true
         | (k, v) :: r => twf k && twf v && go r
         end) l
  | TFn h ar | TClosure _ h ar => (h <? two32) && (ar <? two32)
  | TNative h => h <? two32
  end.

(* ---- code 1: the model ---- *)
Definition model_value (a : tval) (o : vobs) : bool :=
  (thash a =? o_hash o) && Bool.eqb (tbool a) (o_bool o) && Bool.eqb (teq a a) (o_eqself o) &&
  Z.eqb (to_i64 a) (o_i64 o) && sf_same (to_sf a) (sf (b64_of_bits (o_f64 o))).

(* ---- code 2: the laws ---- *)
(* the number a value counts as in a mixed comparison *)
Inductive num := NZ (z : Z) | NF (x : spec_float).
Definition as_num (a : tval) : num :=
  match a with
  | TNil => NZ 0
  | TInt i => NZ i
  | TReal f => NF (sf f)
  | _ => NZ (Z.of_nat (tlen a))
  end.
Definition is_number (a : tval) : bool := is_int a || is_real a.
Definition num_cmp (x y : num) : option comparison :=
  match x, y with
  | NZ i, NZ j => Some (Z.compare i j)
  | NZ i, NF g => Z_cmp_sf i g
  | NF f, NZ j => opp_oc (Z_cmp_sf j f)
  | NF f, NF g => SFcompare f g
  end.

Definition law_numeric (a b : tval) (cab : option comparison) : list N :=
  if is_number a || is_number b then
    let x := as_num a in let y := as_num b in
    if ocmp_eqb cab (num_cmp x y) then [] else [2]
  else [].

Definition same_kind_obj (a b : tval) : bool :=
  match a, b with TStr _, TStr _ | TTable _, TTable _ => true | _, _ => false end.
Definition law_length (a b : tval) (cab : option comparison) : list N :=
  if same_kind_obj a b then
    match Nat.compare (tlen a) (tlen b) with
    | Eq => if not_ltgt cab then [] else [2]
    | c => if ocmp_eqb cab (Some c) then [] else [2]
    end
  else [].

Definition flag (ok : bool) : list N := if ok then [] else [2].

Definition implb' (p q : bool) : bool := if p then q else true.

Definition check1 (c : c19case) : list N :=
  match c with
  | CPair a b oa ob eab eba cab cba ltab leab =>
      (if twf a && twf b && coherentb (tclos a ++ tclos b) then [] else [3]) ++
      (if model_value a oa && model_value b ob &&
          Bool.eqb (teq a b) eab && Bool.eqb (teq b a) eba &&
          ocmp_eqb (tcmp a b) cab && ocmp_eqb (tcmp b a) cba &&
          Bool.eqb (tlt a b) ltab && Bool.eqb (tle a b) leab
       then [] else [1]) ++
      (* reflexivity; exception of the text: NaN *)
      flag (implb' (no_nan a) (o_eqself oa)) ++
      flag (implb' (no_nan b) (o_eqself ob)) ++
      (* symmetry *)
      flag (Bool.eqb eab eba) ++
      (* equal values hash equally; exceptions of the text: NaN, signed zero *)
      flag (implb' (eab && no_nan a && no_nan b && no_zero_real a && no_zero_real b)
                   (o_hash oa =? o_hash ob)) ++
      (* equal values are neither less nor greater *)
      flag (implb' eab (not_ltgt cab && not_ltgt cba)) ++
      (* asymmetry *)
      flag (negb (ocmp_eqb cab (Some Lt) && ocmp_eqb cba (Some Lt))) ++
      flag (negb (ocmp_eqb cab (Some Gt) && ocmp_eqb cba (Some Gt))) ++
      (* the cards' < and <= say what partial_cmp says *)
      flag (Bool.eqb ltab (ocmp_eqb cab (Some Lt))) ++
      flag (Bool.eqb leab (ocmp_eqb cab (Some Lt) || ocmp_eqb cab (Some Eq))) ++
      (* numbers by numeric value, nil as 0, an object as its length *)
      law_numeric a b cab ++ law_numeric b a cba ++
      (* two strings / two tables by length *)
      law_length a b cab ++ law_length b a cba
  | CTriple a b c eab ebc eac cab cbc cac =>
      (if twf a && twf b && twf c && coherentb (tclos a ++ tclos b ++ tclos c) then [] else [3]) ++
      (if Bool.eqb (teq a b) eab && Bool.eqb (teq b c) ebc && Bool.eqb (teq a c) eac &&
          ocmp_eqb (tcmp a b) cab && ocmp_eqb (tcmp b c) cbc && ocmp_eqb (tcmp a c) cac
       then [] else [1]) ++
      (* transitivity; exception of the text: NaN *)
      flag (implb' (eab && ebc && no_nan a && no_nan b && no_nan c) eac) ++
      flag (implb' (eab && ebc && eac) (not_ltgt cac))
  | CPanic _ => [2]
  end.

Definition check_all := CheckUtil.check_all check1.
