(* C06, VM half: what capture means on the VM model (Vm.v) - statements about single instructions.
   (a) register_shares / (b) upvalue_open_is_the_slot / (c) close_upvalue_spec, return_closes, closed upvalue
   access / (d) closure_creation, call_closure_body.  Proof infrastructure: VmUpvalueProofs.v, VmUpvalueStep.v. *)
From Coq Require Import NArith ZArith List Lia Bool Sorted.
From Cao Require Import ListUtil Bits Stacks Vm VmUpvalueProofs VmUpvalueStep.
Import ListNotations.

Ltac step_opc H := unfold step; cbv zeta; rewrite H; cbv iota.

Section Sem.
  Variable F : fops.
  Variable bld : build.
  Variable P : program.
  Variable reenter : N -> state -> rres.

  Definition opcode_at (ip0 : N) : N := nth (N.to_nat ip0) (p_code P) 255%N.
  Notation STEP := (step F bld P reenter).

  (* ---------------------------------------------------------------- *)
  (* (a) RegisterUpvalue index, is_local = true                        *)
  (* ---------------------------------------------------------------- *)
  Theorem register_shares : forall ip0 s index is_local s1 ca ch car cups off l loc,
    opcode_at ip0 = 45%N ->
    read_le (p_code P) (ip0 + 1) 1 = Some index -> read_le (p_code P) (ip0 + 1 + 1) 1 = Some is_local ->
    is_local <> 0%N ->
    spop s = (s1, VObj ca) -> hget (st_heap s1) ca = Some (OClo ch car cups) ->
    top_offset s1 = Some off -> loc = off + N.to_nat index -> loc < scount s1 ->
    vm_ok s -> open_list s l ->
    (* the slot has an open upvalue [a]: the closure gets that object, nothing else changes *)
    (forall a, In (a, loc) l ->
       STEP ip0 s = SNext (ip0 + 1 + 2) (set_heap s1 (hset (st_heap s1) ca (OClo ch car (cups ++ [a]))))) /\
    (* it has none: a new open upvalue object is allocated and inserted in order *)
    (~ In loc (slots l) ->
       let ua := N.of_nat (length (st_heap s1)) in
       exists s', STEP ip0 s = SNext (ip0 + 1 + 2) s' /\ vm_ok s' /\
         open_list s' (ins_desc ua loc l) /\
         hget (st_heap s') ca = Some (OClo ch car (cups ++ [ua])) /\
         (exists nx, hget (st_heap s') ua = Some (OUp (mkUp (Some loc) VNil nx))) /\
         st_stack s' = st_stack s1 /\ st_calls s' = st_calls s1 /\ st_globals s' = st_globals s1 /\
         (forall x, oview (hget (st_heap s1) x) = None -> x <> ua -> x <> ca ->
                    hget (st_heap s') x = hget (st_heap s1) x) /\
         heap_mono (st_heap s1) (st_heap s')).
  Proof.
    intros ip0 s index is_local s1 ca ch car cups off l loc Hop Ei Eil Hnz Ep Hca Eo El Hlt Hs Hl.
    pose proof (spop_keep _ _ _ Ep) as K.
    pose proof (keep_vm_ok _ _ K Hs) as H1. pose proof (keep_open_list _ _ _ K Hl) as Hl1.
    destruct (i_45_local_spec P (opcode_at ip0) ip0 (ip0 + 1) s index is_local s1 ca ch car cups off l loc
                Ei Eil Hnz Ep Hca Eo El Hlt H1 Hl1) as [A B].
    unfold opcode_at in *.
    split.
    - intros a Hin. step_opc Hop. apply A. exact Hin.
    - intros Hnin. cbv zeta. destruct (B Hnin) as (s' & E & R). exists s'. split; [|exact R].
      step_opc Hop. exact E.
  Qed.

  (* ---------------------------------------------------------------- *)
  (* (b) an open upvalue IS the stack slot                             *)
  (* ---------------------------------------------------------------- *)
  (* the upvalue [idx] of the running closure is the object [ua] *)
  Definition upvalue_of (s : state) (idx : N) (ua : N) (u : upval) : Prop :=
    exists fr rest ca h ar ups,
      st_calls s = fr :: rest /\ fr_clo fr = Some ca /\ hget (st_heap s) ca = Some (OClo h ar ups) /\
      nth_error ups (N.to_nat idx) = Some ua /\ hget (st_heap s) ua = Some (OUp u).

  Theorem read_upvalue : forall ip0 s idx ua u,
    opcode_at ip0 = 44%N -> op_u32 P (ip0 + 1) = Some idx -> upvalue_of s idx ua u ->
    STEP ip0 s = push_next (ip0 + 1 + 4) s (match u_loc u with Some l => sraw_get s l | None => u_val u end).
  Proof.
    intros ip0 s idx ua u Hop Ei (fr & rest & ca & h & ar & ups & Ec & Ef & Hca & Hn & Hu).
    unfold opcode_at in Hop. step_opc Hop. unfold i_43_44. rewrite Ei. cbv zeta.
    change (44 =? 43)%N with false. cbv iota. rewrite Ec, Ef, Hca, Hn, Hu. reflexivity.
  Qed.

  Theorem write_upvalue : forall ip0 s s1 wv idx ua u,
    opcode_at ip0 = 43%N -> op_u32 P (ip0 + 1) = Some idx -> spop s = (s1, wv) -> upvalue_of s1 idx ua u ->
    STEP ip0 s = SNext (ip0 + 1 + 4)
                   (match u_loc u with
                    | Some l => sraw_set s1 l wv
                    | None => set_heap s1 (hset (st_heap s1) ua (OUp (mkUp None wv (u_next u))))
                    end).
  Proof.
    intros ip0 s s1 wv idx ua u Hop Ei Ep (fr & rest & ca & h & ar & ups & Ec & Ef & Hca & Hn & Hu).
    unfold opcode_at in Hop. step_opc Hop. unfold i_43_44. rewrite Ei. cbv zeta.
    change (43 =? 43)%N with true. cbv iota. rewrite Ep, Ec, Ef, Hca, Hn, Hu. destruct (u_loc u); reflexivity.
  Qed.

  (* the enclosing function reads / writes the same cell of the stack array with ReadLocalVar / SetLocalVar *)
  Lemma sget_raw s i : i < scount s -> sget s i = sraw_get s i.
  Proof.
    unfold sget, sraw_get, scount, vs_step. intros H. destruct (Nat.leb_spec (vcount (st_stack s)) i); [lia|reflexivity].
  Qed.

  Lemma sset_raw s i v : i < scount s -> sset s i v = Some (sraw_set s i v).
  Proof.
    unfold sset, sraw_set, scount, vs_step. intros H.
    destruct (Nat.ltb_spec (vcount (st_stack s)) i); [lia|].
    destruct (Nat.eqb_spec i (vcount (st_stack s))); [lia|]. reflexivity.
  Qed.

  Theorem read_local : forall ip0 s hd off,
    opcode_at ip0 = 20%N -> op_u32 P (ip0 + 1) = Some hd -> top_offset s = Some off ->
    off + N.to_nat hd < scount s ->
    STEP ip0 s = push_next (ip0 + 1 + 4) s (sraw_get s (off + N.to_nat hd)).
  Proof.
    intros ip0 s hd off Hop Eh Eo Hlt. unfold opcode_at in Hop. step_opc Hop. unfold i_20. rewrite Eh. cbv zeta.
    rewrite Eo. rewrite sget_raw by exact Hlt. reflexivity.
  Qed.

  Theorem write_local : forall ip0 s s1 v hd off,
    opcode_at ip0 = 19%N -> op_u32 P (ip0 + 1) = Some hd -> top_offset s = Some off ->
    spop_w_offset s off = (s1, v) -> off + N.to_nat hd < scount s1 ->
    STEP ip0 s = SNext (ip0 + 1 + 4) (sraw_set s1 (off + N.to_nat hd) v).
  Proof.
    intros ip0 s s1 v hd off Hop Eh Eo Ep Hlt. unfold opcode_at in Hop. step_opc Hop. unfold i_19. rewrite Eh. cbv zeta.
    rewrite Eo, Ep. unfold Vm.write_local. rewrite sset_raw by exact Hlt. reflexivity.
  Qed.

  (* what a raw write does *)
  Lemma sraw_set_get s i v : i < cap s -> sraw_get (sraw_set s i v) i = v.
  Proof. unfold sraw_get, sraw_set, cap. cbn [st_stack set_stack vdata]. intros H. apply nth_upd_same. exact H. Qed.
  Lemma sraw_set_get_other s i j v : i <> j -> sraw_get (sraw_set s i v) j = sraw_get s j.
  Proof. unfold sraw_get, sraw_set. cbn [st_stack set_stack vdata]. intros H. apply nth_upd_other. exact H. Qed.
  Lemma sraw_set_heap s i v : st_heap (sraw_set s i v) = st_heap s /\ st_open (sraw_set s i v) = st_open s /\
                              st_calls (sraw_set s i v) = st_calls s /\ scount (sraw_set s i v) = scount s.
  Proof. repeat split. Qed.

  (* ---------------------------------------------------------------- *)
  (* (c) CloseUpvalue k / Return                                       *)
  (* ---------------------------------------------------------------- *)
  Theorem close_upvalue_spec : forall ip0 s idx off l,
    opcode_at ip0 = 46%N -> op_u32 P (ip0 + 1) = Some idx -> top_offset s = Some off ->
    vm_ok s -> open_list s l ->
    let top := off + N.to_nat idx in
    exists s', STEP ip0 s = SNext (ip0 + 1 + 4) s' /\ vm_ok s' /\
      open_list s' (kept_by top l) /\                       (* exactly the nodes below [top] stay open *)
      same_but_heap_open s s' /\                            (* nothing is popped *)
      (forall a loc, In (a, loc) l -> top <= loc ->         (* the others keep the value their slot has now *)
         exists nx, hget (st_heap s') a = Some (OUp (mkUp None (sraw_get s loc) nx))) /\
      (forall x, (forall loc, In (x, loc) l -> loc < top) -> hget (st_heap s') x = hget (st_heap s) x).
  Proof.
    intros ip0 s idx off l Hop Ei Eo Hs Hl top.
    pose proof (vm_ok_list _ _ Hs Hl) as Hh.
    destruct (close_from_spec top s l (cap s) Hh) as (s' & E & Hk & Hsame & Hcl & Hun).
    exists s'. split.
    { unfold opcode_at in Hop. step_opc Hop. unfold i_46. rewrite Ei. cbv zeta. rewrite Eo. fold top. rewrite E.
      reflexivity. }
    split.
    { destruct Hs as (_ & Hc & Hf). destruct Hsame as (A1 & A2 & _). unfold vm_ok, open_ok, cap in *. rewrite A1, A2.
      split; [eexists; exact Hk|]. split; assumption. }
    split; [apply Hk|]. split; [exact Hsame|]. split; assumption.
  Qed.

  Theorem return_closes : forall ip0 s fr prev rest l,
    opcode_at ip0 = 22%N -> st_calls s = fr :: prev :: rest ->
    vm_ok s -> open_list s l ->
    let off := N.to_nat (fr_off fr) in
    exists s2, close_upvalues_from off (set_calls s (prev :: rest)) = ClOk s2 /\
      STEP ip0 s = push_next (fr_dst prev) (fst (sclear_until s2 off)) (snd (sclear_until s2 off)) /\
      vm_ok s2 /\ open_list s2 (kept_by off l) /\
      st_stack s2 = st_stack s /\ st_calls s2 = prev :: rest /\
      (forall a loc, In (a, loc) l -> off <= loc ->
         exists nx, hget (st_heap s2) a = Some (OUp (mkUp None (sraw_get s loc) nx))) /\
      (forall x, (forall loc, In (x, loc) l -> loc < off) -> hget (st_heap s2) x = hget (st_heap s) x).
  Proof.
    intros ip0 s fr prev rest l Hop Ec Hs Hl off.
    assert (Hs1 : vm_ok (set_calls s (prev :: rest))).
    { apply vm_ok_set_calls; [exact Hs|]. destruct Hs as (_ & _ & Hf). rewrite Ec in Hf. inversion Hf; assumption. }
    assert (Hl1 : open_list (set_calls s (prev :: rest)) l) by exact Hl.
    pose proof (vm_ok_list _ _ Hs1 Hl1) as Hh.
    destruct (close_from_spec off _ l _ Hh) as (s2 & E & Hk & Hsame & Hcl & Hun).
    exists s2. split; [exact E|]. split.
    { unfold opcode_at in Hop. step_opc Hop. unfold i_22. rewrite Ec. cbv zeta. fold off. rewrite E.
      destruct (sclear_until s2 off) as [s3 v]. reflexivity. }
    destruct Hsame as (A1 & A2 & A'). cbn [st_stack st_calls set_calls] in A1, A2.
    split.
    { destruct Hs1 as (_ & Hc & Hf). unfold vm_ok, open_ok, cap in *. rewrite A1, A2.
      cbn [st_stack st_calls set_calls] in *.
      split; [eexists; exact Hk|]. split; assumption. }
    split; [apply Hk|]. split; [exact A1|]. split; [exact A2|]. split; assumption.
  Qed.

  (* every node that is still open after CloseUpvalue / Return points below the closing height *)
  Lemma kept_by_below top l : Forall (fun x => snd x < top) (kept_by top l).
  Proof.
    apply Forall_forall. intros x Hx. unfold kept_by in Hx. apply filter_In in Hx. destruct Hx as [_ Hx].
    apply Nat.ltb_lt. exact Hx.
  Qed.

  (* ---------------------------------------------------------------- *)
  (* (d) the body of a closure value                                   *)
  (* ---------------------------------------------------------------- *)
  Theorem closure_creation : forall ip0 s h ar,
    opcode_at ip0 = 42%N -> op_u32 P (ip0 + 1) = Some h -> op_u32 P (ip0 + 1 + 4) = Some ar ->
    STEP ip0 s = push_next (ip0 + 1 + 8) (set_heap s (st_heap s ++ [OClo h ar []]))
                           (VObj (N.of_nat (length (st_heap s)))).
  Proof.
    intros ip0 s h ar Hop Eh Ea. unfold opcode_at in Hop. step_opc Hop. unfold i_37_42. rewrite Eh, Ea.
    change (42 =? 37)%N with false. cbv iota. reflexivity.
  Qed.

  Theorem call_closure_body : forall ip0 s s1 a h ar ups top rest pos,
    opcode_at ip0 = 11%N -> spop s = (s1, VObj a) -> hget (st_heap s1) a = Some (OClo h ar ups) ->
    st_calls s1 = top :: rest -> (ar <= N.of_nat (scount s1))%N -> S (length (st_calls s1)) < call_stack_size ->
    assoc h (p_labels P) = Some pos ->
    STEP ip0 s =
      SNext pos (set_calls s1 (mkFrame ip0 (ip0 + 1) (N.of_nat (scount s1) - ar) (Some a)
                               :: mkFrame (fr_src top) (ip0 + 1) (fr_off top) (fr_clo top) :: rest)).
  Proof.
    intros ip0 s s1 a h ar ups top rest pos Hop Ep Ha Ec Har Hdepth Hl.
    unfold opcode_at in Hop. step_opc Hop. unfold i_11. rewrite Ep, Ha. cbv zeta. rewrite Ec.
    change (scount (set_calls s1 (mkFrame (fr_src top) (ip0 + 1) (fr_off top) (fr_clo top) :: rest)))
      with (scount s1).
    destruct (N.ltb_spec (N.of_nat (scount s1)) ar); [lia|].
    unfold push_frame. cbn [st_calls set_calls length].
    rewrite Ec in Hdepth. cbn [length] in Hdepth.
    destruct (Nat.leb_spec call_stack_size (S (length rest))); [lia|].
    rewrite Hl. reflexivity.
  Qed.
End Sem.

(* ------------------------------------------------------------------ *)
(* "slot < stack height" is not an invariant of the VM                 *)
(* ------------------------------------------------------------------ *)
(* ScalarNil; Closure h=0 arity=0; RegisterUpvalue 0 local; Pop; Exit - hand-written bytecode, not compiler output:
   the captured local is popped without a CloseUpvalue.  The run ends normally with the value stack EMPTY and the
   open upvalue (object 1) still pointing at slot 0. *)
Definition dead_slot_program : program :=
  mkProgram [7; 42; 0; 0; 0; 0; 0; 0; 0; 0; 45; 0; 1; 16; 10]%N [] [] [] [] [].

Theorem open_slot_may_be_dead : forall F bld,
  let r := run F bld 100 dead_slot_program fresh_state in
  fst r = OOk /\ vm_ok (snd r) /\ open_list (snd r) [(1%N, 0)] /\ scount (snd r) = 0 /\ ~ open_live (snd r).
Proof.
  intros F bld r.
  assert (E : fst r = OOk /\ chain_of 5 (st_heap (snd r)) (st_open (snd r)) = Some [(1%N, 0)] /\ scount (snd r) = 0).
  { destruct bld; vm_compute; repeat split. }
  destruct E as (E1 & E2 & E3). apply chain_of_sound in E2.
  split; [exact E1|]. split.
  - destruct r as [o s'] eqn:Er. cbn [fst snd] in *. eapply run_vm_ok; [apply fresh_state_vm_ok|exact Er|].
    intros a Ha. rewrite E1 in Ha. discriminate.
  - split; [exact E2|]. split; [exact E3|].
    intros Hl. specialize (Hl _ E2). inversion Hl; subst. cbn [snd] in *. lia.
Qed.

(* ------------------------------------------------------------------ *)
(* what vm_ok says, without the auxiliary definitions                  *)
(* ------------------------------------------------------------------ *)
Theorem vm_ok_meaning : forall s, vm_ok s ->
  exists l : list (N * nat),                                   (* (address, slot) of the nodes, head first *)
    open_list s l /\                                           (* following u_next from st_open visits exactly l *)
    StronglySorted (fun x y => y < x) (map snd l) /\           (* strictly descending slots *)
    NoDup (map fst l) /\
    (forall a loc, In (a, loc) l ->                            (* every node is an OPEN upvalue object of its slot *)
       exists v nx, hget (st_heap s) a = Some (OUp (mkUp (Some loc) v nx))) /\
    Forall (fun x => snd x < length (vdata (st_stack s))) l /\ (* inside the stack array *)
    (forall a u loc, hget (st_heap s) a = Some (OUp u) -> u_loc u = Some loc -> In (a, loc) l) /\
    (forall ca h ar ups ua u loc,                              (* in particular the open upvalues of every closure *)
       hget (st_heap s) ca = Some (OClo h ar ups) -> In ua ups ->
       hget (st_heap s) ua = Some (OUp u) -> u_loc u = Some loc -> In (ua, loc) l) /\
    vcount (st_stack s) < length (vdata (st_stack s)) /\
    Forall (fun f => N.to_nat (fr_off f) < length (vdata (st_stack s))) (st_calls s).
Proof.
  intros s ((l & Hseg & D & Hb & Hc) & Hcnt & Hf). exists l.
  assert (Hobj : forall a u loc, hget (st_heap s) a = Some (OUp u) -> u_loc u = Some loc -> In (a, loc) l).
  { intros a u loc Hg Hl.
    assert (Hin : In a (addrs l)) by (apply Hc; rewrite Hg; cbn; rewrite Hl; discriminate).
    unfold addrs in Hin. apply in_map_iff in Hin. destruct Hin as ([a' k] & Ea & Hin). cbn in Ea. subst a'.
    destruct (seg_view _ _ _ _ _ _ Hseg Hin) as (nx & Ev). rewrite Hg in Ev. cbn in Ev. rewrite Hl in Ev.
    injection Ev as -> _. exact Hin. }
  split; [exact Hseg|]. split; [exact D|]. split; [eapply seg_nodup; eauto|].
  split.
  { intros a loc Hin. destruct (seg_view _ _ _ _ _ _ Hseg Hin) as (nx & Ev).
    destruct (oview_some _ _ _ Ev) as (v & Hg). eauto. }
  split; [exact Hb|]. split; [exact Hobj|].
  split; [intros ca h ar ups ua u loc _ _ Hg Hl; eapply Hobj; eauto|].
  split; [exact Hcnt|exact Hf].
Qed.
