(* C01, simulation, fragment F10 (C01SimDefs10: F9 plus calls as statement cards): compile_correct, assembled as for F9
   (C01SimF9c) from the compiler half (C01SimComp10), the reference half (C01SimRef10) and the VM half (C01SimF10b).
   New: at the end of main the values call statements left on the stack stay there - the Pops remove as many values as
   there are locals, from the top -; Exit does not look at the stack.  [f10_no_return_is_nil]: a function whose body ends
   without a Return card reaches the closing Return instruction with nil on top of whatever it left on the stack. *)
From Coq Require Import List NArith ZArith Bool Lia.
From Cao Require Import ListUtil CheckUtil Bits CardAst Bytecode Compiler CompilerProofs CompilerWf CompilerResolve CompilerOk.
From Cao Require Import Stacks Vm VmProofs C04VmProofs C15Link.
From Cao Require RefSem TableProofs CompilerLabels.
From Cao Require Import C01SimKeep C01SimVm C01SimDefs C01SimRef C01SimF1 C01SimDefs2 C01SimF2 C01SimDefs4 C01SimDefs5 C01SimRef5 C01SimF5.
From Cao Require Import C01SimVm9 C01SimDefs9 C01SimF9 C01SimF9b C01SimF9c C01SimDefs10 C01SimF10b C01SimComp10 C01SimRef10.
Import ListNotations.
Local Open Scope N_scope.

Arguments N.add : simpl never.
Arguments N.of_nat : simpl never.
Arguments N.to_nat : simpl never.

(* ------------------------------------------------------------------ main never returns *)
Section NoRet.
Variable cs : callsem9.
Variable sg : sig9.

Lemma no_ret_stmt10 c : forall Ln R g, stmt10 sg false Ln c = true -> forall w, fst (fst (run10 cs R g c)) <> ORet9 w.
Proof.
  induction c; intros Ln R g Hc w; cbn [stmt10] in Hc; try discriminate Hc; cbn [run10].
  - destruct op; try discriminate Hc; apply andb_true_iff in Hc; destruct Hc as [_ Hb];
      (destruct (ev (R ++ g) c1) as [x|]; [destruct (RefSem.v_bool [] x)|]; cbn [fst]; try discriminate; eapply IHc2; eauto).
  - destruct op; cbn [andb] in Hc; discriminate Hc.
  - destruct op; try discriminate Hc. apply andb_true_iff in Hc. destruct Hc as [Hc Hb].
    apply andb_true_iff in Hc. destruct Hc as [_ Ha].
    destruct (ev (R ++ g) c1) as [x|]; [destruct (RefSem.v_bool [] x)|]; cbn [fst]; try discriminate;
      [eapply IHc2 | eapply IHc3]; eauto.
  - destruct (run_rhs9 cs R g (CCall name args)) as [[x|] g1]; cbn [fst]; discriminate.
  - destruct (run_rhs9 cs R g c) as [[x|] g1]; cbn [fst]; discriminate.
  - destruct (run_rhs9 cs R g c) as [[x|] g1]; cbn [fst]; discriminate.
Qed.

Lemma no_ret_top10 c Ln R g : top10 sg false Ln c = true -> forall w, fst (fst (run10 cs R g c)) <> ORet9 w.
Proof.
  destruct c; try (apply no_ret_stmt10).
  intros _ w. cbn [run10]. destruct (run_rhs9 cs R g c) as [[x|] g1]; cbn [fst]; discriminate.
Qed.

Lemma no_ret_cards10 cards : forall Ln R g, cards10 sg false Ln cards = true -> forall v, fst (fst (runs10 cs R g cards)) <> ORet9 v.
Proof.
  induction cards as [|c r IH]; intros Ln R g Hc v; cbn [runs10 cards10] in *; [cbn [fst]; discriminate|].
  apply andb_true_iff in Hc. destruct Hc as [Hc Hr].
  pose proof (no_ret_top10 c Ln R g Hc) as Hn. destruct (run10 cs R g c) as [[o1 R1] g1]. cbn [fst] in Hn.
  destruct o1; [eapply IH; eauto | exfalso; eapply Hn; reflexivity | cbn [fst]; discriminate].
Qed.
End NoRet.

(* ------------------------------------------------------------------ the calls of a compiled program on the VM *)
Lemma f10_calls_ok F bld M B :
  in_f10 M = true ->
  compile M default_options = COk B ->
  N.of_nat (length (Compiler.p_ids B)) < two32 ->
  N.of_nat (length (Compiler.p_bytecode B)) < 2147483648 ->
  CompilerLabels.label_keys_distinct_module M 64 = true ->
  calls_ok9 F bld (C15Link.to_vm B) (Compiler.p_ids B) (gnames10 M) (ftab_of M)
            (sem10 (other_fns M)) (sig_of (other_fns M)) (need_fs10 (other_fns M)) (length (other_fns M)).
Proof.
  intros HM HB Hlen Hsmall Hdist.
  destruct (compile_f10_shape_code M B HM HB Hlen) as (rest & Hbc & Hnames & Tinj & Tlt & Hinj).
  pose proof (compile_f10_labels M B HM HB Hlen Hdist) as Hlabels.
  destruct M as [subs funs imps]. cbn [in_f10] in HM.
  destruct subs; [|discriminate]. destruct funs as [|[name f0] others]; [discriminate|]. destruct imps; [|discriminate].
  apply andb_true_iff in HM. destruct HM as [HM Hfns]. apply andb_true_iff in HM. destruct HM as [HM Hcards].
  apply andb_true_iff in HM. destruct HM as [HM Hnd]. apply andb_true_iff in HM. destruct HM as [_ Hargs].
  set (M := Module [] ((name, f0) :: others) []) in *.
  set (T := Compiler.p_ids B) in *. set (names := gnames10 M) in *. set (P := C15Link.to_vm B).
  set (FT := ftab_of M) in *. set (cards := f_cards f0) in *.
  set (cm := code_main10 T FT cards).
  assert (Hcode : p_code P = encode (cm ++ code_fns10 T FT (bytes cm) others ++ rest)).
  { change (p_code P) with (Compiler.p_bytecode B). rewrite Hbc. unfold code_all10. cbn [main_fn other_fns M].
    fold FT cards cm. rewrite <- !app_assoc. reflexivity. }
  assert (Psmall : code_len P < 2147483648) by exact Hsmall.
  assert (Hplaced : placed10 P T names FT others).
  { apply (placed10_intro P T names FT Psmall others 1 cm rest Hcode).
    - exact Hlabels.
    - intros j n f Hj. replace (1 + N.of_nat j) with (0 + N.of_nat (S j)) by lia.
      apply (sm_find_ftab ((name, f0) :: others) 0 Hnd (S j) n f Hj).
    - intros n f Hin x Hx.
      assert (Hxn : In x names).
      { unfold names, gnames10. cbn [m_functions M]. apply in_flat_map. exists (n, f). split; [right; exact Hin | exact Hx]. }
      split; [exact Hxn | apply Hnames, Hxn]. }
  cbn [other_fns M].
  exact (fns_sim10 F bld P T names FT Tlt Tinj Hinj Psmall others Hfns Hplaced).
Qed.

(* at the Return instruction of a callee the caller's part of the stack (and every frame under the callee's) is intact *)
Theorem f10_call_keeps_caller_stack F bld M B :
  in_f10 M = true ->
  compile M default_options = COk B ->
  N.of_nat (length (Compiler.p_ids B)) < two32 ->
  N.of_nat (length (Compiler.p_bytecode B)) < 2147483648 ->
  CompilerLabels.label_keys_distinct_module M 64 = true ->
  forall name n, sm_find name (sig_of (other_fns M)) = Some n ->
  exists h pos,
    sm_find name (ftab_of M) = Some (h, N.of_nat n mod two32) /\ Vm.assoc h (p_labels (C15Link.to_vm B)) = Some pos /\
    forall vals g gv below fr rest hp v g',
      length vals = n -> Forall simple vals -> grel (Compiler.p_ids B) (gnames10 M) g gv -> gsimple g ->
      N.to_nat (fr_off fr) = length below -> (length below + need_fs10 (other_fns M) < cap)%nat ->
      (length rest + length (other_fns M) < call_stack_size)%nat ->
      sem10 (other_fns M) name vals g = (Some v, g') ->
      exists k gv' fr' hp' ipr mid,
        steps9 F bld (C15Link.to_vm B) cap k (pos, below ++ map to_vm vals, gv, fr :: rest, hp)
               (ipr, below ++ mid ++ [to_vm v], gv', fr' :: rest, hp') /\
        fr_off fr' = fr_off fr /\ code_at (C15Link.to_vm B) ipr IReturn /\
        grel (Compiler.p_ids B) (gnames10 M) g' gv'.
Proof.
  intros HM HB Hlen Hsmall Hdist name n Hfind.
  destruct (f10_calls_ok F bld M B HM HB Hlen Hsmall Hdist name n Hfind) as (h & pos & A & _ & C & D).
  exists h, pos. split; [exact A|]. split; [exact C|].
  intros vals g gv below fr rest hp v g' L1 L2 L3 L4 L5 L6 L7 E.
  specialize (D vals g gv below fr rest hp L1 L2 L3 L4 L5 L6 L7). rewrite E in D.
  destruct D as (k & gv' & fr' & hp' & ipr & mid & D1 & D2 & D3 & D4 & _).
  exists k, gv', fr', hp', ipr, mid. auto.
Qed.

(* ------------------------------------------------------------------ the theorem *)
Theorem compile_correct_f10 F bld M B fuel host o :
  in_f10 M = true ->
  depth_ok10 M = true ->
  compile M default_options = COk B ->
  N.of_nat (length (Compiler.p_ids B)) < two32 ->
  N.of_nat (length (Compiler.p_bytecode B)) < 2147483648 ->
  CompilerLabels.label_keys_distinct_module M 64 = true ->
  RefSem.eval_program fuel M host = RefSem.PObs o ->
  exists N0 : nat, forall budget : nat, (N0 <= budget)%nat ->
    let r := Vm.run F bld budget (C15Link.to_vm B) fresh_state in
    vm_kind (fst r) = Some (RefSem.ob_kind o) /\
    forall n, no_collision (gnames10 M) n ->
      option_map vm_tree (read_var_by_name (C15Link.to_vm B) (snd r) n) = RefSem.assoc n (RefSem.ob_globals o).
Proof.
  intros HM Hdepth HB Hlen Hsmall Hdist Href.
  destruct (compile_f10_shape_code M B HM HB Hlen) as (rest & Hbc & Hnames & Tinj & Tlt & Hinj).
  pose proof (compile_f10_labels M B HM HB Hlen Hdist) as Hlabels.
  destruct (eval_program_f10 fuel M host o HM Href) as (g & Hrun & Hkind & Hgs & Hglob).
  destruct M as [subs funs imps]. cbn [in_f10] in HM.
  destruct subs; [|discriminate]. destruct funs as [|[name f0] others]; [discriminate|]. destruct imps; [|discriminate].
  apply andb_true_iff in HM. destruct HM as [HM Hfns]. apply andb_true_iff in HM. destruct HM as [HM Hcards].
  apply andb_true_iff in HM. destruct HM as [HM Hnd]. apply andb_true_iff in HM. destruct HM as [_ Hargs].
  assert (Ha : f_args f0 = []) by (destruct (f_args f0); [reflexivity | discriminate]).
  set (M := Module [] ((name, f0) :: others) []) in *.
  set (T := Compiler.p_ids B) in *. set (names := gnames10 M) in *. set (P := C15Link.to_vm B).
  set (FT := ftab_of M) in *. set (cards := f_cards f0) in *.
  set (ct := code_top10 T FT [] 0 cards). set (npop := length (names_end [] cards)).
  set (cm := code_main10 T FT cards).
  assert (Ecm : cm = ct ++ repeat IPop npop ++ [IExit]) by reflexivity.
  assert (Hcode : p_code P = encode (cm ++ code_fns10 T FT (bytes cm) others ++ rest)).
  { change (p_code P) with (Compiler.p_bytecode B). rewrite Hbc. unfold code_all10. cbn [main_fn other_fns M].
    fold FT cards cm. rewrite <- !app_assoc. reflexivity. }
  assert (Psmall : code_len P < 2147483648) by exact Hsmall.
  assert (Hnm : forall l, (forall x, In x l -> In x names) ->
                forall x, In x l -> In x names /\ nm_find (handle_of_bytes x) T <> None).
  { intros l Hl x Hx. split; [apply Hl, Hx | apply Hnames, Hl, Hx]. }
  (* the functions are where their handles and labels say *)
  assert (Hplaced : placed10 P T names FT others).
  { apply (placed10_intro P T names FT Psmall others 1 cm rest Hcode).
    - exact Hlabels.
    - intros j n f Hj. replace (1 + N.of_nat j) with (0 + N.of_nat (S j)) by lia.
      apply (sm_find_ftab ((name, f0) :: others) 0 Hnd (S j) n f Hj).
    - intros n f Hin. apply Hnm. intros x Hx. unfold names, gnames10. cbn [m_functions M].
      apply in_flat_map. exists (n, f). split; [right; exact Hin | exact Hx]. }
  pose proof (fns_sim10 F bld P T names FT Tlt Tinj Hinj Psmall others Hfns Hplaced) as Hcalls.
  unfold depth_ok10 in Hdepth. apply andb_true_iff in Hdepth. destruct Hdepth as [Hstack Hcd].
  apply Nat.ltb_lt in Hstack. apply Nat.ltb_lt in Hcd. cbn [m_functions M length] in Hcd.
  unfold stack_need10 in Hstack. cbn [m_functions M fold_right snd] in Hstack. fold (need_fs10 others) in Hstack.
  unfold frame_need10 in Hstack. rewrite Ha in Hstack. fold cards npop in Hstack.
  set (top0 := mkFrame 0 0 0 None).
  assert (Hdn : (length (@nil frame) + 1 + length others < call_stack_size)%nat) by (cbn [length]; lia).
  unfold run_main10 in Hrun. cbn [main_fn other_fns M] in Hrun. fold cards in Hrun.
  destruct (runs10 (sem10 others) [] [] cards) as [[out R'] g1] eqn:Eruns.
  assert (Hrel0 : grel T names [] []).
  { intros x _. unfold gread. cbn [RefSem.assoc option_map].
    destruct (nm_find (handle_of_bytes x) T) as [id|]; [|reflexivity]. destruct (N.to_nat id); reflexivity. }
  destruct (body_sim10 F bld P T names FT Tlt Tinj Hinj Psmall (sem10 others) (sig_of others) (need_fs10 others) (length others)
              Hcalls [] [] Hdn false cards [] [] out R' g1 Hcards Eruns [] [] [] top0 []) as [[_ Hsim] Hln].
  { exists (repeat IPop npop ++ [IExit] ++ code_fns10 T FT (bytes cm) others ++ rest).
    rewrite Hcode, Ecm. cbn [app lnames map bytes]. fold ct. rewrite <- !app_assoc. reflexivity. }
  { apply Hnm. intros x Hx. unfold names, gnames10. cbn [m_functions M flat_map snd]. apply in_or_app. left.
    unfold fn_gnames10. rewrite Ha. exact Hx. }
  { reflexivity. }
  { intros c Hin. pose proof (stmt_depth_le10 P Psmall cards c Hin). cbn [lnames map length Nat.add]. fold npop.
    unfold cap. lia. }
  { exact Hrel0. }
  { constructor. }
  change (bytes []) with 0 in Hsim. change (lnames []) with (@nil str) in *. fold ct in Hsim.
  change (lstack []) with (@nil value) in Hsim. cbn [app] in Hsim.
  assert (Hread : forall s' gv', st_globals s' = gv' -> grel T names g gv' ->
            forall x, no_collision names x ->
            option_map vm_tree (read_var_by_name P (set_calls s' []) x) = RefSem.assoc x (RefSem.ob_globals o)).
  { intros s' gv' Hg' Hrel x Hx. rewrite Hglob, assoc_map_tree, (Hrel x Hx). f_equal.
    unfold read_var_by_name, gread. cbn [st_globals set_calls]. rewrite Hg', assoc_nm_find. reflexivity. }
  assert (Hentry : forall budget re, Vm.run F bld budget P fresh_state =
            finish P (loop F bld P (re budget) budget 0 (set_rem (set_calls fresh_state calls0) (N.of_nat budget))) ->
            True) by (intros; exact I).
  clear Hentry.
  destruct out as [|vret|].
  - (* main ran to its end *)
    injection Hrun as Hb <-.
    assert (Ek : RefSem.ob_kind o = RefSem.KOk) by (destruct (RefSem.ob_kind o); [reflexivity | discriminate Hb]).
    destruct Hsim as (k & gv' & top' & hp' & J' & Hsteps & _ & Hrel & HJ').
    specialize (Hln eq_refl).
    assert (Hnp : length (lstack R') = npop) by (rewrite lstack_length, <- (lnames_length R'), Hln; reflexivity).
    set (L := lstack R' ++ J') in *.
    set (mid := firstn (length J') L). set (l2 := skipn (length J') L).
    assert (HL : L = mid ++ l2) by (symmetry; apply firstn_skipn).
    assert (HlenL : length L = (npop + length J')%nat) by (unfold L; rewrite app_length, Hnp; reflexivity).
    assert (Hl2 : length l2 = npop) by (unfold l2; rewrite skipn_length; lia).
    rewrite HL in Hsteps.
    assert (Spop : seg P ct (repeat IPop (length l2))).
    { rewrite Hl2. exists ([IExit] ++ code_fns10 T FT (bytes cm) others ++ rest). rewrite Hcode, Ecm, <- !app_assoc. reflexivity. }
    pose proof (pops10 F bld P (length others) mid [] Hdn l2 ct gv' [top'] hp' Spop) as Hpops. rewrite Hl2 in Hpops.
    cbn [app] in Hpops.
    pose proof (steps9_trans F bld P cap _ _ _ _ _ Hsteps Hpops) as Hall.
    exists (k + npop + 2)%nat. intros budget Hbud r.
    set (re := run_at F bld P false (N.of_nat budget) 129).
    set (s2 := set_rem (set_calls fresh_state calls0) (N.of_nat budget)).
    assert (Hr : r = finish P (loop F bld P re budget 0 s2)).
    { subst r. unfold run, run_gen.
      change (push_frame fresh_state (mkFrame 0 0 0 None)) with (Some (set_calls fresh_state calls0)).
      change max_depth with (S 129). cbv beta iota zeta. rewrite run_at_S. cbn [st_rem set_rem]. rewrite Nat2N.id. reflexivity. }
    clearbody r. subst r.
    pose proof (St_entry (N.of_nat budget)) as HS2. fold s2 in HS2.
    destruct (loop_steps9 F bld P cap re _ _ _ Hall (budget - (k + npop)) s2 _ HS2) as (s' & HS' & El); [lia|].
    cbn [ip9 stk9 gl9 calls9 heap9] in HS', El. replace (k + npop + (budget - (k + npop)))%nat with budget in El by lia.
    assert (Hex : code_at P (bytes (ct ++ repeat IPop npop)) IExit).
    { apply (code_at_encode P (ct ++ repeat IPop npop) IExit (code_fns10 T FT (bytes cm) others ++ rest)).
      rewrite Hcode, Ecm, <- !app_assoc. reflexivity. }
    replace (budget - (k + npop))%nat with (S (budget - (k + npop) - 1)) in El by lia.
    destruct (@loop_exit F bld P cap _ _ _ _ re (budget - (k + npop) - 1) _ s' _ _ _ HS' Hex) as (s'' & Eex & _ & Hg''); [lia|].
    rewrite Eex in El.
    rewrite El. cbn [finish outcome_of fst snd vm_kind]. rewrite Ek. split; [reflexivity|].
    eapply Hread; eauto.
  - exfalso. pose proof (no_ret_cards10 (sem10 others) (sig_of others) cards [] [] [] Hcards vret) as X.
    rewrite Eruns in X. apply X. reflexivity.
  - injection Hrun as Hb <-.
    assert (Ek : RefSem.ob_kind o = RefSem.KErr RefSem.EVarNotFound).
    { destruct Hkind as [Hk|Hk]; [rewrite Hk in Hb; discriminate Hb | exact Hk]. }
    destruct Hsim as (k & c1 & Hsteps & Hfail & Hrel).
    exists (k + 2)%nat. intros budget Hbud r.
    set (re := run_at F bld P false (N.of_nat budget) 129).
    set (s2 := set_rem (set_calls fresh_state calls0) (N.of_nat budget)).
    assert (Hr : r = finish P (loop F bld P re budget 0 s2)).
    { subst r. unfold run, run_gen.
      change (push_frame fresh_state (mkFrame 0 0 0 None)) with (Some (set_calls fresh_state calls0)).
      change max_depth with (S 129). cbv beta iota zeta. rewrite run_at_S. cbn [st_rem set_rem]. rewrite Nat2N.id. reflexivity. }
    clearbody r. subst r.
    pose proof (St_entry (N.of_nat budget)) as HS2. fold s2 in HS2.
    destruct (loop_steps9 F bld P cap re _ _ _ Hsteps (budget - k) s2 _ HS2) as (s' & HS' & El); [lia|].
    cbn [ip9 stk9 gl9 calls9 heap9] in El. replace (k + (budget - k))%nat with budget in El by lia.
    replace (budget - k)%nat with (S (budget - k - 1)) in El by lia.
    destruct (loop_fail9 F bld P Psmall re (budget - k - 1) c1 s' _ Hfail HS') as (nm & s'' & Eerr & Hg''); [lia|].
    rewrite Eerr in El.
    rewrite El. cbn [finish outcome_of fst snd vm_kind kind_of_err]. rewrite Ek. split; [reflexivity|].
    eapply Hread; eauto.
Qed.

(* a function whose body ends without Return returns nil: the closing  ScalarNil; Return  is reached with nil on top of
   the caller's intact stack and of what the call statements of the body left ([mid]) *)
Theorem f10_no_return_is_nil F bld M B :
  in_f10 M = true ->
  compile M default_options = COk B ->
  N.of_nat (length (Compiler.p_ids B)) < two32 ->
  N.of_nat (length (Compiler.p_bytecode B)) < 2147483648 ->
  CompilerLabels.label_keys_distinct_module M 64 = true ->
  forall i name f, nth_error (other_fns M) i = Some (name, f) ->
  exists h pos,
    sm_find name (ftab_of M) = Some (h, N.of_nat (length (f_args f)) mod two32) /\ Vm.assoc h (p_labels (C15Link.to_vm B)) = Some pos /\
    forall vals g gv below fr rest hp R' g',
      length vals = length (f_args f) -> Forall simple vals -> grel (Compiler.p_ids B) (gnames10 M) g gv -> gsimple g ->
      N.to_nat (fr_off fr) = length below -> (length below + need_fs10 (other_fns M) < cap)%nat ->
      (length rest + length (other_fns M) < call_stack_size)%nat ->
      runs10 (sem10 (skipn (S i) (other_fns M))) (combine (f_args f) (rev vals)) g (f_cards f) = (ONorm9, R', g') ->
      sem10 (other_fns M) name vals g = (Some RefSem.VNil, g') /\
      exists k gv' fr' hp' ipr mid,
        steps9 F bld (C15Link.to_vm B) cap k (pos, below ++ map to_vm vals, gv, fr :: rest, hp)
               (ipr, below ++ mid ++ [VNil], gv', fr' :: rest, hp') /\
        fr_off fr' = fr_off fr /\ code_at (C15Link.to_vm B) ipr IReturn /\
        grel (Compiler.p_ids B) (gnames10 M) g' gv'.
Proof.
  intros HM HB Hlen Hsmall Hdist i name f Hnth.
  assert (Hnd : snodup (map fst (other_fns M)) = true).
  { destruct M as [subs funs imps]. cbn [in_f10] in HM.
    destruct subs; [|discriminate]. destruct funs as [|[nm f0] others]; [discriminate|]. destruct imps; [|discriminate].
    apply andb_true_iff in HM. destruct HM as [HM _]. apply andb_true_iff in HM. destruct HM as [HM _].
    apply andb_true_iff in HM. destruct HM as [_ Hnd]. cbn [map fst snodup] in Hnd. apply andb_true_iff in Hnd.
    cbn [other_fns]. exact (proj2 Hnd). }
  assert (Hsem : forall fs j, snodup (map fst fs) = true -> nth_error fs j = Some (name, f) ->
            sig_of fs <> [] /\ sm_find name (sig_of fs) = Some (length (f_args f)) /\
            forall vals g, sem10 fs name vals g = call10 (sem10 (skipn (S j) fs)) f vals g).
  { induction fs as [|[m fm] r IH]; intros [|j] Hn Hj; cbn [nth_error] in Hj; try discriminate Hj.
    - injection Hj as -> ->. split; [discriminate|]. cbn [sig_of map sm_find fst snd sem10 skipn]. rewrite str_eqb_refl.
      split; [reflexivity|]. reflexivity.
    - cbn [map fst snodup] in Hn. apply andb_true_iff in Hn. destruct Hn as [Hm Hr].
      destruct (IH j Hr Hj) as (_ & A & Bq). split; [discriminate|].
      assert (E : str_eqb name m = false).
      { destruct (str_eqb name m) eqn:E; [|reflexivity]. apply str_eqb_eq in E. subst m. exfalso. apply negb_true_iff in Hm.
        assert (X : smem name (map fst r) = true); [|congruence].
        unfold smem. apply existsb_exists. exists name. split; [|apply str_eqb_refl].
        apply in_map_iff. exists (name, f). split; [reflexivity | eapply nth_error_In; eauto]. }
      cbn [sig_of map sm_find fst snd sem10]. rewrite E. split; [exact A|]. intros vals g. cbn [skipn]. apply Bq. }
  destruct (Hsem (other_fns M) i Hnd Hnth) as (_ & Hfind & Hcall).
  destruct (f10_calls_ok F bld M B HM HB Hlen Hsmall Hdist name _ Hfind) as (h & pos & A & _ & C & D).
  exists h, pos. split; [exact A|]. split; [exact C|].
  intros vals g gv below fr rest hp R' g' L1 L2 L3 L4 L5 L6 L7 E.
  specialize (D vals g gv below fr rest hp L1 L2 L3 L4 L5 L6 L7).
  assert (Es : sem10 (other_fns M) name vals g = (Some RefSem.VNil, g')).
  { rewrite Hcall. unfold call10. rewrite E. reflexivity. }
  split; [exact Es|]. rewrite Es in D.
  destruct D as (k & gv' & fr' & hp' & ipr & mid & D1 & D2 & D3 & D4 & _).
  exists k, gv', fr', hp', ipr, mid. auto.
Qed.
