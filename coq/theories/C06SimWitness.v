(* C06, refinement: the witness program of the end-to-end example and of the satisfiability examples of the
   rep_* theorems (Properties/C06.v).  Executable definitions only.

   main:  repeat 1 {                       -- a block scope: its local x lives in slot 2
            x := 5
            inc := fn(){ x := x + 1 }      -- two sibling closures capture x (one shared upvalue object)
            get := fn(){ out := x }
            r1 := inc()   r2 := get()      -- called while x's scope is alive: open upvalue, cell = slot 2
            x := x + 10                    -- main writes the same cell
            seen_open := out }             -- (= 6)
          r3 := inc()   r4 := get()        -- called after the scope has ended: closed upvalue, cell = the object
          -- out = 17: main's write and inc's write after the scope exit, read by the sibling get *)
From Coq Require Import List NArith ZArith Bool Arith String Ascii.
Import ListNotations.
From Cao Require Import CardAst RefSem Bytecode.
From Cao Require Compiler CompilerProofs C15Link Vm.
Local Open Scope string_scope.
Local Open Scope list_scope.

Definition ws (x : string) : str := map (fun a => N_of_ascii a) (list_ascii_of_string x).
Definition wcall0 (f : string) : card := CDynamicCall (CReadVar (ws f)) [].
Definition sim_example : module :=
  Module [] [(ws "main", Build_function []
    [CRepeat None (CScalarInt 1)
       (CComposite (ws "")
          [CSetVar (ws "x") (CScalarInt 5);
           CSetGlobalVar (ws "inc") (CClosure [] [CSetVar (ws "x") (CBin BAdd (CReadVar (ws "x")) (CScalarInt 1))]);
           CSetGlobalVar (ws "get") (CClosure [] [CSetGlobalVar (ws "out") (CReadVar (ws "x"))]);
           CSetGlobalVar (ws "r1") (wcall0 "inc");
           CSetGlobalVar (ws "r2") (wcall0 "get");
           CSetVar (ws "x") (CBin BAdd (CReadVar (ws "x")) (CScalarInt 10));
           CSetGlobalVar (ws "seen_open") (CReadVar (ws "out"))]);
     CSetGlobalVar (ws "r3") (wcall0 "inc");
     CSetGlobalVar (ws "r4") (wcall0 "get")])] [].

Definition wnofloat : Vm.fops :=
  Vm.mkFops (fun _ _ => 0%N) (fun _ _ => 0%N) (fun _ _ => 0%N) (fun _ _ => 0%N) (fun _ _ => None)
         (fun _ => 0%N) (fun _ => 0%Z).

Definition sim_compiled : option Compiler.compiled :=
  match Compiler.compile sim_example CompilerProofs.default_options with Compiler.COk B => Some B | _ => None end.
Definition sim_program : Vm.program :=
  match sim_compiled with Some B => C15Link.to_vm B | None => Vm.mkProgram [] [] [] [] [] [] end.

(* the state in which the n-th instruction of the run is about to be dispatched, and its address: the run with
   budget n stops there with Timeout (frames, stack, heap and list as they are at that moment) *)
Definition sim_entry : Vm.state :=
  match Vm.push_frame Vm.fresh_state (Vm.mkFrame 0 0 0 None) with Some s => s | None => Vm.fresh_state end.
Definition sim_at (n : nat) : N * Vm.state :=
  match Vm.run_at wnofloat Vm.Debug sim_program false (N.of_nat n) Vm.max_depth 0 (Vm.set_rem sim_entry (N.of_nat n)) with
  | Vm.RErr Vm.ETimeout ip s => (ip, s)
  | _ => (0%N, Vm.fresh_state)
  end.
Definition sim_ip (n : nat) : N := fst (sim_at n).
Definition sim_st (n : nat) : Vm.state := snd (sim_at n).
