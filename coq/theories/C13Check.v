(* Executable correspondence checker for C13 (HandleTable).  Values are instance ids (drop log). *)
From Cao Require Export CheckUtil Bits F32Load Consts ProbeDefs HashMap HandleTable HandleTableConsts.
From Coq Require Import Sorting.Mergesort Orders.
Local Open Scope N_scope.

Definition tclone_off : N := 1000000.
Definition tclone_v (v : N) : N := v + tclone_off.
Definition trun := @ht_run N fib_home32 ht_needs_grow ht_grow_cap ht_min_cap_nat ht_reserve_cap tclone_v.
Definition tnew := @ht_new N ht_min_cap_nat.
Definition ctop := top N.
Definition ctout := tout N.

Definition tins (h v : N) (ok : bool) : ctop := TInsert h v ok.
Definition tent (h v : N) (ok : bool) : ctop := TEntryIns h v ok.
Definition tentd (h : N) (ok : bool) : ctop := @TEntryDrop N h ok.
Definition trem (h : N) : ctop := @TRemove N h.
Definition tget (h : N) : ctop := @TGet N h.
Definition tcon (h : N) : ctop := @TContains N h.
Definition tgms (h v : N) : ctop := TGetMutSet h v.
Definition tidx (h : N) : ctop := @TIndex N h.
Definition tres (a : nat) (ok : bool) : ctop := @TReserve N a ok.
Definition tclear : ctop := @TClear N.
Definition tclone : ctop := @TClone N.
Definition tlen : ctop := @TLen N.
Definition tcapq : ctop := @TCap N.
Definition titer : ctop := @TIter N.
Definition tounit : ctout := @TOUnit N.
Definition toerralloc : ctout := @TOErrAlloc N.
Definition toerrinvalid : ctout := @TOErrInvalid N.
Definition tooptv (o : option N) : ctout := TOOptV o.
Definition tobool (b : bool) : ctout := @TOBool N b.
Definition tonat (n : nat) : ctout := @TONat N n.
Definition tolist (l : list (N * N)) : ctout := TOList l.
Definition toclone (c : nat) (l : list (N * N)) : ctout := TOClone c l.
Definition todiverge : ctout := @TODiverge N.
Definition topanic : ctout := @TOPanic N.

Definition nn_eqb (a b : N * N) : bool := N.eqb (fst a) (fst b) && N.eqb (snd a) (snd b).

Definition ctout_eqb (a b : ctout) : bool :=
  match a, b with
  | @TOUnit _, @TOUnit _ => true
  | @TOErrAlloc _, @TOErrAlloc _ => true
  | @TOErrInvalid _, @TOErrInvalid _ => true
  | @TOOptV _ o, @TOOptV _ o' => opt_eqb N.eqb o o'
  | @TOBool _ x, @TOBool _ y => Bool.eqb x y
  | @TONat _ x, @TONat _ y => Nat.eqb x y
  | @TOList _ l, @TOList _ l' => list_eqb nn_eqb l l'
  | @TOClone _ c l, @TOClone _ c' l' => Nat.eqb c c' && list_eqb nn_eqb l l'
  | @TODiverge _, @TODiverge _ => true
  | @TOPanic _, @TOPanic _ => true
  | _, _ => false
  end.

Definition tobs : Type := (ctout * list N)%type.
Definition tobs_eqb (a b : tobs) : bool := ctout_eqb (fst a) (fst b) && list_eqb N.eqb (snd a) (snd b).

(* ---------- specification oracle: reference map handle |-> value id, with drop accounting ---------- *)
Module NOrder13 <: TotalLeBool.
  Definition t := N.
  Definition leb := N.leb.
  Lemma leb_total : forall a b, leb a b = true \/ leb b a = true.
  Proof. intros a b. unfold leb. destruct (N.leb_spec a b); auto. right. apply N.leb_le. lia. Qed.
End NOrder13.
Module NSort13 := Sort NOrder13.
Definition same_set13 (a b : list N) : bool := list_eqb N.eqb (NSort13.sort a) (NSort13.sort b).

Definition tmap : Type := list (N * N).
Fixpoint tlook (m : tmap) (h : N) : option N :=
  match m with
  | [] => None
  | (h', v) :: r => if N.eqb h h' then Some v else tlook r h
  end.
Definition tdel (m : tmap) (h : N) : tmap := filter (fun e => negb (N.eqb h (fst e))) m.
Definition nodup_n (l : list N) : bool :=
  (fix go (l seen : list N) :=
     match l with
     | [] => true
     | x :: r => negb (existsb (N.eqb x) seen) && go r (x :: seen)
     end) l [].
Definition titer_ok (m : tmap) (l : list (N * N)) (off : N) : bool :=
  Nat.eqb (length l) (length m) && nodup_n (map fst l) &&
  forallb (fun e => match tlook m (fst e) with Some v => N.eqb (snd e) (v + off) | None => false end) l.

Definition tsp_step (m : tmap) (o : ctop) (ob : tobs) : option tmap :=
  let '(out, dv) := ob in
  let nodrop := match dv with [] => true | _ => false end in
  match o with
  | @TInsert _ h v ok =>
      if N.eqb h 0 then
        if ctout_eqb out toerrinvalid && list_eqb N.eqb dv [v] then Some m else None
      else
        match tlook m h with
        | Some old =>
            if ctout_eqb out tounit && list_eqb N.eqb dv [old] then Some ((h, v) :: tdel m h)
            else if negb ok && ctout_eqb out toerralloc && list_eqb N.eqb dv [v] then Some m else None
        | None =>
            if ctout_eqb out tounit && nodrop then Some ((h, v) :: m)
            else if negb ok && ctout_eqb out toerralloc && list_eqb N.eqb dv [v] then Some m else None
        end
  | @TEntryIns _ h v ok =>
      match tlook m h with
      | Some old => if ctout_eqb out (tooptv (Some old)) && nodrop then Some m else None
      | None => if ctout_eqb out (tooptv (Some v)) && nodrop then Some ((h, v) :: m)
                else if negb ok && ctout_eqb out topanic then Some m else None
      end
  | @TEntryDrop _ h ok =>
      if (ctout_eqb out tounit || (negb ok && ctout_eqb out topanic)) && nodrop then Some m else None
  | @TRemove _ h =>
      match tlook m h with
      | Some v => if ctout_eqb out (tooptv (Some v)) && nodrop then Some (tdel m h) else None
      | None => if ctout_eqb out (tooptv None) && nodrop then Some m else None
      end
  | @TGet _ h => if ctout_eqb out (tooptv (tlook m h)) && nodrop then Some m else None
  | @TContains _ h =>
      if ctout_eqb out (tobool (match tlook m h with Some _ => true | None => false end)) && nodrop
      then Some m else None
  | @TGetMutSet _ h v =>
      match tlook m h with
      | Some old => if ctout_eqb out (tobool true) && list_eqb N.eqb dv [old] then Some ((h, v) :: tdel m h) else None
      | None => if ctout_eqb out (tobool false) && nodrop then Some m else None
      end
  | @TIndex _ h =>
      match tlook m h with
      | Some v => if ctout_eqb out (tooptv (Some v)) && nodrop then Some m else None
      | None => if ctout_eqb out topanic && nodrop then Some m else None   (* documented: index of an absent handle panics *)
      end
  | @TReserve _ _ ok =>
      if (ctout_eqb out tounit || (negb ok && ctout_eqb out toerralloc)) && nodrop then Some m else None
  | @TClear _ => if ctout_eqb out tounit && same_set13 dv (map snd m) then Some [] else None
  | @TClone _ =>
      match out with
      | @TOClone _ c l =>
          if titer_ok m l tclone_off && Nat.ltb (length m) c
             && same_set13 dv (map (fun e => snd e + tclone_off) m) then Some m else None
      | _ => None
      end
  | @TLen _ => if ctout_eqb out (tonat (length m)) && nodrop then Some m else None
  | @TCap _ => match out with
               | @TONat _ c => if Nat.ltb (length m) c && nodrop then Some m else None
               | _ => None end
  | @TIter _ => match out with
                | @TOList _ l => if titer_ok m l 0 && nodrop then Some m else None
                | _ => None end
  end.

Fixpoint tsp_run (m : tmap) (ops : list ctop) (obs : list tobs) : bool :=
  match ops, obs with
  | [], [] => true
  | o :: r, ob :: r' => match tsp_step m o ob with Some m' => tsp_run m' r r' | None => false end
  | _, _ => false
  end.

Inductive c13case := HtCase (cap0 : nat) (ops : list ctop) (obs : list tobs).

Definition check1 (c : c13case) : list N :=
  match c with
  | HtCase cap0 ops obs =>
      let m := snd (trun (tnew cap0) ops) in
      (if list_eqb tobs_eqb m obs then [] else [1]) ++
      (if tsp_run [] ops obs then [] else [2])
  end.

Definition check_all := CheckUtil.check_all check1.
