(* C07 at the level of the VM model, Part 6: the table invariant over WHOLE RUNS, nested runs included.

   The per-instruction theorem (VmTableNatives.step_tables_wf) has one side condition - the key of a SetProperty
   lies in the key domain [vkey] (nil, integers, reals that are == to themselves, live objects that are not
   tables) - and one hypothesis about the nested runs that natives start.  Here both are discharged over a run:

   * the KEY-CHECKED VM ([step_k] / [loop_k] / [run_at_k] / [run_k]) is the VM with one run-time check: a
     SetProperty whose key is outside the key domain stops the run with the distinguished outcome AUnmodelled
     (which [run] itself never produces).  Nested runs of the key-checked VM are key-checked runs.
   * [run_at_k_wf]: at every nesting depth, from every state whose tables satisfy the invariant, the key-checked
     run ends in such a state, the heap has only grown (hext), and every state the dispatch loop passes through
     satisfies the invariant - by induction over the nesting depth, the contract of the nested run being the
     statement one level down.  No hypothesis about the program (arbitrary bytecode), the budget, the build or
     intermediate states.
   * [run_at_agree_k]: a run of the VM on which the check never fails IS the key-checked run (natives and loops
     hand a stop upwards unchanged: C04VmAgree.step_agree), hence the same statements for [run_at] / [Vm.run]. *)
From Coq Require Import NArith ZArith List Lia Bool.
From Cao Require Import ListUtil Bits Stacks StacksProofs Vm VmProofs VmNativeProofs C04VmProofs
  VmTableProofs VmTableKeys VmTableInstr VmTableNatives C04VmChecked C04VmAgree.
Import ListNotations.

Arguments N.add : simpl never.
Arguments N.sub : simpl never.
Arguments N.mul : simpl never.
Arguments Z.add : simpl never.
Arguments Z.sub : simpl never.
Arguments Z.mul : simpl never.
Arguments Z.of_nat : simpl never.
Arguments N.of_nat : simpl never.
Arguments N.to_nat : simpl never.

(* ------------------------------------------------------------------ *)
(* the key domain as a boolean                                          *)
(* ------------------------------------------------------------------ *)
Definition cmp_is_eq (c : option comparison) : bool := match c with Some Eq => true | _ => false end.

Definition vkeyb (F : fops) (h : heap) (k : value) : bool :=
  match k with
  | VNil | VInt _ => true
  | VReal r => cmp_is_eq (f_cmp F r r)
  | VObj a => match hget h a with Some (OTable _) | None => false | Some _ => true end
  end.

Lemma vkeyb_spec F h k : vkeyb F h k = true <-> vkey F h k.
Proof.
  destruct k as [|z|r|a]; cbn [vkeyb vkey]; try tauto.
  - unfold cmp_is_eq. destruct (f_cmp F r r) as [[| |]|]; split; intros H; try reflexivity; try discriminate.
  - destruct (hget h a) as [[t|b|x y|x|x y z|u]|]; split; intros H; try exact I; try reflexivity;
      try discriminate; try contradiction.
Qed.

Section KeyChecked.
Variable F : fops.
Variable bld : build.
Variable P : program.

Notation wf := (tables_wf F).

(* the check: the key operand of a SetProperty (top of the value stack) lies in the key domain *)
Definition chk_key (ip0 : N) (s : state) : bool :=
  if (opcode_at P ip0 =? 33)%N then vkeyb F (st_heap s) (speek s 0) else true.

Definition step_k (reenter : N -> state -> rres) (ip0 : N) (s : state) : sres :=
  if chk_key ip0 s then step F bld P reenter ip0 s else SStop AUnmodelled s.

(* `_run` with the checked step *)
Fixpoint loop_k (reenter : N -> state -> rres) (fuel : nat) (ip : N) (s : state) : rres :=
  if (code_len P <=? ip)%N then RErr EUnexpectedEndOfInput ip s
  else
    let s := set_rem s (N.pred (st_rem s)) in
    if (st_rem s =? 0)%N then RErr ETimeout ip s
    else
      match fuel with
      | O => RStop ADiverge s
      | S f =>
          match step_k reenter ip (tick s) with
          | SNext ip' s' => loop_k reenter f ip' s'
          | SExit s' => ROk s'
          | SErr e _ s' => RErr e ip s'
          | SStop a s' => RStop a s'
          end
      end.

(* nesting exactly as Vm.run_at (current budget rule): depth 0 is the same ADiverge stop *)
Fixpoint run_at_k (depth : nat) (ip : N) (s : state) : rres :=
  match depth with
  | O => RStop ADiverge s
  | S d => loop_k (run_at_k d) (N.to_nat (st_rem s)) ip s
  end.

Definition run_k (budget : nat) (s : state) : outcome * state :=
  match push_frame s (mkFrame 0 0 0 None) with
  | None => (OErr ECallStackOverflow [], s)
  | Some s1 => finish P (run_at_k max_depth 0 (set_rem s1 (N.of_nat budget)))
  end.

(* ------------------------------------------------------------------ *)
(* the states a dispatch loop passes through                           *)
(* ------------------------------------------------------------------ *)
(* [loop_states step fuel ip s]: the states in which the loop of Vm.loop (with [stp] as its step function)
   dispatches an instruction, in order, followed by the state the loop ends in.  Each nested run is such a
   loop of its own (run_at d / run_at_k d for a smaller d). *)
Fixpoint loop_states (stp : N -> state -> sres) (fuel : nat) (ip : N) (s : state) : list state :=
  if (code_len P <=? ip)%N then [s]
  else
    let s := set_rem s (N.pred (st_rem s)) in
    if (st_rem s =? 0)%N then [s]
    else
      match fuel with
      | O => [s]
      | S f =>
          tick s ::
          match stp ip (tick s) with
          | SNext ip' s' => loop_states stp f ip' s'
          | SExit s' | SErr _ _ s' | SStop _ s' => [s']
          end
      end.

Lemma last_cons_dflt {A} (l : list A) : forall x d, last (x :: l) d = last l x.
Proof.
  induction l as [|y l IH]; intros x d; [reflexivity|].
  change (last (x :: y :: l) d) with (last (y :: l) d). rewrite (IH y d), (IH y x). reflexivity.
Qed.

(* the last state of [loop_states] is the state of the loop's result *)
Lemma loop_states_last_k re : forall fuel ip s,
  last (loop_states (step_k re) fuel ip s) s = rres_state (loop_k re fuel ip s).
Proof.
  induction fuel as [|f IH]; intros ip s; cbn [loop_states loop_k].
  - destruct (code_len P <=? ip)%N; [reflexivity|]. destruct (st_rem _ =? 0)%N; reflexivity.
  - destruct (code_len P <=? ip)%N; [reflexivity|]. destruct (st_rem _ =? 0)%N; [reflexivity|].
    rewrite last_cons_dflt.
    destruct (step_k re ip _) as [ip' s'|s'|e ip' s'|a s'] eqn:E; cbn [rres_state]; try reflexivity.
    rewrite <- (IH ip' s').
    assert (N : forall d1 d2, last (loop_states (step_k re) f ip' s') d1 = last (loop_states (step_k re) f ip' s') d2).
    { intros d1 d2. destruct f; cbn [loop_states]; destruct (code_len P <=? ip')%N; try reflexivity;
        destruct (st_rem _ =? 0)%N; try reflexivity. rewrite !last_cons_dflt. reflexivity. }
    apply N.
Qed.

(* ------------------------------------------------------------------ *)
(* the invariant over key-checked runs                                  *)
(* ------------------------------------------------------------------ *)
Definition GWs (s : state) (s' : state) : Prop := GW F (st_heap s) (st_heap s').

Lemma step_k_wf re ip0 s :
  (forall ip x, wf (st_heap x) -> GW F (st_heap x) (st_heap (rres_state (re ip x)))) ->
  wf (st_heap s) -> GW F (st_heap s) (st_heap (sres_state (step_k re ip0 s))).
Proof.
  intros Hre W. unfold step_k. destruct (chk_key ip0 s) eqn:C.
  - apply (step_tables_wf F bld P re Hre ip0 s W). intros Hop. unfold chk_key in C.
    rewrite Hop in C. cbn in C. apply vkeyb_spec. exact C.
  - cbn [sres_state]. apply GW_refl. exact W.
Qed.

Lemma loop_k_wf re :
  (forall ip x, wf (st_heap x) -> GW F (st_heap x) (st_heap (rres_state (re ip x)))) ->
  forall fuel ip s, wf (st_heap s) ->
    GW F (st_heap s) (st_heap (rres_state (loop_k re fuel ip s))) /\
    Forall (fun x => GW F (st_heap s) (st_heap x)) (loop_states (step_k re) fuel ip s).
Proof.
  intros Hre. induction fuel as [|f IH]; intros ip s W; cbn [loop_k loop_states].
  - destruct (code_len P <=? ip)%N; cbn [rres_state].
    { split; [|constructor; [|constructor]]; apply GW_refl; exact W. }
    destruct (st_rem _ =? 0)%N; cbn [rres_state st_heap set_rem];
      (split; [|constructor; [|constructor]]; apply GW_refl; exact W).
  - destruct (code_len P <=? ip)%N; cbn [rres_state].
    { split; [|constructor; [|constructor]]; apply GW_refl; exact W. }
    destruct (st_rem _ =? 0)%N; cbn [rres_state st_heap set_rem].
    { split; [|constructor; [|constructor]]; apply GW_refl; exact W. }
    set (s0 := tick (set_rem s (N.pred (st_rem s)))).
    assert (E0 : st_heap s0 = st_heap s) by reflexivity.
    assert (W0 : wf (st_heap s0)) by (rewrite E0; exact W).
    pose proof (step_k_wf re ip s0 Hre W0) as R. rewrite E0 in R.
    destruct (step_k re ip s0) as [ip' s'|s'|e ip' s'|a s']; cbn [sres_state rres_state] in *.
    + destruct (IH ip' s' (proj2 R)) as (R1 & R2). split; [eapply GW_trans; eauto|].
      constructor; [rewrite E0; apply GW_refl; exact W|].
      eapply Forall_impl; [|exact R2]. intros x Hx. eapply GW_trans; eauto.
    + split; [exact R|]. constructor; [rewrite E0; apply GW_refl; exact W|]. constructor; [exact R|constructor].
    + split; [exact R|]. constructor; [rewrite E0; apply GW_refl; exact W|]. constructor; [exact R|constructor].
    + split; [exact R|]. constructor; [rewrite E0; apply GW_refl; exact W|]. constructor; [exact R|constructor].
Qed.

(* the contract of the nested run, by induction over the nesting depth *)
Theorem run_at_k_contract : forall d ip s, wf (st_heap s) ->
  GW F (st_heap s) (st_heap (rres_state (run_at_k d ip s))).
Proof.
  induction d as [|d IH]; intros ip s W; cbn [run_at_k].
  - cbn [rres_state]. apply GW_refl. exact W.
  - apply (loop_k_wf (run_at_k d) IH). exact W.
Qed.

(* every state a key-checked run - at any nesting depth - passes through *)
Theorem run_at_k_wf : forall d ip s, wf (st_heap s) ->
  hext (st_heap s) (st_heap (rres_state (run_at_k (S d) ip s))) /\
  wf (st_heap (rres_state (run_at_k (S d) ip s))) /\
  Forall (fun x => hext (st_heap s) (st_heap x) /\ wf (st_heap x))
         (loop_states (step_k (run_at_k d)) (N.to_nat (st_rem s)) ip s).
Proof.
  intros d ip s W. cbn [run_at_k].
  destruct (loop_k_wf (run_at_k d) (run_at_k_contract d) (N.to_nat (st_rem s)) ip s W) as ((X & W') & R).
  split; [exact X|]. split; [exact W'|]. exact R.
Qed.

Lemma finish_heap r : st_heap (snd (finish P r)) = st_heap (rres_state r).
Proof.
  unfold finish, outcome_of. destruct r as [s|e ip s|a s]; cbn [rres_state fst snd]; reflexivity.
Qed.


Theorem run_k_wf : forall budget s, wf (st_heap s) ->
  hext (st_heap s) (st_heap (snd (run_k budget s))) /\ wf (st_heap (snd (run_k budget s))).
Proof.
  intros budget s W. unfold run_k. destruct (push_frame s (mkFrame 0 0 0 None)) as [s1|] eqn:E.
  - rewrite finish_heap. apply push_frame_heap in E.
    assert (W1 : wf (st_heap (set_rem s1 (N.of_nat budget)))) by (cbn [st_heap set_rem]; rewrite E; exact W).
    pose proof (run_at_k_contract max_depth 0 _ W1) as R.
    change (st_heap (set_rem s1 (N.of_nat budget))) with (st_heap s1) in R. rewrite E in R. exact R.
  - cbn [snd]. split; [apply hext_refl | exact W].
Qed.

(* ------------------------------------------------------------------ *)
(* a run on which the check never fails is the key-checked run         *)
(* ------------------------------------------------------------------ *)
Section Agree.
Variable re re' : N -> state -> rres.
Hypothesis Hre : forall ip s, rU (re' ip s) -> re ip s = re' ip s.

Lemma step_k_agree ip0 s : sU (step_k re' ip0 s) -> step F bld P re ip0 s = step_k re' ip0 s.
Proof.
  unfold step_k. destruct (chk_key ip0 s); [apply (step_agree F bld P re re' Hre)|].
  cbn [sU]. intros H. congruence.
Qed.

Lemma loop_k_agree : forall fuel ip s, rU (loop_k re' fuel ip s) ->
  loop F bld P re fuel ip s = loop_k re' fuel ip s /\
  loop_states (step F bld P re) fuel ip s = loop_states (step_k re') fuel ip s.
Proof.
  induction fuel as [|f IH]; intros ip s HU; cbn [loop loop_k loop_states] in *; [split; reflexivity|].
  fold (code_len P) in *.
  destruct (code_len P <=? ip)%N; [split; reflexivity|].
  cbn [st_rem set_rem] in *. destruct (N.pred (st_rem s) =? 0)%N; [split; reflexivity|].
  destruct (step_k re' ip _) as [ip' s'|s'|e ip' s'|a s'] eqn:E.
  - rewrite step_k_agree by (rewrite E; exact I). rewrite E. destruct (IH ip' s' HU) as (A & B).
    split; [exact A | rewrite B; reflexivity].
  - rewrite step_k_agree by (rewrite E; exact I). rewrite E. split; reflexivity.
  - rewrite step_k_agree by (rewrite E; exact I). rewrite E. split; reflexivity.
  - rewrite step_k_agree by (rewrite E; exact HU). rewrite E. split; reflexivity.
Qed.
End Agree.

Theorem run_at_agree_k mi : forall d ip s, rU (run_at_k d ip s) ->
  run_at F bld P false mi d ip s = run_at_k d ip s.
Proof.
  induction d as [|d IH]; intros ip s HU; cbn [run_at run_at_k] in *; [reflexivity|].
  unfold run_loop. apply (loop_k_agree _ _ IH). exact HU.
Qed.

Theorem run_agrees_k : forall budget s,
  fst (run_k budget s) <> OAbort AUnmodelled ->
  run F bld budget P s = run_k budget s.
Proof.
  intros budget s HU. unfold run, run_gen, run_k in *.
  destruct (push_frame s (mkFrame 0 0 0 None)) as [s1|]; [|reflexivity].
  rewrite run_at_agree_k; [reflexivity|].
  destruct (run_at_k max_depth 0 _) as [s'|e ip' s'|a s']; cbn [rU]; try exact I.
  intros ->. apply HU. reflexivity.
Qed.

End KeyChecked.

(* ------------------------------------------------------------------ *)
(* the same for the VM itself                                           *)
(* ------------------------------------------------------------------ *)
Section VmRun.
Variable F : fops.
Variable bld : build.
Variable P : program.
Notation wf := (tables_wf F).

(* the states the run [run_at (S d) ip s] passes through (its own dispatch loop; the nested runs it starts are
   runs [run_at (S d') ip' s'] with d' < d) *)
Definition run_at_states (mi : N) (d : nat) (ip : N) (s : state) : list state :=
  loop_states P (step F bld P (run_at F bld P false mi d)) (N.to_nat (st_rem s)) ip s.

(* the states Vm.run passes through at nesting level 0, from the state after the entry frame was pushed *)
Definition run_states (budget : nat) (s : state) : list state :=
  match push_frame s (mkFrame 0 0 0 None) with
  | None => [s]
  | Some s1 => run_at_states (N.of_nat budget) (pred max_depth) 0 (set_rem s1 (N.of_nat budget))
  end.

Definition no_key_check_fails_at (d : nat) (ip : N) (s : state) : Prop := rU (run_at_k F bld P d ip s).

Theorem run_at_tables_wf : forall mi d ip s,
  wf (st_heap s) -> no_key_check_fails_at (S d) ip s ->
  hext (st_heap s) (st_heap (rres_state (run_at F bld P false mi (S d) ip s))) /\
  wf (st_heap (rres_state (run_at F bld P false mi (S d) ip s))) /\
  Forall (fun x => hext (st_heap s) (st_heap x) /\ wf (st_heap x)) (run_at_states mi d ip s).
Proof.
  intros mi d ip s W HU. unfold no_key_check_fails_at in HU.
  rewrite (run_at_agree_k F bld P mi (S d) ip s HU).
  destruct (run_at_k_wf F bld P d ip s W) as (X & W' & R). split; [exact X|]. split; [exact W'|].
  unfold run_at_states. cbn [run_at_k] in HU.
  destruct (loop_k_agree F bld P _ _ (run_at_agree_k F bld P mi d) _ _ _ HU) as (_ & ->). exact R.
Qed.

Theorem run_tables_wf : forall budget s,
  wf (st_heap s) -> fst (run_k F bld P budget s) <> OAbort AUnmodelled ->
  hext (st_heap s) (st_heap (snd (run F bld budget P s))) /\
  wf (st_heap (snd (run F bld budget P s))) /\
  Forall (fun x => hext (st_heap s) (st_heap x) /\ wf (st_heap x)) (run_states budget s).
Proof.
  intros budget s W HU. rewrite (run_agrees_k F bld P budget s HU).
  destruct (run_k_wf F bld P budget s W) as (X & W'). split; [exact X|]. split; [exact W'|].
  unfold run_states. unfold run_k in HU.
  destruct (push_frame s (mkFrame 0 0 0 None)) as [s1|] eqn:E.
  - apply push_frame_heap in E.
    assert (W1 : wf (st_heap (set_rem s1 (N.of_nat budget)))) by (cbn [st_heap set_rem]; rewrite E; exact W).
    assert (HU1 : no_key_check_fails_at (S (pred max_depth)) 0 (set_rem s1 (N.of_nat budget))).
    { unfold no_key_check_fails_at. change (S (pred max_depth)) with max_depth.
      destruct (run_at_k F bld P max_depth 0 _) as [s'|e ip' s'|a s']; cbn [rU]; try exact I.
      intros ->. apply HU. reflexivity. }
    destruct (run_at_tables_wf (N.of_nat budget) (pred max_depth) 0 _ W1 HU1) as (_ & _ & R).
    change (st_heap (set_rem s1 (N.of_nat budget))) with (st_heap s1) in R. rewrite E in R. exact R.
  - constructor; [|constructor]. split; [apply hext_refl | exact W].
Qed.

(* [run_at_states] really is the run: it ends in the state of the run's result *)
Lemma loop_states_last re : forall fuel ip s,
  last (loop_states P (step F bld P re) fuel ip s) s = rres_state (loop F bld P re fuel ip s).
Proof.
  induction fuel as [|f IH]; intros ip s; cbn [loop_states loop]; fold (code_len P).
  - destruct (code_len P <=? ip)%N; [reflexivity|]. destruct (st_rem _ =? 0)%N; reflexivity.
  - destruct (code_len P <=? ip)%N; [reflexivity|]. destruct (st_rem _ =? 0)%N; [reflexivity|].
    rewrite last_cons_dflt.
    destruct (step F bld P re ip _) as [ip' s'|s'|e ip' s'|a s'] eqn:E; cbn [rres_state]; try reflexivity.
    rewrite <- (IH ip' s').
    assert (N : forall d1 d2, last (loop_states P (step F bld P re) f ip' s') d1
                              = last (loop_states P (step F bld P re) f ip' s') d2).
    { intros d1 d2. destruct f; cbn [loop_states]; destruct (code_len P <=? ip')%N; try reflexivity;
        destruct (st_rem _ =? 0)%N; try reflexivity. rewrite !last_cons_dflt. reflexivity. }
    apply N.
Qed.

Theorem run_at_states_last mi d ip s :
  last (run_at_states mi d ip s) s = rres_state (run_at F bld P false mi (S d) ip s).
Proof. unfold run_at_states. cbn [run_at]. unfold run_loop. apply loop_states_last. Qed.

End VmRun.

(* ------------------------------------------------------------------ *)
(* "keyed by value": the key test on the key domain is equality of values *)
(* ------------------------------------------------------------------ *)
(* the value a key stands for: nil, an integer, the bit pattern of a real, the text of a string, handle and
   arity of a function, the handle of a native function; closures and upvalue cells are their own identity *)
Inductive keyval :=
| KvNil | KvInt (z : Z) | KvReal (bits : N) | KvStr (s : list N) | KvFun (h arity : N) | KvNative (h : N)
| KvIdent (a : N) | KvNone.

Definition key_value (h : heap) (k : value) : keyval :=
  match k with
  | VNil => KvNil
  | VInt z => KvInt z
  | VReal r => KvReal r
  | VObj a =>
      match hget h a with
      | Some (OStr s) => KvStr s
      | Some (OFun f ar) => KvFun f ar
      | Some (ONative f) => KvNative f
      | Some (OClo _ _ _) | Some (OUp _) => KvIdent a
      | Some (OTable _) | None => KvNone
      end
  end.

Lemma bytes_eqb_true : forall a b, bytes_eqb a b = true -> a = b.
Proof.
  induction a as [|x a IH]; intros [|y b] H; cbn [bytes_eqb] in H; try discriminate; [reflexivity|].
  apply andb_true_iff in H. destruct H as (H1 & H2). apply N.eqb_eq in H1. rewrite (IH b H2), H1. reflexivity.
Qed.

Lemma kb_is_value_equality F h a b : vkey F h a -> vkey F h b ->
  (kb (veq0 F h) a b = true <-> key_value h a = key_value h b).
Proof.
  intros Ha Hb. unfold kb.
  destruct a as [|x|x|x], b as [|y|y|y]; cbn [keq key_value]; rewrite ?veq0_unfold; generalize 23; intros fu; cbn [veq];
    try (split; [discriminate | intros E; discriminate E]); try (split; reflexivity);
    try (cbn [vkey] in Ha, Hb;
         match goal with |- context [hget h ?z] =>
           destruct (hget h z) as [[]|]; try contradiction; split; intros E; discriminate E end).
  - destruct (Z.eqb_spec x y) as [->|Hne]; split; intros E; try reflexivity; try discriminate. congruence.
  - destruct (N.eqb_spec x y) as [->|Hne].
    + cbn [vkey] in Ha. rewrite Ha. split; reflexivity.
    + split; [discriminate | intros E; congruence].
  - cbn [vkey] in Ha, Hb.
    destruct (hget h x) as [[t1|s1|f1 a1|f1|f1 a1 u1|u1]|] eqn:E1; try contradiction;
    destruct (hget h y) as [[t2|s2|f2 a2|f2|f2 a2 u2|u2]|] eqn:E2; try contradiction;
      try (split; [discriminate | intros E; discriminate E]).
    + split; intros E.
      * destruct (bytes_eqb s1 s2) eqn:B; [|discriminate]. apply bytes_eqb_true in B. congruence.
      * inversion E; subst. rewrite bytes_eqb_refl. reflexivity.
    + split; intros E.
      * destruct (N.eqb_spec f1 f2) as [->|]; [|discriminate]. destruct (N.eqb_spec a1 a2) as [->|]; [|discriminate].
        reflexivity.
      * inversion E; subst. rewrite !N.eqb_refl. reflexivity.
    + split; intros E.
      * destruct (N.eqb_spec f1 f2) as [->|]; [|discriminate]. reflexivity.
      * inversion E; subst. rewrite N.eqb_refl. reflexivity.
    + split; intros E.
      * destruct (N.eqb_spec x y) as [->|]; [|discriminate]. reflexivity.
      * inversion E; subst. rewrite N.eqb_refl. reflexivity.
    + split; intros E; [discriminate|]. inversion E; subst. rewrite E1 in E2. discriminate.
    + split; intros E; [discriminate|]. inversion E; subst. rewrite E1 in E2. discriminate.
    + split; intros E.
      * destruct (N.eqb_spec x y) as [->|]; [|discriminate]. reflexivity.
      * inversion E; subst. rewrite N.eqb_refl. reflexivity.
Qed.

(* ------------------------------------------------------------------ *)
(* what the invariant means for a user of a table                      *)
(* ------------------------------------------------------------------ *)
Section UserView.
Variable eq : eqfun.
Variable D : value -> Prop.
Hypothesis kb_refl : forall a, D a -> kb eq a a = true.
(* the key test relates two keys of the domain that match a common third one *)
Hypothesis kb_eucl : forall a b c, D a -> D b -> D c -> kb eq a c = true -> kb eq b c = true -> kb eq a b = true.

Lemma kdistinct_NoDup l : Forall D l -> kdistinct eq l -> NoDup l.
Proof.
  induction l as [|k l IH]; intros HD Hn; [constructor|]. cbn [kdistinct] in Hn. destruct Hn as (H1 & H2).
  inversion HD as [|? ? Dk Dl]; subst. constructor; [|apply IH; assumption].
  intros Hin. rewrite Forall_forall in H1. specialize (H1 k Hin). rewrite (kb_refl k Dk) in H1. discriminate H1.
Qed.

Lemma al_get_equal_key m k v k2 :
  Forall D (map fst m) -> kdistinct eq (map fst m) -> In (k, v) m -> D k2 -> kb eq k k2 = true ->
  al_get eq k2 m = Some v.
Proof.
  intros HD Hn Hin Dk2 Hk. induction m as [|[k' v'] m IH]; [contradiction|].
  cbn [map fst kdistinct al_get] in *. destruct Hn as (H1 & H2). inversion HD as [|? ? Dk' Dm]; subst.
  destruct Hin as [E|Hin].
  - inversion E; subst. rewrite Hk. reflexivity.
  - assert (Dk : D k). { rewrite Forall_forall in Dm. apply Dm. apply (in_map fst) in Hin. exact Hin. }
    destruct (kb eq k' k2) eqn:E; [|apply IH; assumption].
    exfalso. pose proof (kb_eucl k' k k2 Dk' Dk Dk2 E Hk) as C.
    rewrite Forall_forall in H1. rewrite (H1 k) in C; [discriminate|]. apply (in_map fst) in Hin. exact Hin.
Qed.

Lemma al_get_no_key m k2 : (forall k, In k (map fst m) -> kb eq k k2 = false) -> al_get eq k2 m = None.
Proof.
  induction m as [|[k' v'] m IH]; intros H; cbn [al_get]; [reflexivity|]. cbn [map fst] in H.
  rewrite (H k' (or_introl Logic.eq_refl)). apply IH. intros k Hk. apply H. right. exact Hk.
Qed.
End UserView.

Section VmUserView.
Variable F : fops.

(* a table that satisfies the invariant, as its user sees it: iteration yields the entries [tabs t] - one per
   key of the key vector, in the order of the key vector, every key once (as a value: no two keys of the table
   have the same [key_value]) -, a read through ANY key with the value of a stored key returns the value stored
   under it, a read through a key with another value returns nothing *)
Theorem twf_user_view h t : twf (veq0 F h) (vkey F h) t ->
  titer (veq0 F h) t = Some (tabs t) /\
  map fst (tabs t) = tkeys t /\
  NoDup (map (key_value h) (tkeys t)) /\
  (forall k v k2, In (k, v) (tabs t) -> vkey F h k2 -> key_value h k2 = key_value h k ->
                  tget (veq0 F h) t k2 = Some (Some v)) /\
  (forall k2, vkey F h k2 -> ~ In (key_value h k2) (map (key_value h) (tkeys t)) ->
              tget (veq0 F h) t k2 = Some None).
Proof.
  intros W. assert (W' := W). destruct W' as (Ha & Hd & Hn).
  assert (Heucl : forall a b c, vkey F h a -> vkey F h b -> vkey F h c ->
            kb (veq0 F h) a c = true -> kb (veq0 F h) b c = true -> kb (veq0 F h) a b = true).
  { intros a b c Da Db Dc H1 H2. apply (kb_is_value_equality F h) in H1; auto.
    apply (kb_is_value_equality F h) in H2; auto. apply (kb_is_value_equality F h); auto. congruence. }
  split; [exact (@titer_spec (veq0 F h) (vkey F h) (veq0_total F h) (veq0_refl F h) t W)|]. split; [exact Ha|]. split; [|split].
  - clear Ha W. induction (tkeys t) as [|k l IH]; cbn [map]; [constructor|].
    cbn [kdistinct] in Hn. destruct Hn as (H1 & H2). inversion Hd as [|? ? Dk Dl]; subst.
    constructor; [|apply IH; assumption]. intros Hin. apply in_map_iff in Hin. destruct Hin as (k' & E & Hk').
    rewrite Forall_forall in H1, Dl. specialize (H1 k' Hk').
    assert (C : kb (veq0 F h) k k' = true) by (apply kb_is_value_equality; auto).
    rewrite C in H1. discriminate.
  - intros k v k2 Hin Dk2 E. rewrite (@tget_spec (veq0 F h) (vkey F h) (veq0_total F h) t k2 W Dk2). f_equal.
    assert (Dk : vkey F h k).
    { rewrite <- Ha in Hd. rewrite Forall_forall in Hd. apply Hd. apply (in_map fst) in Hin. exact Hin. }
    apply (al_get_equal_key (veq0 F h) (vkey F h) Heucl (tabs t) k v k2); auto.
    + unfold tabs. rewrite Ha. exact Hd.
    + unfold tabs. rewrite Ha. exact Hn.
    + apply kb_is_value_equality; auto.
  - intros k2 Dk2 Hno. rewrite (@tget_spec (veq0 F h) (vkey F h) (veq0_total F h) t k2 W Dk2). f_equal.
    apply al_get_no_key. intros k Hk. unfold tabs in Hk. rewrite Ha in Hk.
    destruct (kb (veq0 F h) k k2) eqn:E; [|reflexivity]. exfalso. apply Hno.
    rewrite Forall_forall in Hd. apply kb_is_value_equality in E; auto. rewrite <- E. apply in_map. exact Hk.
Qed.

(* the final state of any run from a new VM (any bytecode, budget, build) on which no SetProperty had a key
   outside the key domain: every table object of the heap is such a table *)
Theorem run_fresh_tables_user_view : forall bld P budget,
  fst (run_k F bld P budget fresh_state) <> OAbort AUnmodelled ->
  let h := st_heap (snd (run F bld budget P fresh_state)) in
  forall a t, hget h a = Some (OTable t) ->
    titer (veq0 F h) t = Some (tabs t) /\
    map fst (tabs t) = tkeys t /\
    NoDup (map (key_value h) (tkeys t)) /\
    (forall k v k2, In (k, v) (tabs t) -> vkey F h k2 -> key_value h k2 = key_value h k ->
                    tget (veq0 F h) t k2 = Some (Some v)) /\
    (forall k2, vkey F h k2 -> ~ In (key_value h k2) (map (key_value h) (tkeys t)) ->
                tget (veq0 F h) t k2 = Some None).
Proof.
  intros bld P budget HU h a t Ha.
  destruct (run_tables_wf F bld P budget fresh_state (vm_tables_wf_initial F) HU) as (_ & W & _).
  apply twf_user_view. exact (W a t Ha).
Qed.

End VmUserView.

(* ------------------------------------------------------------------ *)
(* every SetProperty a run executes is the association-list update     *)
(* ------------------------------------------------------------------ *)
Section RunSetProperty.
Variable F : fops.
Variable bld : build.
Variable P : program.

(* at a state whose tables satisfy the invariant, SetProperty with a key of the domain replaces the value of
   the entry with that key in place, or appends the entry at the end *)
Definition set_property_is_al_set (x : state) : Prop :=
  forall reenter ip0 l a key v t,
    opcode_at P ip0 = 33%N -> stack_ok x -> stack_of x = l ++ [v; VObj a; key] ->
    hget (st_heap x) a = Some (OTable t) -> vkey F (st_heap x) key ->
    exists t' k,
      step F bld P reenter ip0 x = SNext (ip0 + 1) (set_stack (set_table x a t') k) /\
      stack_is (cap x) k l /\
      twf (veq0 F (st_heap x)) (vkey F (st_heap x)) t' /\
      tabs t' = al_set (veq0 F (st_heap x)) key v (tabs t).

Lemma wf_set_property_is_al_set x : tables_wf F (st_heap x) -> set_property_is_al_set x.
Proof.
  intros W reenter ip0 l a key v t Hop Hok Hst Ha Dk.
  exact (step_set_property F bld P reenter ip0 x l a key v t Hop Hok Hst Ha (W a t Ha) Dk).
Qed.

Theorem run_set_property_in_order : forall budget s,
  tables_wf F (st_heap s) -> fst (run_k F bld P budget s) <> OAbort AUnmodelled ->
  Forall set_property_is_al_set (run_states F bld P budget s).
Proof.
  intros budget s W HU. destruct (run_tables_wf F bld P budget s W HU) as (_ & _ & R).
  eapply Forall_impl; [|exact R]. intros x (_ & Wx). apply wf_set_property_is_al_set. exact Wx.
Qed.
End RunSetProperty.

(* ------------------------------------------------------------------ *)
(* NaN keys (outside the key domain): what the table code does          *)
(* ------------------------------------------------------------------ *)
(* A real key r that is not == to itself (f_cmp r r <> Some Eq: NaN) matches no stored key, itself included:
   CaoLangTable::insert finds nothing through get_mut and adds a new row to the map part and to the key vector
   EVERY time; no read finds such a row; iteration (keys filtered by presence in the map) skips it while
   len (= length of the key vector) counts it; pop takes the key from the key vector but leaves the row in the
   map part.  These hold for every table (no invariant needed). *)
Section NanKeys.
Variable F : fops.
Variable h : heap.
Variable r : N.
Hypothesis Hnan : f_cmp F r r <> Some Eq.

Lemma keq_nan_probe k : keq (veq0 F h) k (VReal r) = Some false.
Proof.
  destruct k as [|z|x|a]; cbn [keq]; rewrite ?veq0_unfold; generalize 23; intros fu; cbn [veq]; try reflexivity.
  destruct (N.eqb_spec x r) as [->|Hne]; [|reflexivity].
  destruct (f_cmp F r r) as [[| |]|]; try reflexivity. congruence.
Qed.

Lemma keq_nan_stored k : vkey F h k -> keq (veq0 F h) (VReal r) k = Some false.
Proof.
  intros Dk. destruct k as [|z|x|a]; cbn [keq]; rewrite ?veq0_unfold; generalize 23; intros fu; cbn [veq];
    try reflexivity.
  destruct (N.eqb_spec r x) as [->|Hne]; [|reflexivity]. cbn [vkey] in Dk. contradiction.
Qed.

Lemma map_find_nan m : map_find (veq0 F h) (VReal r) m = Some None.
Proof.
  induction m as [|[k v] m IH]; cbn [map_find]; [reflexivity|]. rewrite keq_nan_probe, IH. reflexivity.
Qed.

Theorem nan_key_insert t v :
  tinsert (veq0 F h) t (VReal r) v = Some (mkTable (tmap t ++ [(VReal r, v)]) (tkeys t ++ [VReal r])).
Proof. unfold tinsert. rewrite map_find_nan. reflexivity. Qed.

Theorem nan_key_get t : tget (veq0 F h) t (VReal r) = Some None.
Proof. unfold tget. rewrite map_find_nan. reflexivity. Qed.

Theorem nan_key_pop t ks : tkeys t = ks ++ [VReal r] ->
  tpop (veq0 F h) t = Some (mkTable (tmap t) ks, VNil).
Proof.
  intros E. unfold tpop. rewrite E, rev_app_distr. cbn [rev app]. rewrite map_find_nan, removelast_last.
  reflexivity.
Qed.

Lemma map_find_app_nan k m v : vkey F h k ->
  map_find (veq0 F h) k (m ++ [(VReal r, v)]) = map_find (veq0 F h) k m.
Proof.
  intros Dk. induction m as [|[k' v'] m IH]; cbn [app map_find].
  - rewrite (keq_nan_stored k Dk). reflexivity.
  - rewrite IH. reflexivity.
Qed.

Lemma titer_go_app_nan m v : forall ks, Forall (vkey F h) ks ->
  titer_go (veq0 F h) (m ++ [(VReal r, v)]) (ks ++ [VReal r]) = titer_go (veq0 F h) m ks.
Proof.
  induction ks as [|k ks IH]; intros HD; cbn [app titer_go].
  - rewrite map_find_nan. reflexivity.
  - inversion HD as [|? ? Dk Dks]; subst. rewrite (map_find_app_nan k m v Dk), (IH Dks). reflexivity.
Qed.

(* on a table that satisfies the invariant: after the insert the row is invisible to iteration, but counted *)
Theorem nan_key_row_invisible t v : twf (veq0 F h) (vkey F h) t ->
  let t' := mkTable (tmap t ++ [(VReal r, v)]) (tkeys t ++ [VReal r]) in
  titer (veq0 F h) t' = Some (tabs t) /\ length (tkeys t') = S (length (tabs t)) /\
  ~ twf (veq0 F h) (vkey F h) t'.
Proof.
  intros W. cbv zeta. assert (W' := W). destruct W' as (Ha & Hd & Hn). split; [|split].
  - unfold titer. cbn [tmap tkeys]. rewrite (titer_go_app_nan (tmap t) v (tkeys t) Hd).
    exact (@titer_spec (veq0 F h) (vkey F h) (veq0_total F h) (veq0_refl F h) t W).
  - cbn [tkeys]. rewrite app_length. cbn [length]. unfold tabs. rewrite <- Ha, map_length. lia.
  - intros (_ & Hd' & _). cbn [tkeys] in Hd'. apply Forall_app in Hd'. destruct Hd' as (_ & Hd').
    inversion Hd' as [|? ? Dk _]; subst. cbn [vkey] in Dk. contradiction.
Qed.
End NanKeys.

(* the instruction: SetProperty with a NaN key on ANY table appends the row *)
Theorem step_set_property_nan F bld P reenter : forall ip0 s l a r v t,
  opcode_at P ip0 = 33%N -> stack_ok s -> stack_of s = l ++ [v; VObj a; VReal r] ->
  hget (st_heap s) a = Some (OTable t) -> f_cmp F r r <> Some Eq ->
  exists k,
    step F bld P reenter ip0 s =
      SNext (ip0 + 1) (set_stack (set_table s a (mkTable (tmap t ++ [(VReal r, v)]) (tkeys t ++ [VReal r]))) k) /\
    stack_is (cap s) k l.
Proof.
  intros ip0 s l a r v t Hop Hok Hst Ha Hnan. step_opc Hop. unfold i_33. cbv zeta.
  pose proof (stack_is_self _ Hok) as K0. rewrite Hst in K0.
  rewrite (speek_k _ _ _ _ 0 K0), (speek_k _ _ _ _ 1 K0), (speek_k _ _ _ _ 2 K0) by (cbn [length]; lia).
  cbn [length Nat.sub nth]. change (st_heap (spop_n s 3)) with (st_heap s).
  cbn [get_table]. rewrite Ha. rewrite (nan_key_insert F (st_heap s) r Hnan t v).
  exists (st_stack (spop_n s 3)). split; [reflexivity|].
  exact (@spop_n_k s _ l [v; VObj a; VReal r] K0).
Qed.

Lemma no_key_check_fails_at_iff F bld P d ip s :
  no_key_check_fails_at F bld P d ip s <-> forall x, run_at_k F bld P d ip s <> RStop AUnmodelled x.
Proof.
  unfold no_key_check_fails_at, rU. destruct (run_at_k F bld P d ip s) as [s'|e ip' s'|a s']; split; intros H;
    try exact I; try (intros x; discriminate).
  - intros x E. inversion E; subst. apply H. reflexivity.
  - intros ->. apply (H s'). reflexivity.
Qed.

(* the nested-run statement with the hypothesis spelled out *)
Theorem run_at_tables_wf_nested F bld P : forall mi d ip s,
  tables_wf F (st_heap s) -> (forall x, run_at_k F bld P (S d) ip s <> RStop AUnmodelled x) ->
  hext (st_heap s) (st_heap (rres_state (run_at F bld P false mi (S d) ip s))) /\
  tables_wf F (st_heap (rres_state (run_at F bld P false mi (S d) ip s))) /\
  Forall (fun x => hext (st_heap s) (st_heap x) /\ tables_wf F (st_heap x)) (run_at_states F bld P mi d ip s) /\
  last (run_at_states F bld P mi d ip s) s = rres_state (run_at F bld P false mi (S d) ip s).
Proof.
  intros mi d ip s W HU. apply no_key_check_fails_at_iff in HU.
  destruct (run_at_tables_wf F bld P mi d ip s W HU) as (A & B & C).
  split; [exact A|]. split; [exact B|]. split; [exact C|]. apply run_at_states_last.
Qed.
