(* Refinement proofs for Stacks.v: the array-with-count models refine plain lists. *)
From Coq Require Import Permutation.
From Cao Require Import ListUtil Stacks.
Set Implicit Arguments.

Section VS.
  Variable V : Type.
  Variable vnil : V.
  Notation vstack := (vstack V).
  Notation vs_abs := (@vs_abs V).
  Notation vs_inv := (@vs_inv V).

  Lemma abs_length (s : vstack) : vs_inv s -> length (vs_abs s) = vcount s.
  Proof. unfold vs_inv, vs_abs; intros H; rewrite firstn_length; lia. Qed.

  Lemma vs_new_inv n : 0 < n -> vs_inv (vs_new vnil n) /\ vs_abs (vs_new vnil n) = [].
  Proof. unfold vs_inv, vs_abs, vs_new; cbn; rewrite repeat_length; auto. Qed.

  Lemma last_abs (s : vstack) :
    vs_inv s -> last (vs_abs s) vnil = vs_last vnil s.
  Proof.
    unfold vs_inv, vs_abs, vs_last; intros H.
    destruct (vcount s) as [|c] eqn:E; cbn [Nat.ltb Nat.leb]; [reflexivity|].
    replace (S c - 1) with c by lia. apply last_firstn_S; lia.
  Qed.

  Lemma push_refines cap (s : vstack) v :
    vs_inv s -> cap = length (vdata s) ->
    let '(s', o) := vs_push s v in
    let '(l', o') := sp_push cap (vs_abs s) v in
    o = o' /\ vs_abs s' = l' /\ vs_inv s' /\ length (vdata s') = cap.
  Proof.
    intros H Hc. unfold vs_push, sp_push. rewrite abs_length by assumption. subst cap.
    destruct (S (vcount s) <? length (vdata s)) eqn:E.
    - apply Nat.ltb_lt in E. unfold vs_abs, vs_inv; cbn.
      rewrite upd_length. repeat split; auto.
      apply firstn_upd_snoc; lia.
    - repeat split; auto.
  Qed.

  Lemma pop_refines (s : vstack) :
    vs_inv s ->
    let '(s', v) := vs_pop vnil s in
    v = last (vs_abs s) vnil /\ vs_abs s' = removelast (vs_abs s) /\ vs_inv s'
    /\ length (vdata s') = length (vdata s).
  Proof.
    intros H. unfold vs_pop. rewrite last_abs by assumption. unfold vs_last.
    unfold vs_inv, vs_abs in *.
    destruct (vcount s) as [|c] eqn:E; cbn [Nat.eqb Nat.ltb Nat.leb].
    - rewrite E; cbn. auto.
    - replace (S c - 1) with c by lia. cbn [vcount vdata].
      rewrite upd_length. repeat split; auto; try lia.
      rewrite firstn_upd_ge by lia. symmetry; apply removelast_firstn_S; lia.
  Qed.

  Lemma rev_skipn_firstn (d : list V) c m :
    m <= c -> c <= length d ->
    map (fun i => nth (c - i - 1) d vnil) (seq 0 m) = rev (skipn (c - m) (firstn c d)).
  Proof.
    revert c. induction m as [|m IH]; intros c Hm Hc.
    - cbn. rewrite Nat.sub_0_r.
      rewrite skipn_all2; [reflexivity| rewrite firstn_length; lia].
    - rewrite seq_S, map_app. cbn [map Nat.add].
      rewrite IH by lia.
      assert (Hlen : length (firstn c d) = c) by (rewrite firstn_length; lia).
      assert (Hs : skipn (c - S m) (firstn c d)
                   = nth (c - S m) (firstn c d) vnil :: skipn (c - m) (firstn c d)).
      { replace (c - m) with (S (c - S m)) by lia.
        remember (firstn c d) as l. remember (c - S m) as k.
        assert (Hk : k < length l) by lia. clear -Hk.
        revert k Hk; induction l as [|x l IHl]; intros [|k] Hk; cbn in *; try lia; auto.
        apply IHl; lia. }
      rewrite Hs. cbn [rev]. f_equal. f_equal.
      rewrite nth_firstn by lia. f_equal; lia.
  Qed.

  Lemma firstn_firstn_le (d : list V) a b : a <= b -> firstn a (firstn b d) = firstn a d.
  Proof. intros; rewrite firstn_firstn; f_equal; lia. Qed.

  Theorem vs_step_refines (s : vstack) o l1 out1 :
    vs_inv s ->
    sp_step vnil (length (vdata s)) (vs_abs s) o = Some (l1, out1) ->
    let '(s', out) := vs_step vnil s o in
    out = out1 /\ vs_abs s' = l1 /\ vs_inv s' /\ length (vdata s') = length (vdata s).
  Proof.
    intros H Hsp.
    pose proof (abs_length H) as HL.
    destruct o; cbn [vs_step sp_step] in *.
    - (* push *)
      pose proof (push_refines v H eq_refl) as P.
      destruct (vs_push s v) as [s' o]; destruct (sp_push _ _ _) as [l' o'].
      inversion Hsp; subst. tauto.
    - (* pop *)
      pose proof (pop_refines H) as P. destruct (vs_pop vnil s) as [s' v].
      inversion Hsp; subst. destruct P as (-> & ? & ? & ?). auto.
    - (* pop_n *)
      inversion Hsp; subst; clear Hsp. unfold vs_pop_n. rewrite HL.
      unfold vs_inv, vs_abs in *; cbn [vcount vdata].
      set (m := Nat.min (vcount s) n).
      assert (Hm : m <= vcount s) by (subst m; lia).
      repeat split; auto; try lia.
      + f_equal. f_equal. apply rev_skipn_firstn; lia.
      + symmetry; apply firstn_firstn_le; lia.
    - (* pop_w_offset *)
      rewrite HL in Hsp. destruct (vcount s <=? off).
      + inversion Hsp; subst. auto.
      + pose proof (pop_refines H) as P. destruct (vs_pop vnil s) as [s' v].
        inversion Hsp; subst. destruct P as (-> & ? & ? & ?). auto.
    - (* set *)
      rewrite HL in Hsp. destruct (vcount s <? i) eqn:E1.
      + inversion Hsp; subst; auto.
      + destruct (i =? vcount s) eqn:E2.
        * pose proof (push_refines v H eq_refl) as P.
          destruct (vs_push s v) as [s' o]; destruct (sp_push _ _ _) as [l' o'].
          destruct P as (-> & ? & ? & ?).
          destruct o'; inversion Hsp; subst; auto.
        * inversion Hsp; subst; clear Hsp.
          apply Nat.ltb_ge in E1. apply Nat.eqb_neq in E2.
          unfold vs_inv, vs_abs in *; cbn [vcount vdata]. rewrite upd_length.
          repeat split; auto.
          -- rewrite nth_firstn by lia. reflexivity.
          -- apply firstn_upd_lt; lia.
    - (* get *)
      inversion Hsp; subst; clear Hsp. repeat split; auto.
      unfold vs_abs. destruct (vcount s <=? i) eqn:E.
      + apply Nat.leb_le in E. rewrite nth_overflow; auto. rewrite firstn_length; lia.
      + apply Nat.leb_gt in E. rewrite nth_firstn by lia. reflexivity.
    - (* last *)
      inversion Hsp; subst. rewrite last_abs by assumption. auto.
    - (* peek *)
      inversion Hsp; subst; clear Hsp. rewrite HL. repeat split; auto.
      destruct (n <? vcount s) eqn:E; auto.
      apply Nat.ltb_lt in E. unfold vs_abs. rewrite nth_firstn by lia. reflexivity.
    - (* clear *)
      inversion Hsp; subst. unfold vs_inv, vs_abs in *; cbn. rewrite upd_length.
      repeat split; auto. lia.
    - (* clear_until *)
      rewrite HL in Hsp. destruct (h <=? vcount s) eqn:E; [|discriminate].
      apply Nat.leb_le in E. inversion Hsp; subst; clear Hsp.
      rewrite last_abs by assumption.
      unfold vs_inv, vs_abs in *; cbn [vcount vdata].
      repeat split; auto; try lia. symmetry; apply firstn_firstn_le; lia.
    - inversion Hsp; subst. rewrite HL. auto.
    - inversion Hsp; subst. auto.
    - inversion Hsp; subst. rewrite HL. auto.
  Qed.

  (* every history from a fresh stack of any capacity >= 1 *)
  Theorem vs_run_refines ops : forall (s : vstack) l' outs,
    vs_inv s ->
    sp_run vnil (length (vdata s)) (vs_abs s) ops = Some (l', outs) ->
    let '(s', outs') := vs_run vnil s ops in
    outs' = outs /\ vs_abs s' = l' /\ vs_inv s' /\ length (vdata s') = length (vdata s).
  Proof.
    induction ops as [|o r IH]; intros s l' outs H Hsp; cbn [vs_run sp_run] in *.
    - inversion Hsp; subst; auto.
    - destruct (sp_step vnil (length (vdata s)) (vs_abs s) o) as [[l1 x1]|] eqn:E1; [|discriminate].
      pose proof (vs_step_refines _ H E1) as P.
      destruct (vs_step vnil s o) as [s1 x]. destruct P as (-> & Ha & Hi & Hl).
      destruct (sp_run vnil (length (vdata s)) l1 r) as [[l2 xs]|] eqn:E2; [|discriminate].
      inversion Hsp; subst; clear Hsp.
      rewrite <- Hl in E2.
      specialize (IH s1 _ _ Hi E2).
      destruct (vs_run vnil s1 r) as [s2 xs']. destruct IH as (-> & ? & ? & ?).
      repeat split; auto. congruence.
  Qed.

  Theorem vs_refines cap ops l' outs :
    0 < cap ->
    sp_run vnil cap [] ops = Some (l', outs) ->
    let '(s', outs') := vs_run vnil (vs_new vnil cap) ops in
    outs' = outs /\ vs_abs s' = l' /\ vcount s' <= cap - 1 /\ length l' <= cap - 1.
  Proof.
    intros Hc Hsp. destruct (vs_new_inv Hc) as [Hi Ha].
    assert (Hl : length (vdata (vs_new vnil cap)) = cap) by (cbn; apply repeat_length).
    pose proof (@vs_run_refines ops (vs_new vnil cap) l' outs Hi) as P.
    rewrite Hl, Ha in P. specialize (P Hsp).
    destruct (vs_run vnil (vs_new vnil cap) ops) as [s' outs'].
    destruct P as (-> & Habs & Hinv & Hlen). repeat split; auto.
    - unfold Stacks.vs_inv in Hinv. lia.
    - rewrite <- Habs. rewrite abs_length by assumption. unfold Stacks.vs_inv in Hinv. lia.
  Qed.

  (* the pinned-tree pop: an empty stack can hand back a stale value *)
  Lemma vs_pop_legacy_refuted (a : V) : a <> vnil ->
    exists ops, exists l' outs,
      sp_run vnil 4 [] ops = Some (l', outs) /\
      let s1 := fst (vs_run vnil (vs_new vnil 4) ops) in
      snd (vs_pop_legacy vnil s1) <> last l' vnil.
  Proof.
    intros Ha. exists [VPush a; VClearUntil V 0]. eexists. eexists. split.
    - cbn. reflexivity.
    - cbn. exact Ha.
  Qed.
End VS.

Section BS.
  Variable T : Type.
  Notation bstack := (bstack T).

  Lemma somes_map_Some (l : list T) : somes (map Some l) = Some l.
  Proof. induction l as [|x l IH]; cbn; [reflexivity| rewrite IH; reflexivity]. Qed.

  Lemma bs_new_inv cap : bs_inv (bs_new T cap) [].
  Proof. unfold bs_inv, bs_new; cbn. rewrite repeat_length. repeat split; lia. Qed.

  Lemma inv_len (s : bstack) l : bs_inv s l -> length l = bhead s.
  Proof.
    intros (Hl & Hh & Hf).
    assert (length (firstn (bhead s) (bslots s)) = length (map Some l)) by congruence.
    rewrite firstn_length, map_length in H. lia.
  Qed.

  Lemma rev_head_last (l : list T) x r : rev l = x :: r ->
    l = removelast l ++ [x] /\ length l = S (length (removelast l)).
  Proof.
    intros H. assert (l = rev r ++ [x]).
    { rewrite <- (rev_involutive l), H. reflexivity. }
    subst l. rewrite removelast_last. split; auto. rewrite app_length; cbn; lia.
  Qed.

  Theorem bs_step_refines (s : bstack) l o :
    bs_inv s l ->
    let '(s', out, d) := bs_step s o in
    let '(l', out', d') := bsp_step (bcap s) l o in
    out = out' /\ d = d' /\ bs_inv s' l' /\ bcap s' = bcap s.
  Proof.
    intros H. pose proof (inv_len H) as HL. destruct H as (Hl & Hh & Hf).
    destruct o; cbn [bs_step bsp_step].
    - rewrite HL. destruct (bcap s <=? bhead s) eqn:E.
      + repeat split; auto.
      + apply Nat.leb_gt in E. unfold bs_inv; cbn [bhead bcap bslots]. rewrite upd_length.
        repeat split; auto; try lia.
        rewrite firstn_upd_snoc by lia. rewrite Hf, map_app. reflexivity.
    - destruct (rev l) as [|x r] eqn:Er.
      + assert (l = []) by (destruct l; [auto| apply (f_equal (@length T)) in Er; rewrite rev_length in Er; discriminate]).
        subst l. cbn in HL. rewrite <- HL. cbn. repeat split; auto.
      + destruct (rev_head_last _ Er) as [Hsplit Hlen].
        assert (Hpos : 0 < bhead s) by lia.
        assert (Hltb : (0 <? bhead s) = true) by (apply Nat.ltb_lt; lia). rewrite Hltb.
        assert (Hn : nth (bhead s - 1) (bslots s) None = Some x).
        { rewrite <- (nth_firstn (bslots s) (bhead s - 1) (bhead s) None) by lia. rewrite Hf.
          rewrite Hsplit, map_app, app_nth2; rewrite map_length; [|lia].
          replace (bhead s - 1 - length (removelast l)) with 0 by lia. reflexivity. }
        rewrite Hn. unfold bs_inv; cbn. repeat split; auto; try lia.
        rewrite <- (firstn_firstn_le' (bslots s) (bhead s - 1) (bhead s)) by lia.
        rewrite Hf. rewrite Hsplit at 1. rewrite map_app, firstn_app.
        rewrite map_length.
        replace (bhead s - 1 - length (removelast l)) with 0 by lia.
        cbn [firstn]. rewrite app_nil_r. apply firstn_all2. rewrite map_length; lia.
    - destruct (rev l) as [|x r] eqn:Er.
      + assert (l = []) by (destruct l; [auto| apply (f_equal (@length T)) in Er; rewrite rev_length in Er; discriminate]).
        subst l. cbn in HL. rewrite <- HL. cbn. unfold bs_inv. repeat split; auto.
      + destruct (rev_head_last _ Er) as [Hsplit Hlen].
        assert (Hltb : (0 <? bhead s) = true) by (apply Nat.ltb_lt; lia). rewrite Hltb.
        assert (Hn : nth (bhead s - 1) (bslots s) None = Some x).
        { rewrite <- (nth_firstn (bslots s) (bhead s - 1) (bhead s) None) by lia. rewrite Hf.
          rewrite Hsplit, map_app, app_nth2; rewrite map_length; [|lia].
          replace (bhead s - 1 - length (removelast l)) with 0 by lia. reflexivity. }
        rewrite Hn. unfold bs_inv. repeat split; auto.
    - rewrite Hf, somes_map_Some. unfold bs_inv; cbn. repeat split; auto; lia.
    - rewrite HL. unfold bs_inv. repeat split; auto.
    - rewrite Hf, somes_map_Some. unfold bs_inv. repeat split; auto.
    - rewrite Hf, somes_map_Some. unfold bs_inv. repeat split; auto.
  Qed.

  Theorem bs_run_refines ops : forall (s : bstack) l,
    bs_inv s l ->
    let '(s', outs) := bs_run s ops in
    let '(l', outs') := bsp_run (bcap s) l ops in
    outs = outs' /\ bs_inv s' l' /\ bcap s' = bcap s.
  Proof.
    induction ops as [|o r IH]; intros s l H; cbn [bs_run bsp_run].
    - auto.
    - pose proof (bs_step_refines o H) as P.
      destruct (bs_step s o) as [[s1 x] d]. destruct (bsp_step (bcap s) l o) as [[l1 x'] d'].
      destruct P as (-> & -> & Hi & Hc).
      specialize (IH s1 l1 Hi). rewrite Hc in IH.
      destruct (bs_run s1 r) as [s2 xs]. destruct (bsp_run (bcap s) l1 r) as [l2 xs'].
      destruct IH as (-> & ? & ?). split; [reflexivity|]. split; [assumption|]. congruence.
  Qed.

  Theorem bs_refines cap ops :
    let '(s', outs) := bs_run (bs_new T cap) ops in
    let '(l', outs') := bsp_run cap [] ops in
    outs = outs' /\ bs_inv s' l' /\ length l' <= cap.
  Proof.
    pose proof (@bs_run_refines ops (bs_new T cap) [] (bs_new_inv cap)) as P.
    cbn [bcap bs_new] in P.
    destruct (bs_run (bs_new T cap) ops) as [s' outs]. destruct (bsp_run cap [] ops) as [l' outs'].
    destruct P as (-> & Hi & Hc). split; [reflexivity|]. split; [assumption|].
    rewrite (inv_len Hi). destruct Hi as (? & ? & ?). cbn in Hc. lia.
  Qed.

  (* conservation: everything pushed is stored, was handed back by pop, or was dropped —
     exactly once.  Stated on the spec run, which the model equals by bs_refines. *)
  Definition pushed (ops : list (bop T)) : list T :=
    flat_map (fun o => match o with BPush x => [x] | _ => [] end) ops.
  Definition returned (outs : list (bout T * list T)) (ops : list (bop T)) : list T :=
    flat_map (fun p => match p with
                       | (BPop _, (BSome x, _)) => [x]
                       | _ => [] end) (combine ops outs).
  Definition dropped (outs : list (bout T * list T)) : list T := flat_map snd outs.

  Lemma bsp_run_length cap (ops : list (bop T)) : forall l, length (snd (bsp_run cap l ops)) = length ops.
  Proof.
    induction ops as [|o r IH]; intros l; cbn; auto.
    destruct (bsp_step cap l o) as [[l1 x] d]. specialize (IH l1).
    destruct (bsp_run cap l1 r); cbn in *; lia.
  Qed.

  Lemma perm_push_drop (l1 l2 P R D : list T) x :
    Permutation (l1 ++ P) (l2 ++ R ++ D) -> Permutation (l1 ++ x :: P) (l2 ++ R ++ x :: D).
  Proof. intros H. rewrite <- !Permutation_middle. constructor. exact H. Qed.

  Lemma perm_pop (l' l2 P R D : list T) x :
    Permutation (l' ++ P) (l2 ++ R ++ D) ->
    Permutation ((l' ++ [x]) ++ P) (l2 ++ (x :: R) ++ D).
  Proof.
    intros H. rewrite <- app_assoc. cbn [app]. rewrite <- !Permutation_middle.
    constructor. exact H.
  Qed.

  Lemma perm_clear (l l2 P R D : list T) :
    Permutation P (l2 ++ R ++ D) -> Permutation (l ++ P) (l2 ++ R ++ l ++ D).
  Proof.
    intros H. rewrite H. rewrite !app_assoc. apply Permutation_app_tail.
    rewrite <- app_assoc. apply Permutation_app_comm.
  Qed.

  Theorem bs_conservation cap (ops : list (bop T)) : forall l,
    let '(l', outs) := bsp_run cap l ops in
    Permutation (l ++ pushed ops) (l' ++ returned outs ops ++ dropped outs).
  Proof.
    induction ops as [|o r IH]; intros l; cbn [bsp_run].
    - cbn. rewrite !app_nil_r. apply Permutation_refl.
    - destruct (bsp_step cap l o) as [[l1 x] d] eqn:E.
      specialize (IH l1). destruct (bsp_run cap l1 r) as [l2 xs].
      unfold pushed, returned, dropped in *. cbn [flat_map combine snd].
      set (P := flat_map _ r) in *. set (R := flat_map _ (combine r xs)) in *.
      set (D := flat_map snd xs) in *.
      destruct o; cbn [bsp_step] in E.
      + destruct (cap <=? length l); inversion E; subst; clear E; cbn [app].
        * apply perm_push_drop. exact IH.
        * rewrite <- app_assoc in IH. exact IH.
      + destruct (rev l) as [|y ry] eqn:Er; inversion E; subst; clear E; cbn [app].
        * exact IH.
        * destruct (rev_head_last _ Er) as [Hs _].
          rewrite Hs at 1. apply (perm_pop _ _ _ _ _ _ IH).
      + destruct (rev l) as [|y ry]; inversion E; subst; clear E; cbn [app]; exact IH.
      + inversion E; subst; clear E. cbn [app] in *. apply perm_clear. exact IH.
      + inversion E; subst; exact IH.
      + inversion E; subst; exact IH.
      + inversion E; subst; exact IH.
  Qed.
End BS.
