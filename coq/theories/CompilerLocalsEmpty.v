(* C08 (b): where the body of a function or of a closure starts, the innermost locals list is empty.

   cs_locals is [[]] and cs_depth is [0] in init_state.  compile_main / compile_other open a scope (depth 1),
   declare the parameters and compile the cards; every local is declared at a depth >= 1, every scope_begin
   inside a card is matched by a scope_end, a closure pushes its own level (compile_begin) and removes it
   (compile_end); the function's final scope_end returns to depth 0 and pops every local deeper than 0 from the
   end of the list - all of them.  So the next function starts with [[]] / [0] again.

   Invariant [scopes_ok]: level by level, depth >= 0, every local of the level was declared at a depth >= 1,
   and a level at depth 0 has no locals.  [T ds ds' m]: a successful run of m from a state satisfying the
   invariant with scope depths ds ends in a state satisfying the invariant with scope depths ds'. *)
From Coq Require Import List NArith ZArith Bool Lia.
From Cao Require Import ListUtil CheckUtil Bits CardAst Bytecode Compiler CompilerGen
  CompilerProofs CompilerWf CompilerResolve CompilerCalls.
Import ListNotations.
Local Open Scope N_scope.

Definition level_ok (d : Z) (L : list local) : Prop :=
  (0 <= d)%Z /\ Forall (fun l => (1 <= l_depth l)%Z) L /\ (d = 0%Z -> L = []).
Definition scopes_ok (s : cstate) : Prop := Forall2 level_ok (cs_depth s) (cs_locals s).

Definition T {A} (ds ds' : list Z) (m : M A) : Prop :=
  forall s, scopes_ok s -> cs_depth s = ds ->
    match m s with ROk _ s' => scopes_ok s' /\ cs_depth s' = ds' | _ => True end.

Lemma T_ret {A} ds (a : A) : T ds ds (ret a).
Proof. intros s H E. cbn. auto. Qed.
Lemma T_bind {A B} a b c (m : M A) (f : A -> M B) : T a b m -> (forall x, T b c (f x)) -> T a c (bind m f).
Proof.
  intros Hm Hf s H E. unfold bind. specialize (Hm s H E). destruct (m s) as [x s1| | |]; auto.
  destruct Hm as [H1 E1]. exact (Hf x s1 H1 E1).
Qed.

(* ---- operations that leave locals and depths alone ---- *)
Definition keepS {A} (m : M A) : Prop :=
  forall s, match m s with ROk _ s' => cs_locals s' = cs_locals s /\ cs_depth s' = cs_depth s | _ => True end.
Lemma T_keep {A} ds (m : M A) : keepS m -> T ds ds m.
Proof.
  intros Hk s H E. specialize (Hk s). destruct (m s) as [a s'| | |]; auto. destruct Hk as [Hl Hd].
  unfold scopes_ok. rewrite Hl, Hd. auto.
Qed.
Lemma keepS_ret {A} (a : A) : keepS (ret a). Proof. intros s. cbn. auto. Qed.
Lemma keepS_bind {A B} (m : M A) (f : A -> M B) : keepS m -> (forall a, keepS (f a)) -> keepS (bind m f).
Proof.
  intros Hm Hf s. unfold bind. specialize (Hm s). destruct (m s) as [a s1| | |]; auto.
  specialize (Hf a s1). destruct (f a s1) as [b s2| | |]; auto.
  destruct Hm as [a1 a2], Hf as [b1 b2]. split; congruence.
Qed.
Ltac ks := intros s; cbn; auto.
Lemma keepS_get : keepS get. Proof. ks. Qed.
Lemma keepS_get_pc : keepS get_pc. Proof. ks. Qed.
Lemma keepS_get_pc_i32 : keepS get_pc_i32. Proof. ks. Qed.
Lemma keepS_panic {A} : keepS (@panic A). Proof. ks. Qed.
Lemma keepS_diverge {A} : keepS (@diverge A). Proof. ks. Qed.
Lemma keepS_error {A} e : keepS (@error A e). Proof. ks. Qed.
Lemma keepS_push_sub i : keepS (push_sub i). Proof. ks. Qed.
Lemma keepS_pop_sub : keepS pop_sub. Proof. ks. Qed.
Lemma keepS_set_index_m f i : keepS (set_index_m f i). Proof. ks. Qed.
Lemma keepS_set_fh_m h : keepS (set_fh_m h). Proof. ks. Qed.
Lemma keepS_push_instr i : keepS (push_instr i). Proof. ks. Qed.
Lemma keepS_handle_from_bytes bs : keepS (handle_from_bytes_m bs). Proof. ks. Qed.
Lemma keepS_validate n : keepS (validate_var_name n).
Proof. unfold validate_var_name. destruct (is_empty n); ks. Qed.
Lemma keepS_patch q : keepS (patch_jump_here q).
Proof. intros s. unfold patch_jump_here. destruct (patch_code _ _ _ _); cbn; auto. Qed.
Lemma keepS_index_handle : keepS index_handle.
Proof.
  unfold index_handle. apply keepS_bind; [apply keepS_get|]. intros s.
  apply keepS_bind; [apply keepS_handle_from_bytes | intros; apply keepS_ret].
Qed.
Lemma keepS_label_entry h : keepS (label_entry_here h).
Proof.
  intros s. unfold label_entry_here. destruct (two32 <=? cs_pc s); [exact I|].
  destruct (h =? 0); [cbn; auto|]. destruct (nm_find h (cs_labels s)); cbn; auto.
Qed.
Lemma keepS_label_insert h : keepS (label_insert_here h).
Proof. intros s. unfold label_insert_here. destruct ((two32 <=? cs_pc s) || (h =? 0)); cbn; auto. Qed.
Lemma keepS_card_label : keepS card_label.
Proof. unfold card_label. apply keepS_bind; [apply keepS_index_handle | intros; apply keepS_label_entry]. Qed.
Lemma keepS_global_id n : keepS (global_id n).
Proof.
  unfold global_id. apply keepS_bind; [apply keepS_handle_from_bytes|]. intros h s.
  destruct (nm_find h (cs_ids s)); [|destruct (ht_entry_hangs (cs_ids s)); [exact I|]];
    (destruct (nm_find _ (cs_names s));
     [unfold name_checked; destruct (global_name_checked && negb (str_eqb _ _)); cbn; auto|];
     destruct (ht_entry_hangs (cs_names s)); cbn; auto).
Qed.
Lemma keepS_resolve_function n : keepS (resolve_function n).
Proof.
  intros s. destruct (resolve_function n s) as [m s'| | |] eqn:E; auto.
  apply resolve_function_state in E. subst. auto.
Qed.
Lemma keepS_push_string mk st : keepS (push_string mk st).
Proof.
  unfold push_string. apply keepS_bind; [apply keepS_get | intros s0].
  apply keepS_bind; [apply keepS_push_instr | intros _].
  intros s. destruct (two32 <=? N.of_nat (length st)); cbn; auto.
Qed.
Lemma keepS_push_raws is : keepS (push_raws is).
Proof.
  induction is as [|i r IH]; cbn [push_raws]; [apply keepS_ret|].
  apply keepS_bind; [apply keepS_push_instr | intros _; exact IH].
Qed.
Lemma keepS_set_fctx ns imps : keepS (fun s => ROk tt (set_fctx ns imps s)).
Proof. ks. Qed.

Ltac keep_tac :=
  repeat first
    [ apply keepS_ret | apply keepS_get | apply keepS_get_pc | apply keepS_get_pc_i32 | apply keepS_panic
    | apply keepS_diverge | apply keepS_error | apply keepS_push_sub | apply keepS_pop_sub
    | apply keepS_set_index_m | apply keepS_set_fh_m | apply keepS_push_instr | apply keepS_handle_from_bytes
    | apply keepS_validate | apply keepS_patch | apply keepS_index_handle | apply keepS_label_entry
    | apply keepS_label_insert | apply keepS_card_label | apply keepS_global_id | apply keepS_resolve_function
    | apply keepS_push_string | apply keepS_push_raws | apply keepS_set_fctx
    | apply keepS_bind; [|intros ?] ].

Lemma keepS_read_props props : keepS (read_props props).
Proof.
  induction props as [|p r IH]; cbn [read_props]; [apply keepS_ret|].
  apply keepS_bind; [|intros _; exact IH]. destruct (is_empty p); keep_tac.
Qed.
Lemma keepS_emit_upvalues ups : keepS (emit_upvalues ups).
Proof.
  induction ups as [|u r IH]; cbn [emit_upvalues]; [apply keepS_ret|].
  apply keepS_bind; [keep_tac | intros _]. apply keepS_bind; [keep_tac | intros _; exact IH].
Qed.
Lemma keepS_process_leaf i : keepS (process_leaf i).
Proof. unfold process_leaf. keep_tac. Qed.

(* ---- operations on the scopes ---- *)
Lemma scopes_cons s d ds : scopes_ok s -> cs_depth s = d :: ds ->
  exists L Ls, cs_locals s = L :: Ls /\ level_ok d L /\ Forall2 level_ok ds Ls.
Proof.
  unfold scopes_ok. intros H E. rewrite E in H. inversion H as [|? L ? Ls H1 H2]; subst. eauto.
Qed.

Lemma T_scope_begin d ds : T (d :: ds) ((d + 1)%Z :: ds) scope_begin.
Proof.
  intros s H E. destruct (scopes_cons _ _ _ H E) as (L & Ls & EL & (H0 & H1 & H2) & Hr).
  cbn. unfold scopes_ok. cbn [cs_depth cs_locals set_scopes]. rewrite E, EL. cbn [map_hd].
  split; [|reflexivity]. constructor; [|exact Hr]. split; [lia|]. split; [exact H1 | lia].
Qed.

Lemma T_add_local_unchecked name d ds : (1 <= d)%Z -> T (d :: ds) (d :: ds) (add_local_unchecked name).
Proof.
  intros Hd s H E. destruct (scopes_cons _ _ _ H E) as (L & Ls & EL & (H0 & H1 & H2) & Hr).
  unfold add_local_unchecked. destruct (Nat.leb _ _); [exact I|].
  unfold scopes_ok. cbn [cs_depth cs_locals set_scopes]. rewrite E, EL. cbn [map_hd].
  split; [|reflexivity]. constructor; [|exact Hr]. split; [lia|]. split; [|lia].
  apply Forall_app. split; [exact H1|]. constructor; [|constructor]. cbn [l_depth]. unfold scope_depth. rewrite E. exact Hd.
Qed.
Lemma T_add_local name d ds : (1 <= d)%Z -> T (d :: ds) (d :: ds) (add_local name).
Proof.
  intros Hd. unfold add_local. eapply T_bind; [apply T_keep, keepS_validate | intros _; apply T_add_local_unchecked, Hd].
Qed.
Lemma T_add_locals l d ds : (1 <= d)%Z -> T (d :: ds) (d :: ds) (add_locals l).
Proof.
  intros Hd. induction l as [|n r IH]; cbn [add_locals]; [apply T_ret|].
  eapply T_bind; [apply T_add_local, Hd | intros _; exact IH].
Qed.

Lemma pop_locals_sub (P : local -> Prop) rls d : Forall P rls -> Forall P (fst (pop_locals rls d)).
Proof.
  induction 1 as [|l r Hl Hr IH]; cbn [pop_locals]; [constructor|].
  destruct (d <? l_depth l)%Z; [|constructor; auto].
  destruct (pop_locals r d) as [r' is]. exact IH.
Qed.
Lemma pop_locals_all rls d : Forall (fun l => (d < l_depth l)%Z) rls -> fst (pop_locals rls d) = [].
Proof.
  induction 1 as [|l r Hl Hr IH]; cbn [pop_locals]; [reflexivity|].
  destruct (Z.ltb_spec d (l_depth l)); [|lia]. destruct (pop_locals r d) as [r' is]. exact IH.
Qed.

Lemma T_scope_end d ds : (0 <= d)%Z -> T ((d + 1)%Z :: ds) (d :: ds) scope_end.
Proof.
  intros Hd s H E. destruct (scopes_cons _ _ _ H E) as (L & Ls & EL & (H0 & H1 & H2) & Hr).
  unfold scope_end. rewrite E, EL. cbn [map_hd hd].
  set (rlis := pop_locals (rev L) (d + 1 - 1)).
  set (s1 := set_scopes _ _ _ s).
  pose proof (keepS_push_raws (snd rlis) s1) as Hk.
  destruct (push_raws (snd rlis) s1) as [[] s2| | |]; auto. destruct Hk as [Hl2 Hd2].
  unfold scopes_ok. rewrite Hl2, Hd2. unfold s1. cbn [cs_depth cs_locals set_scopes].
  replace (d + 1 - 1)%Z with d in * by lia.
  split; [|reflexivity]. constructor; [|exact Hr]. split; [exact Hd|]. split.
  - apply Forall_rev. unfold rlis. apply pop_locals_sub. apply Forall_rev. exact H1.
  - intros ->. unfold rlis. rewrite pop_locals_all; [reflexivity|].
    apply Forall_rev. eapply Forall_impl; [|exact H1]. intros l Hl. cbn in Hl. lia.
Qed.

Lemma T_compile_begin ds : T ds (0%Z :: ds) compile_begin.
Proof.
  intros s H E. cbn. unfold scopes_ok. cbn [cs_depth cs_locals set_scopes]. split; [|rewrite E; reflexivity].
  constructor; [|exact H]. split; [lia|]. split; [constructor | reflexivity].
Qed.
Lemma T_compile_end d ds : T (d :: ds) ds compile_end.
Proof.
  intros s H E. destruct (scopes_cons _ _ _ H E) as (L & Ls & EL & _ & Hr).
  cbn. unfold scopes_ok. cbn [cs_depth cs_locals set_scopes]. rewrite E, EL. cbn [tl]. auto.
Qed.

(* resolve_var: capturing marks locals of enclosing levels, depths stay *)
Definition same_depths (L L' : list local) : Prop := map l_depth L' = map l_depth L.
Lemma level_ok_same d L L' : same_depths L L' -> level_ok d L -> level_ok d L'.
Proof.
  unfold same_depths. intros E (H0 & H1 & H2). split; [exact H0|]. split.
  - apply Forall_map with (f := l_depth) (P := fun z => (1 <= z)%Z). rewrite E. apply Forall_map. exact H1.
  - intros Hd. rewrite (H2 Hd) in E. destruct L'; [reflexivity | discriminate].
Qed.
Lemma map_upd_same {A B} (f : A -> B) : forall l i x y,
  nth_error l i = Some y -> f x = f y -> map f (upd l i x) = map f l.
Proof.
  induction l as [|h t IH]; intros [|i] x y Hn Hf; cbn in *; try discriminate.
  - injection Hn as ->. rewrite Hf. reflexivity.
  - f_equal. eapply IH; eauto.
Qed.
Lemma mark_captured_depths ls i : same_depths ls (mark_captured ls i).
Proof.
  unfold same_depths, mark_captured. destruct (nth_error ls i) as [l|] eqn:E; [|reflexivity].
  eapply map_upd_same; [exact E | reflexivity].
Qed.
Lemma resolve_upvalue_depths name : forall locs ups v locs' ups',
  resolve_upvalue name locs ups = Some (v, locs', ups') -> Forall2 same_depths locs locs'.
Proof.
  assert (Hrefl : forall l : list (list local), Forall2 same_depths l l).
  { induction l; constructor; [reflexivity | assumption]. }
  induction locs as [|cur below IH]; intros ups v locs' ups' H; cbn [resolve_upvalue] in H.
  { injection H as <- <- <-. constructor. }
  destruct below as [|parent rest]; [injection H as <- <- <-; apply Hrefl|].
  destruct ups as [|ucur ubelow]; [injection H as <- <- <-; apply Hrefl|].
  destruct (rfind_index _ parent 0 None) as [i|].
  - destruct (add_upvalue ucur _ true) as [[k ucur']|]; [|discriminate]. injection H as <- <- <-.
    constructor; [reflexivity|]. constructor; [apply mark_captured_depths | apply Hrefl].
  - destruct (resolve_upvalue name (parent :: rest) ubelow) as [[[v0 below'] ubelow']|] eqn:Er; [|discriminate].
    pose proof (IH _ _ _ _ Er) as Hb.
    destruct v0.
    + injection H as <- <- <-. constructor; [reflexivity | exact Hb].
    + injection H as <- <- <-. constructor; [reflexivity | exact Hb].
    + destruct (add_upvalue ucur _ false) as [[k ucur']|]; [|discriminate]. injection H as <- <- <-.
      constructor; [reflexivity | exact Hb].
Qed.
Lemma scopes_same ds ls ls' : Forall2 same_depths ls ls' -> Forall2 level_ok ds ls -> Forall2 level_ok ds ls'.
Proof.
  intros H. revert ds. induction H as [|L L' ls ls' HL _ IH]; intros ds Hok; inversion Hok; subst; constructor.
  - eapply level_ok_same; eauto.
  - apply IH. assumption.
Qed.
Lemma T_resolve_var n ds : T ds ds (resolve_var n).
Proof.
  unfold resolve_var. eapply T_bind; [apply T_keep, keepS_validate | intros _].
  intros s H E. destruct (rfind_index _ _ _ _); [auto|].
  destruct (resolve_upvalue _ _ _) as [[[v ls] us]|] eqn:Er; [|exact I].
  unfold scopes_ok. cbn [cs_depth cs_locals set_scopes]. split; [|exact E].
  eapply scopes_same; [eapply resolve_upvalue_depths; exact Er | exact H].
Qed.

Lemma T_read_var_card v ds : T ds ds (read_var_card v).
Proof.
  unfold read_var_card. destruct (split_once_c c_dot v) as [[a b]|].
  - eapply T_bind; [apply T_resolve_var | intros sc].
    eapply T_bind; [|intros _; apply T_keep, keepS_read_props].
    destruct sc; apply T_keep; unfold read_local, read_upvalue; keep_tac.
  - eapply T_bind; [apply T_resolve_var | intros sc].
    eapply T_bind; [|intros _; apply T_keep, keepS_read_props].
    destruct sc; apply T_keep; unfold read_local, read_upvalue; keep_tac.
Qed.
Lemma T_bind_loop_var o src d ds : (1 <= d)%Z -> T (d :: ds) (d :: ds) (bind_loop_var o src).
Proof.
  intros Hd. destruct o; cbn [bind_loop_var]; [|apply T_ret].
  eapply T_bind; [apply T_add_local, Hd | intros x]. apply T_keep. unfold read_local, write_local. keep_tac.
Qed.
Lemma T_with_sub a b i m : T a b m -> T a b (with_sub i m).
Proof.
  intros H. unfold with_sub. eapply T_bind; [apply T_keep, keepS_push_sub | intros _].
  eapply T_bind; [exact H | intros _; apply T_keep, keepS_pop_sub].
Qed.
Lemma T_encode_if_then a b skip body : T a b body -> T a b (encode_if_then skip body).
Proof.
  intros H. unfold encode_if_then. eapply T_bind; [apply T_keep, keepS_get_pc | intros q].
  eapply T_bind; [apply T_keep, keepS_push_instr | intros _].
  eapply T_bind; [exact H | intros _; apply T_keep, keepS_patch].
Qed.

(* ------------------------------------------------------------------ cards *)
Definition card_T (c : card) : Prop := forall d ds, (1 <= d)%Z -> T (d :: ds) (d :: ds) (process_card c).

Lemma T_subexpr l : Forall card_T l -> forall d ds, (1 <= d)%Z -> forall i,
  T (d :: ds) (d :: ds)
    ((fix subexpr (l : list card) (i : N) {struct l} : M unit :=
        match l with
        | [] => ret tt
        | x :: r => with_sub i (process_card x) ;; subexpr r (i + 1)
        end) l i).
Proof.
  induction 1 as [|x r Hx _ IH]; intros d ds Hd i; [apply T_ret|].
  eapply T_bind; [apply T_with_sub, Hx, Hd | intros _; apply IH, Hd].
Qed.
Lemma T_array_items tv l : Forall card_T l -> forall d ds, (1 <= d)%Z -> forall i,
  T (d :: ds) (d :: ds)
    ((fix items (l : list card) (i : N) {struct l} : M unit :=
         match l with
         | [] => ret tt
         | x :: r =>
             push_instr IScalarNil ;;
             with_sub i (process_card x) ;;
             read_local tv ;;
             push_instr IAppendTable ;;
             items r (i + 1)
         end) l i).
Proof.
  induction 1 as [|x r Hx _ IH]; intros d ds Hd i; [apply T_ret|].
  eapply T_bind; [apply T_keep, keepS_push_instr | intros _].
  eapply T_bind; [apply T_with_sub, Hx, Hd | intros _].
  eapply T_bind; [apply T_keep, keepS_push_instr | intros _].
  eapply T_bind; [apply T_keep, keepS_push_instr | intros _; apply IH, Hd].
Qed.

Ltac tstep :=
  first
    [ apply T_ret
    | match goal with H : card_T ?c |- T _ _ (process_card ?c) => apply H; lia end
    | apply T_with_sub
    | apply T_subexpr; [assumption | lia]
    | apply T_array_items; [assumption | lia]
    | apply T_encode_if_then
    | apply T_scope_begin
    | apply T_scope_end; lia
    | apply T_compile_begin
    | apply T_compile_end
    | apply T_add_local_unchecked; lia
    | apply T_add_local; lia
    | apply T_add_locals; lia
    | apply T_resolve_var
    | apply T_read_var_card
    | apply T_bind_loop_var; lia
    | apply T_keep; unfold read_local, write_local, read_upvalue, write_upvalue;
      solve [first [apply keepS_process_leaf | apply keepS_emit_upvalues | keep_tac]]
    | eapply T_bind; [|intros ?] ].

Lemma process_card_T c : card_T c.
Proof.
  induction c using card_ind'; unfold card_T; intros d ds Hd; cbn [process_card].
  - (* CBin *) destruct op; repeat tstep.
  - (* CUn *) destruct op; repeat tstep.
  - (* CTri *) destruct op; repeat tstep.
  - repeat tstep.
  - repeat tstep.
  - repeat tstep.
  - repeat tstep.
  - repeat tstep.
  - repeat tstep.
  - repeat tstep.
  - repeat tstep.
  - repeat tstep.
  - repeat tstep.
  - repeat tstep.
  - repeat tstep.
  - repeat tstep.
  - (* CSetGlobalVar *)
    eapply T_bind; [tstep | intros _]. eapply T_bind; [repeat tstep | intros _].
    destruct (is_empty n); repeat tstep.
  - (* CSetVar *)
    eapply T_bind; [tstep | intros _]. eapply T_bind; [repeat tstep | intros _].
    destruct (rsplit_once_c c_dot n) as [[rp sp]|].
    + repeat tstep.
    + eapply T_bind; [tstep | intros var]. destruct var; repeat tstep.
  - repeat tstep.
  - repeat tstep.
  - repeat tstep.
  - repeat tstep.
  - repeat tstep.
Qed.
