(* [well_scoped : module -> bool]: the decidable class of programs on which the reference
   semantics (RefSem.v) is meant to agree with the compiler + VM.

   1. Every OPERAND slot holds a card that yields exactly one value ([yields c = Some 1]).
   2. A card that declares a NEW local - a [SetVar] of a name that is neither a visible local of
      the running function nor a captured variable, or an [Array] (it needs a hidden local) -
      occurs only in a DECLARING position: directly in a function body, closure body, or the body
      of a Repeat / ForEach (possibly inside CompositeCards there); never in the branch of an
      IfTrue / IfFalse / IfElse, in the body of a While (the compiler opens no scope for it), or
      in an operand slot.  [Array] only as the whole value of a SetVar / SetGlobalVar / Return
      standing in a declaring position.
   3. Calls by name resolve and pass exactly as many arguments as the callee declares; natives of
      the menu and of the library get exactly their arity (a dynamic call may pass more arguments
      than the callee declares: the callee sees the last ones).
   4. Names are not empty, parameters / loop variables of one card are pairwise distinct, main has
      no parameters and does not Return at its own level. *)
From Coq Require Import List NArith ZArith Bool Arith.
From Cao Require Import CheckUtil CardAst Table RefSem.
Import ListNotations.

(* how many values a card yields; None: it depends on the run *)
Fixpoint yields (c : card) : option nat :=
  match c with
  | CBin op _ b =>
      match op with
      | BIfTrue | BIfFalse => match yields b with Some 0 => Some 0 | _ => None end
      | BWhile | BAppendTable => Some 0
      | _ => Some 1
      end
  | CUn UReturn _ => Some 0
  | CUn _ _ => Some 1
  | CTri TIfElse _ a b =>
      match yields a, yields b with
      | Some x, Some y => if Nat.eqb x y then Some x else None
      | _, _ => None
      end
  | CTri TSetProperty _ _ _ => Some 0
  | CScalarNil | CCreateTable | CScalarInt _ | CScalarFloat _ | CStringLiteral _ | CFunction _
  | CNativeFunction _ | CReadVar _ | CCallNative _ _ | CCall _ _ | CDynamicCall _ _ | CArray _
  | CClosure _ _ => Some 1
  | CAbort | CComment _ | CSetGlobalVar _ _ | CSetVar _ _ | CRepeat _ _ _ | CForEach _ _ _ _ _ => Some 0
  | CComposite _ cs =>
      (fix go (l : list card) : option nat :=
         match l with
         | [] => Some 0
         | x :: r => match yields x, go r with
                     | Some a, Some b => Some (a + b)
                     | _, _ => None
                     end
         end) cs
  end.

Definition mem (x : str) (l : list str) : bool := existsb (str_eqb x) l.
Fixpoint nodup (l : list str) : bool :=
  match l with
  | [] => true
  | x :: r => negb (mem x r) && nodup r
  end.
Definition opt_names (l : list (option str)) : list str :=
  flat_map (fun o => match o with Some x => [x] | None => [] end) l.
Definition var_base (name : str) : str :=
  match split_once_c c_dot name with Some (v, _) => v | None => name end.

(* arity of the natives with a fixed meaning; others: any number of arguments *)
Definition native_arity (name : str) : option nat :=
  if str_eqb name n_log1 then Some 1 else if str_eqb name n_add2 then Some 2
  else if str_eqb name n_fail0 then Some 0 else if str_eqb name n_call1 then Some 2
  else if str_eqb name n_to_array then Some 1
  else if str_eqb name n_min || str_eqb name n_max || str_eqb name n_sort then Some 2
  else None.

Section Ws.
  Variable P : list fentry.
  Variable fi : nat.

  (* [ws ret_ok decl loc up c] = the visible locals after c, or None when c breaks a rule.
     loc: visible locals of the running function; up: captured names; decl: c stands in a
     declaring position; ret_ok: a Return is allowed here *)
  Fixpoint ws (ret_ok decl : bool) (loc up : list str) (c : card) {struct c} : option (list str) :=
    let ok (b : bool) := if b then Some loc else None in
    let pure x := match ws ret_ok false loc up x with Some _ => true | None => false end in
    let opd x := match yields x with Some 1 => pure x | _ => false end in
    let opds := fix go (l : list card) : bool :=
                  match l with [] => true | x :: r => opd x && go r end in
    (* the value of a SetVar / SetGlobalVar / Return: an operand, or an Array of operands *)
    let vopd x := match x with
                  | CArray cs => decl && opds cs
                  | _ => opd x
                  end in
    match c with
    | CScalarNil | CCreateTable | CAbort | CScalarInt _ | CScalarFloat _ | CStringLiteral _
    | CComment _ | CNativeFunction _ => Some loc
    | CFunction name => ok (match resolve P fi name with Some _ => true | None => false end)
    | CReadVar name => ok (negb (is_empty (var_base name)))
    | CBin op a b =>
        match op with
        | BIfTrue | BIfFalse | BWhile => ok (opd a && pure b)
        | _ => ok (opd a && opd b)
        end
    | CUn UReturn a => ok (ret_ok && vopd a)
    | CUn _ a => ok (opd a)
    | CTri TIfElse x a b => ok (opd x && pure a && pure b)
    | CTri TSetProperty v t k => ok (opd v && opd t && opd k)
    | CCallNative name args =>
        ok (opds args && match native_arity name with
                         | Some n => Nat.eqb n (length args)
                         | None => true
                         end)
    | CCall name args =>
        ok (opds args && match resolve P fi name with
                         | Some i => match nth_error P i with
                                     | Some fe => Nat.eqb (length (f_args (fe_fn fe))) (length args)
                                     | None => false
                                     end
                         | None => false
                         end)
    | CDynamicCall f args => ok (opds args && opd f)
    | CSetGlobalVar name v => ok (negb (is_empty name) && vopd v)
    | CSetVar name v =>
        if negb (vopd v) then None
        else match rsplit_once_c c_dot name with
             | Some (path, _) => ok (negb (is_empty (var_base path)))
             | None =>
                 if is_empty name then None
                 else if mem name loc || mem name up then Some loc
                 else if decl then Some (name :: loc) else None
             end
    | CRepeat i n b =>
        if opd n && nodup (opt_names [i])
        then match ws ret_ok true (opt_names [i] ++ loc) up b with Some _ => Some loc | None => None end
        else None
    | CForEach i k v it b =>
        if opd it && nodup (opt_names [i; k; v]) && forallb (fun x => negb (is_empty x)) (opt_names [i; k; v])
        then match ws ret_ok true (opt_names [i; k; v] ++ loc) up b with Some _ => Some loc | None => None end
        else None
    | CComposite _ cs =>
        (fix go (l : list card) (loc : list str) : option (list str) :=
           match l with
           | [] => Some loc
           | x :: r => match ws ret_ok decl loc up x with
                       | Some loc' => go r loc'
                       | None => None
                       end
           end) cs loc
    | CArray _ => None          (* only through [vopd] *)
    | CClosure params cs =>
        if nodup params && forallb (fun x => negb (is_empty x)) params
        then match (fix go (l : list card) (cloc : list str) : option (list str) :=
                      match l with
                      | [] => Some cloc
                      | x :: r => match ws true true cloc (loc ++ up) x with
                                  | Some l' => go r l'
                                  | None => None
                                  end
                      end) cs params with
             | Some _ => Some loc
             | None => None
             end
        else None
    end.

  Fixpoint ws_seq (ret_ok : bool) (loc : list str) (cs : list card) : bool :=
    match cs with
    | [] => true
    | c :: r => match ws ret_ok true loc [] c with
                | Some loc' => ws_seq ret_ok loc' r
                | None => false
                end
    end.
End Ws.

Definition is_std (fe : fentry) : bool :=
  match fe_ns fe with n :: _ => str_eqb n s_std | [] => false end.

Definition ws_function (P : list fentry) (main fi : nat) (fe : fentry) : bool :=
  let params := f_args (fe_fn fe) in
  nodup params && forallb (fun x => negb (is_empty x)) params &&
  (if Nat.eqb fi main then match params with [] => true | _ => false end else true) &&
  ws_seq P fi (negb (Nat.eqb fi main)) params (f_cards (fe_fn fe)).

Definition well_scoped (m : module) : bool :=
  match program_of m with
  | None => false
  | Some (P, main) =>
      nodup (map fe_name P) &&
      forallb (fun ife => is_std (snd ife) || ws_function P main (fst ife) (snd ife))
              (combine (seq 0 (length P)) P)
  end.

(* ------------------------------------------------------------------------------------------ *)
(* The class of the former finding R-2 (repaired by d723a2c: CloseUpvalue names its local): a    *)
(* captured local that is not the top stack slot at the end of a loop-body scope stayed open    *)
(* (CloseUpvalue closed only from the top slot and does not pop).  The checker no longer uses  *)
(* the class; Properties/C01.v shows that the repaired witnesses lie in it.                    *)
(* [leaky m]: some Repeat / ForEach body declares a variable that a closure inside it          *)
(* mentions, and either two such variables, or something in the body leaves a value on the     *)
(* stack (a statement-level call, a non-empty Array, an inner loop with a captured variable).  *)
(* A static over-approximation, formerly used to LABEL a disagreement (code 11).              *)
(* ------------------------------------------------------------------------------------------ *)
Section Leaky.
  Fixpoint cards_any (f : card -> bool) (l : list card) : bool :=
    match l with [] => false | x :: r => f x || cards_any f r end.

  (* variable names mentioned inside closure bodies within c ([inside]: already in one) *)
  Fixpoint mentions (inside : bool) (c : card) {struct c} : list str :=
    let many := fix go (l : list card) : list str :=
                  match l with [] => [] | x :: r => mentions inside x ++ go r end in
    match c with
    | CReadVar name => if inside then [var_base name] else []
    | CSetVar name v => (if inside then [var_base name] else []) ++ mentions inside v
    | CSetGlobalVar _ v => mentions inside v
    | CBin _ a b => mentions inside a ++ mentions inside b
    | CUn _ a => mentions inside a
    | CTri _ a b d => mentions inside a ++ mentions inside b ++ mentions inside d
    | CCallNative _ args | CCall _ args | CComposite _ args | CArray args => many args
    | CDynamicCall f args => mentions inside f ++ many args
    | CRepeat _ n b => mentions inside n ++ mentions inside b
    | CForEach _ _ _ it b => mentions inside it ++ mentions inside b
    | CClosure _ cs => (fix go (l : list card) : list str :=
                          match l with [] => [] | x :: r => mentions true x ++ go r end) cs
    | _ => []
    end.

  (* names newly declared directly in the scope that c stands in (not inside loops / closures) *)
  Fixpoint new_decls (vis : list str) (c : card) {struct c} : list str :=
    match c with
    | CSetVar name _ =>
        match rsplit_once_c c_dot name with
        | Some _ => []
        | None => if mem name vis then [] else [name]
        end
    | CComposite _ cs =>
        (fix go (l : list card) (vis : list str) : list str :=
           match l with
           | [] => []
           | x :: r => let d := new_decls vis x in d ++ go r (d ++ vis)
           end) cs vis
    | _ => []
    end.

  Definition captured_of (vis lv : list str) (b : card) : list str :=
    let d := lv ++ new_decls (lv ++ vis) b in
    let ms := mentions false b in
    filter (fun x => mem x ms) d.

  (* does the statement c leave something on the stack of the scope it stands in *)
  Fixpoint junk (vis : list str) (c : card) {struct c} : bool :=
    let arr v := match v with CArray (_ :: _) => true | _ => false end in
    match c with
    | CComposite _ cs => (fix go (l : list card) : bool :=
                            match l with [] => false | x :: r => junk vis x || go r end) cs
    | CBin BIfTrue _ b | CBin BIfFalse _ b | CBin BWhile _ b => junk vis b
    | CTri TIfElse _ a b => junk vis a || junk vis b
    | CRepeat i _ b => junk vis b || negb (match captured_of vis (opt_names [i]) b with [] => true | _ => false end)
    | CForEach i k v _ b =>
        junk vis b || negb (match captured_of vis (opt_names [v; k; i]) b with [] => true | _ => false end)
    | CSetVar _ v | CSetGlobalVar _ v => arr v
    | CUn UReturn v => arr v
    | _ => match yields c with Some 0 => false | _ => true end
    end.

  Definition leaky_scope (vis lv : list str) (b : card) : bool :=
    match captured_of vis lv b with
    | [] => false
    | [_] => junk vis b
    | _ => true
    end.

  (* some loop scope inside c (also inside the closures of c) is leaky *)
  Fixpoint leaky_card (vis : list str) (c : card) {struct c} : bool :=
    let many := fix go (l : list card) : bool :=
                  match l with [] => false | x :: r => leaky_card vis x || go r end in
    match c with
    | CSetVar _ v | CSetGlobalVar _ v => leaky_card vis v
    | CBin _ a b => leaky_card vis a || leaky_card vis b
    | CUn _ a => leaky_card vis a
    | CTri _ a b d => leaky_card vis a || leaky_card vis b || leaky_card vis d
    | CCallNative _ args | CCall _ args | CArray args => many args
    | CComposite _ cs =>
        (fix go (l : list card) (vis : list str) : bool :=
           match l with
           | [] => false
           | x :: r => leaky_card vis x || go r (new_decls vis x ++ vis)
           end) cs vis
    | CDynamicCall f args => leaky_card vis f || many args
    | CRepeat i n b =>
        let lv := opt_names [i] in
        leaky_card vis n || leaky_scope vis lv b || leaky_card (lv ++ new_decls (lv ++ vis) b ++ vis) b
    | CForEach i k v it b =>
        let lv := opt_names [v; k; i] in
        leaky_card vis it || leaky_scope vis lv b || leaky_card (lv ++ new_decls (lv ++ vis) b ++ vis) b
    | CClosure params cs =>
        (fix go (l : list card) (vis : list str) : bool :=
           match l with
           | [] => false
           | x :: r => leaky_card vis x || go r (new_decls vis x ++ vis)
           end) cs (params ++ vis)
    | _ => false
    end.

  Fixpoint leaky_seq (vis : list str) (cs : list card) : bool :=
    match cs with
    | [] => false
    | c :: r => leaky_card vis c || leaky_seq (new_decls vis c ++ vis) r
    end.
End Leaky.

Definition leaky (m : module) : bool :=
  match program_of m with
  | None => false
  | Some (P, _) =>
      existsb (fun fe => negb (is_std fe) && leaky_seq (f_args (fe_fn fe)) (f_cards (fe_fn fe))) P
  end.

(* ------------------------------------------------------------------------------------------ *)
(* The class of the former finding R-4 (repaired by 53336fc): a loop variable or a closure      *)
(* parameter re-uses the name of a variable that is visible already (shadowing); a closure     *)
(* that named it captured the outermost variable of that name instead of the innermost.        *)
(* Formerly used to LABEL a disagreement (code 13); no longer used by the checker.             *)
(* ------------------------------------------------------------------------------------------ *)
Fixpoint shadow_card (vis : list str) (c : card) {struct c} : bool :=
  let many := fix go (l : list card) : bool :=
                match l with [] => false | x :: r => shadow_card vis x || go r end in
  match c with
  | CSetVar _ v | CSetGlobalVar _ v => shadow_card vis v
  | CBin _ a b => shadow_card vis a || shadow_card vis b
  | CUn _ a => shadow_card vis a
  | CTri _ a b d => shadow_card vis a || shadow_card vis b || shadow_card vis d
  | CCallNative _ args | CCall _ args | CArray args => many args
  | CComposite _ cs =>
      (fix go (l : list card) (vis : list str) : bool :=
         match l with
         | [] => false
         | x :: r => shadow_card vis x || go r (new_decls vis x ++ vis)
         end) cs vis
  | CDynamicCall f args => shadow_card vis f || many args
  | CRepeat i n b =>
      let lv := opt_names [i] in
      existsb (fun x => mem x vis) lv || shadow_card vis n ||
      shadow_card (lv ++ new_decls (lv ++ vis) b ++ vis) b
  | CForEach i k v it b =>
      let lv := opt_names [v; k; i] in
      existsb (fun x => mem x vis) lv || shadow_card vis it ||
      shadow_card (lv ++ new_decls (lv ++ vis) b ++ vis) b
  | CClosure params cs =>
      existsb (fun x => mem x vis) params ||
      (fix go (l : list card) (vis : list str) : bool :=
         match l with
         | [] => false
         | x :: r => shadow_card vis x || go r (new_decls vis x ++ vis)
         end) cs (params ++ vis)
  | _ => false
  end.
Fixpoint shadow_seq (vis : list str) (cs : list card) : bool :=
  match cs with
  | [] => false
  | c :: r => shadow_card vis c || shadow_seq (new_decls vis c ++ vis) r
  end.
Definition shadowing (m : module) : bool :=
  match program_of m with
  | None => false
  | Some (P, _) =>
      existsb (fun fe => negb (is_std fe) && shadow_seq (f_args (fe_fn fe)) (f_cards (fe_fn fe))) P
  end.
