(* C02, allocation points: where `CaoLangAllocator::alloc` - and therefore possibly `RuntimeData::gc` - is called in
   the MIDDLE of an instruction or native, and what the Rust code holds at that moment.
   Executable definitions only (proofs: VmAllocPointsProofs.v).

   An [apoint] records, for ONE call of `alloc`:
     ap_kind     AObject  the CaoLangObject header of an init_xxx (always the first allocation of an init_xxx)
                 ASecond  the second allocation of init_table (hash part, CaoLangTable::with_capacity(8)) / of
                          init_string (payload); the header is not yet in object_list, nothing new is live
                 AGrow    the growth of a table's hash part inside CaoHashMap::insert_with_hint; CONDITIONAL: it only
                          happens when count + 1 > 0.7 * capacity.  The map grows BEFORE the new entry
                          is written, so the table is still in its old state and `keys` is untouched
     ap_state    the VM state AS THE RUST CODE HAS IT when alloc is called: which operands are still on the value stack
                 (peek_last ... pop_n afterwards: SetProperty, AppendTable, NthRow, the typed native wrappers of
                 traits.rs) and which were popped (RegisterUpvalue pops the closure); the heap already contains the
                 objects allocated earlier by the same instruction.  NOTE Vm.v pops the operands of NthRow /
                 SetProperty / AppendTable at the start of the instruction (it never collects, so the order is
                 unobservable there); here the stack is the UNPOPPED one, as in vm.rs
     ap_guards   the objects held by a live ObjectGcGuard (marker Protected) at that moment
     ap_uses     the object addresses the REST of the instruction / native still dereferences or stores after alloc
                 returns
     ap_assumed  the subset of ap_uses whose reachability does NOT follow from [state_closed] alone; the theorem
                 assumes they are reachable and VmAllocPointsProofs.v says for each when that holds:
                 * RegisterUpvalue: the closure it has POPPED (vm.stack_pop() before vm.init_upvalue): rooted only if
                   something else holds it - compiled code always does `CopyLast; RegisterUpvalue` so a copy is in
                   the slot below ([copylast_then_register]); hand-written bytecode need not ([alloc_gap_*])
                 * NthRow, second and third init_xxx: key / value read from the table before the row was allocated;
                   they are in the table, but that the table still ITERATES to them after the heap grew needs the
                   stability of == under allocation (VmTableKeys.veq0_ext, valid for well-formed keys), not redone here
                 * the copy loops of the natives: the key / value being copied (same reason: they come from the
                   source table, which is on the stack)
                 * NthRow when the i-th key of the key vector has no entry in the hash part (CaoLangTable::iter
                   skips it, so the collector does not trace it)

   What ties this to the Rust code: a hand transcription of vm.rs / instr_execution.rs / runtime.rs / stdlib.rs at
   /repo HEAD (after 118eb52, f2fa4af, a1ac5c5, 2fa0d1d, 662697a).  The forced collection schedules of `./check C02`
   (harness/src/c02.rs, gcprobe.rs) exercise exactly these points on the implementation.

   Covered: StringLiteral, InitTable, SetProperty, FunctionPointer, Closure, NativeFunctionPointer, NthRow,
   AppendTable, RegisterUpvalue, and through CallNative / CallFunction on a native function value __to_array (whole)
   and __min, __max, __sort up to the first call of the key function (init_table of the snapshot and the copy loop).
   NOT covered (no apoint is generated, see the header of Properties/C02.v): the allocation points of __min / __max /
   __sort from the first call of the key function on (the nested runs of the key function under the guards `entries`,
   max_key, key_guards; make_row; the result table of sorted), Vm::insert_value (host API),
   and all other opcodes do not allocate.  The two inserts into the fresh row table of NthRow / make_row never grow
   (capacity 8, load 0.7: first growth at the 6th entry) and are not allocation points. *)
From Coq Require Import NArith ZArith List Lia Bool.
From Cao Require Import ListUtil Bits Stacks Vm VmGcRoots.
Import ListNotations.

Inductive akind := AObject | ASecond | AGrow.

Record apoint := mkAP {
  ap_kind : akind;
  ap_state : state;
  ap_guards : list N;
  ap_uses : list N;
  ap_assumed : list N
}.

(* init_function / init_closure / init_native_function / init_upvalue: one allocation *)
Definition init1 (s : state) (g u asm : list N) : list apoint := [mkAP AObject s g u asm].
(* init_table / init_string: header, then hash part / payload *)
Definition init2 (s : state) (g u asm : list N) : list apoint := [mkAP AObject s g u asm; mkAP ASecond s g u asm].

Section AllocPoints.
Variable F : fops.
Variable P : program.

Definition ap_8 (ip : N) (s : state) : list apoint :=   (* StringLiteral: vm.init_string(payload); push *)
  match op_u32 P ip with
  | Some h => match read_str h (p_data P) with StrOk _ => init2 s [] [] [] | _ => [] end
  | None => []
  end.

Definition ap_31 (s : state) : list apoint := init2 s [] [] [].   (* InitTable *)

(* SetProperty: key, instance, value peeked; table.insert(key, value); a key that get_mut does not find goes through
   CaoHashMap::insert, which may grow; the three operands are popped afterwards *)
Definition ap_33 (s : state) : list apoint :=
  let key := speek s 0 in
  let inst := speek s 1 in
  let v := speek s 2 in
  match get_table (st_heap s) inst with
  | TblOk a t =>
      match map_find (veq0 F (st_heap s)) key (tmap t) with
      | Some None => [mkAP AGrow s [] (a :: vaddr key ++ vaddr v) []]
      | _ => []
      end
  | _ => []
  end.

Definition ap_37_42 (ip : N) (s : state) : list apoint :=   (* FunctionPointer / Closure *)
  match op_u32 P ip, op_u32 P (ip + 4) with
  | Some _, Some _ => init1 s [] [] []
  | _, _ => []
  end.

Definition ap_38 (ip : N) (s : state) : list apoint :=   (* NativeFunctionPointer *)
  match op_u32 P ip with
  | Some hd => match read_str hd (p_data P) with StrOk _ => init1 s [] [] [] | _ => [] end
  | None => []
  end.

(* NthRow: i, instance peeked; key / value copied out of the table; row = init_table (guard `row`), k =
   init_string("key") (guard `k`), v = init_string("value") (guard `v`); the inserts do not grow; pop_n::<2>, push *)
Definition ap_39 (s : state) : list apoint :=
  let iv := speek s 0 in
  let inst := speek s 1 in
  match get_table (st_heap s) inst with
  | TblOk ta t =>
      match iv with
      | VInt i =>
          if (i <? 0)%Z then []
          else
            let inside := (i <? Z.of_nat (length (tkeys t)))%Z in
            let key := if inside then tnth_key t (Z.to_nat i) else VNil in
            match (if inside then tget (veq0 F (st_heap s)) t key else Some None) with
            | None => []
            | Some r =>
                let val := match r with Some v => v | None => VNil end in
                let u := vaddr key ++ vaddr val in
                let unfound := match r with Some _ => [] | None => vaddr key end in
                let '(sa, row) := salloc s (OTable (mkTable [] [])) in
                let '(sb, ka) := salloc sa (OStr str_key) in
                init2 s [] u unfound ++ init2 sa [row] (row :: u) u ++ init2 sb [row; ka] (row :: ka :: u) u
            end
      | _ => []
      end
  | _ => []
  end.

(* AppendTable: instance, value peeked; table.append(value) = insert under a fresh integer key *)
Definition ap_40 (s : state) : list apoint :=
  let inst := speek s 0 in
  let v := speek s 1 in
  match get_table (st_heap s) inst with
  | TblOk a t =>
      match tappend (veq0 F (st_heap s)) t v with
      | TOk _ => [mkAP AGrow s [] (a :: vaddr v) []]
      | _ => []
      end
  | _ => []
  end.

(* RegisterUpvalue index is_local: closure = vm.stack_pop(); for a local without an open upvalue yet:
   vm.init_upvalue(location); afterwards next / prev.next / open_upvalues are written and c.upvalues.push(upvalue) *)
Definition ap_45 (ip : N) (s : state) : list apoint :=
  match read_le (p_code P) ip 1, read_le (p_code P) (ip + 1) 1 with
  | Some index, Some is_local =>
      let '(s1, cv) := spop s in
      match cv with
      | VObj ca =>
          match hget (st_heap s1) ca with
          | Some (OClo _ _ _) =>
              if negb (is_local =? 0)%N then
                match top_offset s1 with
                | None => []
                | Some off =>
                    let loc := off + N.to_nat index in
                    if scount s1 <=? loc then []
                    else
                      match walk_open (S (length (st_heap s1))) (st_heap s1) loc None (st_open s1) with
                      | WStop _ => []
                      | WOk prev cur =>
                          let same :=
                            match cur with
                            | Some a =>
                                match hget (st_heap s1) a with
                                | Some (OUp u) => match u_loc u with Some l => l =? loc | None => false end
                                | _ => false
                                end
                            | None => false
                            end in
                          if same then [] else init1 s1 [] (ca :: oaddr prev ++ oaddr cur) [ca]
                      end
                end
              else []
          | _ => []
          end
      | _ => []
      end
  | _, _ => []
  end.

(* a native fills a fresh table [out], which it holds under a guard, with the entries [ins] read from the table [src]
   (an argument, still on the stack): every insert of a key the copy does not hold yet may grow the copy.  At that
   moment the heap has the copy as filled so far ([set_table s2 out t]; Vm.v writes the copy only once at the end). *)
Fixpoint fill_points (eq : eqfun) (s2 : state) (src out : N) (others : list N) (t : table)
         (ins : list (value * value)) : list apoint :=
  match ins with
  | [] => []
  | (k, v) :: r =>
      let u := vaddr k ++ vaddr v in
      match map_find eq k (tmap t) with
      | Some None => [mkAP AGrow (set_table s2 out t) [out] (src :: out :: others ++ u) u]
      | _ => []
      end ++
      match tinsert eq t k v with
      | Some t' => fill_points eq s2 src out others t' r
      | None => []
      end
  end.

(* native_to_array: table.insert(i as i64, *val) for (i, (_, val)) in t.iter().enumerate() *)
Fixpoint to_array_ins (i : Z) (l : list (value * value)) : list (value * value) :=
  match l with
  | [] => []
  | (_, v) :: r => (VInt i, v) :: to_array_ins (i + 1) r
  end.

(* the stdlib natives up to the first call of the key function; the arguments are peeked by the wrappers of traits.rs
   (f2fa4af) and stay on the stack: __to_array(iterable) = peek 0; __min/__max/__sort(iterable, key_fn) = peek 1,
   peek 0.  init_table of the result (to_array) / of the snapshot (min, max, sort: stdlib.rs snapshot), then the copy
   loop *)
Definition ap_native (n : native) (s : state) : list apoint :=
  let table_arg (snap : bool) (v : value) (others : list N) :=
    match v with
    | VObj a =>
        match hget (st_heap s) a with
        | Some (OTable t) =>
            init2 s [] (a :: others) [] ++
            (let '(s2, out) := salloc s (OTable (mkTable [] [])) in
             let eq2 := veq0 F (st_heap s2) in
             if snap then
               match titer (veq0 F (st_heap s)) t with
               | Some l => fill_points eq2 s2 a out others (mkTable [] []) l
               | None => []
               end
             else
               match titer eq2 t with
               | Some l => fill_points eq2 s2 a out others (mkTable [] []) (to_array_ins 0 l)
               | None => []
               end)
        | _ => []
        end
    | _ => []
    end in
  match n with
  | NStdToArray => table_arg false (speek s 0) []
  | NStdMin | NStdMax | NStdSort => table_arg true (speek s 1) (vaddr (speek s 0))
  | _ => []
  end.

Definition ap_4 (ip : N) (s : state) : list apoint :=   (* CallNative *)
  match op_u32 P ip with
  | Some h => match find_native h all_natives with Some n => ap_native n s | None => [] end
  | None => []
  end.

(* CallFunction on a native function value: the function value is popped, then call_native as above *)
Definition ap_11 (s : state) : list apoint :=
  let '(s1, fv) := spop s in
  match fv with
  | VObj a =>
      match hget (st_heap s1) a with
      | Some (ONative h) => match find_native h all_natives with Some n => ap_native n s1 | None => [] end
      | _ => []
      end
  | _ => []
  end.

(* the allocation points of the instruction at [ip0], in program order *)
Definition alloc_points (ip0 : N) (s : state) : list apoint :=
  let ip := (ip0 + 1)%N in
  match nth (N.to_nat ip0) (p_code P) 255%N with
  | 4%N => ap_4 ip s
  | 8%N => ap_8 ip s
  | 11%N => ap_11 s
  | 31%N => ap_31 s
  | 33%N => ap_33 s
  | 37%N | 42%N => ap_37_42 ip s
  | 38%N => ap_38 ip s
  | 39%N => ap_39 s
  | 40%N => ap_40 s
  | 45%N => ap_45 ip s
  | _ => []
  end.

End AllocPoints.

(* the number of objects the points allocate: one per init_xxx (ASecond / AGrow allocate buffers, not objects) *)
Definition is_object (p : apoint) : bool := match ap_kind p with AObject => true | _ => false end.
Definition n_objects (l : list apoint) : nat := length (filter is_object l).

(* the collector's view of an allocation point: the VM roots plus the guarded objects *)
Definition ap_roots (p : apoint) : list N := vm_roots (ap_state p) ++ ap_guards p.
