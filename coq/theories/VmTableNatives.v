(* C07 at the level of the VM model, Part 5: the natives (host menu + stdlib min / max / sort / to_array) keep
   the invariant of every table of the heap, given that nested runs do.  See VmTableProofs.v. *)
From Coq Require Import NArith ZArith List Lia Bool.
From Cao Require Import ListUtil Bits Stacks StacksProofs Vm VmProofs VmNativeProofs C04VmProofs
  VmTableProofs VmTableKeys VmTableInstr.
Import ListNotations.

Arguments N.add : simpl never.
Arguments N.sub : simpl never.
Arguments N.mul : simpl never.
Arguments Z.add : simpl never.
Arguments Z.sub : simpl never.
Arguments Z.mul : simpl never.
Arguments Z.of_nat : simpl never.
Arguments N.of_nat : simpl never.
Arguments N.to_nat : simpl never.

Ltac hredn := cbn [sres_state nres_state rres_state st_heap st_calls st_open st_globals set_stack set_calls
                   set_globals set_open set_log set_heap tick set_rem sraw_set spop_n log_push fst snd] in *.

Section Natives.
Variable F : fops.
Variable bld : build.
Variable P : program.
Variable reenter : N -> state -> rres.

Notation veq := (veq0 F).
Notation dom := (vkey F).
Notation wf := (tables_wf F).

(* heap growth that ends in a heap whose tables all satisfy the invariant *)
Definition GW (h h' : heap) : Prop := hext h h' /\ wf h'.

Lemma GW_refl h : wf h -> GW h h.
Proof. intros W. split; [apply hext_refl | exact W]. Qed.
Lemma GW_trans h1 h2 h3 : GW h1 h2 -> GW h2 h3 -> GW h1 h3.
Proof. intros (X1 & _) (X2 & W). split; [eapply hext_trans; eauto | exact W]. Qed.
Lemma GW_good h h' : wf h -> good_ext F h h' -> GW h h'.
Proof. intros W (X & HW). split; auto. Qed.
Lemma GW_step h1 h2 h3 : GW h1 h2 -> (wf h2 -> GW h2 h3) -> GW h1 h3.
Proof. intros H12 H23. eapply GW_trans; [exact H12 | apply H23, H12]. Qed.

(* nested runs keep the invariant *)
Hypothesis reenter_ok : forall ip s, wf (st_heap s) -> GW (st_heap s) (st_heap (rres_state (reenter ip s))).

Definition NG (s : state) (r : nres) : Prop := GW (st_heap s) (st_heap (nres_state r)).

Lemma run_function_ok self fv s :
  (forall h x, wf (st_heap x) -> NG x (self h x)) -> wf (st_heap s) ->
  NG s (run_function P reenter self fv s).
Proof.
  intros Hself W. unfold run_function, NG.
  destruct fv as [|z|r|a]; try (apply GW_refl; exact W).
  destruct (hget (st_heap s) a) as [o|]; [|apply GW_refl; exact W].
  assert (Hgo : forall arity label clo,
    GW (st_heap s) (st_heap (nres_state
      (if (code_len P =? 0)%N then NStop APanic s
       else match assoc label (p_labels P) with
            | None => NErr (EProcedureNotFound label) s
            | Some src =>
                if (N.of_nat (scount s) <? arity)%N then NErr EMissingArgument s
                else match push_frame s (mkFrame src (last_pos P) (N.of_nat (scount s) - arity) clo) with
                     | None => NErr ECallStackOverflow s
                     | Some s1 =>
                         match push_frame s1 (mkFrame src (last_pos P) (N.of_nat (scount s) - arity) clo) with
                         | None => NErr ECallStackOverflow s
                         | Some s2 =>
                             match reenter src s2 with
                             | ROk s3 =>
                                 let '(s5, v) := spop (set_calls s3 (skipn (length (st_calls s3) - length (st_calls s)) (st_calls s3))) in NOk v s5
                             | RErr e _ s3 => NErr e (set_calls s3 (skipn (length (st_calls s3) - length (st_calls s)) (st_calls s3)))
                             | RStop ab s3 => NStop ab s3
                             end
                         end
                     end
            end)))).
  { intros arity label clo.
    destruct (code_len P =? 0)%N; [apply GW_refl; exact W|].
    destruct (assoc label (p_labels P)) as [src|]; [|apply GW_refl; exact W].
    destruct (N.of_nat (scount s) <? arity)%N; [apply GW_refl; exact W|].
    destruct (push_frame s _) as [s1|] eqn:E1; [|apply GW_refl; exact W]. apply push_frame_heap in E1.
    destruct (push_frame s1 _) as [s2|] eqn:E2; [|apply GW_refl; exact W]. apply push_frame_heap in E2.
    assert (W2 : wf (st_heap s2)) by (rewrite E2, E1; exact W).
    pose proof (reenter_ok src s2 W2) as R. rewrite E2, E1 in R.
    destruct (reenter src s2) as [s3|e ip s3|ab s3]; hredn; try exact R.
    rewrite spop_shape. hredn. exact R. }
  destruct o as [t|b|h ar|h|h ar ups|u]; try (apply GW_refl; exact W).
  - apply Hgo.
  - pose proof (Hself h s W) as R. unfold NG in R.
    destruct (self h s) as [v s1|e s1|ab s1]; hredn; try exact R.
    rewrite spop_shape. hredn. exact R.
  - apply Hgo.
Qed.

(* ---- table builders used by the stdlib natives ---- *)
Lemma tinsert_twf h t k v t' : twf (veq h) (dom h) t -> dom h k ->
  tinsert (veq h) t k v = Some t' -> twf (veq h) (dom h) t'.
Proof.
  intros W Dk E. destruct (vm_tinsert F h t k v W Dk) as (t2 & E2 & W2 & _).
  rewrite E in E2. inversion E2; subst. exact W2.
Qed.

Lemma to_array_go_twf h : forall l t i t', twf (veq h) (dom h) t ->
  to_array_go (veq h) t i l = Some t' -> twf (veq h) (dom h) t'.
Proof.
  induction l as [|[k v] l IH]; intros t i t' W E; cbn [to_array_go] in E.
  - inversion E; subst. exact W.
  - destruct (tinsert (veq h) t (VInt i) v) as [t1|] eqn:E1; [|discriminate].
    eapply IH; [|exact E]. eapply tinsert_twf; [exact W | | exact E1]. exact I.
Qed.

Lemma insert_pairs_twf h : forall l t t', twf (veq h) (dom h) t -> Forall (dom h) (map fst l) ->
  insert_pairs (veq h) t l = Some t' -> twf (veq h) (dom h) t'.
Proof.
  induction l as [|[k v] l IH]; intros t t' W HD E; cbn [insert_pairs] in E.
  - inversion E; subst. exact W.
  - cbn [map fst] in HD. inversion HD as [|? ? Dk Dl]; subst.
    destruct (tinsert (veq h) t k v) as [t1|] eqn:E1; [|discriminate].
    eapply IH; [|exact Dl|exact E]. eapply tinsert_twf; eauto.
Qed.

Lemma insert_all_twf h : forall (l : list (value * (value * value))) t t', twf (veq h) (dom h) t ->
  Forall (fun x => dom h (fst (snd x))) l ->
  insert_all (veq h) t l = Some t' -> twf (veq h) (dom h) t'.
Proof.
  induction l as [|[key [k v]] l IH]; intros t t' W HD E; cbn [insert_all] in E.
  - inversion E; subst. exact W.
  - inversion HD as [|? ? Dk Dl]; subst. cbn [fst snd] in Dk.
    destruct (tinsert (veq h) t k v) as [t1|] eqn:E1; [|discriminate].
    eapply IH; [|exact Dl|exact E]. eapply tinsert_twf; eauto.
Qed.

Lemma titer_go_keys eq m : forall ks l, titer_go eq m ks = Some l -> incl (map fst l) ks.
Proof.
  induction ks as [|k ks IH]; intros l E; cbn [titer_go] in E.
  - inversion E. intros x [].
  - destruct (map_find eq k m) as [[[i v]|]|]; try discriminate;
      destruct (titer_go eq m ks) as [l0|]; try discriminate; inversion E; subst.
    + cbn [map fst]. intros x [<-|Hx]; [left; reflexivity | right; apply (IH _ Logic.eq_refl), Hx].
    + intros x Hx. right. apply (IH _ Logic.eq_refl), Hx.
Qed.

Lemma titer_keys_dom h t l : twf (veq h) (dom h) t -> titer (veq h) t = Some l -> Forall (dom h) (map fst l).
Proof.
  intros (_ & Hd & _) E. apply titer_go_keys in E. rewrite Forall_forall in *. intros x Hx. apply Hd, E, Hx.
Qed.

Lemma wf_alloc h o : wf h -> (forall t, o = OTable t -> twf (veq h) (dom h) t) -> GW h (h ++ [o]).
Proof. intros W Ho. apply GW_good; [exact W | apply good_alloc, Ho]. Qed.

Lemma wf_alloc_nt h o : wf h -> (forall t, o <> OTable t) -> GW h (h ++ [o]).
Proof. intros W Ho. apply wf_alloc; [exact W|]. intros t E. destruct (Ho t E). Qed.

Lemma wf_alloc_empty h : wf h -> GW h (h ++ [OTable (mkTable [] [])]).
Proof. intros W. apply wf_alloc; [exact W|]. intros t E. inversion E; subst. apply twf_empty_vm. Qed.

Lemma wf_set_table h a t t' : wf h -> hget h a = Some (OTable t) -> twf (veq h) (dom h) t' ->
  GW h (hset h a (OTable t')).
Proof.
  intros W Ha Wt. apply GW_good; [exact W|]. eapply good_hset; [exact Ha | exact I |].
  intros t2 E _. inversion E; subst. exact Wt.
Qed.

(* snapshot (stdlib.rs): a fresh table object filled from t.iter() *)
Lemma snapshot_ok s a t s' ct : wf (st_heap s) -> hget (st_heap s) a = Some (OTable t) ->
  snapshot F s t = Some (s', ct) ->
  GW (st_heap s) (st_heap s') /\ twf (veq (st_heap s')) (dom (st_heap s')) ct.
Proof.
  intros W Ha E. unfold snapshot, salloc, halloc in E.
  destruct (titer (veq (st_heap s)) t) as [l|] eqn:El; [|discriminate]. cbv beta iota zeta in E. hredn.
  set (h1 := st_heap s ++ [OTable (mkTable [] [])]) in *.
  destruct (insert_pairs (veq h1) (mkTable [] []) l) as [ct'|] eqn:Ei; [|discriminate].
  inversion E; subst s' ct'. clear E. unfold set_table. hredn. fold h1.
  pose proof (wf_alloc_empty _ W) as G1. fold h1 in G1. destruct G1 as (X1 & W1).
  assert (Wct : twf (veq h1) (dom h1) ct).
  { eapply insert_pairs_twf; [apply twf_empty_vm | | exact Ei].
    pose proof (titer_keys_dom _ _ _ (W _ _ Ha) El) as HD.
    rewrite Forall_forall in *. intros x Hx. eapply vkey_ext; [exact X1 | apply HD, Hx]. }
  assert (G2 : GW h1 (hset h1 (N.of_nat (length (st_heap s))) (OTable ct))).
  { eapply wf_set_table; [exact W1 | unfold h1; apply hget_app_new | exact Wct]. }
  split; [eapply GW_trans; [split; [exact X1 | exact W1] | exact G2]|].
  destruct G2 as (X2 & _). eapply twf_ext; [exact X2 | exact Wct].
Qed.

(* the row {"key": k, "value": v} of min / max *)
Lemma make_row_ok s k v : wf (st_heap s) -> NG s (make_row F s k v).
Proof.
  intros W. unfold make_row, NG, salloc, halloc. cbv beta iota zeta. hredn.
  set (h := st_heap s) in *.
  set (h3 := h ++ [OTable (mkTable [] [])]).
  set (h4 := h3 ++ [OStr str_key]).
  set (h5 := h4 ++ [OStr str_value]).
  assert (G3 : GW h h3) by (apply wf_alloc_empty; exact W).
  assert (G4 : GW h3 h4) by (apply wf_alloc_nt; [apply G3 | discriminate]).
  assert (G5 : GW h4 h5) by (apply wf_alloc_nt; [apply G4 | discriminate]).
  assert (Hka4 : hget h4 (N.of_nat (length h3)) = Some (OStr str_key)) by (unfold h4; apply hget_app_new).
  destruct (tinsert (veq h4) (mkTable [] []) (VObj (N.of_nat (length h3))) k) as [t1|] eqn:E1;
    [| hredn; eapply GW_trans; eauto ].
  pose proof (tinsert_twf _ _ _ _ _ (twf_empty_vm F h4) (dom_string F _ _ _ Hka4) E1) as W1.
  assert (W1' : twf (veq h5) (dom h5) t1) by (eapply twf_ext; [apply G5 | exact W1]).
  assert (Hva5 : hget h5 (N.of_nat (length h4)) = Some (OStr str_value)) by (unfold h5; apply hget_app_new).
  destruct (tinsert (veq h5) t1 (VObj (N.of_nat (length h4))) v) as [t2|] eqn:E2;
    [| hredn; eapply GW_trans; [exact G3 | eapply GW_trans; eauto] ].
  pose proof (tinsert_twf _ _ _ _ _ W1' (dom_string F _ _ _ Hva5) E2) as W2.
  unfold set_table. hredn.
  eapply GW_trans; [exact G3|]. eapply GW_trans; [exact G4|]. eapply GW_trans; [exact G5|].
  eapply wf_set_table; [apply G5 | | exact W2].
  unfold h5, h4, h3. apply hget_app_old. apply hget_app_old. apply hget_app_new.
Qed.

Section WithSelf.
Variable self : N -> state -> nres.
Hypothesis self_ok : forall h x, wf (st_heap x) -> NG x (self h x).

Definition mm_state (r : mmres) : state :=
  match r with MMOk _ s => s | MMFail r => nres_state r end.

Lemma minmax_go_ok less key_fn : forall l j i best s, wf (st_heap s) ->
  GW (st_heap s) (st_heap (mm_state (minmax_go F P reenter self less key_fn l j i best s))).
Proof.
  induction l as [|[k v] rest IH]; intros j i best s W; cbn [minmax_go]; [apply GW_refl; exact W|].
  destruct (spush s v) as [s1|] eqn:E1; [|apply GW_refl; exact W]. apply spush_heap in E1.
  destruct (spush s1 k) as [s2|] eqn:E2; [|cbn [mm_state nres_state]; rewrite E1; apply GW_refl; exact W].
  apply spush_heap in E2.
  assert (W2 : wf (st_heap s2)) by (rewrite E2, E1; exact W).
  pose proof (run_function_ok self key_fn s2 self_ok W2) as R. unfold NG in R. rewrite E2, E1 in R.
  destruct (run_function P reenter self key_fn s2) as [key s3|e s3|ab s3]; cbn [mm_state nres_state] in *;
    try exact R.
  assert (Hrec : forall j i best,
            GW (st_heap s) (st_heap (mm_state (minmax_go F P reenter self less key_fn rest j i best s3)))).
  { intros. eapply GW_step; [exact R | intros W3; apply IH; exact W3]. }
  destruct (vcmp F (st_heap s3) key best) as [[]| |]; cbv zeta;
    try (cbn [mm_state nres_state]; exact R);
    destruct less; cbn [negb]; apply Hrec.
Qed.

Lemma native_minmax_ok less iterable key_fn s : wf (st_heap s) ->
  NG s (native_minmax F P reenter self less iterable key_fn s).
Proof.
  intros W. unfold native_minmax, NG.
  destruct iterable as [|z|r|a]; try (apply GW_refl; exact W).
  destruct (hget (st_heap s) a) as [[t|b|h ar|h|h ar ups|u]|] eqn:Ha; try (apply GW_refl; exact W).
  destruct (snapshot F s t) as [[s' entries]|] eqn:Es; [|apply GW_refl; exact W].
  destruct (snapshot_ok _ _ _ _ _ W Ha Es) as (G1 & Wen). assert (W' := proj2 G1).
  destruct (titer (veq (st_heap s')) entries) as [[|[k0 v0] rest]|]; try exact G1.
  destruct (spush s' v0) as [s1|] eqn:E1; [|exact G1]. apply spush_heap in E1.
  destruct (spush s1 k0) as [s2|] eqn:E2; [|hredn; rewrite E1; exact G1]. apply spush_heap in E2.
  assert (W2 : wf (st_heap s2)) by (rewrite E2, E1; exact W').
  pose proof (run_function_ok self key_fn s2 self_ok W2) as R. unfold NG in R. rewrite E2, E1 in R.
  assert (R' := GW_trans _ _ _ G1 R). clear R.
  destruct (run_function P reenter self key_fn s2) as [key0 s3|e s3|ab s3]; hredn; try exact R'.
  pose proof (minmax_go_ok less key_fn rest 1 0 key0 s3 (proj2 R')) as M.
  assert (M' := GW_trans _ _ _ R' M). clear M.
  destruct (minmax_go F P reenter self less key_fn rest 1 0 key0 s3) as [i s4|r]; cbn [mm_state] in M';
    [|exact M'].
  destruct (tget (veq (st_heap s4)) entries (tnth_key entries i)) as [r|]; [|exact M'].
  eapply GW_step; [exact M' | intros W4; apply make_row_ok; exact W4].
Qed.

Definition sk_state (r : skres) : state :=
  match r with SKOk _ s => s | SKFail r => nres_state r end.

Lemma sort_keys_ok key_fn : forall l s, wf (st_heap s) ->
  GW (st_heap s) (st_heap (sk_state (sort_keys P reenter self key_fn l s))) /\
  (forall l' s', sort_keys P reenter self key_fn l s = SKOk l' s' -> map snd l' = l).
Proof.
  induction l as [|[k v] rest IH]; intros s W; cbn [sort_keys].
  - split; [apply GW_refl; exact W|]. intros l' s' E. inversion E; reflexivity.
  - destruct (spush s v) as [s1|] eqn:E1; [|split; [apply GW_refl; exact W | discriminate]].
    apply spush_heap in E1.
    destruct (spush s1 k) as [s2|] eqn:E2;
      [|split; [cbn [sk_state nres_state]; rewrite E1; apply GW_refl; exact W | discriminate]].
    apply spush_heap in E2.
    assert (W2 : wf (st_heap s2)) by (rewrite E2, E1; exact W).
    pose proof (run_function_ok self key_fn s2 self_ok W2) as R. unfold NG in R. rewrite E2, E1 in R.
    destruct (run_function P reenter self key_fn s2) as [key s3|e s3|ab s3]; cbn [sk_state nres_state] in *;
      try (split; [exact R | discriminate]).
    destruct (IH s3 (proj2 R)) as (I1 & I2).
    destruct (sort_keys P reenter self key_fn rest s3) as [l0 s4|r] eqn:Er; cbn [sk_state] in *.
    + split; [eapply GW_trans; eauto|]. intros l' s' E. inversion E; subst. cbn [map snd].
      f_equal. apply (I2 _ _ Logic.eq_refl).
    + split; [eapply GW_trans; eauto | discriminate].
Qed.

Lemma sort_insert_forall (Q : value * (value * value) -> Prop) h x : forall l l',
  Q x -> Forall Q l -> sort_insert F h x l = Some l' -> Forall Q l'.
Proof.
  induction l as [|y r IH]; intros l' Qx Ql E; cbn [sort_insert] in E.
  - inversion E; subst. constructor; [exact Qx | constructor].
  - inversion Ql as [|? ? Qy Qr]; subst.
    destruct (sort_key_le F h (fst y) (fst x)) as [[|]|]; try discriminate.
    + destruct (sort_insert F h x r) as [r'|] eqn:Er; [|discriminate]. inversion E; subst.
      constructor; [exact Qy | apply (IH _ Qx Qr Logic.eq_refl)].
    + inversion E; subst. constructor; [exact Qx | exact Ql].
Qed.

Lemma stable_sort_forall (Q : value * (value * value) -> Prop) h : forall l acc r,
  Forall Q l -> Forall Q acc -> stable_sort F h l acc = Some r -> Forall Q r.
Proof.
  induction l as [|x l IH]; intros acc r Ql Qa E; cbn [stable_sort] in E.
  - inversion E; subst. exact Qa.
  - inversion Ql as [|? ? Qx Ql']; subst.
    destruct (sort_insert F h x acc) as [acc'|] eqn:Ei; [|discriminate].
    eapply IH; [exact Ql' | | exact E]. exact (sort_insert_forall Q h x acc acc' Qx Qa Ei).
Qed.

Lemma native_sorted_ok iterable key_fn s : wf (st_heap s) ->
  NG s (native_sorted F P reenter self iterable key_fn s).
Proof.
  intros W. unfold native_sorted, NG.
  destruct iterable as [|z|r|a]; try (apply GW_refl; exact W).
  destruct (hget (st_heap s) a) as [[t|b|h ar|h|h ar ups|u]|] eqn:Ha; try (apply GW_refl; exact W).
  destruct (snapshot F s t) as [[s' entries]|] eqn:Es; [|apply GW_refl; exact W].
  destruct (snapshot_ok _ _ _ _ _ W Ha Es) as (G1 & Wen). assert (W' := proj2 G1).
  destruct (titer (veq (st_heap s')) entries) as [l|] eqn:El; [|exact G1].
  pose proof (titer_keys_dom _ _ _ Wen El) as HD.
  destruct (sort_keys_ok key_fn l s' W') as (S1 & S2).
  assert (S1' := GW_trans _ _ _ G1 S1).
  destruct (sort_keys P reenter self key_fn l s') as [keyed s1|r]; cbn [sk_state] in *; [|exact S1'].
  specialize (S2 _ _ Logic.eq_refl).
  destruct (stable_sort F (st_heap s1) keyed []) as [sorted|] eqn:Eso; [|exact S1'].
  unfold salloc, halloc. cbv beta iota zeta. hredn.
  set (h2 := st_heap s1 ++ [OTable (mkTable [] [])]).
  assert (G2 : GW (st_heap s1) h2) by (apply wf_alloc_empty; apply S1').
  destruct (insert_all (veq h2) (mkTable [] []) sorted) as [t'|] eqn:Ei;
    [| hredn; eapply GW_trans; eauto ].
  unfold set_table. hredn. fold h2.
  eapply GW_trans; [exact S1'|]. eapply GW_trans; [exact G2|].
  eapply wf_set_table; [apply G2 | unfold h2; apply hget_app_new |].
  eapply insert_all_twf; [apply twf_empty_vm | | exact Ei].
  eapply stable_sort_forall; [| constructor | exact Eso].
  assert (X : hext (st_heap s') h2) by (eapply hext_trans; [apply S1 | apply G2]).
  rewrite <- S2 in HD. clear -HD X. rewrite Forall_forall in *. intros x Hx.
  eapply vkey_ext; [exact X|]. apply HD. rewrite map_map. apply (in_map (fun y => fst (snd y))) in Hx. exact Hx.
Qed.

(* every native of the menu *)
Lemma native_body_ok n s : wf (st_heap s) -> NG s (native_body F P reenter self n s).
Proof.
  intros W. unfold NG.
  assert (Hcall : forall fv x, st_heap x = st_heap s ->
            GW (st_heap s) (st_heap (nres_state (run_function P reenter self fv x)))).
  { intros fv x Hx. assert (Wx : wf (st_heap x)) by (rewrite Hx; exact W).
    pose proof (run_function_ok self fv x self_ok Wx) as R. unfold NG in R. rewrite Hx in R. exact R. }
  destruct n; cbn [native_body]; cbv zeta.
  - apply GW_refl; exact W.
  - repeat dm; hredn; apply GW_refl; exact W.
  - apply GW_refl; exact W.
  - repeat dm; hredn; apply GW_refl; exact W.
  - repeat dm; hredn; apply GW_refl; exact W.
  - destruct (spush s (speek s 0)) as [s1|] eqn:E; [|apply GW_refl; exact W]. apply spush_heap in E.
    apply Hcall, E.
  - destruct (spush s (speek s 0)) as [s1|] eqn:E; [|apply GW_refl; exact W]. apply spush_heap in E.
    pose proof (Hcall (speek s 1) s1 E) as R.
    destruct (run_function P reenter self (speek s 1) s1); hredn; exact R.
  - apply Hcall. reflexivity.
  - repeat dm; hredn; apply GW_refl; exact W.
  - repeat dm; hredn; apply GW_refl; exact W.
  - repeat dm; hredn; apply GW_refl; exact W.
  - repeat dm; hredn; apply GW_refl; exact W.
  - destruct (spush s (speek s 0)) as [s1|] eqn:E; [|apply GW_refl; exact W]. apply spush_heap in E.
    pose proof (Hcall (speek s 1) s1 E) as R.
    destruct (run_function P reenter self (speek s 1) s1); hredn; exact R.
  - apply native_minmax_ok, W.
  - apply native_minmax_ok, W.
  - apply native_sorted_ok, W.
  - destruct (speek s 0) as [|z|r|a]; try (apply GW_refl; exact W).
    destruct (hget (st_heap s) a) as [[t|b|h ar|h|h ar ups|u]|] eqn:Ha; try (apply GW_refl; exact W).
    unfold salloc, halloc. cbv beta iota zeta. hredn.
    set (h2 := st_heap s ++ [OTable (mkTable [] [])]).
    assert (G2 : GW (st_heap s) h2) by (apply wf_alloc_empty; exact W).
    destruct (titer (veq h2) t) as [l|]; [|exact G2].
    destruct (to_array_go (veq h2) (mkTable [] []) 0 l) as [t'|] eqn:Et; [|exact G2].
    hredn. eapply GW_trans; [exact G2|].
    eapply wf_set_table; [apply G2 | unfold h2; apply hget_app_new |].
    eapply to_array_go_twf; [apply twf_empty_vm | exact Et].
Qed.

End WithSelf.

Lemma call_native_fuel_ok : forall fuel h s, wf (st_heap s) -> NG s (call_native_fuel F P reenter fuel h s).
Proof.
  induction fuel as [|f IH]; intros h s W; cbn [call_native_fuel]; [apply GW_refl; exact W|].
  destruct (find_native h all_natives) as [n|]; [|apply GW_refl; exact W].
  pose proof (native_body_ok (call_native_fuel F P reenter f) IH n s W) as R. unfold NG in *.
  destruct (native_body F P reenter (call_native_fuel F P reenter f) n s) as [v s1|e s1|ab s1]; hredn;
    try exact R.
  destruct (spush _ v) as [s2|] eqn:E; hredn; [|exact R]. apply spush_heap in E. hredn. rewrite E. exact R.
Qed.

Lemma native_step_ok h ip s : wf (st_heap s) ->
  GW (st_heap s) (st_heap (sres_state (native_step F P reenter h ip s))).
Proof.
  intros W. unfold native_step, call_native.
  pose proof (call_native_fuel_ok 8 h s W) as R. unfold NG in R.
  destruct (call_native_fuel F P reenter 8 h s); exact R.
Qed.

(* ---- every instruction ---- *)
Theorem step_tables_wf : forall ip0 s,
  wf (st_heap s) -> set_key_ok F P ip0 s ->
  GW (st_heap s) (st_heap (sres_state (step F bld P reenter ip0 s))).
Proof.
  intros ip0 s W Hkey.
  destruct (N.eq_dec (opcode_at P ip0) 4) as [H4|H4].
  { assert (Hop := H4). step_opc Hop. unfold i_4.
    destruct (op_u32 P (ip0 + 1)); [apply native_step_ok; exact W | apply GW_refl; exact W]. }
  assert (Hc : callee_not_native s \/
               exists a h, snd (spop s) = VObj a /\ hget (st_heap s) a = Some (ONative h)).
  { unfold callee_not_native. destruct (snd (spop s)) as [|z|r|a]; try (left; intros; discriminate).
    destruct (hget (st_heap s) a) as [[t|b|h ar|h|h ar ups|u]|] eqn:E;
      try (left; intros a' h' Ha'; inversion Ha'; subst; rewrite E; discriminate).
    right. eauto. }
  destruct (N.eq_dec (opcode_at P ip0) 11) as [H11|H11].
  - destruct Hc as [Hc|(a & h & Hv & Ha)].
    + apply GW_good; [exact W|]. apply (step_tables_wf_no_native F bld P reenter ip0 s Hkey H4 (fun _ => Hc)).
    + assert (Hop := H11). step_opc Hop. unfold i_11. rewrite spop_shape in *. cbn [snd] in Hv.
      cbv beta iota. rewrite Hv. hredn. rewrite Ha.
      apply (native_step_ok h (ip0 + 1) (set_stack s (fst (vs_pop VNil (st_stack s)))) W).
  - apply GW_good; [exact W|].
    apply (step_tables_wf_no_native F bld P reenter ip0 s Hkey H4). intros E. contradiction.
Qed.

End Natives.

(* ---- summaries stated in Properties/C07.v ---- *)
Lemma vm_table_object :
  forall (eq : eqfun) (D : value -> Prop),
    (forall a b, D a -> D b -> eq a b <> None) ->
    (forall a, D a -> kb eq a a = true) ->
    forall t, twf eq D t ->
      map fst (tabs t) = tkeys t /\ length (tkeys t) = length (tabs t) /\
      titer eq t = Some (tabs t) /\
      (forall i, tnth_key t i = nth i (map fst (tabs t)) VNil) /\
      (forall k, D k -> tget eq t k = Some (al_get eq k (tabs t))) /\
      (forall k v, D k -> exists t', tinsert eq t k v = Some t' /\ twf eq D t' /\
                                      tabs t' = al_set eq k v (tabs t)) /\
      (forall k, D k -> exists t', tremove eq t k = Some t' /\ twf eq D t' /\
                                    tabs t' = al_remove eq k (tabs t)) /\
      (exists t', tpop eq t = Some (t', snd (al_pop (tabs t))) /\ twf eq D t' /\
                  tabs t' = fst (al_pop (tabs t))).
Proof.
  intros eq D Ht Hr t W. repeat split.
  - exact (tabs_keys W).
  - exact (tlen_spec W).
  - exact (@titer_spec eq D Ht Hr t W).
  - intros i. exact (tnth_key_spec i W).
  - intros k Dk. exact (@tget_spec eq D Ht t k W Dk).
  - intros k v Dk. exact (@tinsert_spec eq D Ht t k v W Dk).
  - intros k Dk. exact (@tremove_spec eq D Ht Hr t k W Dk).
  - exact (@tpop_spec eq D Ht Hr t W).
Qed.

Lemma vm_set_in_place_or_append :
  forall (eq : eqfun) k v m,
    (al_get eq k m <> None -> map fst (al_set eq k v m) = map fst m) /\
    (al_get eq k m = None -> al_set eq k v m = m ++ [(k, v)]) /\
    (kb eq k k = true -> al_get eq k (al_set eq k v m) = Some v).
Proof.
  intros eq k v m. split; [|split].
  - exact (@al_set_keys_present eq k v m).
  - exact (@al_set_absent eq k v m).
  - exact (@al_get_set_same eq k v m).
Qed.

Lemma vm_table_append :
  forall (eq : eqfun) (D : value -> Prop),
    (forall a b, D a -> D b -> eq a b <> None) ->
    (forall i, D (VInt i)) ->
    (forall a i, D a -> kb eq a (VInt i) = true -> a = VInt i) ->
    forall t v, twf eq D t ->
      exists t' j, tappend eq t v = TOk t' /\ twf eq D t' /\ tabs t' = tabs t ++ [(VInt j, v)] /\
        (Z.of_nat (length (tabs t)) <= j)%Z /\ al_get eq (VInt j) (tabs t) = None /\
        forall x, (Z.of_nat (length (tabs t)) <= x < j)%Z -> al_get eq (VInt x) (tabs t) <> None.
Proof.
  intros eq D Ht Hi Hk t v W.
  destruct (@tappend_spec eq D Ht Hi Hk t v W) as (t' & j & E & W' & (A1 & A2 & A3) & Habs).
  exists t', j. split; [exact E|]. split; [exact W'|]. split; [exact Habs|]. split; [exact A1|]. split; [exact A2 | exact A3].
Qed.

Lemma vm_key_equality :
  forall (F : fops) (h : heap),
    (forall a b, vkey F h a -> vkey F h b -> veq0 F h a b <> None) /\
    (forall a, vkey F h a -> kb (veq0 F h) a a = true) /\
    (forall i, vkey F h (VInt i)) /\
    (forall a i, vkey F h a -> kb (veq0 F h) a (VInt i) = true -> a = VInt i) /\
    (forall h' a b, hext h h' -> vkey F h a -> vkey F h b ->
                    vkey F h' a /\ veq0 F h' a b = veq0 F h a b) /\
    (forall h' t, hext h h' -> twf (veq0 F h) (vkey F h) t -> twf (veq0 F h') (vkey F h') t).
Proof.
  intros F h. split; [exact (veq0_total F h)|]. split; [exact (veq0_refl F h)|].
  split; [exact (vkey_int F h)|]. split; [exact (veq0_int F h)|]. split.
  - intros h' a b X Ha Hb. split; [exact (vkey_ext F h h' a X Ha) | exact (veq0_ext F h h' a b X Ha Hb)].
  - intros h' t X W. exact (twf_ext F h h' t X W).
Qed.

Lemma vm_tables_wf_initial : forall F, tables_wf F (st_heap fresh_state).
Proof. intros F a t H. unfold hget in H. cbn in H. destruct (N.to_nat a); discriminate. Qed.

(* set-then-get through any key: needs the key test to be an equivalence on the key domain *)
Lemma al_get_set_law (eq : eqfun) (D : value -> Prop) :
  (forall a, D a -> kb eq a a = true) ->
  (forall a b, D a -> D b -> kb eq a b = true -> kb eq b a = true) ->
  (forall a b c, D a -> D b -> D c -> kb eq a b = true -> kb eq b c = true -> kb eq a c = true) ->
  forall m k v k2, Forall D (map fst m) -> D k -> D k2 ->
    al_get eq k2 (al_set eq k v m) = if kb eq k k2 then Some v else al_get eq k2 m.
Proof.
  intros Hr Hs Ht m k v k2 HD Dk Dk2. induction m as [|[k' v'] r IH]; cbn [al_set al_get].
  - destruct (kb eq k k2); reflexivity.
  - cbn [map fst] in HD. inversion HD as [|? ? Dk' Dr]; subst. specialize (IH Dr).
    destruct (kb eq k' k) eqn:E1; cbn [al_get].
    + destruct (kb eq k k2) eqn:E2.
      * rewrite (Ht k' k k2 Dk' Dk Dk2 E1 E2). reflexivity.
      * destruct (kb eq k' k2) eqn:E3; [|reflexivity].
        rewrite (Ht k k' k2 Dk Dk' Dk2 (Hs k' k Dk' Dk E1) E3) in E2. discriminate.
    + destruct (kb eq k' k2) eqn:E3; [|exact IH].
      destruct (kb eq k k2) eqn:E2; [|reflexivity].
      rewrite (Ht k' k2 k Dk' Dk2 Dk E3 (Hs k k2 Dk Dk2 E2)) in E1. discriminate.
Qed.
