(* C04: Vm::run of a compiled program does not abort on any run on which the checked VM (C04VmChecked.v) reports
   no failed check.  No hypothesis about intermediate states or nested runs. *)
From Coq Require Import NArith ZArith List Lia Bool.
From Cao Require Import ListUtil Bits Bytecode CardAst Compiler Wellformed C15Link.
From Cao Require Vm C04VmProofs C04VmProofs2 C04VmProofs4 C04VmProofs5 C04VmProofs6 C04VmProofs7 C04VmProofs10
  C04VmChecked C04VmAgree C04VmLink CompilerFull.
Import ListNotations.

Lemma empty_heap_acyclic : C04VmProofs2.heap_acyclic [].
Proof. exists (fun _ => 0). intros a t H. unfold Vm.hget in H. destruct (N.to_nat a); discriminate. Qed.
Lemma empty_heap_simple : C04VmProofs6.natives_simple [].
Proof. intros a hd n H. unfold Vm.hget in H. destruct (N.to_nat a); discriminate. Qed.

(* for any program with code_ok *)
Theorem run_no_abort_unless_check : forall F bld P start budget s,
  C04VmProofs5.code_ok P start -> C04VmProofs10.native_pointers_simple P ->
  C04VmProofs4.vm_inv0 P start s -> C04VmProofs2.heap_acyclic (Vm.st_heap s) -> C04VmProofs6.natives_simple (Vm.st_heap s) ->
  fst (C04VmChecked.run_c F bld P budget s) <> Vm.OAbort Vm.AUnmodelled ->
  Vm.run F bld budget P s = C04VmChecked.run_c F bld P budget s /\
  forall a, fst (Vm.run F bld budget P s) <> Vm.OAbort a.
Proof.
  intros F bld P start budget s Hcode Hnp Hi Hac Hsim HU.
  pose proof (C04VmAgree.run_agrees F bld P budget s HU) as E. split; [exact E|].
  intros a Ha. rewrite E in Ha.
  pose proof (C04VmChecked.checked_run_no_abort F bld P start Hcode Hnp budget s Hi Hac Hsim a Ha) as ->.
  apply HU. exact Ha.
Qed.

(* compiled programs, a new Vm *)
Theorem compiled_run_no_abort_unless_check : forall (M : module) (o : options) (B : compiled),
  compile M o = COk B -> program_in_range M o = true -> WellformedSide.program_utf8 M o = true ->
  (N.of_nat (length (p_bytecode B)) < 2147483648)%N -> (N.of_nat (length (p_data B)) < 4294967296)%N ->
  C04VmProofs10.native_pointers_simple (to_vm B) ->
  forall F bld budget,
    fst (C04VmChecked.run_c F bld (to_vm B) budget Vm.fresh_state) <> Vm.OAbort Vm.AUnmodelled ->
    forall a, fst (Vm.run F bld budget (to_vm B) Vm.fresh_state) <> Vm.OAbort a.
Proof.
  intros M o B Hc Hr Hu Hl1 Hl2 Hnp F bld budget HU.
  destruct (C04VmLink.wellformed_code_ok false B (CompilerFull.compile_wellformed M o B Hc Hr Hu Hl1 Hl2)) as (is & _ & Hcode).
  apply (run_no_abort_unless_check F bld (to_vm B) (C04VmLink.wf_start is) budget Vm.fresh_state Hcode Hnp
           (C04VmProofs7.fresh_inv0 _ _) empty_heap_acyclic empty_heap_simple HU).
Qed.
