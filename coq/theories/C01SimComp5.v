(* C01, simulation, compiler half for fragment F5 (locals of main).
   The combinators of C01SimComp2 once more, for a compile context that carries the declared locals
   ([ctxL Ln]: the locals of main are the names Ln, most recent first, all at scope depth 1), then the
   cards of the fragment. *)
From Coq Require Import List NArith ZArith Bool Lia.
From Cao Require TableProofs.
From Cao Require Import ListUtil CheckUtil Bits CardAst Bytecode Compiler CompilerGen CompilerProofs CompilerWf
     CompilerResolve StdlibGen C01SimKeep C01SimDefs C01SimComp C01SimDefs2 C01SimComp2 C01SimDefs4 C01SimDefs5.
Import ListNotations.
Local Open Scope N_scope.

Definition mkl (n : str) : local := {| l_name := n; l_depth := 1; l_captured := false |}.

Definition ctxL (Ln : list str) (s : cstate) : Prop :=
  (cs_locals s = [map mkl (rev Ln)] /\ scope_depth s = 1%Z) /\ cs_upvalues s = [[]] /\ cs_pc s = bytes (cs_code s).

Definition emitsL (Ln Ln' : list str) (m : M unit) (names : list str) (code : list (N * N) -> N -> list instr) : Prop :=
  forall s s', ctxL Ln s -> m s = ROk tt s' ->
    ctxL Ln' s' /\ sub2 s s' /\
    (forall n, In n names -> named s' n) /\
    (forall T, sub (cs_ids s') T -> cs_code s' = rev (code T (cs_pc s)) ++ cs_code s).

(* nothing but labels / the card index changes *)
Definition keepL (s s' : cstate) : Prop := keep4 s s' /\ cs_depth s' = cs_depth s.
Lemma keepL_push_sub i s s' : push_sub i s = ROk tt s' -> keepL s s'.
Proof. intros E. injection E as <-. repeat split. Qed.
Lemma keepL_pop_sub s s' : pop_sub s = ROk tt s' -> keepL s s'.
Proof. intros E. injection E as <-. repeat split. Qed.
Lemma keepL_card_label s s' : card_label s = ROk tt s' -> keepL s s'.
Proof.
  intros E. split; [apply keep4_card_label, E|]. revert E.
  unfold card_label, index_handle, bind, get, handle_from_bytes_m, ret, label_entry_here.
  destruct (two32 <=? cs_pc s); [discriminate|].
  destruct (_ =? 0); [intros E; injection E as <-; reflexivity|].
  destruct (nm_find _ (cs_labels s)); intros E; injection E as <-; reflexivity.
Qed.

(* sequencing across a change of the local context *)
Lemma emitsL_pc_gen Ln Ln' m n c s s' T :
  emitsL Ln Ln' m n c -> ctxL Ln s -> m s = ROk tt s' -> sub (cs_ids s') T ->
  cs_pc s' = cs_pc s + bytes (c T (cs_pc s)).
Proof.
  intros H Hc E HT. destruct (H _ _ Hc E) as ((_ & _ & Hp') & _ & _ & D).
  destruct Hc as (_ & _ & Hp). rewrite Hp', (D T HT), bytes_app, bytes_rev, <- Hp. lia.
Qed.

Lemma emitsL_seq_gen L0 L1 L2 m1 m2 n1 n2 c1 c2 :
  emitsL L0 L1 m1 n1 c1 -> emitsL L1 L2 m2 n2 c2 ->
  emitsL L0 L2 (m1 ;; m2) (n1 ++ n2) (fun T b => c1 T b ++ c2 T (b + bytes (c1 T b))).
Proof.
  intros H1 H2 s s' Hc H. apply bind_ok in H. destruct H as ([] & s1 & E1 & E2).
  destruct (H1 _ _ Hc E1) as (Hc1 & Hs1 & Hn1 & Hk1).
  destruct (H2 _ _ Hc1 E2) as (Hc2 & Hs2 & Hn2 & Hk2).
  split; [exact Hc2|]. split; [eapply sub2_trans; eauto|]. split.
  - intros n Hin. apply in_app_or in Hin. destruct Hin as [Hin|Hin]; [|auto].
    eapply named_sub2; [apply Hn1, Hin | exact Hs2].
  - intros T HT.
    rewrite (Hk2 T HT), (Hk1 T (sub_trans _ _ _ (proj1 Hs2) HT)).
    rewrite (emitsL_pc_gen _ _ _ _ _ _ _ T H1 Hc E1 (sub_trans _ _ _ (proj1 Hs2) HT)).
    rewrite rev_app_distr, app_assoc. reflexivity.
Qed.

Section Fixed.
Variable Ln : list str.

Lemma emitsL_nop m : (forall s s', m s = ROk tt s' -> keepL s s') -> emitsL Ln Ln m [] (fun _ _ => []).
Proof.
  intros H s s' ((Hl & Hd) & Hu & Hp) E. destruct (H _ _ E) as ((a & b & c & d & e & f) & g).
  split; [unfold ctxL, scope_depth; rewrite c, d, e, a, g; repeat split; auto|].
  split; [unfold sub2; rewrite b, f; apply sub2_refl|]. split; [intros n []|].
  intros T _. rewrite a. reflexivity.
Qed.

Lemma emitsL_push i : emitsL Ln Ln (push_instr i) [] (fun _ _ => [i]).
Proof.
  intros s s' ((Hl & Hd) & Hu & Hp) E. rewrite push_instr_eq in E. injection E as <-.
  split; [repeat split; [exact Hl | exact Hd | exact Hu | cbn [pushed cs_pc cs_code set_code set_trace bytes]; unfold spanN; rewrite Hp; lia]|].
  split; [split; intros ? ? H; exact H|]. split; [intros n []|].
  intros T _. reflexivity.
Qed.

Lemma emitsL_global n (k : N -> instr) :
  emitsL Ln Ln (do id <- global_id n ;; push_instr (k id)) [n] (fun T _ => [k (idT T n)]).
Proof.
  intros s s' ((Hl & Hd) & Hu & Hp) E. apply bind_ok in E. destruct E as (id & s1 & E1 & E2).
  destruct (global_id_spec _ _ _ _ E1) as (A & B & C & D & S1 & Pc1 & Sn & Nm).
  assert (Hd1 : scope_depth s1 = scope_depth s).
  { revert E1. unfold global_id, bind, handle_from_bytes_m, name_checked.
    destruct (nm_find _ (cs_ids s)); [|destruct (ht_entry_hangs (cs_ids s)); [discriminate|]];
      (destruct (nm_find _ (cs_names s)); [destruct (_ && _); [discriminate|] | destruct (ht_entry_hangs (cs_names s)); [discriminate|]]);
      intros E; injection E as _ <-; reflexivity. }
  rewrite push_instr_eq in E2. injection E2 as <-.
  split.
  { split; [split|split].
    - cbn. congruence.
    - change (scope_depth s1 = 1%Z). rewrite Hd1. exact Hd.
    - cbn. congruence.
    - cbn [pushed cs_pc cs_code set_code set_trace bytes]. unfold spanN. rewrite Pc1, Hp, A. lia. }
  split; [split; [exact S1 | exact Sn]|]. split.
  - intros x [<-|[]]. exists id. split; [exact D | exact Nm].
  - intros T HT. cbn. unfold idT. rewrite (HT _ _ D), A. reflexivity.
Qed.

Lemma emitsL_ext m n n' c c' :
  emitsL Ln Ln m n c -> (forall x, In x n' -> In x n) -> (forall T b, c' T b = c T b) -> emitsL Ln Ln m n' c'.
Proof.
  intros H Hn Hcc s s' Hc E. destruct (H _ _ Hc E) as (A & B & C & D).
  split; [exact A|]. split; [exact B|]. split; [intros x Hx; apply C, Hn, Hx|].
  intros T HT. rewrite Hcc. apply D, HT.
Qed.

(* the address after the emitted code *)
Lemma emitsL_pc m n c s s' T :
  emitsL Ln Ln m n c -> ctxL Ln s -> m s = ROk tt s' -> sub (cs_ids s') T ->
  cs_pc s' = cs_pc s + bytes (c T (cs_pc s)).
Proof.
  intros H Hc E HT. destruct (H _ _ Hc E) as ((_ & _ & Hp') & _ & _ & D).
  destruct Hc as (_ & _ & Hp). rewrite Hp', (D T HT), bytes_app, bytes_rev, <- Hp. lia.
Qed.

Lemma emitsL_seq m1 m2 n1 n2 c1 c2 :
  emitsL Ln Ln m1 n1 c1 -> emitsL Ln Ln m2 n2 c2 ->
  emitsL Ln Ln (m1 ;; m2) (n1 ++ n2) (fun T b => c1 T b ++ c2 T (b + bytes (c1 T b))).
Proof.
  intros H1 H2 s s' Hc H. apply bind_ok in H. destruct H as ([] & s1 & E1 & E2).
  destruct (H1 _ _ Hc E1) as (Hc1 & Hs1 & Hn1 & Hk1).
  destruct (H2 _ _ Hc1 E2) as (Hc2 & Hs2 & Hn2 & Hk2).
  split; [exact Hc2|]. split; [eapply sub2_trans; eauto|]. split.
  - intros n Hin. apply in_app_or in Hin. destruct Hin as [Hin|Hin]; [|auto].
    eapply named_sub2; [apply Hn1, Hin | exact Hs2].
  - intros T HT.
    rewrite (Hk2 T HT), (Hk1 T (sub_trans _ _ _ (proj1 Hs2) HT)).
    rewrite (emitsL_pc _ _ _ _ _ T H1 Hc E1 (sub_trans _ _ _ (proj1 Hs2) HT)).
    rewrite rev_app_distr, app_assoc. reflexivity.
Qed.

Lemma ctxL_set_code s c : cs_pc s = bytes c -> ctxL Ln s -> ctxL Ln (set_code c (cs_pc s) s).
Proof. intros Hp ((A & A') & B & _). repeat split; auto. Qed.

(* encode_if_then: the skip instruction, the body, the patch *)
Lemma emitsL_if_then (skip : Z -> instr) body n c :
  skip = IGotoIfFalse \/ skip = IGotoIfTrue ->
  emitsL Ln Ln body n c ->
  emitsL Ln Ln (encode_if_then skip body) n
         (fun T b => skip (u32_to_i32 (b + 5 + bytes (c T (b + 5)))) :: c T (b + 5)).
Proof.
  intros Hskip Hb s s' Hc E. unfold encode_if_then in E.
  apply bind_ok in E. destruct E as (p & sa & Ea & E). injection Ea as <- <-.
  apply bind_ok in E. destruct E as ([] & s1 & E1 & E).
  apply bind_ok in E. destruct E as ([] & s2 & E2 & E3).
  rewrite push_instr_eq in E1. injection E1 as <-.
  assert (Hspan : spanN (skip 0%Z) = 5) by (destruct Hskip; subst; reflexivity).
  assert (Hc1 : ctxL Ln (pushed s (skip 0%Z))).
  { destruct Hc as ((A & A') & B & C). repeat split; auto.
    cbn [pushed cs_pc cs_code set_code set_trace bytes]. rewrite Hspan, C. unfold spanN in Hspan. rewrite Hspan. lia. }
  assert (Hpc1 : cs_pc (pushed s (skip 0%Z)) = cs_pc s + 5).
  { cbn [pushed cs_pc set_code set_trace]. unfold spanN in Hspan. rewrite Hspan. reflexivity. }
  destruct (Hb _ _ Hc1 E2) as (Hc2 & Hs2 & Hn2 & Hk2).
  unfold patch_jump_here in E3.
  destruct (patch_code (cs_code s2) (cs_pc s2) (cs_pc s) (u32_to_i32 (cs_pc s2))) as [cc|] eqn:Ep; [|discriminate].
  injection E3 as <-.
  assert (Hfinal : forall T, sub (cs_ids s2) T ->
            cc = rev (skip (u32_to_i32 (cs_pc s + 5 + bytes (c T (cs_pc s + 5)))) :: c T (cs_pc s + 5)) ++ cs_code s).
  { intros T HT. pose proof (Hk2 T HT) as Hcode. rewrite Hpc1 in Hcode.
    cbn [pushed cs_code set_code set_trace] in Hcode.
    pose proof (emitsL_pc _ _ _ _ _ T Hb Hc1 E2 HT) as Hpc2. rewrite Hpc1 in Hpc2.
    destruct Hc as (_ & _ & Hp). destruct Hc2 as (_ & _ & Hp2).
    assert (Hpa : patch_code (rev (c T (cs_pc s + 5)) ++ skip 0%Z :: cs_code s) (cs_pc s2) (cs_pc s) (u32_to_i32 (cs_pc s2))
                  = Some (rev (c T (cs_pc s + 5)) ++ skip (u32_to_i32 (cs_pc s2)) :: cs_code s)).
    { rewrite Hp at 2. apply patch_code_at; [rewrite Hp2, Hcode; reflexivity | destruct Hskip; subst; reflexivity]. }
    rewrite Hcode, Hpa in Ep. injection Ep as <-. rewrite Hpc2. cbn [rev]. rewrite <- app_assoc. reflexivity. }
  split.
  { apply ctxL_set_code; [|exact Hc2]. destruct Hc2 as (_ & _ & Hp2). rewrite Hp2.
    assert (Hsp : forall z, spanN (skip z) = 5) by (intros; destruct Hskip; subst; reflexivity).
    rewrite (Hfinal _ (sub_refl _)), (Hk2 _ (sub_refl _)), Hpc1. cbn [rev pushed cs_code set_code set_trace].
    rewrite !bytes_app. cbn [bytes]. rewrite !Hsp. lia. }
  split; [exact Hs2|]. split; [exact Hn2|]. intros T HT. cbn [cs_code set_code]. apply Hfinal, HT.
Qed.

Lemma emitsL_if_else A Bb na nb ca cb :
  emitsL Ln Ln A na ca -> emitsL Ln Ln Bb nb cb ->
  emitsL Ln Ln (if_else_tail A Bb) (na ++ nb) (code_if_else ca cb).
Proof.
  intros HA HB s s' Hc E. unfold if_else_tail in E.
  apply bind_ok in E. destruct E as (p & sa & Ea & E). injection Ea as <- <-.
  apply bind_ok in E. destruct E as ([] & s1 & E1 & E).
  apply bind_ok in E. destruct E as ([] & s2 & E2 & E).
  apply bind_ok in E. destruct E as (p2 & sb & Eb & E). injection Eb as <- <-.
  apply bind_ok in E. destruct E as ([] & s3 & E3 & E).
  apply bind_ok in E. destruct E as ([] & s4 & E4 & E).
  apply bind_ok in E. destruct E as ([] & s4' & E4' & E).
  apply bind_ok in E. destruct E as ([] & s5 & E5 & E6).
  rewrite push_instr_eq in E1. injection E1 as <-.
  rewrite push_instr_eq in E3. injection E3 as <-.
  injection E4' as <-.
  pose proof Hc as ((Hl & Hd) & Hu & Hp).
  (* after the conditional jump *)
  assert (Hc1 : ctxL Ln (pushed s (IGotoIfFalse 0%Z))).
  { repeat split; auto. cbn [pushed cs_pc cs_code set_code set_trace bytes]. rewrite Hp. unfold spanN. lia. }
  assert (Hpc1 : cs_pc (pushed s (IGotoIfFalse 0%Z)) = cs_pc s + 5) by reflexivity.
  destruct (HA _ _ Hc1 E2) as (Hc2 & Hs2 & Hn2 & Hk2).
  pose proof Hc2 as ((Hl2 & Hd2) & Hu2 & Hp2).
  (* after the Goto over the else branch *)
  set (s3 := pushed s2 (IGoto placeholder)) in *.
  assert (Hpc3 : cs_pc s3 = cs_pc s2 + 5) by reflexivity.
  assert (Hcode3 : cs_code s3 = IGoto placeholder :: cs_code s2) by reflexivity.
  assert (Hp3 : cs_pc s3 = bytes (cs_code s3)).
  { rewrite Hpc3, Hcode3. cbn [bytes]. rewrite Hp2. change (spanN (IGoto placeholder)) with 5. lia. }
  (* the first patch *)
  assert (Hcode2 : cs_code s2 = rev (ca (cs_ids s2) (cs_pc s + 5)) ++ IGotoIfFalse 0%Z :: cs_code s).
  { rewrite (Hk2 _ (sub_refl _)), Hpc1. reflexivity. }
  assert (E4b : patch_jump_here (bytes (cs_code s)) s3 =
                ROk tt (set_code ((IGoto placeholder :: rev (ca (cs_ids s2) (cs_pc s + 5))) ++
                                  IGotoIfFalse (u32_to_i32 (cs_pc s3)) :: cs_code s) (cs_pc s3) s3)).
  { apply (patch_here_spec s3 (IGoto placeholder :: rev (ca (cs_ids s2) (cs_pc s + 5))) (IGotoIfFalse 0%Z) (cs_code s)
                            (IGotoIfFalse (u32_to_i32 (cs_pc s3))));
      [exact Hp3 | rewrite Hcode3, Hcode2; reflexivity | reflexivity]. }
  rewrite Hp in E4. rewrite E4b in E4. injection E4 as <-.
  set (s4 := set_code _ (cs_pc s3) s3) in *.
  assert (Hc4 : ctxL Ln (set_index (cs_fn s4) (tl (cs_idx s4)) s4)).
  { repeat split; auto. cbn [cs_pc cs_code set_index s4 set_code]. rewrite Hp3, Hcode3, Hcode2.
    cbn [app bytes]. rewrite !bytes_app. cbn [bytes]. change (spanN (IGotoIfFalse _)) with 5. reflexivity. }
  (* the else branch *)
  assert (HB' : emitsL Ln Ln (with_sub 2 Bb) nb cb).
  { unfold with_sub. eapply emitsL_ext.
    - apply emitsL_seq; [apply emitsL_nop, keepL_push_sub|].
      apply emitsL_seq; [exact HB | apply emitsL_nop, keepL_pop_sub].
    - intros x Hx. cbn [app]. rewrite app_nil_r. exact Hx.
    - intros T b. cbn [app bytes]. rewrite N.add_0_r, app_nil_r. reflexivity. }
  destruct (HB' _ _ Hc4 E5) as (Hc5 & Hs5 & Hn5 & Hk5).
  pose proof Hc5 as ((Hl5 & Hd5) & Hu5 & Hp5).
  assert (Hids4 : cs_ids (set_index (cs_fn s4) (tl (cs_idx s4)) s4) = cs_ids s2) by reflexivity.
  assert (Hs25 : sub2 s2 s5) by exact Hs5. clear Hs5. pose proof (proj1 Hs25) as Hs5.
  assert (Hpc4 : cs_pc (set_index (cs_fn s4) (tl (cs_idx s4)) s4) = cs_pc s2 + 5) by reflexivity.
  (* the second patch *)
  assert (Hshape : forall T, sub (cs_ids s5) T ->
            cs_code s5 = rev (cb T (cs_pc s2 + 5)) ++ IGoto placeholder ::
                         (rev (ca T (cs_pc s + 5)) ++ IGotoIfFalse (u32_to_i32 (cs_pc s2 + 5)) :: cs_code s) /\
            cs_pc s2 = cs_pc s + 5 + bytes (ca T (cs_pc s + 5)) /\
            cs_pc s5 = cs_pc s2 + 5 + bytes (cb T (cs_pc s2 + 5))).
  { intros T HT. pose proof (sub_trans _ _ _ Hs5 HT) as HT2.
    rewrite (Hk5 T HT), Hpc4. cbn [cs_code set_index s4 set_code app]. rewrite Hpc3.
    pose proof (Hk2 T HT2) as Hk2T. rewrite Hpc1 in Hk2T. cbn [pushed cs_code set_code set_trace] in Hk2T.
    assert (Hca : ca (cs_ids s2) (cs_pc s + 5) = ca T (cs_pc s + 5)).
    { rewrite Hcode2 in Hk2T. apply app_inv_tail in Hk2T. apply (f_equal (@rev instr)) in Hk2T.
      rewrite !rev_involutive in Hk2T. exact Hk2T. }
    rewrite Hca. split; [reflexivity|]. split.
    - rewrite (emitsL_pc _ _ _ _ _ T HA Hc1 E2 HT2), Hpc1. reflexivity.
    - rewrite (emitsL_pc _ _ _ _ _ T HB' Hc4 E5 HT), Hpc4. reflexivity. }
  assert (Hs' : forall T, sub (cs_ids s5) T ->
            s' = set_code (rev (cb T (cs_pc s2 + 5)) ++ IGoto (u32_to_i32 (cs_pc s5)) ::
                           (rev (ca T (cs_pc s + 5)) ++ IGotoIfFalse (u32_to_i32 (cs_pc s2 + 5)) :: cs_code s))
                          (cs_pc s5) s5).
  { intros T HT. destruct (Hshape T HT) as (HcT & HpT2 & HpT5). pose proof E6 as E6'.
    assert (Hat : cs_pc s2 = bytes (rev (ca T (cs_pc s + 5)) ++ IGotoIfFalse (u32_to_i32 (cs_pc s2 + 5)) :: cs_code s)).
    { rewrite bytes_app, bytes_rev. cbn [bytes]. change (spanN (IGotoIfFalse _)) with 5. rewrite HpT2 at 1. rewrite Hp. lia. }
    rewrite Hat in E6'.
    rewrite (patch_here_spec s5 _ _ _ (IGoto (u32_to_i32 (cs_pc s5))) Hp5 HcT eq_refl) in E6'. injection E6' as <-.
    reflexivity. }
  assert (Hids' : cs_ids s' = cs_ids s5) by (rewrite (Hs' _ (sub_refl _)); reflexivity).
  split.
  { rewrite (Hs' _ (sub_refl _)). apply ctxL_set_code; [|exact Hc5].
    destruct (Hshape _ (sub_refl _)) as (HcT & _ & _). rewrite Hp5, HcT, !bytes_app. cbn [bytes].
    change (spanN (IGoto _)) with 5. reflexivity. }
  assert (Hs5' : sub2 s5 s') by (rewrite (Hs' _ (sub_refl _)); split; intros ? ? H; exact H).
  split; [eapply sub2_trans; [|exact Hs5']; eapply sub2_trans; [exact Hs2 | exact Hs25]|]. split.
  { intros n Hin. eapply named_sub2; [|exact Hs5']. apply in_app_or in Hin. destruct Hin as [Hin|Hin]; [|auto].
    eapply named_sub2; [apply Hn2, Hin | exact Hs25]. }
  rewrite Hids'. intros T HT5.
  rewrite (Hs' T HT5). cbn [cs_code set_code]. destruct (Hshape T HT5) as (_ & HpT2 & HpT5).
  unfold code_if_else. cbv zeta.
  replace (cs_pc s + 5 + bytes (ca T (cs_pc s + 5)) + 5) with (cs_pc s2 + 5) by (rewrite HpT2; reflexivity).
  replace (cs_pc s2 + 5 + bytes (cb T (cs_pc s2 + 5))) with (cs_pc s5) by (rewrite HpT5; reflexivity).
  cbn [rev]. rewrite rev_app_distr. cbn [rev app]. rewrite <- !app_assoc. cbn [app]. reflexivity.
Qed.

Lemma emitsL_with_sub i m n c : emitsL Ln Ln m n c -> emitsL Ln Ln (with_sub i m) n c.
Proof.
  intros H. unfold with_sub. eapply emitsL_ext.
  - apply emitsL_seq; [apply emitsL_nop, keepL_push_sub|].
    apply emitsL_seq; [exact H | apply emitsL_nop, keepL_pop_sub].
  - intros x Hx. cbn [app]. rewrite app_nil_r. exact Hx.
  - intros T b. cbn [app bytes]. rewrite N.add_0_r, app_nil_r. reflexivity.
Qed.



(* ---- resolving a name against the locals ---- *)
Lemma str_eqb_conv a b : str_eqb a b = RefSem.str_eqb a b.
Proof.
  unfold RefSem.str_eqb. destruct (TableProofs.bytes_eqb_spec a b) as [->|Hne].
  - apply (proj2 (list_eqb_spec N.eqb N.eqb_eq b b)). reflexivity.
  - destruct (str_eqb a b) eqn:E; [|reflexivity]. apply str_eqb_true in E. contradiction.
Qed.
Lemma str_eqb_sym a b : RefSem.str_eqb a b = RefSem.str_eqb b a.
Proof.
  unfold RefSem.str_eqb. destruct (TableProofs.bytes_eqb_spec a b), (TableProofs.bytes_eqb_spec b a); congruence.
Qed.

Lemma rfind_app {A} (p : A -> bool) a x : forall i acc,
  rfind_index p (a ++ [x]) i acc = if p x then Some (i + length a)%nat else rfind_index p a i acc.
Proof.
  induction a as [|y a IH]; intros i acc; cbn [app rfind_index length].
  - destruct (p x); [f_equal; lia | reflexivity].
  - rewrite IH. destruct (p x); [f_equal; lia | reflexivity].
Qed.

Lemma find_first_lt n L p : find_first n L = Some p -> (p < length L)%nat.
Proof.
  revert p. induction L as [|x r IH]; intros p; cbn [find_first length]; [discriminate|].
  destruct (RefSem.str_eqb n x); [intros E; injection E as <-; lia|].
  destruct (find_first n r) as [q|]; [|discriminate]. intros E; injection E as <-. specialize (IH q eq_refl). lia.
Qed.

Lemma rfind_slot L n : rfind_index (fun l => str_eqb (l_name l) n) (map mkl (rev L)) 0 None = slot L n.
Proof.
  induction L as [|x r IH]; [reflexivity|].
  cbn [rev]. rewrite map_app. cbn [map]. rewrite rfind_app. cbn [mkl l_name].
  rewrite str_eqb_conv, str_eqb_sym. unfold slot in *. cbn [find_first length].
  destruct (RefSem.str_eqb n x).
  - rewrite map_length, rev_length. f_equal. lia.
  - rewrite IH. destruct (find_first n r) as [q|] eqn:Eq; [|reflexivity].
    pose proof (find_first_lt _ _ _ Eq). f_equal. lia.
Qed.

Lemma slot_lt L n i : slot L n = Some i -> (i < length L)%nat.
Proof.
  unfold slot. destruct (find_first n L) as [p|] eqn:E; [|discriminate]. intros H; injection H as <-.
  pose proof (find_first_lt _ _ _ E). lia.
Qed.

Lemma resolve_var_L n s :
  ctxL Ln s -> is_empty n = false ->
  exists s1, resolve_var n s = ROk (match slot Ln n with Some i => VLocal (N.of_nat i) | None => VGlobal end) s1 /\
             keepL s s1.
Proof.
  intros ((Hl & Hd) & Hu & _) Hn. unfold resolve_var, bind, validate_var_name. rewrite Hn. cbn [ret].
  rewrite Hl. cbn [hd]. rewrite rfind_slot. destruct (slot Ln n) as [i|].
  - exists s. split; [reflexivity|]. repeat split.
  - rewrite Hu. cbn [resolve_upvalue]. eexists. split; [reflexivity|]. repeat split; cbn; auto.
Qed.

Lemma emitsL_bind_resolve n (k : variable -> M unit) names code :
  is_empty n = false ->
  emitsL Ln Ln (k (match slot Ln n with Some i => VLocal (N.of_nat i) | None => VGlobal end)) names code ->
  emitsL Ln Ln (do v <- resolve_var n ;; k v) names code.
Proof.
  intros Hn Hk s s' Hc E. apply bind_ok in E. destruct E as (v & s1 & E1 & E2).
  destruct (resolve_var_L n s Hc Hn) as (s1' & E1' & K). rewrite E1' in E1. injection E1 as <- <-.
  destruct K as ((a & b & c & d & e & f) & g).
  assert (Hc1 : ctxL Ln s1').
  { destruct Hc as ((Hl & Hd) & Hu & Hp). unfold ctxL, scope_depth in *. rewrite c, d, e, a, g. repeat split; auto. }
  destruct (Hk _ _ Hc1 E2) as (A & B & C & D).
  split; [exact A|]. split; [unfold sub2 in *; rewrite <- b, <- f; exact B|]. split; [exact C|].
  intros T HT. rewrite (D T HT), e, a. reflexivity.
Qed.

(* ---- expressions ---- *)
Lemma emitsL_read_var n :
  var_ok n = true ->
  emitsL Ln Ln (read_var_card n) (if lmem n Ln then [] else [n])
         (fun T _ => match slot Ln n with Some i => [IReadLocalVar (N.of_nat i)] | None => [IReadGlobalVar (idT T n)] end).
Proof.
  intros Hn. unfold var_ok in Hn. apply andb_true_iff in Hn. destruct Hn as [Hne Hdot].
  apply negb_true_iff in Hne, Hdot.
  unfold read_var_card. rewrite (split_no_dot _ Hdot).
  assert (Hprops : emitsL Ln Ln (read_props (split_c c_dot [])) [] (fun _ _ => [])).
  { apply emitsL_nop. cbn. intros s0 s0' E0. injection E0 as <-. repeat split. }
  change (do scope <- resolve_var n ;; _) with
    (do v <- resolve_var n ;; (fun scope => match scope with
                                            | VLocal i => read_local i
                                            | VUpvalue i => read_upvalue i
                                            | VGlobal => do id <- global_id n ;; push_instr (IReadGlobalVar id)
                                            end ;; read_props (split_c c_dot [])) v).
  apply emitsL_bind_resolve; [exact Hne|]. cbv beta. unfold lmem, slot.
  destruct (find_first n Ln) as [p|].
  - eapply emitsL_ext.
    + apply emitsL_seq; [apply emitsL_push | exact Hprops].
    + intros x [].
    + intros T b. reflexivity.
  - eapply emitsL_ext.
    + apply emitsL_seq; [apply emitsL_global | exact Hprops].
    + intros x Hx. exact Hx.
    + intros T b. reflexivity.
Qed.

Lemma emitsL_expr e : expr_f1 e = true ->
  emitsL Ln Ln (process_card e) (expr_gnames Ln e) (fun T _ => code_expr5 T Ln e).
Proof.
  induction e; intros He; cbn [expr_f1] in He; try discriminate He.
  - apply andb_true_iff in He. destruct He as [He He2]. apply andb_true_iff in He. destruct He as [Hop He1].
    rewrite process_card_binop by exact Hop.
    eapply emitsL_ext.
    + apply emitsL_seq; [apply emitsL_nop, keepL_card_label|].
      apply emitsL_seq; [apply emitsL_with_sub, IHe1, He1|].
      apply emitsL_seq; [apply emitsL_with_sub, IHe2, He2 | apply emitsL_push].
    + intros x Hx. cbn [expr_gnames app] in *. rewrite app_nil_r. exact Hx.
    + intros T b. cbn [code_expr5 app]. reflexivity.
  - destruct op; try discriminate He. cbn [process_card unop_instr].
    eapply emitsL_ext.
    + apply emitsL_seq; [apply emitsL_nop, keepL_card_label|].
      apply emitsL_seq; [apply emitsL_with_sub, IHe, He | apply emitsL_push].
    + intros x Hx. cbn [expr_gnames app] in *. rewrite app_nil_r. exact Hx.
    + intros T b. cbn [code_expr5 app]. reflexivity.
  - cbn [process_card]. eapply emitsL_ext.
    + apply emitsL_seq; [apply emitsL_nop, keepL_card_label | apply emitsL_push].
    + intros x [].
    + reflexivity.
  - cbn [process_card]. eapply emitsL_ext.
    + apply emitsL_seq; [apply emitsL_nop, keepL_card_label | apply emitsL_push].
    + intros x [].
    + reflexivity.
  - cbn [process_card]. eapply emitsL_ext.
    + apply emitsL_seq; [apply emitsL_nop, keepL_card_label | apply emitsL_read_var, He].
    + intros x Hx. exact Hx.
    + reflexivity.
Qed.

(* ---- statements in a fixed local context ---- *)
Lemma existsb_rev {A} (p : A -> bool) l : existsb p (rev l) = existsb p l.
Proof.
  induction l as [|x l IH]; [reflexivity|]. cbn [rev existsb]. rewrite existsb_app, IH. cbn. rewrite orb_false_r.
  apply orb_comm.
Qed.
Lemma rsplit_no_dot n : existsb (N.eqb c_dot) n = false -> rsplit_once_c c_dot n = None.
Proof. intros H. unfold rsplit_once_c. rewrite split_no_dot; [reflexivity|]. rewrite existsb_rev. exact H. Qed.

Lemma emitsL_set_local x e i :
  var_ok x = true -> expr_f1 e = true -> slot Ln x = Some i ->
  emitsL Ln Ln (process_card (CSetVar x e)) (expr_gnames Ln e)
         (fun T _ => code_expr5 T Ln e ++ [ISetLocalVar (N.of_nat i)]).
Proof.
  intros Hx He Hi. unfold var_ok in Hx. apply andb_true_iff in Hx. destruct Hx as [Hne Hdot].
  apply negb_true_iff in Hne, Hdot. cbn [process_card]. rewrite (rsplit_no_dot _ Hdot).
  eapply emitsL_ext.
  - apply emitsL_seq; [apply emitsL_nop, keepL_card_label|].
    apply emitsL_seq; [apply emitsL_with_sub, emitsL_expr, He|].
    apply emitsL_bind_resolve; [exact Hne|]. rewrite Hi. apply emitsL_push.
  - intros y Hy. cbn [app] in *. rewrite app_nil_r. exact Hy.
  - intros T b. cbn [app]. reflexivity.
Qed.

Lemma emitsL_while_gen e body nb cb z :
  expr_f1 e = true -> emitsL Ln Ln body nb cb ->
  emitsL Ln Ln (with_sub 0 (process_card e) ;; push_sub 1 ;;
          encode_if_then IGotoIfFalse (body ;; push_instr (IGoto z)) ;; pop_sub)
         (expr_gnames Ln e ++ nb)
         (fun T base =>
            let ce := code_expr5 T Ln e in
            let b' := cb T (base + bytes ce + 5) in
            ce ++ IGotoIfFalse (u32_to_i32 (base + bytes ce + 5 + (bytes b' + 5))) :: b' ++ [IGoto z]).
Proof.
  intros He Hb. eapply emitsL_ext.
  - apply emitsL_seq; [apply emitsL_with_sub, emitsL_expr, He|].
    apply emitsL_seq; [apply emitsL_nop, keepL_push_sub|].
    apply emitsL_seq.
    { apply (emitsL_if_then IGotoIfFalse); [left; reflexivity|].
      apply emitsL_seq; [exact Hb | apply emitsL_push]. }
    apply emitsL_nop, keepL_pop_sub.
  - intros x Hx. cbn [app] in *. rewrite !app_nil_r. exact Hx.
  - intros T base. cbv zeta. cbn [app bytes]. rewrite ?N.add_0_r, ?app_nil_r.
    rewrite bytes_app. cbn [bytes]. change (spanN (IGoto z)) with 5. rewrite ?N.add_0_r. reflexivity.
Qed.

Lemma emitsL_subexpr l :
  Forall (fun c => stmt5 Ln c = true -> emitsL Ln Ln (process_card c) (stmt_gnames Ln c) (fun T b => code5 T Ln b c)) l ->
  forallb (stmt5 Ln) l = true -> forall i,
  emitsL Ln Ln ((fix subexpr (l : list card) (i : N) {struct l} : M unit :=
             match l with
             | [] => ret tt
             | x :: r => with_sub i (process_card x) ;; subexpr r (i + 1)
             end) l i) (flat_map (stmt_gnames Ln) l) (fun T b => code_seq5 T Ln b l).
Proof.
  induction 1 as [|x r Hx _ IH]; intros Hc i.
  - apply emitsL_nop. intros s s' E. injection E as <-. repeat split.
  - cbn [forallb] in Hc. apply andb_true_iff in Hc. destruct Hc as [H1 H2].
    eapply emitsL_ext.
    + apply emitsL_seq; [apply emitsL_with_sub, Hx, H1 | apply (IH H2 (i + 1))].
    + intros y Hy. exact Hy.
    + intros T b. reflexivity.
Qed.

Lemma emitsL_stmt5 c : stmt5 Ln c = true ->
  emitsL Ln Ln (process_card c) (stmt_gnames Ln c) (fun T b => code5 T Ln b c).
Proof.
  induction c using card_ind'; intros Hc; cbn [stmt5] in Hc; try discriminate Hc.
  - (* IfTrue / IfFalse / While *)
    destruct op; try discriminate Hc; apply andb_true_iff in Hc; destruct Hc as [He Hb].
    + cbn [process_card]. eapply emitsL_ext.
      * apply emitsL_seq; [apply emitsL_nop, keepL_card_label|].
        apply emitsL_seq; [apply emitsL_with_sub, emitsL_expr, He|].
        apply emitsL_seq; [apply emitsL_nop, keepL_push_sub|].
        apply emitsL_seq; [apply (emitsL_if_then IGotoIfFalse); [left; reflexivity | apply IHc2, Hb]|].
        apply emitsL_nop, keepL_pop_sub.
      * intros x Hx. cbn [stmt_gnames app] in *. rewrite app_nil_r. exact Hx.
      * intros T b. cbn [code5 app bytes]. rewrite ?N.add_0_r, ?app_nil_r. reflexivity.
    + cbn [process_card]. eapply emitsL_ext.
      * apply emitsL_seq; [apply emitsL_nop, keepL_card_label|].
        apply emitsL_seq; [apply emitsL_with_sub, emitsL_expr, He|].
        apply emitsL_seq; [apply emitsL_nop, keepL_push_sub|].
        apply emitsL_seq; [apply (emitsL_if_then IGotoIfTrue); [right; reflexivity | apply IHc2, Hb]|].
        apply emitsL_nop, keepL_pop_sub.
      * intros x Hx. cbn [stmt_gnames app] in *. rewrite app_nil_r. exact Hx.
      * intros T b. cbn [code5 app bytes]. rewrite ?N.add_0_r, ?app_nil_r. reflexivity.
    + (* While *)
      intros s s' Hcx E. cbn [process_card] in E.
      apply bind_ok in E. destruct E as ([] & s0 & E0 & E).
      apply bind_ok in E. destruct E as (z & s0' & Ez & E). injection Ez as <- <-.
      destruct (keepL_card_label _ _ E0) as ((k1 & k2 & k3 & k4 & k5 & k6) & k7).
      assert (Hcx0 : ctxL Ln s0).
      { destruct Hcx as ((A & A') & B & C). unfold ctxL, scope_depth in *. rewrite k3, k4, k5, k1, k7. repeat split; auto. }
      destruct (emitsL_while_gen c1 _ _ _ (u32_to_i32 (cs_pc s0)) He (IHc2 Hb) _ _ Hcx0 E) as (A & B & C & D).
      split; [exact A|]. split; [destruct B as [B1 B2]; split; [rewrite <- k2; exact B1 | rewrite <- k6; exact B2]|].
      split; [exact C|].
      intros T HT. rewrite (D T HT), k1, k5. reflexivity.
  - (* IfElse *)
    destruct op; try discriminate Hc. apply andb_true_iff in Hc. destruct Hc as [Hc Hb].
    apply andb_true_iff in Hc. destruct Hc as [He Ha]. cbn [process_card].
    change (with_sub 0 (process_card c1) ;; push_sub 1 ;; _)
      with (with_sub 0 (process_card c1) ;; push_sub 1 ;; if_else_tail (process_card c2) (process_card c3)).
    eapply emitsL_ext.
    + apply emitsL_seq; [apply emitsL_nop, keepL_card_label|].
      apply emitsL_seq; [apply emitsL_with_sub, emitsL_expr, He|].
      apply emitsL_seq; [apply emitsL_nop, keepL_push_sub|].
      apply emitsL_if_else; [apply IHc2, Ha | apply IHc3, Hb].
    + intros x Hx. cbn [stmt_gnames app] in *. exact Hx.
    + intros T b. cbn [code5 app bytes]. unfold code_if_else. rewrite ?N.add_0_r. reflexivity.
  - (* Comment *)
    cbn [process_card]. eapply emitsL_ext.
    + apply emitsL_seq; [apply emitsL_nop, keepL_card_label|]. apply emitsL_nop.
      intros s0 s0' E. injection E as <-. repeat split.
    + intros x [].
    + reflexivity.
  - (* SetGlobalVar *)
    apply andb_true_iff in Hc. destruct Hc as [Hne He]. apply negb_true_iff in Hne.
    cbn [process_card]. rewrite Hne. eapply emitsL_ext.
    + apply emitsL_seq; [apply emitsL_nop, keepL_card_label|].
      apply emitsL_seq; [apply emitsL_with_sub, emitsL_expr, He | apply (emitsL_global n ISetGlobalVar)].
    + intros x Hx. exact Hx.
    + reflexivity.
  - (* SetVar of an existing local *)
    apply andb_true_iff in Hc. destruct Hc as [Hc He]. apply andb_true_iff in Hc. destruct Hc as [Hx Hm].
    unfold lmem in Hm. destruct (find_first n Ln) as [p|] eqn:Ef; [|discriminate].
    eapply emitsL_ext.
    + apply (emitsL_set_local n c (length Ln - 1 - p) Hx He). unfold slot. rewrite Ef. reflexivity.
    + intros x Hx'. exact Hx'.
    + intros T b. cbn [code5 stmt_gnames]. unfold set_slot, slot. rewrite Ef. reflexivity.
  - (* Composite *)
    cbn [process_card]. eapply emitsL_ext.
    + apply emitsL_seq; [apply emitsL_nop, keepL_card_label|].
      apply emitsL_subexpr; [eassumption | exact Hc].
    + intros x Hx. exact Hx.
    + intros T b. rewrite code5_composite. cbn [app bytes]. rewrite N.add_0_r. reflexivity.
Qed.

End Fixed.

(* ------------------------------------------------------------------ the cards of main *)
Lemma ctxL_keep Ln s s1 : keepL s s1 -> ctxL Ln s -> ctxL Ln s1.
Proof.
  intros ((a & b & c & d & e & f) & g) ((Hl & Hd) & Hu & Hp). unfold ctxL, scope_depth in *.
  rewrite c, d, e, a, g. repeat split; auto.
Qed.

(* SetVar of a name that is not a local: the declaration *)
Lemma emitsL_declare_tail Ln x :
  is_empty x = false -> lmem x Ln = false ->
  emitsL Ln (x :: Ln)
         (do var <- resolve_var x ;;
          match var with
          | VLocal i => write_local i
          | VGlobal => do i <- add_local x ;; write_local i
          | VUpvalue i => write_upvalue i
          end) [] (fun _ _ => [ISetLocalVar (N.of_nat (length Ln))]).
Proof.
  intros Hne Hm s s' Hc E. apply bind_ok in E. destruct E as (v & s1 & E1 & E2).
  destruct (resolve_var_L Ln x s Hc Hne) as (s1' & E1' & K). rewrite E1' in E1.
  unfold lmem, slot in *. destruct (find_first x Ln); [discriminate|]. injection E1 as <- <-.
  pose proof (ctxL_keep _ _ _ K Hc) as ((Hl & Hd) & Hu & Hp).
  destruct K as ((a & b & c & d & e & f) & g).
  apply bind_ok in E2. destruct E2 as (i & s2 & Ea & Ew).
  unfold add_local, bind, validate_var_name in Ea. rewrite Hne in Ea. cbn [ret] in Ea.
  unfold add_local_unchecked in Ea. rewrite Hl in Ea. cbn [hd] in Ea.
  rewrite map_length, rev_length in Ea.
  destruct (Nat.leb locals_cap (length Ln)); [discriminate|]. injection Ea as <- <-.
  unfold write_local in Ew. rewrite push_instr_eq in Ew. injection Ew as <-.
  split.
  { split; [split|split].
    - cbn [pushed cs_locals set_code set_trace set_scopes map_hd].
      rewrite Hd. cbn [rev]. rewrite map_app. reflexivity.
    - exact Hd.
    - cbn. exact Hu.
    - cbn [pushed cs_pc cs_code set_code set_trace set_scopes bytes]. unfold spanN. rewrite Hp. lia. }
  split; [split; cbn; [rewrite b | rewrite f]; intros ? ? H; exact H|]. split; [intros n []|].
  intros T _. cbn. rewrite a. reflexivity.
Qed.

Lemma emitsL_declare Ln x e :
  var_ok x = true -> expr_f1 e = true -> lmem x Ln = false ->
  emitsL Ln (x :: Ln) (process_card (CSetVar x e)) (expr_gnames Ln e)
         (fun T _ => code_expr5 T Ln e ++ [ISetLocalVar (N.of_nat (length Ln))]).
Proof.
  intros Hx He Hm. unfold var_ok in Hx. apply andb_true_iff in Hx. destruct Hx as [Hne Hdot].
  apply negb_true_iff in Hne, Hdot. cbn [process_card]. rewrite (rsplit_no_dot _ Hdot).
  intros s s' Hc E.
  pose proof (emitsL_seq_gen Ln Ln (x :: Ln) _ _ _ _ _ _
                (emitsL_nop Ln _ keepL_card_label)
                (emitsL_seq_gen Ln Ln (x :: Ln) _ _ _ _ _ _
                   (emitsL_with_sub Ln 0 _ _ _ (emitsL_expr Ln e He))
                   (emitsL_declare_tail Ln x Hne Hm))) as H.
  destruct (H s s' Hc E) as (A & B & C & D). split; [exact A|]. split; [exact B|]. split.
  - intros n Hn. apply C. cbn [app]. rewrite app_nil_r. exact Hn.
  - intros T HT. rewrite (D T HT). cbn [app]. reflexivity.
Qed.

Lemma emitsL_top Ln c : top5 Ln c = true ->
  emitsL Ln (names_next Ln c) (process_card c) (stmt_gnames Ln c) (fun T b => code5 T Ln b c).
Proof.
  intros Hc. destruct c; try (apply emitsL_stmt5; exact Hc).
  cbn [top5] in Hc. apply andb_true_iff in Hc. destruct Hc as [Hx He].
  cbn [names_next stmt_gnames code5]. unfold set_slot, slot, lmem. destruct (find_first name Ln) as [p|] eqn:Ef.
  - apply (emitsL_set_local Ln name c (length Ln - 1 - p) Hx He). unfold slot. rewrite Ef. reflexivity.
  - apply (emitsL_declare Ln name c Hx He). unfold lmem. rewrite Ef. reflexivity.
Qed.

Lemma emitsL_cards cards : forall Ln ic, cards5 Ln cards = true ->
  emitsL Ln (names_end Ln cards) (process_cards cards ic) (main_gnames Ln cards) (fun T b => code_main5 T Ln b cards).
Proof.
  induction cards as [|c r IH]; intros Ln ic Hc; cbn [process_cards names_end main_gnames].
  - apply emitsL_nop. intros s s' E. injection E as <-. repeat split.
  - cbn [cards5] in Hc. apply andb_true_iff in Hc. destruct Hc as [Hc Hr].
    intros s s' Hcx E.
    pose proof (emitsL_seq_gen Ln Ln _ _ _ _ _ _ _ (emitsL_nop Ln _ keepL_pop_sub)
                 (emitsL_seq_gen Ln Ln _ _ _ _ _ _ _ (emitsL_nop Ln _ (keepL_push_sub ic))
                    (emitsL_seq_gen Ln _ _ _ _ _ _ _ _ (emitsL_top Ln c Hc) (IH (names_next Ln c) (ic + 1) Hr)))) as H.
    destruct (H s s' Hcx E) as (A & B & C & D). split; [exact A|]. split; [exact B|]. split.
    + intros n Hn. apply C. exact Hn.
    + intros T HT. rewrite (D T HT). cbn [code_main5 app bytes]. rewrite ?N.add_0_r. reflexivity.
Qed.

(* the end of main: every local is popped *)
Lemma pop_locals_all L : pop_locals (map mkl L) 0 = ([], repeat IPop (length L)).
Proof.
  induction L as [|x r IH]; [reflexivity|]. cbn [map pop_locals mkl l_depth l_captured length repeat].
  change (0 <? 1)%Z with true. cbv iota. rewrite IH. reflexivity.
Qed.

Lemma push_raws_spec is : forall s s', push_raws is s = ROk tt s' ->
  cs_code s' = rev is ++ cs_code s /\ cs_ids s' = cs_ids s /\ cs_names s' = cs_names s /\
  cs_pc s' = cs_pc s + bytes is /\ cs_locals s' = cs_locals s /\ cs_upvalues s' = cs_upvalues s.
Proof.
  induction is as [|i r IH]; intros s s' E; cbn [push_raws] in E.
  - injection E as <-. cbn [rev app bytes]. repeat split; auto. lia.
  - apply bind_ok in E. destruct E as ([] & s1 & E1 & E2). rewrite push_instr_eq in E1. injection E1 as <-.
    destruct (IH _ _ E2) as (A & B & C & D & E & G). cbn [pushed cs_code cs_ids cs_names cs_pc cs_locals cs_upvalues set_code set_trace] in *.
    rewrite A, B, C, D, E, G. cbn [rev bytes]. rewrite <- app_assoc. repeat split; auto. unfold spanN. lia.
Qed.

Lemma rev_repeat {A} (x : A) n : rev (repeat x n) = repeat x n.
Proof.
  induction n as [|n IH]; [reflexivity|]. cbn [repeat rev]. rewrite IH.
  clear IH. induction n as [|n IH]; [reflexivity|]. cbn [repeat app]. rewrite IH. reflexivity.
Qed.

Lemma main5_shape name f s s' :
  f_args f = [] -> cards5 [] (f_cards f) = true ->
  ctx s -> cs_depth s = [0%Z] -> cs_pc s = 0 ->
  compile_main (main_ir name f) s = ROk tt s' ->
  sub2 s s' /\
  (forall n, In n (main_gnames [] (f_cards f)) -> named s' n) /\
  (forall T, sub (cs_ids s') T -> cs_code s' = rev (code_all5 T (f_cards f)) ++ cs_code s) /\
  cs_pc s' = bytes (cs_code s').
Proof.
  intros Ha Hcards (Hl & Hu & Hp) Hd Hpc0 E.
  unfold compile_main, process_function, process_leaf in E.
  cbn [main_ir fi_index fi_handle fi_args fi_cards fi_ns fi_imports] in E. rewrite Ha in E. cbn [rev add_locals] in E.
  apply bind_ok in E. destruct E as ([] & sa & Ea & E). injection Ea as <-.
  apply bind_ok in E. destruct E as ([] & sb & Eb & E). injection Eb as <-.
  apply bind_ok in E. destruct E as ([] & sc & Ec & E). injection Ec as <-.
  apply bind_ok in E. destruct E as ([] & sd & Ed & E).
  apply bind_ok in Ed. destruct Ed as ([] & sd0 & Ed0 & Ed). injection Ed0 as <-.
  apply bind_ok in Ed. destruct Ed as ([] & sd1 & Ed1 & Ed). injection Ed1 as <-.
  match type of Ed with process_cards _ _ ?st = _ => set (s0 := st) in * end.
  assert (Hc0 : ctxL [] s0).
  { subst s0. split; [split|split]; cbn; [rewrite Hl; reflexivity | rewrite Hd; reflexivity | exact Hu | exact Hp]. }
  destruct (emitsL_cards (f_cards f) [] 0 Hcards s0 sd Hc0 Ed) as (((HlL & HdL) & HuL & HpL) & Bd & Cd & Dd).
  set (Lf := names_end [] (f_cards f)) in *.
  apply bind_ok in E. destruct E as ([] & se & Ee & E). injection Ee as <-.
  apply bind_ok in E. destruct E as ([] & sf & Ef & E).
  (* scope_end *)
  unfold scope_end in Ef. cbn [cs_depth cs_locals cs_upvalues set_index] in Ef.
  rewrite HlL in Ef. cbn [hd] in Ef. rewrite <- map_rev, rev_involutive in Ef.
  assert (Hds : exists rest, cs_depth sd = 1%Z :: rest).
  { unfold scope_depth in HdL. destruct (cs_depth sd) as [|d rest]; [discriminate HdL|]. cbn [hd] in HdL. subst d. eauto. }
  destruct Hds as (drest & Hds). rewrite Hds in Ef. cbn [map_hd hd] in Ef. change (1 - 1)%Z with 0%Z in Ef.
  rewrite pop_locals_all in Ef. cbn [fst snd] in Ef.
  destruct (push_raws_spec _ _ _ Ef) as (Fc & Fi & Fn & Fp & _ & _).
  cbn [cs_code cs_ids cs_names cs_pc set_scopes set_index] in Fc, Fi, Fn, Fp.
  (* Exit *)
  apply bind_ok in E. destruct E as ([] & sg & Eg & E).
  destruct (keep4_card_label _ _ Eg) as (g1 & g2 & g3 & g4 & g5 & g6).
  rewrite push_instr_eq in E. injection E as <-.
  assert (Hids0 : cs_ids s0 = cs_ids s) by reflexivity.
  assert (Hnames0 : cs_names s0 = cs_names s) by reflexivity.
  assert (Hcode0 : cs_code s0 = cs_code s) by reflexivity.
  assert (Hpc0' : cs_pc s0 = 0) by exact Hpc0.
  assert (S1 : sub2 s (pushed sg IExit)).
  { destruct Bd as [B1 B2]. split; cbn [pushed cs_ids cs_names set_code set_trace].
    - rewrite g2, Fi, <- Hids0. exact B1.
    - rewrite g6, Fn, <- Hnames0. exact B2. }
  split; [exact S1|]. split.
  { intros n Hn. destruct (Cd n Hn) as (id & I1 & I2). exists id. cbn [pushed cs_ids cs_names set_code set_trace].
    rewrite g2, Fi, g6, Fn. auto. }
  split.
  { intros T HT. cbn [pushed cs_code cs_ids set_code set_trace] in *. rewrite g2, Fi in HT.
    rewrite g1, Fc, (Dd T HT), Hpc0', Hcode0. unfold code_all5. fold Lf.
    rewrite !rev_app_distr. cbn [rev app]. rewrite rev_repeat. rewrite <- !app_assoc. cbn [app]. reflexivity. }
  cbn [pushed cs_pc cs_code set_code set_trace bytes]. rewrite g5, Fp, g1, Fc, HpL, bytes_app, bytes_rev. unfold spanN. lia.
Qed.

Lemma in_f5_cards M : in_f5 M = true -> cards5 [] (main_cards M) = true.
Proof.
  destruct M as [subs funs imps]. cbn [in_f5].
  destruct subs; [|discriminate]. destruct funs as [|[name f] [|]]; try discriminate.
  destruct imps; [|discriminate]. intros H. apply andb_true_iff in H. apply H.
Qed.

Theorem compile_f5_shape M B :
  in_f5 M = true -> compile M default_options = COk B ->
  N.of_nat (length (p_ids B)) < two32 ->
  exists rest,
    p_bytecode B = encode (code_all5 (p_ids B) (main_cards M) ++ rest) /\
    (forall n, In n (main_gnames [] (main_cards M)) -> nm_find (handle_of_bytes n) (p_ids B) <> None) /\
    (forall h1 h2 id, nm_find h1 (p_ids B) = Some id -> nm_find h2 (p_ids B) = Some id -> h1 = h2) /\
    (forall h id, nm_find h (p_ids B) = Some id -> id < two32) /\
    handles_inj (main_gnames [] (main_cards M)) = true.
Proof.
  intros HM HB Hlen. destruct M as [subs funs imps]. cbn [in_f5] in HM.
  destruct subs; [|discriminate]. destruct funs as [|[name f] [|]]; try discriminate.
  destruct imps; [|discriminate].
  apply andb_true_iff in HM. destruct HM as [HM Hcards]. apply andb_true_iff in HM. destruct HM as [Hname Hargs].
  apply str_eqb_main in Hname. subst name.
  assert (Ha : f_args f = []) by (destruct (f_args f); [reflexivity | discriminate]).
  cbn [main_cards].
  destruct (compile_ok_inv _ _ _ HB) as (fs & s & Hfs & E & ->).
  change (o_recursion_limit default_options) with 64 in Hfs. rewrite ir_stream_f1 in Hfs. injection Hfs as <-.
  set (fm := main_ir s_main f) in *. revert E. generalize std_firs as std. intros std E.
  cbn [finish p_ids p_bytecode] in *.
  set (s0 := init_state (o_debug default_options)) in *.
  unfold compile_ir in E.
  apply bind_ok in E. destruct E as ([] & s1 & E1 & E).
  apply bind_ok in E. destruct E as ([] & s3 & E23 & E4).
  cbn [stage_2] in E23. apply bind_ok in E23. destruct E23 as ([] & s2 & E2 & E3).
  assert (Eafter : after_main std s2 = ROk tt s).
  { unfold after_main, bind. rewrite E3. exact E4. }
  pose proof (frame3_stage_1 (fm :: std) s0) as F1. rewrite E1 in F1.
  destruct F1 as (c1 & p1 & i1 & n1).
  assert (Hctx1 : ctx s1).
  { destruct (stage_1_ctx _ _ _ E1) as [A B]. split; [rewrite A; reflexivity|]. split; [rewrite B; reflexivity|].
    rewrite p1, c1. reflexivity. }
  assert (Hd1 : cs_depth s1 = [0%Z]).
  { clear - E1. assert (Hg : forall fs sa sb, stage_1 fs sa = ROk tt sb -> cs_depth sb = cs_depth sa).
    { induction fs as [|x r IH]; intros sa sb H; cbn [stage_1] in H; [injection H as <-; reflexivity|].
      apply bind_ok in H. destruct H as ([] & sx & Hx & Hr). rewrite (IH _ _ Hr).
      unfold add_function, bind, get in Hx. destruct (sm_find _ _); [discriminate|]. injection Hx as <-. reflexivity. }
    rewrite (Hg _ _ _ E1). reflexivity. }
  destruct (main5_shape s_main f s1 s2 Ha Hcards Hctx1 Hd1 ltac:(rewrite p1; reflexivity) E2) as (Hsub12 & Hnames2 & Hcode2 & Hpc2).
  assert (G2 : G [] [] s2).
  { assert (S : sp3 [] [] (stage_1 (fm :: std) ;; compile_main fm) (fun _ => True)).
    { eapply sp3_bind; [apply sp3_frame, frame3_stage_1 | intros _ _; apply sp3_compile_main]. }
    specialize (S s0 (G_init _)). unfold bind in S. rewrite E1, E2 in S. apply S. }
  assert (Gs : G (cs_code s2) (cs_ids s2) s).
  { assert (G2' : G (cs_code s2) (cs_ids s2) s2).
    { apply G_here; [apply (g_pc _ _ _ G2)|]. intros Hl. destruct (g_ids _ _ _ G2 Hl) as [I1 I2 I3 _]. auto. }
    pose proof (sp3_after_main (cs_code s2) (cs_ids s2) std s2 G2') as S. rewrite Eafter in S. apply S. }
  destruct (g_ids _ _ _ Gs Hlen) as [Inv Ilt Iinj Iext].
  destruct (g_code _ _ _ Gs) as [l El].
  assert (Hsub : sub (cs_ids s2) (cs_ids s)) by exact Iext.
  exists (rev l). split; [|split; [|split; [|split]]].
  - f_equal. rewrite El, (Hcode2 _ Hsub), c1. cbn [s0 init_state cs_code]. rewrite app_nil_r, rev_app_distr, rev_involutive.
    reflexivity.
  - intros n Hin. pose proof (named_found _ _ (Hnames2 n Hin)) as Hnf.
    destruct (nm_find (handle_of_bytes n) (cs_ids s2)) as [id|] eqn:En; [|congruence].
    rewrite (Hsub _ _ En). discriminate.
  - exact Iinj.
  - intros h id Hf. specialize (Ilt _ _ Hf). rewrite Inv in Ilt. lia.
  - apply (named_inj s2 _ eq_refl Hnames2).
Qed.
