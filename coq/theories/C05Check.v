(* Executable correspondence checker for C05 (allocator accounting, collection completeness)
   and the collection cases shared with C02. *)
From Cao Require Export CheckUtil Alloc Gc.
From stdpp Require Import gmap.
Local Open Scope N_scope.

Inductive aev :=
| EvAlloc (size align : N) (forced : bool) (freed : list (N * N)) (ok collected : bool)
          (alloc_after next_after : N)
| EvDealloc (size align : N) (alloc_after : N)
| EvClear (alloc_after next_after : N).

Definition charge (p : N * N) : N := fst p + snd p.
Definition sumN (l : list N) : N := fold_right N.add 0 l.

(* ----- model: the allocator counters ----- *)
Fixpoint trace_model (st : astate) (evs : list aev) : bool :=
  match evs with
  | [] => true
  | EvAlloc size align forced freed ok collected aa na :: r =>
      let '(st', ok', col') := a_alloc st size align (sumN (map charge freed)) forced in
      Bool.eqb ok ok' && Bool.eqb collected col' && N.eqb aa (a_allocated st') && N.eqb na (a_next_gc st')
      && trace_model st' r
  | EvDealloc size align aa :: r =>
      let st' := a_dealloc st size align in
      N.eqb aa (a_allocated st') && trace_model st' r
  | EvClear aa na :: r =>
      let st' := a_reset st in
      N.eqb aa (a_allocated st') && N.eqb na (a_next_gc st') && trace_model st' r
  end.

(* ----- specification oracle: a shadow ledger of outstanding allocations ----- *)
Fixpoint remove_one (c : N) (l : list N) : option (list N) :=
  match l with
  | [] => None
  | x :: r => if N.eqb x c then Some r else
                match remove_one c r with Some r' => Some (x :: r') | None => None end
  end.
Fixpoint remove_all (cs : list N) (l : list N) : option (list N) :=
  match cs with
  | [] => Some l
  | c :: r => match remove_one c l with Some l' => remove_all r l' | None => None end
  end.

Fixpoint trace_spec (limit : N) (ledger : list N) (evs : list aev) : bool :=
  match evs with
  | [] => true
  | EvAlloc size align _ freed ok _ aa _ :: r =>
      match remove_all (map charge freed) ledger with
      | None => false                                   (* released something that was not outstanding *)
      | Some l1 =>
          let s := size + align in
          if ok then
            let l2 := s :: l1 in
            N.eqb aa (sumN l2) && (aa <=? limit) && trace_spec limit l2 r
          else
            (* refused: nothing charged, and it really did not fit after the collection *)
            N.eqb aa (sumN l1) && (aa <=? limit) && (limit <? sumN l1 + s) && trace_spec limit l1 r
      end
  | EvDealloc size align aa :: r =>
      match remove_one (size + align) ledger with
      | None => false
      | Some l1 => N.eqb aa (sumN l1) && trace_spec limit l1 r
      end
  | EvClear aa na :: r =>
      match ledger with
      | [] => N.eqb aa 0 && N.eqb na (init_threshold limit) && trace_spec limit [] r
      | _ => false                                      (* clear left allocations outstanding *)
      end
  end.

(* ----- collections ----- *)
Definition color_of (m : N) : color := if N.eqb m 3 then Protected else if N.eqb m 0 then White else Gray.
Definition marker_of (c : color) : N := match c with White => 0 | Gray => 1 | Protected => 3 end.

Definition mk_heap (objs : list (N * N * list N)) : gmap N obj :=
  list_to_map (map (fun p => (fst (fst p), Obj (color_of (snd (fst p))) (snd p))) objs).

Definition heap_obs (h : gmap N obj) : list (N * N) :=
  map (fun p => (fst p, marker_of (col (snd p)))) (map_to_list h).

Fixpoint insert_sorted (x : N * N) (l : list (N * N)) : list (N * N) :=
  match l with
  | [] => [x]
  | y :: r => if fst x <=? fst y then x :: l else y :: insert_sorted x r
  end.
Definition sort_obs (l : list (N * N)) : list (N * N) := fold_right insert_sorted [] l.
Definition nn_eqb5 (a b : N * N) : bool := N.eqb (fst a) (fst b) && N.eqb (snd a) (snd b).

(* independent oracle: naive reachability closure over the dumped graph *)
Definition kids_of (objs : list (N * N * list N)) (a : N) : list N :=
  match find (fun p => N.eqb (fst (fst p)) a) objs with Some p => snd p | None => [] end.
Definition mem_n (a : N) (l : list N) : bool := existsb (N.eqb a) l.
Fixpoint add_new (xs acc : list N) : list N :=
  match xs with
  | [] => acc
  | x :: r => if mem_n x acc then add_new r acc else add_new r (x :: acc)
  end.
Fixpoint closure (fuel : nat) (objs : list (N * N * list N)) (acc : list N) : list N :=
  match fuel with
  | O => acc
  | S f => closure f objs (add_new (flat_map (kids_of objs) acc) acc)
  end.
Definition gc_oracle (objs : list (N * N * list N)) (roots : list N) : list (N * N) :=
  let ids := map (fun p => fst (fst p)) objs in
  let prot := map (fun p => fst (fst p)) (filter (fun p => N.eqb (snd (fst p)) 3) objs) in
  let start := add_new (filter (fun r => mem_n r ids) (roots ++ prot)) [] in
  let live := closure (length objs) objs start in
  sort_obs (map (fun p => (fst (fst p), if N.eqb (snd (fst p)) 3 then 3 else 0))
                (filter (fun p => mem_n (fst (fst p)) live) objs)).

Inductive c05case :=
| AllocTrace (limit : N) (evs : list aev)
| GcCase (objs : list (N * N * list N)) (roots : list N) (after : list (N * N))
| ImplPanic.   (* the implementation panicked during a traced run: never acceptable (code 2) *)

Definition check_gc (objs : list (N * N * list N)) (roots : list N) (after : list (N * N)) : list N :=
  (match gc (mk_heap objs) roots with
   | Some h' => if list_eqb nn_eqb5 (sort_obs (heap_obs h')) (sort_obs after) then [] else [1]
   | None => [1]
   end) ++
  (if list_eqb nn_eqb5 (gc_oracle objs roots) (sort_obs after) then [] else [2]).

Definition check1 (c : c05case) : list N :=
  match c with
  | AllocTrace limit evs =>
      (if trace_model (a_new limit) evs then [] else [1]) ++
      (if trace_spec limit [] evs then [] else [2])
  | GcCase objs roots after => check_gc objs roots after
  | ImplPanic => [2]
  end.

Definition check_all := CheckUtil.check_all check1.
