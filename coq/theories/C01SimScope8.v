(* C01, simulation: every program of the fragment F8 (declarations in scopes) is well-scoped
   (RefScope.well_scoped).  The local context of ok8 / names8 contains the hidden locals of the
   Repeat loops (named ""); the scoping rules see the named ones only (visn). *)
From Coq Require Import List NArith ZArith Bool Arith Lia.
From Cao Require Import CheckUtil CardAst Table RefSem RefScope StdlibGen C01SimDefs C01SimRef C01SimDefs2 C01SimDefs3 C01SimDefs4 C01SimDefs5 C01SimRef5 C01SimDefs6 C01SimDefs7 C01SimDefs8 C01SimScope.
Import ListNotations.

Section Ws8.
Variable P : list fentry.
Variable fi : nat.

(* the rule for a Composite card, as a function of its own *)
Fixpoint wsl (ret decl : bool) (loc up : list str) (cs : list card) : option (list str) :=
  match cs with
  | [] => Some loc
  | x :: r => match ws P fi ret decl loc up x with
              | Some loc' => wsl ret decl loc' up r
              | None => None
              end
  end.
Lemma ws_composite ret decl up ty cs : forall loc, ws P fi ret decl loc up (CComposite ty cs) = wsl ret decl loc up cs.
Proof.
  induction cs as [|x r IH]; intros loc; [reflexivity|].
  cbn [wsl].
  change (ws P fi ret decl loc up (CComposite ty (x :: r))) with
    (match ws P fi ret decl loc up x with Some loc' => ws P fi ret decl loc' up (CComposite ty r) | None => None end).
  destruct (ws P fi ret decl loc up x) as [loc'|]; [apply IH | reflexivity].
Qed.

Lemma visn_cons x Ln : is_empty x = false -> visn (x :: Ln) = x :: visn Ln.
Proof. intros Hx. cbn [visn filter]. rewrite Hx. reflexivity. Qed.

Lemma ws8 c : forall decl Ln, ok8 decl Ln c = true ->
  forall ret, ws P fi ret decl (visn Ln) [] c = Some (visn (names8 Ln c)).
Proof.
  induction c using CompilerWf.card_ind'; intros decl Ln Hc ret; try (cbn [ok8] in Hc; discriminate Hc).
  - (* IfTrue / IfFalse / While *)
    destruct op; try (cbn [ok8] in Hc; discriminate Hc); cbn [ok8] in Hc; apply andb_true_iff in Hc; destruct Hc as [He Hb];
      destruct (expr_ws P fi c1 He ret false (visn Ln) []) as [A1 B1]; cbn [ws names8];
      rewrite A1, B1, (IHc2 false Ln Hb ret); reflexivity.
  - (* IfElse *)
    destruct op; try (cbn [ok8] in Hc; discriminate Hc). cbn [ok8] in Hc. apply andb_true_iff in Hc. destruct Hc as [Hc Hb].
    apply andb_true_iff in Hc. destruct Hc as [He Ha].
    destruct (expr_ws P fi c1 He ret false (visn Ln) []) as [A1 B1]. cbn [ws names8].
    rewrite A1, B1, (IHc2 false Ln Ha ret), (IHc3 false Ln Hb ret). reflexivity.
  - reflexivity.
  - (* SetGlobalVar *)
    cbn [ok8] in Hc. apply andb_true_iff in Hc. destruct Hc as [Hne He].
    destruct (expr_ws P fi c He ret false (visn Ln) []) as [A1 B1]. rewrite is_empty_conv in Hne. cbn [ws names8]. rewrite Hne.
    destruct c; try discriminate He; rewrite A1, B1; reflexivity.
  - (* SetVar: an assignment or a declaration *)
    cbn [ok8] in Hc. apply andb_true_iff in Hc. destruct Hc as [Hc He]. apply andb_true_iff in Hc. destruct Hc as [Hx Hm].
    unfold var_ok in Hx. apply andb_true_iff in Hx. destruct Hx as [Hne Hdot].
    apply negb_true_iff in Hne, Hdot. rewrite is_empty_conv in Hne.
    destruct (expr_ws P fi c He ret false (visn Ln) []) as [A1 B1]. cbn [ws names8].
    rewrite (rsplit_no_dot _ Hdot), Hne, mem_lmem, (lmem_visn _ _ Hne). cbn [mem existsb]. rewrite orb_false_r.
    destruct (lmem n Ln) eqn:El.
    + destruct c; try discriminate He; rewrite A1, B1; reflexivity.
    + rewrite orb_false_r in Hm. subst decl. rewrite (visn_cons _ _ Hne).
      destruct c; try discriminate He; rewrite A1, B1; reflexivity.
  - (* Repeat *)
    cbn [ok8] in Hc. apply andb_true_iff in Hc. destruct Hc as [Hc Hb]. apply andb_true_iff in Hc. destruct Hc as [He Hi].
    destruct (expr_ws P fi c1 He ret false (visn Ln) []) as [A1 B1].
    destruct i as [x|].
    + cbn [lv_ok] in Hi. unfold var_ok in Hi. apply andb_true_iff in Hi. destruct Hi as [Hx _]. apply negb_true_iff in Hx.
      rewrite is_empty_conv in Hx.
      cbn [ws names8 opt_names flat_map nodup app mem existsb negb andb]. rewrite A1, B1. cbn [andb].
      pose proof (IHc2 true (x :: [] :: [] :: Ln) Hb ret) as H. cbn [visn filter] in H. rewrite Hx in H.
      cbn [is_empty negb] in H. fold (visn Ln) in H. rewrite H. reflexivity.
    + cbn [ws names8 opt_names flat_map nodup app]. rewrite A1, B1. cbn [andb].
      pose proof (IHc2 true ([] :: [] :: Ln) Hb ret) as H. cbn [visn filter is_empty negb] in H. fold (visn Ln) in H.
      rewrite H. reflexivity.
  - (* Composite *)
    rewrite ok8_composite in Hc. rewrite names8_composite, ws_composite.
    match goal with HF : Forall _ cards |- _ => rename HF into HFall end.
    revert Ln Hc. induction HFall as [|x r Hx _ IHr]; intros Ln Hc; [reflexivity|].
    cbn [oks8 names_seq8 wsl] in *. apply andb_true_iff in Hc. destruct Hc as [H1 H2].
    rewrite (Hx decl Ln H1 ret). apply IHr, H2.
Qed.

Lemma cards_ws8 cards : forall ret Ln, oks8 true Ln cards = true -> ws_seq P fi ret (visn Ln) cards = true.
Proof.
  induction cards as [|c r IH]; intros ret Ln; cbn [oks8 ws_seq]; [reflexivity|]. intros H.
  apply andb_true_iff in H. destruct H as [H1 H2]. rewrite (ws8 c true Ln H1 ret). apply IH, H2.
Qed.
End Ws8.

Theorem in_f8_well_scoped M : in_f8 M = true -> well_scoped M = true.
Proof.
  intros HM. destruct M as [subs funs imps]. cbn [in_f8] in HM.
  destruct subs; [|discriminate]. destruct funs as [|[name f] [|]]; try discriminate.
  destruct imps; [|discriminate].
  apply andb_true_iff in HM. destruct HM as [HM Hcards]. apply andb_true_iff in HM. destruct HM as [Hname Hargs].
  apply str_eqb_main in Hname. subst name.
  assert (Ha : f_args f = []) by (destruct (f_args f); [reflexivity | discriminate]).
  unfold well_scoped, program_of, add_std. cbn [app].
  change 64%nat with (S 63). rewrite (flatten_f1 63 f stdl stdl_eq).
  cbn [find_index fe_name]. change (str_eqb s_main s_main) with true. cbv iota.
  destruct stdl_facts as [Hnd Hstd].
  cbn [map fe_name]. rewrite Hnd. cbn [andb length seq combine forallb fst snd].
  rewrite (forallb_std_combine _ stdl Hstd 1). rewrite andb_true_r.
  unfold is_std, ws_function. cbn [fe_ns fe_fn orb]. rewrite Ha. cbn [nodup forallb andb Nat.eqb negb].
  apply (cards_ws8 _ _ (f_cards f) _ [] Hcards).
Qed.

Theorem fragments_well_scoped8 M :
  (in_f1 M = true -> in_f2 M = true) /\
  (in_f2 M = true -> in_f3 M = true) /\
  (in_f3 M = true -> in_f4 M = true) /\
  (in_f4 M = true -> in_f5 M = true) /\
  (in_f5 M = true -> in_f6 M = true) /\
  (in_f6 M = true -> in_f7 M = true) /\
  (in_f7 M = true -> in_f8 M = true) /\
  (in_f8 M = true -> well_scoped M = true).
Proof.
  destruct (fragments_well_scoped M) as (A1 & A2 & A3 & A4 & A5 & A6 & _).
  repeat (split; [assumption|]). split; [apply in_f7_f8 | apply in_f8_well_scoped].
Qed.
