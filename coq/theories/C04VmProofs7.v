(* C04 - "running is total", Part E.4: one instruction of ANY opcode (step_pre3), the dispatch loop, the run. *)
From Coq Require Import NArith ZArith List Lia Bool.
From Cao Require Import ListUtil Bits Stacks Vm VmProofs C04VmProofs C04VmProofs2 C04VmProofs3 C04VmProofs4 C04VmProofs5
  C04VmProofs6 C04VmProofs6b.
Import ListNotations.

Section Final.
Variable F : fops.
Variable bld : build.
Variable P : program.
Variable reenter : N -> state -> rres.
Variable start : N -> Prop.
Variable OKA : abort -> Prop.

Notation ipok := (ipok P start).
Notation vm_inv0 := (vm_inv0 P start).
Notation vm_inv := (vm_inv P start).
Notation ninv := (ninv P start).
Notation res_ok := (res_ok P start).

Hypothesis Hcode : code_ok P start.
Hypothesis Hre : reenter_ok P reenter start OKA.

(* an instruction result is fine when it is not an abort, or an acceptable one *)
Definition stop_ok (r : sres) : Prop := match r with SStop a _ => OKA a | _ => True end.
Lemma no_stop_stop_ok r : no_stop r -> stop_ok r.
Proof. destruct r; cbn; tauto. Qed.

(* the conditions on one instruction that are not structural:
   the heap is acyclic (A-37) and holds no native function value that calls back; ForEach in a Debug build finds
   a non-negative counter; RegisterUpvalue captures an existing variable *)
Record side (ip0 : N) (s : state) : Prop := mkSide {
  sd_acyclic : heap_acyclic (st_heap s);
  sd_natives : natives_simple (st_heap s);
  sd_foreach : opcode_at P ip0 = 36%N -> bld = Debug ->
               forall lv off i, op_u32 P (ip0 + 1) = Some lv -> top_offset s = Some off ->
                 to_i64 F (st_heap s) (sget s (off + N.to_nat lv)) = Some i -> (0 <= i)%Z;
  sd_reg : opcode_at P ip0 = 45%N ->
           forall index is_local, read_le (p_code P) (ip0 + 1) 1 = Some index ->
             read_le (p_code P) (ip0 + 1 + 1) 1 = Some is_local -> reg_upvalue_ok s index is_local
}.

Definition step_pre3 (ip0 : N) (s : state) : Prop :=
  vm_inv s /\ start ip0 /\ (ip0 < code_len P)%N /\ side ip0 s.

Lemma step_pre3_step_pre2 ip0 s : step_pre3 ip0 s -> step_pre2 F bld P ip0 s.
Proof.
  intros ([Hi Hc] & Hs & Hl & Hsd). destruct (co_opcode P start Hcode ip0 Hs Hl) as [Hop Hops].
  constructor.
  - exact Hops.
  - exact Hc.
  - apply (vi_stack P start s Hi).
  - apply (vi_closed P start s Hi).
  - apply (vi_heap P start s Hi).
  - intros fr ca Hfr Eca. apply (vi_frames P start s Hi fr Hfr). exact Eca.
  - apply (vi_open P start s Hi).
  - apply Hsd.
  - intros Hin raw Eraw. apply (co_jump P start Hcode ip0 Hs Hl Hin raw Eraw).
  - apply Hsd.
  - apply Hsd.
Qed.

(* ---- natives at the instruction level ---- *)
Lemma native_step_full h ip s : ninv s -> ipok ip -> (0 < code_len P)%N ->
  stop_ok (native_step F P reenter h ip s) /\ res_ok s (native_step F P reenter h ip s).
Proof.
  intros Hn Hip Hl. unfold native_step.
  pose proof (call_native_ok0 F P reenter start OKA Hcode Hre Hl h s Hn) as H.
  destruct (call_native F P reenter h s) as [v s1|e s1|]; cbn [nres_ok0] in H; [| |split; [exact H | exact I]].
  - destruct H as ([I1 Hc1] & Hlen & _). split; [exact I|].
    cbn [C04VmProofs5.res_ok]. split; [split; [exact I1 | exact Hlen] | split; [exact Hc1 | exact Hip]].
  - destruct H as ([I1 Hc1] & Hlen). split; [exact I|]. cbn [C04VmProofs5.res_ok]. split; [exact I1 | exact Hlen].
Qed.

Section OneStep.
Variable ip0 : N.
Variable s : state.
Hypothesis Hpre : step_pre3 ip0 s.

Let Hinv : vm_inv s := proj1 Hpre.
Let Hi : vm_inv0 s := proj1 Hinv.
Let Hc : st_calls s <> [] := proj2 Hinv.
Let Hs : start ip0 := proj1 (proj2 Hpre).
Let Hl : (ip0 < code_len P)%N := proj1 (proj2 (proj2 Hpre)).
Let Hsd : side ip0 s := proj2 (proj2 (proj2 Hpre)).

Lemma Hninv : ninv s.
Proof. split; [exact Hinv | split; apply Hsd]. Qed.

Lemma code_nonempty : (0 < code_len P)%N.
Proof. lia. Qed.

Lemma next_ok k : opcode_at P ip0 = k -> ipok (ip0 + 1 + operand_len k).
Proof. intros <-. apply (co_next P start Hcode ip0 Hs Hl). Qed.

(* ---- no abort, every opcode ---- *)
Lemma ns3_4 : opcode_at P ip0 = 4%N -> stop_ok (step F bld P reenter ip0 s).
Proof.
  intros Hop. pose proof Hop as Hk. step_opc Hop. unfold i_4.
  destruct (op_u32_some P (ip0 + 1)) as [h Eh].
  { destruct (co_opcode P start Hcode ip0 Hs Hl) as [_ H]. rewrite Hk in H. change (operand_len 4) with 4%N in H. exact H. }
  rewrite Eh.
  refine (proj1 (native_step_full h (ip0 + 1 + 4) s Hninv _ code_nonempty)).
  pose proof (next_ok 4%N Hk) as H. exact H.
Qed.

Lemma ns3_11 : opcode_at P ip0 = 11%N -> stop_ok (step F bld P reenter ip0 s).
Proof.
  intros Hop. pose proof (step_pre3_step_pre2 ip0 s Hpre) as Hp2.
  destruct (top1 s) as [| | |a] eqn:Et; try (apply no_stop_stop_ok; apply (ns2_11 F bld P reenter ip0 s Hp2); [intros; congruence | exact Hop]).
  destruct (hget (st_heap s) a) as [o|] eqn:Ea;
    [|apply no_stop_stop_ok; apply (ns2_11 F bld P reenter ip0 s Hp2); [intros a0 h E; inversion E; subst; congruence | exact Hop]].
  destruct o as [| | |h| |];
    try (apply no_stop_stop_ok; apply (ns2_11 F bld P reenter ip0 s Hp2); [intros a0 h0 E; inversion E; subst; congruence | exact Hop]).
  (* a native function value *)
  pose proof Hop as Hk. step_opc Hop. unfold i_11. unfold top1 in Et.
  destruct (spop s) as [s1 fv] eqn:E1. cbn [snd] in Et. subst fv.
  destruct (inv_spop P start _ _ _ E1 Hi) as (I1 & _ & Hh & Hca & _).
  rewrite Hh, Ea.
  refine (proj1 (native_step_full h (ip0 + 1) s1 _ _ code_nonempty)).
  - apply (ninv_same_heap P start s s1 Hninv I1); [rewrite Hca; exact Hc | exact Hh].
  - pose proof (next_ok 11%N Hk) as H. change (operand_len 11) with 0%N in H. rewrite N.add_0_r in H. exact H.
Qed.

Lemma stop_ok_inv r : stop_ok r -> forall a s', r = SStop a s' -> OKA a.
Proof. intros H a s' ->. exact H. Qed.

Theorem step_no_abort_all : forall a s', step F bld P reenter ip0 s = SStop a s' -> OKA a.
Proof.
  destruct (co_opcode P start Hcode ip0 Hs Hl) as [Hop _].
  destruct (N.eq_dec (opcode_at P ip0) 4) as [E4|N4]; [apply stop_ok_inv; apply ns3_4; exact E4|].
  destruct (N.eq_dec (opcode_at P ip0) 11) as [E11|N11]; [apply stop_ok_inv; apply ns3_11; exact E11|].
  intros a s' E. exfalso.
  apply (step_no_abort_no_native F bld P reenter ip0 s (step_pre3_step_pre2 ip0 s Hpre) Hop N4 ltac:(intros E'; congruence) a s' E).
Qed.

(* ---- preservation, every opcode ---- *)
Lemma pv_native_here h ip s1 : C04VmProofs4.vm_inv P start s1 -> ipok ip -> st_heap s1 = st_heap s ->
  res_ok s1 (native_step F P reenter h ip s1).
Proof.
  intros [I1 Hc1] Hip Hh.
  exact (proj2 (native_step_full h ip s1 (ninv_same_heap P start s s1 Hninv I1 Hc1 Hh) Hip code_nonempty)).
Qed.

Theorem step_preserves : res_ok s (step F bld P reenter ip0 s).
Proof.
  destruct (co_opcode P start Hcode ip0 Hs Hl) as [Hop _].
  (* natives reached through CallFunction *)
  assert (Hnat : forall h ip s1, C04VmProofs4.vm_inv P start s1 -> ipok ip -> st_heap s1 = st_heap s ->
            (exists a, hget (st_heap s) a = Some (ONative h)) -> res_ok s1 (native_step F P reenter h ip s1)).
  { intros h ip s1 Hv1 Hip Hh Hex. apply pv_native_here; auto. }
  unfold step. cbv zeta. fold (opcode_at P ip0).
  remember (opcode_at P ip0) as k eqn:Ek. symmetry in Ek.
  assert (Hnext : ipok (ip0 + 1 + operand_len k)) by (apply next_ok; exact Ek).
  assert (H4 : k = 4%N -> res_ok s (i_4 F P reenter k ip0 (ip0 + 1) s)).
  { intros ->. unfold i_4. destruct (op_u32 P (ip0 + 1)) as [h|] eqn:Eh; [|exact I].
    apply pv_native_here; [exact Hinv | exact Hnext | reflexivity]. }
  destruct k as [|p]; [|do 6 (try destruct p as [p|p|]); try lia];
    try (apply H4; reflexivity); clear H4;
    cbn [operand_len] in Hnext; rewrite ?N.add_0_r in Hnext.
  all: try (eapply pv_binary_op; [exact reenter | exact Hinv | exact Hnext |];
            first [ intros h a b v; apply arith_op_scalar | intros h a b v; apply div_op_scalar
                  | intros h a b v; apply bool_op_scalar | intros h a b v; apply eq_op_scalar
                  | intros h a b v; apply less_op_scalar ]).
  all: try (apply pv_push_next; [exact Hi | exact Hc | exact Hnext | first [exact I | apply vs_last_ok; apply (vi_closed P start s Hi)]]).
  all: try (match goal with
    | |- context [SNext] => eapply pv_i_16
    | |- context [i_5] => eapply pv_i_5
    | |- context [i_6] => eapply pv_i_6
    | |- context [i_8] => eapply pv_i_8
    | |- context [i_38] => eapply pv_i_38
    | |- context [i_31] => eapply pv_i_31
    | |- context [i_37_42] => eapply pv_i_37_42
    | |- context [i_17] => eapply pv_i_17
    | |- context [i_18] => eapply pv_i_18
    | |- context [i_19] => eapply pv_i_19
    | |- context [i_20] => eapply pv_i_20
    | |- context [i_21] => eapply pv_i_21
    | |- context [i_22] => eapply pv_i_22
    | |- context [i_23] => eapply pv_i_23
    | |- context [i_27] => eapply pv_i_27
    | |- context [i_34] => eapply pv_i_34
    | |- context [i_32] => eapply pv_i_32
    | |- context [i_33] => eapply pv_i_33
    | |- context [i_40] => eapply pv_i_40
    | |- context [i_41] => eapply pv_i_41
    | |- context [i_36] => eapply pv_i_36
    | |- context [i_39] => eapply pv_i_39
    | |- context [i_43_44] => eapply pv_i_43_44
    | |- context [i_46] => eapply pv_i_46
    | |- context [i_45] => eapply pv_i_45
    | |- context [i_35] => eapply pv_i_35
    | |- context [i_11] => eapply pv_i_11
    | |- context [i_28] => eapply pv_i_28
    | |- context [i_29_30] => eapply pv_i_29_30
    end;
    solve [ first [ eassumption | exact reenter | exact Hnat | (cbn [In]; tauto)
          | (replace (ip0 + 1 + 8 + 12)%N with (ip0 + 1 + 20)%N by lia; exact Hnext) ] ]).
  apply st_ok_refl; exact Hi.
Qed.

End OneStep.

(* ================================================================== *)
(* The dispatch loop                                                   *)
(* ================================================================== *)

(* the state in which `_run` dispatches the instruction at the current position *)
Definition pre_state (s : state) : state := tick (set_rem s (N.pred (st_rem s))).

(* the (instruction pointer, state) pairs at the head of the loop, from (ip, s) on *)
Inductive reaches (ip : N) (s : state) : N -> state -> Prop :=
| reach_refl : reaches ip s ip s
| reach_step ip1 s1 ip2 s2 : reaches ip s ip1 s1 -> (ip1 < code_len P)%N -> N.pred (st_rem s1) <> 0%N ->
    step F bld P reenter ip1 (pre_state s1) = SNext ip2 s2 -> reaches ip s ip2 s2.

Lemma reaches_trans ip s ip1 s1 ip2 s2 : reaches ip s ip1 s1 -> reaches ip1 s1 ip2 s2 -> reaches ip s ip2 s2.
Proof. intros H1 H2. induction H2; [exact H1 | eapply reach_step; eauto]. Qed.

(* every instruction that the loop dispatches meets the non-structural conditions *)
Definition sides_hold (ip : N) (s : state) : Prop :=
  forall ip' s', reaches ip s ip' s' -> (ip' < code_len P)%N -> N.pred (st_rem s') <> 0%N -> side ip' (pre_state s').

Hypothesis re_paid : forall ip s, rres_R paid (cr s) (reenter ip s).

Theorem loop_no_abort : forall fuel ip s,
  vm_inv s -> ipok ip -> sides_hold ip s -> (st_rem s <= N.of_nat fuel)%N ->
  match loop F bld P reenter fuel ip s with
  | RStop a _ => OKA a
  | ROk s' | RErr _ _ s' => vm_inv0 s' /\ length (st_heap s) <= length (st_heap s')
  end.
Proof.
  induction fuel as [|f IH]; intros ip s Hinv Hip Hsides Hfuel.
  - cbn [loop]. destruct (code_len P <=? ip)%N; [split; [apply Hinv | apply Nat.le_refl]|].
    cbn [st_rem set_rem]. destruct (N.eqb_spec (N.pred (st_rem s)) 0); [|lia].
    split; [apply inv_set_rem; apply Hinv | apply Nat.le_refl].
  - cbn [loop]. destruct (N.leb_spec (code_len P) ip) as [Hge|Hlt]; [split; [apply Hinv | apply Nat.le_refl]|].
    cbn [st_rem set_rem]. destruct (N.eqb_spec (N.pred (st_rem s)) 0) as [E0|E0];
      [split; [apply inv_set_rem; apply Hinv | apply Nat.le_refl]|].
    change (tick (set_rem s (N.pred (st_rem s)))) with (pre_state s).
    assert (Hpre : step_pre3 ip (pre_state s)).
    { split; [split; [apply inv_tick, inv_set_rem; apply Hinv | apply Hinv]|].
      split; [apply Hip; exact Hlt|]. split; [exact Hlt|]. apply Hsides; [constructor | exact Hlt | exact E0]. }
    pose proof (step_no_abort_all ip (pre_state s) Hpre) as Hns.
    pose proof (step_preserves ip (pre_state s) Hpre) as Hpv.
    pose proof (@step_count_rel paid paid_refl paid_trans F bld P reenter re_paid ip (pre_state s)) as Hcnt.
    unfold pre_state in Hcnt at 1. rewrite tick_cr in Hcnt. cbn [st_count st_rem set_rem] in Hcnt.
    destruct (step F bld P reenter ip (pre_state s)) as [ip' s'|s'|e ip' s'|a s'] eqn:Es.
    + destruct Hpv as ([I' Hl'] & Hc' & Hip'). cbn [sres_R] in Hcnt. unfold paid, cr in Hcnt. cbn [fst snd] in Hcnt.
      specialize (IH ip' s' (conj I' Hc') Hip').
      assert (Hs' : sides_hold ip' s').
      { intros ip2 s2 Hr. apply Hsides. eapply reaches_trans; [|exact Hr]. eapply reach_step; [constructor | exact Hlt | exact E0 | exact Es]. }
      specialize (IH Hs' ltac:(lia)).
      destruct (loop F bld P reenter f ip' s'); try exact IH; (split; [apply IH|]; destruct IH as [_ IH]; cbn in Hl'; lia).
    + destruct Hpv as [I' Hl']. split; [exact I' | exact Hl'].
    + destruct Hpv as [I' Hl']. split; [exact I' | exact Hl'].
    + eapply Hns; reflexivity.
Qed.

End Final.

(* ================================================================== *)
(* Vm::run                                                             *)
(* ================================================================== *)

Lemma fresh_inv0 P start : vm_inv0 P start fresh_state.
Proof.
  constructor.
  - unfold cap. cbn [fresh_state st_stack vs_new vdata vcount]. rewrite repeat_length. unfold stack_size. lia.
  - exact (fresh_stack_closed []).
  - intros v [].
  - intros a o H. unfold hget in H. cbn [fresh_state st_heap] in H. destruct (N.to_nat a); discriminate.
  - intros fr [].
  - exists []. split; constructor.
Qed.

(* A run of [P] from a state [s] that satisfies the structural invariant (a new Vm, or the state a previous run
   left) never aborts, provided the nested runs keep their contract and every instruction the top-level loop
   dispatches meets [side] (acyclic heap, ...). *)
Theorem run_no_abort : forall F bld P start budget s,
  code_ok P start ->
  reenter_ok P (run_at F bld P false (N.of_nat budget) 129) start (fun _ => False) ->
  vm_inv0 P start s ->
  (forall s1, push_frame s (mkFrame 0 0 0 None) = Some s1 ->
     sides_hold F bld P (run_at F bld P false (N.of_nat budget) 129) 0 (set_rem s1 (N.of_nat budget))) ->
  forall a, fst (run F bld budget P s) <> OAbort a.
Proof.
  intros F bld P start budget s Hcode Hre Hi Hsides a. unfold run, run_gen.
  destruct (push_frame s (mkFrame 0 0 0 None)) as [s1|] eqn:E1; [|discriminate].
  assert (Hf : frame_ok P start s (mkFrame 0 0 0 None)).
  { split; [cbn [fr_off]; destruct (vi_stack P start s Hi); change (N.to_nat 0) with 0; lia|].
    split; [apply (co_zero P start Hcode) | intros ca Eca; discriminate]. }
  destruct (inv_push_frame P start _ _ _ E1 Hi Hf) as (I1 & Hh1 & Hc1 & _).
  change max_depth with (S 129). cbn [run_at]. unfold run_loop.
  pose proof (loop_no_abort F bld P (run_at F bld P false (N.of_nat budget) 129) start (fun _ => False) Hcode Hre
                (run_at_paid F bld P (N.of_nat budget) 129)
                (N.to_nat (st_rem (set_rem s1 (N.of_nat budget)))) 0 (set_rem s1 (N.of_nat budget))) as H.
  destruct (loop _ _ _ _ _ _ _) as [s'|e ip' s'|ab s'].
  - cbn. discriminate.
  - cbn. discriminate.
  - exfalso. apply H.
    + split; [apply inv_set_rem; exact I1 | cbn [set_rem st_calls]; rewrite Hc1; discriminate].
    + apply (co_zero P start Hcode).
    + apply Hsides. reflexivity.
    + rewrite N2Nat.id. apply N.le_refl.
Qed.

(* ---- the statements for the VM itself: no abort at all is acceptable ---- *)
Definition no_abort_ok : abort -> Prop := fun _ => False.

Theorem step_no_abort_strict : forall F bld P reenter start,
  code_ok P start -> reenter_ok P reenter start no_abort_ok ->
  forall ip0 s, step_pre3 F bld P start ip0 s ->
  forall a s', step F bld P reenter ip0 s <> SStop a s'.
Proof. intros F bld P reenter start Hc Hre ip0 s Hpre a s' E. exact (step_no_abort_all F bld P reenter start no_abort_ok Hc Hre ip0 s Hpre a s' E). Qed.

Theorem loop_no_abort_strict : forall F bld P reenter start,
  code_ok P start -> reenter_ok P reenter start no_abort_ok ->
  (forall ip s, rres_R paid (cr s) (reenter ip s)) ->
  forall fuel ip s,
    vm_inv P start s -> ipok P start ip -> sides_hold F bld P reenter ip s -> (st_rem s <= N.of_nat fuel)%N ->
    match loop F bld P reenter fuel ip s with
    | RStop _ _ => False
    | ROk s' | RErr _ _ s' => vm_inv0 P start s' /\ length (st_heap s) <= length (st_heap s')
    end.
Proof.
  intros F bld P reenter start Hc Hre Hp fuel ip s Hi Hip Hs Hf.
  pose proof (loop_no_abort F bld P reenter start no_abort_ok Hc Hre Hp fuel ip s Hi Hip Hs Hf) as H.
  destruct (loop F bld P reenter fuel ip s); exact H.
Qed.
