(* C01, simulation: every program of the fragment F10 (F9 plus a call in statement position) whose function names
   contain no '.' is well-scoped (RefScope.well_scoped).  The rules for right-hand sides, the program table and the
   names are those of C01SimScope9. *)
From Coq Require Import List NArith ZArith Bool Arith Lia.
From Cao Require Import CheckUtil CardAst Table RefSem RefScope StdlibGen C01SimDefs C01SimRef C01SimDefs2 C01SimDefs3 C01SimDefs4 C01SimDefs5 C01SimRef5 C01SimDefs6 C01SimDefs7 C01SimScope C01SimDefs9 C01SimScope9 C01SimDefs10.
From Cao Require Compiler TableProofs C01SimComp C01SimComp5.
Import ListNotations.

(* ------------------------------------------------------------------ the scoping rules *)
Section Ws10.
Variable P : list fentry.
Variable fi : nat.
Variable sg : sig9.
Hypothesis Hsg : forall name n, Compiler.sm_find name sg = Some n ->
  exists i fe, resolve P fi name = Some i /\ nth_error P i = Some fe /\ length (f_args (fe_fn fe)) = n.


Lemma stmt_ws10 ret Ln c : stmt10 sg ret Ln c = true -> forall decl up, ws P fi ret decl Ln up c = Some Ln.
Proof.
  induction c using CompilerWf.card_ind'; intros Hc; cbn [stmt10] in Hc; try discriminate Hc; intros decl up.
  - (* IfTrue / IfFalse *)
    destruct op; try discriminate Hc; apply andb_true_iff in Hc; destruct Hc as [He Hb];
      destruct (expr_ws P fi c1 He ret false Ln up) as [A1 B1]; cbn [ws];
      rewrite A1, B1, (IHc2 Hb false up); reflexivity.
  - (* Return *)
    destruct op; try discriminate Hc. apply andb_true_iff in Hc. destruct Hc as [Hret He]. subst ret.
    destruct (rhs_ws P fi sg Hsg c He true false Ln up) as [A1 B1]. cbn [ws andb].
    destruct c; try discriminate He; rewrite A1, B1; reflexivity.
  - (* IfElse *)
    destruct op; try discriminate Hc. apply andb_true_iff in Hc. destruct Hc as [Hc Hb].
    apply andb_true_iff in Hc. destruct Hc as [He Ha].
    destruct (expr_ws P fi c1 He ret false Ln up) as [A1 B1]. cbn [ws].
    rewrite A1, B1, (IHc2 Ha false up), (IHc3 Hb false up). reflexivity.
  - (* Call as a statement *)
    exact (proj1 (rhs_ws P fi sg Hsg _ Hc ret decl Ln up)).
  - (* SetGlobalVar *)
    apply andb_true_iff in Hc. destruct Hc as [Hne He].
    destruct (rhs_ws P fi sg Hsg c He ret false Ln up) as [A1 B1]. rewrite is_empty_conv in Hne. cbn [ws]. rewrite Hne.
    destruct c; try discriminate He; rewrite A1, B1; reflexivity.
  - (* SetVar of a local *)
    apply andb_true_iff in Hc. destruct Hc as [Hc He]. apply andb_true_iff in Hc. destruct Hc as [Hx Hm].
    unfold var_ok in Hx. apply andb_true_iff in Hx. destruct Hx as [Hne Hdot].
    apply negb_true_iff in Hne, Hdot. rewrite is_empty_conv in Hne.
    destruct (rhs_ws P fi sg Hsg c He ret false Ln up) as [A1 B1]. cbn [ws].
    rewrite (rsplit_no_dot _ Hdot), Hne, mem_lmem, Hm. cbn [orb].
    destruct c; try discriminate He; rewrite A1, B1; reflexivity.
Qed.

Lemma top_ws10 ret Ln c : top10 sg ret Ln c = true -> ws P fi ret true Ln [] c = Some (names_next Ln c).
Proof.
  intros Hc.
  assert (Hstmt : stmt10 sg ret Ln c = true -> names_next Ln c = Ln -> ws P fi ret true Ln [] c = Some (names_next Ln c)).
  { intros H5 Hn. rewrite Hn. apply stmt_ws10, H5. }
  destruct c; try (apply Hstmt; [exact Hc | reflexivity]).
  cbn [top10] in Hc. apply andb_true_iff in Hc. destruct Hc as [Hx He].
  unfold var_ok in Hx. apply andb_true_iff in Hx. destruct Hx as [Hne Hdot].
  apply negb_true_iff in Hne, Hdot. rewrite is_empty_conv in Hne.
  destruct (rhs_ws P fi sg Hsg c He ret false Ln []) as [A1 B1]. cbn [ws names_next].
  rewrite (rsplit_no_dot _ Hdot), Hne, mem_lmem. cbn [mem existsb orb]. rewrite orb_false_r.
  destruct c; try discriminate He; rewrite A1, B1; cbn [negb]; destruct (lmem name Ln); reflexivity.
Qed.

Lemma cards_ws10 ret cards : forall Ln, cards10 sg ret Ln cards = true -> ws_seq P fi ret Ln cards = true.
Proof.
  induction cards as [|c r IH]; intros Ln; cbn [cards10 ws_seq]; [reflexivity|]. intros H.
  apply andb_true_iff in H. destruct H as [H1 H2]. rewrite (top_ws10 ret Ln c H1). apply IH, H2.
Qed.
End Ws10.

Lemma fns_ws10 P sl : forall later pre, P = map ent (pre ++ later) ++ sl -> pre <> [] ->
  snodup (map fst (pre ++ later)) = true -> fns_ok10 later = true ->
  forallb (fun ife => is_std (snd ife) || ws_function P 0 (fst ife) (snd ife))
          (combine (seq (length pre) (length later)) (map ent later)) = true.
Proof.
  induction later as [|[nm f] r IH]; intros pre HP Hpre Hnd Hok; [reflexivity|].
  cbn [fns_ok10] in Hok. apply andb_true_iff in Hok. destruct Hok as [Hf Hok].
  cbn [length seq map combine forallb fst snd].
  assert (Eapp : pre ++ (nm, f) :: r = (pre ++ [(nm, f)]) ++ r) by (rewrite <- app_assoc; reflexivity).
  rewrite andb_true_iff. split.
  - unfold is_std, ws_function. cbn [ent fe_ns fe_fn snd orb].
    unfold fn_ok10 in Hf. apply andb_true_iff in Hf. destruct Hf as [Hf Hcards].
    apply andb_true_iff in Hf. destruct Hf as [Hvar Hpnd].
    assert (Hz : Nat.eqb (length pre) 0 = false) by (destruct pre; [contradiction | reflexivity]).
    rewrite Hz, <- snodup_nodup, Hpnd, (forallb_named _ Hvar). cbn [andb negb].
    apply (cards_ws10 P (length pre) (sig_of r)); [|exact Hcards].
    subst P. rewrite Eapp. apply (resolve_sig _ _ _ _ (ent (nm, f))); [|rewrite <- Eapp; exact Hnd].
    rewrite <- Eapp, map_app, <- app_assoc, nth_error_app2; rewrite map_length; [|lia].
    rewrite Nat.sub_diag. reflexivity.
  - replace (S (length pre)) with (length (pre ++ [(nm, f)])) by (rewrite app_length; cbn [length]; lia).
    apply IH; [rewrite <- Eapp; exact HP | destruct pre; discriminate | rewrite <- Eapp; exact Hnd | exact Hok].
Qed.

(* ------------------------------------------------------------------ the theorem *)
Theorem f10_well_scoped M :
  forallb (fun nf => negb (existsb (N.eqb 46) (fst nf))) (m_functions M) = true ->
  in_f10 M = true -> well_scoped M = true.
Proof.
  intros Hdots HM. destruct M as [subs funs imps]. cbn [in_f10] in HM. cbn [m_functions] in Hdots.
  destruct subs; [|discriminate]. destruct funs as [|[name f] others]; [discriminate|].
  destruct imps; [|discriminate].
  apply andb_true_iff in HM. destruct HM as [HM Hok]. apply andb_true_iff in HM. destruct HM as [HM Hcards].
  apply andb_true_iff in HM. destruct HM as [HM Hnd]. apply andb_true_iff in HM. destruct HM as [Hname Hargs].
  apply str_eqb_main in Hname. subst name.
  assert (Ha : f_args f = []) by (destruct (f_args f); [reflexivity | discriminate]).
  unfold well_scoped, program_of, add_std. cbn [app].
  change 64%nat with (S 63). rewrite (flatten_f9 63 _ stdl stdl_eq).
  cbn [map app find_index ent fe_name fst]. change (str_eqb s_main s_main) with true. cbv iota.
  destruct stdl_dots as [Hsnd Hsdots].
  apply andb_true_iff. split.
  - (* the names are pairwise distinct *)
    change (nodup (map fe_name (map ent ((s_main, f) :: others) ++ stdl)) = true).
    rewrite map_app, map_map. cbn [ent fe_name].
    apply nodup_app; [rewrite <- snodup_nodup; exact Hnd | exact Hsnd |].
    rewrite forallb_forall. intros x Hx. apply in_map_iff in Hx. destruct Hx as (nf & <- & Hin).
    rewrite forallb_forall in Hdots. pose proof (Hdots _ Hin) as Hd. apply negb_true_iff in Hd.
    apply negb_true_iff. apply (mem_dots _ Hd _ Hsdots).
  - (* the functions *)
    change (forallb (fun ife => is_std (snd ife) || ws_function (map ent ((s_main, f) :: others) ++ stdl) 0 (fst ife) (snd ife))
              (combine (seq 0 (length (map ent ((s_main, f) :: others) ++ stdl))) (map ent ((s_main, f) :: others) ++ stdl)) = true).
    rewrite app_length, seq_app, combine_app by (rewrite seq_length; reflexivity).
    set (P := map ent ((s_main, f) :: others) ++ stdl).
    rewrite forallb_app. apply andb_true_iff. split.
    + cbn [map length seq combine forallb fst snd]. apply andb_true_iff. split.
      * unfold is_std, ws_function. cbn [ent fe_ns fe_fn snd orb]. rewrite Ha. cbn [nodup forallb andb Nat.eqb negb].
        apply (cards_ws10 P 0 (sig_of others)); [|exact Hcards].
        apply (resolve_sig [(s_main, f)] others stdl 0 (ent (s_main, f))); [reflexivity | exact Hnd].
      * rewrite map_length.
        apply (fns_ws10 P stdl others [(s_main, f)]); [reflexivity | discriminate | exact Hnd | exact Hok].
    + apply forallb_std_combine. apply (proj2 stdl_facts).
Qed.
